(* main_core.ml -- runs the extracted actor-core model on a script file (format: DESIGN 13) *)
open Model
open Glue

let ni s = n_of_int (int_of_string s)
let zi s = z_of_int (int_of_string s)
let nati s = nat_of_int (int_of_string s)
let b s = s <> "0"

let kind_of = function
  | "ps" -> KPs | "fd" -> KFd | "tmr" -> KTmr | "sgn" -> KSgn | "path" -> KPath | "pid" -> KPid
  | "task" -> KTask | "thresh" -> KThresh | "sub" -> KSub | s -> failwith ("bad kind " ^ s)
let cbkind_of = function
  | "eval" -> CbEval | "start" -> CbStart | "stop" -> CbStop | "evt" -> CbEvt | s -> failwith ("bad cb kind " ^ s)
let cbkind_str = function CbEval -> "eval" | CbStart -> "start" | CbStop -> "stop" | CbEvt -> "evt"
let mstate_num = function MIdle -> 1 | MRunning -> 2 | MPaused -> 4 | MStopped -> 8 | MZombie -> 16

let rec call_of = function
  | "foreign" :: own :: rest -> CForeign (b own, call_of rest)
  | ["ctxreg"; p] -> CCtxReg (b p) | ["ctxdereg"] -> CCtxDereg | ["finalize"] -> CCtxFinalize
  | ["loop"] -> CCtxLoop | ["dispatch"] -> CCtxDispatch | ["quit"; c] -> CCtxQuit (ni c)
  | ["ctxlen"] -> CCtxLen | ["stats"] -> CCtxStats | ["settick"; ns] -> CCtxSetTick (ni ns)
  | ["reg"; m] -> CReg (nati m) | ["dereg"; m] -> CDereg (nati m) | ["start"; m] -> CStart (nati m)
  | ["pause"; m] -> CPause (nati m) | ["resume"; m] -> CResume (nati m) | ["stop"; m] -> CStop (nati m)
  | ["state"; m] -> CState (nati m) | ["ref"; m] -> CRef (nati m) | ["unref"; m] -> CUnref (nati m)
  | ["become"; m; h] -> CBecome (nati m, nati h) | ["unbecome"; m] -> CUnbecome (nati m)
  | ["stash"; m; k] -> CStash (nati m, nati k) | ["unstash"; m; n] -> CUnstash (nati m, nati n)
  | ["evtref"; k] -> CEvtRef (nati k) | ["evtunref"; j] -> CEvtUnref (nati j)
  | ["batchsize"; m; n] -> CBatchSize (nati m, ni n) | ["batchtimeout"; m; ns] -> CBatchTimeout (nati m, ni ns)
  | ["tb"; m; r; bu] -> CTokenBucket (nati m, ni r, ni bu)
  | ["sub"; m; t; p; o; up] -> CSub (nati m, ni t, nati p, b o, ni up)
  | ["unsub"; m; t] -> CUnsub (nati m, ni t)
  | ["tell"; m; r; d; af] -> CTell (nati m, nati r, ni d, b af)
  | ["tellmany"; m; r; d; n] -> CTellMany (nati m, nati r, ni d, nati n)
  | ["publish"; m; t; d; af] -> CPublish (nati m, ni t, ni d, b af)
  | ["broadcast"; m; d; af] -> CBroadcast (nati m, ni d, b af)
  | ["pill"; m; r] -> CPill (nati m, nati r)
  | ["srcreg"; m; k; key; p; o; ac; up] -> CSrcReg (nati m, kind_of k, ni key, nati p, b o, b ac, ni up)
  | ["srcdereg"; m; k; key] -> CSrcDereg (nati m, kind_of k, ni key)
  | ["srclen"; m; k] -> CSrcLen (nati m, nati k)
  | ["fdwrite"; fd] -> CFdWrite (ni fd) | ["fire"; m; k; key] -> CFire (nati m, kind_of k, ni key)
  | ["firetick"] -> CFireTick | ["errno"; e] -> CSetErrno (zi e) | ["live"] -> CLive
  | t -> failwith ("bad call: " ^ String.concat " " t)

let call_names = [ "?"; "ctxreg"; "ctxdereg"; "finalize"; "loop"; "dispatch"; "quit"; "ctxlen"; "stats"; "settick"; "reg"; "dereg"; "start";
  "pause"; "resume"; "stop"; "state"; "ref"; "unref"; "become"; "unbecome"; "stash"; "unstash"; "evtref"; "evtunref"; "batchsize";
  "batchtimeout"; "tb"; "sub"; "unsub"; "tell"; "publish"; "broadcast"; "pill"; "srcreg"; "srcdereg"; "srclen"; "fdwrite"; "fire";
  "firetick"; "errno"; "live"; "tellmany"; "foreign" ]

let desc_str d =
  Printf.sprintf "%d:%d:%d:%d:%d:%d:%d" (int_of_nat d.d_kind) (int_of_n d.d_key) (int_of_n d.d_topic) (int_of_n d.d_data)
    (int_of_z d.d_sender) (if d.d_sys then 1 else 0) (int_of_n d.d_up)

let tev_str = function
  | TRet z -> "r" ^ string_of_int (int_of_z z)
  | TCb (m, k, n, h, st, evs) ->
      String.concat " " (["cb"; string_of_int (int_of_nat m); cbkind_str k; string_of_int (int_of_nat n); string_of_int (int_of_nat h);
                          "st=" ^ string_of_int (mstate_num st)] @ List.map desc_str evs)
  | TCbEnd -> "}"
  | TFreeData d -> "freedata " ^ string_of_int (int_of_n d)
  | TClose fd -> "close " ^ string_of_int (int_of_n fd)
  | TState (m, s) -> Printf.sprintf "state %d %d" (int_of_nat m) (mstate_num s)
  | TVal z -> "val " ^ string_of_int (int_of_z z)
  | TLive (a, b, c, d, e, f, g) ->
      Printf.sprintf "live mod=%d src=%d msg=%d evt=%d data=%d ctx=%d fd=%d" (int_of_nat a) (int_of_nat b) (int_of_nat c)
        (int_of_nat d) (int_of_nat e) (int_of_nat f) (int_of_nat g)
  | TFault n -> "FAULT " ^ string_of_int (int_of_nat n)
  | TMark (n, a) -> "> " ^ (try List.nth call_names (int_of_nat n) with _ -> "?") ^ (if int_of_n a = 0 then "" else " " ^ string_of_int (int_of_n a))

let () =
  let ic = open_in Sys.argv.(1) in
  let fuel = nat_of_int (if Array.length Sys.argv > 2 then int_of_string Sys.argv.(2) else 40) in
  let oc = stdout in
  (try
    while true do
      match tokens (input_line ic) with
      | "case" :: id :: _ ->
          let mods = ref [] and procs = Hashtbl.create 16 and cbs = ref [] and tsl = ref [] and rem = ref [] and pcap = ref 0 in
          let curp = ref (-1) and curl = ref [] in
          let fin = ref false in
          while not !fin do
            match tokens (input_line ic) with
            | ["end"] -> fin := true
            | ["mod"; _idx; name; slot; rp; pe; dc; dp; ds; he; hs; ht] ->
                mods := { ms_name = ni name; ms_slot = nati slot; ms_replace = b rp; ms_persist = b pe; ms_denyctx = b dc;
                          ms_denypub = b dp; ms_denysub = b ds; ms_hooks = { h_eval = b he; h_start = b hs; h_stop = b ht } } :: !mods
            | ["tslot"; t; s] -> tsl := (ni t, nati s) :: !tsl
            | ["pipecap"; n] -> pcap := int_of_string n
            | ["rem"; p; t; v] -> rem := ((ni p, ni t), b v) :: !rem
            | "cb" :: m :: k :: h :: specs ->
                let sp = List.map (fun s -> match String.split_on_char ':' s with
                                            | [p; r] -> { cb_proc = nati p; cb_ret = b r }
                                            | _ -> failwith "bad cb spec") specs in
                cbs := (((nati m, cbkind_of k), nati h), sp) :: !cbs
            | ["proc"; n] -> curp := int_of_string n; curl := []
            | ["endproc"] -> Hashtbl.replace procs !curp (List.rev !curl); curp := -1
            | [] -> ()
            | t when !curp >= 0 -> curl := call_of t :: !curl
            | t -> failwith ("unexpected line: " ^ String.concat " " t)
          done;
          let maxp = Hashtbl.fold (fun k _ a -> max k a) procs 1 in
          let plist = List.init (maxp + 1) (fun i -> try Hashtbl.find procs i with Not_found -> []) in
          let sc = { sc_mods = List.rev !mods; sc_procs = plist; sc_cbs = List.rev !cbs; sc_tslot = !tsl; sc_rematch = !rem; sc_pipecap = nat_of_int !pcap } in
          Printf.fprintf oc "case %s\n" id;
          List.iter (fun t -> output_string oc (tev_str t); output_char oc '\n') (core_run fuel sc);
          output_string oc "end\n"
      | [] -> ()
      | t -> failwith ("expected case: " ^ String.concat " " t)
    done
  with End_of_file -> ());
  close_in ic
