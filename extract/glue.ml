(* glue.ml -- hand-written, trusted: decimal <-> extracted binary numbers, printers *)
open Model

let rec pos_of_int n = if n = 1 then XH else if n land 1 = 0 then XO (pos_of_int (n lsr 1)) else XI (pos_of_int (n lsr 1))
let n_of_int n = if n = 0 then N0 else Npos (pos_of_int n)
let z_of_int n = if n = 0 then Z0 else if n > 0 then Zpos (pos_of_int n) else Zneg (pos_of_int (-n))
let rec nat_of_int n = if n <= 0 then O else S (nat_of_int (n - 1))
let rec int_of_pos = function XH -> 1 | XO p -> 2 * int_of_pos p | XI p -> 2 * int_of_pos p + 1
let int_of_n = function N0 -> 0 | Npos p -> int_of_pos p
let int_of_z = function Z0 -> 0 | Zpos p -> int_of_pos p | Zneg p -> - (int_of_pos p)
let rec int_of_nat = function O -> 0 | S n -> 1 + int_of_nat n
let bool_of_tok s = s <> "0"

(* arbitrary precision decimal <-> N (values above OCaml's 63 bit ints: pointers of the whole address range) *)
let n10 = n_of_int 10
let n_of_decimal (s : string) : n =
  let acc = ref N0 in
  String.iter (fun c -> if c >= '0' && c <= '9' then acc := N.add (N.mul !acc n10) (n_of_int (Char.code c - 48))) s;
  !acc
let rec decimal_of_n (x : n) : string =
  match x with
  | N0 -> "0"
  | _ ->
      let buf = Buffer.create 24 in
      let rec go x = match x with
        | N0 -> ()
        | _ -> let q = N.div x n10 in let r = N.modulo x n10 in go q; Buffer.add_char buf (Char.chr (48 + int_of_n r)) in
      go x; Buffer.contents buf

let ev_str = function
  | ERet z -> "r" ^ string_of_int (int_of_z z)
  | EPtr n -> "p" ^ decimal_of_n n
  | EDtor n -> "d" ^ decimal_of_n n
  | EVisit n -> "v" ^ decimal_of_n n
  | EFree n -> "f" ^ string_of_int (int_of_n n)
  | EAlloc n -> "a" ^ string_of_int (int_of_n n)

let print_groups oc (gs : ev list list) =
  List.iter (fun g -> output_string oc (String.concat " " (List.map ev_str g)); output_char oc '\n') gs

let tokens line = List.filter (fun s -> s <> "") (String.split_on_char ' ' (String.trim line))
