(* main_thpool.ml -- runs the extracted thread pool model on schedules *)
open Model
open Glue
let () =
  let ic = open_in Sys.argv.(1) in
  let oc = stdout in
  (try
    while true do
      match tokens (input_line ic) with
      | "case" :: id :: _ :: lz :: dt :: mx :: wa :: _ ->
          let subs = ref [] and sched = ref [] and fin = ref false in
          while not !fin do
            match tokens (input_line ic) with
            | ["end"] -> fin := true
            | "sub" :: ks -> subs := List.map (fun k -> nat_of_int (int_of_string k)) ks :: !subs
            | "sched" :: vs -> sched := !sched @ List.map (fun v -> let v = int_of_string v in if v < 0 then (nat_of_int (-v - 1), true) else (nat_of_int v, false)) vs
            | _ -> ()
          done;
          let (codes, (((ran, nth), unf), freed)) =
            thpool_run (lz <> "0") (dt <> "0") (nat_of_int (int_of_string mx)) (wa <> "0") (List.rev !subs) !sched in
          Printf.fprintf oc "case %s\n" id;
          Printf.fprintf oc "codes %s\n" (String.concat "" (List.map (fun c -> string_of_int (int_of_nat c) ^ " ") codes));
          Printf.fprintf oc "ran %s\n" (String.concat "" (List.map (fun (k, t) -> Printf.sprintf "%d:%d " (int_of_nat k) (int_of_nat t)) ran));
          Printf.fprintf oc "threads %d unfinished %d freed %d\n" (int_of_nat nth) (int_of_nat unf) (if freed then 1 else 0);
          output_string oc "end\n"
      | _ -> ()
    done
  with End_of_file -> ());
  close_in ic
