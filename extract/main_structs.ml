(* main_structs.ml -- runs the extracted container/allocator models on a script file *)
open Model
open Glue

let ni s = n_of_decimal s
let zi s = z_of_int (int_of_string s)
let nati s = nat_of_int (int_of_string s)

let qop = function
  | ["enq"; v] -> QEnq (ni v) | ["deq"] -> QDeq | ["peek"] -> QPeek | ["remove"] -> QRemove
  | ["clear"] -> QClear | ["len"] -> QLen | ["free"] -> QFree
  | ["iterate"; k; rc] -> QIterate (nati k, zi rc)
  | ["itrnew"] -> QItrNew | ["itrnext"] -> QItrNext | ["itrget"] -> QItrGet
  | ["itrset"; v] -> QItrSet (ni v) | ["itrrm"] -> QItrRm
  | t -> failwith ("bad queue op: " ^ String.concat " " t)
let sop = function
  | ["push"; v] -> SPush (ni v) | ["pop"] -> SPop | ["peek"] -> SPeek | ["remove"] -> SRemove
  | ["clear"] -> SClear | ["len"] -> SLen | ["free"] -> SFree
  | ["iterate"; k; rc] -> SIterate (nati k, zi rc)
  | ["itrnew"] -> SItrNew | ["itrnext"] -> SItrNext | ["itrget"] -> SItrGet
  | ["itrset"; v] -> SItrSet (ni v) | ["itrrm"] -> SItrRm
  | t -> failwith ("bad stack op: " ^ String.concat " " t)
let lop = function
  | ["ins"; v] -> LInsert (ni v) | ["rm"; v] -> LRemove (ni v) | ["find"; v] -> LFind (ni v)
  | ["clear"] -> LClear | ["len"] -> LLen | ["free"] -> LFree
  | ["iterate"; k; rc] -> LIterate (nati k, zi rc)
  | ["itrnew"] -> LItrNew | ["itrnext"] -> LItrNext | ["itrget"] -> LItrGet
  | ["itrset"; v] -> LItrSet (ni v) | ["itrrm"] -> LItrRm | ["itrins"; v] -> LItrInsert (ni v)
  | t -> failwith ("bad list op: " ^ String.concat " " t)
let bop = function
  | ["ins"; v] -> BInsert (ni v) | ["rm"; v] -> BRemove (ni v) | ["find"; v] -> BFind (ni v)
  | ["len"] -> BLen | ["clear"] -> BClear | ["free"] -> BFree
  | ["trav"; ty; k; rc] -> BTraverse (nati ty, nati k, zi rc)
  | ["itrnew"] -> BItrNew | ["itrnext"] -> BItrNext | ["itrget"] -> BItrGet | ["itrrm"] -> BItrRm
  | t -> failwith ("bad bst op: " ^ String.concat " " t)
let mop = function
  | ["put"; k; v] -> MPut (ni k, ni v) | ["get"; k] -> MGet (ni k) | ["has"; k] -> MContains (ni k)
  | ["rm"; k] -> MRemove (ni k) | ["len"] -> MLen | ["clear"] -> MClear | ["free"] -> MFree
  | ["iterate"; k; rc; rm] -> MIterate (nati k, zi rc, bool_of_tok rm)
  | ["itrnew"] -> MItrNew | ["itrnext"] -> MItrNext | ["itrkey"] -> MItrKey | ["itrget"] -> MItrGet
  | ["itrset"; v] -> MItrSet (ni v) | ["itrrm"] -> MItrRm
  | t -> failwith ("bad map op: " ^ String.concat " " t)
let kop = function
  | "new" :: id :: size :: dtor :: kids -> KNew (ni id, ni size, bool_of_tok dtor, List.map ni kids)
  | ["ref"; id] -> KRef (ni id) | ["unref"; id] -> KUnref (ni id) | ["unrefp"; id] -> KUnrefp (ni id)
  | ["size"; id] -> KSize (ni id) | ["null"; w] -> KNull (nati w)
  | t -> failwith ("bad mem op: " ^ String.concat " " t)

let () =
  let ic = open_in Sys.argv.(1) in
  let oc = stdout in
  let rec read_ops acc hashes =
    match tokens (input_line ic) with
    | ["end"] -> (List.rev acc, List.rev hashes)
    | ["hash"; k; h] -> read_ops acc ((ni k, ni h) :: hashes)
    | [] -> read_ops acc hashes
    | t -> read_ops (t :: acc) hashes in
  (try
    while true do
      match tokens (input_line ic) with
      | "case" :: id :: engine :: params ->
          let (ops, hashes) = read_ops [] [] in
          Printf.fprintf oc "case %s\n" id;
          let b i = bool_of_tok (List.nth params i) in
          let n i = ni (List.nth params i) in
          (match engine with
           | "queue" -> print_groups oc (q_run (b 0) (List.map qop ops))
           | "stack" -> print_groups oc (s_run (b 0) (List.map sop ops))
           | "list" -> print_groups oc (l_run (n 0) (b 1) (List.map lop ops))
           | "bst" -> print_groups oc (b_run (n 0) (b 1) (List.map bop ops))
           | "map" -> print_groups oc (m_run hashes (b 0) (b 1) (b 2) (List.map mop ops))
           | "mem" -> print_groups oc (k_run (List.map kop ops))
           | e -> failwith ("bad engine " ^ e));
          output_string oc "end\n"
      | [] -> ()
      | t -> failwith ("expected case: " ^ String.concat " " t)
    done
  with End_of_file -> ());
  close_in ic
