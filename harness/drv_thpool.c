/* drv_thpool.c -- runs Lib/thpool/thpool.c under a DETERMINISTIC scheduler.
 * Every pthread operation of the pool (mutex lock/unlock, cond wait/signal/
 * broadcast, create, join, cond_destroy) and every task body is a yield point:
 * the calling thread parks until the schedule read from the script names it.
 * The pool's mutex and condition are virtualised (owner / sleeper list kept by
 * this driver); exactly one pool thread runs at any time.  After each schedule
 * entry the driver prints the code of the pending operation of the chosen
 * thread, in the numbering of coq/Thpool.v (thread_code). */
#ifndef _GNU_SOURCE
#define _GNU_SOURCE
#endif
#include <stdio.h>
#include <stdlib.h>
#include <string.h>
#include <stdbool.h>
#include <stdint.h>
#include <unistd.h>
#include <errno.h>
#include <pthread.h>
#include <sys/wait.h>
#include <module/thpool/thpool.h>

enum { ST_RUNNING, ST_YIELDED, ST_SLEEPING, ST_FINISHED };
enum { OP_NONE, OP_LOCK, OP_UNLOCK, OP_WAIT, OP_RELOCK, OP_SIGNAL, OP_BCAST, OP_CREATE, OP_JOIN, OP_TASK, OP_START, OP_DESTROY };
enum { R_WORKER, R_SUB, R_FREE };

#define MAXT 32
typedef struct {
    int id, role, state, op, arg;
    bool granted, used;
    pthread_t th;
    /* history needed to name the pending operation like the model does */
    bool after_bcast;      /* worker: the next unlock is the exit one */
    int nlock, nunlock;    /* freer: first / second lock and unlock */
    int remaining;         /* submitter: tasks still to add */
    void *(*fn)(void *); void *fnarg;
} mth_t;

static mth_t T[MAXT]; static int nT;
static pthread_mutex_t G = PTHREAD_MUTEX_INITIALIZER; static pthread_cond_t CV = PTHREAD_COND_INITIALIZER;
static __thread mth_t *me;

/* virtual pool synchronisation state */
static int vowner = -1;
static int sleepers[MAXT], nsleep;

static int ran_task[256], ran_by[256], nran;

int __real_pthread_create(pthread_t *, const pthread_attr_t *, void *(*)(void *), void *);
int __real_pthread_mutex_lock(pthread_mutex_t *); int __real_pthread_mutex_unlock(pthread_mutex_t *);
int __real_pthread_cond_wait(pthread_cond_t *, pthread_mutex_t *); int __real_pthread_cond_broadcast(pthread_cond_t *);
int __real_pthread_join(pthread_t, void **);

/* park until the scheduler grants this thread */
static void yield_op(int op, int arg) {
    __real_pthread_mutex_lock(&G);
    me->op = op; me->arg = arg; me->state = ST_YIELDED;
    __real_pthread_cond_broadcast(&CV);
    while (!me->granted) __real_pthread_cond_wait(&CV, &G);
    me->granted = false; me->state = ST_RUNNING;
    __real_pthread_mutex_unlock(&G);
}
static void sleep_until_woken(void) {
    __real_pthread_mutex_lock(&G);
    me->state = ST_SLEEPING; me->op = OP_NONE;
    __real_pthread_cond_broadcast(&CV);
    while (!me->granted) __real_pthread_cond_wait(&CV, &G);      /* granted only once woken: op == OP_RELOCK */
    me->granted = false; me->state = ST_RUNNING;
    __real_pthread_mutex_unlock(&G);
}
static void wake(int id) {        /* the thread leaves the sleeper list and wants the lock back */
    T[id].state = ST_YIELDED; T[id].op = OP_RELOCK;
}

/* ---------------------------------------------------------------- wrapped pthread operations */
int __wrap_pthread_mutex_lock(pthread_mutex_t *m) { (void)m; if (!me) return 0; yield_op(OP_LOCK, 0); vowner = me->id; me->nlock++; return 0; }
int __wrap_pthread_mutex_unlock(pthread_mutex_t *m) { (void)m; if (!me) return 0; yield_op(OP_UNLOCK, 0); vowner = -1; me->nunlock++; me->after_bcast = false; return 0; }
int __wrap_pthread_cond_wait(pthread_cond_t *c, pthread_mutex_t *m) {
    (void)c; (void)m; if (!me) return 0;
    yield_op(OP_WAIT, 0);
    vowner = -1; sleepers[nsleep++] = me->id;
    sleep_until_woken();              /* returns when the RELOCK was granted */
    vowner = me->id;
    return 0;
}
int __wrap_pthread_cond_signal(pthread_cond_t *c) {
    (void)c; if (!me) return 0;
    yield_op(OP_SIGNAL, 0);
    if (nsleep > 0) { int s = sleepers[0]; memmove(sleepers, sleepers + 1, (--nsleep) * sizeof(int)); __real_pthread_mutex_lock(&G); wake(s); __real_pthread_mutex_unlock(&G); }
    return 0;
}
int __wrap_pthread_cond_broadcast(pthread_cond_t *c) {
    (void)c; if (!me) return 0;
    yield_op(OP_BCAST, 0);
    __real_pthread_mutex_lock(&G); for (int i = 0; i < nsleep; i++) wake(sleepers[i]); nsleep = 0; __real_pthread_mutex_unlock(&G);
    if (me->role == R_WORKER) me->after_bcast = true;
    return 0;
}
int __wrap_pthread_cond_destroy(pthread_cond_t *c) { (void)c; if (!me) return 0; yield_op(OP_DESTROY, 0); return 0; }

static void *trampoline(void *arg) {
    mth_t *t = arg; me = t;
    void *r = t->fn(t->fnarg);
    __real_pthread_mutex_lock(&G); t->state = ST_FINISHED; t->op = OP_NONE; __real_pthread_cond_broadcast(&CV); __real_pthread_mutex_unlock(&G);
    return r;
}
static int spawn(int role, const pthread_attr_t *attr, void *(*fn)(void *), void *arg, pthread_t *out) {
    __real_pthread_mutex_lock(&G);
    mth_t *t = &T[nT]; memset(t, 0, sizeof(*t)); t->id = nT++; t->role = role; t->state = ST_RUNNING; t->used = true; t->fn = fn; t->fnarg = arg;
    __real_pthread_mutex_unlock(&G);
    int r = __real_pthread_create(&t->th, attr, trampoline, t);
    if (r) return r;
    if (out) *out = t->th;
    /* the child runs alone until its first yield point */
    __real_pthread_mutex_lock(&G); while (t->state == ST_RUNNING) __real_pthread_cond_wait(&CV, &G); __real_pthread_mutex_unlock(&G);
    return 0;
}
int __wrap_pthread_create(pthread_t *th, const pthread_attr_t *attr, void *(*fn)(void *), void *arg) {
    if (me) yield_op(OP_CREATE, 0);
    return spawn(R_WORKER, attr, fn, arg, th);
}
int __wrap_pthread_join(pthread_t th, void **ret) {
    int target = -1;
    for (int i = 0; i < nT; i++) if (T[i].used && pthread_equal(T[i].th, th)) target = i;
    if (me) yield_op(OP_JOIN, target);
    return __real_pthread_join(th, ret);
}

/* ---------------------------------------------------------------- the threads of a case */
static m_thpool_t *pool; static int wait_all;
static void *task_fn(void *arg) {
    long k = (long)(intptr_t)arg;
    yield_op(OP_TASK, (int)k);
    ran_task[nran] = (int)k; ran_by[nran] = me->id; nran++;
    return NULL;
}
typedef struct { int n; int tasks[32]; } sublist_t;
static sublist_t subs[8]; static int nsubs;
static void *sub_fn(void *arg) {
    sublist_t *s = arg; me->remaining = s->n;
    for (int i = 0; i < s->n; i++) { m_thpool_add(pool, task_fn, (void *)(intptr_t)s->tasks[i]); me->remaining--; }
    return NULL;
}
static void *free_fn(void *arg) { (void)arg; yield_op(OP_START, 0); m_thpool_free(&pool, wait_all); return NULL; }

static bool subs_done(void) { for (int i = 0; i < nT; i++) if (T[i].role == R_SUB && T[i].state != ST_FINISHED) return false; return true; }
static bool enabled(mth_t *t) {
    if (t->state != ST_YIELDED) return false;
    switch (t->op) {
    case OP_LOCK: case OP_RELOCK: return vowner == -1;
    case OP_JOIN: return t->arg >= 0 && T[t->arg].state == ST_FINISHED;
    case OP_START: return subs_done();
    default: return true;
    }
}
/* the code of coq/Thpool.v:thread_code for the pending operation of t */
static int code(mth_t *t) {
    if (t->role == R_WORKER) {
        if (t->state == ST_FINISHED) return 9;
        if (t->state == ST_SLEEPING) return 3;
        switch (t->op) { case OP_LOCK: return 1; case OP_WAIT: return 2; case OP_RELOCK: return 4; case OP_UNLOCK: return t->after_bcast ? 8 : 5;
                         case OP_TASK: return 6; case OP_BCAST: return 7; default: return 0; }
    }
    if (t->role == R_SUB) {
        if (t->state == ST_FINISHED) return 19;
        switch (t->op) { case OP_LOCK: return 10; case OP_CREATE: return 11; case OP_SIGNAL: return 12; case OP_UNLOCK: return 13; default: return 0; }
    }
    if (t->state == ST_FINISHED) return 31;
    if (t->state == ST_SLEEPING) return 27;
    switch (t->op) { case OP_START: return 20; case OP_LOCK: return t->nlock == 0 ? 21 : 25; case OP_BCAST: return 22;
                     case OP_UNLOCK: return t->nunlock == 0 ? 23 : 29; case OP_JOIN: return 24; case OP_WAIT: return 26; case OP_RELOCK: return 28;
                     case OP_DESTROY: return 30; default: return 0; }
}
static void grant(mth_t *t) {
    __real_pthread_mutex_lock(&G);
    t->granted = true; __real_pthread_cond_broadcast(&CV);
    while (t->granted || t->state == ST_RUNNING) __real_pthread_cond_wait(&CV, &G);
    __real_pthread_mutex_unlock(&G);
}

static void run_case(int lazy, int detached, int maxth, int wall, int *sched, int *spur, int nsched) {
    wait_all = wall;
    pool = m_thpool_new((uint8_t)maxth, (lazy ? M_THPOOL_LAZY : 0) | (detached ? M_THPOOL_DETACHED : 0));
    if (!pool) { printf("NOPOOL\n"); return; }
    for (int i = 0; i < nsubs; i++) { mth_t *unused; (void)unused; spawn(R_SUB, NULL, sub_fn, &subs[i], NULL); }
    spawn(R_FREE, NULL, free_fn, NULL, NULL);
    char line[8192]; int len = 0;
    for (int i = 0; i < nsched; i++) {
        int t = sched[i];
        if (t >= 0 && t < nT) {
            mth_t *x = &T[t];
            if (spur[i] && x->state == ST_SLEEPING) {      /* spurious wake-up: leaves the sleeper list */
                int j = 0; for (int q = 0; q < nsleep; q++) if (sleepers[q] != t) sleepers[j++] = sleepers[q];
                nsleep = j; __real_pthread_mutex_lock(&G); wake(t); __real_pthread_mutex_unlock(&G);
            } else if (enabled(x)) grant(x);
            len += snprintf(line + len, sizeof(line) - len, "%d ", code(x));
        } else len += snprintf(line + len, sizeof(line) - len, "0 ");
    }
    printf("codes %s\n", line);
    len = 0; line[0] = 0;
    for (int i = 0; i < nran; i++) len += snprintf(line + len, sizeof(line) - len, "%d:%d ", ran_task[i], ran_by[i]);
    printf("ran %s\n", line);
    int unfinished = 0; for (int i = 0; i < nT; i++) unfinished += T[i].state != ST_FINISHED;
    printf("threads %d unfinished %d freed %d\n", nT, unfinished, pool == NULL);
}

int main(int argc, char **argv) {
    if (argc < 2) { fprintf(stderr, "usage: %s script\n", argv[0]); return 2; }
    FILE *f = fopen(argv[1], "r"); if (!f) { perror("script"); return 2; }
    char *ln = NULL; size_t cap = 0; char id[64] = "";
    int lazy = 0, detached = 0, maxth = 1, wall = 1; static int sched[4096], spur[4096]; int nsched = 0; bool in_case = false;
    while (getline(&ln, &cap, f) > 0) {
        char *tok[4200]; int nt = 0;
        for (char *t = strtok(ln, " \t\r\n"); t && nt < 4200; t = strtok(NULL, " \t\r\n")) tok[nt++] = t;
        if (!nt) continue;
        if (!strcmp(tok[0], "case")) {           /* case <id> thpool <lazy> <detached> <max> <waitall> */
            snprintf(id, sizeof(id), "%s", tok[1]); lazy = atoi(tok[3]); detached = atoi(tok[4]); maxth = atoi(tok[5]); wall = atoi(tok[6]);
            nsubs = 0; nsched = 0; in_case = true; continue;
        }
        if (!in_case) continue;
        if (!strcmp(tok[0], "sub")) { sublist_t *s = &subs[nsubs++]; s->n = 0; for (int i = 1; i < nt && s->n < 32; i++) s->tasks[s->n++] = atoi(tok[i]); continue; }
        if (!strcmp(tok[0], "sched")) { for (int i = 1; i < nt && nsched < 4096; i++) { int v = atoi(tok[i]); spur[nsched] = v < 0; sched[nsched++] = v < 0 ? -v - 1 : v; } continue; }
        if (!strcmp(tok[0], "end")) {
            printf("case %s\n", id); fflush(stdout);
            pid_t pid = fork();
            if (pid == 0) { alarm(120);      /* watchdog of the harness itself; the orchestrator re-runs a case killed by it alone before judging */ run_case(lazy, detached, maxth, wall, sched, spur, nsched); fflush(stdout); _exit(0); }
            int st = 0; waitpid(pid, &st, 0);
            if (WIFSIGNALED(st)) printf("CRASH signal %d\n", WTERMSIG(st));
            else if (WEXITSTATUS(st) != 0) printf("CRASH exit %d\n", WEXITSTATUS(st));
            printf("end\n"); fflush(stdout); in_case = false;
        }
    }
    return 0;
}
