/* cov_exit.c -- coverage builds only (tools/coverage.py): the drivers leave each forked case with _exit(), which skips the
 * gcov atexit handler; flush the counters first. */
extern void __gcov_dump(void);
void __real__exit(int);
void __wrap__exit(int code) { __gcov_dump(); __real__exit(code); }
