/* drv_structs.c -- runs scripts against the REAL containers / allocator of /repo.
 * One forked child per case (a crash or sanitizer abort is attributed to its
 * case and becomes the trace line "CRASH ...").  Output format: see DESIGN 13.
 * White-box: map.c is #included so that the static hash function is reachable. */
#ifndef _GNU_SOURCE
#define _GNU_SOURCE
#endif
#include <stdarg.h>
#include <stdio.h>
#include <stdlib.h>
#include <string.h>
#include <stdint.h>
#include <stdbool.h>
#include <unistd.h>
#include <errno.h>
#include <sys/wait.h>

#include "map.c"                      /* Lib/structs/map.c, white-box */
#include <module/structs/queue.h>
#include <module/structs/stack.h>
#include <module/structs/list.h>
#include <module/structs/bst.h>
#include <module/mem/mem.h>

/* ---------- output line buffer ---------- */
static char line[1 << 16];
static size_t line_len;
static void emit(const char *fmt, ...) {
    va_list ap; va_start(ap, fmt);
    if (line_len && line_len < sizeof(line) - 1) line[line_len++] = ' ';
    line_len += vsnprintf(line + line_len, sizeof(line) - line_len, fmt, ap);
    if (line_len >= sizeof(line)) line_len = sizeof(line) - 1;
    va_end(ap);
}
static void flush_line(void) { line[line_len] = 0; puts(line); line_len = 0; }

/* ---------- allocator accounting ---------- */
#define MAXALLOC 65536
static struct { void *p; size_t sz; int tag; long id; } allocs[MAXALLOC];
static int nallocs;
static long outstanding;
static int malloc_tag = 0; static long malloc_id = 0;   /* tag for the next malloc (key copies) */
static void *last_calloc_ptr; static size_t last_calloc_size;
enum { TAG_NONE, TAG_KEY, TAG_BLOCK };

static void rec_alloc(void *p, size_t sz, int tag, long id) {
    if (!p) return;
    outstanding++;
    for (int i = 0; i < nallocs; i++) if (!allocs[i].p) { allocs[i].p = p; allocs[i].sz = sz; allocs[i].tag = tag; allocs[i].id = id; return; }
    if (nallocs < MAXALLOC) { allocs[nallocs].p = p; allocs[nallocs].sz = sz; allocs[nallocs].tag = tag; allocs[nallocs].id = id; nallocs++; }
}
static int find_alloc(void *p) { for (int i = 0; i < nallocs; i++) if (allocs[i].p == p) return i; return -1; }
static void retag(void *p, int tag, long id) { int i = find_alloc(p); if (i >= 0) { allocs[i].tag = tag; allocs[i].id = id; } }

static void *h_malloc(size_t sz) {
    void *p = malloc(sz);
    rec_alloc(p, sz, malloc_tag, malloc_id);
    if (malloc_tag == TAG_KEY) emit("a%ld", malloc_id);
    return p;
}
static void *h_calloc(size_t n, size_t sz) {
    void *p = calloc(n, sz);
    rec_alloc(p, n * sz, TAG_NONE, 0);
    last_calloc_ptr = p; last_calloc_size = n * sz;
    return p;
}
static void h_free(void *p) {
    if (!p) return;
    int i = find_alloc(p);
    if (i < 0) { emit("BADFREE"); flush_line(); fflush(stdout); abort(); }
    if (allocs[i].tag == TAG_KEY) emit("f%ld", allocs[i].id);
    if (allocs[i].tag == TAG_BLOCK) emit("f%ld", allocs[i].id);
    allocs[i].p = NULL; outstanding--;
    free(p);
}

/* ---------- helpers ---------- */
#define P(v) ((void *)(uintptr_t)(v))
#define V(p) ((unsigned long long)(uintptr_t)(p))
static void dtor_log(void *p) { emit("d%llu", V(p)); }

static long cb_n, cb_k, cb_rc;
static int iter_cb(void *up, void *data) { (void)up; emit("v%llu", V(data)); cb_n++; return cb_n == cb_k ? (int)cb_rc : 0; }

static unsigned long long cmp_k;
static int sgn(long long z) { return z < 0 ? -1 : z > 0 ? 1 : 0; }
static int modk_cmp(void *a, void *b) { return sgn((long long)(V(a) % cmp_k) - (long long)(V(b) % cmp_k)); }
/* k >= 100: key-style, non-reflexive comparator (see ceq_of in coq/ListM.v) */
static int keyk_cmp(void *a, void *b) { return sgn((long long)((V(a) + 1) % (cmp_k - 100)) - (long long)(V(b) % (cmp_k - 100))); }

/* ---------- script reading ---------- */
#define MAXTOK 64
static int split(char *s, char **tok) { int n = 0; for (char *t = strtok(s, " \t\r\n"); t && n < MAXTOK; t = strtok(NULL, " \t\r\n")) tok[n++] = t; return n; }
static unsigned long long U(const char *s) { return strtoull(s, NULL, 10); }
static long long I(const char *s) { return strtoll(s, NULL, 10); }

typedef struct { char **lines; int n; } case_t;

/* ---------- engines ---------- */
static void run_queue(case_t *c, int dtor) {
    m_queue_t *q = m_queue_new(dtor ? dtor_log : NULL);
    m_queue_itr_t *itr = NULL;
    char *tok[MAXTOK];
    for (int i = 0; i < c->n; i++) {
        char buf[256]; strncpy(buf, c->lines[i], sizeof(buf) - 1); buf[sizeof(buf) - 1] = 0;
        int nt = split(buf, tok); if (!nt) continue;
        const char *o = tok[0];
        bool mutating = !strcmp(o, "enq") || !strcmp(o, "deq") || !strcmp(o, "remove") || !strcmp(o, "clear") || !strcmp(o, "free") || !strcmp(o, "itrnew");
        if (mutating && itr) { memhook._free(itr); itr = NULL; }
        if (!strcmp(o, "enq")) emit("r%d", m_queue_enqueue(q, P(U(tok[1]))));
        else if (!strcmp(o, "deq")) emit("p%llu", V(m_queue_dequeue(q)));
        else if (!strcmp(o, "peek")) emit("p%llu", V(m_queue_peek(q)));
        else if (!strcmp(o, "remove")) { int r = m_queue_remove(q); emit("r%d", r); }
        else if (!strcmp(o, "clear")) { int r = m_queue_clear(q); emit("r%d", r); }
        else if (!strcmp(o, "len")) emit("r%zd", m_queue_len(q));
        else if (!strcmp(o, "free")) { int r = m_queue_free(&q); emit("r%d", r); }
        else if (!strcmp(o, "iterate")) { cb_n = 0; cb_k = I(tok[1]); cb_rc = I(tok[2]); int r = m_queue_iterate(q, iter_cb, NULL); emit("r%d", r); }
        else if (!strcmp(o, "itrnew")) { itr = m_queue_itr_new(q); emit("p%d", itr ? 1 : 0); }
        else if (!strcmp(o, "itrnext")) { int r = m_queue_itr_next(&itr); emit("r%d", r); }
        else if (!strcmp(o, "itrget")) emit("p%llu", V(m_queue_itr_get_data(itr)));
        else if (!strcmp(o, "itrset")) emit("r%d", m_queue_itr_set_data(itr, P(U(tok[1]))));
        else if (!strcmp(o, "itrrm")) { int r = m_queue_itr_remove(itr); emit("r%d", r); }
        else emit("BADOP");
        flush_line();
    }
    if (itr) memhook._free(itr);
    if (q) { line_len = 0; m_queue_free(&q); line_len = 0; }
}

static void run_stack(case_t *c, int dtor) {
    m_stack_t *q = m_stack_new(dtor ? dtor_log : NULL);
    m_stack_itr_t *itr = NULL;
    char *tok[MAXTOK];
    for (int i = 0; i < c->n; i++) {
        char buf[256]; strncpy(buf, c->lines[i], sizeof(buf) - 1); buf[sizeof(buf) - 1] = 0;
        int nt = split(buf, tok); if (!nt) continue;
        const char *o = tok[0];
        bool mutating = !strcmp(o, "push") || !strcmp(o, "pop") || !strcmp(o, "remove") || !strcmp(o, "clear") || !strcmp(o, "free") || !strcmp(o, "itrnew");
        if (mutating && itr) { memhook._free(itr); itr = NULL; }
        if (!strcmp(o, "push")) emit("r%d", m_stack_push(q, P(U(tok[1]))));
        else if (!strcmp(o, "pop")) emit("p%llu", V(m_stack_pop(q)));
        else if (!strcmp(o, "peek")) emit("p%llu", V(m_stack_peek(q)));
        else if (!strcmp(o, "remove")) { int r = m_stack_remove(q); emit("r%d", r); }
        else if (!strcmp(o, "clear")) { int r = m_stack_clear(q); emit("r%d", r); }
        else if (!strcmp(o, "len")) emit("r%zd", m_stack_len(q));
        else if (!strcmp(o, "free")) { int r = m_stack_free(&q); emit("r%d", r); }
        else if (!strcmp(o, "iterate")) { cb_n = 0; cb_k = I(tok[1]); cb_rc = I(tok[2]); int r = m_stack_iterate(q, iter_cb, NULL); emit("r%d", r); }
        else if (!strcmp(o, "itrnew")) { itr = m_stack_itr_new(q); emit("p%d", itr ? 1 : 0); }
        else if (!strcmp(o, "itrnext")) { int r = m_stack_itr_next(&itr); emit("r%d", r); }
        else if (!strcmp(o, "itrget")) emit("p%llu", V(m_stack_itr_get_data(itr)));
        else if (!strcmp(o, "itrset")) emit("r%d", m_stack_itr_set_data(itr, P(U(tok[1]))));
        else if (!strcmp(o, "itrrm")) { int r = m_stack_itr_remove(itr); emit("r%d", r); }
        else emit("BADOP");
        flush_line();
    }
    if (itr) memhook._free(itr);
    if (q) { line_len = 0; m_stack_free(&q); line_len = 0; }
}

static void run_list(case_t *c, unsigned long long k, int dtor) {
    cmp_k = k;
    m_list_t *q = m_list_new(k >= 100 ? keyk_cmp : k ? modk_cmp : NULL, dtor ? dtor_log : NULL);
    m_list_itr_t *itr = NULL;
    char *tok[MAXTOK];
    for (int i = 0; i < c->n; i++) {
        char buf[256]; strncpy(buf, c->lines[i], sizeof(buf) - 1); buf[sizeof(buf) - 1] = 0;
        int nt = split(buf, tok); if (!nt) continue;
        const char *o = tok[0];
        bool mutating = !strcmp(o, "ins") || !strcmp(o, "rm") || !strcmp(o, "clear") || !strcmp(o, "free") || !strcmp(o, "itrnew");
        if (mutating && itr) { memhook._free(itr); itr = NULL; }
        if (!strcmp(o, "ins")) emit("r%d", m_list_insert(q, P(U(tok[1]))));
        else if (!strcmp(o, "rm")) { int r = m_list_remove(q, P(U(tok[1]))); emit("r%d", r); }
        else if (!strcmp(o, "find")) emit("p%llu", V(m_list_find(q, P(U(tok[1])))));
        else if (!strcmp(o, "clear")) { int r = m_list_clear(q); emit("r%d", r); }
        else if (!strcmp(o, "len")) emit("r%zd", m_list_len(q));
        else if (!strcmp(o, "free")) { int r = m_list_free(&q); emit("r%d", r); }
        else if (!strcmp(o, "iterate")) { cb_n = 0; cb_k = I(tok[1]); cb_rc = I(tok[2]); int r = m_list_iterate(q, iter_cb, NULL); emit("r%d", r); }
        else if (!strcmp(o, "itrnew")) { itr = m_list_itr_new(q); emit("p%d", itr ? 1 : 0); }
        else if (!strcmp(o, "itrnext")) { int r = m_list_itr_next(&itr); emit("r%d", r); }
        else if (!strcmp(o, "itrget")) emit("p%llu", V(m_list_itr_get_data(itr)));
        else if (!strcmp(o, "itrset")) emit("r%d", m_list_itr_set_data(itr, P(U(tok[1]))));
        else if (!strcmp(o, "itrrm")) { int r = m_list_itr_remove(itr); emit("r%d", r); }
        else if (!strcmp(o, "itrins")) emit("r%d", m_list_itr_insert(itr, P(U(tok[1]))));
        else emit("BADOP");
        flush_line();
    }
    if (itr) memhook._free(itr);
    if (q) { line_len = 0; m_list_free(&q); line_len = 0; }
}

static long trav_n, trav_k, trav_rc;
static int trav_cb(void *up, void *data) { (void)up; emit("v%llu", V(data)); trav_n++; return trav_n == trav_k ? (int)trav_rc : 0; }

static void run_bst(case_t *c, unsigned long long k, int dtor) {
    cmp_k = k;
    m_bst_t *q = m_bst_new(k ? modk_cmp : NULL, dtor ? dtor_log : NULL);
    m_bst_itr_t *itr = NULL;
    char *tok[MAXTOK];
    for (int i = 0; i < c->n; i++) {
        char buf[256]; strncpy(buf, c->lines[i], sizeof(buf) - 1); buf[sizeof(buf) - 1] = 0;
        int nt = split(buf, tok); if (!nt) continue;
        const char *o = tok[0];
        bool mutating = !strcmp(o, "ins") || !strcmp(o, "rm") || !strcmp(o, "clear") || !strcmp(o, "free") || !strcmp(o, "itrnew");
        if (mutating && itr) { memhook._free(itr); itr = NULL; }
        if (!strcmp(o, "ins")) emit("r%d", m_bst_insert(q, P(U(tok[1]))));
        else if (!strcmp(o, "rm")) { int r = m_bst_remove(q, P(U(tok[1]))); emit("r%d", r); }
        else if (!strcmp(o, "find")) emit("p%llu", V(m_bst_find(q, P(U(tok[1])))));
        else if (!strcmp(o, "clear")) { int r = m_bst_clear(q); emit("r%d", r); }
        else if (!strcmp(o, "len")) emit("r%zd", m_bst_len(q));
        else if (!strcmp(o, "free")) { int r = m_bst_free(&q); emit("r%d", r); }
        else if (!strcmp(o, "trav")) { trav_n = 0; trav_k = I(tok[2]); trav_rc = I(tok[3]); int r = m_bst_traverse(q, (m_bst_order)I(tok[1]), trav_cb, NULL); emit("r%d", r); }
        else if (!strcmp(o, "itrnew")) { itr = m_bst_itr_new(q); emit("p%d", itr ? 1 : 0); }
        else if (!strcmp(o, "itrnext")) { int r = m_bst_itr_next(&itr); emit("r%d", r); }
        else if (!strcmp(o, "itrget")) emit("p%llu", V(m_bst_itr_get_data(itr)));
        else if (!strcmp(o, "itrrm")) { int r = m_bst_itr_remove(itr); emit("r%d", r); }
        else emit("BADOP");
        flush_line();
    }
    if (itr) memhook._free(itr);
    if (q) { line_len = 0; m_bst_free(&q); line_len = 0; }
}

/* map: keys are the strings "k<id>" kept alive by the driver */
#define MAXKEYS 65536
static char *keystr[MAXKEYS];
static const char *key_of(unsigned long long id) {
    if (id >= MAXKEYS) id = MAXKEYS - 1;
    if (!keystr[id]) { keystr[id] = malloc(24); snprintf(keystr[id], 24, "k%llu", id); }
    return keystr[id];
}
static unsigned long long id_of(const char *k) { return k ? U(k + 1) : 0; }
static m_map_t *cb_map; static int cb_rm;
static int map_cb(void *up, const char *key, void *value) {
    (void)up; (void)value;
    unsigned long long id = id_of(key);
    emit("v%llu", id);
    if (cb_rm) m_map_remove(cb_map, key_of(id));
    cb_n++;
    return cb_n == cb_k ? (int)cb_rc : 0;
}
static void run_map(case_t *c, int upd, int dup, int dtor) {
    m_map_t *m = m_map_new((upd ? M_MAP_VAL_ALLOW_UPDATE : 0) | (dup ? M_MAP_KEY_DUP : 0), dtor ? dtor_log : NULL);
    m_map_itr_t *itr = NULL;
    char *tok[MAXTOK];
    for (int i = 0; i < c->n; i++) {
        char buf[256]; strncpy(buf, c->lines[i], sizeof(buf) - 1); buf[sizeof(buf) - 1] = 0;
        int nt = split(buf, tok); if (!nt) continue;
        const char *o = tok[0];
        if (!strcmp(o, "hash")) continue;
        bool mutating = !strcmp(o, "put") || !strcmp(o, "rm") || !strcmp(o, "clear") || !strcmp(o, "free") || !strcmp(o, "itrnew") || !strcmp(o, "iterate");
        if (mutating && itr) { memhook._free(itr); itr = NULL; }
        if (!strcmp(o, "put")) { malloc_tag = TAG_KEY; malloc_id = (long)U(tok[1]); int r = m_map_put(m, key_of(U(tok[1])), P(U(tok[2]))); malloc_tag = TAG_NONE; emit("r%d", r); }
        else if (!strcmp(o, "get")) emit("p%llu", V(m_map_get(m, key_of(U(tok[1])))));
        else if (!strcmp(o, "has")) emit("r%d", (int)m_map_contains(m, key_of(U(tok[1]))));
        else if (!strcmp(o, "rm")) { int r = m_map_remove(m, key_of(U(tok[1]))); emit("r%d", r); }
        else if (!strcmp(o, "len")) emit("r%zd", m_map_len(m));
        else if (!strcmp(o, "clear")) { int r = m_map_clear(m); emit("r%d", r); }
        else if (!strcmp(o, "free")) { int r = m_map_free(&m); emit("r%d", r); }
        else if (!strcmp(o, "iterate")) { cb_n = 0; cb_k = I(tok[1]); cb_rc = I(tok[2]); cb_rm = (int)I(tok[3]); cb_map = m; int r = m_map_iterate(m, map_cb, NULL); emit("r%d", r); }
        else if (!strcmp(o, "itrnew")) { itr = m_map_itr_new(m); emit("p%d", itr ? 1 : 0); }
        else if (!strcmp(o, "itrnext")) { int r = m_map_itr_next(&itr); emit("r%d", r); }
        else if (!strcmp(o, "itrkey")) { const char *k = m_map_itr_get_key(itr); emit("p%llu", k ? id_of(k) : 0ULL); }
        else if (!strcmp(o, "itrget")) emit("p%llu", V(m_map_itr_get_data(itr)));
        else if (!strcmp(o, "itrset")) emit("r%d", m_map_itr_set_data(itr, P(U(tok[1]))));
        else if (!strcmp(o, "itrrm")) { int r = m_map_itr_remove(itr); emit("r%d", r); }
        else emit("BADOP");
        flush_line();
    }
    if (itr) memhook._free(itr);
    if (m) { line_len = 0; m_map_free(&m); line_len = 0; }
}

/* mem: blocks identified by script ids; a destructor unrefs the block's kids */
#define MAXBLK 4096
static struct { void *data; int nkids; long kids[8]; bool dead; bool has; } blk[MAXBLK];
static long blk_of_data(void *d) { for (long i = 0; i < MAXBLK; i++) if (blk[i].has && blk[i].data == d) return i; return -1; }
static void blk_dtor(void *data) {
    long id = blk_of_data(data);
    emit("d%ld", id);
    if (id < 0) return;
    for (int j = 0; j < blk[id].nkids; j++) {
        long kid = blk[id].kids[j];
        if (kid >= 0 && kid < MAXBLK && blk[kid].has && !blk[kid].dead) m_mem_unref(blk[kid].data);
    }
}
static void blk_free_hook(long id) { if (id >= 0 && id < MAXBLK) blk[id].dead = true; }

static void h_free_mem(void *p) {      /* free hook of the mem engine: mark the block dead */
    int i = find_alloc(p);
    if (i >= 0 && allocs[i].tag == TAG_BLOCK) blk_free_hook(allocs[i].id);
    h_free(p);
}

static void run_mem(case_t *c) {
    memhook._free = h_free_mem;
    char *tok[MAXTOK];
    for (int i = 0; i < c->n; i++) {
        char buf[512]; strncpy(buf, c->lines[i], sizeof(buf) - 1); buf[sizeof(buf) - 1] = 0;
        int nt = split(buf, tok); if (!nt) continue;
        const char *o = tok[0];
        if (!strcmp(o, "new")) {
            long id = I(tok[1]); size_t size = U(tok[2]); int dtor = (int)I(tok[3]);
            if (id < 0 || id >= MAXBLK || blk[id].has) emit("r-1");
            else {
                void *d = m_mem_new(size, dtor ? blk_dtor : NULL);
                blk[id].has = true; blk[id].dead = false; blk[id].data = d; blk[id].nkids = 0;
                for (int j = 4; j < nt && blk[id].nkids < 8 && dtor; j++) blk[id].kids[blk[id].nkids++] = I(tok[j]);
                retag(last_calloc_ptr, TAG_BLOCK, id);
                emit("a%ld", id);
                emit("r%td", (char *)d - (char *)last_calloc_ptr);
                emit("r%zu", last_calloc_size);
                emit("r%zu", m_mem_size(d));
                if ((uintptr_t)d % _Alignof(max_align_t)) emit("MISALIGNED");
                /* the block must be fully usable */
                memset(d, 0xab, size);
            }
        } else if (!strcmp(o, "null")) {
            long w = I(tok[1]);
            if (w == 0) emit("p%llu", V(m_mem_ref(NULL)));
            else if (w == 1) emit("p%llu", V(m_mem_unref(NULL)));
            else if (w == 2) { void *p = NULL; m_mem_unrefp(&p); m_mem_unrefp(NULL); emit("p%llu", V(p)); }
            else emit("r%zu", m_mem_size(NULL));
        } else {
            long id = I(tok[1]);
            if (id < 0 || id >= MAXBLK || !blk[id].has || blk[id].dead) emit("r-1");
            else if (!strcmp(o, "ref")) { void *r = m_mem_ref(blk[id].data); emit("p%ld", r == blk[id].data ? id : -2); }
            else if (!strcmp(o, "unref")) { void *r = m_mem_unref(blk[id].data); emit("p%llu", V(r)); }
            else if (!strcmp(o, "unrefp")) { void *p = blk[id].data; m_mem_unrefp(&p); emit("p%llu", V(p)); }
            else if (!strcmp(o, "size")) emit("r%zu", m_mem_size(blk[id].data));
            else emit("BADOP");
        }
        flush_line();
    }
}

static void run_case(case_t *c, char *header) {
    char *tok[MAXTOK]; char buf[256]; strncpy(buf, header, sizeof(buf) - 1); buf[sizeof(buf) - 1] = 0;
    int nt = split(buf, tok);
    const char *eng = tok[2];
    outstanding = 0;
    if (!strcmp(eng, "queue")) run_queue(c, (int)I(tok[3]));
    else if (!strcmp(eng, "stack")) run_stack(c, (int)I(tok[3]));
    else if (!strcmp(eng, "list")) run_list(c, U(tok[3]), (int)I(tok[4]));
    else if (!strcmp(eng, "bst")) run_bst(c, U(tok[3]), (int)I(tok[4]));
    else if (!strcmp(eng, "map")) run_map(c, (int)I(tok[3]), (int)I(tok[4]), (int)I(tok[5]));
    else if (!strcmp(eng, "mem")) { run_mem(c); outstanding = 0; }
    (void)nt;
    if (outstanding != 0) printf("LEAK %ld\n", outstanding);
}

int main(int argc, char **argv) {
    memhook._malloc = h_malloc; memhook._calloc = h_calloc; memhook._free = h_free;
    if (argc >= 3 && !strcmp(argv[1], "--hashes")) {
        long n = atol(argv[2]);
        for (long i = 0; i < n; i++) { char k[24]; snprintf(k, sizeof(k), "k%ld", i); printf("%ld %zu\n", i, hashmap_hash_string(k)); }
        return 0;
    }
    if (argc < 2) { fprintf(stderr, "usage: %s script | --hashes N\n", argv[0]); return 2; }
    FILE *f = fopen(argv[1], "r"); if (!f) { perror("script"); return 2; }
    char *ln = NULL; size_t cap = 0; ssize_t r;
    char header[256] = ""; case_t c = { NULL, 0 }; int capn = 0; bool in_case = false;
    while ((r = getline(&ln, &cap, f)) > 0) {
        if (!strncmp(ln, "case ", 5)) { strncpy(header, ln, sizeof(header) - 1); c.n = 0; in_case = true; continue; }
        if (!in_case) continue;
        if (!strncmp(ln, "end", 3)) {
            char idbuf[64]; sscanf(header, "case %63s", idbuf);
            printf("case %s\n", idbuf); fflush(stdout);
            pid_t pid = fork();
            if (pid == 0) { setvbuf(stdout, NULL, _IOLBF, 0); run_case(&c, header); fflush(stdout); _exit(0); }
            int st = 0; waitpid(pid, &st, 0);
            if (WIFSIGNALED(st)) printf("CRASH signal %d\n", WTERMSIG(st));
            else if (WEXITSTATUS(st) != 0) printf("CRASH exit %d\n", WEXITSTATUS(st));
            printf("end\n"); fflush(stdout);
            for (int i = 0; i < c.n; i++) free(c.lines[i]);
            c.n = 0; in_case = false; continue;
        }
        if (c.n == capn) { capn = capn ? capn * 2 : 64; c.lines = realloc(c.lines, capn * sizeof(char *)); }
        c.lines[c.n++] = strdup(ln);
    }
    return 0;
}
