/* drv_mt.c -- C14: several contexts, each on its own thread, run concurrently (built with ThreadSanitizer against /repo's sources).
 *
 *   drv_mt <nthreads> <seed> <rounds> [<solo>]
 *
 * Thread t runs program P(seed, t): its own context, 2..4 modules, subscriptions, a ring of direct messages counting down from
 * <rounds>, publications every third hop, one periodic timer per module, a context tick, one task source (a library-made thread).
 * What a context OBSERVES (the ordered list of pub/sub events per module, task results, return codes) is printed per thread.
 * With <solo> = k only thread k's program runs: the two outputs for "T k" must be equal (what one context observes does not depend
 * on the others); ThreadSanitizer reports unsynchronised accesses to shared library state on stderr. */
#define _GNU_SOURCE
#include <stdio.h>
#include <stdlib.h>
#include <string.h>
#include <stdint.h>
#include <stdbool.h>
#include <pthread.h>
#include <errno.h>
#include <time.h>
#include <stdarg.h>
#include <module/mod.h>
#include <module/ctx.h>
#include <module/structs/queue.h>
#include <module/mem/mem.h>

#define MAXM 4
#define TRACE 65536

typedef struct thr thr_t;
typedef struct { thr_t *t; int idx; m_mod_t *ref; char name[24]; int timers; } modinfo_t;
struct thr {
    int id, nm, rounds; unsigned seed;
    modinfo_t mods[MAXM];
    char *trace; size_t len;
    int loop_ret, task_seen, ticks, want_quit, quit_ret;
    int payload[4096]; int npay;
    pthread_barrier_t *bar;
};

static void tr(thr_t *t, const char *fmt, ...) {
    va_list ap; va_start(ap, fmt);
    if (t->len < TRACE - 256) t->len += vsnprintf(t->trace + t->len, 256, fmt, ap);
    va_end(ap);
}
static int *pay(thr_t *t, int v) { int *p = &t->payload[t->npay++ % 4096]; *p = v; return p; }
static int midx(thr_t *t, const m_mod_t *m) { for (int i = 0; i < t->nm; i++) if (t->mods[i].ref == m) return i; return -1; }
static const char *const topics[2] = { "top0", "top1" };
static int task_fn(void *up) { modinfo_t *mi = up; return 100 + mi->t->id; }

/* every line of the observation starts with the module it belongs to ("main" for the thread's own calls): the order of the
   lines of ONE module is determined by the program (one token circulates, so there is a single writer at any time) */
static bool on_start(m_mod_t *self) {
    modinfo_t *mi = (modinfo_t *)m_mod_userdata(self); thr_t *t = mi->t;
    tr(t, "m%d start sub=%d", mi->idx, m_mod_ps_subscribe(self, topics[mi->idx % 2], 0, NULL));
    m_src_tmr_t tm = { CLOCK_MONOTONIC, 300000ull + 100000ull * (unsigned)(mi->idx + (t->seed % 3)) };
    tr(t, " tmr=%d", m_mod_src_register_tmr(self, &tm, 0, NULL));
    if (mi->idx == 0) {
        m_src_task_t tk = { 1, task_fn };
        tr(t, " task=%d", m_mod_src_register_task(self, &tk, 0, mi));
    }
    tr(t, "\n");
    return true;
}
static void maybe_quit(thr_t *t) {
    if (t->want_quit == 1 && t->task_seen) { t->want_quit = 2; t->quit_ret = m_ctx_quit((uint8_t)(7 + t->id)); }
}

static void on_evt(m_mod_t *self, const m_queue_t *const evts) {
    modinfo_t *mi = (modinfo_t *)m_mod_userdata(self); thr_t *t = mi->t;
    for (m_queue_itr_t *it = m_queue_itr_new(evts); it; m_queue_itr_next(&it)) {
        m_evt_t *e = m_queue_itr_get_data(it);
        switch (e->type) {
        case M_SRC_TYPE_PS: {
            const m_evt_ps_t *ps = e->ps_evt;
            if (ps->system) { tr(t, "m%d sys %s from %d\n", mi->idx, ps->topic ? ps->topic : "-", midx(t, ps->sender)); break; }
            int v = ps->data ? *(const int *)ps->data : -1;
            tr(t, "m%d msg %s from %d v=%d", mi->idx, ps->topic ? ps->topic : "-", midx(t, ps->sender), v);
            if (ps->topic || v >= 1000) { tr(t, "\n"); break; }          /* publications and broadcasts are only observed */
            if (v <= 0) { tr(t, " last\n"); t->want_quit = 1; maybe_quit(t); break; }
            int next = (mi->idx + 1 + (int)((t->seed >> 3) % (unsigned)t->nm)) % t->nm;
            tr(t, " tell=%d", m_mod_ps_tell(self, t->mods[next].ref, pay(t, v - 1), 0));
            if (v % 3 == 0) tr(t, " pub=%d", m_mod_ps_publish(self, topics[v % 2], pay(t, 1000 + v), 0));    /* the topic string must outlive the message */
            if (v % 5 == 0) tr(t, " bc=%d", m_mod_ps_publish(self, NULL, pay(t, 2000 + v), 0));
            tr(t, "\n");
            break; }
        case M_SRC_TYPE_TMR: mi->timers++; break;              /* wall-clock driven: counted, not part of the observation */
        case M_SRC_TYPE_TASK: t->task_seen++; tr(t, "task tid=%u ret=%d\n", e->task_evt->tid, e->task_evt->retval); maybe_quit(t); break;
        default: tr(t, "m%d evt type=%d\n", mi->idx, (int)e->type); break;
        }
    }
}
static void on_stop(m_mod_t *self) { modinfo_t *mi = (modinfo_t *)m_mod_userdata(self); tr(mi->t, "m%d stop\n", mi->idx); }

static void *ctx_main(void *arg) {
    thr_t *t = arg;
    char cname[24]; snprintf(cname, sizeof(cname), "ctx%d", t->id);
    if (t->bar) pthread_barrier_wait(t->bar);
    tr(t, "main ctxreg=%d\n", m_ctx_register(cname, M_CTX_PERSIST, t));
    for (int i = 0; i < t->nm; i++) {
        modinfo_t *mi = &t->mods[i]; mi->t = t; mi->idx = i;
        snprintf(mi->name, sizeof(mi->name), "m%d", i);          /* the SAME names in every context: contexts are separate name spaces */
        m_mod_hook_t hk = { on_start, NULL, on_evt, on_stop };
        tr(t, "main reg%d=%d\n", i, m_mod_register(mi->name, &mi->ref, &hk, 0, mi));
    }
    for (int i = 0; i < t->nm; i++) tr(t, "main start%d=%d\n", i, m_mod_start(t->mods[i].ref));
    tr(t, "main kick=%d\n", m_mod_ps_tell(t->mods[t->nm - 1].ref, t->mods[0].ref, pay(t, t->rounds), 0));
    tr(t, "main tick=%d\n", m_ctx_set_tick(200000));
    int r = m_ctx_loop();
    t->loop_ret = r;
    tr(t, "main loop=%d quit=%d\n", r == 7 + t->id ? 1 : r, t->quit_ret);
    for (int i = 0; i < t->nm; i++) tr(t, "main dereg%d=%d\n", i, m_mod_deregister(&t->mods[i].ref));
    tr(t, "main ctxdereg=%d\n", m_ctx_deregister());
    return NULL;
}

int main(int argc, char **argv) {
    if (argc < 4) { fprintf(stderr, "usage: drv_mt <nthreads> <seed> <rounds> [solo]\n"); return 2; }
    int n = atoi(argv[1]); unsigned seed = (unsigned)strtoul(argv[2], NULL, 10); int rounds = atoi(argv[3]);
    int solo = argc > 4 ? atoi(argv[4]) : -1;
    if (n < 1 || n > 16) return 2;
    thr_t *T = calloc((size_t)n, sizeof(thr_t)); pthread_t th[16];
    pthread_barrier_t bar; int live = solo >= 0 ? 1 : n;
    pthread_barrier_init(&bar, NULL, (unsigned)live);
    for (int i = 0; i < n; i++) {
        unsigned h = seed * 2654435761u + (unsigned)i * 40503u;
        T[i].id = i; T[i].seed = h; T[i].nm = 2 + (int)(h >> 7) % 3; T[i].rounds = rounds + (int)(h >> 11) % 7;
        T[i].trace = calloc(1, TRACE); T[i].bar = &bar;
    }
    for (int i = 0; i < n; i++) if (solo < 0 || solo == i) pthread_create(&th[i], NULL, ctx_main, &T[i]);
    for (int i = 0; i < n; i++) if (solo < 0 || solo == i) pthread_join(th[i], NULL);
    for (int i = 0; i < n; i++) if (solo < 0 || solo == i) {
        printf("T %d begin\n%s", i, T[i].trace);
        printf("main task_seen=%d\nT %d end\n", T[i].task_seen, i);
    }
    return 0;
}
