/* drv_core.c -- runs actor-core scripts against the REAL library (ASan/UBSan
 * build of /repo's current sources).  One forked child per case.
 * White-box: private headers for module/source/context layouts.
 * Link-time wraps: epoll_wait (canonical batch order, scripted environment in the
 * blocking loop, BLOCKED detection), timerfd_settime (timers fire only when the
 * script says so), close (user descriptor accounting), m_mem_new (object census). */
#ifndef _GNU_SOURCE
#define _GNU_SOURCE
#endif
#include <stdio.h>
#include <stdlib.h>
#include <string.h>
#include <stdarg.h>
#include <stdint.h>
#include <stdbool.h>
#include <unistd.h>
#include <errno.h>
#include <fcntl.h>
#include <sys/poll.h>
#include <signal.h>
#include <dirent.h>
#include <regex.h>
#include <sys/wait.h>
#include <sys/epoll.h>
#include <sys/timerfd.h>
#include <sys/stat.h>
#include <pthread.h>

#include "ctx.h"
#include "src.h"
#include "ps.h"
#include "evts.h"
#include "poll.h"
#include "public/module/structs/bst.h"

/* ---------------------------------------------------------------- script */
#define MAXMOD 16
#define MAXPROC 128
#define MAXCALL 400
#define MAXTOK 12
#define MAXCB 64

typedef struct { char tok[MAXTOK][24]; int nt; } call_t;
typedef struct { call_t calls[MAXCALL]; int n; } proc_t;
typedef struct { int name, slot, replace, persist, denyctx, denypub, denysub, heval, hstart, hstop; } modspec_t;
typedef struct { int mod, kind, handler; int n; int proc[MAXCB]; int ret[MAXCB]; } cbtab_t;

static modspec_t mods[MAXMOD]; static int nmods;
static proc_t *procs; static int nprocs;
static cbtab_t cbs[MAXMOD * 8]; static int ncbs;

enum { K_EVAL, K_START, K_STOP, K_EVT };

/* ---------------------------------------------------------------- runtime state */
static m_mod_t *handle[MAXMOD];          /* a usable pointer while the user holds >= 1 reference */
static m_mod_t *modptr[MAXMOD];          /* the module object while it is alive (environment actions need no user reference) */
static int urefs[MAXMOD];
static char names[MAXMOD][16];
static int cbcount[MAXMOD][4];
static void *held_evts[64]; static int nheld;
#define NUFD 16
static int ufd_r[NUFD], ufd_w[NUFD]; static bool ufd_closed[NUFD];
static void *payload[4096];
static int base_fds;

static void out(const char *fmt, ...) { va_list ap; va_start(ap, fmt); vprintf(fmt, ap); va_end(ap); putchar('\n'); }

/* ---------------------------------------------------------------- allocator / object census */
#define MAXOBJ 8192
static struct { void *data; size_t size; bool dtor; } objs[MAXOBJ]; static int nobjs;

void *__real_m_mem_new(size_t size, m_ref_dtor dtor);
void *__wrap_m_mem_new(size_t size, m_ref_dtor dtor) {
    void *d = __real_m_mem_new(size, dtor);
    if (d) {
        int i; for (i = 0; i < nobjs && objs[i].data; i++);
        if (i == nobjs && nobjs < MAXOBJ) nobjs++;
        if (i < MAXOBJ) { objs[i].data = d; objs[i].size = size; objs[i].dtor = dtor != NULL; }
    }
    return d;
}
static void h_free(void *p) {
    if (!p) return;
    for (int i = 0; i < 4096; i++) if (payload[i] == p) { out("freedata %d", i); payload[i] = NULL; break; }
    /* an m_mem block is freed through its header: data = header + 32 */
    for (int i = 0; i < nobjs; i++) if (objs[i].data && (char *)objs[i].data - (char *)p > 0 && (char *)objs[i].data - (char *)p <= 64) {
        for (int j = 0; j < MAXMOD; j++) if (modptr[j] == objs[i].data) modptr[j] = NULL;
        objs[i].data = NULL; break; }
    free(p);
}
static int count_objs(size_t size, int need_dtor) {
    int n = 0;
    for (int i = 0; i < nobjs; i++) if (objs[i].data && objs[i].size == size && (need_dtor < 0 || objs[i].dtor == (bool)need_dtor)) n++;
    return n;
}
static int count_fds(void) {
    int n = 0; DIR *d = opendir("/proc/self/fd"); struct dirent *e;
    if (!d) return -1;
    while ((e = readdir(d))) if (e->d_name[0] != '.') n++;
    closedir(d);
    return n - 1;    /* the directory stream itself */
}

/* ---------------------------------------------------------------- wraps */
/* module pipes: shrunk to `pipecap` messages when the script asks for it (bursts beyond the capacity stay cheap) */
static long pipecap;
int __real_pipe(int fds[2]);
int __wrap_pipe(int fds[2]) {
    int r = __real_pipe(fds);
    if (r == 0 && pipecap > 0) fcntl(fds[1], F_SETPIPE_SZ, (int)(pipecap * sizeof(void *)));
    return r;
}
int __real_close(int fd);
int __wrap_close(int fd) {
    for (int i = 0; i < NUFD; i++) if (fd >= 0 && fd == ufd_r[i] && !ufd_closed[i]) { out("close %d", i); ufd_closed[i] = true; }
    return __real_close(fd);
}
int __real_timerfd_settime(int fd, int flags, const struct itimerspec *new_value, struct itimerspec *old_value);
int __wrap_timerfd_settime(int fd, int flags, const struct itimerspec *new_value, struct itimerspec *old_value) {
    struct itimerspec off = {{0}};    /* disarmed: the script decides when a timer expires */
    (void)flags; (void)new_value;
    return __real_timerfd_settime(fd, 0, &off, old_value);
}

static int mod_index(const m_mod_t *m) { for (int i = 0; i < MAXMOD; i++) if (names[i][0] && m && m_mod_name(m) == names[i]) return i; return -1; }
static int ufd_id(int fd) { for (int i = 0; i < NUFD; i++) if (ufd_r[i] == fd) return i; return -1; }
/* M_SRC_DUP: the library polls a duplicate of the user's descriptor and keys / reports the source by that fresh number. The trace names it
   2^32 * (ordinal of the duplicate) + the user's descriptor id, the model's dup_key */
#define NDUP 4096
static int dup_ord[NDUP], dup_orig[NDUP], dup_count;
int __real_dup(int fd);
int __wrap_dup(int fd) {
    int r = __real_dup(fd); int u = ufd_id(fd);
    if (r >= 0 && r < NDUP && u >= 0) { dup_ord[r] = ++dup_count; dup_orig[r] = u; }
    else if (r >= 0 && r < NDUP) dup_ord[r] = 0;
    return r;
}
static long long fd_key(int fd) {
    int u = ufd_id(fd); if (u >= 0) return u;
    if (fd >= 0 && fd < NDUP && dup_ord[fd] > 0) return 4294967296LL * dup_ord[fd] + dup_orig[fd];
    return -1;
}
static int fd_user(int fd) { int u = ufd_id(fd); if (u >= 0) return u; return (fd >= 0 && fd < NDUP && dup_ord[fd] > 0) ? dup_orig[fd] : -1; }
static int kind_num(const ev_src_t *s) { return (int)s->type; }
static unsigned long long path_key(const char *p);
static long pid_key_of(pid_t pid);
static unsigned long long src_key(const ev_src_t *s) {
    switch (s->type) {
    case M_SRC_TYPE_PS: return 0;
    case M_SRC_TYPE_FD: return (unsigned long long)fd_key(s->fd_src.fd);
    case M_SRC_TYPE_TMR: return s->tmr_src.its.ns;
    case M_SRC_TYPE_SGN: return s->sgn_src.sgs.signo;
    case M_SRC_TYPE_TASK: return (unsigned long long)s->task_src.tid.tid;
    case M_SRC_TYPE_PATH: return path_key(s->path_src.pt.path);
    case M_SRC_TYPE_PID: return (unsigned long long)pid_key_of(s->pid_src.pid.pid);
    default: return 0;
    }
}
static int ev_cmp(const void *a, const void *b) {
    const ev_src_t *x = ((const struct epoll_event *)a)->data.ptr, *y = ((const struct epoll_event *)b)->data.ptr;
    int mx = x->mod ? mod_index(x->mod) + 1 : 0, my = y->mod ? mod_index(y->mod) + 1 : 0;
    if (mx != my) return mx < my ? -1 : 1;
    if (kind_num(x) != kind_num(y)) return kind_num(x) < kind_num(y) ? -1 : 1;
    unsigned long long kx = src_key(x), ky = src_key(y);
    return kx < ky ? -1 : kx > ky ? 1 : 0;
}

/* environment actions of a blocking loop */
static call_t *envq[MAXCALL]; static int envn, envi;
static void do_env(call_t *c);

int __real_epoll_wait(int epfd, struct epoll_event *events, int maxevents, int timeout);
int __wrap_epoll_wait(int epfd, struct epoll_event *events, int maxevents, int timeout) {
    int n;
    for (;;) {
        n = __real_epoll_wait(epfd, events, maxevents, 0);
        if (n != 0 || timeout == 0) break;
        if (envi < envn) { do_env(envq[envi++]); continue; }
        out("FAULT 9"); fflush(stdout); _exit(0);       /* the loop would block for ever */
    }
    if (n > 1) qsort(events, n, sizeof(*events), ev_cmp);
    return n;
}

/* ---------------------------------------------------------------- topics */
static const char *patterns[] = { "t.*", "t[12]", "^t1$", "t1|t3", "t[3-5]", "x.*", "1", "^t" };
#define NPAT 8
static char topicbuf[64][16];
static const char *topic_str(long t) {
    switch (t) {
    case 1001: return M_PS_CTX_STARTED; case 1002: return M_PS_CTX_STOPPED; case 1003: return M_PS_CTX_TICK;
    case 1004: return M_PS_MOD_STARTED; case 1005: return M_PS_MOD_STOPPED; case 1006: return M_PS_MOD_POISONPILL;
    }
    if (t >= 500 && t < 500 + NPAT) return patterns[t - 500];
    if (t >= 1000) t = 63;
    snprintf(topicbuf[t % 64], 16, "t%ld", t);
    return topicbuf[t % 64];
}
static long topic_id(const char *s) {
    if (!s) return 0;
    for (long t = 1001; t <= 1006; t++) if (!strcmp(s, topic_str(t))) return t;
    for (int i = 0; i < NPAT; i++) if (!strcmp(s, patterns[i])) return 500 + i;
    if (s[0] == 't') return atol(s + 1);
    return -1;
}

/* ---------------------------------------------------------------- interpreter */
static void run_proc(int p, m_evt_t **cur, int ncur);

static int lookup_cb(int m, int kind, int handler, int n, int *retv) {
    for (int i = 0; i < ncbs; i++) if (cbs[i].mod == m && cbs[i].kind == kind && cbs[i].handler == handler) {
        if (n < cbs[i].n) { *retv = cbs[i].ret[n]; return cbs[i].proc[n]; }
        break;
    }
    *retv = 1; return 0;
}
static const char *kname[] = { "eval", "start", "stop", "evt" };

static bool hook_common(m_mod_t *self, int kind) {
    int m = mod_index(self); int n = cbcount[m][kind]++;
    int retv, p = lookup_cb(m, kind, 0, n, &retv);
    out("cb %d %s %d 0 st=%d", m, kname[kind], n, (int)m_mod_state(self));
    run_proc(p, NULL, 0);
    out("}");
    return retv;
}
static bool on_eval(m_mod_t *self) { return hook_common(self, K_EVAL); }
static bool on_start(m_mod_t *self) { return hook_common(self, K_START); }
static void on_stop(m_mod_t *self) { hook_common(self, K_STOP); }

static void handler_common(m_mod_t *self, const m_queue_t *const evts, int h) {
    int m = mod_index(self); int n = cbcount[m][K_EVT]++;
    m_evt_t *cur[256]; int ncur = 0;
    char line[8192]; int len = snprintf(line, sizeof(line), "cb %d evt %d %d st=%d", m, n, h, (int)m_mod_state(self));
    for (m_queue_itr_t *it = m_queue_itr_new(evts); it; m_queue_itr_next(&it)) {
        m_evt_t *e = m_queue_itr_get_data(it);
        if (ncur < 256) cur[ncur++] = e;
        long key = 0, topic = 0, data = 0, sender = -1, sys = 0, kind = e->type;
        switch (e->type) {
        case M_SRC_TYPE_PS: {
            const m_evt_ps_t *ps = e->ps_evt;
            topic = topic_id(ps->topic); sys = ps->system; sender = ps->sender ? mod_index(ps->sender) : -1;
            data = 0; for (int i = 0; i < 4096 && ps->data; i++) if (payload[i] == ps->data) { data = i; break; }
            kind = 0; break; }
        case M_SRC_TYPE_FD: {
            key = fd_key(e->fd_evt->fd); char c; int u = fd_user(e->fd_evt->fd);
            if (u >= 0 && read(ufd_r[u], &c, 1) != 1) { /* level triggered: nothing to read */ }
            break; }
        case M_SRC_TYPE_TMR: key = (long)e->tmr_evt->ns; break;
        case M_SRC_TYPE_SGN: key = e->sgn_evt->signo; break;
        case M_SRC_TYPE_TASK: key = e->task_evt->tid; break;
        case M_SRC_TYPE_PATH: key = (long)path_key(e->path_evt->path); break;
        case M_SRC_TYPE_PID: key = pid_key_of(e->pid_evt->pid); break;
        default: break;
        }
        len += snprintf(line + len, sizeof(line) - len, " %ld:%ld:%ld:%ld:%ld:%ld:%lu", kind, key, topic, data, sender, sys, (unsigned long)(uintptr_t)e->userdata);
    }
    out("%s", line);
    int retv, p = lookup_cb(m, K_EVT, h, n, &retv);
    run_proc(p, cur, ncur);
    out("}");
}
static void h0(m_mod_t *s, const m_queue_t *const q) { handler_common(s, q, 0); }
static void h1(m_mod_t *s, const m_queue_t *const q) { handler_common(s, q, 1); }
static void h2(m_mod_t *s, const m_queue_t *const q) { handler_common(s, q, 2); }
static void h3(m_mod_t *s, const m_queue_t *const q) { handler_common(s, q, 3); }
static m_evt_cb handlers[] = { h0, h1, h2, h3 };

/* task sources: the task body of (module m, tid k) blocks until the script fires it ("fire m task k"), so that the completion of a
   task is an environment action like every other one; task_waiting counts the threads parked at each gate */
#include <semaphore.h>
#define NGATE 32
static sem_t task_gate[NGATE]; static volatile int task_waiting[NGATE];
/* task_expected: task threads handed to the pool per gate; task_entered: bodies that have reached their gate */
static volatile int task_expected[NGATE], task_entered[NGATE];
static int task_body(int g) { __atomic_add_fetch(&task_waiting[g], 1, __ATOMIC_SEQ_CST); __atomic_add_fetch(&task_entered[g], 1, __ATOMIC_SEQ_CST); sem_wait(&task_gate[g]); return 7; }
static void wait_parked(int g) { for (int i = 0; i < 15000 && task_entered[g] < task_expected[g]; i++) usleep(1000); }
#define TF(g) static int task_fn_##g(void *up) { (void)up; return task_body(g); }
TF(0) TF(1) TF(2) TF(3) TF(4) TF(5) TF(6) TF(7) TF(8) TF(9) TF(10) TF(11) TF(12) TF(13) TF(14) TF(15) TF(16) TF(17) TF(18) TF(19)
TF(20) TF(21) TF(22) TF(23) TF(24) TF(25) TF(26) TF(27) TF(28) TF(29) TF(30) TF(31)
static int (*task_fns[])(void *) = { task_fn_0, task_fn_1, task_fn_2, task_fn_3, task_fn_4, task_fn_5, task_fn_6, task_fn_7, task_fn_8, task_fn_9,
  task_fn_10, task_fn_11, task_fn_12, task_fn_13, task_fn_14, task_fn_15, task_fn_16, task_fn_17, task_fn_18, task_fn_19, task_fn_20, task_fn_21,
  task_fn_22, task_fn_23, task_fn_24, task_fn_25, task_fn_26, task_fn_27, task_fn_28, task_fn_29, task_fn_30, task_fn_31 };
/* the library joins its task threads when the loop stops (m_thpool_free): the parked bodies finish then */
int __real_pthread_join(pthread_t th, void **ret);
int __wrap_pthread_join(pthread_t th, void **ret) {
    for (int g = 0; g < NGATE; g++) while (task_waiting[g] > 0) { __atomic_sub_fetch(&task_waiting[g], 1, __ATOMIC_SEQ_CST); sem_post(&task_gate[g]); }
    return __real_pthread_join(th, ret);
}
/* the context's task pool is lazy: it adds a worker only when every worker is busy RUNNING a task, not counting tasks still queued. Two tasks
   started back to back can therefore share one worker, and with bodies that park until the script fires them the second one would never start.
   The scripted world gives every started task its own thread: wait until the worker has taken the task before the library goes on. */
static int gate_of(long m, unsigned long long key);
int __real_m_thpool_add(m_thpool_t *pool, m_thpool_task task, void *arg);
int __wrap_m_thpool_add(m_thpool_t *pool, m_thpool_task task, void *arg) {
    ev_src_t *ts = (ev_src_t *)arg;          /* the core's only use of the pool: task_thread(src) */
    int g = (ts && ts->type == M_SRC_TYPE_TASK && ts->mod) ? gate_of(mod_index(ts->mod), (unsigned long long)ts->task_src.tid.tid) : -1;
    if (g >= 0) __atomic_add_fetch(&task_expected[g], 1, __ATOMIC_SEQ_CST);
    int r = __real_m_thpool_add(pool, task, arg);
    if (r != 0 && g >= 0) __atomic_sub_fetch(&task_expected[g], 1, __ATOMIC_SEQ_CST);
    if (r == 0) for (int i = 0; i < 15000 && m_thpool_length(pool) > 0; i++) usleep(1000);
    return r;
}
static int gate_of(long m, unsigned long long key) { return (int)((m * 4 + (long)(key % 4)) % NGATE); }
static int task_fn(void *up) { (void)up; return 7; }

static long L(const char *s) { return strtol(s, NULL, 10); }
static unsigned long long U(const char *s) { return strtoull(s, NULL, 10); }
static m_src_types ktype(const char *k) {
    if (!strcmp(k, "fd")) return M_SRC_TYPE_FD; if (!strcmp(k, "tmr")) return M_SRC_TYPE_TMR;
    if (!strcmp(k, "sgn")) return M_SRC_TYPE_SGN; if (!strcmp(k, "path")) return M_SRC_TYPE_PATH;
    if (!strcmp(k, "pid")) return M_SRC_TYPE_PID; if (!strcmp(k, "task")) return M_SRC_TYPE_TASK;
    if (!strcmp(k, "thresh")) return M_SRC_TYPE_THRESH; return M_SRC_TYPE_PS;
}
static m_src_flags prio_flags(long p) {
    switch (p) { case 1: return M_SRC_PRIO_LOW; case 2: return M_SRC_PRIO_NORM; case 3: return M_SRC_PRIO_HIGH;
                 case 4: return M_SRC_PRIO_LOW | M_SRC_PRIO_HIGH; case 5: return M_SRC_PRIO_NORM | M_SRC_PRIO_HIGH; default: return 0; }
}
static void *get_payload(long d) {
    if (d <= 0 || d >= 4096) return NULL;
    if (!payload[d]) { payload[d] = malloc(8); }
    return payload[d];
}
/* path sources watch real files, created by the driver process in a scratch directory of its own (removed at exit) */
static char pathdir[48];
static char pathbuf[64][80];
static const char *path_str(unsigned long long key) { snprintf(pathbuf[key % 64], 80, "%s/%llu", pathdir, key % 10); return pathbuf[key % 64]; }
static unsigned long long path_key(const char *p) { const char *q = p ? strrchr(p, '/') : NULL; return q ? strtoull(q + 1, NULL, 10) : 0; }
/* pid sources watch real processes: one sleeping child per (module, key), killed when the script fires it */
#include <sys/prctl.h>
#define NPIDKEY 4
static pid_t pid_child[MAXMOD][NPIDKEY]; static bool pid_dead[MAXMOD][NPIDKEY];
/* mode 0: look up; 1: fork a sleeper if the slot never had one; 2 (registration): also replace a dead one
   (a dead process would make a new pidfd readable at once) */
static pid_t pid_hist[256]; static long pid_hist_key[256]; static int pid_nhist;
static pid_t pid_of(long m, unsigned long long key, int mode) {
    if (m < 0 || m >= MAXMOD || key == 0 || key >= NPIDKEY) return 0;
    if (mode == 2 && pid_child[m][key] && pid_dead[m][key]) {
        /* the dead child is replaced; an event about it may still sit in a batch: remember which key it had */
        if (pid_nhist < 256) { pid_hist[pid_nhist] = pid_child[m][key]; pid_hist_key[pid_nhist++] = (long)key; }
        waitpid(pid_child[m][key], NULL, 0); pid_child[m][key] = 0; pid_dead[m][key] = false;
    }
    if (mode >= 1 && !pid_child[m][key]) {
        /* the sleeper must outlive the THREAD that forks it (PR_SET_PDEATHSIG follows the forking thread: a child forked by a foreign
           thread of a script died with that thread and made its pid source fire): it watches the case process instead */
        pid_t me = getpid(); pid_t c = fork();
        if (c == 0) { while (getppid() == me) usleep(100000); _exit(0); }
        pid_child[m][key] = c;
    }
    return pid_child[m][key];
}
static long pid_key_of(pid_t pid) { for (int m = 0; m < MAXMOD; m++) for (int k = 1; k < NPIDKEY; k++) if (pid_child[m][k] == pid) return k; for (int i = pid_nhist - 1; i >= 0; i--) if (pid_hist[i] == pid) return pid_hist_key[i]; return 0; }

/* white-box: find the library's source object (for firing) */
static ev_src_t *find_lib_src(m_mod_t *mod, m_src_types t, unsigned long long key) {
    ev_src_t k; memset(&k, 0, sizeof(k));
    switch (t) {
    case M_SRC_TYPE_TMR: k.tmr_src.its.ns = key; break;
    case M_SRC_TYPE_SGN: k.sgn_src.sgs.signo = (unsigned)key; break;
    case M_SRC_TYPE_TASK: k.task_src.tid.tid = (int)key; break;
    case M_SRC_TYPE_PATH: k.path_src.pt.path = path_str(key); break;
    default: return NULL;      /* pid sources: find_pid_src (needs the module index) */
    }
    return m_bst_find(mod->srcs[t], &k);
}
static ev_src_t *find_pid_src(int m, unsigned long long key) {
    ev_src_t k; memset(&k, 0, sizeof(k)); k.pid_src.pid.pid = pid_of(m, key, 0);
    return k.pid_src.pid.pid ? m_bst_find(modptr[m]->srcs[M_SRC_TYPE_PID], &k) : NULL;
}
static int closed_ufds(void) { int n = 0; for (int i = 0; i < NUFD; i++) n += ufd_closed[i]; return n; }
static void wait_readable(int fd) { struct pollfd p = { fd, POLLIN, 0 }; poll(&p, 1, 3000); }   /* returns as soon as readable; the bound only matters when the expected readiness never comes (a changed library) or on an overloaded machine (disagreeing cases are run again alone) */

static void do_env(call_t *c) {
    const char *o = c->tok[0];
    if (!strcmp(o, "fdwrite")) { long u = L(c->tok[1]); if (u >= 0 && u < NUFD && !ufd_closed[u]) { char x = 1; if (write(ufd_w[u], &x, 1) != 1) {} } }
    else if (!strcmp(o, "fire")) {
        int m = (int)L(c->tok[1]); m_src_types t = ktype(c->tok[2]); unsigned long long key = U(c->tok[3]);
        if (t == M_SRC_TYPE_PATH) {
            /* the file is modified (whoever watches it): every armed watch of that path gets one inotify event */
            if (key == 0 || key > 9) return;
            int fd = open(path_str(key), O_WRONLY | O_APPEND); if (fd >= 0) { char x = 'x'; if (write(fd, &x, 1) != 1) {} __real_close(fd); }
            for (int m2 = 0; m2 < MAXMOD; m2++) {
                if (!modptr[m2] || m_mod_is(modptr[m2], M_MOD_ZOMBIE)) continue;
                ev_src_t *s2 = find_lib_src(modptr[m2], t, key);
                if (s2 && s2->ev) wait_readable(s2->path_src.f.fd);
            }
            return;
        }
        if (m < 0 || m >= MAXMOD) return;
        if (!modptr[m] || m_mod_is(modptr[m], M_MOD_ZOMBIE)) {
            if (t == M_SRC_TYPE_TASK) { int g = gate_of(m, key); wait_parked(g); if (task_waiting[g] > 0) { __atomic_sub_fetch(&task_waiting[g], 1, __ATOMIC_SEQ_CST); sem_post(&task_gate[g]); { struct timespec t0, t1; clock_gettime(CLOCK_MONOTONIC, &t0); do { usleep(50000); clock_gettime(CLOCK_MONOTONIC, &t1); } while (t1.tv_sec - t0.tv_sec < 8); }; } }
            return;
        }
        if (t == M_SRC_TYPE_PID) {                      /* the watched process dies */
            ev_src_t *ps = find_pid_src(m, key);
            if (!ps || !ps->ev || pid_dead[m][key % NPIDKEY]) return;
            kill(pid_of(m, key, 0), SIGKILL); pid_dead[m][key % NPIDKEY] = true;
            wait_readable(ps->pid_src.f.fd);
            return;
        }
        ev_src_t *s = find_lib_src(modptr[m], t, key);
        if (t == M_SRC_TYPE_TASK) {
            /* let ONE parked task body of (m, key) finish; with an armed source wait for its completion event */
            int g = gate_of(m, key);
            wait_parked(g);                                  /* a thread handed to the pool may still be on its way to the gate */
            if (task_waiting[g] > 0) { __atomic_sub_fetch(&task_waiting[g], 1, __ATOMIC_SEQ_CST); sem_post(&task_gate[g]); if (!s || !s->ev) { struct timespec t0, t1; clock_gettime(CLOCK_MONOTONIC, &t0); do { usleep(50000); clock_gettime(CLOCK_MONOTONIC, &t1); } while (t1.tv_sec - t0.tv_sec < 8); }; }   /* an orphan thread: leave the sanitizer time to report */
            if (s && s->ev) wait_readable(s->task_src.f.fd);
            return;
        }
        if (!s || !s->ev) return;                       /* not armed: nothing can fire */
        if (t == M_SRC_TYPE_TMR) {
            struct itimerspec v = {{0}}; v.it_value.tv_nsec = 1;
            __real_timerfd_settime(s->tmr_src.f.fd, 0, &v, NULL); wait_readable(s->tmr_src.f.fd);
        } else if (t == M_SRC_TYPE_SGN) {
            sigset_t pend; sigpending(&pend);
            if (!sigismember(&pend, (int)key)) raise((int)key);      /* queued (real time) signals would need one read each */
            wait_readable(s->sgn_src.f.fd);
        }
    } else if (!strcmp(o, "firetick")) {
        m_ctx_t *c2 = m_ctx();
        if (c2 && c2->tick.src && c2->tick.src->ev) {
            struct itimerspec v = {{0}}; v.it_value.tv_nsec = 1;
            __real_timerfd_settime(c2->tick.src->tmr_src.f.fd, 0, &v, NULL); wait_readable(c2->tick.src->tmr_src.f.fd);
        }
    }
}

static bool is_env(call_t *c) { return !strcmp(c->tok[0], "fdwrite") || !strcmp(c->tok[0], "fire") || !strcmp(c->tok[0], "firetick"); }

#define H(i) ((i) >= 0 && (i) < MAXMOD ? handle[i] : NULL)

static int exec_call(proc_t *pr, int idx, m_evt_t **cur, int ncur);

/* "foreign <own> <call...>": the call is made by ANOTHER thread, which holds a context of its own (own = 1) or none;
   the calling thread waits for it (so a foreign call placed in a callback runs while the owner is inside that callback) */
typedef struct { proc_t pr; int own; m_evt_t **cur; int ncur; } foreign_t;
static void *foreign_main(void *arg) {
    foreign_t *f = arg;
    if (f->own) { int r = m_ctx_register("fctx", M_CTX_PERSIST, NULL); if (r) out("BADFOREIGN ctxreg %d", r); }
    exec_call(&f->pr, 0, f->cur, f->ncur);
    if (f->own) { int r = m_ctx_deregister(); if (r) out("BADFOREIGN ctxdereg %d", r); }
    return NULL;
}

static int exec_call(proc_t *pr, int idx, m_evt_t **cur, int ncur) {
    call_t *c = &pr->calls[idx];
    const char *o = c->tok[0];
    int consumed = 1;
    if (!strcmp(o, "foreign")) {
        out("> foreign");
        if (c->nt < 3 || !strcmp(c->tok[2], "foreign") || !strcmp(c->tok[2], "loop")) { out("BADCALL foreign"); return 1; }
        static foreign_t f; memset(&f, 0, sizeof(f));
        call_t *inner = &f.pr.calls[0]; inner->nt = c->nt - 2;
        for (int i = 0; i < inner->nt; i++) strcpy(inner->tok[i], c->tok[i + 2]);
        f.pr.n = 1; f.own = (int)L(c->tok[1]); f.cur = cur; f.ncur = ncur;
        pthread_t th; fflush(stdout);
        if (pthread_create(&th, NULL, foreign_main, &f)) { out("BADCALL foreign thread"); return 1; }
        __real_pthread_join(th, NULL);
        return 1;
    }
    if (!strcmp(o, "tell") || !strcmp(o, "publish") || !strcmp(o, "tellmany")) out("> %s %s", o, c->tok[3]);
    else if (!strcmp(o, "broadcast")) out("> %s %s", o, c->tok[2]);
    else if (!strcmp(o, "stash")) out("> %s %ld", o, 100 * (L(c->tok[1]) + 1) + L(c->tok[2]) + 1);
    else out("> %s", o);
    long a = c->nt > 1 ? L(c->tok[1]) : 0;
    if (!strcmp(o, "ctxreg")) out("r%d", m_ctx_register("ctx", a ? M_CTX_PERSIST : 0, NULL));
    else if (!strcmp(o, "ctxdereg")) out("r%d", m_ctx_deregister());
    else if (!strcmp(o, "finalize")) out("r%d", m_ctx_finalize());
    else if (!strcmp(o, "loop")) {
        /* the environment actions that follow belong to this blocking loop */
        int save_n = envn, save_i = envi; call_t *save_q[MAXCALL]; memcpy(save_q, envq, sizeof(envq));
        envn = envi = 0;
        int j = idx + 1;
        while (j < pr->n && is_env(&pr->calls[j])) envq[envn++] = &pr->calls[j++];
        consumed = j - idx;
        m_ctx_t *cx = m_ctx();
        bool runs = cx && cx->state == M_CTX_IDLE;
        int r = m_ctx_loop();
        if (runs) { /* environment actions not consumed are dropped like in the model */ }
        else consumed = 1;
        out("r%d", r);
        memcpy(envq, save_q, sizeof(envq)); envn = save_n; envi = save_i;
    }
    else if (!strcmp(o, "dispatch")) out("r%d", m_ctx_dispatch());
    else if (!strcmp(o, "quit")) out("r%d", m_ctx_quit((uint8_t)a));
    else if (!strcmp(o, "ctxlen")) out("r%zd", m_ctx_len());
    else if (!strcmp(o, "stats")) {
        m_ctx_stats_t st; int r = m_ctx_stats(&st); out("r%d", r);
        if (r == 0) {
            /* white-box: how many modules of the table really are RUNNING */
            int running = 0; m_ctx_t *cx = m_ctx();
            for (m_map_itr_t *it = m_map_itr_new(cx->modules); it; m_map_itr_next(&it)) running += m_mod_is(m_map_itr_get_data(it), M_MOD_RUNNING);
            out("val %zu", st.running_modules); out("val %d", running);
        }
    }
    else if (!strcmp(o, "settick")) out("r%d", m_ctx_set_tick(U(c->tok[1])));
    else if (!strcmp(o, "reg")) {
        int m = (int)a; modspec_t *s = &mods[m];
        m_mod_hook_t hk = { s->hstart ? on_start : NULL, s->heval ? on_eval : NULL, h0, s->hstop ? on_stop : NULL };
        m_mod_flags fl = (s->replace ? M_MOD_ALLOW_REPLACE : 0) | (s->persist ? M_MOD_PERSIST : 0) | (s->denyctx ? M_MOD_DENY_CTX : 0) |
                         (s->denypub ? M_MOD_DENY_PUB : 0) | (s->denysub ? M_MOD_DENY_SUB : 0);
        snprintf(names[m], sizeof(names[m]), "m%d", s->name);
        m_mod_t *ref = NULL;
        int r = m_mod_register(names[m], &ref, &hk, fl, NULL);
        if (r == 0) { handle[m] = ref; modptr[m] = ref; urefs[m] = 1; } else names[m][0] = 0;
        out("r%d", r);
    }
    else if (!strcmp(o, "dereg")) {
        int m = (int)a; m_mod_t *p = H(m);
        int r = m_mod_deregister(&p);
        if (r == 0 && m >= 0 && m < MAXMOD) { if (--urefs[m] == 0) handle[m] = NULL; }
        out("r%d", r);
    }
    else if (!strcmp(o, "start")) out("r%d", m_mod_start(H(a)));
    else if (!strcmp(o, "pause")) out("r%d", m_mod_pause(H(a)));
    else if (!strcmp(o, "resume")) out("r%d", m_mod_resume(H(a)));
    else if (!strcmp(o, "stop")) out("r%d", m_mod_stop(H(a)));
    else if (!strcmp(o, "state")) { if (H(a)) out("state %ld %d", a, (int)m_mod_state(H(a))); else out("r%d", (int)m_mod_state(NULL)); }
    else if (!strcmp(o, "ref")) { if (H(a)) { m_mem_ref(H(a)); urefs[a]++; out("r0"); } else out("r%d", -EINVAL); }
    else if (!strcmp(o, "unref")) { if (H(a)) { m_mod_t *p = H(a); if (--urefs[a] == 0) handle[a] = NULL; m_mem_unref(p); out("r0"); } else out("r%d", -EINVAL); }
    else if (!strcmp(o, "become")) out("r%d", m_mod_become(H(a), handlers[L(c->tok[2]) & 3]));
    else if (!strcmp(o, "unbecome")) out("r%d", m_mod_unbecome(H(a)));
    else if (!strcmp(o, "stash")) { long k = L(c->tok[2]); out("r%d", m_mod_stash(H(a), k >= 0 && k < ncur ? cur[k] : NULL)); }
    else if (!strcmp(o, "unstash")) out("r%zd", m_mod_unstash(H(a), (size_t)L(c->tok[2])));
    else if (!strcmp(o, "evtref")) { if (a >= 0 && a < ncur && nheld < 64) { held_evts[nheld++] = m_mem_ref(cur[a]); out("r0"); } else out("r%d", -EINVAL); }
    else if (!strcmp(o, "evtunref")) { if (a >= 0 && a < nheld) { void *e = held_evts[a]; memmove(&held_evts[a], &held_evts[a + 1], (nheld - a - 1) * sizeof(void *)); nheld--; m_mem_unref(e); out("r0"); } else out("r%d", -EINVAL); }
    else if (!strcmp(o, "batchsize")) out("r%d", m_mod_set_batch_size(H(a), (size_t)U(c->tok[2])));
    else if (!strcmp(o, "batchtimeout")) out("r%d", m_mod_set_batch_timeout(H(a), U(c->tok[2])));
    else if (!strcmp(o, "tb")) out("r%d", m_mod_set_tokenbucket(H(a), (uint32_t)U(c->tok[2]), U(c->tok[3])));
    else if (!strcmp(o, "sub")) {
        m_src_flags fl = prio_flags(L(c->tok[3])) | (L(c->tok[4]) ? M_SRC_ONESHOT : 0);
        out("r%d", m_mod_ps_subscribe(H(a), topic_str(L(c->tok[2])), fl, (void *)(uintptr_t)U(c->tok[5])));
    }
    else if (!strcmp(o, "unsub")) out("r%d", m_mod_ps_unsubscribe(H(a), topic_str(L(c->tok[2]))));
    else if (!strcmp(o, "tell")) out("r%d", m_mod_ps_tell(H(a), H(L(c->tok[2])), get_payload(L(c->tok[3])), L(c->tok[4]) ? M_PS_AUTOFREE : 0));
    else if (!strcmp(o, "tellmany")) { int r = 0; for (long i = 0; i < L(c->tok[4]); i++) r = m_mod_ps_tell(H(a), H(L(c->tok[2])), get_payload(L(c->tok[3])), 0); out("r%d", r); }
    else if (!strcmp(o, "publish")) out("r%d", m_mod_ps_publish(H(a), topic_str(L(c->tok[2])), get_payload(L(c->tok[3])), L(c->tok[4]) ? M_PS_AUTOFREE : 0));
    else if (!strcmp(o, "broadcast")) out("r%d", m_mod_ps_publish(H(a), NULL, get_payload(L(c->tok[2])), L(c->tok[3]) ? M_PS_AUTOFREE : 0));
    else if (!strcmp(o, "pill")) out("r%d", m_mod_ps_poisonpill(H(a), H(L(c->tok[2]))));
    else if (!strcmp(o, "srcreg")) {
        m_src_types t = ktype(c->tok[2]); unsigned long long key = U(c->tok[3]);
        m_src_flags fl = prio_flags(L(c->tok[4]) % 8) | (L(c->tok[4]) >= 8 ? M_SRC_DUP : 0) | (L(c->tok[5]) ? M_SRC_ONESHOT : 0) | (L(c->tok[6]) ? M_SRC_FD_AUTOCLOSE : 0);
        void *up = (void *)(uintptr_t)U(c->tok[7]); int r = -EINVAL;
        switch (t) {
        case M_SRC_TYPE_FD: r = m_mod_src_register_fd(H(a), key < NUFD ? ufd_r[key] : -1, fl, up); break;
        case M_SRC_TYPE_TMR: { m_src_tmr_t its = { CLOCK_MONOTONIC, key }; r = m_mod_src_register_tmr(H(a), &its, fl, up); break; }
        case M_SRC_TYPE_SGN: { m_src_sgn_t sg = { (unsigned)key }; r = m_mod_src_register_sgn(H(a), &sg, fl, up); break; }
        case M_SRC_TYPE_PATH: { m_src_path_t pt = { key ? path_str(key) : "", 2 }; r = m_mod_src_register_path(H(a), &pt, fl, up); break; }
        case M_SRC_TYPE_PID: {
            /* a dead child is replaced unless its source is still registered (then the key is simply present) */
            bool present = a >= 0 && a < MAXMOD && modptr[a] && !m_mod_is(modptr[a], M_MOD_ZOMBIE) && find_pid_src((int)a, key);
            m_src_pid_t pd = { pid_of(a, key, present ? 1 : 2), 0 }; r = m_mod_src_register_pid(H(a), &pd, fl, up); break; }
        case M_SRC_TYPE_TASK: { m_src_task_t tk = { (int)key, key ? task_fns[gate_of(a, key)] : NULL }; r = m_mod_src_register_task(H(a), &tk, fl, up);
            /* a RUNNING module starts the task thread at once: wait until its body is parked at the gate, so that what follows is ordered after it */
            if (r == 0 && H(a) && m_mod_is(H(a), M_MOD_RUNNING)) wait_parked(gate_of(a, key));
            break; }
        case M_SRC_TYPE_THRESH: { m_src_thresh_t th = { key, 0 }; r = m_mod_src_register_thresh(H(a), &th, fl, up); break; }
        default: break;
        }
        out("r%d", r);
    }
    else if (!strcmp(o, "srcdereg")) {
        m_src_types t = ktype(c->tok[2]); unsigned long long key = U(c->tok[3]); int r = -EINVAL;
        switch (t) {
        case M_SRC_TYPE_FD: r = m_mod_src_deregister_fd(H(a), key < NUFD ? ufd_r[key] : -1); break;
        case M_SRC_TYPE_TMR: { m_src_tmr_t its = { CLOCK_MONOTONIC, key }; r = m_mod_src_deregister_tmr(H(a), &its); break; }
        case M_SRC_TYPE_SGN: { m_src_sgn_t sg = { (unsigned)key }; r = m_mod_src_deregister_sgn(H(a), &sg); break; }
        case M_SRC_TYPE_PATH: { m_src_path_t pt = { key ? path_str(key) : "", 2 }; r = m_mod_src_deregister_path(H(a), &pt); break; }
        case M_SRC_TYPE_PID: { m_src_pid_t pd = { pid_of(a, key, 1), 0 }; r = m_mod_src_deregister_pid(H(a), &pd); break; }
        case M_SRC_TYPE_TASK: { m_src_task_t tk = { (int)key, task_fn }; r = m_mod_src_deregister_task(H(a), &tk); break; }
        case M_SRC_TYPE_THRESH: { m_src_thresh_t th = { key, 0 }; r = m_mod_src_deregister_thresh(H(a), &th); break; }
        default: break;
        }
        out("r%d", r);
    }
    else if (!strcmp(o, "srclen")) { long k = L(c->tok[2]); out("r%zd", m_mod_src_len(H(a), (m_src_types)k)); }
    else if (is_env(c)) { do_env(c); out("r0"); }
    else if (!strcmp(o, "errno")) { errno = (int)a; out("r0"); }
    else if (!strcmp(o, "live")) {
        out("live mod=%d src=%d msg=%d evt=%d data=%d ctx=%d fd=%d",
            count_objs(sizeof(m_mod_t), -1), count_objs(sizeof(ev_src_t), -1), count_objs(sizeof(ps_priv_t), -1),
            count_objs(sizeof(evt_priv_t), -1), count_objs(sizeof(void *), 1), count_objs(sizeof(m_ctx_t), -1), count_fds() - base_fds + closed_ufds());
    }
    else out("BADCALL %s", o);
    return consumed;
}

static int depth;
static void run_proc(int p, m_evt_t **cur, int ncur) {
    if (p <= 0 || p >= nprocs) return;
    if (++depth > 64) { out("FAULT 3"); fflush(stdout); _exit(0); }
    proc_t *pr = &procs[p];
    for (int i = 0; i < pr->n; ) i += exec_call(pr, i, cur, ncur);
    depth--;
}

/* ---------------------------------------------------------------- parameters for the generators */
static void print_params(void) {
    /* module name slots and topic slots in a fresh (256 slot) map, regex table */
    extern m_memhook_t memhook;
    for (int i = 0; i < 64; i++) {
        char nm[16]; snprintf(nm, sizeof(nm), "m%d", i);
        m_map_t *mp = m_map_new(0, NULL); m_map_put(mp, nm, (void *)1);
        /* white-box slot: iterate the table through the public iterator is not enough; recompute with the library's own put */
        printf("mslot %d ", i);
        /* find the slot index by probing the private table */
        struct priv { size_t table_size; size_t length; int flags; struct { const char *key; void *data; } *table; } *pm = (void *)mp;
        for (size_t s = 0; s < pm->table_size; s++) if (pm->table[s].key) printf("%zu\n", s);
        m_map_free(&mp);
    }
    for (int t = 1; t < 64; t++) {
        m_map_t *mp = m_map_new(0, NULL); m_map_put(mp, topic_str(t), (void *)1);
        struct priv { size_t table_size; size_t length; int flags; struct { const char *key; void *data; } *table; } *pm = (void *)mp;
        for (size_t s = 0; s < pm->table_size; s++) if (pm->table[s].key) printf("tslot %d %zu\n", t, s);
        m_map_free(&mp);
    }
    for (int t = 500; t < 500 + NPAT; t++) {
        m_map_t *mp = m_map_new(0, NULL); m_map_put(mp, topic_str(t), (void *)1);
        struct priv { size_t table_size; size_t length; int flags; struct { const char *key; void *data; } *table; } *pm = (void *)mp;
        for (size_t s = 0; s < pm->table_size; s++) if (pm->table[s].key) printf("tslot %d %zu\n", t, s);
        m_map_free(&mp);
    }
    for (int t = 1001; t <= 1006; t++) {
        m_map_t *mp = m_map_new(0, NULL); m_map_put(mp, topic_str(t), (void *)1);
        struct priv { size_t table_size; size_t length; int flags; struct { const char *key; void *data; } *table; } *pm = (void *)mp;
        for (size_t s = 0; s < pm->table_size; s++) if (pm->table[s].key) printf("tslot %d %zu\n", t, s);
        m_map_free(&mp);
    }
    int pats[64 + NPAT + 6], np = 0;
    for (int t = 1; t < 24; t++) pats[np++] = t;
    for (int t = 500; t < 500 + NPAT; t++) pats[np++] = t;
    for (int t = 1001; t <= 1006; t++) pats[np++] = t;
    for (int i = 0; i < np; i++) {
        regex_t re; if (regcomp(&re, topic_str(pats[i]), REG_NOSUB)) continue;
        for (int j = 0; j < np; j++) printf("rem %d %d %d\n", pats[i], pats[j], regexec(&re, topic_str(pats[j]), 0, NULL, 0) == 0);
        regfree(&re);
    }
}

/* ---------------------------------------------------------------- main: parse cases, fork */
static void run_case(void) {
    extern m_memhook_t memhook;
    memhook._free = h_free;
    for (int i = 0; i < NUFD; i++) { int p[2]; if (pipe2(p, O_NONBLOCK | O_CLOEXEC)) { perror("pipe"); _exit(3); } ufd_r[i] = p[0]; ufd_w[i] = p[1]; }
    base_fds = count_fds();
    run_proc(1, NULL, 0);
}

static bool too_long;
int main(int argc, char **argv) {
    setvbuf(stdout, NULL, _IOLBF, 0);          /* before any output: a case that crashes keeps the lines it printed */
    if (argc >= 2 && !strcmp(argv[1], "--params")) { print_params(); return 0; }
    snprintf(pathdir, sizeof(pathdir), "/tmp/vfp.%d", (int)getpid()); mkdir(pathdir, 0700);
    for (int k = 1; k < 10; k++) { int fd = open(path_str(k), O_CREAT | O_WRONLY | O_TRUNC, 0600); if (fd >= 0) __real_close(fd); }
    if (argc < 2) { fprintf(stderr, "usage: %s script | --params\n", argv[0]); return 2; }
    FILE *f = fopen(argv[1], "r"); if (!f) { perror("script"); return 2; }
    procs = calloc(MAXPROC, sizeof(proc_t));
    char *ln = NULL; size_t cap = 0; char id[64] = "";
    int curp = -1; bool in_case = false;
    while (getline(&ln, &cap, f) > 0) {
        char *tok[40]; int nt = 0;
        for (char *t = strtok(ln, " \t\r\n"); t && nt < 40; t = strtok(NULL, " \t\r\n")) tok[nt++] = t;
        if (!nt) continue;
        if (!strcmp(tok[0], "case")) {
            snprintf(id, sizeof(id), "%s", tok[1]); in_case = true; nmods = 0; ncbs = 0; nprocs = 2; curp = -1; pipecap = 0;
            memset(procs, 0, MAXPROC * sizeof(proc_t)); continue;
        }
        if (!in_case) continue;
        if (!strcmp(tok[0], "end")) {
            printf("case %s\n", id); fflush(stdout);
            if (too_long) { printf("BADSCRIPT procedure longer than %d calls\nend\n", MAXCALL); fflush(stdout); in_case = false; too_long = false; continue; }
            /* the child's stderr goes to a scratch file: on a crash the sanitizer summary (kind, function) becomes part of the CRASH line */
            FILE *ef = tmpfile();
            pid_t pid = fork();
            if (pid == 0) {
                if (ef) dup2(fileno(ef), 2);
                for (int g = 0; g < NGATE; g++) { sem_init(&task_gate[g], 0, 0); task_waiting[g] = 0; task_expected[g] = 0; task_entered[g] = 0; }
                memset(pid_child, 0, sizeof(pid_child)); memset(pid_dead, 0, sizeof(pid_dead));
                setvbuf(stdout, NULL, _IOLBF, 0); run_case(); fflush(stdout);
                for (int m = 0; m < MAXMOD; m++) for (int k = 1; k < NPIDKEY; k++) if (pid_child[m][k]) kill(pid_child[m][k], SIGKILL);
                _exit(0);
            }
            int st = 0; waitpid(pid, &st, 0);
            char summary[160] = "";
            if (ef) {
                static char ebuf[1 << 16]; rewind(ef); size_t n = fread(ebuf, 1, sizeof(ebuf) - 1, ef); ebuf[n] = 0; fclose(ef);
                if (n) fwrite(ebuf, 1, n, stderr);
                char *p = strstr(ebuf, "SUMMARY: ");
                if (p) {                                   /* "SUMMARY: AddressSanitizer: <kind> <file:line> in <function>" */
                    char kind[64] = "", func[64] = ""; char *q = strchr(p + 9, ' ');
                    if (q) sscanf(q + 1, "%63s", kind);
                    char *in = strstr(p, " in "); if (in) sscanf(in + 4, "%63s", func);
                    snprintf(summary, sizeof(summary), " %s %s", kind, func);
                }
            }
            if (WIFSIGNALED(st)) printf("CRASH signal %d%s\n", WTERMSIG(st), summary);
            else if (WEXITSTATUS(st) != 0) printf("CRASH exit %d%s\n", WEXITSTATUS(st), summary);
            printf("end\n"); fflush(stdout); in_case = false; continue;
        }
        if (!strcmp(tok[0], "mod") && nt >= 12) {
            int m = atoi(tok[1]); if (m < 0 || m >= MAXMOD) continue;
            modspec_t s = { atoi(tok[2]), atoi(tok[3]), atoi(tok[4]), atoi(tok[5]), atoi(tok[6]), atoi(tok[7]), atoi(tok[8]), atoi(tok[9]), atoi(tok[10]), atoi(tok[11]) };
            mods[m] = s; if (m >= nmods) nmods = m + 1; continue;
        }
        if (!strcmp(tok[0], "pipecap")) { pipecap = atol(tok[1]); continue; }
        if (!strcmp(tok[0], "tslot") || !strcmp(tok[0], "rem")) continue;
        if (!strcmp(tok[0], "cb") && nt >= 4) {
            cbtab_t *c = &cbs[ncbs++]; c->mod = atoi(tok[1]);
            c->kind = !strcmp(tok[2], "eval") ? K_EVAL : !strcmp(tok[2], "start") ? K_START : !strcmp(tok[2], "stop") ? K_STOP : K_EVT;
            c->handler = atoi(tok[3]); c->n = 0;
            for (int i = 4; i < nt && c->n < MAXCB; i++) { int p = 0, r = 1; sscanf(tok[i], "%d:%d", &p, &r); c->proc[c->n] = p; c->ret[c->n] = r; c->n++; }
            continue;
        }
        if (!strcmp(tok[0], "proc")) { curp = atoi(tok[1]); if (curp >= MAXPROC) curp = -1; else { procs[curp].n = 0; if (curp >= nprocs) nprocs = curp + 1; } continue; }
        if (!strcmp(tok[0], "endproc")) { curp = -1; continue; }
        if (curp >= 0 && procs[curp].n >= MAXCALL) { too_long = true; continue; }      /* never truncate silently */
        if (curp >= 0 && procs[curp].n < MAXCALL) {
            call_t *c = &procs[curp].calls[procs[curp].n++]; c->nt = nt < MAXTOK ? nt : MAXTOK;
            for (int i = 0; i < c->nt; i++) snprintf(c->tok[i], sizeof(c->tok[i]), "%s", tok[i]);
        }
    }
    for (int k = 1; k < 10; k++) unlink(path_str(k));
    rmdir(pathdir);
    return 0;
}
