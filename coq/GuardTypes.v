(* GuardTypes.v -- vocabulary of the guard tables that tools/guards_scan.py extracts from the C source (Guards.v). *)
From Coq Require Import List ZArith String.
From LM Require Import CoreTypes.
Import ListNotations.

Inductive denyflag := DPub | DSub | DCtx.

Inductive guard :=
| GP (cond : string)        (* M_PARAM_ASSERT(cond): a parameter check, -EINVAL; the condition as written in the source *)
| GMA                       (* M_MOD_ASSERT: NULL / zombie / not this thread's context *)
| GST (l : list mstate)     (* M_MOD_ASSERT_STATE: M_MOD_ASSERT, then the state must be one of l *)
| GPERM (f : denyflag)      (* M_MOD_ASSERT_PERM: M_MOD_ASSERT, then the deny flag must be clear *)
| GTOK                      (* M_MOD_CONSUME_TOKEN *)
| GCA                       (* M_CTX_ASSERT: this thread has a context *)
| GPRIO                     (* M_SRC_ASSERT_PRIO_FLAGS *)
| GRET (code : Z)           (* M_RET_ASSERT(cond, code) *)
| GREG | GDEREG | GMODDEREG (* delegation to register_mod_src / deregister_mod_src / mod_deregister *).

Fixpoint lookup (n : string) (t : list (string * list guard)) : option (list guard) :=
  match t with
  | [] => None
  | (k, v) :: r => if String.eqb k n then Some v else lookup n r
  end.
