(* CoreTypes.v -- state, scripts and observables of the actor-core model
   (Lib/core: ctx.c mod.c ps.c src.c evts.c poll/epoll.c poll/cmn_linux.c). *)
From LM Require Import Base.

Definition modid := nat.          (* index into w_mods; never reused *)
Definition oid := nat.            (* object id in the ref-counted heap *)

Inductive mstate := MIdle | MRunning | MPaused | MStopped | MZombie.
Inductive cstate := CIdle | CLooping | CZombie.
Inductive prio := PLow | PNorm | PHigh.
Inductive skind := KPs | KFd | KTmr | KSgn | KPath | KPid | KTask | KThresh | KSub.
(* KPs = the module's pubsub pipe source, KSub = a topic subscription *)

Definition mstate_eqb (a b : mstate) : bool :=
  match a, b with
  | MIdle, MIdle | MRunning, MRunning | MPaused, MPaused | MStopped, MStopped | MZombie, MZombie => true
  | _, _ => false
  end.
Definition skind_eqb (a b : skind) : bool :=
  match a, b with
  | KPs, KPs | KFd, KFd | KTmr, KTmr | KSgn, KSgn | KPath, KPath | KPid, KPid
  | KTask, KTask | KThresh, KThresh | KSub, KSub => true
  | _, _ => false
  end.
Definition skind_num (k : skind) : nat :=
  match k with KPs => 0 | KFd => 1 | KTmr => 2 | KSgn => 3 | KPath => 4 | KPid => 5 | KTask => 6 | KThresh => 7 | KSub => 8 end.

Inductive internal_of := INone | IBatch | ITb | ITick.

Record sflags := mkSF {
  f_prio : prio; f_autofree : bool; f_oneshot : bool; f_dup : bool; f_autoclose : bool;
  f_internal : internal_of
}.

(* ---------- ref-counted objects (everything allocated with m_mem_new) ---------- *)
Inductive okind := OCtx | OMod | OSrc | OMsg | OEvt | OData | OPay.
Definition okind_eqb (a b : okind) : bool :=
  match a, b with
  | OCtx, OCtx | OMod, OMod | OSrc, OSrc | OMsg, OMsg | OEvt, OEvt | OData, OData | OPay, OPay => true
  | _, _ => false
  end.

Record obj := mkObj {
  o_kind : okind;
  o_refs : nat;                (* 0 = freed *)
  o_links : list oid;          (* objects its destructor unrefs *)
  o_tag : N                    (* kind specific: module index, source index, payload data id ... *)
}.

(* ---------- sources ---------- *)
Record srcrec := mkSrc {
  s_obj : oid;
  s_kind : skind;
  s_key : N;                   (* fd id / ns / signo / path id / pid / tid / thresh id / topic id *)
  s_fl : sflags;
  s_up : N;                    (* userptr id *)
  s_mod : option modid;        (* None: context source (tick) *)
  s_armed : bool;              (* ev != NULL: registered in the poll set *)
  s_pending : nat;             (* expirations / notifications not yet consumed *)
  s_shot : bool                (* EPOLLONESHOT already reported (disarmed until re-armed) *)
}.

(* ---------- messages and events ---------- *)
Record msgrec := mkMsg {
  g_obj : oid;
  g_id : nat;                  (* ghost: unique per copy *)
  g_send : nat;                (* ghost: id of the send operation *)
  g_system : bool;
  g_sender : option modid;
  g_topic : option N;          (* None for tell / broadcast *)
  g_data : N;                  (* payload id, 0 = NULL *)
  g_sub : option nat;          (* matching subscription (index into w_srcs) *)
  g_pill : bool
}.

Inductive epayload :=
| EPs (m : msgrec)
| EFd (fd : N) | ETmr (ns : N) | ESgn (signo : N) | EPath (p : N) | EPid (p : N)
| ETask (tid : N) | EThresh (id : N).

Record evtrec := mkEvt {
  e_obj : oid;
  e_id : nat;                  (* ghost: unique *)
  e_kind : skind;              (* evt.type *)
  e_src : option nat;          (* source that caused it (index into w_srcs), None for tell/broadcast messages *)
  e_pay : epayload;
  e_up : N                     (* evt.userdata *)
}.

(* ---------- modules ---------- *)
Record hooks := mkHooks { h_eval : bool; h_start : bool; h_stop : bool }.   (* which optional hooks exist *)

Record modrec := mkMod {
  m_obj : oid;
  m_name : N;
  m_state : mstate;
  m_replace : bool; m_persist : bool; m_denyctx : bool; m_denypub : bool; m_denysub : bool;
  m_hooks : hooks;
  m_recvs : list nat;          (* become stack, top first; handler ids > 0 *)
  m_srcs : list nat;           (* registered sources of all kinds but subscriptions (indices into w_srcs) *)
  m_subs : option (list nat);  (* subscriptions map: None = not allocated *)
  m_pipe : option (list msgrec);    (* Some = pipe open (RUNNING or PAUSED) *)
  m_batch_len : N;             (* batch.len; cSIZE_MAX stands for SIZE_MAX *)
  m_batch_tmr : N;             (* batch.timer.ns *)
  m_batch : list evtrec;       (* batch.events *)
  m_stash : list evtrec;
  m_tb_rate : N; m_tb_burst : option N; m_tb_tokens : option N;   (* None = UINT64_MAX (no limit) *)
  m_tb_tmr : N;
  m_sent : nat; m_recvd : nat;
  m_eval_n : nat; m_start_n : nat; m_stop_n : nat; m_evt_n : nat   (* invocation counters of the scripted callbacks *)
}.

(* ---------- context ---------- *)
Record ctxrec := mkCtx {
  c_obj : oid;
  c_state : cstate;
  c_quit : bool; c_quit_code : N;
  c_finalized : bool;
  c_persist : bool;
  c_modules : list (nat * modid);     (* the modules table: (slot, module), ascending slot *)
  c_curr : option modid;
  c_running : nat;
  c_recv : nat;                       (* stats.recv_msgs *)
  c_tick_ns : N; c_tick : option nat; (* tick source *)
  c_maxev : nat
}.

(* ---------- observable trace ---------- *)
Inductive cbkind := CbEval | CbStart | CbStop | CbEvt.

Record evdesc := mkED {               (* what a handler sees of one event *)
  d_kind : nat; d_key : N; d_topic : N; d_data : N; d_sender : Z; d_sys : bool; d_up : N;
  d_evid : nat                        (* ghost *)
}.

Inductive tev :=
| TRet (z : Z)                              (* return code of a scripted call *)
| TCb (m : modid) (k : cbkind) (n : nat) (h : nat) (st : mstate) (evs : list evdesc)   (* st: the module's state when the callback starts *)
| TCbEnd
| TFreeData (d : N)                         (* payload / userdata released through the allocator *)
| TClose (fd : N)                           (* user descriptor closed by the library *)
| TState (m : modid) (s : mstate)           (* state query *)
| TVal (z : Z)                              (* value of a query (lengths, counts) *)
| TLive (nmod nsrc nmsg nevt ndata nctx nfd : nat)
| TFault (what : nat)                       (* the model left its domain (dead object used, fuel, known-finding region) *)
| TMark (n : nat) (arg : N).                 (* a scripted call starts: its tag and, for sends, the payload id *)

(* ---------- scripts ---------- *)
Inductive call :=
(* context *)
| CCtxReg (persist : bool) | CCtxDereg | CCtxFinalize | CCtxLoop | CCtxDispatch | CCtxQuit (code : N)
| CCtxLen | CCtxStats | CCtxSetTick (ns : N)
(* module lifecycle *)
| CReg (m : modid)                       (* module attributes come from the script's module table *)
| CDereg (m : modid) | CStart (m : modid) | CPause (m : modid) | CResume (m : modid) | CStop (m : modid)
| CState (m : modid) | CRef (m : modid) | CUnref (m : modid)
(* handlers / stash *)
| CBecome (m : modid) (h : nat) | CUnbecome (m : modid)
| CStash (m : modid) (k : nat) | CUnstash (m : modid) (n : nat)
| CEvtRef (k : nat) | CEvtUnref (j : nat)
(* batching / token bucket *)
| CBatchSize (m : modid) (n : N) | CBatchTimeout (m : modid) (ns : N) | CTokenBucket (m : modid) (rate burst : N)
(* pub/sub *)
| CSub (m : modid) (topic : N) (p : nat) (oneshot : bool) (up : N)   (* p: 0 none 1 low 2 norm 3 high 4 invalid (two bits) *)
| CUnsub (m : modid) (topic : N)
| CTellMany (m r : modid) (data : N) (n : nat)     (* n direct tells of the same payload in a row: bursts beyond the pipe capacity *)
| CTell (m r : modid) (data : N) (af : bool) | CPublish (m : modid) (topic : N) (data : N) (af : bool)
| CBroadcast (m : modid) (data : N) (af : bool) | CPill (m r : modid)
(* sources *)
| CSrcReg (m : modid) (k : skind) (key : N) (p : nat) (oneshot autoclose : bool) (up : N)
| CSrcDereg (m : modid) (k : skind) (key : N)
| CSrcLen (m : modid) (k : nat)          (* 0..7 kinds (0 = subscriptions), 8 = all *)
(* environment *)
| CFdWrite (fd : N) | CFire (m : modid) (k : skind) (key : N) | CFireTick
| CSetErrno (e : Z)
| CLive
(* the call is made by ANOTHER thread, which holds its own context (own = true) or none *)
| CForeign (own : bool) (c : call).

Record modspec := mkMS {
  ms_name : N; ms_slot : nat;
  ms_replace : bool; ms_persist : bool; ms_denyctx : bool; ms_denypub : bool; ms_denysub : bool;
  ms_hooks : hooks
}.

(* one scripted behaviour of a callback: which procedure to run, what to return *)
Record cbspec := mkCB { cb_proc : nat; cb_ret : bool }.

Record script := mkScript {
  sc_mods : list modspec;
  sc_procs : list (list call);
  sc_cbs : list (modid * cbkind * nat * list cbspec);   (* (module, kind, handler id) -> per-invocation behaviour *)
  sc_tslot : list (N * nat);                            (* topic -> slot in a subscriptions map *)
  sc_rematch : list (N * N * bool);                     (* (pattern, topic) -> regexec matches *)
  sc_pipecap : nat                                      (* messages a module pipe holds; 0 = the system default (cPIPE_CAP_MSGS) *)
}.
