(* CoreLocal4.v -- one-step theorems for the loop (C03) and the system notifications (C19). *)
From LM Require Import Base CoreTypes CoreModel CoreExec CoreLocal.

Section Local4.
  Variable sc : script.
  Variable run_cb : world -> modid -> cbkind -> nat -> list evtrec -> world * bool.

  (* ================= C03 ================= *)

  (* whatever errno a callback left behind, receiving events behaves the same *)
  Theorem recv_events_ignores_errno w e : recv_events sc run_cb (set_errno w e) = recv_events sc run_cb w.
  Proof. reflexivity. Qed.

  (* a callback setting errno changes nothing but errno *)
  Theorem set_errno_only cur w e : exists t a, exec sc run_cb cur w (CSetErrno e) = ret (set_errno (emit w (TMark t a)) e) 0.
  Proof. unfold exec, exec_own, exec_call. cbn [call_handle exec_env]. eauto. Qed.

  (* dispatch: the first call starts the loop, later calls deliver, the call after quit (or with nothing running) stops it *)
  Theorem dispatch_cases cur w c : the_ctx w = Some c ->
    exists t a, let w' := emit w (TMark t a) in
    exec sc run_cb cur w CCtxDispatch =
    match c_state c with
    | CZombie => ret w' rEINVAL
    | CIdle => retp (loop_start sc run_cb w')
    | CLooping => if c_quit c || Nat.eqb (c_running c) 0 then retp (loop_stop sc run_cb w' (do_ctx_dereg sc run_cb))
                  else retp (recv_events sc run_cb w')
    end.
  Proof. intros H. unfold exec, exec_own, exec_call. cbn [call_handle].
         match goal with |- context [the_ctx (emit w ?t)] => change (the_ctx (emit w t)) with (the_ctx w) end.
         rewrite H. eexists. eexists. cbn zeta. reflexivity. Qed.

  (* quit: only a looping context can be asked to quit; the code is recorded *)
  Theorem quit_sets_code cur w c code : the_ctx w = Some c -> c_state c = CLooping ->
    exists t a, exec sc run_cb cur w (CCtxQuit code) = ret (upd_ctx (emit w (TMark t a)) (ctx_with_quit true code)) 0.
  Proof. intros H Hs. unfold exec, exec_own, exec_call. cbn [call_handle].
         match goal with |- context [the_ctx (emit w ?t)] => change (the_ctx (emit w t)) with (the_ctx w) end.
         rewrite H, Hs. eauto. Qed.

  (* the loop returns exactly the requested code: loop_stop returns the recorded quit code (0 when nobody asked) *)
  Theorem loop_stop_returns_quit_code w dereg :
    exists w5, snd (loop_stop sc run_cb w dereg) = match w_tls w5 with Some c => Z.of_N (c_quit_code c) | None => 0%Z end.
  Proof.
    unfold loop_stop.
    match goal with |- context [match w_tls ?x with Some c => if _ then _ else _ | None => _ end] => exists x; destruct (w_tls x) as [c|] end;
      [destruct (Nat.eqb (length (c_modules c)) 0 && negb (c_persist c))|]; reflexivity.
  Qed.

  (* only armed sources with pending input of live objects are ever reported, at most max_events of them *)
  Theorem ready_set_sound w i : In i (ready_set w) -> exists s, get_src w i = Some s /\ src_ready w s = true.
  Proof.
    assert (Hfn : forall {A} n (l : list A) x, In x (firstn n l) -> In x l).
    { intros A n l; revert n; induction l as [|y l IH]; intros [|n] x Hx; cbn in *; try contradiction. destruct Hx; [auto|right; eauto]. }
    unfold ready_set. intros H. apply Hfn in H.
    assert (Hsub : forall (l acc : list nat), (forall x, In x acc -> exists s, get_src w x = Some s /\ src_ready w s = true) ->
                   (forall x, In x l -> exists s, get_src w x = Some s /\ src_ready w s = true) ->
                   forall x, In x (fold_left (fun acc i => ins_ready w i acc) l acc) -> exists s, get_src w x = Some s /\ src_ready w s = true).
    { induction l as [|y l IH]; intros acc Ha Hl x Hx; cbn in Hx; [auto|].
      apply (IH (ins_ready w y acc)); auto.
      - intros z Hz. assert (Hin : In z (y :: acc)).
        { clear -Hz. induction acc as [|a acc IHa]; cbn in Hz; [destruct Hz; [left; auto|contradiction]|].
          destruct (key_lt (ready_key w y) (ready_key w a)); cbn in Hz; [destruct Hz as [|[|]]; cbn; auto|].
          destruct Hz as [|Hz]; [cbn; auto|]. destruct (IHa Hz); cbn; auto. }
        destruct Hin as [<-|Hin]; [apply Hl; cbn; auto|auto].
      - intros z Hz. apply Hl. cbn; auto. }
    revert i H. apply (Hsub _ []); [intros ? []|].
    intros x Hx. apply filter_In in Hx. destruct Hx as (_ & Hx). destruct (get_src w x) as [s|]; [eauto|discriminate].
  Qed.

  Theorem ready_set_bounded w c : w_tls w = Some c -> length (ready_set w) <= c_maxev c.
  Proof. intros H. unfold ready_set. rewrite H. rewrite firstn_length. lia. Qed.

  (* ================= C19 ================= *)

  (* a system notification: system-flagged, payload-less, with the given sender; it counts as sent by the sender *)
  Theorem tell_system_shape w recipient sender topic pill :
    tell_system sc w recipient sender topic pill =
    deliver sc (match sender with
                | Some s => match get_mod w s with
                            | Some sr => upd_mod w s (mod_with_counts (S (m_sent sr)) (m_recvd sr))
                            | None => w end
                | None => w end) recipient true sender (Some topic) 0 pill None.
  Proof. reflexivity. Qed.

  (* pausing notifies "stopped" exactly once, naming the module, after the state change *)
  Theorem pause_notifies_once w m mr :
    get_mod w m = Some mr ->
    stop_mod sc run_cb w m false =
    (tell_system sc (upd_mod (if mstate_eqb (m_state mr) MRunning
                              then upd_ctx (fold_left (poll_rm) (m_srcs mr) w) (fun c => ctx_with_running (c_running c - 1) c)
                              else fold_left (poll_rm) (m_srcs mr) w) m (mod_with_state MPaused))
                 None (Some m) tMOD_STOPPED false, 0%Z).
  Proof. intros H. unfold stop_mod, stop_mod_as. rewrite H. cbn [mstate_eqb andb negb]. reflexivity. Qed.

  (* resuming notifies "started" exactly once, after the state change *)
  Theorem resume_notifies_once w m mr :
    get_mod w m = Some mr ->
    exists w4, start_mod sc run_cb w m false = (tell_system sc w4 None (Some m) tMOD_STARTED false, 0%Z) /\
               (exists mr4, get_mod w4 m = Some mr4 -> True).
  Proof. intros H. unfold start_mod. rewrite H. cbv beta iota zeta. change (negb (0 =? 0)%Z) with false. cbv iota.
         change (0 =? 0)%Z with true. cbv iota. eexists. split; [reflexivity|]. exists mr. auto. Qed.
End Local4.
