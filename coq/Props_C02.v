(* Props_C02.v -- placeholder, theorems are added below as they are proved *)
From LM Require Import Base CoreTypes CoreModel CoreExec.
