(* MapProofs.v -- C05: the open-addressing table of MapM.v is a dictionary, for EVERY hash function.
   Invariant: keys are distinct; every stored key sits within the probe window of its home slot and every slot
   between its home and its position is occupied.  put (with rehash) and remove (with back-shift) preserve it;
   under it find/get/contains/len are those of the finite map represented. *)
From LM Require Import Base SeqLemmas MapM.
From Coq Require Import Lia Arith.

(* ---------- lists ---------- *)
Lemma nth_set_nth {A} (l : list A) i j x d : i < length l -> nth j (set_nth i x l) d = if Nat.eqb j i then x else nth j l d.
Proof.
  revert i j; induction l as [|a l IH]; intros i j Hi; [cbn in Hi; lia|].
  destruct i as [|i]; destruct j as [|j]; cbn; try reflexivity.
  cbn in Hi. rewrite IH by lia. reflexivity.
Qed.
Lemma nth_set_nth_eq {A} (l : list A) i x d : i < length l -> nth i (set_nth i x l) d = x.
Proof. intros H. rewrite nth_set_nth by exact H. rewrite Nat.eqb_refl. reflexivity. Qed.
Lemma nth_set_nth_ne {A} (l : list A) i j x d : i < length l -> j <> i -> nth j (set_nth i x l) d = nth j l d.
Proof. intros H Hne. rewrite nth_set_nth by exact H. destruct (Nat.eqb_spec j i); [contradiction|reflexivity]. Qed.
Lemma nth_repeat_none {A} (n i : nat) : nth i (repeat (@None A) n) None = None.
Proof. revert i; induction n as [|n IH]; intros [|i]; cbn; auto. Qed.

(* ---------- cyclic positions without mod ---------- *)
Definition pos (n h t : nat) : nat := if Nat.ltb (h + t) n then h + t else h + t - n.

Lemma pos_lt n h t : h < n -> t <= n -> pos n h t < n.
Proof. unfold pos; intros; destruct (Nat.ltb_spec (h + t) n); lia. Qed.
Lemma pos_0 n h : h < n -> pos n h 0 = h.
Proof. unfold pos; intros; destruct (Nat.ltb_spec (h + 0) n); lia. Qed.
Lemma pos_pos n h a b : h < n -> a + b <= n -> pos n (pos n h a) b = pos n h (a + b).
Proof. unfold pos; intros; repeat match goal with |- context [Nat.ltb ?x ?y] => destruct (Nat.ltb_spec x y) end; lia. Qed.
Lemma pos_inj n h a b : h < n -> a < n -> b < n -> pos n h a = pos n h b -> a = b.
Proof. unfold pos; intros ? ? ?; repeat match goal with |- context [Nat.ltb ?x ?y] => destruct (Nat.ltb_spec x y) end; lia. Qed.
Lemma nxt_pos n h t : h < n -> S t <= n -> nxt n (pos n h t) = pos n h (S t).
Proof.
  unfold nxt, pos; intros.
  repeat match goal with |- context [Nat.ltb ?x ?y] => destruct (Nat.ltb_spec x y) end;
  match goal with |- context [Nat.eqb ?x ?y] => destruct (Nat.eqb_spec x y) end; lia.
Qed.
Lemma nxt_is_pos n i : i < n -> nxt n i = pos n i 1.
Proof. intros. rewrite <- (pos_0 n i) at 1 by lia. apply nxt_pos; lia. Qed.

Lemma cdist_alt n a b : a < n -> b < n -> cdist n a b = if Nat.leb a b then b - a else b + n - a.
Proof.
  intros Ha Hb. unfold cdist. destruct (Nat.leb_spec a b).
  - replace (b + n - a) with ((b - a) + 1 * n) by lia. rewrite Nat.mod_add by lia. apply Nat.mod_small; lia.
  - apply Nat.mod_small; lia.
Qed.
Lemma cdist_lt n a b : a < n -> b < n -> cdist n a b < n.
Proof. intros; rewrite cdist_alt by lia; destruct (Nat.leb_spec a b); lia. Qed.
Lemma pos_cdist n a b : a < n -> b < n -> pos n a (cdist n a b) = b.
Proof. intros; rewrite cdist_alt by lia; unfold pos; destruct (Nat.leb_spec a b); match goal with |- context [Nat.ltb ?x ?y] => destruct (Nat.ltb_spec x y) end; lia. Qed.
Lemma cdist_pos n h t : h < n -> t < n -> cdist n h (pos n h t) = t.
Proof.
  intros. assert (Hp := pos_lt n h t ltac:(lia) ltac:(lia)). rewrite cdist_alt by lia. unfold pos in *.
  destruct (Nat.ltb_spec (h + t) n); match goal with |- context [Nat.leb ?x ?y] => destruct (Nat.leb_spec x y) end; lia.
Qed.

Section WithHash.
  Variable hash : N -> N.
  Notation home := (home hash).

  Lemma home_lt n k : 0 < n -> home n k < n.
  Proof.
    intros Hn. unfold MapM.home. assert (N.of_nat n <> 0)%N by lia.
    pose proof (N.mod_upper_bound (hash k) (N.of_nat n) H). lia.
  Qed.
  Definition at_ (s : list slot) (p : nat) : slot := nth p s None.

  Definition Distinct (s : list slot) : Prop :=
    forall p q k v w, p < length s -> q < length s -> at_ s p = Some (k, v) -> at_ s q = Some (k, w) -> p = q.

  (* every stored key is within the probe window of its home, and the slots before it on its path are occupied
     (or are the one hole being repaired by the back-shift) *)
  Definition Reach (s : list slot) (hole : option nat) : Prop :=
    forall p k v, p < length s -> at_ s p = Some (k, v) ->
      exists t, t < length s / 2 /\ p = pos (length s) (home (length s) k) t /\
                forall t', t' < t -> at_ s (pos (length s) (home (length s) k) t') <> None \/ hole = Some (pos (length s) (home (length s) k) t').

  Definition TInv (s : list slot) : Prop := 4 <= length s /\ Distinct s /\ Reach s None.

  (* ---------- probing ---------- *)
  Lemma probe_sound s k fe : forall fuel i j, i < length s -> fuel <= length s -> probe s k fe i fuel = Some j ->
    exists d, d < fuel /\ j = pos (length s) i d /\
              (forall d', d' < d -> exists k' v', at_ s (pos (length s) i d') = Some (k', v') /\ k' <> k) /\
              ((exists v, at_ s j = Some (k, v)) \/ (fe = true /\ at_ s j = None)).
  Proof.
    induction fuel as [|f IH]; intros i j Hi Hf H; [discriminate|].
    cbn [probe] in H. fold (at_ s i) in H. destruct (at_ s i) as [[k' v']|] eqn:Hat.
    - destruct (N.eqb_spec k k') as [->|Hne].
      + inversion H; subst j. exists 0. rewrite pos_0 by lia. repeat split; [lia| |left; eauto]. intros d' Hd'; lia.
      + assert (Hn : nxt (length s) i < length s) by (rewrite nxt_is_pos by lia; apply pos_lt; lia).
        destruct (IH _ _ Hn ltac:(lia) H) as (d & Hd & Hj & Hbefore & Hfin).
        exists (S d). rewrite nxt_is_pos in Hj, Hbefore by lia. rewrite pos_pos in Hj by lia.
        repeat split; [lia|exact Hj| |exact Hfin].
        intros d' Hd'. destruct d' as [|d']; [rewrite pos_0 by lia; eauto|].
        destruct (Hbefore d' ltac:(lia)) as (k2 & v2 & H2 & Hk2). rewrite pos_pos in H2 by lia. eauto.
    - destruct fe; [|discriminate]. inversion H; subst j. exists 0. rewrite pos_0 by lia.
      repeat split; [lia| |right; auto]. intros d' Hd'; lia.
  Qed.

  (* a key stored at offset t of its path is found from any earlier offset t0 of that path, given enough fuel *)
  Lemma probe_finds s k v fe : forall d t0 t fuel h, h < length s -> t < length s -> t = t0 + d -> d < fuel ->
    at_ s (pos (length s) h t) = Some (k, v) ->
    (forall t', t0 <= t' < t -> exists k' v', at_ s (pos (length s) h t') = Some (k', v') /\ k' <> k) ->
    probe s k fe (pos (length s) h t0) fuel = Some (pos (length s) h t).
  Proof.
    induction d as [|d IH]; intros t0 t fuel h Hh Ht Heq Hfuel Hat Hbefore; destruct fuel as [|f]; try lia; cbn [probe].
    - replace t0 with t by lia. fold (at_ s (pos (length s) h t)). rewrite Hat, N.eqb_refl. reflexivity.
    - fold (at_ s (pos (length s) h t0)). destruct (Hbefore t0 ltac:(lia)) as (k' & v' & Hk' & Hne). rewrite Hk'.
      destruct (N.eqb_spec k k'); [congruence|]. rewrite nxt_pos by lia.
      apply (IH (S t0) t f h); try lia; auto. intros t' Ht'. apply Hbefore; lia.
  Qed.

  Lemma find_present s k v fe p : TInv s -> p < length s -> at_ s p = Some (k, v) -> find_slot hash s k fe = Some p.
  Proof.
    intros (Hn & Hd & Hr) Hp Hat. destruct (Hr p k v Hp Hat) as (t & Ht & Hpt & Hpath).
    unfold find_slot. set (n := length s) in *. set (h := home n k) in *.
    assert (Hh : h < n) by (apply home_lt; lia).
    assert (Hn2 : n / 2 <= n) by (apply Nat.div_le_upper_bound; lia).
    rewrite <- (pos_0 n h) by lia. rewrite Hpt.
    apply (probe_finds s k v fe t 0 t (n / 2) h); try lia.
    - rewrite Hpt in Hat. exact Hat.
    - intros t' Ht'. destruct (Hpath t' ltac:(lia)) as [Hocc|Hh']; [|discriminate].
      destruct (at_ s (pos n h t')) as [[k' v']|] eqn:Hk'; [|congruence].
      exists k', v'. split; [exact Hk'|]. intros ->.
      assert (pos n h t' = p) by (apply (Hd (pos n h t') p k v' v); auto; apply pos_lt; lia).
      subst p. apply pos_inj in H; lia.
  Qed.

  Lemma find_sound s k fe j : 4 <= length s -> find_slot hash s k fe = Some j ->
    j < length s /\ exists t, t < length s / 2 /\ j = pos (length s) (home (length s) k) t /\
      (forall t', t' < t -> exists k' v', at_ s (pos (length s) (home (length s) k) t') = Some (k', v') /\ k' <> k) /\
      ((exists v, at_ s j = Some (k, v)) \/ (fe = true /\ at_ s j = None)).
  Proof.
    intros Hn H. unfold find_slot in H. set (n := length s) in *. set (h := home n k) in *.
    assert (Hh : h < n) by (apply home_lt; lia).
    assert (Hn2 : n / 2 <= n) by (apply Nat.div_le_upper_bound; lia).
    destruct (probe_sound s k fe _ _ _ Hh Hn2 H) as (d & Hd & Hj & Hb & Hf).
    split; [subst j; apply pos_lt; lia|]. exists d. auto.
  Qed.

  Lemma find_absent s k : 4 <= length s -> (forall p v, p < length s -> at_ s p <> Some (k, v)) -> find_slot hash s k false = None.
  Proof.
    intros Hn Habs. destruct (find_slot hash s k false) as [j|] eqn:H; [|reflexivity].
    destruct (find_sound s k false j Hn H) as (Hj & t & _ & _ & _ & [[v Hv]|[Hf _]]); [|discriminate].
    exfalso. exact (Habs j v Hj Hv).
  Qed.
  (* ---------- content ---------- *)
  Definition Has (s : list slot) (k v : N) : Prop := exists p, p < length s /\ at_ s p = Some (k, v).
  Definition Same (s s' : list slot) : Prop := forall k v, Has s k v <-> Has s' k v.

  Lemma at_set_eq s i x : i < length s -> at_ (set_nth i x s) i = x.
  Proof. apply nth_set_nth_eq. Qed.
  Lemma at_set_ne s i j x : i < length s -> j <> i -> at_ (set_nth i x s) j = at_ s j.
  Proof. apply nth_set_nth_ne. Qed.

  Lemma at_repeat n p : at_ (repeat None n) p = None.
  Proof. unfold at_. exact (nth_repeat_none n p). Qed.
  Lemma TInv_empty n : 4 <= n -> TInv (repeat None n).
  Proof.
    intros Hn. unfold TInv. rewrite repeat_length. split; [exact Hn|]. split.
    - intros p q k v w _ _ H. rewrite at_repeat in H. discriminate.
    - intros p k v _ H. rewrite at_repeat in H. discriminate.
  Qed.

  (* storing a new key in the empty slot the probe found *)
  Lemma insert_inv s k v j : TInv s -> find_slot hash s k true = Some j -> at_ s j = None ->
    TInv (set_nth j (Some (k, v)) s) /\
    (forall k' v', Has (set_nth j (Some (k, v)) s) k' v' <-> ((k' = k /\ v' = v) \/ Has s k' v')) /\
    (forall w, ~ Has s k w).
  Proof.
    intros Hinv Hfind Hnone. pose proof Hinv as (Hn & Hd & Hr).
    destruct (find_sound s k true j Hn Hfind) as (Hj & t & Ht & Hjt & Hpath & _).
    assert (Habs : forall w, ~ Has s k w).
    { intros w (p & Hp & Hat). rewrite (find_present s k w true p Hinv Hp Hat) in Hfind. inversion Hfind; subst. congruence. }
    set (s' := (set_nth j (Some (k, v)) s : list slot)).
    assert (Hlen : length s' = length s) by apply length_set_nth.
    split; [|split; [|exact Habs]].
    - unfold TInv. rewrite Hlen. split; [exact Hn|]. split.
      + intros p q k1 v1 w1 Hp Hq H1 H2. rewrite ?Hlen in Hp, Hq. unfold s' in H1, H2.
        destruct (Nat.eq_dec p j) as [->|Hpj]; destruct (Nat.eq_dec q j) as [->|Hqj]; auto.
        * rewrite at_set_eq in H1 by lia. rewrite at_set_ne in H2 by lia. inversion H1; subst. exfalso. apply (Habs w1). exists q; auto.
        * rewrite at_set_eq in H2 by lia. rewrite at_set_ne in H1 by lia. inversion H2; subst. exfalso. apply (Habs v1). exists p; auto.
        * rewrite at_set_ne in H1, H2 by lia. eapply Hd; eauto.
      + intros p k1 v1 Hp H1. rewrite ?Hlen in Hp. rewrite ?Hlen. unfold s' in H1.
        destruct (Nat.eq_dec p j) as [->|Hpj].
        * rewrite at_set_eq in H1 by lia. inversion H1; subst k1 v1. exists t. repeat split; auto.
          intros t' Ht'. left. destruct (Hpath t' Ht') as (k2 & v2 & H2 & _).
          unfold s'. destruct (Nat.eq_dec (pos (length s) (home (length s) k) t') j) as [e|ne].
          -- rewrite e, at_set_eq by lia. discriminate.
          -- rewrite at_set_ne by lia. congruence.
        * rewrite at_set_ne in H1 by lia. destruct (Hr p k1 v1 Hp H1) as (t1 & Ht1 & Hpt1 & Hpath1).
          exists t1. repeat split; auto. intros t' Ht'. left.
          destruct (Hpath1 t' Ht') as [Hocc|Hh]; [|discriminate]. unfold s'.
          destruct (Nat.eq_dec (pos (length s) (home (length s) k1) t') j) as [e|ne].
          -- rewrite e, at_set_eq by lia. discriminate.
          -- rewrite at_set_ne by lia. exact Hocc.
    - intros k' v'. unfold Has. rewrite Hlen. split.
      + intros (p & Hp & Hat). unfold s' in Hat. destruct (Nat.eq_dec p j) as [->|Hpj].
        * rewrite at_set_eq in Hat by lia. inversion Hat; auto.
        * rewrite at_set_ne in Hat by lia. right. exists p; auto.
      + intros [[-> ->]|(p & Hp & Hat)].
        * exists j. split; [lia|]. unfold s'. apply at_set_eq; lia.
        * exists p. split; [lia|]. unfold s'. rewrite at_set_ne; auto. intros ->. congruence.
  Qed.

  (* replacing the value of a stored key *)
  Lemma update_inv s k old v j : TInv s -> j < length s -> at_ s j = Some (k, old) ->
    TInv (set_nth j (Some (k, v)) s) /\
    (forall k' v', Has (set_nth j (Some (k, v)) s) k' v' <-> ((k' = k /\ v' = v) \/ (k' <> k /\ Has s k' v'))).
  Proof.
    intros (Hn & Hd & Hr) Hj Hat. set (s' := (set_nth j (Some (k, v)) s : list slot)).
    assert (Hlen : length s' = length s) by apply length_set_nth.
    assert (Hocc : forall p, at_ s p <> None -> at_ s' p <> None).
    { intros p Hp. unfold s'. destruct (Nat.eq_dec p j) as [->|]; [rewrite at_set_eq by lia; discriminate|rewrite at_set_ne by lia; exact Hp]. }
    assert (Hkey : forall p k1 v1, p < length s -> at_ s' p = Some (k1, v1) -> exists w, at_ s p = Some (k1, w)).
    { intros p k1 v1 Hp H1. unfold s' in H1. destruct (Nat.eq_dec p j) as [->|].
      - rewrite at_set_eq in H1 by lia. inversion H1; subst. eauto.
      - rewrite at_set_ne in H1 by lia. eauto. }
    split.
    - unfold TInv. rewrite Hlen. split; [exact Hn|]. split.
      + intros p q k1 v1 w1 Hp Hq H1 H2. rewrite ?Hlen in Hp, Hq. destruct (Hkey _ _ _ Hp H1) as (a & Ha). destruct (Hkey _ _ _ Hq H2) as (b & Hb). eapply Hd; eauto.
      + intros p k1 v1 Hp H1. rewrite ?Hlen in Hp. rewrite ?Hlen. destruct (Hkey _ _ _ Hp H1) as (a & Ha).
        destruct (Hr p k1 a Hp Ha) as (t1 & Ht1 & Hpt1 & Hpath1). exists t1. repeat split; auto.
        intros t' Ht'. left. destruct (Hpath1 t' Ht') as [Ho|Hh]; [|discriminate]. apply Hocc; exact Ho.
    - intros k' v'. unfold Has. rewrite Hlen. split.
      + intros (p & Hp & Hat'). unfold s' in Hat'. destruct (Nat.eq_dec p j) as [->|Hpj].
        * rewrite at_set_eq in Hat' by lia. inversion Hat'; auto.
        * rewrite at_set_ne in Hat' by lia. right. split; [|exists p; auto].
          intros ->. apply Hpj. eapply Hd; eauto.
      + intros [[-> ->]|(Hne & p & Hp & Hat')].
        * exists j. split; [lia|]. unfold s'. apply at_set_eq; lia.
        * exists p. split; [lia|]. unfold s'. rewrite at_set_ne; auto. intros ->. congruence.
  Qed.
  (* ---------- counting ---------- *)
  Definition is_some (x : slot) : bool := match x with Some _ => true | None => false end.
  Definition occ_count (s : list slot) : nat := length (filter is_some s).

  Lemma occ_count_le s : occ_count s <= length s.
  Proof. unfold occ_count. induction s as [|a s IH]; cbn; [lia|]. destruct (is_some a); cbn; lia. Qed.
  Lemma exists_empty s : occ_count s < length s -> exists e, e < length s /\ at_ s e = None.
  Proof.
    unfold occ_count, at_. induction s as [|a s IH]; cbn; [lia|]. destruct a as [x|]; cbn.
    - intros H. destruct (IH ltac:(lia)) as (e & He & Hn). exists (S e). split; [lia|exact Hn].
    - intros _. exists 0. split; [lia|reflexivity].
  Qed.
  Lemma occ_count_set s i x : i < length s ->
    occ_count (set_nth i x s) + (if is_some (at_ s i) then 1 else 0) = occ_count s + (if is_some x then 1 else 0).
  Proof.
    unfold occ_count, at_. revert i; induction s as [|a s IH]; intros i Hi; [cbn in Hi; lia|].
    destruct i as [|i]; cbn [set_nth nth filter].
    - destruct (is_some a), (is_some x); cbn; lia.
    - cbn in Hi. specialize (IH i ltac:(lia)). destruct (is_some a); cbn [length]; lia.
  Qed.
  Lemma occ_repeat n : occ_count (repeat None n) = 0.
  Proof. unfold occ_count. induction n; cbn; auto. Qed.

  Lemma pos_inj_l n a b t : a < n -> b < n -> t <= n -> pos n a t = pos n b t -> a = b.
  Proof. unfold pos; intros ? ? ?; repeat match goal with |- context [Nat.ltb ?x ?y] => destruct (Nat.ltb_spec x y) end; lia. Qed.
  Lemma pos_ne_self n h t : h < n -> 0 < t -> t < n -> pos n h t <> h.
  Proof. unfold pos; intros; destruct (Nat.ltb_spec (h + t) n); lia. Qed.

  (* ---------- back-shift deletion ---------- *)
  Record BInv (s : list slot) (hole sidx fuel : nat) : Prop := {
    b_hole : at_ s hole = None;
    b_scanned : forall s' k v, 0 < s' < sidx -> at_ s (pos (length s) hole s') = Some (k, v) ->
                  cdist (length s) (home (length s) k) (pos (length s) hole s') < s';
    b_reach : Reach s (Some hole);
    b_distinct : Distinct s;
    b_empty_ahead : exists x, sidx <= x < sidx + fuel /\ x < length s /\ at_ s (pos (length s) hole x) = None
  }.

  (* moving the entry of slot i into the hole *)
  Definition moved (s : list slot) (hole i : nat) (e : N * N) : list slot := set_nth i None (set_nth hole (Some e) s).

  Lemma moved_length s hole i e : length (moved s hole i e) = length s.
  Proof. unfold moved. rewrite !length_set_nth. reflexivity. Qed.
  Lemma moved_at s hole i e p : hole < length s -> i < length s -> i <> hole ->
    at_ (moved s hole i e) p = if Nat.eqb p i then None else if Nat.eqb p hole then Some e else at_ s p.
  Proof.
    intros Hh Hi Hne. unfold moved, at_. rewrite nth_set_nth by (rewrite length_set_nth; lia).
    destruct (Nat.eqb_spec p i); [reflexivity|]. rewrite nth_set_nth by lia. reflexivity.
  Qed.

  Lemma moved_has s hole i k v : hole < length s -> i < length s -> i <> hole -> at_ s hole = None -> at_ s i = Some (k, v) ->
    forall k' v', Has (moved s hole i (k, v)) k' v' <-> Has s k' v'.
  Proof.
    intros Hh Hi Hne Hnone Hat k' v'. unfold Has. rewrite moved_length. split; intros (p & Hp & H).
    - rewrite moved_at in H by lia. destruct (Nat.eqb_spec p i); [discriminate|]. destruct (Nat.eqb_spec p hole).
      + inversion H; subst. exists i; auto.
      + exists p; auto.
    - destruct (Nat.eq_dec p i) as [->|Hpi].
      + exists hole. split; [lia|]. rewrite moved_at by lia. destruct (Nat.eqb_spec hole i); [lia|]. rewrite Nat.eqb_refl. congruence.
      + exists p. split; [lia|]. rewrite moved_at by lia. destruct (Nat.eqb_spec p i); [lia|].
        destruct (Nat.eqb_spec p hole); [subst; congruence|exact H].
  Qed.

  Lemma moved_count s hole i k v : hole < length s -> i < length s -> i <> hole -> at_ s hole = None -> at_ s i = Some (k, v) ->
    occ_count (moved s hole i (k, v)) = occ_count s.
  Proof.
    intros Hh Hi Hne Hnone Hat. unfold moved.
    pose proof (occ_count_set s hole (Some (k, v)) Hh) as H1. rewrite Hnone in H1. cbn in H1.
    pose proof (occ_count_set (set_nth hole (Some (k, v)) s) i None ltac:(rewrite length_set_nth; lia)) as H2.
    rewrite at_set_ne in H2 by lia. rewrite Hat in H2. cbn in H2. unfold slot in *. lia.
  Qed.
  (* the scan stops at an empty slot: nobody's path crosses the hole *)
  Lemma scan_done s hole sidx fuel : 4 <= length s -> hole < length s -> 0 < sidx -> BInv s hole sidx fuel ->
    at_ s (pos (length s) hole sidx) = None -> Reach s None.
  Proof.
    intros Hn Hh Hs [B1 B2 B3 B4 (x & Hx & Hxn & Hxe)] Hstop. set (n := length s) in *.
    assert (Hsn : sidx < n) by lia.
    intros p k v Hp Hat. destruct (B3 p k v Hp Hat) as (t & Ht & Hpt & Hpath). fold n in Ht, Hpt, Hpath.
    exists t. fold n. repeat split; auto. intros t'' Ht''. left.
    destruct (Hpath t'' Ht'') as [Hocc|Hhole]; [exact Hocc|exfalso].
    inversion Hhole as [Hh']. clear Hhole.
    set (h := home n k) in *. assert (Hhn : h < n) by (apply home_lt; lia).
    assert (Hn2 : n / 2 <= n) by (apply Nat.div_le_upper_bound; lia).
    (* p sits sj steps after the hole *)
    set (sj := t - t''). assert (Hpj : p = pos n hole sj).
    { rewrite Hh', pos_pos by lia. unfold sj. rewrite Hpt. f_equal. lia. }
    assert (Hct : cdist n h p = t) by (rewrite Hpt; apply cdist_pos; lia).
    destruct (Nat.lt_trichotomy sj sidx) as [Hlt|[Heq|Hgt]].
    - pose proof (B2 sj k v ltac:(unfold sj; lia)) as H2. fold n in H2. rewrite <- Hpj in H2. specialize (H2 Hat).
      fold h in H2. unfold sj in *. lia.
    - rewrite <- Heq, <- Hpj in Hstop. congruence.
    - (* the stop slot lies on p's path *)
      assert (Hi : pos n hole sidx = pos n h (t'' + sidx)) by (rewrite Hh', pos_pos by lia; reflexivity).
      destruct (Hpath (t'' + sidx) ltac:(unfold sj in *; lia)) as [Hocc|Hhole2].
      + rewrite <- Hi in Hocc. congruence.
      + inversion Hhole2 as [He]. rewrite <- Hi in He. symmetry in He. apply pos_ne_self in He; auto.
  Qed.

  Lemma backshift_correct : forall fuel s hole sidx, 4 <= length s -> hole < length s -> 0 < sidx -> BInv s hole sidx fuel ->
    let r := backshift hash s hole (pos (length s) hole sidx) fuel in
    length r = length s /\ Distinct r /\ Reach r None /\ (forall k v, Has r k v <-> Has s k v) /\ occ_count r = occ_count s.
  Proof.
    induction fuel as [|f IH]; intros s hole sidx Hn Hh Hs HB.
    { destruct HB as [_ _ _ _ (x & Hx & _)]. lia. }
    pose proof HB as [B1 B2 B3 B4 (x & Hx & Hxn & Hxe)].
    set (n := length s) in *. assert (Hsn : sidx < n) by lia.
    set (i := pos n hole sidx). assert (Hi : i < n) by (apply pos_lt; lia).
    assert (Hih : i <> hole) by (apply pos_ne_self; lia).
    cbn [backshift]. fold n. fold i. fold (at_ s i). destruct (at_ s i) as [[k v]|] eqn:Hat.
    2:{ cbn zeta. split; [reflexivity|]. split; [exact B4|]. split; [exact (scan_done s hole sidx (S f) Hn Hh Hs HB Hat)|]. split; [intros; tauto|reflexivity]. }
    assert (Hcd : cdist n hole i = sidx) by (apply cdist_pos; lia).
    rewrite Hcd. set (h := home n k) in *. assert (Hhn : h < n) by (apply home_lt; lia).
    assert (Hn2 : n / 2 <= n) by (apply Nat.div_le_upper_bound; lia).
    destruct (B3 i k v Hi Hat) as (t & Ht & Hit & Hpath). fold n in Ht, Hit, Hpath. fold h in Hit, Hpath.
    assert (Hct : cdist n h i = t) by (rewrite Hit; apply cdist_pos; lia). rewrite Hct.
    assert (Hx' : x <> sidx) by (intros ->; fold i in Hxe; congruence).
    destruct (Nat.leb_spec sidx t) as [Hle|Hgt].
    - (* the hole is on k's path: move it back *)
      fold (moved s hole i (k, v)). set (s2 := moved s hole i (k, v)).
      assert (Hlen2 : length s2 = n) by apply moved_length.
      assert (Hat2 : forall p, at_ s2 p = if Nat.eqb p i then None else if Nat.eqb p hole then Some (k, v) else at_ s p)
        by (intros p; apply moved_at; lia).
      assert (Hhole_off : hole = pos n h (t - sidx)).
      { apply (pos_inj_l n hole (pos n h (t - sidx)) sidx); try lia; [apply pos_lt; lia|].
        rewrite pos_pos by lia. fold i. rewrite Hit. f_equal. lia. }
      assert (HB2 : BInv s2 i 1 f).
      { constructor; rewrite ?Hlen2.
        - rewrite Hat2, Nat.eqb_refl. reflexivity.
        - intros s' k' v' Hs'. lia.
        - intros p k1 v1 Hp H1. rewrite Hlen2 in *. rewrite Hat2 in H1.
          destruct (Nat.eqb_spec p i); [discriminate|]. destruct (Nat.eqb_spec p hole) as [->|Hph].
          + inversion H1; subst k1 v1. fold h. exists (t - sidx). repeat split; [lia|exact Hhole_off|].
            intros t' Ht'. destruct (Hpath t' ltac:(lia)) as [Hocc|Hhl].
            * rewrite Hat2. destruct (Nat.eqb_spec (pos n h t') i) as [e|ne]; [right; congruence|].
              left. destruct (Nat.eqb_spec (pos n h t') hole); [discriminate|exact Hocc].
            * inversion Hhl as [He]. rewrite Hhole_off in He. apply pos_inj in He; lia.
          + destruct (B3 p k1 v1 Hp H1) as (t1 & Ht1 & Hpt1 & Hpath1). fold n in Ht1, Hpt1, Hpath1.
            exists t1. repeat split; auto. intros t' Ht'. rewrite Hat2.
            destruct (Nat.eqb_spec (pos n (home n k1) t') i) as [e|ne]; [right; congruence|]. left.
            destruct (Nat.eqb_spec (pos n (home n k1) t') hole); [discriminate|].
            destruct (Hpath1 t' Ht') as [Hocc|Hhl]; [exact Hocc|congruence].
        - intros p q k1 v1 w1 Hp Hq H1 H2. rewrite Hlen2 in *. rewrite Hat2 in H1, H2.
          destruct (Nat.eqb_spec p i) as [|Hpi]; [discriminate|]. destruct (Nat.eqb_spec q i) as [|Hqi]; [discriminate|].
          destruct (Nat.eqb_spec p hole) as [->|Hph]; destruct (Nat.eqb_spec q hole) as [->|Hqh]; auto.
          + inversion H1 as [[Hk Hv]]. rewrite <- Hk in H2. exfalso. apply Hqi. exact (B4 q i k w1 v Hq Hi H2 Hat).
          + inversion H2 as [[Hk Hv]]. rewrite <- Hk in H1. exfalso. apply Hpi. exact (B4 p i k v1 v Hp Hi H1 Hat).
          + exact (B4 p q k1 v1 w1 Hp Hq H1 H2).
        - exists (x - sidx). repeat split; try lia. fold i.
          assert (Hpx : pos n i (x - sidx) = pos n hole x) by (unfold i; rewrite pos_pos by lia; f_equal; lia).
          rewrite Hpx, Hat2. destruct (Nat.eqb_spec (pos n hole x) i); [reflexivity|].
          destruct (Nat.eqb_spec (pos n hole x) hole) as [e|ne]; [apply pos_ne_self in e; lia|exact Hxe]. }
      assert (Hnx : nxt n i = pos (length s2) i 1) by (rewrite Hlen2; apply nxt_is_pos; lia).
      rewrite Hnx. assert (Hn' : 4 <= length s2) by lia. assert (Hi' : i < length s2) by lia.
      destruct (IH s2 i 1 Hn' Hi' ltac:(lia) HB2) as (R1 & R2 & R3 & R4 & R5). cbn zeta in *.
      split; [rewrite R1; exact Hlen2|]. split; [exact R2|]. split; [exact R3|]. split.
      + intros k' v'. rewrite R4. apply (moved_has s hole i k v); try lia; auto.
      + rewrite R5. apply moved_count; try lia; auto.
    - (* k does not need the hole: keep scanning *)
      assert (HB2 : BInv s hole (S sidx) f).
      { constructor; auto.
        - intros s' k' v' Hs' H1. destruct (Nat.eq_dec s' sidx) as [->|Hne].
          + fold n i in H1 |- *. rewrite Hat in H1. inversion H1; subst k' v'. fold h. lia.
          + apply (B2 s' k' v'); [lia|exact H1].
        - exists x. repeat split; auto; lia. }
      assert (Hnx : nxt n i = pos (length s) hole (S sidx)) by (apply nxt_pos; lia).
      rewrite Hnx. exact (IH s hole (S sidx) Hn Hh ltac:(lia) HB2).
  Qed.
  (* ---------- removal of one slot ---------- *)
  Lemma cdist_zero n a b : a < n -> b < n -> cdist n a b = 0 -> a = b.
  Proof. intros Ha Hb H. pose proof (pos_cdist n a b Ha Hb) as E. rewrite H, pos_0 in E by lia. exact E. Qed.

  Lemma clear_slot_correct s i0 k v : TInv s -> i0 < length s -> at_ s i0 = Some (k, v) -> occ_count s < length s ->
    let r := clear_slot hash s i0 in
    TInv r /\ length r = length s /\ (forall k' v', Has r k' v' <-> (k' <> k /\ Has s k' v')) /\ occ_count r + 1 = occ_count s.
  Proof.
    intros (Hn & Hd & Hr) Hi Hat Hload. set (n := length s) in *.
    set (s1 := (set_nth i0 None s : list slot)).
    assert (Hlen1 : length s1 = n) by apply length_set_nth.
    assert (Hat1 : forall p, at_ s1 p = if Nat.eqb p i0 then None else at_ s p).
    { intros p. unfold s1, at_. apply nth_set_nth. exact Hi. }
    destruct (exists_empty s Hload) as (e & He & Hee). fold n in He.
    assert (Hei : e <> i0) by (intros ->; congruence).
    assert (HB : BInv s1 i0 1 (n - 1)).
    { constructor; rewrite ?Hlen1.
      - rewrite Hat1, Nat.eqb_refl. reflexivity.
      - intros s' k' v' Hs'. lia.
      - intros p k1 v1 Hp H1. rewrite Hlen1 in *. rewrite Hat1 in H1. destruct (Nat.eqb_spec p i0); [discriminate|].
        destruct (Hr p k1 v1 Hp H1) as (t & Ht & Hpt & Hpath). fold n in Ht, Hpt, Hpath. exists t. repeat split; auto.
        intros t' Ht'. rewrite Hat1. destruct (Nat.eqb_spec (pos n (home n k1) t') i0) as [E|NE]; [right; congruence|left].
        destruct (Hpath t' Ht') as [Ho|Hh]; [exact Ho|discriminate].
      - intros p q k1 v1 w1 Hp Hq H1 H2. rewrite Hlen1 in *. rewrite Hat1 in H1, H2.
        destruct (Nat.eqb_spec p i0); [discriminate|]. destruct (Nat.eqb_spec q i0); [discriminate|]. exact (Hd p q k1 v1 w1 Hp Hq H1 H2).
      - exists (cdist n i0 e). assert (cdist n i0 e < n) by (apply cdist_lt; lia).
        assert (cdist n i0 e <> 0) by (intros Hz; apply Hei; symmetry; apply (cdist_zero n i0 e); auto).
        repeat split; try lia. rewrite pos_cdist by lia. rewrite Hat1. destruct (Nat.eqb_spec e i0); [reflexivity|exact Hee]. }
    assert (Hn1 : 4 <= length s1) by lia. assert (Hi1 : i0 < length s1) by lia.
    pose proof (backshift_correct (n - 1) s1 i0 1 Hn1 Hi1 ltac:(lia) HB) as Hbs. cbn zeta in Hbs.
    unfold clear_slot. fold n. fold s1. rewrite (nxt_is_pos n i0 Hi). rewrite Hlen1 in Hbs.
    destruct Hbs as (R1 & R2 & R3 & R4 & R5). cbn zeta.
    split; [|split; [lia|split]].
    - unfold TInv. rewrite R1. split; [lia|]. split; [exact R2|exact R3].
    - intros k' v'. rewrite R4. unfold Has. rewrite Hlen1. split.
      + intros (p & Hp & H). rewrite Hat1 in H. destruct (Nat.eqb_spec p i0) as [|Hpi]; [discriminate|]. split; [|exists p; auto].
        intros ->. apply Hpi. exact (Hd p i0 k v' v Hp Hi H Hat).
      + intros (Hne & p & Hp & H). exists p. split; [exact Hp|]. rewrite Hat1. destruct (Nat.eqb_spec p i0) as [->|]; [congruence|exact H].
    - rewrite R5. pose proof (occ_count_set s i0 None Hi) as H. rewrite Hat in H. cbn in H. change (occ_count s1) with (occ_count (set_nth i0 None s)). unfold slot in *. lia.
  Qed.

  (* ---------- rehash ---------- *)
  Fixpoint keys (s : list slot) : list N :=
    match s with [] => [] | Some (k, _) :: r => k :: keys r | None :: r => keys r end.

  Lemma in_keys s k : In k (keys s) -> exists q w, q < length s /\ at_ s q = Some (k, w).
  Proof.
    induction s as [|a s IH]; cbn; [tauto|]. destruct a as [[k' v']|]; cbn.
    - intros [->|H]; [exists 0, v'; split; [lia|reflexivity]|]. destruct (IH H) as (q & w & Hq & Hw). exists (S q), w. split; [lia|exact Hw].
    - intros H. destruct (IH H) as (q & w & Hq & Hw). exists (S q), w. split; [lia|exact Hw].
  Qed.
  Lemma Distinct_tail a s : Distinct (a :: s) -> Distinct s.
  Proof. intros H p q k v w Hp Hq H1 H2. assert (S p = S q) by (apply (H (S p) (S q) k v w); cbn; auto; lia). lia. Qed.
  Lemma Distinct_nodup s : Distinct s -> NoDup (keys s).
  Proof.
    induction s as [|a s IH]; intros Hd; cbn; [constructor|]. pose proof (IH (Distinct_tail a s Hd)) as Hr.
    destruct a as [[k v]|]; [|exact Hr]. constructor; [|exact Hr]. intros Hin.
    destruct (in_keys s k Hin) as (q & w & Hq & Hw). assert (0 = S q) by (apply (Hd 0 (S q) k v w); cbn; auto; lia). lia.
  Qed.
  Lemma in_some_keys s k v : In (Some (k, v)) s -> In k (keys s).
  Proof. induction s as [|a s IH]; cbn; [tauto|]. intros [->|H]; [cbn; auto|]. destruct a as [[k' v']|]; cbn; auto. Qed.
  Lemma has_in s k v : Has s k v <-> In (Some (k, v)) s.
  Proof.
    unfold Has, at_. split.
    - intros (p & Hp & H). rewrite <- H. apply nth_In. exact Hp.
    - intros H. destruct (In_nth s (Some (k, v)) None H) as (p & Hp & Hn). exists p. auto.
  Qed.
  Lemma occ_count_cons a s : occ_count (a :: s) = (if is_some a then 1 else 0) + occ_count s.
  Proof. unfold occ_count. cbn. destruct (is_some a); reflexivity. Qed.

  Lemma rehash_into_correct : forall olds news r, TInv news -> NoDup (keys olds) ->
    (forall k v w, In (Some (k, v)) olds -> ~ Has news k w) -> rehash_into hash news olds = Some r ->
    TInv r /\ length r = length news /\ (forall k v, Has r k v <-> (Has news k v \/ In (Some (k, v)) olds)) /\
    occ_count r = occ_count news + occ_count olds.
  Proof.
    induction olds as [|a olds IH]; intros news r Hinv Hnd Hdis H; cbn [rehash_into] in H.
    - inversion H; subst r. split; [exact Hinv|]. split; [reflexivity|]. split.
      + intros k v. cbn [In]. tauto.
      + unfold occ_count at 3. cbn. lia.
    - destruct a as [[k v]|].
      + destruct (find_slot hash news k true) as [i|] eqn:Hf; [|discriminate].
        pose proof Hinv as (Hn & _ & _). destruct (find_sound news k true i Hn Hf) as (Hi & t & _ & _ & _ & Hfin).
        assert (Hnone : at_ news i = None).
        { destruct Hfin as [[w Hw]|[_ Hw]]; [|exact Hw]. exfalso. apply (Hdis k v w); [left; reflexivity|exists i; auto]. }
        destruct (insert_inv news k v i Hinv Hf Hnone) as (Hinv' & Hhas' & Habs).
        cbn [keys] in Hnd. inversion Hnd as [|? ? Hnotin Hnd']; subst.
        assert (Hdis' : forall k2 v2 w2, In (Some (k2, v2)) olds -> ~ Has (set_nth i (Some (k, v)) news) k2 w2).
        { intros k2 v2 w2 Hin HH. apply Hhas' in HH. destruct HH as [[-> _]|HH].
          - apply Hnotin. eapply in_some_keys; eauto.
          - apply (Hdis k2 v2 w2); [right; exact Hin|exact HH]. }
        destruct (IH _ _ Hinv' Hnd' Hdis' H) as (R1 & R2 & R3 & R4).
        rewrite length_set_nth in R2. split; [exact R1|]. split; [exact R2|]. split.
        * intros k' v'. rewrite R3, Hhas'. cbn [In]. split.
          -- intros [[[-> ->]|HH]|HH]; auto.
          -- intros [HH|[HH|HH]]; auto. inversion HH; auto.
        * rewrite R4. pose proof (occ_count_set news i (Some (k, v)) Hi) as Hc. rewrite Hnone in Hc. cbn in Hc.
          rewrite occ_count_cons. cbn. unfold slot in *. lia.
      + cbn [keys] in Hnd. destruct (IH news r Hinv Hnd ltac:(intros k v w Hin; apply (Hdis k v w); right; exact Hin) H) as (R1 & R2 & R3 & R4).
        split; [exact R1|]. split; [exact R2|]. split.
        * intros k' v'. rewrite R3. cbn [In]. split; [tauto|]. intros [?|[?|?]]; auto. discriminate.
        * rewrite R4, occ_count_cons. cbn. lia.
  Qed.

  Lemma rehash_correct s r : TInv s -> rehash hash s = Some r ->
    TInv r /\ length r = 2 * length s /\ Same s r /\ occ_count r = occ_count s.
  Proof.
    intros (Hn & Hd & Hr) H. unfold rehash in H.
    destruct (rehash_into_correct s (repeat None (2 * length s)) r) as (R1 & R2 & R3 & R4); auto.
    - apply TInv_empty. lia.
    - apply Distinct_nodup. exact Hd.
    - intros k v w _ (p & _ & Hp). rewrite at_repeat in Hp. discriminate.
    - rewrite repeat_length in R2. rewrite occ_repeat in R4. split; [exact R1|]. split; [exact R2|]. split; [|exact R4].
      intros k v. rewrite R3, has_in. split; [auto|]. intros [(p & _ & Hp)|?]; auto. rewrite at_repeat in Hp. discriminate.
  Qed.
  (* ---------- the map ---------- *)
  Definition MInv (m : map) : Prop :=
    TInv (m_slots m) /\ m_len m = occ_count (m_slots m) /\ m_len m < length (m_slots m).

  Lemma Same_refl s : Same s s. Proof. intros k v; tauto. Qed.
  Lemma Same_trans a b c : Same a b -> Same b c -> Same a c.
  Proof. intros H1 H2 k v. rewrite (H1 k v). apply H2. Qed.

  Definition neg_ret (e : list ev) : Prop := exists z, (z < 0)%Z /\ e = [ERet z].
  Lemma neg_enomem : neg_ret [ERet (- cENOMEM)]. Proof. exists (- cENOMEM)%Z. split; [unfold cENOMEM; lia|reflexivity]. Qed.
  Lemma neg_eperm : neg_ret [ERet (- cEPERM)]. Proof. exists (- cEPERM)%Z. split; [unfold cEPERM; lia|reflexivity]. Qed.

  (* a table holding the same entries, possibly grown, with room for one more entry *)
  Definition Grown (s : list slot) (len : nat) (s1 : list slot) : Prop :=
    TInv s1 /\ Same s s1 /\ occ_count s1 = occ_count s /\ len + 1 < length s1.

  Lemma Grown_rehash s len s1 s2 : Grown s len s1 -> rehash hash s1 = Some s2 -> Grown s len s2.
  Proof.
    intros (H1 & H2 & H3 & H4) Hr. destruct (rehash_correct s1 s2 H1 Hr) as (R1 & R2 & R3 & R4).
    split; [exact R1|]. split; [eapply Same_trans; eauto|]. split; [lia|lia].
  Qed.

  Definition put_result (m m' : map) (k v : N) (e : list ev) (st : bool) : Prop :=
    let s := m_slots m in let s' := m_slots m' in
    (st = true /\ (forall w, ~ Has s k w) /\ (forall k' v', Has s' k' v' <-> ((k' = k /\ v' = v) \/ Has s k' v')) /\
       m_len m' = S (m_len m) /\ e = [ERet 0])
    \/ (st = false /\ m_upd m = true /\ (exists old, Has s k old) /\
        (forall k' v', Has s' k' v' <-> ((k' = k /\ v' = v) \/ (k' <> k /\ Has s k' v'))) /\ m_len m' = m_len m /\ last e (ERet 1) = ERet 0)
    \/ (st = false /\ Same s s' /\ m_len m' = m_len m /\ neg_ret e).

  Lemma put_at m k v s1 i : MInv m -> Grown (m_slots m) (m_len m) s1 -> find_slot hash s1 k true = Some i ->
    forall m' e st,
    match nth i s1 None with
    | Some (k0, old) =>
        if m_upd m then
          (m_set m (set_nth i (Some (k0, v)) s1) (m_len m),
           (if m_dtor m && negb (N.eqb old v) then [EDtor old] else []) ++ [ERet 0], false)
        else (m_set m s1 (m_len m), [ERet (- cEPERM)], false)
    | None => (m_set m (set_nth i (Some (k, v)) s1) (S (m_len m)), [ERet 0], true)
    end = (m', e, st) -> MInv m' /\ put_result m m' k v e st.
  Proof.
    intros (Hinv & Hlen & Hload) (G1 & G2 & G3 & G4) Hf m' e st H.
    pose proof G1 as (Hn1 & _ & _). destruct (find_sound s1 k true i Hn1 Hf) as (Hi & t & _ & _ & _ & Hfin).
    fold (at_ s1 i) in H. destruct (at_ s1 i) as [[k0 old]|] eqn:Hat.
    - assert (k0 = k) by (destruct Hfin as [[w Hw]|[_ Hw]]; congruence). subst k0.
      destruct (m_upd m) eqn:Hupd; inversion H; subst m' e st; clear H.
      + destruct (update_inv s1 k old v i G1 Hi Hat) as (U1 & U2).
        split.
        * unfold MInv, m_set; cbn [m_slots m_len]. split; [exact U1|]. rewrite length_set_nth.
          pose proof (occ_count_set s1 i (Some (k, v)) Hi) as Hc. rewrite Hat in Hc. cbn in Hc. unfold slot in *. split; lia.
        * right; left. cbn. split; [reflexivity|]. split; [exact Hupd|]. split; [exists old; apply G2; exists i; auto|]. split; [|split; [reflexivity|]].
          -- intros k' v'. rewrite U2. split; (intros [?|[? HH]]; [left; assumption|right; split; [assumption|apply G2; exact HH]]).
          -- rewrite last_last. reflexivity.
      + split.
        * unfold MInv, m_set; cbn [m_slots m_len]. split; [exact G1|]. split; lia.
        * right; right. cbn. split; [reflexivity|]. split; [exact G2|]. split; [reflexivity|apply neg_eperm].
    - inversion H; subst m' e st; clear H.
      destruct (insert_inv s1 k v i G1 Hf Hat) as (I1 & I2 & I3). split.
      + unfold MInv, m_set; cbn [m_slots m_len]. split; [exact I1|]. rewrite length_set_nth.
        pose proof (occ_count_set s1 i (Some (k, v)) Hi) as Hc. rewrite Hat in Hc. cbn in Hc. unfold slot in *. split; lia.
      + left. cbn. split; [reflexivity|]. split; [intros w HH; apply (I3 w); apply G2; exact HH|]. split; [|split; reflexivity].
        intros k' v'. rewrite I2. split; (intros [?|HH]; [left; assumption|right; apply G2; exact HH]).
  Qed.

  Lemma put_keep m s1 k v : MInv m -> Grown (m_slots m) (m_len m) s1 ->
    MInv (m_set m s1 (m_len m)) /\ put_result m (m_set m s1 (m_len m)) k v [ERet (- cENOMEM)] false.
  Proof.
    intros (Hinv & Hlen & Hload) (G1 & G2 & G3 & G4). split.
    - unfold MInv, m_set; cbn [m_slots m_len]. split; [exact G1|]. split; lia.
    - right; right. cbn. split; [reflexivity|]. split; [exact G2|]. split; [reflexivity|apply neg_enomem].
  Qed.
  (* what put does once the growth check is over *)
  Definition put_tail (m : map) (k v : N) (s1 : list slot) : map * list ev * bool :=
    let r2 := match find_slot hash s1 k true with
              | Some i => Some (s1, i)
              | None => match rehash hash s1 with
                        | None => None
                        | Some s2 => match find_slot hash s2 k true with
                                     | Some i => Some (s2, i)
                                     | None => None
                                     end
                        end
              end in
    match r2 with
    | None =>
        let kept := match find_slot hash s1 k true with
                    | Some _ => s1
                    | None => match rehash hash s1 with Some s2 => s2 | None => s1 end
                    end in
        (m_set m kept (m_len m), [ERet (- cENOMEM)], false)
    | Some (s, i) =>
        match nth i s None with
        | Some (k0, old) =>
            if m_upd m then
              (m_set m (set_nth i (Some (k0, v)) s) (m_len m),
               (if m_dtor m && negb (N.eqb old v) then [EDtor old] else []) ++ [ERet 0], false)
            else (m_set m s (m_len m), [ERet (- cEPERM)], false)
        | None => (m_set m (set_nth i (Some (k, v)) s) (S (m_len m)), [ERet 0], true)
        end
    end.

  Lemma put_unfold m k v :
    put hash m k v =
    match (if Nat.leb (length (m_slots m)) (m_len m + m_len m / 3) then rehash hash (m_slots m) else Some (m_slots m)) with
    | None => (m, [ERet (- cENOMEM)], false)
    | Some s1 => put_tail m k v s1
    end.
  Proof. reflexivity. Qed.

  Lemma put_tail_correct m k v s1 m' e st : MInv m -> Grown (m_slots m) (m_len m) s1 ->
    put_tail m k v s1 = (m', e, st) -> MInv m' /\ put_result m m' k v e st.
  Proof.
    intros HM G H. unfold put_tail in H. destruct (find_slot hash s1 k true) as [i|] eqn:Hf1.
    - exact (put_at m k v s1 i HM G Hf1 m' e st H).
    - destruct (rehash hash s1) as [s2|] eqn:Hr2.
      + pose proof (Grown_rehash _ _ _ _ G Hr2) as G2. destruct (find_slot hash s2 k true) as [i|] eqn:Hf2.
        * exact (put_at m k v s2 i HM G2 Hf2 m' e st H).
        * inversion H; subst. exact (put_keep m s2 k v HM G2).
      + inversion H; subst. exact (put_keep m s1 k v HM G).
  Qed.

  Lemma no_grow_room n len : 4 <= n -> Nat.leb n (len + len / 3) = false -> len + 1 < n.
  Proof.
    intros Hn H. apply Nat.leb_gt in H. destruct (Nat.le_gt_cases len 2) as [Hs|Hb]; [lia|].
    assert (1 <= len / 3) by (apply Nat.div_le_lower_bound; lia). lia.
  Qed.

  Theorem put_correct m k v m' e st : MInv m -> put hash m k v = (m', e, st) -> MInv m' /\ put_result m m' k v e st.
  Proof.
    intros HM H. pose proof HM as (Hinv & Hlen & Hload). pose proof Hinv as (Hn & _ & _). rewrite put_unfold in H.
    destruct (Nat.leb (length (m_slots m)) (m_len m + m_len m / 3)) eqn:Hg.
    - destruct (rehash hash (m_slots m)) as [s1|] eqn:Hr.
      + destruct (rehash_correct _ _ Hinv Hr) as (R1 & R2 & R3 & R4).
        apply (put_tail_correct m k v s1 m' e st HM); [|exact H]. split; [exact R1|]. split; [exact R3|]. split; [exact R4|lia].
      + inversion H; subst. split; [exact HM|]. right; right. split; [reflexivity|]. split; [apply Same_refl|]. split; [reflexivity|apply neg_enomem].
    - apply (put_tail_correct m k v (m_slots m) m' e st HM); [|exact H].
      split; [exact Hinv|]. split; [apply Same_refl|]. split; [reflexivity|apply no_grow_room; assumption].
  Qed.
  (* ---------- every operation preserves the invariant ---------- *)
  Lemma at_some_lt s j x : at_ s j = Some x -> j < length s.
  Proof. intros H. destruct (Nat.lt_ge_cases j (length s)) as [|Hge]; [assumption|]. unfold at_ in H. rewrite nth_overflow in H by exact Hge. discriminate. Qed.

  Lemma remove_at_correct m j k v : MInv m -> at_ (m_slots m) j = Some (k, v) ->
    let m' := m_set m (clear_slot hash (m_slots m) j) (m_len m - 1) in
    MInv m' /\ (forall k' v', Has (m_slots m') k' v' <-> (k' <> k /\ Has (m_slots m) k' v')) /\ m_len m' + 1 = m_len m.
  Proof.
    intros (Hinv & Hlen & Hload) Hat. pose proof (at_some_lt _ _ _ Hat) as Hj.
    destruct (clear_slot_correct (m_slots m) j k v Hinv Hj Hat ltac:(lia)) as (R1 & R2 & R3 & R4). cbn zeta in *.
    unfold MInv, m_set; cbn [m_slots m_len]. split; [split; [exact R1|split; lia]|]. split; [exact R3|lia].
  Qed.

  Lemma clear_all_inv : forall fuel m i acc, MInv m -> MInv (fst (clear_all hash m i fuel acc)).
  Proof.
    induction fuel as [|f IH]; intros m i acc HM; cbn [clear_all]; [exact HM|].
    destruct (next_occ (m_slots m) i (S (length (m_slots m)))) as [j|]; [|exact HM].
    fold (at_ (m_slots m) j). destruct (at_ (m_slots m) j) as [[k v]|] eqn:Hat; [|exact HM].
    apply IH. exact (proj1 (remove_at_correct m j k v HM Hat)).
  Qed.

  Lemma iterate_inv : forall fuel m i n kth rc rm, MInv m -> MInv (fst (iterate_cb hash m i n kth rc rm fuel)).
  Proof.
    induction fuel as [|f IH]; intros m i n kth rc rm HM; cbn [iterate_cb]; [exact HM|].
    destruct (Nat.leb (length (m_slots m)) i); [exact HM|].
    fold (at_ (m_slots m) i). destruct (at_ (m_slots m) i) as [[k v]|] eqn:Hat; [|apply IH; exact HM].
    assert (HM1 : MInv (if rm then m_set m (clear_slot hash (m_slots m) i) (m_len m - 1) else m)).
    { destruct rm; [exact (proj1 (remove_at_correct m i k v HM Hat))|exact HM]. }
    destruct ((if Nat.eqb (S n) kth then rc else 0) <? 0)%Z; [exact HM1|].
    destruct (0 <? (if Nat.eqb (S n) kth then rc else 0))%Z; [exact HM1|].
    specialize (IH _ (if rm then i else S i) (S n) kth rc rm HM1).
    destruct (iterate_cb hash _ (if rm then i else S i) (S n) kth rc rm f) as [m2 e2]. exact IH.
  Qed.

  Lemma set_value_inv m j k old v : MInv m -> at_ (m_slots m) j = Some (k, old) ->
    MInv (m_set m (set_nth j (Some (k, v)) (m_slots m)) (m_len m)).
  Proof.
    intros (Hinv & Hlen & Hload) Hat. pose proof (at_some_lt _ _ _ Hat) as Hj.
    destruct (update_inv (m_slots m) k old v j Hinv Hj Hat) as (U1 & _).
    unfold MInv, m_set; cbn [m_slots m_len]. split; [exact U1|]. rewrite length_set_nth.
    pose proof (occ_count_set (m_slots m) j (Some (k, v)) Hj) as Hc. rewrite Hat in Hc. cbn in Hc. unfold slot in *. split; lia.
  Qed.

  Lemma MInv_flags m s l a b c d : MInv (m_set m s l) -> MInv (mkM s l a b c d).
  Proof. exact (fun H => H). Qed.

  Theorem m_step_inv st o : MInv (ms_m st) -> MInv (ms_m (fst (m_step hash st o))).
  Proof.
    intros HM. unfold m_step. destruct (m_freed (ms_m st)); [destruct o; exact HM|].
    destruct o.
    - (* put *) destruct (N.eqb v 0); [exact HM|]. destruct (put hash (ms_m st) k v) as [[m1 e] stored] eqn:Hp. cbn [fst ms_m].
      exact (proj1 (put_correct _ _ _ _ _ _ HM Hp)).
    - (* get *) destruct (Nat.eqb (m_len (ms_m st)) 0); exact HM.
    - (* contains *) destruct (Nat.eqb (m_len (ms_m st)) 0); exact HM.
    - (* remove *) destruct (Nat.eqb (m_len (ms_m st)) 0); [exact HM|].
      destruct (find_slot hash (m_slots (ms_m st)) k false) as [i|]; [|exact HM].
      fold (at_ (m_slots (ms_m st)) i). destruct (at_ (m_slots (ms_m st)) i) as [[k' v]|] eqn:Hat; [|exact HM].
      exact (proj1 (remove_at_correct _ i k' v HM Hat)).
    - (* len *) exact HM.
    - (* clear *) destruct (Nat.eqb (m_len (ms_m st)) 0); [exact HM|].
      pose proof (clear_all_inv (m_len (ms_m st) + length (m_slots (ms_m st))) (ms_m st) 0 [] HM) as H.
      destruct (clear_all hash (ms_m st) 0 _ []) as [m1 e]. exact H.
    - (* free *)
      assert (H : MInv (fst (if Nat.eqb (m_len (ms_m st)) 0 then (ms_m st, [])
                              else clear_all hash (ms_m st) 0 (m_len (ms_m st) + length (m_slots (ms_m st))) []))).
      { destruct (Nat.eqb (m_len (ms_m st)) 0); [exact HM|apply clear_all_inv; exact HM]. }
      destruct (if Nat.eqb (m_len (ms_m st)) 0 then _ else _) as [m1 e]. exact H.
    - (* iterate *) destruct (Nat.eqb (m_len (ms_m st)) 0); [exact HM|].
      pose proof (iterate_inv (m_len (ms_m st) + length (m_slots (ms_m st)) + 1) (ms_m st) 0 0 kth rc rm HM) as H.
      destruct (iterate_cb hash (ms_m st) 0 0 kth rc rm _) as [m1 e]. exact H.
    - (* itr new *) destruct (Nat.eqb (m_len (ms_m st)) 0); [exact HM|]. destruct (next_occ _ 0 _); exact HM.
    - (* itr next *) destruct (ms_itr st) as [it|]; [|exact HM]. destruct (next_occ _ _ _); exact HM.
    - (* itr key *) destruct (ms_itr st) as [it|]; [|exact HM]. destruct (mi_removed it); exact HM.
    - (* itr get *) destruct (ms_itr st) as [it|]; [|exact HM]. destruct (mi_removed it); exact HM.
    - (* itr set *) destruct (ms_itr st) as [it|]; [|exact HM]. destruct (mi_removed it || N.eqb v 0); [exact HM|].
      fold (at_ (m_slots (ms_m st)) (mi_curr it)). destruct (at_ (m_slots (ms_m st)) (mi_curr it)) as [[k old]|] eqn:Hat; [|exact HM].
      exact (set_value_inv _ _ k old v HM Hat).
    - (* itr rm *) destruct (ms_itr st) as [it|]; [|exact HM]. destruct (mi_removed it); [exact HM|].
      fold (at_ (m_slots (ms_m st)) (mi_curr it)). destruct (at_ (m_slots (ms_m st)) (mi_curr it)) as [[k v]|] eqn:Hat; [|exact HM].
      exact (proj1 (remove_at_correct _ _ k v HM Hat)).
  Qed.

  Theorem m_inv_reachable size upd dup dtor ops : 4 <= size ->
    MInv (ms_m (final (m_step hash) (m_init size upd dup dtor) ops)).
  Proof.
    intros Hs. apply (final_inv (m_step hash) (fun st => MInv (ms_m st))).
    - intros st o. apply m_step_inv.
    - unfold m_init, MInv; cbn [ms_m m_slots m_len]. rewrite repeat_length, occ_repeat. split; [apply TInv_empty; exact Hs|]. split; lia.
  Qed.
  (* ---------- the dictionary seen through the operations ---------- *)
  Lemma occ_zero_no_has s k v : occ_count s = 0 -> ~ Has s k v.
  Proof.
    intros H0 (p & Hp & Hat). pose proof (occ_count_set s p None Hp) as Hc. rewrite Hat in Hc. cbn in Hc. lia.
  Qed.
  Lemma has_fun s k v w : Distinct s -> Has s k v -> Has s k w -> v = w.
  Proof. intros Hd (p & Hp & H1) (q & Hq & H2). assert (p = q) by (eapply Hd; eauto). subst q. congruence. Qed.

  Lemma last_nonempty {A} (a : A) l d d' : last (a :: l) d = last (a :: l) d'.
  Proof. revert a; induction l as [|b l IH]; intros a; [reflexivity|]. cbn [last] in *. apply IH. Qed.

  Definition lookup_is (s : list slot) (k : N) (r : N) : Prop :=
    (forall v, Has s k v -> r = v) /\ ((forall v, ~ Has s k v) -> r = 0%N).

  Theorem get_correct st k : m_freed (ms_m st) = false -> MInv (ms_m st) ->
    fst (m_step hash st (MGet k)) = st /\ exists r, snd (m_step hash st (MGet k)) = [EPtr r] /\ lookup_is (m_slots (ms_m st)) k r.
  Proof.
    intros Hfr (Hinv & Hlen & Hload). pose proof Hinv as (Hn & Hd & _). unfold m_step. rewrite Hfr.
    destruct (Nat.eqb_spec (m_len (ms_m st)) 0) as [H0|H0]; cbn [fst snd].
    - split; [reflexivity|]. exists 0%N. split; [reflexivity|]. split; [|reflexivity].
      intros v HH. exfalso. apply (occ_zero_no_has (m_slots (ms_m st)) k v); [lia|exact HH].
    - split; [reflexivity|]. eexists. split; [reflexivity|]. split.
      + intros v (p & Hp & Hat). rewrite (find_present _ k v false p Hinv Hp Hat). fold (at_ (m_slots (ms_m st)) p). rewrite Hat. reflexivity.
      + intros Habs. rewrite find_absent; auto. intros p v Hp Hat. apply (Habs v). exists p; auto.
  Qed.

  Theorem contains_correct st k : m_freed (ms_m st) = false -> MInv (ms_m st) ->
    fst (m_step hash st (MContains k)) = st /\
    ((exists v, Has (m_slots (ms_m st)) k v) /\ snd (m_step hash st (MContains k)) = [ERet 1] \/
     (forall v, ~ Has (m_slots (ms_m st)) k v) /\ snd (m_step hash st (MContains k)) = [ERet 0]).
  Proof.
    intros Hfr (Hinv & Hlen & Hload). pose proof Hinv as (Hn & Hd & _). unfold m_step. rewrite Hfr.
    destruct (Nat.eqb_spec (m_len (ms_m st)) 0) as [H0|H0]; cbn [fst snd]; (split; [reflexivity|]).
    - right. split; [|reflexivity]. intros v. apply occ_zero_no_has. lia.
    - destruct (find_slot hash (m_slots (ms_m st)) k false) as [i|] eqn:Hf.
      + left. split; [|reflexivity]. destruct (find_sound _ k false i Hn Hf) as (Hi & _ & _ & _ & _ & [[v Hv]|[Hx _]]); [|discriminate].
        exists v, i. auto.
      + right. split; [|reflexivity]. intros v (p & Hp & Hat). rewrite (find_present _ k v false p Hinv Hp Hat) in Hf. discriminate.
  Qed.

  Theorem put_step_correct st k v : m_freed (ms_m st) = false -> MInv (ms_m st) -> v <> 0%N ->
    let m := ms_m st in let m' := ms_m (fst (m_step hash st (MPut k v))) in
    MInv m' /\
    ( (* new key stored *)
      ((forall w, ~ Has (m_slots m) k w) /\ (forall k' v', Has (m_slots m') k' v' <-> ((k' = k /\ v' = v) \/ Has (m_slots m) k' v')) /\
        m_len m' = S (m_len m) /\ last (snd (m_step hash st (MPut k v))) (ERet 1) = ERet 0)
      \/ (* value of a present key replaced (only with the update flag) *)
      (m_upd m = true /\ (exists old, Has (m_slots m) k old) /\
        (forall k' v', Has (m_slots m') k' v' <-> ((k' = k /\ v' = v) \/ (k' <> k /\ Has (m_slots m) k' v'))) /\
        m_len m' = m_len m /\ last (snd (m_step hash st (MPut k v))) (ERet 1) = ERet 0)
      \/ (* refused: nothing changes, negative code *)
      (Same (m_slots m) (m_slots m') /\ m_len m' = m_len m /\ exists z, (z < 0)%Z /\ last (snd (m_step hash st (MPut k v))) (ERet 1) = ERet z)).
  Proof.
    intros Hfr HM Hv. cbn zeta. unfold m_step. rewrite Hfr. destruct (N.eqb_spec v 0); [contradiction|].
    destruct (put hash (ms_m st) k v) as [[m1 e] stored] eqn:Hp. cbn [fst snd ms_m].
    destruct (put_correct _ _ _ _ _ _ HM Hp) as (HM1 & Hres). split; [exact HM1|].
    assert (Hlast : forall x y z, last (x ++ y ++ z ++ [last e (ERet 0)]) (ERet 1) = last e (ERet 0)).
    { intros x y z. rewrite !app_assoc. apply last_last. }
    rewrite Hlast.
    destruct Hres as [(-> & A1 & A2 & A3 & ->)|[(-> & B0 & B1 & B2 & B3 & B4)|(-> & C1 & C2 & (z & Hz & ->))]].
    - left. split; [exact A1|]. split; [exact A2|]. split; [exact A3|reflexivity].
    - right; left. split; [exact B0|]. split; [exact B1|]. split; [exact B2|]. split; [exact B3|].
      destruct e as [|e0 e']; [discriminate|]. rewrite <- B4. apply last_nonempty.
    - right; right. split; [exact C1|]. split; [exact C2|]. exists z. split; [exact Hz|reflexivity].
  Qed.

  Theorem remove_step_correct st k : m_freed (ms_m st) = false -> MInv (ms_m st) ->
    let m := ms_m st in let m' := ms_m (fst (m_step hash st (MRemove k))) in
    ((exists v, Has (m_slots m) k v) /\ (forall k' v', Has (m_slots m') k' v' <-> (k' <> k /\ Has (m_slots m) k' v')) /\
      m_len m' + 1 = m_len m /\ last (snd (m_step hash st (MRemove k))) (ERet 1) = ERet 0)
    \/ ((forall v, ~ Has (m_slots m) k v) /\ m' = m /\ exists z, (z < 0)%Z /\ snd (m_step hash st (MRemove k)) = [ERet z]).
  Proof.
    intros Hfr HM. pose proof HM as (Hinv & Hlen & Hload). pose proof Hinv as (Hn & Hd & _). cbn zeta. unfold m_step. rewrite Hfr.
    destruct (Nat.eqb_spec (m_len (ms_m st)) 0) as [H0|H0]; cbn [fst snd ms_m].
    - right. split; [intros v; apply occ_zero_no_has; lia|]. split; [reflexivity|]. exists (- cEINVAL)%Z. split; [unfold cEINVAL; lia|reflexivity].
    - destruct (find_slot hash (m_slots (ms_m st)) k false) as [i|] eqn:Hf.
      + destruct (find_sound _ k false i Hn Hf) as (Hi & _ & _ & _ & _ & [[v Hv]|[Hx _]]); [|discriminate].
        fold (at_ (m_slots (ms_m st)) i). rewrite Hv. cbn [fst snd ms_m].
        destruct (remove_at_correct _ i k v HM Hv) as (_ & R2 & R3). cbn zeta in R2, R3. left.
        split; [exists v, i; auto|]. split; [exact R2|]. split; [exact R3|]. apply last_last.
      + right. split; [intros v (p & Hp & Hat); rewrite (find_present _ k v false p Hinv Hp Hat) in Hf; discriminate|].
        split; [reflexivity|]. exists (- cENOENT)%Z. split; [unfold cENOENT; lia|reflexivity].
  Qed.

  Theorem len_correct st : m_freed (ms_m st) = false -> MInv (ms_m st) ->
    snd (m_step hash st MLen) = [ERet (Z.of_nat (length (keys (m_slots (ms_m st)))))] /\ NoDup (keys (m_slots (ms_m st))) /\
    (forall k, In k (keys (m_slots (ms_m st))) <-> exists v, Has (m_slots (ms_m st)) k v).
  Proof.
    intros Hfr (Hinv & Hlen & Hload). pose proof Hinv as (Hn & Hd & _). unfold m_step. rewrite Hfr. cbn [snd].
    assert (Hk : forall s, length (keys s) = occ_count s).
    { induction s as [|a s IH]; [reflexivity|]. rewrite occ_count_cons. destruct a as [[k v]|]; cbn [keys length is_some]; lia. }
    split; [rewrite Hk, Hlen; reflexivity|]. split; [apply Distinct_nodup; exact Hd|].
    intros k. split.
    - intros Hin. destruct (in_keys _ _ Hin) as (q & w & Hq & Hw). exists w, q. auto.
    - intros (v & HH). apply has_in in HH. eapply in_some_keys; eauto.
  Qed.

  (* iteration by callback without mutation: every live entry exactly once (slot order) *)
  Lemma iterate_plain : forall fuel m i n rc, length (m_slots m) - i < fuel ->
    iterate_cb hash m i n 0 rc false fuel = (m, List.map EVisit (keys (skipn i (m_slots m))) ++ [ERet 0]).
  Proof.
    induction fuel as [|f IH]; intros m i n rc Hf; [lia|]. cbn [iterate_cb].
    destruct (Nat.leb_spec (length (m_slots m)) i) as [Hge|Hlt].
    - rewrite skipn_all2 by lia. reflexivity.
    - assert (Hsk : skipn i (m_slots m) = nth i (m_slots m) None :: skipn (S i) (m_slots m)).
      { clear -Hlt. revert i Hlt. induction (m_slots m) as [|a l IHl]; intros i Hlt; [cbn in Hlt; lia|]. destruct i; [reflexivity|]. cbn in Hlt. cbn [skipn nth]. apply IHl. lia. }
      rewrite Hsk. destruct (nth i (m_slots m) None) as [[k v]|].
      + replace (S n =? 0) with false by reflexivity. cbn [Z.ltb Z.compare]. rewrite (IH m (S i) (S n) rc) by lia. reflexivity.
      + rewrite (IH m (S i) n rc) by lia. reflexivity.
  Qed.

  Theorem iterate_visits_each_once st rc : m_freed (ms_m st) = false -> MInv (ms_m st) -> m_len (ms_m st) <> 0 ->
    let ks := keys (m_slots (ms_m st)) in
    m_step hash st (MIterate 0 rc false) = (mkMS (ms_m st) None, List.map EVisit ks ++ [ERet 0]) /\ NoDup ks /\
    (forall k, In k ks <-> exists v, Has (m_slots (ms_m st)) k v).
  Proof.
    intros Hfr HM H0. cbn zeta. destruct (len_correct st Hfr HM) as (_ & Hnd & Hin). split; [|split; assumption].
    unfold m_step. rewrite Hfr. destruct (Nat.eqb_spec (m_len (ms_m st)) 0); [contradiction|].
    rewrite iterate_plain by lia. reflexivity.
  Qed.
End WithHash.

(* ---------- the one clause that does NOT hold (known finding D12): iteration that removes the current entry ---------- *)
Definition d12_hash : list (N * N) := [(15850, 532586494); (42048, 2581633790); (55325, 2787830270)]%N.
Definition d12_ops : list mop :=
  [MPut 55325 102; MPut 15850 104; MPut 42048 105; MItrNew; MItrKey; MItrNext; MItrKey; MItrRm; MItrNext; MItrKey; MItrNext; MItrKey]%N.
Definition keys_seen (out : list (list ev)) : list N :=
  flat_map (fun e => match e with [EPtr k] => if N.eqb k 0 then [] else [k] | _ => [] end) out.
(* the three homes coincide (slot 254 of the default table); after removing the second entry through the iterator the walk
   meets key 42048 a second time although it is stored once *)
Theorem iterate_with_removal_refuted :
  exists tbl ops, ~ NoDup (keys_seen (skipn 4 (m_run tbl false false false ops))).
Proof.
  exists d12_hash, d12_ops.
  replace (keys_seen (skipn 4 (m_run d12_hash false false false d12_ops))) with [42048; 55325; 15850; 42048]%N by (vm_compute; reflexivity).
  intros H. inversion H as [|? ? Hnotin _]. apply Hnotin. cbn. auto.
Qed.
