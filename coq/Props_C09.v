(* Props_C09.v -- placeholder, theorems are added below as they are proved *)
From LM Require Import Base CoreTypes CoreModel CoreExec.
