(* QueueProofs.v -- invariant of the queue model, refinement to a plain FIFO
   list, exact destructor accounting, and complete-iteration theorem. *)
From LM Require Import Base SeqLemmas Queue.

(* ---------- the abstract specification: a list, oldest first ---------- *)

Record aq := mkAQ { a_items : list N; a_itr : option qitr; a_dtor : bool; a_freed : bool }.

Definition aq_step (a : aq) (o : qop) : aq * list ev :=
  let l := a_items a in
  let upd l' i := mkAQ l' i (a_dtor a) (a_freed a) in
  if a_freed a then
    match o with
    | QDeq | QPeek | QItrGet | QItrNew => (a, [EPtr 0])
    | QFree => (a, [ERet 0])
    | _ => (a, [ERet (- cEINVAL)])
    end
  else
  match o with
  | QEnq v => if N.eqb v 0 then (upd l None, [ERet (- cEINVAL)]) else (upd (l ++ [v]) None, [ERet 0])
  | QDeq => match l with [] => (upd l None, [EPtr 0]) | x :: r => (upd r None, [EPtr x]) end
  | QPeek => (a, [EPtr (hd 0%N l)])
  | QRemove => match l with
               | [] => (upd l None, [ERet (- cEINVAL)])
               | x :: r => (upd r None, dtor_evs (a_dtor a) [x] ++ [ERet 0])
               end
  | QClear => match l with
              | [] => (upd l None, [ERet (- cEINVAL)])
              | _ => (upd [] None, dtor_evs (a_dtor a) l ++ [ERet 0])
              end
  | QLen => (a, [ERet (Z.of_nat (length l))])
  | QFree => (mkAQ [] None (a_dtor a) true, dtor_evs (a_dtor a) l ++ [ERet 0])
  | QIterate k rc => match l with
                     | [] => (a, [ERet (- cEINVAL)])
                     | _ => (a, q_iterate l 0 k rc)
                     end
  | QItrNew => match l with
               | [] => (upd l None, [EPtr 0])
               | _ => (upd l (Some (mkQI 0 false)), [EPtr 1])
               end
  | QItrNext =>
      match a_itr a with
      | None => (a, [ERet (- cEINVAL)])
      | Some i =>
          let pos := if qi_removed i then qi_pos i else S (qi_pos i) in
          if Nat.ltb pos (length l) then (upd l (Some (mkQI pos false)), [ERet 0])
          else (upd l None, [ERet 0])
      end
  | QItrGet =>
      match a_itr a with
      | None => (a, [EPtr 0])
      | Some i => if qi_removed i then (a, [EPtr 0]) else (a, [EPtr (nth (qi_pos i) l 0%N)])
      end
  | QItrSet v =>
      match a_itr a with
      | None => (a, [ERet (- cEINVAL)])
      | Some i => if qi_removed i || N.eqb v 0 then (a, [ERet (- cEINVAL)])
                  else (upd (set_nth (qi_pos i) v l) (Some i), [ERet 0])
      end
  | QItrRm =>
      match a_itr a with
      | None => (a, [ERet (- cEINVAL)])
      | Some i =>
          if qi_removed i then (a, [ERet (- cEINVAL)]) else
          match nth_error l (qi_pos i) with
          | None => (a, [ERet (- cENOENT)])
          | Some x => (upd (remove_nth (qi_pos i) l) (Some (mkQI (qi_pos i) true)),
                       dtor_evs (a_dtor a) [x] ++ [ERet 0])
          end
      end
  end.

Definition q_abs (s : qstate) : aq :=
  mkAQ (q_items (qs_q s)) (qs_itr s) (q_dtor (qs_q s)) (q_freed (qs_q s)).

(* ---------- the representation invariant ---------- *)

Definition itr_ok (l : list N) (i : option qitr) : Prop :=
  match i with
  | None => True
  | Some i => if qi_removed i then qi_pos i <= length l else qi_pos i < length l
  end.

Record QInv (s : qstate) : Prop := {
  qi_len  : q_len (qs_q s) = length (q_items (qs_q s));
  qi_tail : q_tail (qs_q s) = last_index (q_items (qs_q s));
  qi_nz   : Forall (fun x => x <> 0%N) (q_items (qs_q s));
  qi_itr  : itr_ok (q_items (qs_q s)) (qs_itr s);
  qi_free : q_freed (qs_q s) = true -> q_items (qs_q s) = []
}.

(* ---------- clear loop ---------- *)

Lemma q_clear_loop_spec : forall l tl dt fr acc,
  Forall (fun x => x <> 0%N) l -> tl = last_index l ->
  q_clear_loop (length l) (mkQ l tl (length l) dt fr) acc =
  (mkQ [] None 0 dt fr, acc ++ dtor_evs dt l).
Proof.
  induction l as [|x r IH]; intros tl dt fr acc Hnz Htl; cbn [length q_clear_loop].
  - subst; cbn. destruct dt; cbn; rewrite app_nil_r; reflexivity.
  - cbn [q_len Nat.eqb]. unfold q_dequeue. cbn [q_len q_items q_tail Nat.eqb q_upd q_dtor q_freed].
    inversion Hnz as [|? ? Hx Hr]; subst.
    destruct (N.eqb_spec x 0); [contradiction|].
    replace (S (length r) - 1) with (length r) by lia.
    assert (Et : match last_index (x :: r) with
                 | Some 0 => None | Some (S t) => Some t | None => None end = last_index r).
    { unfold last_index. destruct r as [|y r']; cbn [length]; [reflexivity|].
      replace (S (S (length r')) - 1) with (S (length r')) by lia.
      f_equal; lia. }
    rewrite Et. unfold q_upd; cbn [q_dtor q_freed]. rewrite IH by auto.
    f_equal. rewrite <- app_assoc. f_equal. destruct dt; reflexivity.
Qed.

(* ---------- one step: invariant and refinement ---------- *)

Ltac qsimp := unfold q_upd; cbn [fst snd qs_q qs_itr q_items q_tail q_len q_dtor q_freed].


Lemma q_step_correct s o :
  QInv s ->
  QInv (fst (q_step s o)) /\
  q_abs (fst (q_step s o)) = fst (aq_step (q_abs s) o) /\
  snd (q_step s o) = snd (aq_step (q_abs s) o).
Proof.
  intros [Hlen Htail Hnz Hitr Hfree].
  destruct s as [q itr]; destruct q as [l tl len dt fr]; cbn in *.
  subst len tl.
  unfold q_step, aq_step, q_abs; cbn [qs_q qs_itr q_freed q_items q_dtor q_len q_tail a_freed a_items a_itr a_dtor].
  destruct fr.
  { specialize (Hfree eq_refl); subst l.
    destruct o; cbn; (split; [constructor; cbn; auto|split; reflexivity]). }
  destruct o.
  - (* Enq *)
    destruct (N.eqb_spec v 0).
    + cbn. split; [constructor; cbn; auto|split; reflexivity].
    + unfold q_enqueue; cbn [q_tail q_items q_len q_upd q_dtor q_freed].
      destruct l as [|h t] eqn:El.
      * cbn. split; [constructor; cbn; auto; try discriminate|split; reflexivity].
      * assert (Eli : last_index (h :: t) = Some (length t))
          by (unfold last_index; cbn [length]; f_equal; lia).
        rewrite Eli.
        replace (firstn (S (length t)) (h :: t)) with (h :: t)
          by (symmetry; apply (firstn_all (h :: t))).
        unfold q_upd.
        qsimp.
        split; [constructor; qsimp|split; reflexivity].
        -- rewrite app_length; cbn; lia.
        -- rewrite (last_index_app (h :: t) v). cbn [length]; reflexivity.
        -- apply Forall_app; split; auto.
        -- exact I.
        -- discriminate.
  - (* Deq *)
    unfold q_dequeue; cbn [q_len q_items q_tail q_upd q_dtor q_freed].
    destruct l as [|x r]; cbn [length Nat.eqb fst snd].
    + split; [constructor; cbn; auto|split; reflexivity].
    + qsimp.
      split; [constructor; qsimp|split; reflexivity].
      * lia.
      * unfold last_index. destruct r as [|y r']; cbn [length]; [reflexivity|].
        replace (S (S (length r')) - 1) with (S (length r')) by lia. f_equal; lia.
      * inversion Hnz; auto.
      * exact I.
      * discriminate.
  - (* Peek *)
    cbn [fst snd]. split; [constructor; cbn; auto|split; [reflexivity|]].
    destruct l; cbn; reflexivity.
  - (* Remove *)
    unfold q_dequeue; cbn [q_len q_items q_tail q_upd q_dtor q_freed].
    destruct l as [|x r]; cbn [length Nat.eqb].
    + cbn. split; [constructor; cbn; auto|split; reflexivity].
    + inversion Hnz as [|? ? Hx Hr]; subst. destruct (N.eqb_spec x 0); [contradiction|].
      qsimp.
      split; [constructor; qsimp|split; reflexivity].
      * lia.
      * unfold last_index. destruct r as [|y r']; cbn [length]; [reflexivity|].
        replace (S (S (length r')) - 1) with (S (length r')) by lia. f_equal; lia.
      * auto.
      * exact I.
      * discriminate.
  - (* Clear *)
    destruct l as [|x r] eqn:El; cbn [length Nat.eqb].
    + cbn. split; [constructor; cbn; auto|split; reflexivity].
    + rewrite <- El in *. replace (S (length r)) with (length l) by (subst; reflexivity).
      rewrite q_clear_loop_spec by auto.
      cbn [fst snd]. split; [constructor; cbn; auto; discriminate|split; reflexivity].
  - (* Len *)
    cbn. split; [constructor; cbn; auto; discriminate|split; reflexivity].
  - (* Free *)
    rewrite q_clear_loop_spec by auto.
    cbn [fst snd q_items q_tail q_len q_dtor]. split; [constructor; cbn; auto|split; reflexivity].
  - (* Iterate *)
    destruct l as [|x r]; cbn [length Nat.eqb fst snd];
      (split; [constructor; cbn; auto; discriminate|split; reflexivity]).
  - (* ItrNew *)
    destruct l as [|x r]; cbn [length Nat.eqb fst snd];
      (split; [constructor; cbn; auto; try discriminate; lia|split; reflexivity]).
  - (* ItrNext *)
    destruct itr as [i|]; cbn [fst snd].
    + destruct (Nat.ltb_spec (if qi_removed i then qi_pos i else S (qi_pos i)) (length l));
        cbn [fst snd]; (split; [constructor; cbn; auto; discriminate|split; reflexivity]).
    + split; [constructor; cbn; auto; discriminate|split; reflexivity].
  - (* ItrGet *)
    destruct itr as [i|]; [destruct (qi_removed i) eqn:?|]; cbn [fst snd];
      (split; [constructor; cbn; auto; try discriminate; rewrite ?Heqb; auto|split; reflexivity]).
  - (* ItrSet *)
    destruct itr as [i|]; cbn [fst snd].
    + destruct (qi_removed i) eqn:Er; cbn [orb].
      * cbn. split; [constructor; cbn; auto; try discriminate; rewrite Er; auto|split; reflexivity].
      * destruct (N.eqb_spec v 0); cbn [fst snd].
        -- split; [constructor; cbn; auto; try discriminate; rewrite Er; auto|split; reflexivity].
        -- cbn in Hitr. rewrite Er in Hitr.
           split; [constructor; qsimp|split; reflexivity].
           ++ rewrite length_set_nth; reflexivity.
           ++ unfold last_index. rewrite length_set_nth.
              destruct l; [cbn in Hitr; lia|]. destruct (qi_pos i); reflexivity.
           ++ apply Forall_set_nth; auto.
           ++ cbn. rewrite Er, length_set_nth. exact Hitr.
           ++ discriminate.
    + split; [constructor; cbn; auto; discriminate|split; reflexivity].
  - (* ItrRm *)
    destruct itr as [i|]; cbn [fst snd].
    + destruct (qi_removed i) eqn:Er.
      * cbn. split; [constructor; cbn; auto; try discriminate; rewrite Er; auto|split; reflexivity].
      * cbn in Hitr. rewrite Er in Hitr.
        destruct (nth_error l (qi_pos i)) as [x|] eqn:En.
        2:{ apply nth_error_None in En. lia. }
        qsimp.
        split; [constructor; qsimp|split; reflexivity].
        -- rewrite length_remove_nth by lia. reflexivity.
        -- rewrite last_index_remove_nth by lia. reflexivity.
        -- apply Forall_remove_nth; auto.
        -- cbn. rewrite length_remove_nth by lia. lia.
        -- discriminate.
    + split; [constructor; cbn; auto; discriminate|split; reflexivity].
Qed.

Lemma q_init_inv dt : QInv (q_init dt).
Proof. constructor; cbn; auto. Qed.

(* every reachable state satisfies the invariant *)
Theorem q_inv_reachable dt ops : QInv (final q_step (q_init dt) ops).
Proof. apply final_inv; [|apply q_init_inv]. intros s o H. apply (q_step_correct s o H). Qed.

(* the model produces, for every operation list, exactly the observables of
   the abstract FIFO list *)
Theorem q_refines_fifo dt ops :
  snd (run q_step (q_init dt) ops) = snd (run aq_step (q_abs (q_init dt)) ops).
Proof.
  generalize (q_init_inv dt). generalize (q_init dt) as s.
  induction ops as [|o r IH]; intros s Hs; cbn [run]; [reflexivity|].
  destruct (q_step_correct s o Hs) as (Hi & Ha & He).
  destruct (q_step s o) as [s1 e1]; destruct (aq_step (q_abs s) o) as [a1 e1'].
  cbn [fst snd] in *. subst.
  specialize (IH s1 Hi). destruct (run q_step s1 r), (run aq_step (q_abs s1) r).
  cbn [snd] in *. subst. reflexivity.
Qed.

(* ---------- FIFO discipline, stated on the specification ---------- *)

(* Enqueue v1..vn on an empty queue, then dequeue n times: v1..vn come back in
   that order (for every n and every values) *)
Lemma aq_enq_all a vs :
  a_freed a = false -> Forall (fun x => x <> 0%N) vs ->
  a_items (fst (run aq_step a (map QEnq vs))) = a_items a ++ vs /\
  a_freed (fst (run aq_step a (map QEnq vs))) = false /\
  a_dtor (fst (run aq_step a (map QEnq vs))) = a_dtor a.
Proof.
  revert a; induction vs as [|v r IH]; intros a Hf Hnz; cbn [map run].
  - cbn. rewrite app_nil_r; auto.
  - inversion Hnz as [|? ? Hv Hr]; subst.
    assert (Es : aq_step a (QEnq v) = (mkAQ (a_items a ++ [v]) None (a_dtor a) false, [ERet 0])).
    { unfold aq_step. rewrite Hf. destruct (N.eqb_spec v 0); [contradiction|reflexivity]. }
    rewrite Es.
    specialize (IH (mkAQ (a_items a ++ [v]) None (a_dtor a) false) eq_refl Hr).
    destruct (run aq_step _ (map QEnq r)) as [a2 es] eqn:E.
    cbn [fst a_items a_dtor a_freed] in *.
    rewrite <- app_assoc in IH. exact IH.
Qed.

Lemma aq_deq_all a :
  a_freed a = false ->
  snd (run aq_step a (repeat QDeq (length (a_items a)))) = map (fun x => [EPtr x]) (a_items a).
Proof.
  destruct a as [l i d f]; cbn [a_freed a_items]; intros ->.
  revert i; induction l as [|x r IH]; intros i; cbn [length repeat run map]; [reflexivity|].
  unfold aq_step at 1; cbn [a_freed a_items a_dtor].
  specialize (IH None). destruct (run aq_step _ _) as [a2 es]; cbn [snd] in *.
  f_equal. exact IH.
Qed.

Theorem q_fifo dt vs :
  Forall (fun x => x <> 0%N) vs ->
  skipn (length vs) (q_run dt (map QEnq vs ++ repeat QDeq (length vs))) =
  map (fun x => [EPtr x]) vs.
Proof.
  intros Hnz. unfold q_run. rewrite q_refines_fifo.
  set (a0 := q_abs (q_init dt)).
  assert (Hrun : forall (a : aq) o1 o2,
     snd (run aq_step a (o1 ++ o2)) =
     snd (run aq_step a o1) ++ snd (run aq_step (fst (run aq_step a o1)) o2)).
  { intros a o1; revert a; induction o1 as [|o r IH]; intros a o2; cbn [app run]; [reflexivity|].
    destruct (aq_step a o) as [a1 e1]. specialize (IH a1 o2).
    destruct (run aq_step a1 (r ++ o2)), (run aq_step a1 r); cbn [fst snd] in *.
    rewrite IH. reflexivity. }
  rewrite Hrun.
  assert (Hl : length (snd (run aq_step a0 (map QEnq vs))) = length vs).
  { generalize a0. induction vs as [|v r IH]; intros a; cbn [map run]; [reflexivity|].
    inversion Hnz; subst. destruct (aq_step a (QEnq v)) as [a1 e1].
    specialize (IH H2 a1). destruct (run aq_step a1 (map QEnq r)); cbn [snd length] in *. lia. }
  rewrite <- Hl at 1. rewrite skipn_app, skipn_all, Nat.sub_diag. cbn [app skipn].
  destruct (aq_enq_all a0 vs eq_refl Hnz) as (Hi & Hf & _).
  cbn [a0 q_abs q_init qs_q q_items app] in Hi.
  replace (length vs) with (length (a_items (fst (run aq_step a0 (map QEnq vs))))) at 1
    by (rewrite Hi; reflexivity).
  rewrite aq_deq_all by exact Hf. rewrite Hi. reflexivity.
Qed.

(* ---------- complete iteration with arbitrary per-element actions ---------- *)

Definition iact_ops (a : iact) : list qop :=
  match a with IKeep => [] | IRemove => [QItrRm] | ISet v => [QItrSet v] end.

Definition iter_script (acts : list iact) : list qop :=
  flat_map (fun a => QItrGet :: iact_ops a ++ [QItrNext]) acts.

(* spec-level state during an iteration: iterator at position |done| *)
Definition AIt dt (done todo : list N) (removed : bool) : aq :=
  mkAQ (done ++ todo) (Some (mkQI (length done) removed)) dt false.
Definition AEnd dt (l : list N) : aq := mkAQ l None dt false.
Definition ANext dt (done todo : list N) : aq :=
  match todo with [] => AEnd dt done | _ => AIt dt done todo false end.

Lemma aq_get dt done x r : aq_step (AIt dt done (x :: r) false) QItrGet = (AIt dt done (x :: r) false, [EPtr x]).
Proof. unfold aq_step, AIt; cbn [a_freed a_itr qi_removed qi_pos a_items].
       rewrite app_nth2, Nat.sub_diag by lia. reflexivity. Qed.

Lemma aq_next_keep dt done x r :
  aq_step (AIt dt done (x :: r) false) QItrNext = (ANext dt (done ++ [x]) r, [ERet 0]).
Proof. unfold aq_step, AIt; cbn [a_freed a_itr qi_removed qi_pos a_items a_dtor].
       rewrite app_length; cbn [length].
       destruct r as [|y r']; cbn [length]; ltb_case; try lia.
       - reflexivity.
       - unfold ANext, AIt. rewrite app_length; cbn [length]. rewrite <- app_assoc; cbn [app].
         replace (length done + 1) with (S (length done)) by lia. reflexivity. Qed.

Lemma aq_next_removed dt done r :
  aq_step (AIt dt done r true) QItrNext = (ANext dt done r, [ERet 0]).
Proof. unfold aq_step, AIt; cbn [a_freed a_itr qi_removed qi_pos a_items a_dtor].
       rewrite app_length.
       destruct r as [|y r']; cbn [length]; ltb_case; try lia.
       - unfold ANext, AEnd. rewrite app_nil_r. reflexivity.
       - reflexivity. Qed.

Lemma aq_rm dt done x r :
  aq_step (AIt dt done (x :: r) false) QItrRm = (AIt dt done r true, dtor_evs dt [x] ++ [ERet 0]).
Proof. unfold aq_step, AIt; cbn [a_freed a_itr qi_removed qi_pos a_items a_dtor].
       rewrite nth_error_app2, Nat.sub_diag by lia. cbn [nth_error].
       rewrite remove_nth_app. reflexivity. Qed.

Lemma aq_set dt done x r v : v <> 0%N ->
  aq_step (AIt dt done (x :: r) false) (QItrSet v) = (AIt dt done (v :: r) false, [ERet 0]).
Proof. intros Hv. unfold aq_step, AIt; cbn [a_freed a_itr qi_removed qi_pos a_items a_dtor orb].
       destruct (N.eqb_spec v 0); [contradiction|]. rewrite set_nth_app. reflexivity. Qed.

(* one element of the iteration *)
Lemma aq_iter_elem dt done x r act : act <> ISet 0%N ->
  run aq_step (AIt dt done (x :: r) false) (QItrGet :: iact_ops act ++ [QItrNext]) =
  (ANext dt (done ++ apply_acts [x] [act]) r,
   [EPtr x] :: match act with
               | IKeep => [] | IRemove => [dtor_evs dt [x] ++ [ERet 0]] | ISet _ => [[ERet 0]]
               end ++ [[ERet 0]]).
Proof.
  intros Hact. cbn [run]. rewrite aq_get.
  destruct act as [| |v]; cbn [iact_ops app run apply_acts].
  - rewrite aq_next_keep. reflexivity.
  - rewrite aq_rm, aq_next_removed. rewrite app_nil_r. reflexivity.
  - rewrite aq_set by congruence. rewrite aq_next_keep. reflexivity.
Qed.

Lemma aq_iter_loop dt : forall todo done acts,
  length acts = length todo -> Forall (fun a => a <> ISet 0%N) acts ->
  let r := run aq_step (ANext dt done todo) (iter_script acts) in
  fst r = AEnd dt (done ++ apply_acts todo acts) /\
  visits (snd r) = todo /\
  dtors (snd r) = (if dt then acts_dtors todo acts else []).
Proof.
  induction todo as [|x r IH]; intros done acts Hlen Hnz.
  - destruct acts; [|cbn in Hlen; lia]. cbn. rewrite app_nil_r. destruct dt; auto.
  - destruct acts as [|act acts]; [cbn in Hlen; lia|].
    cbn [length] in Hlen. inversion Hnz as [|? ? Hact Hnz']; subst.
    cbn zeta. unfold iter_script. cbn [flat_map]. fold (iter_script acts).
    change (ANext dt done (x :: r)) with (AIt dt done (x :: r) false).
    rewrite (run_app aq_step _ (QItrGet :: iact_ops act ++ [QItrNext]) (iter_script acts)).
    rewrite aq_iter_elem by assumption.
    specialize (IH (done ++ apply_acts [x] [act]) acts ltac:(lia) Hnz'). cbn zeta in IH.
    destruct (run aq_step _ (iter_script acts)) as [af es]. cbn [fst snd] in *.
    destruct IH as (I1 & I2 & I3).
    split; [|split].
    + rewrite I1. f_equal. rewrite <- app_assoc. f_equal. destruct act; reflexivity.
    + destruct act; cbn [app visits]; destruct dt; cbn [dtor_evs map app visits]; rewrite I2; reflexivity.
    + destruct act; cbn [app dtors flat_map acts_dtors]; destruct dt;
        cbn [dtor_evs map app dtors flat_map acts_dtors]; rewrite ?I3; reflexivity.
Qed.

(* refinement from any state satisfying the invariant *)
Lemma q_refines_from : forall ops s, QInv s ->
  QInv (fst (run q_step s ops)) /\
  q_abs (fst (run q_step s ops)) = fst (run aq_step (q_abs s) ops) /\
  snd (run q_step s ops) = snd (run aq_step (q_abs s) ops).
Proof.
  induction ops as [|o r IH]; intros s Hs; cbn [run]; [auto|].
  destruct (q_step_correct s o Hs) as (Hi & Ha & He).
  destruct (q_step s o) as [s1 e1]; destruct (aq_step (q_abs s) o) as [a1 e1'].
  cbn [fst snd] in *. subst.
  specialize (IH s1 Hi). destruct (run q_step s1 r), (run aq_step (q_abs s1) r).
  cbn [fst snd] in *. destruct IH as (? & ? & ?); subst. auto.
Qed.

(* Iterating a non-empty queue to the end with arbitrary per-element actions
   (keep / remove / replace): every element is visited exactly once, in queue
   order; what remains is exactly the kept/replaced elements in order; the
   destructor ran exactly for the removed ones; and the queue keeps working
   (the final state satisfies the invariant, so every later operation behaves
   as the FIFO list does). *)
Theorem q_iterate_all dt (pre : list qop) (acts : list iact) :
  let s0 := final q_step (q_init dt) pre in
  let l := q_items (qs_q s0) in
  let d := q_dtor (qs_q s0) in
  q_freed (qs_q s0) = false -> qs_itr s0 = None ->
  length acts = length l -> Forall (fun a => a <> ISet 0%N) acts ->
  let r := run q_step s0 (QItrNew :: iter_script acts) in
  QInv (fst r) /\
  q_items (qs_q (fst r)) = apply_acts l acts /\
  qs_itr (fst r) = None /\
  visits (tl (snd r)) = l /\
  dtors (tl (snd r)) = (if d then acts_dtors l acts else []).
Proof.
  cbn zeta. intros Hfr Hit Hlen Hnz.
  pose proof (q_inv_reachable dt pre) as Hinv.
  set (s0 := final q_step (q_init dt) pre) in *.
  destruct (q_refines_from (QItrNew :: iter_script acts) s0 Hinv) as (Hi & Ha & He).
  set (R := run q_step s0 (QItrNew :: iter_script acts)) in *.
  split; [exact Hi|].
  assert (Eabs : q_abs s0 = AEnd (q_dtor (qs_q s0)) (q_items (qs_q s0))).
  { unfold q_abs, AEnd. rewrite Hfr, Hit. reflexivity. }
  rewrite Eabs in Ha, He. clear Eabs.
  set (l := q_items (qs_q s0)) in *. set (d := q_dtor (qs_q s0)) in *.
  cbn [run] in Ha, He.
  assert (Enew : aq_step (AEnd d l) QItrNew = (ANext d [] l, [EPtr (match l with [] => 0 | _ => 1 end)%N])).
  { unfold aq_step, AEnd, ANext, AIt; cbn [a_freed a_items a_dtor]. destruct l; reflexivity. }
  rewrite Enew in Ha, He.
  pose proof (aq_iter_loop d l [] acts Hlen Hnz) as Hloop. cbn zeta in Hloop.
  destruct (run aq_step (ANext d [] l) (iter_script acts)) as [af es]. cbn [fst snd app] in *.
  destruct Hloop as (L1 & L2 & L3).
  rewrite He. cbn [tl]. subst af.
  assert (Hq : q_items (qs_q (fst R)) = apply_acts l acts /\ qs_itr (fst R) = None).
  { unfold q_abs, AEnd in L1. inversion L1. auto. }
  destruct Hq. auto.
Qed.
