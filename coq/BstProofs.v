(* BstProofs.v -- search-tree invariant, set semantics, sorted traversal, exact
   destructor target and complete iteration (with removal) for Bst.v, for EVERY
   comparator that is consistent with a total order on keys. *)
From LM Require Import Base Bst.
From Coq Require Import Sorting.Sorted Permutation.

Section WithCmp.
  Variable cmp : N -> N -> Z.
  Variable key : N -> Z.
  (* the comparator's contract (the user's obligation for user comparators, a
     theorem for the library's own one, see ptrcmp_ok below) *)
  Hypothesis cmp_lt : forall a b, (cmp a b < 0)%Z <-> (key a < key b)%Z.
  Hypothesis cmp_eq : forall a b, cmp a b = 0%Z <-> key a = key b.

  Notation t_find := (t_find cmp).
  Notation t_insert := (t_insert cmp).
  Notation t_remove := (t_remove cmp).
  Notation t_succ := (t_succ cmp).
  Notation b_step := (b_step cmp).

  Lemma cmp_gt a b : (0 < cmp a b)%Z <-> (key b < key a)%Z.
  Proof. pose proof (cmp_lt a b); pose proof (cmp_eq a b). lia. Qed.

  Ltac cmp_cases v x :=
    let c := fresh "c" in
    pose proof (cmp_lt v x); pose proof (cmp_eq v x); pose proof (cmp_gt v x);
    destruct (Z.eqb_spec (cmp v x) 0); [|destruct (Z.ltb_spec 0 (cmp v x))].

  Fixpoint all_t (P : N -> Prop) (t : tree) : Prop :=
    match t with Leaf => True | Node l x r => P x /\ all_t P l /\ all_t P r end.
  Fixpoint bst (t : tree) : Prop :=
    match t with
    | Leaf => True
    | Node l x r => all_t (fun y => (key y < key x)%Z) l /\ all_t (fun y => (key x < key y)%Z) r /\ bst l /\ bst r
    end.

  Lemma all_t_in P t : all_t P t <-> (forall y, In y (inorder t) -> P y).
  Proof. induction t as [|l IHl x r IHr]; cbn; [tauto|]. rewrite IHl, IHr.
         split; [intros (Hx & Hl & Hr) y Hy; apply in_app_iff in Hy; destruct Hy as [|[|]]; subst; auto|].
         intros H; repeat split; intros; apply H; apply in_app_iff; cbn; auto. Qed.
  Lemma all_t_imp (P Q : N -> Prop) t : (forall y, P y -> Q y) -> all_t P t -> all_t Q t.
  Proof. rewrite !all_t_in. auto. Qed.

  (* ---------- find ---------- *)
  Lemma t_find_some t v x : bst t -> t_find t v = Some x -> In x (inorder t) /\ key x = key v.
  Proof.
    induction t as [|l IHl y r IHr]; cbn; [discriminate|]. intros (Hl & Hr & Bl & Br).
    cmp_cases v y; intros Hf.
    - inversion Hf; subst. split; [apply in_app_iff; cbn; auto|]. symmetry; tauto.
    - destruct (IHr Br Hf). split; [apply in_app_iff; cbn; auto|auto].
    - destruct (IHl Bl Hf). split; [apply in_app_iff; auto|auto].
  Qed.
  Lemma t_find_none t v : bst t -> t_find t v = None -> forall y, In y (inorder t) -> key y <> key v.
  Proof.
    induction t as [|l IHl x r IHr]; cbn; [tauto|]. intros (Hl & Hr & Bl & Br).
    rewrite all_t_in in Hl, Hr.
    cmp_cases v x; intros Hf y Hy; [discriminate| |].
    - apply in_app_iff in Hy. destruct Hy as [Hy|[Hy|Hy]].
      + specialize (Hl y Hy). lia. + subst. lia. + apply (IHr Br Hf y Hy).
    - apply in_app_iff in Hy. destruct Hy as [Hy|[Hy|Hy]].
      + apply (IHl Bl Hf y Hy). + subst. lia. + specialize (Hr y Hy). lia.
  Qed.

  (* ---------- sortedness ---------- *)
  Definition klt (a b : N) : Prop := (key a < key b)%Z.
  Lemma bst_sorted t : bst t -> StronglySorted klt (inorder t).
  Proof.
    induction t as [|l IHl x r IHr]; cbn; [constructor|]. intros (Hl & Hr & Bl & Br).
    rewrite all_t_in in Hl, Hr. specialize (IHl Bl). specialize (IHr Br).
    induction (inorder l) as [|a la IHa]; cbn.
    - constructor; [auto|]. apply Forall_forall. auto.
    - inversion IHl; subst. constructor; [apply IHa; auto; intros; apply Hl; cbn; auto|].
      apply Forall_forall. intros z Hz. apply in_app_iff in Hz. destruct Hz as [Hz|[Hz|Hz]].
      + rewrite Forall_forall in H2. auto.
      + subst. apply Hl; cbn; auto.
      + unfold klt. specialize (Hl a ltac:(cbn; auto)). specialize (Hr z Hz). lia.
  Qed.

  (* ---------- insert ---------- *)
  Fixpoint l_insert (v : N) (l : list N) : list N :=
    match l with
    | [] => [v]
    | x :: r => if (key v <? key x)%Z then v :: l else x :: l_insert v r
    end.
  Lemma l_insert_app_lt v a b x : (forall y, In y a -> (key y < key v)%Z) -> (key x < key v)%Z ->
    l_insert v (a ++ x :: b) = a ++ x :: l_insert v b.
  Proof. intros Ha Hx. induction a as [|y a IH]; cbn.
         - destruct (Z.ltb_spec (key v) (key x)); [lia|reflexivity].
         - destruct (Z.ltb_spec (key v) (key y)); [specialize (Ha y ltac:(cbn; auto)); lia|].
           rewrite IH; [reflexivity|intros; apply Ha; cbn; auto]. Qed.
  Lemma l_insert_app_gt v a b x : (key v < key x)%Z ->
    l_insert v (a ++ x :: b) = l_insert v a ++ x :: b.
  Proof. intros Hx. induction a as [|y a IH]; cbn.
         - destruct (Z.ltb_spec (key v) (key x)); [reflexivity|lia].
         - destruct (Z.ltb_spec (key v) (key y)); [reflexivity|]. rewrite IH. reflexivity. Qed.

  Lemma t_insert_correct t v : bst t -> t_find t v = None ->
    bst (t_insert t v) /\ inorder (t_insert t v) = l_insert v (inorder t).
  Proof.
    induction t as [|l IHl x r IHr]; cbn [Bst.t_find Bst.t_insert bst inorder l_insert].
    - intros _ _. cbn. auto.
    - intros (Hl & Hr & Bl & Br). cmp_cases v x; intros Hf; [discriminate| |].
      + destruct (IHr Br Hf) as (B' & I'). cbn [bst inorder]. split.
        * repeat split; auto. rewrite all_t_in in *. rewrite I'. intros y Hy.
          assert (Hyin : In y (v :: inorder r)).
          { clear -Hy. induction (inorder r) as [|a q IH]; cbn in *; [tauto|].
            destruct (key v <? key a)%Z; cbn in Hy; [tauto|]. destruct Hy as [|Hy]; [auto|]. destruct (IH Hy); auto. }
          destruct Hyin as [<-|]; [lia|auto].
        * rewrite I'. rewrite l_insert_app_lt; [reflexivity| |lia].
          rewrite all_t_in in Hl. intros y Hy. specialize (Hl y Hy). lia.
      + assert (key v < key x)%Z by lia.
        destruct (IHl Bl Hf) as (B' & I'). cbn [bst inorder]. split.
        * repeat split; auto. rewrite all_t_in in *. rewrite I'. intros y Hy.
          assert (Hyin : In y (v :: inorder l)).
          { clear -Hy. induction (inorder l) as [|a q IH]; cbn in *; [tauto|].
            destruct (key v <? key a)%Z; cbn in Hy; [tauto|]. destruct Hy as [|Hy]; [auto|]. destruct (IH Hy); auto. }
          destruct Hyin as [<-|]; [lia|auto].
        * rewrite I'. rewrite l_insert_app_gt by lia. reflexivity.
  Qed.

  Lemma t_insert_size t v : t_find t v = None -> tsize (t_insert t v) = S (tsize t).
  Proof. induction t as [|l IHl x r IHr]; cbn; [reflexivity|].
         destruct (cmp v x =? 0)%Z; [discriminate|]. destruct (0 <? cmp v x)%Z; intros H; cbn; [rewrite IHr|rewrite IHl]; auto; lia. Qed.

  Lemma tsize_inorder t : tsize t = length (inorder t).
  Proof. induction t; cbn; [reflexivity|]. rewrite app_length; cbn. lia. Qed.

  (* ---------- remove ---------- *)
  Lemma pop_min_correct t : t <> Leaf -> exists m t', t_pop_min t = Some (m, t') /\ inorder t = m :: inorder t'.
  Proof.
    induction t as [|l IHl x r IHr]; [congruence|]. intros _. cbn [t_pop_min].
    destruct l as [|ll lx lr].
    - cbn. eauto.
    - destruct (IHl ltac:(discriminate)) as (m & l' & Hp & Hi). rewrite Hp.
      exists m, (Node l' x r). split; [reflexivity|]. cbn [inorder] in *. rewrite Hi. reflexivity.
  Qed.
  Lemma pop_min_leaf : t_pop_min Leaf = None. Proof. reflexivity. Qed.

  Lemma remove_root_inorder l x r : inorder (t_remove_root l x r) = inorder l ++ inorder r.
  Proof.
    unfold t_remove_root. destruct l as [|ll lx lr]; [reflexivity|]. destruct r as [|rl rx rr]; [cbn; rewrite app_nil_r; reflexivity|].
    destruct (pop_min_correct (Node rl rx rr) ltac:(discriminate)) as (m & r' & Hp & Hi). rewrite Hp.
    cbn [inorder] in *. rewrite Hi. reflexivity.
  Qed.

  Definition l_remove (v : N) (l : list N) : list N := filter (fun y => negb (key y =? key v)%Z) l.

  Lemma filter_all {A} (f : A -> bool) l : (forall y, In y l -> f y = true) -> filter f l = l.
  Proof. induction l as [|a q IH]; cbn; [reflexivity|]. intros H. rewrite (H a) by auto. f_equal. apply IH. auto. Qed.

  Lemma t_remove_inorder t v : bst t -> inorder (t_remove t v) = l_remove v (inorder t).
  Proof.
    induction t as [|l IHl x r IHr]; cbn [Bst.t_remove inorder]; [reflexivity|]. intros (Hl & Hr & Bl & Br).
    rewrite all_t_in in Hl, Hr. unfold l_remove in *. rewrite filter_app. cbn [filter].
    cmp_cases v x.
    - rewrite remove_root_inorder. replace (key x =? key v)%Z with true by (symmetry; apply Z.eqb_eq; symmetry; tauto). cbn [negb].
      rewrite !filter_all; [reflexivity| |].
      + intros y Hy. specialize (Hr y Hy). apply negb_true_iff, Z.eqb_neq. lia.
      + intros y Hy. specialize (Hl y Hy). apply negb_true_iff, Z.eqb_neq. lia.
    - cbn [inorder]. rewrite IHr by auto. replace (key x =? key v)%Z with false by (symmetry; apply Z.eqb_neq; lia). cbn [negb].
      rewrite (filter_all _ (inorder l)); [reflexivity|].
      intros y Hy. specialize (Hl y Hy). apply negb_true_iff, Z.eqb_neq. lia.
    - cbn [inorder]. rewrite IHl by auto. replace (key x =? key v)%Z with false by (symmetry; apply Z.eqb_neq; lia). cbn [negb].
      rewrite (filter_all _ (inorder r)); [reflexivity|].
      intros y Hy. specialize (Hr y Hy). apply negb_true_iff, Z.eqb_neq. lia.
  Qed.

  Lemma all_t_remove_root P l x r : all_t P l -> all_t P r -> all_t P (t_remove_root l x r).
  Proof. rewrite !all_t_in. rewrite remove_root_inorder. intros Hl Hr y Hy. apply in_app_iff in Hy. destruct Hy; auto. Qed.

  Lemma pop_min_bst t m t' : bst t -> t_pop_min t = Some (m, t') ->
    bst t' /\ all_t (fun y => (key m < key y)%Z) t'.
  Proof.
    revert m t'. induction t as [|l IHl x r IHr]; intros m t'; [discriminate|]. cbn [t_pop_min bst].
    intros (Hl & Hr & Bl & Br).
    destruct (t_pop_min l) as [[m0 l0]|] eqn:Ep.
    - intros H; inversion H; subst. destruct (IHl m l0 Bl eq_refl) as (B0 & A0).
      assert (Hin : inorder l = m :: inorder l0).
      { destruct l; [discriminate|]. destruct (pop_min_correct (Node l1 x0 l2) ltac:(discriminate)) as (m' & t'' & Hp & Hi).
        rewrite Ep in Hp. inversion Hp; subst. exact Hi. }
      pose proof Hl as Hl0; pose proof Hr as Hr0. rewrite all_t_in in Hl, Hr, A0. cbn [bst all_t]. split.
      + repeat split; auto. rewrite all_t_in. intros y Hy. apply Hl. rewrite Hin. cbn; auto.
      + assert (key m < key x)%Z by (apply Hl; rewrite Hin; cbn; auto).
        repeat split; auto; rewrite all_t_in; auto. intros y Hy. specialize (Hr y Hy). lia.
    - intros H; inversion H; subst. split; auto.
  Qed.

  Lemma remove_root_bst l x r : bst (Node l x r) -> bst (t_remove_root l x r).
  Proof.
    cbn [bst]. intros (Hl & Hr & Bl & Br). unfold t_remove_root.
    destruct l as [|ll lx lr]; [auto|]. destruct r as [|rl rx rr]; [auto|].
    destruct (pop_min_correct (Node rl rx rr) ltac:(discriminate)) as (m & r' & Hp & Hi). rewrite Hp.
    destruct (pop_min_bst _ _ _ Br Hp) as (B' & A').
    rewrite all_t_in in Hl, Hr. rewrite Hi in Hr.
    assert (key x < key m)%Z by (apply Hr; cbn; auto).
    change (bst (Node (Node ll lx lr) m r')) with
      (all_t (fun y => (key y < key m)%Z) (Node ll lx lr) /\ all_t (fun y => (key m < key y)%Z) r' /\ bst (Node ll lx lr) /\ bst r').
    split; [|split; [|split]]; [|exact A'|exact Bl|exact B'].
    apply all_t_in. intros y Hy. specialize (Hl y Hy). cbn beta in Hl. lia.
  Qed.

  Lemma t_remove_bst t v : bst t -> bst (t_remove t v).
  Proof.
    induction t as [|l IHl x r IHr]; cbn [Bst.t_remove]; [auto|]. intros B.
    pose proof B as (Hl & Hr & Bl & Br).
    cmp_cases v x; [apply remove_root_bst; auto| |]; cbn [bst]; repeat split; auto.
    - rewrite all_t_in in *. rewrite t_remove_inorder by auto. intros y Hy. apply filter_In in Hy. apply Hr. tauto.
    - rewrite all_t_in in *. rewrite t_remove_inorder by auto. intros y Hy. apply filter_In in Hy. apply Hl. tauto.
  Qed.

  Lemma l_remove_length_found l v x : StronglySorted klt l -> In x l -> key x = key v ->
    length (l_remove v l) = length l - 1 /\ l_remove v l = filter (fun y => negb (N.eqb y x)) l.
  Proof.
    unfold l_remove. induction l as [|a q IH]; cbn [In]; [tauto|]. intros Hs Hin Hk.
    inversion Hs as [|? ? Hs' Hall]; subst. rewrite Forall_forall in Hall. cbn [filter length].
    destruct Hin as [->|Hin].
    - rewrite Hk, Z.eqb_refl, N.eqb_refl. cbn [negb].
      assert (E1 : filter (fun y => negb (key y =? key v)%Z) q = q).
      { apply filter_all. intros y Hy. specialize (Hall y Hy). unfold klt in Hall. apply negb_true_iff, Z.eqb_neq. lia. }
      assert (E2 : filter (fun y => negb (y =? x)%N) q = q).
      { apply filter_all. intros y Hy. specialize (Hall y Hy). unfold klt in Hall. apply negb_true_iff, N.eqb_neq. intros ->. lia. }
      rewrite E1, E2. split; [lia|reflexivity].
    - specialize (Hall x Hin). unfold klt in Hall.
      replace (key a =? key v)%Z with false by (symmetry; apply Z.eqb_neq; lia).
      replace (a =? x)%N with false by (symmetry; apply N.eqb_neq; intros ->; lia). cbn [negb length].
      destruct (IH Hs' Hin Hk) as (L & F). rewrite F in *. split; [|reflexivity].
      destruct q; [destruct Hin|]. cbn [length] in *. lia.
  Qed.

  (* ---------- min / successor ---------- *)
  Lemma tmin_hd t : tmin t = hd_error (inorder t).
  Proof. induction t as [|l IHl x r IHr]; [reflexivity|]. cbn [tmin inorder].
         destruct l as [|ll lx lr]; [reflexivity|]. rewrite IHl.
         cbn [inorder]. destruct (inorder ll); reflexivity. Qed.

  Definition first_gt (v : N) (l : list N) : option N := find (fun y => (key v <? key y)%Z) l.

  Lemma find_app {A} (f : A -> bool) a b : find f (a ++ b) = match find f a with Some x => Some x | None => find f b end.
  Proof. induction a as [|x a IH]; cbn; [reflexivity|]. destruct (f x); auto. Qed.
  Lemma find_none_all {A} (f : A -> bool) l : (forall y, In y l -> f y = false) -> find f l = None.
  Proof. induction l as [|a q IH]; cbn; [reflexivity|]. intros H. rewrite (H a) by auto. apply IH; auto. Qed.

  Lemma t_succ_first_gt t v best : bst t ->
    t_succ t v best = match first_gt v (inorder t) with Some y => Some y | None => best end.
  Proof.
    revert best. induction t as [|l IHl x r IHr]; intros best; cbn [Bst.t_succ inorder]; [reflexivity|].
    intros (Hl & Hr & Bl & Br). rewrite all_t_in in Hl, Hr. unfold first_gt in *. rewrite find_app. cbn [find].
    pose proof (cmp_lt v x) as Hc.
    destruct (Z.ltb_spec (cmp v x) 0).
    - rewrite IHl by auto. assert (key v < key x)%Z by lia.
      destruct (find _ (inorder l)); [reflexivity|].
      destruct (Z.ltb_spec (key v) (key x)); [reflexivity|lia].
    - rewrite IHr by auto. assert (~ (key v < key x))%Z by lia.
      rewrite (find_none_all _ (inorder l)); [|intros y Hy; specialize (Hl y Hy); apply Z.ltb_ge; lia].
      destruct (Z.ltb_spec (key v) (key x)); [lia|reflexivity].
  Qed.

  Lemma first_gt_in v l y : first_gt v l = Some y -> In y l.
  Proof. intros H. apply find_some in H. tauto. Qed.

  (* in a sorted list, the successor of an element is the next one *)
  Lemma first_gt_split a x b : StronglySorted klt (a ++ x :: b) -> first_gt x (a ++ x :: b) = hd_error b.
  Proof.
    intros Hs. unfold first_gt. rewrite find_app.
    assert (Ha : forall y, In y a -> (key y < key x)%Z).
    { clear -Hs. induction a as [|z a IH]; cbn in *; [tauto|]. inversion Hs; subst. intros y [->|Hy]; [|auto].
      rewrite Forall_forall in H2. apply H2. apply in_app_iff; cbn; auto. }
    assert (Hb : forall y, In y b -> (key x < key y)%Z).
    { clear -Hs. induction a as [|z a IH]; cbn in *; [|inversion Hs; auto].
      inversion Hs; subst. rewrite Forall_forall in H2. auto. }
    rewrite find_none_all; [|intros y Hy; specialize (Ha y Hy); apply Z.ltb_ge; lia].
    cbn [find]. rewrite Z.ltb_irrefl. destruct b as [|y b]; [reflexivity|]. cbn [find hd_error].
    specialize (Hb y ltac:(cbn; auto)). destruct (Z.ltb_spec (key x) (key y)); [reflexivity|lia].
  Qed.
  (* ... and of an element just removed from between a and b, the head of b *)
  Lemma first_gt_last a p b : StronglySorted klt ((a ++ [p]) ++ b) -> first_gt p ((a ++ [p]) ++ b) = hd_error b.
  Proof. rewrite <- app_assoc. cbn [app]. apply first_gt_split. Qed.

  (* ---------- the state invariant ---------- *)
  Definition elems (s : bstate) : list N := inorder (b_tree (bs_b s)).

  Record BInv (s : bstate) : Prop := {
    bv_bst  : bst (b_tree (bs_b s));
    bv_len  : b_len (bs_b s) = tsize (b_tree (bs_b s));
    bv_nz   : Forall (fun x => x <> 0%N) (elems s);
    bv_free : b_freed (bs_b s) = true -> b_tree (bs_b s) = Leaf;
    bv_itr  : match bs_itr s with
              | Some i => bi_removed i = false -> exists c, bi_curr i = Some c /\ In c (elems s)
              | None => True
              end
  }.

  Lemma l_insert_in v l y : In y (l_insert v l) <-> y = v \/ In y l.
  Proof. induction l as [|a q IH]; cbn; [intuition congruence|]. destruct (key v <? key a)%Z; cbn; [intuition congruence|]. rewrite IH. intuition congruence. Qed.

  Lemma remove_elem_exact t c : bst t -> In c (inorder t) ->
    inorder (t_remove t c) = filter (fun y => negb (N.eqb y c)) (inorder t) /\
    tsize (t_remove t c) = tsize t - 1.
  Proof.
    intros B Hin. rewrite t_remove_inorder by auto.
    destruct (l_remove_length_found (inorder t) c c (bst_sorted t B) Hin eq_refl) as (L & F).
    split; [exact F|]. rewrite !tsize_inorder, t_remove_inorder by auto. exact L.
  Qed.

  Lemma t_find_self t c : bst t -> In c (inorder t) -> t_find t c = Some c.
  Proof.
    intros B Hin. destruct (t_find t c) as [x|] eqn:Ef.
    - destruct (t_find_some t c x B Ef) as (Hx & Hk). f_equal.
      pose proof (bst_sorted t B) as Hs. clear -Hs Hx Hin Hk.
      induction (inorder t) as [|a q IH]; [destruct Hin|]. inversion Hs as [|? ? Hs' Hall]; subst. rewrite Forall_forall in Hall.
      destruct Hx as [->|Hx], Hin as [->|Hin]; auto.
      + specialize (Hall c Hin). unfold klt in Hall. lia.
      + specialize (Hall x Hx). unfold klt in Hall. lia.
    - exfalso. apply (t_find_none t c B Ef c Hin). reflexivity.
  Qed.

  Ltac bsimp := unfold b_upd, elems; cbn [fst snd bs_b bs_itr b_tree b_len b_dtor b_freed].

  Lemma b_step_inv s o : BInv s -> BInv (fst (b_step s o)).
  Proof.
    intros [Hb Hl Hnz Hfr Hit]. destruct s as [b itr]; destruct b as [t len dt fr]. unfold elems in *. cbn in Hb, Hl, Hnz, Hfr, Hit.
    subst len. unfold Bst.b_step. cbn [bs_b bs_itr b_freed b_tree b_len b_dtor].
    destruct fr.
    { destruct o; cbn; constructor; unfold elems; cbn; auto. }
    destruct o.
    - (* insert *)
      destruct (N.eqb_spec v 0); [constructor; bsimp; auto|].
      destruct (t_find t v) eqn:Ef; [constructor; bsimp; auto|].
      destruct (t_insert_correct t v Hb Ef) as (B' & I').
      constructor; bsimp; auto.
      + rewrite t_insert_size by auto. reflexivity.
      + rewrite I'. apply Forall_forall. intros y Hy. apply l_insert_in in Hy. rewrite Forall_forall in Hnz. destruct Hy as [->|]; auto.
      + discriminate.
    - (* remove *)
      destruct (Nat.eqb (tsize t) 0 || N.eqb v 0); [constructor; bsimp; auto|].
      destruct (t_find t v) as [x|] eqn:Ef; [|constructor; bsimp; auto].
      destruct (t_find_some t v x Hb Ef) as (Hx & Hk).
      assert (Er : t_remove t v = t_remove t x).
      { clear -Hk cmp_lt cmp_eq. induction t as [|l IHl y r IHr]; [reflexivity|]. cbn [Bst.t_remove].
        pose proof (cmp_lt v y); pose proof (cmp_eq v y); pose proof (cmp_lt x y); pose proof (cmp_eq x y).
        pose proof (cmp_gt v y); pose proof (cmp_gt x y).
        destruct (Z.eqb_spec (cmp v y) 0), (Z.eqb_spec (cmp x y) 0); try lia; [reflexivity|].
        destruct (Z.ltb_spec 0 (cmp v y)), (Z.ltb_spec 0 (cmp x y)); try lia; congruence. }
      destruct (remove_elem_exact t x Hb Hx) as (I' & S'). rewrite Er.
      constructor; bsimp; auto.
      + apply t_remove_bst; auto.
      + rewrite I'. apply Forall_forall. intros y Hy. apply filter_In in Hy. rewrite Forall_forall in Hnz. apply Hnz; tauto.
      + discriminate.
    - destruct (N.eqb v 0); constructor; bsimp; auto.
    - constructor; bsimp; auto.
    - (* clear *)
      destruct (Nat.eqb (tsize t) 0); constructor; bsimp; auto; try discriminate; cbn [tsize inorder]; try lia; constructor.
    - constructor; bsimp; auto; cbn [tsize inorder]; try lia; constructor.
    - destruct ty as [|[|[|ty]]]; constructor; bsimp; auto.
    - (* itrnew *)
      destruct (Nat.eqb_spec (tsize t) 0); constructor; bsimp; auto; try discriminate.
      intros _. rewrite tmin_hd. rewrite tsize_inorder in n. destruct (inorder t) as [|c q]; [cbn in n; lia|].
      exists c. cbn; auto.
    - (* itrnext *)
      destruct itr as [i|]; [|constructor; bsimp; auto; discriminate].
      match goal with |- context [let '(c, p) := ?e in _] => destruct e as [curr prev] eqn:Ecp end.
      destruct curr as [c|]; constructor; bsimp; auto; try discriminate.
      intros _. exists c. split; [reflexivity|].
      destruct (bi_removed i); cbn [negb] in Ecp.
      + destruct (bi_prev i) as [p|]; inversion Ecp as [[E1 E2]].
        * rewrite t_succ_first_gt in E1 by auto. destruct (first_gt p (inorder t)) eqn:Eg; [|discriminate].
          inversion E1; subst. eapply first_gt_in; eauto.
        * rewrite tmin_hd in E1. destruct (inorder t); [discriminate|]. inversion E1; subst. cbn; auto.
      + destruct (bi_curr i) as [c0|]; inversion Ecp as [[E1 E2]].
        rewrite t_succ_first_gt in E1 by auto. destruct (first_gt c0 (inorder t)) eqn:Eg; [|discriminate].
        inversion E1; subst. eapply first_gt_in; eauto.
    - (* itrget *)
      destruct itr as [i|]; [destruct (bi_removed i) eqn:Er|]; constructor; bsimp; auto; try discriminate;
        try (rewrite Er; try discriminate; auto).
    - (* itrrm *)
      destruct itr as [i|]; [|constructor; bsimp; auto; discriminate].
      destruct (bi_removed i) eqn:Er; [constructor; bsimp; auto; try discriminate; rewrite Er; discriminate|].
      destruct (Hit eq_refl) as (c & Hc & Hin). rewrite Hc.
      destruct (remove_elem_exact t c Hb Hin) as (I' & S').
      constructor; bsimp; auto; try discriminate.
      + apply t_remove_bst; auto.
      + rewrite I'. apply Forall_forall. intros y Hy. apply filter_In in Hy. rewrite Forall_forall in Hnz. apply Hnz; tauto.
  Qed.

  Lemma b_init_inv dt : BInv (b_init dt).
  Proof. constructor; cbn; auto. Qed.

  Theorem b_inv_reachable dt ops : BInv (final b_step (b_init dt) ops).
  Proof. apply final_inv; [intros s o; apply b_step_inv|apply b_init_inv]. Qed.


  (* ---------- set semantics of the public operations ---------- *)

  Definition has_key (l : list N) (v : N) : Prop := exists x, In x l /\ key x = key v.

  Theorem b_set_semantics s v :
    BInv s -> b_freed (bs_b s) = false -> v <> 0%N ->
    let l := elems s in
    (* insert: accepted exactly when no element compares equal; then v joins the set *)
    (has_key l v -> snd (b_step s (BInsert v)) = [ERet (- cEEXIST)] /\ elems (fst (b_step s (BInsert v))) = l) /\
    (~ has_key l v -> snd (b_step s (BInsert v)) = [ERet 0] /\ elems (fst (b_step s (BInsert v))) = l_insert v l) /\
    (* find: exactly the element comparing equal *)
    (forall x, In x l -> key x = key v -> snd (b_step s (BFind v)) = [EPtr x]) /\
    (~ has_key l v -> snd (b_step s (BFind v)) = [EPtr 0]) /\
    (* remove: exactly that element goes, the destructor sees exactly it *)
    (forall x, In x l -> key x = key v ->
       snd (b_step s (BRemove v)) = dtor_evs (b_dtor (bs_b s)) [x] ++ [ERet 0] /\
       elems (fst (b_step s (BRemove v))) = filter (fun y => negb (N.eqb y x)) l) /\
    (~ has_key l v -> l <> [] -> snd (b_step s (BRemove v)) = [ERet (- cENOENT)] /\ elems (fst (b_step s (BRemove v))) = l) /\
    (* the size is exact *)
    snd (b_step s BLen) = [ERet (Z.of_nat (length l))].
  Proof.
    intros [Hb Hl Hnz Hfr Hit] Hnf Hv. destruct s as [b itr]; destruct b as [t len dt fr]. unfold elems in *.
    cbn in Hb, Hl, Hnz, Hfr, Hit, Hnf. subst len fr. cbn zeta.
    unfold Bst.b_step, has_key. cbn [bs_b bs_itr b_freed b_tree b_len b_dtor].
    destruct (N.eqb_spec v 0); [contradiction|].
    assert (Hfound : forall x, In x (inorder t) -> key x = key v -> t_find t v = Some x).
    { intros x Hx Hk. destruct (t_find t v) as [x'|] eqn:Ef.
      - destruct (t_find_some t v x' Hb Ef) as (Hx' & Hk'). f_equal.
        pose proof (bst_sorted t Hb) as Hs. clear -Hs Hx Hx' Hk Hk'.
        induction (inorder t) as [|a q IH]; [destruct Hx|]. inversion Hs as [|? ? Hs' Hall]; subst. rewrite Forall_forall in Hall.
        destruct Hx as [->|Hx], Hx' as [->|Hx']; auto.
        + specialize (Hall x' Hx'). unfold klt in Hall. lia.
        + specialize (Hall x Hx). unfold klt in Hall. lia.
      - exfalso. apply (t_find_none t v Hb Ef x Hx Hk). }
    assert (Hmiss : ~ (exists x, In x (inorder t) /\ key x = key v) -> t_find t v = None).
    { intros Hn. destruct (t_find t v) as [x'|] eqn:Ef; [|reflexivity].
      destruct (t_find_some t v x' Hb Ef). exfalso. eauto. }
    assert (Hlen : forall A (X Y : A), inorder t <> [] -> (if Nat.eqb (tsize t) 0 || false then X else Y) = Y).
    { intros A X Y Hne. rewrite tsize_inorder. destruct (inorder t); [congruence|reflexivity]. }
    split. { intros (x & Hx & Hk). rewrite (Hfound x Hx Hk). split; reflexivity. }
    split. { intros Hn. rewrite (Hmiss Hn). split; [reflexivity|]. bsimp. apply t_insert_correct; auto. }
    split. { intros x Hx Hk. rewrite (Hfound x Hx Hk). reflexivity. }
    split. { intros Hn. rewrite (Hmiss Hn). reflexivity. }
    split.
    { intros x Hx Hk. rewrite Hlen by (intros E; rewrite E in Hx; destruct Hx).
      rewrite (Hfound x Hx Hk). bsimp. split; [reflexivity|].
      assert (Er : t_remove t v = t_remove t x).
      { clear -Hk cmp_lt cmp_eq. induction t as [|l IHl y r IHr]; [reflexivity|]. cbn [Bst.t_remove].
        pose proof (cmp_lt v y); pose proof (cmp_eq v y); pose proof (cmp_lt x y); pose proof (cmp_eq x y).
        pose proof (cmp_gt v y); pose proof (cmp_gt x y).
        destruct (Z.eqb_spec (cmp v y) 0), (Z.eqb_spec (cmp x y) 0); try lia; [reflexivity|].
        destruct (Z.ltb_spec 0 (cmp v y)), (Z.ltb_spec 0 (cmp x y)); try lia; congruence. }
      rewrite Er. apply remove_elem_exact; auto. }
    split. { intros Hn Hne. rewrite Hlen by auto. rewrite (Hmiss Hn). split; reflexivity. }
    rewrite tsize_inorder. reflexivity.
  Qed.

  (* ---------- traversals ---------- *)
  Lemma trav_cb_all items n : trav_cb items n 0 0 = map EVisit items ++ [ERet 0].
  Proof. revert n. induction items as [|x r IH]; intros n; cbn [trav_cb map app]; [reflexivity|].
         rewrite Z.eqb_refl. cbn [negb]. rewrite andb_false_r. rewrite IH. reflexivity. Qed.

  Lemma preorder_perm t : Permutation (preorder t) (inorder t).
  Proof. induction t as [|l IHl x r IHr]; cbn; [constructor|].
         apply Permutation_cons_app. apply Permutation_app; auto. Qed.
  Lemma postorder_perm t : Permutation (postorder t) (inorder t).
  Proof. induction t as [|l IHl x r IHr]; cbn; [constructor|].
         rewrite app_assoc. apply Permutation_trans with (x :: postorder l ++ postorder r).
         - apply Permutation_sym, Permutation_cons_append.
         - apply Permutation_cons_app. apply Permutation_app; auto. Qed.

  (* in-order traversal yields every element exactly once in strictly ascending
     comparator order; pre- and post-order are the two other traversals of the
     same tree, hence permutations of it *)
  Theorem b_traversals s : BInv s -> b_freed (bs_b s) = false ->
    snd (b_step s (BTraverse 2 0 0)) = map EVisit (elems s) ++ [ERet 0] /\
    StronglySorted klt (elems s) /\ NoDup (elems s) /\
    (exists t, elems s = inorder t /\
       snd (b_step s (BTraverse 0 0 0)) = map EVisit (preorder t) ++ [ERet 0] /\
       snd (b_step s (BTraverse 1 0 0)) = map EVisit (postorder t) ++ [ERet 0] /\
       Permutation (preorder t) (inorder t) /\ Permutation (postorder t) (inorder t)).
  Proof.
    intros [Hb Hl Hnz Hfr Hit] Hnf. destruct s as [b itr]; destruct b as [t len dt fr]. unfold elems in *.
    cbn in Hb, Hnf |- *. subst fr. unfold Bst.b_step. cbn [bs_b b_freed b_tree snd].
    rewrite !trav_cb_all. split; [reflexivity|]. pose proof (bst_sorted t Hb) as Hs. split; [exact Hs|]. split.
    - clear -Hs. induction (inorder t) as [|a q IH]; [constructor|]. inversion Hs as [|? ? Hs' Hall]; subst.
      constructor; [|auto]. rewrite Forall_forall in Hall. intros Hin. specialize (Hall a Hin). unfold klt in Hall. lia.
    - exists t. repeat split; auto using preorder_perm, postorder_perm.
  Qed.

  (* ---------- complete iteration, with removal of arbitrary elements ---------- *)
  Definition last_opt (l : list N) : option N := match rev l with [] => None | x :: _ => Some x end.
  Lemma last_opt_app l x : last_opt (l ++ [x]) = Some x.
  Proof. unfold last_opt. rewrite rev_app_distr. reflexivity. Qed.

  Definition bi_script (acts : list bool) : list bop :=
    flat_map (fun rm : bool => BItrGet :: (if rm then [BItrRm] else []) ++ [BItrNext]) acts.

  Fixpoint kept_of (l : list N) (acts : list bool) : list N :=
    match l, acts with
    | x :: r, true :: a => kept_of r a
    | x :: r, false :: a => x :: kept_of r a
    | _, _ => l
    end.
  Fixpoint removed_of (l : list N) (acts : list bool) : list N :=
    match l, acts with
    | x :: r, true :: a => x :: removed_of r a
    | x :: r, false :: a => removed_of r a
    | _, _ => []
    end.
  Fixpoint bvisits (evs : list (list ev)) : list N :=
    match evs with [EPtr x] :: r => x :: bvisits r | _ :: r => bvisits r | [] => [] end.
  Fixpoint bdtors (evs : list (list ev)) : list N :=
    match evs with
    | e :: r => flat_map (fun x => match x with EDtor v => [v] | _ => [] end) e ++ bdtors r
    | [] => []
    end.

  (* state in the middle of a walk: the tree holds kept ++ c :: todo, the iterator is on c *)
  Definition BIt (t : tree) len dt (c : N) (prev : option N) (removed : bool) : bstate :=
    mkBS (mkB t len dt false) (Some (mkBI (Some c) prev removed)).

  Lemma filter_neq_mid kept c todo : StronglySorted klt (kept ++ c :: todo) ->
    filter (fun y => negb (N.eqb y c)) (kept ++ c :: todo) = kept ++ todo.
  Proof.
    intros Hs.
    assert (Hnd : forall y, In y (kept ++ todo) -> y <> c).
    { clear -Hs. induction kept as [|a k IH]; cbn in *.
      - inversion Hs; subst. rewrite Forall_forall in H2. intros y Hy E; subst. specialize (H2 c Hy). unfold klt in H2. lia.
      - inversion Hs; subst. rewrite Forall_forall in H2. intros y [->|Hy]; [|auto].
        intros ->. specialize (H2 c ltac:(apply in_app_iff; cbn; auto)). unfold klt in H2. lia. }
    rewrite filter_app. cbn [filter]. rewrite N.eqb_refl. cbn [negb].
    rewrite !filter_all; [reflexivity| |]; intros y Hy; apply negb_true_iff, N.eqb_neq; apply Hnd; apply in_app_iff; auto.
  Qed.

  Definition BEnd (t : tree) len dt : bstate := mkBS (mkB t len dt false) None.
  Definition BNext (t : tree) len dt (todo : list N) (prev : option N) : bstate :=
    match todo with [] => BEnd t len dt | c' :: _ => BIt t len dt c' prev false end.

  Lemma bi_get t len dt c prev : b_step (BIt t len dt c prev false) BItrGet = (BIt t len dt c prev false, [EPtr c]).
  Proof. reflexivity. Qed.

  Lemma bi_rm t len dt c prev :
    b_step (BIt t len dt c prev false) BItrRm = (BIt (t_remove t c) (len - 1) dt c prev true, dtor_evs dt [c] ++ [ERet 0]).
  Proof. reflexivity. Qed.

  Lemma bi_next_keep t len dt c prev kept todo : bst t -> inorder t = kept ++ c :: todo ->
    b_step (BIt t len dt c prev false) BItrNext = (BNext t len dt todo (Some c), [ERet 0]).
  Proof.
    intros Hb Hin. pose proof (bst_sorted t Hb) as Hs. rewrite Hin in Hs.
    unfold Bst.b_step, BIt. cbn [bs_b bs_itr b_freed b_tree b_len b_dtor bi_removed bi_curr bi_prev negb].
    rewrite t_succ_first_gt by auto. rewrite Hin, first_gt_split by auto.
    destruct todo; reflexivity.
  Qed.

  Lemma sorted_app_l {A} (R : A -> A -> Prop) a b : StronglySorted R (a ++ b) -> StronglySorted R a.
  Proof. induction a as [|x a IH]; cbn; [constructor|]. intros H; inversion H; subst. constructor; [auto|].
         rewrite Forall_forall in *. intros y Hy. apply H3. apply in_app_iff; auto. Qed.

  Lemma bi_next_removed t len dt c kept todo : bst t -> inorder t = kept ++ todo ->
    b_step (BIt t len dt c (last_opt kept) true) BItrNext = (BNext t len dt todo (last_opt kept), [ERet 0]).
  Proof.
    intros Hb Hin. pose proof (bst_sorted t Hb) as Hs. rewrite Hin in Hs.
    unfold Bst.b_step, BIt. cbn [bs_b bs_itr b_freed b_tree b_len b_dtor bi_removed bi_curr bi_prev negb].
    destruct (last_opt kept) as [p|] eqn:El.
    - rewrite t_succ_first_gt by auto. rewrite Hin.
      unfold last_opt in El. destruct (rev kept) as [|p' k'] eqn:Er; [discriminate|]. inversion El; subst p'.
      assert (Ek : kept = rev k' ++ [p]) by (rewrite <- (rev_involutive kept), Er; reflexivity).
      rewrite Ek in *. rewrite first_gt_last by auto. destruct todo; reflexivity.
    - unfold last_opt in El. destruct (rev kept) eqn:Er; [|discriminate].
      assert (Ek : kept = []) by (rewrite <- (rev_involutive kept), Er; reflexivity).
      rewrite tmin_hd, Hin, Ek. destruct todo; reflexivity.
  Qed.

  Lemma bi_elem t len dt c kept todo (rm : bool) : bst t -> inorder t = kept ++ c :: todo ->
    exists t' len',
      run b_step (BIt t len dt c (last_opt kept) false) (BItrGet :: (if rm then [BItrRm] else []) ++ [BItrNext]) =
      (BNext t' len' dt todo (last_opt (kept ++ (if rm then [] else [c]))),
       [EPtr c] :: (if rm then [dtor_evs dt [c] ++ [ERet 0]] else []) ++ [[ERet 0]]) /\
      bst t' /\ inorder t' = (kept ++ (if rm then [] else [c])) ++ todo.
  Proof.
    intros Hb Hin. pose proof (bst_sorted t Hb) as Hs. rewrite Hin in Hs.
    cbn [run]. rewrite bi_get. destruct rm; cbn [app run].
    - exists (t_remove t c), (len - 1). rewrite bi_rm.
      destruct (remove_elem_exact t c Hb ltac:(rewrite Hin; apply in_app_iff; cbn; auto)) as (I' & _).
      rewrite Hin, filter_neq_mid in I' by auto.
      rewrite (bi_next_removed (t_remove t c) (len - 1) dt c kept todo (t_remove_bst t c Hb) I').
      rewrite app_nil_r. repeat split; auto. apply t_remove_bst; auto.
    - exists t, len. rewrite (bi_next_keep t len dt c (last_opt kept) kept todo Hb Hin).
      rewrite last_opt_app. repeat split; auto. rewrite <- app_assoc. exact Hin.
  Qed.

  Lemma bi_loop : forall todo kept acts t len dt,
    bst t -> inorder t = kept ++ todo -> length acts = length todo ->
    let r := run b_step (BNext t len dt todo (last_opt kept)) (bi_script acts) in
    elems (fst r) = kept ++ kept_of todo acts /\
    bs_itr (fst r) = None /\
    bvisits (snd r) = todo /\
    bdtors (snd r) = (if dt then removed_of todo acts else []).
  Proof.
    induction todo as [|c todo IH]; intros kept acts t len dt Hb Hin Hlen.
    - destruct acts; [|cbn in Hlen; lia]. cbn. unfold elems; cbn. rewrite Hin. destruct dt; auto.
    - destruct acts as [|rm acts]; [cbn in Hlen; lia|]. cbn [length] in Hlen.
      cbn zeta. unfold bi_script. cbn [flat_map]. fold (bi_script acts).
      change (BNext t len dt (c :: todo) (last_opt kept)) with (BIt t len dt c (last_opt kept) false).
      rewrite (run_app b_step _ (BItrGet :: (if rm then [BItrRm] else []) ++ [BItrNext]) (bi_script acts)).
      destruct (bi_elem t len dt c kept todo rm Hb Hin) as (t' & len' & Hrun & Hb' & Hin'). rewrite Hrun.
      specialize (IH (kept ++ (if rm then [] else [c])) acts t' len' dt Hb' Hin' ltac:(lia)). cbn zeta in IH.
      destruct (run b_step _ (bi_script acts)) as [sf es]. cbn [fst snd] in *.
      destruct IH as (I1 & I2 & I3 & I4).
      split; [|split; [exact I2|split]].
      + rewrite I1. destruct rm; cbn [kept_of]; rewrite <- app_assoc; reflexivity.
      + destruct rm; cbn [app bvisits]; destruct dt; cbn [dtor_evs map app bvisits]; rewrite I3; reflexivity.
      + destruct rm; cbn [app bdtors flat_map removed_of]; destruct dt;
          cbn [dtor_evs map app bdtors flat_map]; rewrite ?I4; reflexivity.
  Qed.

  (* Walking a non-empty set to the end, removing an arbitrary subset through
     the iterator: every element is visited exactly once, in strictly ascending
     order; exactly the chosen ones are removed and destroyed; the rest stays a
     search tree. *)
  Theorem b_iterate_all dt (pre : list bop) (acts : list bool) :
    let s0 := final b_step (b_init dt) pre in
    b_freed (bs_b s0) = false -> elems s0 <> [] -> length acts = length (elems s0) ->
    let r := run b_step s0 (BItrNew :: bi_script acts) in
    BInv (fst r) /\
    elems (fst r) = kept_of (elems s0) acts /\
    bs_itr (fst r) = None /\
    bvisits (tl (snd r)) = elems s0 /\
    StronglySorted klt (elems s0) /\
    bdtors (tl (snd r)) = (if b_dtor (bs_b s0) then removed_of (elems s0) acts else []).
  Proof.
    cbn zeta. intros Hnf Hne Hlen.
    pose proof (b_inv_reachable dt pre) as Hinv.
    set (s0 := final b_step (b_init dt) pre) in *.
    assert (Hfin : BInv (fst (run b_step s0 (BItrNew :: bi_script acts)))).
    { change (fst (run b_step s0 (BItrNew :: bi_script acts))) with (final b_step s0 (BItrNew :: bi_script acts)).
      apply final_inv; [intros s o; apply b_step_inv|exact Hinv]. }
    split; [exact Hfin|]. clear Hfin.
    destruct Hinv as [Hb Hl Hnz Hfr Hit]. destruct s0 as [b itr]; destruct b as [t len d fr]. unfold elems in *.
    cbn in Hb, Hl, Hnf, Hne, Hlen. cbn [bs_b b_dtor b_tree]. subst fr len.
    destruct (inorder t) as [|c todo] eqn:Ei; [congruence|].
    assert (HR : run b_step (mkBS (mkB t (tsize t) d false) itr) (BItrNew :: bi_script acts) =
                 (fst (run b_step (BIt t (tsize t) d c None false) (bi_script acts)),
                  [EPtr 1] :: snd (run b_step (BIt t (tsize t) d c None false) (bi_script acts)))).
    { cbn [run]. unfold Bst.b_step at 1. cbn [bs_b b_freed b_len b_tree].
      rewrite tsize_inorder, Ei. cbn [length Nat.eqb]. rewrite tmin_hd, Ei. cbn [hd_error].
      unfold BIt.
      destruct (run b_step _ (bi_script acts)). reflexivity. }
    rewrite HR. cbn [fst snd tl].
    pose proof (bi_loop (c :: todo) [] acts t (tsize t) d Hb Ei Hlen) as Hloop. cbn zeta in Hloop.
    change (BNext t (tsize t) d (c :: todo) (last_opt [])) with (BIt t (tsize t) d c None false) in Hloop.
    destruct (run b_step (BIt t (tsize t) d c None false) (bi_script acts)) as [sf es]. cbn [fst snd app] in *.
    destruct Hloop as (L1 & L2 & L3 & L4).
    repeat split; auto. rewrite <- Ei. apply bst_sorted; auto.
  Qed.

End WithCmp.

(* ---------- the library's own comparator and the drivers' user comparators meet the contract ---------- *)

Lemma sgnZ_lt z : (sgnZ z < 0 <-> z < 0)%Z.
Proof. unfold sgnZ. destruct (Z.ltb_spec z 0), (Z.ltb_spec 0 z); lia. Qed.
Lemma sgnZ_eq z : (sgnZ z = 0 <-> z = 0)%Z.
Proof. unfold sgnZ. destruct (Z.ltb_spec z 0), (Z.ltb_spec 0 z); lia. Qed.

(* default pointer comparator: distinct pointers are distinct elements, ordered
   consistently however far apart they are (key = the pointer value itself) *)
Theorem ptrcmp_ok : forall a b,
  ((ptrcmp_model a b < 0)%Z <-> (Z.of_N a < Z.of_N b)%Z) /\ (ptrcmp_model a b = 0%Z <-> Z.of_N a = Z.of_N b).
Proof. intros a b. unfold ptrcmp_model. rewrite sgnZ_lt, sgnZ_eq. lia. Qed.

Theorem cmp_of_ok k : exists key, forall a b,
  ((cmp_of k a b < 0)%Z <-> (key a < key b)%Z) /\ (cmp_of k a b = 0%Z <-> key a = key b).
Proof.
  unfold cmp_of. destruct (N.eqb k 0).
  - exists Z.of_N. apply ptrcmp_ok.
  - exists (fun a => Z.of_N (a mod k)). intros a b. rewrite sgnZ_lt, sgnZ_eq. lia.
Qed.
