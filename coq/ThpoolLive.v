(* ThpoolLive.v -- C06: no deadlock.  In every reachable state in which some thread has not finished, some thread can take a
   step (for every schedule that led there).  Needs, beyond QInv/WInv: the lock is owned by a thread that is inside a critical
   section; every sleeping thread is in the sleepers list of the condition variable (no lost wake-up); once the freeing thread
   has broadcast the shutdown no worker sleeps again; a freeing thread that waits for alive == 0 is woken by the last worker. *)
From LM Require Import Base Thpool ThpoolProofs ThpoolQuiesce ThpoolWait.
From Coq Require Import Lia Arith.

Definition sleeping (th : thread) : bool := match th with TWorker WSleep | TFree FSleep => true | _ => false end.
Definition at_bcast (th : thread) : bool :=
  match th with TFree FStart | TFree FLock => false | TFree _ => true | _ => false end.     (* the shutdown flag has been set *)
Definition past_bcast (th : thread) : bool :=
  match th with TFree FStart | TFree FLock | TFree FBcast => false | TFree _ => true | _ => false end.
Definition fwaiting (th : thread) : bool := match th with TFree FWait | TFree FSleep => true | _ => false end.

Lemma sleeping_woken th : sleeping (woken th) = false. Proof. destruct th as [[]|[]|[]]; reflexivity. Qed.
Lemma woken_id th : sleeping th = false -> woken th = th. Proof. destruct th as [[]|[]|[]]; cbn; try reflexivity; discriminate. Qed.
Lemma woken_idem th : woken (woken th) = woken th. Proof. destruct th as [[]|[]|[]]; reflexivity. Qed.

(* the threads after waking the listed ones *)
Lemma wake_list_nth wk : forall ths s y, nth_error (fold_left wake wk ths) s = Some y ->
  exists x, nth_error ths s = Some x /\ ((In s wk /\ y = woken x) \/ (~ In s wk /\ y = x)).
Proof.
  induction wk as [|a wk IH]; intros ths s y H; cbn [fold_left] in H; [exists y; split; [exact H|right; split; [intros []|reflexivity]]|].
  destruct (IH _ _ _ H) as (x1 & Hx1 & Hor). unfold wake in Hx1.
  destruct (nth_error ths a) as [xa|] eqn:Ea.
  - destruct (nth_error_set_cases _ _ _ _ _ Hx1) as [(-> & -> & _)|(Hne & Hx)].
    + exists xa. split; [exact Ea|]. left. split; [left; reflexivity|]. destruct Hor as [(_ & ->)|(_ & ->)]; [apply woken_idem|reflexivity].
    + exists x1. split; [exact Hx|]. destruct Hor as [(Hin & ->)|(Hnin & ->)]; [left; split; [right; exact Hin|reflexivity]|].
      right. split; [intros [E|Hin]; [congruence|contradiction]|reflexivity].
  - exists x1. split; [exact Hx1|]. destruct Hor as [(Hin & ->)|(Hnin & ->)]; [left; split; [right; exact Hin|reflexivity]|].
    destruct (Nat.eq_dec a s) as [->|ne]; [congruence|]. right. split; [intros [E|Hin]; [congruence|contradiction]|reflexivity].
Qed.
Lemma wake_list_length wk : forall ths, length (fold_left wake wk ths) = length ths.
Proof. intros ths. exact (proj1 (Wk_wake_all wk ths)). Qed.

Record LInv (p : pool) : Prop := {
  l_holder : forall t, p_lock p = Some t -> exists th, nth_error (p_threads p) t = Some th /\ holds th = true;
  l_sleep : all_th (fun t th => sleeping th = true -> In t (p_sleepers p)) (p_threads p);
  l_sd : (exists t th, nth_error (p_threads p) t = Some th /\ at_bcast th = true) -> p_shutdown p <> SNo;
  l_nosleep : (exists t th, nth_error (p_threads p) t = Some th /\ past_bcast th = true) ->
              all_th (fun _ th => th <> TWorker WSleep /\ th <> TWorker WWait) (p_threads p);
  l_wait : all_th (fun _ th => fwaiting th = true -> 0 < p_alive p \/ exists w, nth_error (p_threads p) w = Some (TWorker WBcast)) (p_threads p);
  l_free : exists t pc, nth_error (p_threads p) t = Some (TFree pc)
}.

Lemma at_bcast_woken th : at_bcast (woken th) = at_bcast th. Proof. destruct th as [[]|[]|[]]; reflexivity. Qed.
Lemma past_bcast_woken th : past_bcast (woken th) = past_bcast th. Proof. destruct th as [[]|[]|[]]; reflexivity. Qed.

(* one thread changes its pending operation after the threads listed in wk were woken *)
Lemma linv_set p t th th' wk lock' sl' tasks' sd' alive' run' destroyed' acc' st' disc' :
  LInv p -> QInv p -> nth_error (p_threads p) t = Some th ->
  (* lock owner *)
  (forall u, lock' = Some u -> (u = t /\ holds th' = true) \/ (u <> t /\ p_lock p = Some u)) ->
  (* sleepers *)
  (sleeping th' = true -> In t sl') ->
  (forall s, s <> t -> In s (p_sleepers p) -> In s wk \/ In s sl') ->
  (* shutdown flag *)
  (at_bcast th' = true -> sd' <> SNo) -> (p_shutdown p <> SNo -> sd' <> SNo) ->
  (* nobody sleeps after the shutdown broadcast *)
  (past_bcast th' = true \/ (exists s x, s <> t /\ nth_error (p_threads p) s = Some x /\ past_bcast x = true) ->
     th' <> TWorker WSleep /\ th' <> TWorker WWait) ->
  (past_bcast th' = true -> past_bcast th = true \/
     forall s x, s <> t -> nth_error (p_threads p) s = Some x ->
       (if in_dec Nat.eq_dec s wk then woken x else x) <> TWorker WSleep /\ (if in_dec Nat.eq_dec s wk then woken x else x) <> TWorker WWait) ->
  (* a freeing thread waiting for alive == 0 will be woken *)
  (fwaiting th' = true -> 0 < alive' \/ exists w, w <> t /\ nth_error (p_threads p) w = Some (TWorker WBcast)) ->
  (forall s x, s <> t -> nth_error (p_threads p) s = Some x -> fwaiting (if in_dec Nat.eq_dec s wk then woken x else x) = true ->
     0 < alive' \/ th' = TWorker WBcast \/ exists w, w <> t /\ nth_error (p_threads p) w = Some (TWorker WBcast)) ->
  (* kinds *)
  (forall pc, th = TFree pc -> exists pc', th' = TFree pc') ->
  LInv (mkP lock' sl' tasks' sd' (p_workers p) alive' run' (p_lazy p) (p_detached p) (p_max p) (p_mode p) destroyed'
            (set_nth_th t th' (fold_left wake wk (p_threads p))) acc' st' disc' (p_touch_after_free p)).
Proof.
  intros L Q Ht C1 C2a C2b C3a C3b C4a C4b C5a C5b C6.
  set (ths1 := fold_left wake wk (p_threads p)).
  assert (Hl1 : length ths1 = length (p_threads p)) by apply wake_list_length.
  assert (Htin : t < length ths1) by (rewrite Hl1; apply nth_error_Some; congruence).
  assert (Hnew : nth_error (set_nth_th t th' ths1) t = Some th').
  { destruct (nth_error ths1 t) as [z|] eqn:Ez; [exact (nth_error_set_same ths1 t z th' Ez)|apply nth_error_None in Ez; lia]. }
  assert (Hcases : forall s y, nth_error (set_nth_th t th' ths1) s = Some y ->
            (s = t /\ y = th') \/ (s <> t /\ exists x, nth_error (p_threads p) s = Some x /\ ((In s wk /\ y = woken x) \/ (~ In s wk /\ y = x)))).
  { intros s y Hy. destruct (nth_error_set_cases _ _ _ _ _ Hy) as [(-> & -> & _)|(Hne & Hn)]; [left; auto|right; split; auto].
    exact (wake_list_nth wk _ _ _ Hn). }
  assert (Hkeep : forall s x, s <> t -> nth_error (p_threads p) s = Some x ->
            nth_error (set_nth_th t th' ths1) s = Some (if in_dec Nat.eq_dec s wk then woken x else x)).
  { intros s x Hne Hx. rewrite nth_error_set_other by auto.
    assert (Hs : s < length ths1) by (rewrite Hl1; apply nth_error_Some; congruence).
    destruct (nth_error ths1 s) as [y|] eqn:Ey; [|apply nth_error_None in Ey; lia].
    destruct (wake_list_nth wk _ _ _ Ey) as (x0 & Hx0 & Hor). rewrite Hx in Hx0. inversion Hx0; subst x0.
    destruct (in_dec Nat.eq_dec s wk); destruct Hor as [(Hin & ->)|(Hnin & ->)]; try reflexivity; contradiction. }
  constructor; cbn [p_lock p_threads p_sleepers p_shutdown p_alive].
  - intros u Hu. destruct (C1 u Hu) as [(-> & Hh)|(Hne & Hold)]; [exists th'; auto|].
    destruct (l_holder p L u Hold) as (x & Hx & Hh). rewrite (Hkeep u x Hne Hx). eexists; split; [reflexivity|].
    destruct (in_dec Nat.eq_dec u wk); [rewrite holds_woken|]; exact Hh.
  - intros s y Hy Hs. destruct (Hcases s y Hy) as [(-> & ->)|(Hne & x & Hx & Hor)]; [auto|].
    destruct Hor as [(Hin & ->)|(Hnin & ->)]; [rewrite sleeping_woken in Hs; discriminate|].
    destruct (C2b s Hne (l_sleep p L s x Hx Hs)) as [?|?]; [contradiction|assumption].
  - intros (s & y & Hy & Ha). destruct (Hcases s y Hy) as [(-> & ->)|(Hne & x & Hx & Hor)]; [auto|].
    apply C3b. apply (l_sd p L). exists s, x. split; [exact Hx|]. destruct Hor as [(_ & ->)|(_ & ->)]; [rewrite at_bcast_woken in Ha|]; exact Ha.
  - intros (s & y & Hy & Hp).
    assert (Hwho : past_bcast th' = true \/ exists s0 x0, s0 <> t /\ nth_error (p_threads p) s0 = Some x0 /\ past_bcast x0 = true).
    { destruct (Hcases s y Hy) as [(-> & ->)|(Hne & x & Hx & Hor)]; [left; exact Hp|right].
      exists s, x. repeat split; auto. destruct Hor as [(_ & ->)|(_ & ->)]; [rewrite past_bcast_woken in Hp|]; exact Hp. }
    assert (Hwok : forall x, x <> TWorker WSleep /\ x <> TWorker WWait -> woken x <> TWorker WSleep /\ woken x <> TWorker WWait).
    { intros x (H1 & H2). split; intros E; destruct x as [[]|[]|[]]; cbn in E; try discriminate; congruence. }
    assert (Hothers : forall r x, r <> t -> nth_error (p_threads p) r = Some x ->
              (if in_dec Nat.eq_dec r wk then woken x else x) <> TWorker WSleep /\ (if in_dec Nat.eq_dec r wk then woken x else x) <> TWorker WWait).
    { assert (Hold : (exists s0 x0, nth_error (p_threads p) s0 = Some x0 /\ past_bcast x0 = true) ->
                     forall r x, r <> t -> nth_error (p_threads p) r = Some x ->
                       (if in_dec Nat.eq_dec r wk then woken x else x) <> TWorker WSleep /\ (if in_dec Nat.eq_dec r wk then woken x else x) <> TWorker WWait).
      { intros He r x _ Hx. pose proof (l_nosleep p L He r x Hx) as Hx2. destruct (in_dec Nat.eq_dec r wk); [apply Hwok|]; exact Hx2. }
      destruct Hwho as [Hp'|(s0 & x0 & Hne0 & Hx0 & Hp0)].
      - destruct (C4b Hp') as [Hpt|Ho]; [|exact Ho]. apply Hold. exists t, th. auto.
      - apply Hold. exists s0, x0. auto. }
    intros r z Hz. destruct (Hcases r z Hz) as [(-> & ->)|(Hne & x & Hx & Hor)]; [exact (C4a Hwho)|].
    pose proof (Hothers r x Hne Hx) as Ho. destruct (in_dec Nat.eq_dec r wk); destruct Hor as [(Hin & ->)|(Hnin & ->)]; try exact Ho; contradiction.
  - assert (Hb : forall w, w <> t -> nth_error (p_threads p) w = Some (TWorker WBcast) -> nth_error (set_nth_th t th' ths1) w = Some (TWorker WBcast)).
    { intros w Hne Hw. rewrite (Hkeep w _ Hne Hw). destruct (in_dec Nat.eq_dec w wk); reflexivity. }
    intros s y Hy Hf. destruct (Hcases s y Hy) as [(-> & ->)|(Hne & x & Hx & Hor)].
    + destruct (C5a Hf) as [?|(w & Hne & Hw)]; [left; assumption|right; exists w; auto].
    + assert (Hy' : y = if in_dec Nat.eq_dec s wk then woken x else x).
      { destruct (in_dec Nat.eq_dec s wk); destruct Hor as [(? & ->)|(? & ->)]; try reflexivity; contradiction. }
      rewrite Hy' in Hf. destruct (C5b s x Hne Hx Hf) as [?|[->|(w & Hnw & Hw)]]; [left; assumption|right; exists t; exact Hnew|right; exists w; auto].
  - destruct (l_free p L) as (f & pc & Hf). destruct (Nat.eq_dec f t) as [->|ne].
    + rewrite Ht in Hf. inversion Hf; subst th. destruct (C6 pc eq_refl) as (pc' & ->). exists t, pc'. exact Hnew.
    + exists f. rewrite (Hkeep f _ ne Hf). destruct (in_dec Nat.eq_dec f wk); cbn; [destruct pc; cbn|]; eauto.
Qed.

Lemma linv_create p t k rest tasks' run' acc' st' disc' :
  LInv p -> nth_error (p_threads p) t = Some (TSub (SCreate k rest)) ->
  LInv (upd p (p_lock p) (p_sleepers p) tasks' (p_shutdown p) (length (p_threads p) :: p_workers p) (S (p_alive p)) run' (p_destroyed p)
            (set_nth_th t (TSub (SSignal rest)) (p_threads p) ++ [TWorker WLock]) acc' st' disc' (p_touch_after_free p)).
Proof.
  intros L Ht. set (ths := p_threads p) in *. set (ths2 := set_nth_th t (TSub (SSignal rest)) ths).
  assert (Hl2 : length ths2 = length ths) by apply set_nth_th_length.
  assert (Htl : t < length ths) by (apply nth_error_Some; unfold ths in *; congruence).
  assert (Hcases : forall s y, nth_error (ths2 ++ [TWorker WLock]) s = Some y ->
            (s = t /\ y = TSub (SSignal rest)) \/ (s <> t /\ nth_error ths s = Some y) \/ (s = length ths /\ y = TWorker WLock)).
  { intros s y Hy. destruct (Nat.lt_ge_cases s (length ths2)) as [Hlt|Hge].
    - rewrite nth_error_app1 in Hy by exact Hlt. destruct (nth_error_set_cases _ _ _ _ _ Hy) as [(-> & -> & _)|(Hne & Hn)]; auto.
    - rewrite nth_error_app2 in Hy by exact Hge. destruct (s - length ths2) as [|d] eqn:E; cbn in Hy; [|destruct d; discriminate].
      inversion Hy. right; right. split; [lia|reflexivity]. }
  assert (Hkeep : forall s x, s <> t -> nth_error ths s = Some x -> nth_error (ths2 ++ [TWorker WLock]) s = Some x).
  { intros s x Hne Hx. assert (s < length ths) by (apply nth_error_Some; congruence).
    rewrite nth_error_app1 by lia. unfold ths2. rewrite nth_error_set_other by auto. exact Hx. }
  assert (Hnew : nth_error (ths2 ++ [TWorker WLock]) t = Some (TSub (SSignal rest))).
  { rewrite nth_error_app1 by lia. exact (nth_error_set_same ths t _ _ Ht). }
  constructor; unfold upd; cbn [p_lock p_threads p_sleepers p_shutdown p_alive]; fold ths; fold ths2.
  - intros u Hu. destruct (l_holder p L u Hu) as (x & Hx & Hh). fold ths in Hx. destruct (Nat.eq_dec u t) as [->|ne].
    + eexists; split; [exact Hnew|reflexivity].
    + exists x. split; [apply Hkeep; auto|exact Hh].
  - intros s y Hy Hs. destruct (Hcases s y Hy) as [(-> & ->)|[(Hne & Hn)|(-> & ->)]]; try discriminate. exact (l_sleep p L s y Hn Hs).
  - intros (s & y & Hy & Ha). apply (l_sd p L). destruct (Hcases s y Hy) as [(-> & ->)|[(Hne & Hn)|(-> & ->)]]; try discriminate. exists s, y. auto.
  - intros (s & y & Hy & Hp).
    assert (Hold : exists s0 y0, nth_error (p_threads p) s0 = Some y0 /\ past_bcast y0 = true).
    { destruct (Hcases s y Hy) as [(-> & ->)|[(Hne & Hn)|(-> & ->)]]; try discriminate. exists s, y. auto. }
    intros r z Hz. destruct (Hcases r z Hz) as [(-> & ->)|[(Hne & Hn)|(-> & ->)]]; try (split; discriminate).
    exact (l_nosleep p L Hold r z Hn).
  - intros s y Hy Hf. left. lia.
  - destruct (l_free p L) as (f & pc & Hf). fold ths in Hf. exists f, pc. apply Hkeep; [intros ->; congruence|exact Hf].
Qed.

Lemma linv_set' p t th th' wk lock' sl' tasks' sd' alive' run' destroyed' acc' st' disc' :
  LInv p -> QInv p -> nth_error (p_threads p) t = Some th ->
  (forall u, lock' = Some u -> (u = t /\ holds th' = true) \/ (u <> t /\ p_lock p = Some u)) ->
  (sleeping th' = true -> In t sl') ->
  (forall s, s <> t -> In s (p_sleepers p) -> In s wk \/ In s sl') ->
  (at_bcast th' = true -> sd' <> SNo) -> (p_shutdown p <> SNo -> sd' <> SNo) ->
  (past_bcast th' = true \/ (exists s x, s <> t /\ nth_error (p_threads p) s = Some x /\ past_bcast x = true) ->
     th' <> TWorker WSleep /\ th' <> TWorker WWait) ->
  (past_bcast th' = true -> past_bcast th = true \/
     forall s x, s <> t -> nth_error (p_threads p) s = Some x ->
       (if in_dec Nat.eq_dec s wk then woken x else x) <> TWorker WSleep /\ (if in_dec Nat.eq_dec s wk then woken x else x) <> TWorker WWait) ->
  (fwaiting th' = true -> 0 < alive' \/ exists w, w <> t /\ nth_error (p_threads p) w = Some (TWorker WBcast)) ->
  (forall s x, s <> t -> nth_error (p_threads p) s = Some x -> fwaiting (if in_dec Nat.eq_dec s wk then woken x else x) = true ->
     0 < alive' \/ th' = TWorker WBcast \/ exists w, w <> t /\ nth_error (p_threads p) w = Some (TWorker WBcast)) ->
  (forall pc, th = TFree pc -> exists pc', th' = TFree pc') ->
  LInv (mkP lock' sl' tasks' sd' (p_workers p) alive' run' (p_lazy p) (p_detached p) (p_max p) (p_mode p) destroyed'
            (set_nth_th t th' (fold_left wake wk (p_threads p))) acc' st' disc' (p_touch_after_free p)).
Proof. exact (linv_set p t th th' wk lock' sl' tasks' sd' alive' run' destroyed' acc' st' disc'). Qed.

(* ---------- helpers for the side conditions ---------- *)
Lemma c1_same p t th th' : LInv p -> nth_error (p_threads p) t = Some th -> (holds th = true -> holds th' = true) ->
  forall u, p_lock p = Some u -> (u = t /\ holds th' = true) \/ (u <> t /\ p_lock p = Some u).
Proof.
  intros L Ht Hh u Hu. destruct (Nat.eq_dec u t) as [->|ne]; [left|right; auto].
  destruct (l_holder p L t Hu) as (x & Hx & Hhx). rewrite Ht in Hx. inversion Hx; subst. auto.
Qed.
Lemma c1_acq (p : pool) t th' : holds th' = true -> forall u, Some t = Some u -> (u = t /\ holds th' = true) \/ (u <> t /\ p_lock p = Some u).
Proof. intros Hh u E. inversion E; subst. left; auto. Qed.
Lemma c1_rel (p : pool) t th' : forall u, None = Some u -> (u = t /\ holds th' = true) \/ (u <> t /\ p_lock p = Some u).
Proof. intros u E; discriminate. Qed.

Lemma c3_keep p t th : LInv p -> nth_error (p_threads p) t = Some th -> at_bcast th = true -> p_shutdown p <> SNo.
Proof. intros L Ht Ha. apply (l_sd p L). exists t, th. auto. Qed.

Lemma fwaiting_after wk s x : fwaiting (if in_dec Nat.eq_dec s wk then woken x else x) = true -> fwaiting x = true.
Proof. destruct (in_dec Nat.eq_dec s wk); [|auto]. destruct x as [[]|[]|[]]; cbn; auto. Qed.

Lemma c5b_same p t th th' wk alive' : LInv p -> nth_error (p_threads p) t = Some th -> th <> TWorker WBcast -> p_alive p <= alive' ->
  forall s x, s <> t -> nth_error (p_threads p) s = Some x -> fwaiting (if in_dec Nat.eq_dec s wk then woken x else x) = true ->
    0 < alive' \/ th' = TWorker WBcast \/ exists w, w <> t /\ nth_error (p_threads p) w = Some (TWorker WBcast).
Proof.
  intros L Ht Hnb Ha s x Hne Hx Hf. apply fwaiting_after in Hf.
  destruct (l_wait p L s x Hx Hf) as [Hpos|(w & Hw)]; [left; lia|right; right]. exists w. split; [intros ->; congruence|exact Hw].
Qed.

Lemma c4a_nopast p t th th' : LInv p -> nth_error (p_threads p) t = Some th -> past_bcast th' = false ->
  (p_shutdown p = SNo \/ (th' <> TWorker WSleep /\ th' <> TWorker WWait) \/ th = TWorker WWait) ->
  past_bcast th' = true \/ (exists s x, s <> t /\ nth_error (p_threads p) s = Some x /\ past_bcast x = true) ->
  th' <> TWorker WSleep /\ th' <> TWorker WWait.
Proof.
  intros L Ht Hp Hor [E|(s & x & Hne & Hx & Hpx)]; [congruence|].
  destruct Hor as [Hsd|[Hok|Hw]]; [|exact Hok|].
  - exfalso. apply (l_sd p L); [|exact Hsd]. exists s, x. split; [exact Hx|]. destruct x as [[]|[]|[]]; cbn in Hpx |- *; try discriminate; reflexivity.
  - exfalso. subst th. destruct (l_nosleep p L (ex_intro _ s (ex_intro _ x (conj Hx Hpx))) t _ Ht) as (_ & H). congruence.
Qed.

Ltac lfields := cbn [p_lock p_sleepers p_tasks p_shutdown p_workers p_alive p_running p_lazy p_detached p_max p_mode p_destroyed
                      p_threads p_accepted p_started p_discarded p_touch_after_free].
Ltac lnorm := unfold worker_decide, sub_decide, freer_decide, with_pc, with_lock, with_sleepers, wake_all, upd; lfields.

Theorem step_linv p ch : QInv p -> WInv p -> LInv p -> LInv (step p ch).
Proof.
  intros Q W L. destruct ch as [t sp]. unfold step.
  destruct (nth_error (p_threads p) t) as [th|] eqn:Ht; [|exact L].
  assert (T2b_same : forall s : tid, s <> t -> In s (p_sleepers p) -> In s [] \/ In s (p_sleepers p)) by (intros; right; assumption).
  destruct th as [pc|pc|pc].
  - (* ------------------------------------------------ worker *)
    assert (Hnd : pc <> WDone -> touch p = p).
    { intros Hpc. apply touch_id. apply (active_not_destroyed p t _ Q Ht). destruct pc; try reflexivity. congruence. }
    assert (Hacq : forall pc0, (pc0 = WLock \/ pc0 = WRelock) -> nth_error (p_threads p) t = Some (TWorker pc0) ->
              LInv (worker_decide (with_lock p (Some t)) t)).
    { intros pc0 Hpc0 Ht0. pose proof (alive_pos p t _ Q Ht0 ltac:(destruct Hpc0 as [->| ->]; reflexivity)) as Hap. lnorm.
      destruct (p_tasks p) as [|k rest] eqn:Etasks; destruct (p_shutdown p) eqn:Esd; cbn [fst snd];
        (eapply (linv_set' p t (TWorker pc0) _ []); [exact L|exact Q|exact Ht0|..]); rewrite ?Esd.
      all: try (apply c1_acq; reflexivity).
      all: try (cbn; discriminate).
      all: try exact T2b_same.
      all: try (intros H; exact H).
      all: try (apply (c4a_nopast p t _ _ L Ht0); [reflexivity|first [left; exact Esd|right; left; split; discriminate]]).
      all: try (apply (c5b_same p t _ _ _ _ L Ht0); [destruct Hpc0 as [->| ->]; discriminate|lia]).
      all: try (intros pc1 E; destruct Hpc0 as [->| ->]; discriminate E).
      (* the quitting branches: alive - 1, th' = WBcast *)
      all: try (intros s x _ _ _; right; left; reflexivity). }
    destruct pc.
    + destruct (enabled_lock p); [|exact L]. rewrite Hnd by discriminate. apply (Hacq WLock); auto.
    + (* WWait -> WSleep *) rewrite Hnd by discriminate. lnorm.
      eapply (linv_set' p t (TWorker WWait) _ []); [exact L|exact Q|exact Ht|..].
      * apply c1_rel.
      * intros _. apply in_or_app. right. left. reflexivity.
      * intros s _ Hin. right. apply in_or_app. left. exact Hin.
      * cbn; discriminate.
      * intros H; exact H.
      * apply (c4a_nopast p t _ _ L Ht); [reflexivity|right; right; reflexivity].
      * cbn; discriminate.
      * cbn; discriminate.
      * apply (c5b_same p t _ _ _ _ L Ht); [discriminate|lia].
      * intros pc1 E; discriminate E.
    + (* WSleep, spurious wake-up *) destruct sp; [|exact L]. lnorm.
      eapply (linv_set' p t (TWorker WSleep) _ []); [exact L|exact Q|exact Ht|..].
      * apply (c1_same p t _ _ L Ht). cbn; auto.
      * cbn; discriminate.
      * intros s Hne Hin. right. apply filter_In. split; [exact Hin|]. destruct (Nat.eqb_spec s t); [contradiction|reflexivity].
      * cbn; discriminate.
      * intros H; exact H.
      * apply (c4a_nopast p t _ _ L Ht); [reflexivity|right; left; split; discriminate].
      * cbn; discriminate.
      * cbn; discriminate.
      * apply (c5b_same p t _ _ _ _ L Ht); [discriminate|lia].
      * intros pc1 E; discriminate E.
    + destruct (enabled_lock p); [|exact L]. rewrite Hnd by discriminate. apply (Hacq WRelock); auto.
    + (* WUnlockRun *) rewrite Hnd by discriminate. lnorm.
      eapply (linv_set' p t (TWorker (WUnlockRun k)) _ []); [exact L|exact Q|exact Ht|..].
      * apply c1_rel.
      * cbn; discriminate.
      * exact T2b_same.
      * cbn; discriminate.
      * intros H; exact H.
      * apply (c4a_nopast p t _ _ L Ht); [reflexivity|right; left; split; discriminate].
      * cbn; discriminate.
      * cbn; discriminate.
      * apply (c5b_same p t _ _ _ _ L Ht); [discriminate|lia].
      * intros pc1 E; discriminate E.
    + (* WTask *) rewrite Hnd by discriminate. lnorm.
      eapply (linv_set' p t (TWorker (WTask k)) _ []); [exact L|exact Q|exact Ht|..].
      * apply (c1_same p t _ _ L Ht). cbn; auto.
      * cbn; discriminate.
      * exact T2b_same.
      * cbn; discriminate.
      * intros H; exact H.
      * apply (c4a_nopast p t _ _ L Ht); [reflexivity|right; left; split; discriminate].
      * cbn; discriminate.
      * cbn; discriminate.
      * apply (c5b_same p t _ _ _ _ L Ht); [discriminate|lia].
      * intros pc1 E; discriminate E.
    + (* WBcast: wakes every sleeper *) rewrite Hnd by discriminate. lnorm.
      eapply (linv_set' p t (TWorker WBcast) _ (p_sleepers p)); [exact L|exact Q|exact Ht|..].
      * apply (c1_same p t _ _ L Ht). cbn; auto.
      * cbn; discriminate.
      * intros s _ Hin. left. exact Hin.
      * cbn; discriminate.
      * intros H; exact H.
      * apply (c4a_nopast p t _ _ L Ht); [reflexivity|right; left; split; discriminate].
      * cbn; discriminate.
      * cbn; discriminate.
      * (* a waiting freer was in the sleepers list, hence woken; one about to wait would hold the lock *)
        intros s x Hne Hx Hf. exfalso. pose proof (q_lock p Q t _ Ht eq_refl) as Hlt.
        destruct (in_dec Nat.eq_dec s (p_sleepers p)) as [Hin|Hnin].
        -- destruct x as [[]|[]|[]]; cbn in Hf; try discriminate. pose proof (q_lock p Q s _ Hx eq_refl). congruence.
        -- destruct x as [[]|[]|[]]; cbn in Hf; try discriminate.
           ++ pose proof (q_lock p Q s _ Hx eq_refl). congruence.
           ++ apply Hnin. exact (l_sleep p L s _ Hx eq_refl).
      * intros pc1 E; discriminate E.
    + (* WUnlockExit *) rewrite Hnd by discriminate. lnorm.
      eapply (linv_set' p t (TWorker WUnlockExit) _ []); [exact L|exact Q|exact Ht|..].
      * apply c1_rel.
      * cbn; discriminate.
      * exact T2b_same.
      * cbn; discriminate.
      * intros H; exact H.
      * apply (c4a_nopast p t _ _ L Ht); [reflexivity|right; left; split; discriminate].
      * cbn; discriminate.
      * cbn; discriminate.
      * apply (c5b_same p t _ _ _ _ L Ht); [discriminate|lia].
      * intros pc1 E; discriminate E.
    + exact L.
  - (* ------------------------------------------------ submitter *)
    destruct pc as [[|k rest]|k rest|rest|rest|].
    + lnorm. eapply (linv_set' p t (TSub (SLock [])) _ []); [exact L|exact Q|exact Ht|..].
      * apply (c1_same p t _ _ L Ht). cbn; auto.
      * cbn; discriminate.
      * exact T2b_same.
      * cbn; discriminate.
      * intros H; exact H.
      * apply (c4a_nopast p t _ _ L Ht); [reflexivity|right; left; split; discriminate].
      * cbn; discriminate.
      * cbn; discriminate.
      * apply (c5b_same p t _ _ _ _ L Ht); [discriminate|lia].
      * intros pc1 E; discriminate E.
    + destruct (enabled_lock p); [|exact L].
      rewrite (touch_id p) by (apply (active_not_destroyed p t _ Q Ht); reflexivity). lnorm.
      destruct (p_lazy p && negb (p_running p <? length (p_workers p)) && (length (p_workers p) <? p_max p));
        (eapply (linv_set' p t (TSub (SLock (k :: rest))) _ []); [exact L|exact Q|exact Ht|..]).
      all: try (apply c1_acq; reflexivity).
      all: try (cbn; discriminate).
      all: try exact T2b_same.
      all: try (intros H; exact H).
      all: try (apply (c4a_nopast p t _ _ L Ht); [reflexivity|right; left; split; discriminate]).
      all: try (apply (c5b_same p t _ _ _ _ L Ht); [discriminate|lia]).
      all: try (intros pc1 E; discriminate E).
    + lnorm. exact (linv_create p t k rest _ _ _ _ _ L Ht).
    + destruct (p_sleepers p) as [|s0 others] eqn:Esl; lnorm.
      * eapply (linv_set' p t (TSub (SSignal rest)) _ []); [exact L|exact Q|exact Ht|..].
        -- apply (c1_same p t _ _ L Ht). cbn; auto.
        -- cbn; discriminate.
        -- rewrite Esl. intros s _ [].
        -- cbn; discriminate.
        -- intros H; exact H.
        -- apply (c4a_nopast p t _ _ L Ht); [reflexivity|right; left; split; discriminate].
        -- cbn; discriminate.
        -- cbn; discriminate.
        -- apply (c5b_same p t _ _ _ _ L Ht); [discriminate|lia].
        -- intros pc1 E; discriminate E.
      * eapply (linv_set' p t (TSub (SSignal rest)) _ [s0]); [exact L|exact Q|exact Ht|..].
        -- apply (c1_same p t _ _ L Ht). cbn; auto.
        -- cbn; discriminate.
        -- rewrite Esl. intros s _ [->|Hin]; [left; left; reflexivity|right; exact Hin].
        -- cbn; discriminate.
        -- intros H; exact H.
        -- apply (c4a_nopast p t _ _ L Ht); [reflexivity|right; left; split; discriminate].
        -- cbn; discriminate.
        -- cbn; discriminate.
        -- apply (c5b_same p t _ _ _ _ L Ht); [discriminate|lia].
        -- intros pc1 E; discriminate E.
    + lnorm. eapply (linv_set' p t (TSub (SUnlock rest)) _ []); [exact L|exact Q|exact Ht|..].
      * apply c1_rel.
      * cbn; discriminate.
      * exact T2b_same.
      * cbn; discriminate.
      * intros H; exact H.
      * apply (c4a_nopast p t _ _ L Ht); [reflexivity|right; left; split; discriminate].
      * cbn; discriminate.
      * cbn; discriminate.
      * apply (c5b_same p t _ _ _ _ L Ht); [discriminate|lia].
      * intros pc1 E; discriminate E.
    + exact L.
  - (* ------------------------------------------------ freeing thread *)
    assert (Hfree_ok : forall pc', TFree pc' <> TWorker WSleep /\ TFree pc' <> TWorker WWait) by (intros; split; discriminate).
    destruct pc as [ | | | |ws| | | | | | | ].
    + (* FStart *) destruct (all_subs_done p); [|exact L]. lnorm.
      eapply (linv_set' p t (TFree FStart) _ []); [exact L|exact Q|exact Ht|..].
      * apply (c1_same p t _ _ L Ht). cbn; auto.
      * cbn; discriminate.
      * exact T2b_same.
      * cbn; discriminate.
      * intros H; exact H.
      * intros _. apply Hfree_ok.
      * cbn; discriminate.
      * cbn; discriminate.
      * apply (c5b_same p t _ _ _ _ L Ht); [discriminate|lia].
      * intros pc1 E; eauto.
    + (* FLock *) destruct (enabled_lock p); [|exact L]. lnorm.
      eapply (linv_set' p t (TFree FLock) _ []); [exact L|exact Q|exact Ht|..].
      * apply c1_acq; reflexivity.
      * cbn; discriminate.
      * exact T2b_same.
      * intros _. destruct (p_mode p); discriminate.
      * intros _. destruct (p_mode p); discriminate.
      * intros _. apply Hfree_ok.
      * cbn; discriminate.
      * cbn; discriminate.
      * apply (c5b_same p t _ _ _ _ L Ht); [discriminate|lia].
      * intros pc1 E; eauto.
    + (* FBcast *) lnorm.
      eapply (linv_set' p t (TFree FBcast) _ (p_sleepers p)); [exact L|exact Q|exact Ht|..].
      * apply (c1_same p t _ _ L Ht). cbn; auto.
      * cbn; discriminate.
      * intros s _ Hin. left. exact Hin.
      * intros _. apply (c3_keep p t _ L Ht). reflexivity.
      * intros H; exact H.
      * intros _. apply Hfree_ok.
      * intros _. right. intros s x Hne Hx. pose proof (q_lock p Q t _ Ht eq_refl) as Hlt.
        destruct (in_dec Nat.eq_dec s (p_sleepers p)) as [Hin|Hnin].
        -- split; intros E; destruct x as [[]|[]|[]]; cbn in E; try discriminate.
           pose proof (q_lock p Q s _ Hx eq_refl). congruence.
        -- split; intros E; subst x; [apply Hnin; exact (l_sleep p L s _ Hx eq_refl)|pose proof (q_lock p Q s _ Hx eq_refl); congruence].
      * cbn; discriminate.
      * apply (c5b_same p t _ _ _ _ L Ht); [discriminate|lia].
      * intros pc1 E; eauto.
    + (* FUnlock *) lnorm.
      match goal with |- LInv (mkP _ _ _ _ _ _ _ _ _ _ _ _ (set_nth_th t ?x _) _ _ _ _) => set (th' := x) end.
      assert (Hth' : exists pc', th' = TFree pc' /\ past_bcast (TFree pc') = true /\ holds (TFree pc') = false /\ sleeping (TFree pc') = false /\ fwaiting (TFree pc') = false).
      { unfold th'. destruct (p_detached p); [eexists; repeat split; reflexivity|]. destruct (p_workers p); eexists; repeat split; reflexivity. }
      clearbody th'. destruct Hth' as (pc' & -> & Hpb & Hho & Hsl & Hfw).
      eapply (linv_set' p t (TFree FUnlock) _ []); [exact L|exact Q|exact Ht|..].
      * apply c1_rel.
      * rewrite Hsl; discriminate.
      * exact T2b_same.
      * intros _. apply (c3_keep p t _ L Ht). reflexivity.
      * intros H; exact H.
      * intros _. apply Hfree_ok.
      * intros _. left. reflexivity.
      * rewrite Hfw; discriminate.
      * apply (c5b_same p t _ _ _ _ L Ht); [discriminate|lia].
      * intros pc1 E; eauto.
    + (* FJoin *) destruct ws as [|w ws].
      * lnorm. eapply (linv_set' p t (TFree (FJoin [])) _ []); [exact L|exact Q|exact Ht|..].
        -- apply (c1_same p t _ _ L Ht). cbn; auto.
        -- cbn; discriminate.
        -- exact T2b_same.
        -- intros _. apply (c3_keep p t _ L Ht). reflexivity.
        -- intros H; exact H.
        -- intros _. apply Hfree_ok.
        -- intros _. left. reflexivity.
        -- cbn; discriminate.
        -- apply (c5b_same p t _ _ _ _ L Ht); [discriminate|lia].
        -- intros pc1 E; eauto.
      * destruct (worker_done p w); [|exact L]. lnorm.
        match goal with |- LInv (mkP _ _ _ _ _ _ _ _ _ _ _ _ (set_nth_th t ?x _) _ _ _ _) => set (th' := x) end.
        assert (Hth' : exists pc', th' = TFree pc' /\ holds (TFree pc') = false /\ sleeping (TFree pc') = false /\ fwaiting (TFree pc') = false).
        { unfold th'. destruct ws; eexists; repeat split; reflexivity. }
        clearbody th'. destruct Hth' as (pc' & -> & Hho & Hsl & Hfw).
        eapply (linv_set' p t (TFree (FJoin (w :: ws))) _ []); [exact L|exact Q|exact Ht|..].
        -- apply (c1_same p t _ _ L Ht). cbn; discriminate.
        -- rewrite Hsl; discriminate.
        -- exact T2b_same.
        -- intros _. apply (c3_keep p t _ L Ht). reflexivity.
        -- intros H; exact H.
        -- intros _. apply Hfree_ok.
        -- intros _. left. reflexivity.
        -- rewrite Hfw; discriminate.
        -- apply (c5b_same p t _ _ _ _ L Ht); [discriminate|lia].
        -- intros pc1 E; eauto.
    + (* FLock2 *) destruct (enabled_lock p); [|exact L]. lnorm.
      destruct (Nat.eqb_spec (p_alive p) 0) as [H0|H0]; lnorm;
        (eapply (linv_set' p t (TFree FLock2) _ []); [exact L|exact Q|exact Ht|..]).
      all: try (apply c1_acq; reflexivity).
      all: try (cbn; discriminate).
      all: try exact T2b_same.
      all: try (intros _; apply (c3_keep p t _ L Ht); reflexivity).
      all: try (intros H; exact H).
      all: try (intros _; apply Hfree_ok).
      all: try (intros _; left; reflexivity).
      all: try (apply (c5b_same p t _ _ _ _ L Ht); [discriminate|lia]).
      all: try (intros pc1 E; eauto; fail).
      all: try (intros _; left; lia).
    + (* FWait *) lnorm.
      eapply (linv_set' p t (TFree FWait) _ []); [exact L|exact Q|exact Ht|..].
      * apply c1_rel.
      * intros _. apply in_or_app. right. left. reflexivity.
      * intros s _ Hin. right. apply in_or_app. left. exact Hin.
      * intros _. apply (c3_keep p t _ L Ht). reflexivity.
      * intros H; exact H.
      * intros _. apply Hfree_ok.
      * intros _. left. reflexivity.
      * intros _. destruct (l_wait p L t _ Ht eq_refl) as [?|(w & Hw)]; [left; assumption|right]. exists w. split; [intros ->; congruence|exact Hw].
      * apply (c5b_same p t _ _ _ _ L Ht); [discriminate|lia].
      * intros pc1 E; eauto.
    + (* FSleep *) destruct sp; [|exact L]. lnorm.
      eapply (linv_set' p t (TFree FSleep) _ []); [exact L|exact Q|exact Ht|..].
      * apply (c1_same p t _ _ L Ht). cbn; auto.
      * cbn; discriminate.
      * intros s Hne Hin. right. apply filter_In. split; [exact Hin|]. destruct (Nat.eqb_spec s t); [contradiction|reflexivity].
      * intros _. apply (c3_keep p t _ L Ht). reflexivity.
      * intros H; exact H.
      * intros _. apply Hfree_ok.
      * intros _. left. reflexivity.
      * cbn; discriminate.
      * apply (c5b_same p t _ _ _ _ L Ht); [discriminate|lia].
      * intros pc1 E; eauto.
    + (* FRelock *) destruct (enabled_lock p); [|exact L]. lnorm.
      destruct (Nat.eqb_spec (p_alive p) 0) as [H0|H0]; lnorm;
        (eapply (linv_set' p t (TFree FRelock) _ []); [exact L|exact Q|exact Ht|..]).
      all: try (apply c1_acq; reflexivity).
      all: try (cbn; discriminate).
      all: try exact T2b_same.
      all: try (intros _; apply (c3_keep p t _ L Ht); reflexivity).
      all: try (intros H; exact H).
      all: try (intros _; apply Hfree_ok).
      all: try (intros _; left; reflexivity).
      all: try (apply (c5b_same p t _ _ _ _ L Ht); [discriminate|lia]).
      all: try (intros pc1 E; eauto; fail).
      all: try (intros _; left; lia).
    + (* FUnlock2 *) lnorm.
      eapply (linv_set' p t (TFree FUnlock2) _ []); [exact L|exact Q|exact Ht|..].
      * apply c1_rel.
      * cbn; discriminate.
      * exact T2b_same.
      * intros _. apply (c3_keep p t _ L Ht). reflexivity.
      * intros H; exact H.
      * intros _. apply Hfree_ok.
      * intros _. left. reflexivity.
      * cbn; discriminate.
      * apply (c5b_same p t _ _ _ _ L Ht); [discriminate|lia].
      * intros pc1 E; eauto.
    + (* FFree *) lnorm.
      eapply (linv_set' p t (TFree FFree) _ []); [exact L|exact Q|exact Ht|..].
      * apply (c1_same p t _ _ L Ht). cbn; auto.
      * cbn; discriminate.
      * exact T2b_same.
      * intros _. apply (c3_keep p t _ L Ht). reflexivity.
      * intros H; exact H.
      * intros _. apply Hfree_ok.
      * intros _. left. reflexivity.
      * cbn; discriminate.
      * apply (c5b_same p t _ _ _ _ L Ht); [discriminate|lia].
      * intros pc1 E; eauto.
    + exact L.
Qed.

(* ---------- the workers a freeing thread still has to join are workers ---------- *)
Definition JInv (p : pool) : Prop :=
  all_th (fun _ th => forall ws, th = TFree (FJoin ws) -> incl ws (p_workers p)) (p_threads p).

Lemma jinv_set p t th th' wk lock' sl' tasks' sd' alive' run' destroyed' acc' st' disc' :
  JInv p -> nth_error (p_threads p) t = Some th ->
  (forall ws, th' = TFree (FJoin ws) -> incl ws (p_workers p)) ->
  JInv (mkP lock' sl' tasks' sd' (p_workers p) alive' run' (p_lazy p) (p_detached p) (p_max p) (p_mode p) destroyed'
            (set_nth_th t th' (fold_left wake wk (p_threads p))) acc' st' disc' (p_touch_after_free p)).
Proof.
  intros J Ht C s y Hy ws ->. cbn [p_threads p_workers] in *.
  destruct (nth_error_set_cases _ _ _ _ _ Hy) as [(-> & E & _)|(Hne & Hn)]; [exact (C ws (eq_sym E))|].
  destruct (wake_list_nth wk _ _ _ Hn) as (x & Hx & Hor).
  assert (x = TFree (FJoin ws)) by (destruct Hor as [(_ & E)|(_ & E)]; [destruct x as [[]|[]|[]]; cbn in E; try discriminate; congruence|congruence]).
  exact (J s x Hx ws H).
Qed.
Lemma jinv_set0 p t th th' lock' sl' tasks' sd' alive' run' destroyed' acc' st' disc' :
  JInv p -> nth_error (p_threads p) t = Some th ->
  (forall ws, th' = TFree (FJoin ws) -> incl ws (p_workers p)) ->
  JInv (mkP lock' sl' tasks' sd' (p_workers p) alive' run' (p_lazy p) (p_detached p) (p_max p) (p_mode p) destroyed'
            (set_nth_th t th' (p_threads p)) acc' st' disc' (p_touch_after_free p)).
Proof. exact (jinv_set p t th th' [] lock' sl' tasks' sd' alive' run' destroyed' acc' st' disc'). Qed.

Theorem step_jinv p ch : QInv p -> JInv p -> JInv (step p ch).
Proof.
  intros Q J. destruct ch as [t sp]. unfold step.
  destruct (nth_error (p_threads p) t) as [th|] eqn:Ht; [|exact J].
  destruct th as [pc|pc|pc].
  - assert (Hnd : pc <> WDone -> touch p = p).
    { intros Hpc. apply touch_id. apply (active_not_destroyed p t _ Q Ht). destruct pc; try reflexivity. congruence. }
    destruct pc; try exact J; try (destruct (enabled_lock p); [|exact J]); try (destruct sp; [|exact J]);
      rewrite ?Hnd by discriminate; lnorm;
      repeat match goal with |- context [match ?x with _ => _ end] => destruct x end; lfields;
      first [eapply jinv_set0; [exact J|exact Ht|intros ws E; discriminate E]
            |eapply (jinv_set p t _ _ (p_sleepers p)); [exact J|exact Ht|intros ws E; discriminate E]].
  - destruct pc as [[|k rest]|k rest|rest|rest|]; try exact J.
    + lnorm. eapply jinv_set0; [exact J|exact Ht|intros ws E; discriminate E].
    + destruct (enabled_lock p); [|exact J]. rewrite (touch_id p) by (apply (active_not_destroyed p t _ Q Ht); reflexivity). lnorm.
      destruct (p_lazy p && negb (p_running p <? length (p_workers p)) && (length (p_workers p) <? p_max p));
        (eapply jinv_set0; [exact J|exact Ht|intros ws E; discriminate E]).
    + (* SCreate: one more worker, one more thread *)
      lnorm. intros s y Hy ws ->. cbn [p_threads p_workers] in *.
      assert (Hin : exists x, nth_error (p_threads p) s = Some x /\ x = TFree (FJoin ws)).
      { destruct (Nat.lt_ge_cases s (length (set_nth_th t (TSub (SSignal rest)) (p_threads p)))) as [Hlt|Hge].
        - rewrite nth_error_app1 in Hy by exact Hlt. destruct (nth_error_set_cases _ _ _ _ _ Hy) as [(_ & E & _)|(_ & Hn)]; [discriminate|eauto].
        - rewrite nth_error_app2 in Hy by exact Hge. destruct (s - _) as [|[|d]]; cbn in Hy; discriminate. }
      destruct Hin as (x & Hx & ->). intros w Hw. right. exact (J s _ Hx ws eq_refl w Hw).
    + destruct (p_sleepers p) as [|s0 others]; lnorm.
      * eapply jinv_set0; [exact J|exact Ht|intros ws E; discriminate E].
      * eapply (jinv_set p t _ _ [s0]); [exact J|exact Ht|intros ws E; discriminate E].
    + lnorm. eapply jinv_set0; [exact J|exact Ht|intros ws E; discriminate E].
  - destruct pc as [ | | | |ws0| | | | | | | ]; try exact J.
    + destruct (all_subs_done p); [|exact J]. lnorm. eapply jinv_set0; [exact J|exact Ht|intros ws E; discriminate E].
    + destruct (enabled_lock p); [|exact J]. lnorm. eapply jinv_set0; [exact J|exact Ht|intros ws E; discriminate E].
    + lnorm. eapply (jinv_set p t _ _ (p_sleepers p)); [exact J|exact Ht|intros ws E; discriminate E].
    + lnorm. eapply jinv_set0; [exact J|exact Ht|].
      intros ws E. destruct (p_detached p); [discriminate E|]. destruct (p_workers p) eqn:Ew; [discriminate E|]. inversion E. apply incl_refl.
    + destruct ws0 as [|w ws1].
      * lnorm. eapply jinv_set0; [exact J|exact Ht|intros ws E; discriminate E].
      * destruct (worker_done p w); [|exact J]. lnorm. eapply jinv_set0; [exact J|exact Ht|].
        intros ws E. destruct ws1 as [|w2 ws2]; [discriminate E|]. inversion E; subst ws.
        intros x Hx. apply (J t _ Ht (w :: w2 :: ws2) eq_refl). right. exact Hx.
    + destruct (enabled_lock p); [|exact J]. lnorm. destruct (Nat.eqb (p_alive p) 0); lnorm; (eapply jinv_set0; [exact J|exact Ht|intros ws E; discriminate E]).
    + lnorm. eapply jinv_set0; [exact J|exact Ht|intros ws E; discriminate E].
    + destruct sp; [|exact J]. lnorm. eapply jinv_set0; [exact J|exact Ht|intros ws E; discriminate E].
    + destruct (enabled_lock p); [|exact J]. lnorm. destruct (Nat.eqb (p_alive p) 0); lnorm; (eapply jinv_set0; [exact J|exact Ht|intros ws E; discriminate E]).
    + lnorm. eapply jinv_set0; [exact J|exact Ht|intros ws E; discriminate E].
    + lnorm. eapply jinv_set0; [exact J|exact Ht|intros ws E; discriminate E].
Qed.

(* ---------- initial states and runs ---------- *)
Theorem init_linv lazy det mx md subs : LInv (init lazy det mx md subs).
Proof.
  assert (Hth : forall t th, nth_error (p_threads (init lazy det mx md subs)) t = Some th ->
            holds th = false /\ sleeping th = false /\ at_bcast th = false /\ past_bcast th = false /\ fwaiting th = false).
  { intros t th H. destruct (init_thread_cases _ _ _ _ _ _ _ H) as [(_ & ->)|[(l & ->)| ->]]; repeat split; reflexivity. }
  constructor.
  - intros t E. discriminate E.
  - intros t th H Hs. destruct (Hth t th H) as (_ & E & _). congruence.
  - intros (t & th & H & Ha). destruct (Hth t th H) as (_ & _ & E & _). congruence.
  - intros (t & th & H & Ha). destruct (Hth t th H) as (_ & _ & _ & E & _). congruence.
  - intros t th H Hf. destruct (Hth t th H) as (_ & _ & _ & _ & E). congruence.
  - unfold init; cbn [p_threads]. set (nw := if lazy then 0 else mx).
    exists (nw + length subs), FStart. rewrite nth_error_app2 by (rewrite repeat_length; lia). rewrite repeat_length.
    rewrite nth_error_app2 by (rewrite map_length; lia). rewrite map_length. replace (nw + length subs - nw - length subs) with 0 by lia. reflexivity.
Qed.
Theorem init_jinv lazy det mx md subs : JInv (init lazy det mx md subs).
Proof. intros t th H ws ->. destruct (init_thread_cases _ _ _ _ _ _ _ H) as [(_ & E)|[(l & E)|E]]; discriminate E. Qed.

Lemma run_all sched : forall p, QInv p -> WInv p -> LInv p -> JInv p ->
  QInv (run_sched p sched) /\ WInv (run_sched p sched) /\ LInv (run_sched p sched) /\ JInv (run_sched p sched).
Proof.
  induction sched as [|ch r IH]; intros p Q W L J; [auto|]. cbn [run_sched fold_left].
  apply IH; [apply step_qinv; exact Q|apply step_winv; assumption|apply step_linv; assumption|apply step_jinv; assumption].
Qed.

(* ---------- a step that changes the program counter of its thread changes the pool ---------- *)
Lemma nth_set_here t x (l : list thread) : t < length l -> nth_error (set_nth_th t x l) t = Some x.
Proof. intros H. destruct (nth_error l t) as [z|] eqn:E; [exact (nth_error_set_same l t z x E)|apply nth_error_None in E; lia]. Qed.

Definition moves (p : pool) (t : tid) (th2 : thread) : Prop := nth_error (p_threads (step p (t, false))) t = Some th2.
Lemma moves_changes p t th th2 : nth_error (p_threads p) t = Some th -> moves p t th2 -> th2 <> th -> step p (t, false) <> p.
Proof. intros Ht Hm Hne E. unfold moves in Hm. assert (nth_error (p_threads p) t = Some th2) by (rewrite <- E at 1; exact Hm). congruence. Qed.

Ltac here Ht := apply nth_set_here; rewrite ?wake_list_length; apply nth_error_Some; rewrite Ht; discriminate.

Lemma holder_moves p t th : QInv p -> nth_error (p_threads p) t = Some th -> holds th = true -> exists th2, moves p t th2 /\ th2 <> th.
Proof.
  intros Q Ht Hh. assert (Hlen : t < length (p_threads p)) by (apply nth_error_Some; congruence).
  assert (Htouch : forall pc, th = TWorker pc -> pc <> WDone -> touch p = p).
  { intros pc -> Hpc. apply touch_id. apply (active_not_destroyed p t _ Q Ht). destruct pc; try reflexivity. congruence. }
  unfold moves, step. rewrite Ht.
  destruct th as [pc|pc|pc]; destruct pc; cbn in Hh; try discriminate; rewrite ?(Htouch _ eq_refl) by discriminate; lnorm.
  - exists (TWorker WSleep). split; [here Ht|discriminate].
  - exists (TWorker (WTask k)). split; [here Ht|discriminate].
  - exists (TWorker WUnlockExit). split; [here Ht|discriminate].
  - exists (TWorker WDone). split; [here Ht|discriminate].
  - exists (TSub (SSignal rest)). split; [|discriminate]. rewrite nth_error_app1 by (rewrite set_nth_th_length; exact Hlen). here Ht.
  - destruct (p_sleepers p) as [|s0 others]; lnorm; exists (TSub (SUnlock rest)); (split; [|discriminate]).
    + here Ht.
    + apply nth_set_here. rewrite (proj1 (Wk_wake (p_threads p) s0)). exact Hlen.
  - exists (TSub (SLock rest)). split; [here Ht|discriminate].
  - exists (TFree FUnlock). split; [here Ht|discriminate].
  - eexists. split; [here Ht|]. destruct (p_detached p); [discriminate|]. destruct (p_workers p); discriminate.
  - exists (TFree FSleep). split; [here Ht|discriminate].
  - exists (TFree FFree). split; [here Ht|discriminate].
Qed.

Definition locker (th : thread) : bool :=
  match th with
  | TWorker WLock | TWorker WRelock | TFree FLock | TFree FLock2 | TFree FRelock => true
  | TSub (SLock (_ :: _)) => true
  | _ => false
  end.
Lemma locker_moves p t th : QInv p -> nth_error (p_threads p) t = Some th -> locker th = true -> p_lock p = None ->
  exists th2, moves p t th2 /\ th2 <> th.
Proof.
  intros Q Ht Hl Hnone. assert (Hlen : t < length (p_threads p)) by (apply nth_error_Some; congruence).
  assert (He : enabled_lock p = true) by (unfold enabled_lock; rewrite Hnone; reflexivity).
  unfold moves, step. rewrite Ht.
  destruct th as [pc|pc|pc]; [destruct pc|destruct pc as [[|k rest]| | | |]|destruct pc]; cbn in Hl; try discriminate; rewrite He.
  - rewrite (touch_id p) by (apply (active_not_destroyed p t _ Q Ht); reflexivity). lnorm.
    destruct (p_tasks p); destruct (p_shutdown p); lfields; eexists; (split; [here Ht|discriminate]).
  - rewrite (touch_id p) by (apply (active_not_destroyed p t _ Q Ht); reflexivity). lnorm.
    destruct (p_tasks p); destruct (p_shutdown p); lfields; eexists; (split; [here Ht|discriminate]).
  - rewrite (touch_id p) by (apply (active_not_destroyed p t _ Q Ht); reflexivity). lnorm.
    destruct (p_lazy p && negb (p_running p <? length (p_workers p)) && (length (p_workers p) <? p_max p)); lfields; eexists; (split; [here Ht|discriminate]).
  - lnorm. eexists; (split; [here Ht|discriminate]).
  - lnorm. destruct (Nat.eqb (p_alive p) 0); lnorm; eexists; (split; [here Ht|discriminate]).
  - lnorm. destruct (Nat.eqb (p_alive p) 0); lnorm; eexists; (split; [here Ht|discriminate]).
Qed.

Definition runner (th : thread) : bool :=
  match th with TWorker (WTask _) | TSub (SLock []) | TFree (FJoin []) | TFree FFree => true | _ => false end.
Lemma runner_moves p t th : QInv p -> nth_error (p_threads p) t = Some th -> runner th = true -> exists th2, moves p t th2 /\ th2 <> th.
Proof.
  intros Q Ht Hr. unfold moves, step. rewrite Ht.
  destruct th as [pc|pc|pc]; [destruct pc|destruct pc as [[|k rest]| | | |]|destruct pc as [ | | | |[|w ws]| | | | | | | ]]; cbn in Hr; try discriminate.
  - rewrite (touch_id p) by (apply (active_not_destroyed p t _ Q Ht); reflexivity). lnorm. eexists; (split; [here Ht|discriminate]).
  - lnorm. eexists; (split; [here Ht|discriminate]).
  - lnorm. eexists; (split; [here Ht|discriminate]).
  - lnorm. eexists; (split; [here Ht|discriminate]).
Qed.

(* ---------- no deadlock ---------- *)
Definition busy (th : thread) : bool := holds th || locker th || runner th.

Lemma idle_cases th : busy th = false ->
  th = TWorker WSleep \/ th = TWorker WDone \/ th = TSub SFin \/ th = TFree FStart \/ (exists w ws, th = TFree (FJoin (w :: ws))) \/
  th = TFree FSleep \/ th = TFree FDone.
Proof.
  unfold busy. destruct th as [pc|pc|pc]; [destruct pc|destruct pc as [[|k r]| | | |]|destruct pc as [ | | | |[|w ws]| | | | | | | ]]; cbn; intros H; try discriminate; eauto 10.
Qed.

Lemma count_pos_exists f ths : 0 < count_th f ths -> exists t th, nth_error ths t = Some th /\ f th = true.
Proof.
  unfold count_th. induction ths as [|a l IH]; cbn; [lia|]. destruct (f a) eqn:E.
  - intros _. exists 0, a. auto.
  - intros H. destruct (IH H) as (t & th & Ht & Hf). exists (S t), th. auto.
Qed.

Lemma fpc_eq_done (pc : fpc) : pc = FDone \/ pc <> FDone.
Proof. destruct pc; auto; right; discriminate. Qed.

Section Idle.
  Variable p : pool.
  Hypothesis Q : QInv p.
  Hypothesis W : WInv p.
  Hypothesis L : LInv p.
  Hypothesis J : JInv p.
  Hypothesis Hidle : forall t th, nth_error (p_threads p) t = Some th -> busy th = false.

  (* a freeing thread that is not busy and not finished can move, or the state is impossible *)
  Lemma idle_free_moves f pc : nth_error (p_threads p) f = Some (TFree pc) -> pc <> FDone -> step p (f, false) <> p.
  Proof.
    intros Hf Hnd.
    assert (Hpc : pc = FStart \/ (exists w ws, pc = FJoin (w :: ws)) \/ pc = FSleep).
    { destruct (idle_cases _ (Hidle f _ Hf)) as [E|[E|[E|[E|[(w & ws & E)|[E|E]]]]]]; try discriminate E; inversion E; subst; eauto. congruence. }
    destruct Hpc as [->|[(w & ws & ->)| ->]].
    - (* FStart: every submitter is finished *)
      assert (Hs : all_subs_done p = true).
      { unfold all_subs_done. apply forallb_forall. intros x Hx. destruct (In_nth_error _ _ Hx) as (s & Hs).
        destruct (idle_cases _ (Hidle s _ Hs)) as [->|[->|[->|[->|[(w & ws & ->)|[->| ->]]]]]]; reflexivity. }
      apply (moves_changes p f _ (TFree FLock) Hf); [|discriminate].
      unfold moves, step. rewrite Hf, Hs. lnorm. here Hf.
    - (* FJoin (w :: ws): the worker to be joined has returned *)
      assert (Hin : In w (p_workers p)) by (apply (J f _ Hf (w :: ws) eq_refl); left; reflexivity).
      destruct (q_wrev p Q w Hin) as (pcw & Hw).
      assert (Hpw : pcw = WDone).
      { destruct (idle_cases _ (Hidle w _ Hw)) as [E|[E|[E|[E|[(w2 & ws2 & E)|[E|E]]]]]]; try discriminate E; inversion E; subst pcw; [|reflexivity].
        exfalso. destruct (l_nosleep p L (ex_intro _ f (ex_intro _ _ (conj Hf eq_refl))) w _ Hw) as (H1 & _). congruence. }
      subst pcw. assert (Hwd : worker_done p w = true) by (unfold worker_done; rewrite Hw; reflexivity).
      eapply (moves_changes p f _ _ Hf).
      + unfold moves, step. rewrite Hf, Hwd. lnorm. here Hf.
      + destruct ws as [|w2 ws2]; [discriminate|]. intros E. assert (E2 : w2 :: ws2 = w :: w2 :: ws2) by congruence. apply (f_equal (@length tid)) in E2. cbn in E2. lia.
    - (* FSleep: somebody must still be alive, but nobody sleeps after the broadcast *)
      exfalso. destruct (l_wait p L f _ Hf eq_refl) as [Hpos|(w & Hw)].
      + rewrite (q_alive p Q) in Hpos. destruct (count_pos_exists _ _ Hpos) as (s & x & Hx & Ha).
        destruct (idle_cases _ (Hidle s _ Hx)) as [->|[->|[->|[->|[(w & ws & ->)|[->| ->]]]]]]; cbn in Ha; try discriminate.
        destruct (l_nosleep p L (ex_intro _ f (ex_intro _ _ (conj Hf eq_refl))) s _ Hx) as (H1 & _). congruence.
      + pose proof (Hidle w _ Hw) as Hb. discriminate Hb.
  Qed.
End Idle.

Theorem no_deadlock lazy det mx md subs sched : 1 <= mx ->
  let p := run_sched (init lazy det mx md subs) sched in
  (exists t th, nth_error (p_threads p) t = Some th /\ thread_finished th = false) ->
  exists t, step p (t, false) <> p.
Proof.
  intros Hmx. cbn zeta. intros (t0 & th0 & Ht0 & Hun).
  destruct (run_all sched _ (init_qinv lazy det mx md subs) (init_winv lazy det mx md subs Hmx) (init_linv lazy det mx md subs) (init_jinv lazy det mx md subs))
    as (Q & W & L & J).
  set (p := run_sched (init lazy det mx md subs) sched) in *.
  destruct (p_lock p) as [u|] eqn:El.
  { (* the owner of the lock is inside a critical section and can always go on *)
    destruct (l_holder p L u El) as (y & Hy & Hhy). exists u.
    destruct (holder_moves p u y Q Hy Hhy) as (th2 & Hm & Hne). exact (moves_changes p u y th2 Hy Hm Hne). }
  destruct (existsb (fun th => locker th || runner th) (p_threads p)) eqn:Eb.
  - (* some thread wants the free lock, or runs outside it *)
    apply existsb_exists in Eb. destruct Eb as (x & Hin & Hb). destruct (In_nth_error _ _ Hin) as (t & Ht). exists t.
    destruct (locker x) eqn:Hl.
    + destruct (locker_moves p t x Q Ht Hl El) as (th2 & Hm & Hne). exact (moves_changes p t x th2 Ht Hm Hne).
    + cbn in Hb. destruct (runner_moves p t x Q Ht Hb) as (th2 & Hm & Hne). exact (moves_changes p t x th2 Ht Hm Hne).
  - (* every thread is asleep, waiting or finished *)
    assert (Hidle : forall t th, nth_error (p_threads p) t = Some th -> busy th = false).
    { intros t th Ht. unfold busy. assert (Hlr : locker th || runner th = false).
      { destruct (locker th || runner th) eqn:E; [|reflexivity]. exfalso.
        assert (existsb (fun th => locker th || runner th) (p_threads p) = true) by (apply existsb_exists; exists th; split; [eapply nth_error_In; eauto|exact E]). congruence. }
      destruct (holds th) eqn:Hh; [pose proof (q_lock p Q t th Ht Hh); congruence|]. cbn [orb]. exact Hlr. }
    destruct th0 as [pc0|pc0|pc0].
    + (* an unfinished worker that is not busy sleeps: look at the freeing thread *)
      destruct (idle_cases _ (Hidle t0 _ Ht0)) as [E|[E|[E|[E|[(w & ws & E)|[E|E]]]]]]; try discriminate E; inversion E; subst pc0; [|discriminate Hun].
      destruct (l_free p L) as (f & pc & Hf). exists f. destruct (fpc_eq_done pc) as [->|Hnd].
      * exfalso. pose proof (q_past p Q (ex_intro _ f (ex_intro _ _ (conj Hf eq_refl))) t0 _ Ht0 _ eq_refl). discriminate.
      * exact (idle_free_moves p Q L J Hidle f pc Hf Hnd).
    + destruct (idle_cases _ (Hidle t0 _ Ht0)) as [E|[E|[E|[E|[(w & ws & E)|[E|E]]]]]]; try discriminate E. inversion E; subst pc0. discriminate Hun.
    + exists t0. apply (idle_free_moves p Q L J Hidle t0 pc0 Ht0). intros ->. discriminate Hun.
Qed.
