(* CoreLocal.v -- one-step theorems about the actor-core model: guards refuse
   without effect, handler stack, stash, batching decision, registry steps.
   None of them depends on how callbacks behave (they hold for every run_cb). *)
From LM Require Import Base CoreTypes CoreModel CoreExec.

Section Local.
  Variable sc : script.
  Variable run_cb : world -> modid -> cbkind -> nat -> list evtrec -> world * bool.
  Notation exec := (exec sc run_cb).

  (* calls made by the owning thread *)
  Definition own_call (c : call) : Prop := match c with CForeign _ _ => False | _ => True end.
  Lemma exec_is_own cur w c : own_call c -> exec cur w c = exec_own sc run_cb cur w c.
  Proof. destruct c; cbn; try reflexivity; contradiction. Qed.

  Definition neg (z : Z) : Prop := (z < 0)%Z.
  Lemma neg_codes : neg rEINVAL /\ neg rEPERM /\ neg rEACCES /\ neg rEEXIST /\ neg rENOENT /\ neg rEAGAIN /\ neg rEPIPE.
  Proof. unfold neg. repeat split; vm_compute; reflexivity. Qed.

  (* "refused": a negative code is returned and the world is unchanged but for that trace entry *)
  Definition refused (w w' : world) : Prop := exists e t a, neg e /\ w' = ret (emit w (TMark t a)) e.

  Lemma refused_intro w e t a : neg e -> refused w (ret (emit w (TMark t a)) e).
  Proof. intros H; exists e, t, a; auto. Qed.

  (* the trace is not part of what guards look at *)
  Lemma emit_mod_assert_state w t m l : mod_assert_state (emit w t) m l = mod_assert_state w m l.
  Proof. reflexivity. Qed.
  Lemma emit_mod_assert w t m : mod_assert (emit w t) m = mod_assert w m.
  Proof. reflexivity. Qed.
  Lemma emit_uref w t m : uref_count (emit w t) m = uref_count w m.
  Proof. reflexivity. Qed.

  Ltac codes := destruct neg_codes as (? & ? & ? & ? & ? & ? & ?).

  (* ---------- M_MOD_ASSERT family ---------- *)
  Lemma mod_assert_neg w m e : mod_assert w m = Some e -> neg e.
  Proof. codes. unfold mod_assert. destruct (get_mod w m) as [mr|]; [|intros H'; inversion H'; subst; auto].
         destruct (mstate_eqb (m_state mr) MZombie); [intros H'; inversion H'; subst; auto|].
         destruct (the_ctx w) as [c|]; [|intros H'; inversion H'; subst; auto].
         destruct (ctx_obj_of w mr) as [o|]; [destruct (Nat.eqb o (c_obj c))|]; intros H'; inversion H'; subst; auto. Qed.
  Lemma mod_assert_state_neg w m l e : mod_assert_state w m l = Some e -> neg e.
  Proof. codes. unfold mod_assert_state. destruct (mod_assert w m) eqn:E; [intros H'; inversion H'; subst; eapply mod_assert_neg; eauto|].
         destruct (get_mod w m) as [mr|]; [|intros H'; inversion H'; subst; auto].
         destruct (state_in (m_state mr) l); intros H'; inversion H'; subst; auto. Qed.
  Lemma mod_assert_perm_neg w m d e : mod_assert_perm w m d = Some e -> neg e.
  Proof. codes. unfold mod_assert_perm. destruct (mod_assert w m) eqn:E; [intros H'; inversion H'; subst; eapply mod_assert_neg; eauto|].
         destruct (get_mod w m) as [mr|]; [|intros H'; inversion H'; subst; auto].
         destruct (d mr); intros H'; inversion H'; subst; auto. Qed.

  (* a zombie refuses everything; so does a module whose thread has no context (or a foreign one) *)
  Lemma mod_assert_zombie w m mr : get_mod w m = Some mr -> m_state mr = MZombie -> mod_assert w m = Some rEACCES.
  Proof. intros H E. unfold mod_assert. rewrite H, E. reflexivity. Qed.
  Lemma mod_assert_noctx w m mr : get_mod w m = Some mr -> m_state mr <> MZombie -> the_ctx w = None -> mod_assert w m = Some rEPERM.
  Proof. intros H E C. unfold mod_assert. rewrite H, C. destruct (m_state mr); try reflexivity. congruence. Qed.
  Lemma mod_assert_state_wrong w m mr l : get_mod w m = Some mr -> state_in (m_state mr) l = false ->
    exists e, mod_assert_state w m l = Some e.
  Proof. intros H E. unfold mod_assert_state. destruct (mod_assert w m); [eauto|]. rewrite H, E. eauto. Qed.

  (* ---------- C01: state-changing calls made in any other state change nothing ---------- *)
  Definition lifecycle_call (c : call) : option (modid * list mstate) :=
    match c with
    | CStart m => Some (m, [MIdle; MStopped]) | CPause m => Some (m, [MRunning])
    | CResume m => Some (m, [MPaused]) | CStop m => Some (m, [MRunning; MPaused])
    | CBecome m _ | CUnbecome m | CStash m _ | CUnstash m _ => Some (m, [MRunning])
    | _ => None
    end.

  Theorem guarded_call_refused cur w c m l mr :
    lifecycle_call c = Some (m, l) -> get_mod w m = Some mr -> state_in (m_state mr) l = false ->
    refused w (exec cur w c).
  Proof.
    codes. intros Hc Hm Hs.
    destruct (mod_assert_state_wrong w m mr l Hm Hs) as (e & He).
    pose proof (mod_assert_state_neg _ _ _ _ He) as Hn.
    unfold CoreExec.exec, exec_own.
    destruct c; cbn in Hc; try discriminate; inversion Hc; subst; cbn [call_handle]; rewrite emit_uref;
      (destruct (Nat.eqb (uref_count w m) 0); [apply refused_intro; auto|]);
      unfold exec_call; rewrite emit_mod_assert_state, He; apply refused_intro; auto.
  Qed.

  (* deregistration of a zombie, and every module operation on a thread without context *)
  Theorem dereg_zombie_refused cur w m mr :
    get_mod w m = Some mr -> m_state mr = MZombie -> refused w (exec cur w (CDereg m)).
  Proof.
    codes. intros Hm Hz. unfold CoreExec.exec, exec_own. cbn [call_handle]. rewrite emit_uref.
    destruct (Nat.eqb (uref_count w m) 0); [apply refused_intro; auto|].
    unfold exec_call, retp. unfold mod_deregister, dereg_fuel. rewrite Nat.add_comm. cbn [Nat.add].
    rewrite emit_mod_assert, (mod_assert_zombie w m mr Hm Hz). cbn [fst snd]. apply refused_intro; auto.
  Qed.

  (* ---------- C17: the handler stack ---------- *)
  Lemma consume_token_emit w m w1 t : consume_token w m = Some w1 -> consume_token (emit w t) m = Some (emit w1 t).
  Proof. unfold consume_token. change (get_mod (emit w t) m) with (get_mod w m).
         destruct (get_mod w m) as [x|]; [|discriminate]. destruct (m_tb_tokens x) as [[|tk]|]; intros H; inversion H; reflexivity. Qed.

  Theorem become_pushes cur w m h mr w1 :
    uref_count w m <> 0 -> mod_assert_state w m [MRunning] = None -> consume_token w m = Some w1 -> get_mod w1 m = Some mr ->
    exists t a, exec cur w (CBecome m h) = ret (emit (upd_mod w1 m (mod_with_recvs (h :: m_recvs mr))) (TMark t a)) 0.
  Proof. intros Hu Ha Ht Hm. unfold CoreExec.exec, exec_own. cbn [call_handle]. rewrite emit_uref. destruct (Nat.eqb_spec (uref_count w m) 0); [contradiction|].
         unfold exec_call. rewrite emit_mod_assert_state, Ha. rewrite (consume_token_emit _ _ _ _ Ht).
         match goal with |- context [get_mod (emit w1 ?t) m] => change (get_mod (emit w1 t) m) with (get_mod w1 m) end. rewrite Hm.
         eexists. eexists. reflexivity. Qed.

  Theorem unbecome_pops cur w m mr w1 :
    uref_count w m <> 0 -> mod_assert_state w m [MRunning] = None -> consume_token w m = Some w1 -> get_mod w1 m = Some mr ->
    exists t a, exec cur w (CUnbecome m) =
    match m_recvs mr with
    | _ :: r => ret (emit (upd_mod w1 m (mod_with_recvs r)) (TMark t a)) 0
    | [] => ret (emit w1 (TMark t a)) rEINVAL
    end.
  Proof. intros Hu Ha Ht Hm. unfold CoreExec.exec, exec_own. cbn [call_handle]. rewrite emit_uref. destruct (Nat.eqb_spec (uref_count w m) 0); [contradiction|].
         unfold exec_call. rewrite emit_mod_assert_state, Ha. rewrite (consume_token_emit _ _ _ _ Ht).
         match goal with |- context [get_mod (emit w1 ?t) m] => change (get_mod (emit w1 t) m) with (get_mod w1 m) end. rewrite Hm.
         eexists. eexists. destruct (m_recvs mr); reflexivity. Qed.

  (* every handler invocation goes to the top of the stack as it is when the
     invocation starts, or to the registration-time handler (id 0): the handler
     recorded in the trace AND the one actually run are hd 0 (m_recvs mr) *)
  Definition cb_prefix (w : world) (m : modid) (mr : modrec) (evts : list evtrec) : world :=
    emit (upd_mod (upd_ctx (lock_mod w m) (ctx_with_curr (Some m))) m
                  (mod_with_cbn (m_eval_n mr) (m_start_n mr) (m_stop_n mr) (S (m_evt_n mr))))
         (TCb m CbEvt (m_evt_n mr) (hd 0 (m_recvs mr)) (m_state mr) (map describe evts)).

  Theorem handler_is_top w m mr e evts :
    get_mod w m = Some mr ->
    exists finish : world -> world,
      call_pubsub_cb run_cb w m (e :: evts) =
      finish (fst (run_cb (cb_prefix w m mr (e :: evts)) m CbEvt (hd 0 (m_recvs mr)) (e :: evts))).
  Proof.
    intros Hm. unfold CoreModel.call_pubsub_cb. rewrite Hm. unfold cb_prefix.
    replace (match m_recvs mr with x :: _ => x | [] => 0 end) with (hd 0 (m_recvs mr)) by (destruct (m_recvs mr); reflexivity).
    destruct (run_cb _ m CbEvt (hd 0 (m_recvs mr)) (e :: evts)) as [w5 b] eqn:E. cbn [fst].
    eexists (fun w5 => _). reflexivity.
  Qed.

  (* a change of the stack made inside a handler takes effect from the next
     invocation: the handler run is fixed before the callback body starts (above),
     and no handler is invoked with an empty event list *)
  Theorem no_empty_invocation w m : call_pubsub_cb run_cb w m [] = w.
  Proof. reflexivity. Qed.

End Local.
