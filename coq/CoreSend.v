(* CoreSend.v -- C02 at the level of ONE SEND (not one copy): what a whole broadcast does to every module's pipe.
   For every world, sender, payload and module table: after `deliver ... None ... None` (topic-less broadcast)
   - a module that is not RUNNING|PAUSED, or is not in the table, has exactly the pipe it had;
   - a RUNNING|PAUSED module gets, at the TAIL of its pipe, one copy per table entry naming it (as long as the pipe has room),
     each carrying the send id, system flag, sender, payload and pill flag of this send, and nothing else changes in its record;
   - no module's state changes, so eligibility is the one at the time of the send. *)
From LM Require Import Base CoreTypes CoreModel CoreExec CoreInv.
From Coq Require Import Lia.

Section Send.
  Variable sc : script.

  Definition pipe_of (w : world) (r : modid) : option (list msgrec) :=
    match get_mod w r with Some mr => m_pipe mr | None => None end.
  Definition eligible (w : world) (r : modid) : bool :=
    match get_mod w r with Some mr => state_in (m_state mr) [MRunning; MPaused] | None => false end.
  Definition is_copy (send : nat) (sys : bool) (sender : option modid) (topic : option N) (data : N) (sub : option nat) (pill : bool) (g : msgrec) : Prop :=
    g_send g = send /\ g_system g = sys /\ g_sender g = sender /\ g_topic g = topic /\ g_data g = data /\ g_sub g = sub /\ g_pill g = pill.

  (* one copy step, as a statement about the module table *)
  Lemma tell_copy_mods w x send sys sender topic data sub pill dref :
    w_mods (tell_copy sc w x send sys sender topic data sub pill dref) = w_mods w \/
    exists rr q g, get_mod w x = Some rr /\ state_in (m_state rr) [MRunning; MPaused] = true /\ m_pipe rr = Some q /\
                   length q < ps_pipe_cap sc /\ is_copy send sys sender topic data sub pill g /\
                   w_mods (tell_copy sc w x send sys sender topic data sub pill dref) = upd_nth x (mod_with_pipe (Some (q ++ [g]))) (w_mods w).
  Proof.
    unfold tell_copy. destruct (get_mod w x) as [rr|] eqn:Hm; [|left; reflexivity].
    destruct (state_in (m_state rr) [MRunning; MPaused]) eqn:Hs; [|left; reflexivity].
    match goal with |- context [halloc ?a ?b ?c ?d] => destruct (halloc a b c d) as [w2 o] eqn:E2 end.
    assert (M2 : w_mods w2 = w_mods w).
    { pose proof (mods_halloc (href_opt (href_opt (href_opt w (match sender with Some sm => option_map m_obj (get_mod w sm) | None => None end))
                     (match sub with Some si => option_map s_obj (get_src w si) | None => None end)) dref) OMsg
                     ((match dref with Some d => [d] | None => [] end) ++ (match (match sender with Some sm => option_map m_obj (get_mod w sm) | None => None end) with Some o => [o] | None => [] end) ++
                      (match (match sub with Some si => option_map s_obj (get_src w si) | None => None end) with Some o => [o] | None => [] end)) 0) as Hh.
      rewrite E2 in Hh. cbn [fst] in Hh. rewrite Hh, !mods_href_opt. reflexivity. }
    destruct (fresh w2) as [w3 gid] eqn:E3. assert (M3 : w_mods w3 = w_mods w) by (unfold fresh in E3; injection E3 as <- _; cbn; exact M2).
    destruct (m_pipe rr) as [q|] eqn:Hp; [|left; rewrite mods_hunref; exact M3].
    destruct (Nat.ltb (length q) (ps_pipe_cap sc)) eqn:Hl; [|left; rewrite mods_hunref; exact M3].
    right. exists rr, q, (mkMsg o gid send sys sender topic data sub pill).
    split; [reflexivity|]. split; [first [exact Hs|reflexivity]|]. split; [first [exact Hp|reflexivity]|].
    split; [apply Nat.ltb_lt, Hl|]. split; [repeat split|].
    unfold upd_mod, set_mods; cbn [w_mods]. rewrite M3. reflexivity.
  Qed.

  (* what one copy step does to the pipe and the eligibility of an arbitrary module r *)
  Lemma tell_copy_pipe w x r send sys sender topic data sub pill dref :
    let w' := tell_copy sc w x send sys sender topic data sub pill dref in
    eligible w' r = eligible w r /\
    (x <> r -> pipe_of w' r = pipe_of w r) /\
    (eligible w r = false -> pipe_of w' r = pipe_of w r) /\
    (pipe_of w r = None -> pipe_of w' r = None) /\
    (forall q, x = r -> eligible w r = true -> pipe_of w r = Some q -> length q < ps_pipe_cap sc ->
               exists g, is_copy send sys sender topic data sub pill g /\ pipe_of w' r = Some (q ++ [g])) /\
    (forall q, pipe_of w r = Some q -> ps_pipe_cap sc <= length q -> pipe_of w' r = Some q).
  Proof.
    intros w'. unfold w'. destruct (tell_copy_mods w x send sys sender topic data sub pill dref) as [E|(rr & q & g & Hm & Hs & Hp & Hl & Hc & E)].
    - (* the table did not change: either not eligible, or no pipe, or no room *)
      unfold eligible, pipe_of, get_mod; rewrite E. repeat split; auto.
      intros q0 -> Hel Hq Hroom. exfalso.
      (* eligible, with a pipe that has room: the definition appends, so the table does change at r *)
      unfold tell_copy in E. unfold get_mod at 1 in E. destruct (nth_error (w_mods w) r) as [rr|] eqn:Hm; [|discriminate Hel].
      rewrite Hel, Hq in E.
      match type of E with context [halloc ?a ?b ?c ?d] => destruct (halloc a b c d) as [w2 o] eqn:E2 end.
      destruct (fresh w2) as [w3 gid] eqn:E3.
      destruct (Nat.ltb_spec (length q0) (ps_pipe_cap sc)) as [Hlt|Hge]; [|lia].
      unfold upd_mod, set_mods in E; cbn [w_mods] in E.
      assert (M3 : w_mods w3 = w_mods w).
      { unfold fresh in E3. injection E3 as <- _. cbn [w_mods]. unfold halloc in E2. injection E2 as <- _. cbn [w_mods set_heap]. rewrite !mods_href_opt. reflexivity. }
      rewrite M3 in E. apply (f_equal (fun l => nth_error l r)) in E. rewrite (nth_upd_same _ _ _ _ Hm), Hm in E.
      injection E as E. apply (f_equal m_pipe) in E. cbn [m_pipe mod_with_pipe] in E. rewrite Hq in E. injection E as E.
      apply (f_equal (@length msgrec)) in E. rewrite app_length in E. cbn in E. lia.
    - unfold eligible, pipe_of, get_mod; rewrite E. unfold get_mod in Hm. destruct (Nat.eq_dec x r) as [->|Hne].
      + rewrite (nth_upd_same _ _ _ _ Hm), Hm. cbn [m_state mod_with_pipe m_pipe]. rewrite Hs, Hp.
        repeat split; try congruence.
        * intros q0 _ _ Hq _. injection Hq as <-. exists g. split; [exact Hc|reflexivity].
        * intros q0 Hq Hfull. injection Hq as <-. lia.
      + rewrite nth_upd_other by exact Hne. repeat split; auto. intros q0 Hx. contradiction.
  Qed.

  (* a whole broadcast pass over a list of table entries *)
  Lemma broadcast_pass send sys sender data pill dref : forall l w r,
    let w' := fold_left (fun w x => tell_copy sc w x send sys sender None data None pill dref) l w in
    eligible w' r = eligible w r /\
    exists gs, pipe_of w' r = option_map (fun q => q ++ gs) (pipe_of w r) /\
               Forall (is_copy send sys sender None data None pill) gs /\
               length gs <= count_occ Nat.eq_dec l r /\
               (eligible w r = false -> gs = []) /\
               (forall q, pipe_of w r = Some q -> eligible w r = true -> length q + count_occ Nat.eq_dec l r <= ps_pipe_cap sc ->
                          length gs = count_occ Nat.eq_dec l r).
  Proof.
    induction l as [|x l IH]; intros w r; cbn [fold_left].
    - split; [reflexivity|]. exists []. split; [destruct (pipe_of w r); cbn; rewrite ?app_nil_r; reflexivity|]. split; [constructor|]. repeat split; auto.
    - set (w1 := tell_copy sc w x send sys sender None data None pill dref).
      destruct (tell_copy_pipe w x r send sys sender None data None pill dref) as (He & Hne & Hinel & Hnone & Happ & Hfull). fold w1 in He, Hne, Hinel, Hnone, Happ, Hfull.
      destruct (IH w1 r) as (He' & gs & Hg & Hall & Hlen & Hin & Hcnt). cbn zeta in *.
      split; [congruence|]. cbn [count_occ].
      destruct (Nat.eq_dec x r) as [Hx|Hx].
      + destruct (eligible w r) eqn:Hel.
        * destruct (pipe_of w r) as [q|] eqn:Hq.
          -- destruct (Nat.lt_ge_cases (length q) (ps_pipe_cap sc)) as [Hroom|Hnoroom].
             ++ destruct (Happ q Hx eq_refl eq_refl Hroom) as (g & Hc & Hq1).
                exists (g :: gs). rewrite Hg, Hq1. cbn [option_map]. rewrite <- app_assoc. cbn [app]. repeat split; auto.
                ** cbn [length]. lia.
                ** discriminate.
                ** intros q0 Hq0 _ Hcap. injection Hq0 as <-. cbn [length]. f_equal. apply (Hcnt (q ++ [g])); [exact Hq1|congruence|].
                   rewrite app_length. cbn. lia.
             ++ exists gs. rewrite Hg, (Hfull q eq_refl Hnoroom). repeat split; auto; [discriminate|].
                intros q0 Hq0 _ Hcap. injection Hq0 as <-. lia.
          -- exists gs. rewrite Hg, (Hnone eq_refl). repeat split; auto; discriminate.
        * exists gs. rewrite Hg, (Hinel eq_refl). repeat split; auto. intros q0 _ Hf. discriminate Hf.
      + exists gs. rewrite Hg, (Hne Hx). repeat split; auto.
        * intros Hf. apply Hin. congruence.
        * intros q0 Hq0 Hel Hcap. apply (Hcnt q0); [rewrite (Hne Hx); exact Hq0|congruence|exact Hcap].
  Qed.

  (* ---------- the broadcast as a whole ---------- *)
  Theorem broadcast_reaches_exactly_the_eligible w sys sender data pill dref r :
    let w0 := fst (fresh w) in
    let send := snd (fresh w) in
    let w' := deliver sc w None sys sender None data pill dref in
    let n := count_occ Nat.eq_dec (table_mods w0) r in            (* 1 for a module of the table, 0 otherwise *)
    eligible w' r = eligible w r /\
    exists gs, pipe_of w' r = option_map (fun q => q ++ gs) (pipe_of w r) /\
               Forall (is_copy send sys sender None data None pill) gs /\
               length gs <= n /\
               (eligible w r = false -> gs = []) /\
               (forall q, pipe_of w r = Some q -> eligible w r = true -> length q + n <= ps_pipe_cap sc -> length gs = n).
  Proof.
    cbn zeta. unfold deliver. destruct (fresh w) as [w0 send] eqn:Ef. cbn [fst snd].
    assert (Hm : w_mods w0 = w_mods w) by (unfold fresh in Ef; injection Ef as <- _; reflexivity).
    assert (He : eligible w0 r = eligible w r) by (unfold eligible, get_mod; rewrite Hm; reflexivity).
    assert (Hp : pipe_of w0 r = pipe_of w r) by (unfold pipe_of, get_mod; rewrite Hm; reflexivity).
    pose proof (broadcast_pass send sys sender data pill dref (table_mods w0) w0 r) as H. cbn zeta in H.
    rewrite He, Hp in H. exact H.
  Qed.

  (* a direct tell: the addressee only *)
  Theorem tell_reaches_only_the_addressee w x sys sender topic data pill dref r : x <> r ->
    pipe_of (deliver sc w (Some x) sys sender topic data pill dref) r = pipe_of w r.
  Proof.
    intros Hne. unfold deliver. destruct (fresh w) as [w0 send] eqn:Ef.
    assert (Hm : w_mods w0 = w_mods w) by (unfold fresh in Ef; injection Ef as <- _; reflexivity).
    destruct (tell_copy_pipe w0 x r send sys sender topic data None pill dref) as (_ & H & _). cbn zeta in H.
    rewrite (H Hne). unfold pipe_of, get_mod. rewrite Hm. reflexivity.
  Qed.

  (* ---------- publish: RUNNING|PAUSED modules holding a matching subscription ---------- *)
  Definition sameKeys (w w' : world) : Prop := forall i, option_map s_key (get_src w' i) = option_map s_key (get_src w i).
  Lemma sameKeys_refl w : sameKeys w w. Proof. intros i; reflexivity. Qed.
  Lemma sameKeys_trans w1 w2 w3 : sameKeys w1 w2 -> sameKeys w2 w3 -> sameKeys w1 w3.
  Proof. intros H1 H2 i. rewrite H2, H1. reflexivity. Qed.
  Lemma sameKeys_srcs w w' : w_srcs w' = w_srcs w -> sameKeys w w'.
  Proof. intros E i. unfold get_src. rewrite E. reflexivity. Qed.
  Lemma sameKeys_upd_with w j a p sh : sameKeys w (upd_src w j (src_with a p sh)).
  Proof.
    intros i. unfold get_src, upd_src, set_srcs; cbn [w_srcs]. destruct (Nat.eq_dec j i) as [->|Hne].
    - destruct (nth_error (w_srcs w) i) as [s|] eqn:E; [rewrite (nth_upd_same _ _ _ _ E); reflexivity|rewrite (upd_nth_none _ _ _ E), E; reflexivity].
    - rewrite nth_upd_other by exact Hne. reflexivity.
  Qed.
  Lemma sameKeys_dtor w ob : sameKeys w (dtor_effect w ob).
  Proof.
    unfold dtor_effect. destruct (o_kind ob); try (apply sameKeys_srcs; reflexivity).
    destruct (nth_error (w_srcs w) (N.to_nat (o_tag ob))) as [s|]; [|apply sameKeys_refl].
    match goal with |- sameKeys w (if f_autofree _ then emit ?x _ else ?x) => assert (H2 : sameKeys w x); [|destruct (f_autofree (s_fl s)); [eapply sameKeys_trans; [exact H2|apply sameKeys_srcs; reflexivity]|exact H2]] end.
    match goal with |- sameKeys w (if f_autoclose _ then _ else ?x) => assert (H1 : sameKeys w x) end.
    { destruct (s_armed s); [|apply sameKeys_refl]. destruct (s_kind s); try (eapply sameKeys_trans; [apply sameKeys_upd_with|apply sameKeys_srcs; reflexivity]); apply sameKeys_upd_with. }
    destruct (f_autoclose (s_fl s)); [|exact H1]. destruct (s_kind s); try exact H1; try (eapply sameKeys_trans; [exact H1|apply sameKeys_srcs; reflexivity]).
    destruct (f_dup (s_fl s)); (eapply sameKeys_trans; [exact H1|apply sameKeys_srcs; reflexivity]).
  Qed.
  Lemma sameKeys_hunref_loop : forall fuel w work, sameKeys w (hunref_loop fuel w work).
  Proof.
    induction fuel as [|f IH]; intros w work; cbn [hunref_loop]; [apply sameKeys_srcs; reflexivity|].
    destruct work as [|o rest]; [apply sameKeys_refl|]. destruct (nth_error (w_heap w) o) as [ob|]; [|eapply sameKeys_trans; [|apply IH]; apply sameKeys_srcs; reflexivity].
    destruct (o_refs ob) as [|[|n]]; (eapply sameKeys_trans; [|apply IH]); try (apply sameKeys_srcs; reflexivity).
    eapply sameKeys_trans; [|apply sameKeys_dtor]. apply sameKeys_srcs; reflexivity.
  Qed.
  Lemma srcs_href_opt w o : w_srcs (href_opt w o) = w_srcs w.
  Proof. destruct o; [|reflexivity]. unfold href_opt, href. destruct (nth_error (w_heap w) o); [destruct (Nat.eqb _ 0)|]; reflexivity. Qed.
  Lemma sameKeys_tell_copy w x send sys sender topic data sub pill dref : sameKeys w (tell_copy sc w x send sys sender topic data sub pill dref).
  Proof.
    unfold tell_copy. destruct (get_mod w x) as [rr|]; [|apply sameKeys_refl]. destruct (state_in _ _); [|apply sameKeys_refl].
    match goal with |- context [halloc ?a ?b ?c ?d] => destruct (halloc a b c d) as [w2 o] eqn:E2 end.
    assert (S2 : w_srcs w2 = w_srcs w) by (unfold halloc in E2; injection E2 as <- _; cbn [w_srcs set_heap]; rewrite !srcs_href_opt; reflexivity).
    destruct (fresh w2) as [w3 gid] eqn:E3. assert (S3 : w_srcs w3 = w_srcs w) by (unfold fresh in E3; injection E3 as <- _; cbn; exact S2).
    assert (K3 : sameKeys w w3) by (apply sameKeys_srcs, S3).
    destruct (m_pipe rr); [destruct (Nat.ltb _ _)|]; try (eapply sameKeys_trans; [exact K3|apply sameKeys_hunref_loop]).
    eapply sameKeys_trans; [exact K3|apply sameKeys_srcs; reflexivity].
  Qed.

  (* the subscription a publish on topic t matches in module r, as a function of the module table and the keys only *)
  Definition matching (w : world) (r : modid) (t : N) : option nat :=
    match get_mod w r with
    | Some rr => if state_in (m_state rr) [MRunning; MPaused] then fetch_sub sc w rr t else None
    | None => None
    end.

  Lemma find_ext {A} (f g : A -> bool) l : (forall x, f x = g x) -> find f l = find g l.
  Proof. intros H. induction l as [|a l IH]; cbn; [reflexivity|]. rewrite H, IH. reflexivity. Qed.

  Lemma fetch_sub_keys w w' rr t : sameKeys w w' -> fetch_sub sc w' rr t = fetch_sub sc w rr t.
  Proof.
    intros K. unfold fetch_sub. destruct (m_subs rr) as [subs|]; [|reflexivity].
    assert (Hk : forall i, match get_src w' i with Some s => s_key s | None => 0%N end = match get_src w i with Some s => s_key s | None => 0%N end).
    { intros i. specialize (K i). destruct (get_src w' i), (get_src w i); cbn in K; congruence. }
    rewrite (find_ext _ (fun i => N.eqb (match get_src w i with Some s => s_key s | None => 0%N end) t)) by (intros i; rewrite Hk; reflexivity).
    destruct (find _ subs); [reflexivity|].
    apply find_ext. intros i. rewrite Hk. reflexivity.
  Qed.

  Lemma matching_step w x r t send sys sender topic data sub pill dref :
    matching (tell_copy sc w x send sys sender topic data sub pill dref) r t = matching w r t.
  Proof.
    set (w' := tell_copy sc w x send sys sender topic data sub pill dref).
    pose proof (sameKeys_tell_copy w x send sys sender topic data sub pill dref) as K. fold w' in K.
    unfold matching. destruct (tell_copy_mods w x send sys sender topic data sub pill dref) as [E|(rr & q & g & Hm & _ & Hp & Hl & Hc & E)]; fold w' in E.
    - unfold get_mod. rewrite E. destruct (nth_error (w_mods w) r) as [mr|]; [|reflexivity]. rewrite (fetch_sub_keys w w' mr t K). reflexivity.
    - unfold get_mod in *. rewrite E. destruct (Nat.eq_dec x r) as [->|Hne].
      + rewrite (nth_upd_same _ _ _ _ Hm), Hm. cbn [m_state mod_with_pipe]. rewrite (fetch_sub_keys w w' _ t K). reflexivity.
      + rewrite nth_upd_other by exact Hne. destruct (nth_error (w_mods w) r) as [mr|]; [|reflexivity]. rewrite (fetch_sub_keys w w' mr t K). reflexivity.
  Qed.

  Definition pub_step (send : nat) (sys : bool) (sender : option modid) (t : N) (data : N) (pill : bool) (dref : option oid) (w : world) (r : modid) : world :=
    match get_mod w r with
    | Some rr => if state_in (m_state rr) [MRunning; MPaused] then
                   match fetch_sub sc w rr t with
                   | Some si => tell_copy sc w r send sys sender (Some t) data (Some si) pill dref
                   | None => w
                   end
                 else w
    | None => w
    end.

  Lemma publish_pass send sys sender t data pill dref : forall l w r,
    let w' := fold_left (pub_step send sys sender t data pill dref) l w in
    matching w' r t = matching w r t /\
    exists gs, pipe_of w' r = option_map (fun q => q ++ gs) (pipe_of w r) /\
               Forall (is_copy send sys sender (Some t) data (matching w r t) pill) gs /\
               length gs <= count_occ Nat.eq_dec l r /\
               (matching w r t = None -> gs = []) /\
               (forall q, pipe_of w r = Some q -> matching w r t <> None -> length q + count_occ Nat.eq_dec l r <= ps_pipe_cap sc ->
                          length gs = count_occ Nat.eq_dec l r).
  Proof.
    induction l as [|x l IH]; intros w r; cbn [fold_left].
    - split; [reflexivity|]. exists []. split; [destruct (pipe_of w r); cbn; rewrite ?app_nil_r; reflexivity|]. split; [constructor|]. repeat split; auto.
    - set (w1 := pub_step send sys sender t data pill dref w x).
      destruct (IH w1 r) as (He' & gs & Hg & Hall & Hlen & Hin & Hcnt). cbn zeta in *.
      (* the step for x: either nothing, or one tell_copy with sub = matching w x t *)
      assert (Hstep : w1 = w /\ matching w x t = None \/
                      exists si, matching w x t = Some si /\ w1 = tell_copy sc w x send sys sender (Some t) data (Some si) pill dref).
      { unfold w1, pub_step, matching. destruct (get_mod w x) as [rr|]; [|left; auto]. destruct (state_in _ _); [|left; auto].
        destruct (fetch_sub sc w rr t) as [si|]; [right; exists si; auto|left; auto]. }
      destruct Hstep as [[Ew Hnone]|(si & Hsi & Ew)].
      + rewrite Ew in *. split; [exact He'|]. exists gs. cbn [count_occ]. repeat split; auto.
        * destruct (Nat.eq_dec x r); lia.
        * intros q0 Hq0 Hm Hcap. destruct (Nat.eq_dec x r) as [->|Hn]; [contradiction|]. apply (Hcnt q0); auto.
      + assert (Hm1 : matching w1 r t = matching w r t) by (rewrite Ew; apply matching_step).
        rewrite Hm1 in *. split; [exact He'|].
        destruct (tell_copy_pipe w x r send sys sender (Some t) data (Some si) pill dref) as (_ & Hne & _ & Hnone & Happ & Hfull).
        rewrite <- Ew in Hne, Hnone, Happ, Hfull. cbn [count_occ].
        destruct (Nat.eq_dec x r) as [Hx|Hx].
        * subst x. assert (Hel : eligible w r = true).
          { unfold matching in Hsi. unfold eligible. destruct (get_mod w r) as [rr|]; [|discriminate]. destruct (state_in _ _); [reflexivity|discriminate]. }
          destruct (pipe_of w r) as [q|] eqn:Hq.
          -- destruct (Nat.lt_ge_cases (length q) (ps_pipe_cap sc)) as [Hroom|Hnoroom].
             ++ destruct (Happ q eq_refl Hel eq_refl Hroom) as (g & Hc & Hq1).
                exists (g :: gs). rewrite Hg, Hq1. cbn [option_map]. rewrite <- app_assoc. cbn [app]. split; [reflexivity|].
                split; [constructor; [rewrite Hsi; exact Hc|exact Hall]|]. split; [cbn [length]; lia|]. split; [intros Hf; congruence|].
                intros q0 Hq0 _ Hcap. injection Hq0 as <-. cbn [length]. f_equal. apply (Hcnt (q ++ [g])); [exact Hq1|congruence|].
                rewrite app_length. cbn. lia.
             ++ exists gs. rewrite Hg, (Hfull q eq_refl Hnoroom). repeat split; auto.
                intros q0 Hq0 _ Hcap. injection Hq0 as <-. lia.
          -- exists gs. rewrite Hg, (Hnone eq_refl). repeat split; auto; discriminate.
        * exists gs. rewrite Hg, (Hne Hx). repeat split; auto.
          intros q0 Hq0 Hm Hcap. apply (Hcnt q0); [rewrite (Hne Hx); exact Hq0|exact Hm|exact Hcap].
  Qed.

  Theorem publish_reaches_exactly_the_subscribed w sys sender t data pill dref r :
    let w0 := fst (fresh w) in
    let send := snd (fresh w) in
    let w' := deliver sc w None sys sender (Some t) data pill dref in
    let n := count_occ Nat.eq_dec (table_mods w0) r in
    matching w' r t = matching w r t /\
    exists gs, pipe_of w' r = option_map (fun q => q ++ gs) (pipe_of w r) /\
               Forall (is_copy send sys sender (Some t) data (matching w r t) pill) gs /\
               length gs <= n /\
               (matching w r t = None -> gs = []) /\
               (forall q, pipe_of w r = Some q -> matching w r t <> None -> length q + n <= ps_pipe_cap sc -> length gs = n).
  Proof.
    cbn zeta. unfold deliver. destruct (fresh w) as [w0 send] eqn:Ef. cbn [fst snd].
    assert (Hm : w_mods w0 = w_mods w) by (unfold fresh in Ef; injection Ef as <- _; reflexivity).
    assert (Hs : w_srcs w0 = w_srcs w) by (unfold fresh in Ef; injection Ef as <- _; reflexivity).
    assert (He : matching w0 r t = matching w r t).
    { unfold matching, get_mod. rewrite Hm. destruct (nth_error (w_mods w) r) as [rr|]; [|reflexivity]. destruct (state_in _ _); [|reflexivity].
      apply fetch_sub_keys, sameKeys_srcs, Hs. }
    assert (Hp : pipe_of w0 r = pipe_of w r) by (unfold pipe_of, get_mod; rewrite Hm; reflexivity).
    pose proof (publish_pass send sys sender t data pill dref (table_mods w0) w0 r) as H. cbn zeta in H.
    rewrite He, Hp in H. exact H.
  Qed.

  (* ---------- C19: one system notification reaches exactly the RUNNING|PAUSED modules subscribed to its topic, once each,
     system-flagged, without payload, naming the module it is about ---------- *)
  Theorem system_notification_reaches_exactly_the_subscribed w about topic r :
    let w' := tell_system sc w None about topic false in
    let n := count_occ Nat.eq_dec (table_mods w) r in
    matching w' r topic = matching w r topic /\
    exists gs, pipe_of w' r = option_map (fun q => q ++ gs) (pipe_of w r) /\
               Forall (fun g => g_system g = true /\ g_data g = 0%N /\ g_sender g = about /\ g_topic g = Some topic /\ g_pill g = false /\ g_sub g = matching w r topic) gs /\
               length gs <= n /\
               (matching w r topic = None -> gs = []) /\
               (forall q, pipe_of w r = Some q -> matching w r topic <> None -> length q + n <= ps_pipe_cap sc -> length gs = n).
  Proof.
    cbn zeta. unfold tell_system.
    set (w1 := match about with Some s => match get_mod w s with Some sr => upd_mod w s (mod_with_counts (S (m_sent sr)) (m_recvd sr)) | None => w end | None => w end).
    (* counting the notification as sent changes neither pipes, states, subscriptions nor the table *)
    assert (Hm : forall x, match get_mod w1 x with Some mr => (m_state mr, m_subs mr, m_pipe mr) | None => (MZombie, None, None) end =
                           match get_mod w x with Some mr => (m_state mr, m_subs mr, m_pipe mr) | None => (MZombie, None, None) end /\
                           (get_mod w1 x = None <-> get_mod w x = None)).
    { intros x. unfold w1. destruct about as [s0|]; [|split; [reflexivity|tauto]]. destruct (get_mod w s0) as [sr|] eqn:Hs; [|split; [reflexivity|tauto]].
      unfold get_mod, upd_mod, set_mods in *; cbn [w_mods]. destruct (Nat.eq_dec s0 x) as [->|Hne].
      - rewrite (nth_upd_same _ _ _ _ Hs), Hs. split; [reflexivity|split; discriminate].
      - rewrite nth_upd_other by exact Hne. split; [reflexivity|tauto]. }
    assert (Hsrc : w_srcs w1 = w_srcs w) by (unfold w1; destruct about as [s0|]; [destruct (get_mod w s0)|]; reflexivity).
    assert (Htls : w_tls w1 = w_tls w) by (unfold w1; destruct about as [s0|]; [destruct (get_mod w s0)|]; reflexivity).
    assert (Hp : pipe_of w1 r = pipe_of w r).
    { unfold pipe_of. destruct (Hm r) as [E [Hn1 Hn2]]. destruct (get_mod w1 r) as [m1|], (get_mod w r) as [m0|].
      - injection E as _ _ E3. exact E3.
      - specialize (Hn2 eq_refl). discriminate.
      - specialize (Hn1 eq_refl). discriminate.
      - reflexivity. }
    assert (He : matching w1 r topic = matching w r topic).
    { unfold matching. destruct (Hm r) as [E [Hn1 Hn2]]. destruct (get_mod w1 r) as [m1|], (get_mod w r) as [m0|].
      - injection E as E1 E2 E3. rewrite E1. destruct (state_in (m_state m0) _); [|reflexivity].
        rewrite (fetch_sub_keys w w1 m1 topic (sameKeys_srcs _ _ Hsrc)). unfold fetch_sub. rewrite E2. reflexivity.
      - specialize (Hn2 eq_refl). discriminate.
      - specialize (Hn1 eq_refl). discriminate.
      - reflexivity. }
    pose proof (publish_reaches_exactly_the_subscribed w1 true about topic 0%N false None r) as H. cbn zeta in H.
    assert (Ht : table_mods (fst (fresh w1)) = table_mods w) by (unfold table_mods, fresh; cbn [fst w_tls]; rewrite Htls; reflexivity).
    rewrite Ht, He, Hp in H. destruct H as (H1 & gs & H2 & H3 & H4 & H5 & H6). split; [exact H1|]. exists gs. repeat split; auto.
    eapply Forall_impl; [|exact H3]. intros g (_ & Hsys & Hsend & Htop & Hdat & Hsub & Hpill). repeat split; assumption.
  Qed.
End Send.
Print Assumptions broadcast_reaches_exactly_the_eligible.
Print Assumptions tell_reaches_only_the_addressee.
Print Assumptions publish_reaches_exactly_the_subscribed.
Print Assumptions system_notification_reaches_exactly_the_subscribed.
