(* MemM.v -- executable model of Lib/mem/mem.c: the layout arithmetic of
   m_mem_new / get_header and the reference-counting discipline with nested
   destructors (a block's destructor drops references on other blocks). *)
From LM Require Import Base.

(* ---------- layout: header, alignment shift, user data ---------- *)

Definition align_up (x : N) : N := ((x + (cMAX_ALIGN - 1)) / cMAX_ALIGN * cMAX_ALIGN)%N.

(* align_shift of m_mem_new (independent of the requested size) *)
Definition mem_shift : N := (align_up (cMEM_HDR + 1) - cMEM_HDR)%N.
(* offset of the user data from the start of the allocated block *)
Definition mem_data_off : N := (cMEM_HDR + mem_shift)%N.
(* bytes requested from the allocator *)
Definition mem_total (size : N) : N := (cMEM_HDR + size + mem_shift)%N.
(* get_header: reads the byte just before the data *)
Definition mem_hdr_of_data (data_off shift_byte : N) : N := (data_off - cMEM_HDR - shift_byte)%N.

(* ---------- reference counting ---------- *)

Record block := mkBlk {
  k_id : N; k_refs : N; k_size : N;
  k_dtor : bool;                (* a destructor was given *)
  k_kids : list N               (* blocks the destructor unrefs *)
}.

Definition heap := list block.      (* live blocks only *)

Inductive kop :=
| KNew (id size : N) (dtor : bool) (kids : list N)
| KRef (id : N) | KUnref (id : N) | KUnrefp (id : N) | KSize (id : N)
| KNull (which : nat).              (* 0 ref(NULL) 1 unref(NULL) 2 unrefp(NULL) 3 size(NULL) *)

Fixpoint h_find (h : heap) (id : N) : option block :=
  match h with
  | [] => None
  | b :: r => if N.eqb (k_id b) id then Some b else h_find r id
  end.
Fixpoint h_del (h : heap) (id : N) : heap :=
  match h with
  | [] => []
  | b :: r => if N.eqb (k_id b) id then h_del r id else b :: h_del r id
  end.
Fixpoint h_set_refs (h : heap) (id : N) (n : N) : heap :=
  match h with
  | [] => []
  | b :: r => if N.eqb (k_id b) id then mkBlk (k_id b) n (k_size b) (k_dtor b) (k_kids b) :: r
              else b :: h_set_refs r id n
  end.

(* m_mem_unref on a work list: unref the first id; when its count reaches zero
   the destructor runs (EDtor), unrefs the kids, and only then the block is
   freed (EFree).  Markers: inl id = "unref id", inr id = "free id now". *)
Fixpoint unref_loop (fuel : nat) (h : heap) (work : list (N + N)) (acc : list ev)
  : heap * list ev * list (N + N) :=
  match fuel with
  | O => (h, acc, work)
  | S f =>
      match work with
      | [] => (h, acc, [])
      | inr id :: w => unref_loop f (h_del h id) w (acc ++ [EFree id])
      | inl id :: w =>
          match h_find h id with
          | None => unref_loop f h w acc          (* dead block: precondition violated, skipped *)
          | Some b =>
              if N.eqb (k_refs b) 1 then
                unref_loop f (h_set_refs h id 0) (map inl (k_kids b) ++ inr id :: w)
                           (acc ++ (if k_dtor b then [EDtor id] else []))
              else unref_loop f (h_set_refs h id (k_refs b - 1)) w acc
          end
      end
  end.

(* enough fuel: every work item is processed at most twice per live block *)
Definition unref_fuel (h : heap) : nat :=
  S (S (2 * length h + 2 * fold_right (fun b n => length (k_kids b) + n) 0 h)).

Definition k_step (h : heap) (o : kop) : heap * list ev :=
  match o with
  | KNew id size dtor kids =>
      match h_find h id with
      | Some _ => (h, [ERet (-1)])                 (* id reuse: script error *)
      | None =>
          (* observables: data offset from the block start (must be aligned),
             bytes requested, reported size *)
          (mkBlk id 1 size dtor (if dtor then kids else []) :: h,
           [EAlloc id; ERet (Z.of_N mem_data_off); ERet (Z.of_N (mem_total size)); ERet (Z.of_N size)])
      end
  | KRef id =>
      match h_find h id with
      | None => (h, [ERet (-1)])
      | Some b => (h_set_refs h id (k_refs b + 1), [EPtr id])
      end
  | KUnref id | KUnrefp id =>
      match h_find h id with
      | None => (h, [ERet (-1)])
      | Some _ => let '(h1, e, _) := unref_loop (unref_fuel h) h [inl id] [] in (h1, e ++ [EPtr 0])
      end
  | KSize id =>
      match h_find h id with
      | None => (h, [ERet (-1)])
      | Some b => (h, [ERet (Z.of_N (k_size b))])
      end
  | KNull 0 | KNull 1 | KNull 2 => (h, [EPtr 0])
  | KNull _ => (h, [ERet 0])
  end.

Definition k_run (ops : list kop) : list (list ev) := snd (run k_step [] ops).
