(* SeqLemmas.v -- list facts and the iteration vocabulary shared by the
   queue / stack / list proofs. *)
From LM Require Import Base.

(* ---------- small list facts ---------- *)

Lemma last_index_app {A} (l : list A) x : last_index (l ++ [x]) = Some (length l).
Proof. unfold last_index. destruct l; cbn; [reflexivity|]. rewrite app_length; cbn. f_equal; lia. Qed.

Lemma length_remove_nth {A} i (l : list A) : i < length l -> length (remove_nth i l) = length l - 1.
Proof. revert i; induction l as [|h t IH]; intros i H; cbn in *; [lia|].
       destruct i; cbn; [lia|]. rewrite IH by lia. lia. Qed.

Lemma length_set_nth {A} i (x : A) l : length (set_nth i x l) = length l.
Proof. revert i; induction l as [|h t IH]; intros i; cbn; [reflexivity|]. destruct i; cbn; auto. Qed.

Lemma Forall_remove_nth {A} (P : A -> Prop) i l : Forall P l -> Forall P (remove_nth i l).
Proof. revert i; induction l as [|h t IH]; intros i H; cbn; [constructor|].
       inversion H; subst. destruct i; [assumption|]. constructor; auto. Qed.

Lemma Forall_set_nth {A} (P : A -> Prop) i x l : P x -> Forall P l -> Forall P (set_nth i x l).
Proof. revert i; induction l as [|h t IH]; intros i Hx H; cbn; [constructor|].
       inversion H; subst. destruct i; constructor; auto. Qed.

Lemma nth_error_Some_lt {A} (l : list A) i x : nth_error l i = Some x -> i < length l.
Proof. intros H. apply nth_error_Some. congruence. Qed.

Lemma last_index_remove_nth {A} p (l : list A) :
  p < length l ->
  last_index (remove_nth p l) =
  match last_index l with
  | Some t => if Nat.eqb t p then (match p with O => None | S p' => Some p' end)
              else if Nat.ltb p t then Some (t - 1) else Some t
  | None => None
  end.
Proof.
  intros Hp. assert (Hl := length_remove_nth p l Hp).
  unfold last_index at 1 2.
  destruct l as [|h t]; [cbn in Hp; lia|].
  destruct (remove_nth p (h :: t)) as [|h' t'] eqn:E.
  - cbn [length] in *. assert (length t = 0) by lia. assert (p = 0) by lia. subst.
    replace (S (length t) - 1) with 0 by lia. reflexivity.
  - rewrite Hl. cbn [length] in *.
    destruct (Nat.eqb_spec (S (length t) - 1) p) as [e|ne].
    + destruct p; [lia|]. f_equal; lia.
    + destruct (Nat.ltb_spec p (S (length t) - 1)); [f_equal; lia | lia].
Qed.


Inductive iact := IKeep | IRemove | ISet (v : N).


(* what is left of the container after applying the actions position-wise *)
Fixpoint apply_acts (l : list N) (acts : list iact) : list N :=
  match l, acts with
  | x :: r, IKeep :: a => x :: apply_acts r a
  | x :: r, IRemove :: a => apply_acts r a
  | x :: r, ISet v :: a => v :: apply_acts r a
  | _, _ => l
  end.

Fixpoint acts_dtors (l : list N) (acts : list iact) : list N :=
  match l, acts with
  | x :: r, IRemove :: a => x :: acts_dtors r a
  | x :: r, _ :: a => acts_dtors r a
  | _, _ => []
  end.

Fixpoint visits (evs : list (list ev)) : list N :=
  match evs with
  | [EPtr x] :: r => x :: visits r
  | _ :: r => visits r
  | [] => []
  end.
Fixpoint dtors (evs : list (list ev)) : list N :=
  match evs with
  | e :: r => flat_map (fun x => match x with EDtor v => [v] | _ => [] end) e ++ dtors r
  | [] => []
  end.


Lemma visits_app a b : visits (a ++ b) = visits a ++ visits b.
Proof. induction a as [|e r IH]; cbn [app visits]; [reflexivity|].
       destruct e as [|x [|y t]]; try destruct x; cbn [app]; rewrite ?IH; reflexivity. Qed.
Lemma dtors_app a b : dtors (a ++ b) = dtors a ++ dtors b.
Proof. induction a as [|e r IH]; cbn [app dtors]; [reflexivity|]. rewrite IH, app_assoc. reflexivity. Qed.


Lemma remove_nth_app {A} (done : list A) x r : remove_nth (length done) (done ++ x :: r) = done ++ r.
Proof. induction done; cbn; [reflexivity|]. f_equal; auto. Qed.
Lemma set_nth_app {A} (done : list A) x v r : set_nth (length done) v (done ++ x :: r) = done ++ v :: r.
Proof. induction done; cbn; [reflexivity|]. f_equal; auto. Qed.


Ltac ltb_case := match goal with |- context [Nat.ltb ?a ?b] => destruct (Nat.ltb_spec a b) end.

