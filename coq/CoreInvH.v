(* CoreInvH.v -- GLOBAL invariants of the actor-core model that are pointwise in the objects of the reference-counted heap
   (third companion: CoreInv.v modules, CoreInvS.v sources).  The library touches an object in four ways only: a reference is
   taken on a LIVE object, a reference is dropped (the count goes from S n to n; at 1 -> 0 the destructor runs), its links
   change, and creation at a fresh index.  Any predicate R respecting these holds of every object in every world any script
   reaches, whatever the callbacks do. *)
From LM Require Import Base CoreTypes CoreModel CoreExec CoreInv.
From Coq Require Import Lia.

Section InvH.
  Variable R : nat -> obj -> Prop.
  Variable n0 : nat.
  Hypothesis HR_ref : forall i ob, R i ob -> o_refs ob <> 0 -> R i (mkObj (o_kind ob) (S (o_refs ob)) (o_links ob) (o_tag ob)).
  Hypothesis HR_unref : forall i ob n, R i ob -> o_refs ob = S n -> R i (mkObj (o_kind ob) n (o_links ob) (o_tag ob)).
  Hypothesis HR_links : forall i ob l, R i ob -> R i (mkObj (o_kind ob) (o_refs ob) l (o_tag ob)).
  Hypothesis HR_new : forall i k links tag, n0 <= i -> R i (mkObj k 1 links tag).

  Definition LQ (l : list obj) : Prop := n0 <= length l /\ forall i s, nth_error l i = Some s -> R i s.
  Lemma upd_nth_length {A} (l : list A) j g : length (upd_nth j g l) = length l.
  Proof. revert j; induction l as [|a l IH]; intros [|j]; cbn; auto. Qed.
  Definition MP (w : world) : Prop := LQ (w_heap w).

  Lemma LQ_upd_nth l j g : LQ l -> (forall s, nth_error l j = Some s -> R j s -> R j (g s)) -> LQ (upd_nth j g l).
  Proof.
    intros [Hl H] Hg. split; [rewrite upd_nth_length; exact Hl|]. intros i s Hi. destruct (Nat.eq_dec j i) as [->|Hne].
    - destruct (nth_error l i) as [s0|] eqn:E.
      + rewrite (nth_upd_same _ _ _ _ E) in Hi. injection Hi as <-. apply Hg; [reflexivity|]. apply H, E.
      + rewrite (upd_nth_none _ _ _ E) in Hi. congruence.
    - rewrite nth_upd_other in Hi by exact Hne. apply H, Hi.
  Qed.
  Lemma LQ_app l x : LQ l -> (n0 <= length l -> R (length l) x) -> LQ (l ++ [x]).
  Proof.
    intros [Hl H] Hx. specialize (Hx Hl). split; [rewrite app_length; cbn; lia|]. intros i s Hi. destruct (Nat.lt_ge_cases i (length l)) as [Hlt|Hge].
    - rewrite nth_error_app1 in Hi by exact Hlt. apply H, Hi.
    - rewrite nth_error_app2 in Hi by exact Hge. destruct (i - length l) as [|k] eqn:Ek; cbn in Hi; [|destruct k; discriminate].
      injection Hi as <-. replace i with (length l) by lia. exact Hx.
  Qed.

  Lemma MP_heap w w' : w_heap w' = w_heap w -> MP w -> MP w'.
  Proof. unfold MP. intros ->. auto. Qed.
  Lemma MP_get w i s : MP w -> nth_error (w_heap w) i = Some s -> R i s.
  Proof. unfold MP. intros [_ H] Hn. apply H, Hn. Qed.

  Ltac same := unfold MP in *; cbn [w_heap emit set_tls set_mods set_srcs set_fds set_ufd set_urefs set_uevts set_errno upd_mod upd_src]; assumption.
  Lemma MP_emit w t : MP w -> MP (emit w t). Proof. intros; same. Qed.
  Lemma MP_set_tls w c : MP w -> MP (set_tls w c). Proof. intros; same. Qed.
  Lemma MP_set_srcs w h : MP w -> MP (set_srcs w h). Proof. intros; same. Qed.
  Lemma MP_set_fds w n : MP w -> MP (set_fds w n). Proof. intros; same. Qed.
  Lemma MP_set_ufd w u : MP w -> MP (set_ufd w u). Proof. intros; same. Qed.
  Lemma MP_set_urefs w u : MP w -> MP (set_urefs w u). Proof. intros; same. Qed.
  Lemma MP_set_uevts w u : MP w -> MP (set_uevts w u). Proof. intros; same. Qed.
  Lemma MP_set_errno w e : MP w -> MP (set_errno w e). Proof. intros; same. Qed.
  Lemma MP_set_mods w ms : MP w -> MP (set_mods w ms). Proof. intros; same. Qed.
  Lemma MP_upd_mod w m g : MP w -> MP (upd_mod w m g). Proof. intros; same. Qed.
  Lemma MP_upd_src w i g : MP w -> MP (upd_src w i g). Proof. intros; same. Qed.
  Lemma MP_fresh w : MP w -> MP (fst (fresh w)). Proof. intros; unfold fresh, MP in *; cbn; assumption. Qed.
  Lemma MP_upd_ctx w f : MP w -> MP (upd_ctx w f). Proof. intros. unfold upd_ctx. destruct (w_tls w); [apply MP_set_tls|]; assumption. Qed.

  Lemma MP_halloc_fst w k l t : MP w -> MP (fst (halloc w k l t)).
  Proof. intros H. unfold halloc, MP, set_heap; cbn [fst w_heap]. apply LQ_app; [exact H|]. intros Hl. apply HR_new, Hl. Qed.
  Lemma MP_halloc w k l t w1 o : halloc w k l t = (w1, o) -> MP w -> MP w1.
  Proof. intros E H. pose proof (MP_halloc_fst w k l t H) as H1. rewrite E in H1. exact H1. Qed.
  Lemma MP_href w o : MP w -> MP (href w o).
  Proof.
    intros H. unfold href. destruct (nth_error (w_heap w) o) as [ob|] eqn:E; [|apply MP_emit, H].
    destruct (Nat.eqb (o_refs ob) 0) eqn:Ez; [apply MP_emit, H|]. unfold MP, set_heap; cbn [w_heap]. apply LQ_upd_nth; [exact H|].
    intros s Hs Hr. rewrite E in Hs. injection Hs as <-. apply HR_ref; [exact Hr|]. apply Nat.eqb_neq, Ez.
  Qed.
  Lemma MP_href_opt w o : MP w -> MP (href_opt w o). Proof. destruct o; [apply MP_href|auto]. Qed.
  Lemma MP_add_link w o l : MP w -> MP (add_link w o l).
  Proof. intros H. unfold add_link, MP, set_heap; cbn [w_heap]. apply LQ_upd_nth; [exact H|]. intros s _ Hr. apply HR_links, Hr. Qed.
  Lemma MP_del_link w o l : MP w -> MP (del_link w o l).
  Proof. intros H. unfold del_link, MP, set_heap; cbn [w_heap]. apply LQ_upd_nth; [exact H|]. intros s _ Hr. apply HR_links, Hr. Qed.

  Lemma MP_dtor_effect w ob : MP w -> MP (dtor_effect w ob).
  Proof. intros H. apply (MP_heap w); [|exact H]. unfold dtor_effect. destruct (o_kind ob); try reflexivity.
    destruct (nth_error (w_srcs w) (N.to_nat (o_tag ob))) as [s|]; [|reflexivity].
    destruct (s_armed s), (f_autoclose (s_fl s)), (s_kind s), (f_dup (s_fl s)), (f_autofree (s_fl s)); reflexivity.
  Qed.
  Lemma MP_hunref_loop : forall fuel w work, MP w -> MP (hunref_loop fuel w work).
  Proof.
    induction fuel as [|f IH]; intros w work H; cbn [hunref_loop]; [apply MP_emit, H|].
    destruct work as [|o rest]; [exact H|]. destruct (nth_error (w_heap w) o) as [ob|] eqn:E; [|apply IH, MP_emit, H].
    destruct (o_refs ob) as [|[|n]] eqn:Er; apply IH; try (apply MP_emit, H).
    - apply MP_dtor_effect. unfold MP, set_heap; cbn [w_heap]. apply LQ_upd_nth; [exact H|].
      intros s Hs Hr. rewrite E in Hs. injection Hs as <-. apply (HR_unref _ _ 0 Hr Er).
    - unfold MP, set_heap; cbn [w_heap]. apply LQ_upd_nth; [exact H|].
      intros s Hs Hr. rewrite E in Hs. injection Hs as <-. apply (HR_unref _ _ (S n) Hr Er).
  Qed.
  Lemma MP_hunref w o : MP w -> MP (hunref w o). Proof. apply MP_hunref_loop. Qed.
  Lemma MP_hunref_opt w o : MP w -> MP (hunref_opt w o). Proof. destruct o; [apply MP_hunref|auto]. Qed.

  Lemma MP_consume_token w m w' : MP w -> consume_token w m = Some w' -> MP w'.
  Proof.
    intros H Hc. unfold consume_token in Hc. destruct (get_mod w m) as [mr|]; [|discriminate].
    destruct (m_tb_tokens mr) as [[|p]|]; try discriminate; injection Hc as <-; [apply MP_upd_mod|]; exact H.
  Qed.

  Ltac mp_ext := fail.
  Ltac mp_step :=
    first
    [ assumption
    | mp_ext
    | match goal with |- MP (let '(_, _) := ?x in _) => let H := fresh "Hx" in assert (H : MP (fst x)); [|destruct x eqn:?; cbn [fst] in H] end
    | match goal with |- MP (fst (let '(_, _) := ?x in _)) => let H := fresh "Hx" in assert (H : MP (fst x)); [|destruct x eqn:?; cbn [fst] in H] end
    | match goal with |- MP (match ?x with _ => _ end) => destruct x eqn:? end
    | match goal with |- MP (if ?x then _ else _) => destruct x eqn:? end
    | match goal with |- MP (fst (match ?x with _ => _ end)) => destruct x eqn:? end
    | match goal with |- MP (fst (if ?x then _ else _)) => destruct x eqn:? end
    | match goal with |- MP (fst (_, _)) => cbn [fst] end
    | match goal with |- MP (emit _ _) => apply MP_emit end
    | match goal with |- MP (set_tls _ _) => apply MP_set_tls end
    | match goal with |- MP (set_mods _ _) => apply MP_set_mods end
    | match goal with |- MP (set_srcs _ _) => apply MP_set_srcs end
    | match goal with |- MP (set_fds _ _) => apply MP_set_fds end
    | match goal with |- MP (set_ufd _ _) => apply MP_set_ufd end
    | match goal with |- MP (set_urefs _ _) => apply MP_set_urefs end
    | match goal with |- MP (set_uevts _ _) => apply MP_set_uevts end
    | match goal with |- MP (set_errno _ _) => apply MP_set_errno end
    | match goal with |- MP (upd_ctx _ _) => apply MP_upd_ctx end
    | match goal with |- MP (upd_src _ _ _) => apply MP_upd_src end
    | match goal with |- MP (href _ _) => apply MP_href end
    | match goal with |- MP (hunref _ _) => apply MP_hunref end
    | match goal with |- MP (href_opt _ _) => apply MP_href_opt end
    | match goal with |- MP (hunref_opt _ _) => apply MP_hunref_opt end
    | match goal with |- MP (add_link _ _ _) => apply MP_add_link end
    | match goal with |- MP (del_link _ _ _) => apply MP_del_link end
    | match goal with |- MP (fst (fresh _)) => apply MP_fresh end
    | match goal with |- MP (fst (halloc _ _ _ _)) => apply MP_halloc_fst end
    | match goal with |- MP (upd_mod _ _ _) => apply MP_upd_mod end ].
  Ltac mp := repeat mp_step.

  Variable sc : script.
  Variable run_cb : world -> modid -> cbkind -> nat -> list evtrec -> world * bool.
  Hypothesis Hcb : forall w m k h evs, MP w -> MP (fst (run_cb w m k h evs)).

  Lemma MP_poll_add w s : MP w -> MP (poll_add w s).
  Proof. intros H. unfold poll_add. mp. Qed.
  Lemma MP_poll_rm w s : MP w -> MP (poll_rm w s).
  Proof. intros H. unfold poll_rm. mp. Qed.

  Lemma MP_fold_left {A} (f : world -> A -> world) l : (forall w a, MP w -> MP (f w a)) -> forall w, MP w -> MP (fold_left f l w).
  Proof. intros Hf. induction l as [|a l IH]; intros w H; cbn [fold_left]; [exact H|]. apply IH, Hf, H. Qed.

  Lemma MP_tell_copy w r send sys sender topic data sub pill dref : MP w -> MP (tell_copy sc w r send sys sender topic data sub pill dref).
  Proof.
    intros H. unfold tell_copy. destruct (get_mod w r) as [rr|]; [|exact H]. destruct (state_in _ _); [|exact H].
    set (w1 := href_opt _ dref). assert (H1 : MP w1) by (unfold w1; mp).
    destruct (halloc w1 OMsg _ 0) as [w2 o] eqn:E2. assert (H2 : MP w2) by (eapply MP_halloc; [exact E2|exact H1]).
    destruct (fresh w2) as [w3 gid] eqn:E3. assert (H3 : MP w3) by (replace w3 with (fst (fresh w2)) by (rewrite E3; reflexivity); apply MP_fresh; exact H2).
    mp.
  Qed.

  Lemma MP_deliver w rcp sys sender topic data pill dref : MP w -> MP (deliver sc w rcp sys sender topic data pill dref).
  Proof.
    intros H. unfold deliver. destruct (fresh w) as [w0 send] eqn:E0.
    assert (H0 : MP w0) by (replace w0 with (fst (fresh w)) by (rewrite E0; reflexivity); apply MP_fresh; exact H).
    destruct rcp as [r|]; [apply MP_tell_copy; exact H0|]. destruct topic as [t|].
    - apply MP_fold_left; [|exact H0]. intros w1 r H1. destruct (get_mod w1 r) as [rr|]; [|exact H1].
      destruct (state_in _ _); [|exact H1]. destruct (fetch_sub sc w1 rr t); [apply MP_tell_copy; exact H1|exact H1].
    - apply MP_fold_left; [|exact H0]. intros w1 r H1. apply MP_tell_copy; exact H1.
  Qed.

  Lemma MP_tell_system w rcp sender topic pill : MP w -> MP (tell_system sc w rcp sender topic pill).
  Proof. intros H. unfold tell_system. apply MP_deliver. mp. Qed.


  Lemma MP_fresh_eq w w1 n : fresh w = (w1, n) -> MP w -> MP w1.
  Proof. intros E H. pose proof (MP_fresh w H) as H1. rewrite E in H1. exact H1. Qed.

  Lemma MP_make_evt w k src pay up : MP w -> MP (fst (make_evt w k src pay up)).
  Proof.
    intros H. unfold make_evt.
    repeat match goal with |- context [let '(_, _) := ?x in _] => destruct x eqn:? end.
    cbn [fst].
    eapply MP_fresh_eq; [eassumption|]. eapply MP_halloc; [eassumption|].
    assert (H1 : MP (href_opt w (src_obj w src))) by mp.
    destruct pay; try (eapply MP_halloc; [eassumption|exact H1]).
    match goal with E : (_, _) = (_, _) |- _ => injection E as <- _ end. exact H1.
  Qed.

  Lemma MP_unref_evts l : forall w, MP w -> MP (unref_evts w l).
  Proof. induction l as [|e l IH]; intros w H; cbn [unref_evts]; [exact H|]. apply IH. mp. Qed.
  Lemma MP_lock_mod w m : MP w -> MP (lock_mod w m).
  Proof. intros H. unfold lock_mod. mp. Qed.
  Lemma MP_unlock_mod w m : MP w -> MP (unlock_mod w m).
  Proof. intros H. unfold unlock_mod. mp. Qed.
  Lemma MP_run_cb_eq w m k h evs w' b : run_cb w m k h evs = (w', b) -> MP w -> MP w'.
  Proof. intros E H. pose proof (Hcb w m k h evs H) as H1. rewrite E in H1. exact H1. Qed.

  Ltac mp_ext ::=
    match goal with
    | |- MP (unref_evts _ _) => apply MP_unref_evts
    | |- MP (lock_mod _ _) => apply MP_lock_mod
    | |- MP (unlock_mod _ _) => apply MP_unlock_mod
    | |- MP (poll_add _ _) => apply MP_poll_add
    | |- MP (poll_rm _ _) => apply MP_poll_rm
    | |- MP (tell_system _ _ _ _ _ _) => apply MP_tell_system
    | |- MP (fold_left _ _ _) => apply MP_fold_left; [let w := fresh "w" in let a := fresh "a" in let H := fresh "H" in intros w a H|]
    | E : run_cb ?w _ _ _ _ = (?w1, _) |- MP ?w1 => eapply MP_run_cb_eq; [exact E|]
    | E : halloc ?w _ _ _ = (?w1, _) |- MP ?w1 => eapply MP_halloc; [exact E|]
    | E : fresh ?w = (?w1, _) |- MP ?w1 => eapply MP_fresh_eq; [exact E|]
    | |- MP (fst (run_cb _ _ _ _ _)) => apply Hcb
    end.

  Lemma MP_call_pubsub_cb w m evts : MP w -> MP (call_pubsub_cb run_cb w m evts).
  Proof. intros H. unfold call_pubsub_cb. mp. Qed.

  Lemma MP_tb_refill w m mr t b : MP w -> get_mod w m = Some mr -> m_tb_tokens mr = Some t -> m_tb_burst mr = Some b -> (t <? b)%N = true ->
    MP (upd_mod w m (mod_with_tb (m_tb_rate mr) (m_tb_burst mr) (Some (t + 1)%N) (m_tb_tmr mr))).
  Proof. intros H _ _ _ _. apply MP_upd_mod, H. Qed.

  Lemma MP_push_evt w m e : MP w -> MP (push_evt run_cb w m e).
  Proof.
    intros H. unfold push_evt. destruct (get_mod w m) as [mr|] eqn:Hm; [|mp].
    set (internal := match match e_src e with Some i => get_src w i | None => None end with Some s => f_internal (s_fl s) | None => INone end).
    destruct internal eqn:Ei.
    - (* INone *) mp; apply MP_call_pubsub_cb; mp.
    - (* IBatch *) assert (H1 : MP (hunref w (e_obj e))) by mp. mp; apply MP_call_pubsub_cb; mp.
    - (* ITb *)
      assert (H1 : MP (hunref w (e_obj e))) by mp.
      match goal with |- MP (match get_mod ?w2 m with _ => _ end) => assert (H2 : MP w2) end.
      { destruct (get_mod (hunref w (e_obj e)) m) as [mr1|] eqn:Hm1; [|exact H1].
        destruct (m_tb_tokens mr1) as [t|] eqn:Et; [|exact H1]. destruct (m_tb_burst mr1) as [b|] eqn:Eb; [|exact H1].
        destruct (N.ltb t b) eqn:Hlt; [|exact H1]. rewrite <- Eb. eapply MP_tb_refill; eauto. }
      mp; apply MP_call_pubsub_cb; mp.
    - (* ITick *) assert (H1 : MP (hunref w (e_obj e))) by mp. mp; apply MP_call_pubsub_cb; mp.
  Qed.

  Lemma MP_remove_src_entry w m i : MP w -> MP (remove_src_entry w m i).
  Proof. intros H. unfold remove_src_entry. mp. Qed.
  Lemma MP_new_src w m k key fl up : MP w -> MP (fst (new_src w m k key fl up)).
  Proof. intros H. unfold new_src. mp. Qed.
  Lemma MP_new_src_eq w m k key fl up w1 i : new_src w m k key fl up = (w1, i) -> MP w -> MP w1.
  Proof. intros E H. pose proof (MP_new_src w m k key fl up H) as H1. rewrite E in H1. exact H1. Qed.

  Lemma MP_register_mod_src w m k key p one ac int up : MP w -> MP (fst (register_mod_src w m k key p one ac int up)).
  Proof.
    intros H. unfold register_mod_src. destruct (mod_assert w m); [exact H|]. destruct (Nat.leb 4 p); [exact H|].
    destruct (consume_token w m) as [w1|] eqn:Ec; [|exact H]. pose proof (MP_consume_token _ _ _ H Ec) as H1.
    destruct (get_mod w1 m) as [mr|]; [|exact H1]. cbn zeta. destruct (find_src w1 mr k key); [exact H1|].
    match goal with |- context [new_src ?a ?b ?c ?d ?e ?f] => destruct (new_src a b c d e f) as [w2 i] eqn:En end.
    pose proof (MP_new_src_eq _ _ _ _ _ _ _ _ En H1) as H2. cbn [fst]. mp.
  Qed.
  Lemma MP_register_dup_fd w m key p one up : MP w -> MP (fst (register_dup_fd w m key p one up)).
  Proof.
    intros H. unfold register_dup_fd. destruct (mod_assert w m); [exact H|]. destruct (Nat.leb 4 p); [exact H|].
    destruct (consume_token w m) as [w1|] eqn:Ec; [|exact H]. pose proof (MP_consume_token _ _ _ H Ec) as H1.
    destruct (get_mod w1 m) as [mr|]; [|exact H1]. cbn zeta.
    match goal with |- context [new_src ?a ?b ?c ?d ?e ?f] => destruct (new_src a b c d e f) as [w2 i] eqn:En end.
    pose proof (MP_new_src_eq _ _ _ _ _ _ _ _ En H1) as H2. cbn [fst]. mp.
  Qed.
  Lemma MP_register_eq w m k key p one ac int up w1 r : register_mod_src w m k key p one ac int up = (w1, r) -> MP w -> MP w1.
  Proof. intros E H. pose proof (MP_register_mod_src w m k key p one ac int up H) as H1. rewrite E in H1. exact H1. Qed.

  Lemma MP_deregister_mod_src w m k key : MP w -> MP (fst (deregister_mod_src w m k key)).
  Proof.
    intros H. unfold deregister_mod_src. destruct (mod_assert w m); [exact H|].
    destruct (consume_token w m) as [w1|] eqn:Ec; [|exact H]. pose proof (MP_consume_token _ _ _ H Ec) as H1.
    destruct (get_mod w1 m) as [mr|]; [|exact H1]. destruct (find_src w1 mr k key); [|exact H1]. cbn [fst].
    mp. apply MP_remove_src_entry. mp.
  Qed.

  Lemma MP_drain_pipe q : forall w, MP w -> MP (drain_pipe w q).
  Proof. induction q as [|g q IH]; intros w H; cbn [drain_pipe]; [exact H|]. apply IH. mp. Qed.

  Ltac mp_ext ::=
    match goal with
    | |- MP (unref_evts _ _) => apply MP_unref_evts
    | |- MP (lock_mod _ _) => apply MP_lock_mod
    | |- MP (unlock_mod _ _) => apply MP_unlock_mod
    | |- MP (poll_add _ _) => apply MP_poll_add
    | |- MP (poll_rm _ _) => apply MP_poll_rm
    | |- MP (tell_system _ _ _ _ _ _) => apply MP_tell_system
    | |- MP (remove_src_entry _ _ _) => apply MP_remove_src_entry
    | |- MP (drain_pipe _ _) => apply MP_drain_pipe
    | |- MP (call_pubsub_cb _ _ _ _) => apply MP_call_pubsub_cb
    | |- MP (push_evt _ _ _ _) => apply MP_push_evt
    | |- MP (fold_left _ _ _) => apply MP_fold_left; [let w := fresh "w" in let a := fresh "a" in let H := fresh "H" in intros w a H|]
    | E : run_cb ?w _ _ _ _ = (?w1, _) |- MP ?w1 => eapply MP_run_cb_eq; [exact E|]
    | E : halloc ?w _ _ _ = (?w1, _) |- MP ?w1 => eapply MP_halloc; [exact E|]
    | E : fresh ?w = (?w1, _) |- MP ?w1 => eapply MP_fresh_eq; [exact E|]
    | E : register_mod_src ?w _ _ _ _ _ _ _ _ = (?w1, _) |- MP ?w1 => eapply MP_register_eq; [exact E|]
    | |- MP (fst (run_cb _ _ _ _ _)) => apply Hcb
    | |- MP (fst (new_src _ _ _ _ _ _)) => apply MP_new_src
    | |- MP (fst (register_mod_src _ _ _ _ _ _ _ _ _)) => apply MP_register_mod_src
    | |- MP (fst (deregister_mod_src _ _ _ _)) => apply MP_deregister_mod_src
    | |- MP (fst (register_dup_fd _ _ _ _ _ _)) => apply MP_register_dup_fd
    end.

  Lemma MP_optional_hook w m k : MP w -> MP (fst (optional_hook run_cb w m k)).
  Proof. intros H. unfold optional_hook. destruct k; mp. Qed.
  Lemma MP_optional_hook_eq w m k w1 r : optional_hook run_cb w m k = (w1, r) -> MP w -> MP w1.
  Proof. intros E H. pose proof (MP_optional_hook w m k H) as H1. rewrite E in H1. exact H1. Qed.

  Lemma MP_reset_module w m : MP w -> MP (reset_module w m).
  Proof. intros H. unfold reset_module. mp. Qed.

  Lemma MP_drop_sources w m : MP w -> MP (drop_sources w m).
  Proof. intros H. unfold drop_sources. mp. Qed.

  Lemma fold_left_inv {S A} (P : S -> Prop) (f : S -> A -> S) l : (forall s a, P s -> P (f s a)) -> forall s, P s -> P (fold_left f l s).
  Proof. intros Hf. induction l as [|a l IH]; intros s H; cbn [fold_left]; [exact H|]. apply IH, Hf, H. Qed.

  Ltac mp_ext ::=
    match goal with
    | |- MP (unref_evts _ _) => apply MP_unref_evts
    | |- MP (lock_mod _ _) => apply MP_lock_mod
    | |- MP (unlock_mod _ _) => apply MP_unlock_mod
    | |- MP (poll_add _ _) => apply MP_poll_add
    | |- MP (poll_rm _ _) => apply MP_poll_rm
    | |- MP (tell_system _ _ _ _ _ _) => apply MP_tell_system
    | |- MP (remove_src_entry _ _ _) => apply MP_remove_src_entry
    | |- MP (drain_pipe _ _) => apply MP_drain_pipe
    | |- MP (call_pubsub_cb _ _ _ _) => apply MP_call_pubsub_cb
    | |- MP (push_evt _ _ _ _) => apply MP_push_evt
    | |- MP (reset_module _ _) => apply MP_reset_module
    | |- MP (drop_sources _ _) => apply MP_drop_sources
    | |- MP (fold_left _ _ _) => apply MP_fold_left; [let w := fresh "w" in let a := fresh "a" in let H := fresh "H" in intros w a H|]
    | E : run_cb ?w _ _ _ _ = (?w1, _) |- MP ?w1 => eapply MP_run_cb_eq; [exact E|]
    | E : halloc ?w _ _ _ = (?w1, _) |- MP ?w1 => eapply MP_halloc; [exact E|]
    | E : fresh ?w = (?w1, _) |- MP ?w1 => eapply MP_fresh_eq; [exact E|]
    | E : register_mod_src ?w _ _ _ _ _ _ _ _ = (?w1, _) |- MP ?w1 => eapply MP_register_eq; [exact E|]
    | |- MP (fst (run_cb _ _ _ _ _)) => apply Hcb
    | |- MP (fst (new_src _ _ _ _ _ _)) => apply MP_new_src
    | |- MP (fst (register_mod_src _ _ _ _ _ _ _ _ _)) => apply MP_register_mod_src
    | |- MP (fst (deregister_mod_src _ _ _ _)) => apply MP_deregister_mod_src
    | |- MP (fst (register_dup_fd _ _ _ _ _ _)) => apply MP_register_dup_fd
    | |- MP (fst (optional_hook _ _ _ _)) => apply MP_optional_hook
    | |- MP (fst (make_evt _ _ _ _ _)) => apply MP_make_evt
    end.

  Lemma MP_stop_mod_as w m stopping final : MP w -> MP (fst (stop_mod_as sc run_cb w m stopping final)).
  Proof. intros H. unfold stop_mod_as. mp. Qed.
  Lemma MP_stop_mod w m stopping : MP w -> MP (fst (stop_mod sc run_cb w m stopping)).
  Proof. intros H. unfold stop_mod. apply MP_stop_mod_as, H. Qed.

  Ltac mp_ext2 :=
    match goal with
    | |- MP (fst (stop_mod_as _ _ _ _ _ _)) => apply MP_stop_mod_as
    | |- MP (fst (stop_mod _ _ _ _ _)) => apply MP_stop_mod
    end.
  Ltac mp2 := repeat first [mp_step | mp_ext2].

  Lemma MP_start_mod w m starting : MP w -> MP (fst (start_mod sc run_cb w m starting)).
  Proof. intros H. unfold start_mod. mp2. Qed.

  Lemma MP_evaluate_module w m : MP w -> MP (evaluate_module sc run_cb w m).
  Proof. intros H. unfold evaluate_module. mp2. apply MP_start_mod. mp2. Qed.

  Lemma MP_iterate_mods f : (forall w m, MP w -> MP (f w m)) -> forall fuel w after, MP w -> MP (fst (iterate_mods fuel w after f)).
  Proof.
    intros Hf. induction fuel as [|fu IH]; intros w after H; cbn [iterate_mods]; [mp|].
    destruct (w_tls w) as [c|]; [|exact H].
    match goal with |- context [match ?r with [] => _ | _ => _ end] => destruct r as [|[slot m] rest'] end; [exact H|].
    pose proof (Hf w m H) as H1. destruct (w_tls (f w m)) as [c1|]; [|exact H1].
    destruct (tbl_find slot (c_modules c1)) as [m'|]; [|apply IH, H1].
    destruct (Nat.eqb m' m); [|apply IH, H1]. destruct (Nat.eqb _ _); [apply IH, H1|exact H1].
  Qed.

  Lemma MP_again f : (forall w m, MP w -> MP (f w m)) -> forall n w, MP w ->
    MP ((fix again (n : nat) (w : world) : world :=
           match n with O => w | S k => let '(w', ab) := iterate_mods (iter_fuel w) w None f in if ab then again k w' else w' end) n w).
  Proof.
    intros Hf. induction n as [|k IH]; intros w H; [exact H|].
    pose proof (MP_iterate_mods f Hf (iter_fuel w) w None H) as H1.
    destruct (iterate_mods (iter_fuel w) w None f) as [w' ab]. cbn [fst] in H1. destruct ab; [apply IH, H1|exact H1].
  Qed.

  Lemma MP_ctx_deregister w f : (forall w m, MP w -> MP (f w m)) -> MP w -> MP (fst (ctx_deregister w f)).
  Proof.
    intros Hf H. unfold ctx_deregister. destruct (the_ctx w) as [c|]; [|exact H]. destruct (c_state c); try exact H.
    lazy zeta. set (w1 := upd_ctx w _). assert (Hw1 : MP w1) by (unfold w1; mp).
    pose proof (MP_iterate_mods f Hf (iter_fuel w1) w1 None Hw1) as Hi.
    destruct (iterate_mods (iter_fuel w1) w1 None f) as [w' ab]; cbn [fst] in Hi.
    match goal with |- context [w_tls ?x] => assert (H2 : MP x) by (destruct ab; [apply MP_again; [exact Hf|exact Hi]|exact Hi]); destruct (w_tls x) end; cbn [fst]; mp.
  Qed.

  Lemma MP_mod_deregister : forall fuel w m fu, MP w -> MP (fst (mod_deregister sc run_cb fuel w m fu)).
  Proof.
    induction fuel as [|fu IH]; intros w m from_user H; cbn [mod_deregister]; [mp|].
    match goal with |- context [match ?g with Some e => (w, e) | None => _ end] => destruct g end; [exact H|].
    destruct (get_mod w m) as [mr|]; [|exact H]. destruct (w_tls w) as [c|] eqn:Ec; [|exact H].
    destruct (_ && _); [exact H|]. cbn zeta.
    destruct (tbl_find _ (c_modules c)) as [m'|]; [|mp]. destruct (negb _); [mp|].
    match goal with |- context [stop_mod_as sc run_cb ?x m true MZombie] =>
      assert (H4 : MP (fst (stop_mod_as sc run_cb x m true MZombie))) by (apply MP_stop_mod_as; mp);
      destruct (stop_mod_as sc run_cb x m true MZombie) as [w4 r4] end. cbn [fst] in H4.
    match goal with |- context [w_tls ?x] => assert (H6 : MP x) by (destruct from_user; mp); set (w6 := x) in * end.
    destruct (w_tls w6) as [c6|]; [|cbn [fst]; mp].
    destruct (_ && _ && _ && _); [|cbn [fst]; mp].
    pose proof (MP_ctx_deregister w6 (fun w m => fst (mod_deregister sc run_cb fu w m false)) (fun w0 m0 H0 => IH w0 m0 false H0) H6) as H7.
    destruct (ctx_deregister w6 _) as [w7 r7]. cbn [fst] in *. mp.
  Qed.

  Lemma MP_mod_register w m : MP w -> MP (fst (mod_register sc run_cb w m)).
  Proof.
    intros H. unfold mod_register. destruct (spec_of sc m) as [sp|]; [|exact H]. destruct (the_ctx w) as [c|]; [|exact H].
    destruct (c_finalized c); [exact H|].
    match goal with |- context [let '(w1, r1) := ?x in _] => assert (H1 : MP (fst x)); [|destruct x as [w1 r1]; cbn [fst] in H1] end.
    { destruct (tbl_find _ _) as [old|]; [|exact H]. destruct (get_mod w old) as [omr|]; [|exact H]. destruct (m_replace omr); [|exact H].
      apply MP_mod_deregister, H. }
    destruct (negb _); [exact H1|].
    match goal with |- context [match ?x with Some c1 => _ | None => (w1, rEPERM) end] => destruct x as [c1|] end; [|exact H1].
    destruct (c_finalized c1); [exact H1|]. cbn zeta.
    destruct (halloc (href w1 (c_obj c1)) OMod _ _) as [w3 o] eqn:E3. assert (H3 : MP w3) by (eapply MP_halloc; [exact E3|mp]).
    destruct (get_mod (href w3 o) m) as [ph|]; [|cbn [fst]; mp]. destruct (negb _); cbn [fst]; [mp|].
    mp.
  Qed.

  Lemma MP_eval_pass w : MP w -> MP (eval_pass sc run_cb w).
  Proof. intros H. unfold eval_pass. apply MP_iterate_mods; [|exact H]. intros; apply MP_evaluate_module; assumption. Qed.

  Lemma MP_loop_start w : MP w -> MP (fst (loop_start sc run_cb w)).
  Proof.
    intros H. unfold loop_start. cbn [fst].
    assert (H2 : MP (eval_pass sc run_cb (upd_ctx w (fun c => ctx_with_quit false 0 (ctx_with_state CLooping (ctx_with_maxev (N.to_nat cM_CTX_DEFAULT_EVENTS) c)))))) by (apply MP_eval_pass; mp).
    mp2.
  Qed.

  Lemma MP_flush_mod w m : MP w -> MP (flush_mod sc run_cb w m).
  Proof.
    intros H. unfold flush_mod. destruct (get_mod w m) as [mr|]; [|exact H].
    match goal with |- context [let '(w1, start) := ?x in _] => assert (H1 : MP (fst x)) by mp; destruct x as [w1 start]; cbn [fst] in H1 end.
    destruct (m_pipe mr) as [q|]; [|mp].
    match goal with |- context [fold_left ?f q ?a] =>
      assert (H3 : MP (fst (fst (fold_left f q a)))); [|destruct (fold_left f q a) as [[w3 evs] pilled]; cbn [fst] in H3] end.
    { apply (fold_left_inv (fun acc : world * list evtrec * bool => MP (fst (fst acc)))); [|cbn [fst]; mp].
      intros [[w0 evs0] p0] g H0. cbn [fst] in H0.
      destruct (_ && _); [|cbn [fst]; mp]. destruct (g_pill g); [cbn [fst]; mp|].
      match goal with |- context [make_evt ?a ?b ?c ?d ?e] => pose proof (MP_make_evt a b c d e H0) as Hm; destruct (make_evt a b c d e) end. exact Hm. }
    mp2.
  Qed.

  Lemma MP_loop_stop w cd : (forall w, MP w -> MP (fst (cd w))) -> MP w -> MP (fst (loop_stop sc run_cb w cd)).
  Proof.
    intros Hcd H. unfold loop_stop. lazy zeta.
    set (w1 := tell_system sc w None None tCTX_STOPPED false). assert (Hw1 : MP w1) by (unfold w1; mp).
    pose proof (MP_iterate_mods (flush_mod sc run_cb) MP_flush_mod (iter_fuel w1) w1 None Hw1) as Hi.
    destruct (iterate_mods (iter_fuel w1) w1 None (flush_mod sc run_cb)) as [w' ab]; cbn [fst] in Hi.
    match goal with |- context [upd_ctx ?x (ctx_with_state CIdle)] => assert (H2 : MP x) by (destruct ab; [apply MP_again; [apply MP_flush_mod|exact Hi]|exact Hi]); set (w2 := x) in * end.
    match goal with |- context [w_tls ?x] => assert (H5 : MP x) by mp; destruct (w_tls x); [|exact H5] end.
    destruct (_ && _); cbn [fst]; [apply Hcd|]; exact H5.
  Qed.

  Lemma MP_make_evt_eq w k src pay up w1 e : make_evt w k src pay up = (w1, e) -> MP w -> MP w1.
  Proof. intros E H. pose proof (MP_make_evt w k src pay up H) as H1. rewrite E in H1. exact H1. Qed.

  Lemma MP_process_one w i : MP w -> MP (fst (process_one sc run_cb w i)).
  Proof.
    intros H. unfold process_one. destruct (get_src w i) as [s|]; [|exact H]. destruct (negb (s_armed s)); [exact H|].
    destruct (s_mod s) as [m|]; [|cbn [fst]; mp]. destruct (get_mod w m) as [mr|]; [|exact H]. lazy zeta.
    destruct (s_kind s) eqn:Ek.
    all: try (destruct (_ && _); [cbn [fst]; mp|];
              match goal with |- context [make_evt ?a ?b ?c ?d ?e] =>
                let Hm := fresh "Hm" in assert (Hm : MP (fst (make_evt a b c d e))) by (apply MP_make_evt; mp); destruct (make_evt a b c d e) as [w2 e2]; cbn [fst] in Hm end;
              cbn [fst]; mp2).
    (* KPs *)
    destruct (m_pipe mr) as [[|g q]|]; try solve [cbn [fst]; mp].
    match goal with |- context [make_evt ?a ?b ?c ?d ?e] =>
      assert (Hm : MP (fst (make_evt a b c d e))) by (apply MP_make_evt; mp); destruct (make_evt a b c d e) as [w3 e3]; cbn [fst] in Hm end.
    match goal with |- context [push_evt run_cb ?x m _] => assert (H4 : MP x) by mp; set (w4 := x) in * end.
    destruct (g_pill g); cbn [fst]; [|mp]. mp2.
  Qed.

  Lemma MP_recv_events w : MP w -> MP (fst (recv_events sc run_cb w)).
  Proof.
    intros H. unfold recv_events. lazy zeta.
    set (w00 := set_errno w 0). assert (H00 : MP w00) by (unfold w00; mp).
    match goal with |- context [fold_left href ?held w00] => set (hl := held); assert (H0 : MP (fold_left href hl w00)) by mp end.
    match goal with |- context [fold_left ?f ?l (fold_left href hl w00, 0)] =>
      assert (H1 : MP (fst (fold_left f l (fold_left href hl w00, 0)))); [|destruct (fold_left f l (fold_left href hl w00, 0)) as [w1' n]; cbn [fst] in H1] end.
    { apply (fold_left_inv (fun acc : world * nat => MP (fst acc))); [|exact H0].
      intros [w0 nn] i Hw. cbn [fst] in Hw. pose proof (MP_process_one w0 i Hw) as Hp. destruct (process_one sc run_cb w0 i). exact Hp. }
    assert (H2 : MP (fold_left hunref hl w1')) by mp.
    destruct (Nat.ltb 0 n); cbn [fst]; [|exact H2]. mp. apply MP_eval_pass, H2.
  Qed.

  (* ---------- the scripted calls ---------- *)
  Lemma MP_ret w z : MP w -> MP (ret w z). Proof. intros; unfold ret; mp. Qed.
  Lemma MP_retp p : MP (fst p) -> MP (retp p). Proof. intros; unfold retp; apply MP_ret; assumption. Qed.

  Lemma MP_do_ctx_dereg w : MP w -> MP (fst (do_ctx_dereg sc run_cb w)).
  Proof. intros H. unfold do_ctx_dereg. apply MP_ctx_deregister; [|exact H]. intros w0 m0 H0. apply MP_mod_deregister, H0. Qed.

  Lemma MP_locked m f w : (forall w, MP w -> MP (fst (f w))) -> MP w -> MP (fst (locked m f w)).
  Proof.
    intros Hf H. unfold locked. pose proof (Hf (lock_mod w m) (MP_lock_mod _ _ H)) as H1.
    destruct (f (lock_mod w m)) as [w2 r]. cbn [fst] in *. mp.
  Qed.

  Lemma MP_send_msg w m rcp topic data af : MP w -> MP (fst (send_msg sc w m rcp topic data af)).
  Proof.
    intros H. unfold send_msg. destruct (N.eqb data 0); [exact H|]. destruct (get_mod w m) as [mr|]; [|exact H].
    destruct af; cbn [fst]; [|apply MP_deliver; mp].
    match goal with |- context [halloc ?a ?b ?c ?d] => destruct (halloc a b c d) as [w2 d0] eqn:E2; assert (H2 : MP w2) by (eapply MP_halloc; [exact E2|mp]) end.
    cbn [fst]. mp. apply MP_deliver, H2.
  Qed.

  Lemma MP_tell_step w m r data af : MP w -> MP (fst (tell_step sc w m r data af)).
  Proof.
    intros H. unfold tell_step. destruct (mod_assert_perm w m m_denypub); [exact H|]. destruct (Nat.eqb _ 0); [exact H|].
    destruct (negb _); [exact H|]. destruct (consume_token w m) as [w1|] eqn:Ec; [|exact H].
    apply MP_send_msg. eapply MP_consume_token; eauto.
  Qed.

  Lemma MP_exec_env w c : MP w -> MP (exec_env w c).
  Proof. intros H. unfold exec_env. destruct c; try exact H; try (mp; fail). Qed.

  Ltac tok :=
    match goal with
    | |- MP (match consume_token ?w ?m with _ => _ end) =>
        let w1 := fresh "w1" in let E := fresh "Ec" in let H := fresh "H1" in
        destruct (consume_token w m) as [w1|] eqn:E; [assert (H : MP w1) by (eapply MP_consume_token; [|exact E]; assumption)|]
    end.
  Ltac mp_ext3 :=
    match goal with
    | |- MP (ret _ _) => apply MP_ret
    | |- MP (retp _) => apply MP_retp
    | |- MP (fst (start_mod _ _ _ _ _)) => apply MP_start_mod
    | |- MP (fst (mod_register _ _ _ _)) => apply MP_mod_register
    | |- MP (fst (mod_deregister _ _ _ _ _ _)) => apply MP_mod_deregister
    | |- MP (fst (loop_start _ _ _)) => apply MP_loop_start
    | |- MP (fst (loop_stop _ _ _ _)) => apply MP_loop_stop; [intros; apply MP_do_ctx_dereg; assumption|]
    | |- MP (fst (recv_events _ _ _)) => apply MP_recv_events
    | |- MP (fst (do_ctx_dereg _ _ _)) => apply MP_do_ctx_dereg
    | |- MP (fst (send_msg _ _ _ _ _ _ _)) => apply MP_send_msg
    | |- MP (fst (tell_step _ _ _ _ _ _)) => apply MP_tell_step
    | |- MP (fst (locked _ _ _)) => apply MP_locked; [let w := fresh "w" in let H := fresh "H" in intros w H|]
    | |- MP (exec_env _ _) => apply MP_exec_env
    | |- _ => tok
    end.
  Ltac mp3 := repeat first [assumption | tok | mp_step | mp_ext2 | mp_ext3].

  Lemma MP_exec_call cur w c : MP w -> MP (exec_call sc run_cb cur w c).
  Proof.
    intros H. destruct c; cbn [exec_call]; try (mp3; fail).
    - (* CTellMany *)
      apply MP_retp. assert (Hg : forall k acc, MP (fst acc) -> MP (fst ((fix go (k : nat) (acc : world * Z) : world * Z :=
                 match k with O => acc | S k' => go k' (tell_step sc (fst acc) m r data false) end) k acc))).
      { induction k as [|k IH]; intros acc Ha; [exact Ha|]. apply IH. apply MP_tell_step, Ha. }
      apply Hg. exact H.
  Qed.

  Lemma MP_exec_own cur w c : MP w -> MP (exec_own sc run_cb cur w c).
  Proof. intros H. unfold exec_own. destruct (call_handle c); [destruct (Nat.eqb _ 0)|]; first [apply MP_exec_call | apply MP_ret]; mp. Qed.

  Lemma MP_exec cur w c : MP w -> MP (exec sc run_cb cur w c).
  Proof.
    intros H. unfold exec. destruct c; try (apply MP_exec_own; exact H). lazy zeta.
    apply MP_set_tls.
    match goal with |- context [exec_own sc run_cb cur ?x _] => assert (H2 : MP x) by (destruct own; mp); set (w2 := x) in * end.
    match goal with |- MP (if own then match w_tls ?x with _ => _ end else _) => assert (H3 : MP x) by (destruct c; try (apply MP_exec_own; exact H2); exact H2); set (w3 := x) in * end.
    destruct own; mp.
  Qed.

  Lemma MP_loop_iter : forall fuel w env, MP w -> MP (loop_iter sc run_cb fuel (exec_env) w env).
  Proof.
    induction fuel as [|f IH]; intros w env H; cbn [loop_iter]; [mp|].
    destruct (w_tls w) as [c|]; [|exact H]. destruct (_ || _); [exact H|].
    destruct (ready_set w); [destruct env as [|a rest]; [mp|apply IH, MP_exec_env, H]|apply IH, MP_recv_events, H].
  Qed.

  Lemma MP_run_calls : forall fuel cur w l, MP w -> MP (run_calls sc run_cb fuel cur w l).
  Proof.
    induction fuel as [|f IH]; intros cur w l H; cbn [run_calls]; [mp|].
    destruct l as [|c r]; [exact H|].
    destruct c; try (apply IH, MP_exec, H).
    lazy zeta. destruct (the_ctx (emit w (TMark 4 0))) as [c|]; [|apply IH; mp3].
    destruct (c_state c); try (apply IH; mp3).
    destruct (split_env r) as [env rest].
    match goal with |- context [loop_iter sc run_cb ?n exec_env ?x env] => assert (H2 : MP (loop_iter sc run_cb n exec_env x env)) by (apply MP_loop_iter; mp3) end.
    destruct (existsb _ _); [exact H2|]. apply IH. mp3.
  Qed.
End InvH.

(* ---------- tying the knot ---------- *)
Record respects_h (R : nat -> obj -> Prop) (n0 : nat) : Prop := mkRespectsH {
  rh_ref : forall i ob, R i ob -> o_refs ob <> 0 -> R i (mkObj (o_kind ob) (S (o_refs ob)) (o_links ob) (o_tag ob));
  rh_unref : forall i ob n, R i ob -> o_refs ob = S n -> R i (mkObj (o_kind ob) n (o_links ob) (o_tag ob));
  rh_links : forall i ob l, R i ob -> R i (mkObj (o_kind ob) (o_refs ob) l (o_tag ob));
  rh_new : forall i k links tag, n0 <= i -> R i (mkObj k 1 links tag)
}.

Section KnotH.
  Variable R : nat -> obj -> Prop.
  Variable n0 : nat.
  Hypothesis RR : respects_h R n0.

  Lemma HP_run_calls sc run_cb : (forall w m k h evs, MP R n0 w -> MP R n0 (fst (run_cb w m k h evs))) ->
    forall fuel cur w l, MP R n0 w -> MP R n0 (run_calls sc run_cb fuel cur w l).
  Proof. destruct RR. intros Hcb. apply MP_run_calls; assumption. Qed.

  Lemma HP_run_cb_f : forall fuel sc w m k h evts, MP R n0 w -> MP R n0 (fst (run_cb_f fuel sc w m k h evts)).
  Proof.
    induction fuel as [|f IH]; intros sc w m k h evts H; cbn [run_cb_f fst]; [apply MP_emit, H|].
    apply HP_run_calls; [|exact H]. intros w0 m0 k0 h0 evs0 H0. apply IH, H0.
  Qed.

  Lemma heap_inv_from w0 : MP R n0 w0 -> forall fuel sc n cur l, MP R n0 (run_calls sc (run_cb_f fuel sc) n cur w0 l).
  Proof. intros H0 fuel sc n cur l. apply HP_run_calls; [|exact H0]. intros w1 m0 k0 h0 evs0 H1. apply HP_run_cb_f, H1. Qed.
End KnotH.

(* ---------- C04 / C10 on the core's object heap: an object keeps its kind and tag, and once its count has reached zero
   (its destructor ran at that step) it stays zero for ever: nothing is resurrected, nothing is destroyed twice ---------- *)
Definition obj_since (w0 : world) (i : nat) (ob : obj) : Prop :=
  forall ob0, nth_error (w_heap w0) i = Some ob0 ->
    o_kind ob = o_kind ob0 /\ o_tag ob = o_tag ob0 /\ (o_refs ob0 = 0 -> o_refs ob = 0).

Lemma obj_since_respects w0 : respects_h (obj_since w0) (length (w_heap w0)).
Proof.
  constructor; unfold obj_since.
  - intros i ob H Hnz ob0 H0. destruct (H ob0 H0) as (Hk & Ht & Hd). cbn. repeat split; auto. intros Hz. apply Hd in Hz. contradiction.
  - intros i ob n H Hr ob0 H0. destruct (H ob0 H0) as (Hk & Ht & Hd). cbn. repeat split; auto. intros Hz. apply Hd in Hz. congruence.
  - intros i ob l H ob0 H0. destruct (H ob0 H0) as (Hk & Ht & Hd). cbn. repeat split; auto.
  - intros i k links tag Hle ob0 H0. assert (i < length (w_heap w0)) by (apply nth_error_Some; congruence). lia.
Qed.

Theorem freed_stays_freed w0 fuel sc n cur l i ob0 :
  nth_error (w_heap w0) i = Some ob0 ->
  exists ob, nth_error (w_heap (run_calls sc (run_cb_f fuel sc) n cur w0 l)) i = Some ob /\
             o_kind ob = o_kind ob0 /\ o_tag ob = o_tag ob0 /\ (o_refs ob0 = 0 -> o_refs ob = 0).
Proof.
  intros H0.
  assert (Hi : MP (obj_since w0) (length (w_heap w0)) w0).
  { split; [apply Nat.le_refl|]. intros j s Hj s1 H1. rewrite Hj in H1. injection H1 as <-. repeat split; auto. }
  pose proof (heap_inv_from _ _ (obj_since_respects w0) w0 Hi fuel sc n cur l) as [Hl H].
  set (w := run_calls sc (run_cb_f fuel sc) n cur w0 l) in *.
  assert (Hlt : i < length (w_heap w)) by (assert (i < length (w_heap w0)) by (apply nth_error_Some; congruence); lia).
  destruct (nth_error (w_heap w) i) as [ob|] eqn:E; [|apply nth_error_None in E; lia].
  exists ob. split; [reflexivity|]. exact (H i ob E ob0 H0).
Qed.
Print Assumptions freed_stays_freed.
