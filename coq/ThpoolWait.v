(* ThpoolWait.v -- C06: bounded parallelism and wait-all completeness as SAFETY statements, for every schedule.
   WInv: the worker threads are exactly the entries of the workers list, never more than max_threads; a lazy creation is
   decided under the lock with room left; no worker leaves its loop before shutdown is announced; once a worker left
   the loop of a wait-all shutdown the queue is empty (and stays empty: submitters are finished); a non-empty queue
   implies that a worker exists.  Consequences:
     - at most max_threads tasks run at any time;
     - if m_thpool_free(wait_all) returns, every accepted task has run exactly once (nothing was discarded). *)
From LM Require Import Base Thpool ThpoolProofs ThpoolQuiesce.
From Coq Require Import Lia Arith.

Definition exited (th : thread) : bool :=
  match th with TWorker WBcast | TWorker WUnlockExit | TWorker WDone => true | _ => false end.
Definition is_task (th : thread) : bool := match th with TWorker (WTask _) => true | _ => false end.
Definition sd_of (md : mode) : sdown := match md with Wall => SAll | Wcurr => SCurr end.

Lemma exited_woken th : exited (woken th) = exited th. Proof. destruct th as [[]|[]|[]]; reflexivity. Qed.

Record WInv (p : pool) : Prop := {
  w_max : 1 <= p_max p;
  w_count : count_th is_worker (p_threads p) = length (p_workers p);
  w_bound : length (p_workers p) <= p_max p;
  w_eager : p_lazy p = false -> length (p_workers p) = p_max p;
  w_create : all_th (fun _ th => forall k rest, th = TSub (SCreate k rest) -> p_lazy p = true /\ length (p_workers p) < p_max p) (p_threads p);
  w_noexit : p_shutdown p = SNo -> all_th (fun _ th => exited th = false) (p_threads p);
  w_sd : p_shutdown p <> SNo ->
         (exists t th, nth_error (p_threads p) t = Some th /\ free_started th = true) /\ p_shutdown p = sd_of (p_mode p);
  w_drained : p_shutdown p = SAll -> (exists t th, nth_error (p_threads p) t = Some th /\ exited th = true) -> p_tasks p = [];
  w_tasks : p_tasks p <> [] -> p_workers p <> []
}.

(* one thread changes its pending operation; the workers list does not change *)
Lemma winv_set p t th th' ths1 lock' sl' tasks' sd' alive' run' destroyed' acc' st' disc' :
  WInv p -> nth_error (p_threads p) t = Some th -> Wk (p_threads p) ths1 ->
  is_worker th' = is_worker th ->
  (forall k rest, th' = TSub (SCreate k rest) -> p_lazy p = true /\ length (p_workers p) < p_max p) ->
  (sd' = SNo -> p_shutdown p = SNo /\ exited th' = false) ->
  (free_started th = true -> free_started th' = true) ->
  (sd' <> SNo -> (p_shutdown p <> SNo /\ sd' = p_shutdown p) \/ (free_started th' = true /\ sd' = sd_of (p_mode p))) ->
  (sd' = SAll -> (exited th' = true \/ exists s x, s <> t /\ nth_error (p_threads p) s = Some x /\ exited x = true) -> tasks' = []) ->
  (tasks' <> [] -> p_workers p <> []) ->
  WInv (mkP lock' sl' tasks' sd' (p_workers p) alive' run' (p_lazy p) (p_detached p) (p_max p) (p_mode p) destroyed'
            (set_nth_th t th' ths1) acc' st' disc' (p_touch_after_free p)).
Proof.
  intros W Ht HW C1 C2 C3 C4 C5 C6 C7. pose proof HW as (HWl & HWn).
  assert (Hcases : forall s y, nth_error (set_nth_th t th' ths1) s = Some y ->
                     (s = t /\ y = th') \/ (s <> t /\ exists x, nth_error (p_threads p) s = Some x /\ (y = x \/ y = woken x))).
  { intros s y Hy. destruct (nth_error_set_cases _ _ _ _ _ Hy) as [(-> & -> & _)|(Hne & Hn)]; [left; auto|right; split; auto].
    exact (Wk_inv _ _ _ _ HW Hn). }
  assert (Htin : t < length ths1) by (rewrite HWl; apply nth_error_Some; congruence).
  assert (Hnew : nth_error (set_nth_th t th' ths1) t = Some th').
  { destruct (nth_error ths1 t) as [z|] eqn:Ez; [exact (nth_error_set_same ths1 t z th' Ez)|apply nth_error_None in Ez; lia]. }
  assert (Hkeep : forall s x, s <> t -> nth_error (p_threads p) s = Some x ->
            exists y, nth_error (set_nth_th t th' ths1) s = Some y /\ (y = x \/ y = woken x)).
  { intros s x Hne Hx. rewrite nth_error_set_other by auto. destruct (HWn s x Hx) as [E|E]; eauto. }
  constructor; cbn [p_max p_threads p_workers p_lazy p_shutdown p_mode p_tasks].
  - exact (w_max p W).
  - assert (Hz : exists z, nth_error ths1 t = Some z /\ is_worker z = is_worker th).
    { destruct (HWn t th Ht) as [E|E]; eexists; split; eauto. apply worker_woken. }
    destruct Hz as (z & Ez & Haz). pose proof (count_set is_worker ths1 t z th' Ez) as Hc. rewrite Haz, C1 in Hc.
    pose proof (Wk_count is_worker _ _ worker_woken HW) as Hk. pose proof (w_count p W). destruct (is_worker th); lia.
  - exact (w_bound p W).
  - exact (w_eager p W).
  - intros s y Hy k rest ->. destruct (Hcases s _ Hy) as [(-> & E)|(Hne & x & Hx & Hyx)]; [eapply C2; eauto|].
    assert (x = TSub (SCreate k rest)) by (destruct Hyx as [->|E]; [reflexivity|destruct x as [[]|[]|[]]; cbn in E; try discriminate; inversion E; reflexivity]).
    eapply (w_create p W s x Hx); eauto.
  - intros Hsd s y Hy. destruct (C3 Hsd) as (Hold & He). destruct (Hcases s _ Hy) as [(-> & ->)|(Hne & x & Hx & Hyx)]; [exact He|].
    destruct Hyx as [->| ->]; [|rewrite exited_woken]; exact (w_noexit p W Hold s x Hx).
  - intros Hsd. destruct (C5 Hsd) as [(Hold & ->)|(Hst & ->)].
    + destruct (w_sd p W Hold) as ((s & x & Hx & Hs) & Hm). split; [|exact Hm].
      destruct (Nat.eq_dec s t) as [->|ne].
      * exists t, th'. split; [exact Hnew|]. apply C4. congruence.
      * destruct (Hkeep s x ne Hx) as (y & Hy & [->| ->]); exists s; eexists; split; eauto. rewrite started_woken. exact Hs.
    + split; [|reflexivity]. exists t, th'. auto.
  - intros Hsd (s & y & Hy & He). apply C6; [exact Hsd|].
    destruct (Hcases s _ Hy) as [(-> & ->)|(Hne & x & Hx & Hyx)]; [left; exact He|right].
    exists s, x. repeat split; auto. destruct Hyx as [->| ->]; [exact He|rewrite exited_woken in He; exact He].
  - exact C7.
Qed.

Lemma winv_create p t k rest sl' run' acc' st' disc' :
  QInv p -> WInv p -> nth_error (p_threads p) t = Some (TSub (SCreate k rest)) ->
  WInv (upd p (p_lock p) sl' (p_tasks p ++ [k]) (p_shutdown p) (length (p_threads p) :: p_workers p) (S (p_alive p)) run' (p_destroyed p)
            (set_nth_th t (TSub (SSignal rest)) (p_threads p) ++ [TWorker WLock]) acc' st' disc' (p_touch_after_free p)).
Proof.
  intros Q W Ht. set (ths := p_threads p) in *. set (ths2 := set_nth_th t (TSub (SSignal rest)) ths).
  assert (Hl2 : length ths2 = length ths) by apply set_nth_th_length.
  destruct (w_create p W t _ Ht k rest eq_refl) as (Hlazy & Hroom).
  assert (Hsd : p_shutdown p = SNo).
  { destruct (p_shutdown p) eqn:E; [reflexivity| |]; exfalso;
      (destruct (w_sd p W ltac:(rewrite E; discriminate)) as ((s & x & Hx & Hs) & _); eapply (started_contra p t _ Q Ht); eauto). }
  assert (Hcases : forall s y, nth_error (ths2 ++ [TWorker WLock]) s = Some y ->
            (s = t /\ y = TSub (SSignal rest)) \/ (s <> t /\ nth_error ths s = Some y) \/ (s = length ths /\ y = TWorker WLock)).
  { intros s y Hy. destruct (Nat.lt_ge_cases s (length ths2)) as [Hlt|Hge].
    - rewrite nth_error_app1 in Hy by exact Hlt. destruct (nth_error_set_cases _ _ _ _ _ Hy) as [(-> & -> & _)|(Hne & Hn)]; auto.
    - rewrite nth_error_app2 in Hy by exact Hge. destruct (s - length ths2) as [|d] eqn:E; cbn in Hy; [|destruct d; discriminate].
      inversion Hy. right; right. split; [lia|reflexivity]. }
  constructor; unfold upd; cbn [p_max p_threads p_workers p_lazy p_shutdown p_mode p_tasks]; fold ths; fold ths2.
  - exact (w_max p W).
  - rewrite count_app. pose proof (count_set is_worker ths t _ (TSub (SSignal rest)) Ht) as Hc. cbn in Hc. fold ths2 in Hc.
    pose proof (w_count p W) as Hw. fold ths in Hw. unfold count_th at 2. cbn. lia.
  - cbn [length]. lia.
  - intros E. congruence.
  - intros s y Hy k0 rest0 ->. exfalso. destruct (Hcases s _ Hy) as [(-> & E)|[(Hne & Hn)|(-> & E)]]; try discriminate.
    pose proof (q_lock p Q s _ Hn eq_refl). pose proof (q_lock p Q t _ Ht eq_refl). congruence.
  - intros _ s y Hy. destruct (Hcases s y Hy) as [(-> & ->)|[(Hne & Hn)|(-> & ->)]]; try reflexivity. exact (w_noexit p W Hsd s y Hn).
  - intros Hne. congruence.
  - intros E. congruence.
  - discriminate.
Qed.

Lemma winv_set' p t th th' ths1 lock' sl' tasks' sd' alive' run' destroyed' acc' st' disc' :
  WInv p -> nth_error (p_threads p) t = Some th -> Wk (p_threads p) ths1 ->
  is_worker th' = is_worker th ->
  (forall k rest, th' = TSub (SCreate k rest) -> p_lazy p = true /\ length (p_workers p) < p_max p) ->
  (sd' = SNo -> p_shutdown p = SNo /\ exited th' = false) ->
  (free_started th = true -> free_started th' = true) ->
  (sd' <> SNo -> (p_shutdown p <> SNo /\ sd' = p_shutdown p) \/ (free_started th' = true /\ sd' = sd_of (p_mode p))) ->
  (sd' = SAll -> (exited th' = true \/ exists s x, s <> t /\ nth_error (p_threads p) s = Some x /\ exited x = true) -> tasks' = []) ->
  (tasks' <> [] -> p_workers p <> []) ->
  WInv (mkP lock' sl' tasks' sd' (p_workers p) alive' run' (p_lazy p) (p_detached p) (p_max p) (p_mode p) destroyed'
            (set_nth_th t th' ths1) acc' st' disc' (p_touch_after_free p)).
Proof. exact (winv_set p t th th' ths1 lock' sl' tasks' sd' alive' run' destroyed' acc' st' disc'). Qed.

Ltac fields := cbn [p_lock p_sleepers p_tasks p_shutdown p_workers p_alive p_running p_lazy p_detached p_max p_mode p_destroyed
                     p_threads p_accepted p_started p_discarded p_touch_after_free].
Ltac norm := unfold worker_decide, sub_decide, freer_decide, with_pc, with_lock, with_sleepers, upd; fields.

(* side conditions of winv_set' when neither the queue nor the shutdown flag changes *)
Ltac wsame p t W Ht th0 wk :=
  eapply (winv_set' p t th0);
  [ exact W | exact Ht | wk
  | reflexivity
  | intros ? ? E; discriminate E
  | intros E; split; [exact E|first [reflexivity|exfalso; pose proof (w_noexit p W E t _ Ht) as X; cbn in X; discriminate X]]
  | cbn; auto
  | intros E; left; split; [exact E|reflexivity]
  | intros E Hex; apply (w_drained p W E); destruct Hex as [He|(s & x & _ & Hx & He)];
      [first [discriminate He|exists t; eexists; split; [exact Ht|reflexivity]]|exists s, x; auto]
  | exact (w_tasks p W) ].

Theorem step_winv p ch : QInv p -> WInv p -> WInv (step p ch).
Proof.
  intros Q W. destruct ch as [t sp]. unfold step.
  destruct (nth_error (p_threads p) t) as [th|] eqn:Ht; [|exact W].
  destruct th as [pc|pc|pc].
  - (* ------------------------------------------------ worker *)
    assert (Hnd : pc <> WDone -> touch p = p).
    { intros Hpc. apply touch_id. apply (active_not_destroyed p t _ Q Ht). destruct pc; try reflexivity. congruence. }
    assert (Hacq : forall pc0, (pc0 = WLock \/ pc0 = WRelock) -> nth_error (p_threads p) t = Some (TWorker pc0) ->
              WInv (worker_decide (with_lock p (Some t)) t)).
    { intros pc0 Hpc0 Ht0. norm.
      destruct (p_tasks p) as [|k rest] eqn:Etasks; destruct (p_shutdown p) eqn:Esd; cbn [fst snd];
        (eapply (winv_set' p t (TWorker pc0)); [exact W|exact Ht0|apply Wk_refl|..]); rewrite ?Etasks, ?Esd.
      all: try reflexivity.
      all: try (intros ? ? E; discriminate E).
      all: try (intros E; split; [exact E|reflexivity]).
      all: try (intros E; discriminate E).
      all: try (intros E; left; split; [discriminate|reflexivity]).
      all: try (intros _ _; reflexivity).
      all: try (intros E; exfalso; apply E; reflexivity).
      all: try (cbn; destruct Hpc0 as [->| ->]; auto; fail).
      all: try (intros E Hex; pose proof (w_drained p W ltac:(rewrite Esd; reflexivity)) as Hd; rewrite Etasks in Hd;
                destruct Hex as [He|(s & x & _ & Hx & He)]; [discriminate He|]; exfalso; specialize (Hd (ex_intro _ s (ex_intro _ x (conj Hx He)))); discriminate Hd).
      all: try (intros _; apply (w_tasks p W); rewrite Etasks; discriminate). }
    destruct pc.
    + destruct (enabled_lock p); [|exact W]. rewrite Hnd by discriminate. apply (Hacq WLock); auto.
    + rewrite Hnd by discriminate. norm. wsame p t W Ht (TWorker WWait) ltac:(apply Wk_refl).
    + destruct sp; [|exact W]. norm. wsame p t W Ht (TWorker WSleep) ltac:(apply Wk_refl).
    + destruct (enabled_lock p); [|exact W]. rewrite Hnd by discriminate. apply (Hacq WRelock); auto.
    + rewrite Hnd by discriminate. norm. wsame p t W Ht (TWorker (WUnlockRun k)) ltac:(apply Wk_refl).
    + rewrite Hnd by discriminate. norm. wsame p t W Ht (TWorker (WTask k)) ltac:(apply Wk_refl).
    + rewrite Hnd by discriminate. norm. wsame p t W Ht (TWorker WBcast) ltac:(apply Wk_wake_all).
    + rewrite Hnd by discriminate. norm. wsame p t W Ht (TWorker WUnlockExit) ltac:(apply Wk_refl).
    + exact W.
  - (* ------------------------------------------------ submitter *)
    destruct pc as [[|k rest]|k rest|rest|rest|].
    + norm. wsame p t W Ht (TSub (SLock [])) ltac:(apply Wk_refl).
    + destruct (enabled_lock p); [|exact W].
      rewrite (touch_id p) by (apply (active_not_destroyed p t _ Q Ht); reflexivity).
      assert (Hsd : p_shutdown p = SNo).
      { destruct (p_shutdown p) eqn:E; [reflexivity| |]; exfalso;
          (destruct (w_sd p W ltac:(rewrite E; discriminate)) as ((s & x & Hx & Hs) & _); eapply (started_contra p t _ Q Ht); eauto). }
      norm. destruct (p_lazy p && negb (p_running p <? length (p_workers p)) && (length (p_workers p) <? p_max p)) eqn:Hc.
      * apply andb_prop in Hc. destruct Hc as (Hc1 & Hc3). apply andb_prop in Hc1. destruct Hc1 as (Hlz & _). apply Nat.ltb_lt in Hc3.
        eapply (winv_set' p t (TSub (SLock (k :: rest)))); [exact W|exact Ht|apply Wk_refl|..].
        -- reflexivity.
        -- intros ? ? _. auto.
        -- intros E; split; [exact E|reflexivity].
        -- cbn; auto.
        -- intros E; left; split; [exact E|reflexivity].
        -- intros E. congruence.
        -- exact (w_tasks p W).
      * eapply (winv_set' p t (TSub (SLock (k :: rest)))); [exact W|exact Ht|apply Wk_refl|..].
        -- reflexivity.
        -- intros ? ? E; discriminate E.
        -- intros E; split; [exact E|reflexivity].
        -- cbn; auto.
        -- intros E; left; split; [exact E|reflexivity].
        -- intros E. congruence.
        -- intros _ Hw. pose proof (w_max p W). pose proof (w_eager p W) as He.
           destruct (p_lazy p); [|specialize (He eq_refl); rewrite Hw in He; cbn in He; lia].
           cbn [andb] in Hc. apply Bool.andb_false_iff in Hc. destruct Hc as [Hc|Hc].
           ++ apply Bool.negb_false_iff, Nat.ltb_lt in Hc. rewrite Hw in Hc. cbn in Hc. lia.
           ++ apply Nat.ltb_ge in Hc. rewrite Hw in Hc. cbn in Hc. lia.
    + norm. exact (winv_create p t k rest _ _ _ _ _ Q W Ht).
    + destruct (p_sleepers p) as [|s0 others]; norm.
      * wsame p t W Ht (TSub (SSignal rest)) ltac:(apply Wk_refl).
      * wsame p t W Ht (TSub (SSignal rest)) ltac:(apply Wk_wake).
    + norm. wsame p t W Ht (TSub (SUnlock rest)) ltac:(apply Wk_refl).
    + exact W.
  - (* ------------------------------------------------ freeing thread *)
    destruct pc as [ | | | |ws| | | | | | | ].
    + destruct (all_subs_done p); [|exact W]. norm. wsame p t W Ht (TFree FStart) ltac:(apply Wk_refl).
    + destruct (enabled_lock p); [|exact W]. norm. fold (sd_of (p_mode p)).
      eapply (winv_set' p t (TFree FLock)); [exact W|exact Ht|apply Wk_refl|..].
      * reflexivity.
      * intros ? ? E; discriminate E.
      * intros E. destruct (p_mode p); discriminate E.
      * cbn; auto.
      * intros _. right. split; reflexivity.
      * intros E Hex. destruct Hex as [He|(s & x & _ & Hx & He)]; [discriminate He|].
        destruct (p_shutdown p) eqn:Esd.
        -- pose proof (w_noexit p W Esd s x Hx). congruence.
        -- destruct (w_sd p W ltac:(rewrite Esd; discriminate)) as (_ & Hm). rewrite Esd in Hm. rewrite <- Hm in E. discriminate E.
        -- apply (w_drained p W Esd). exists s, x. auto.
      * exact (w_tasks p W).
    + norm. wsame p t W Ht (TFree FBcast) ltac:(apply Wk_wake_all).
    + norm.
      match goal with |- WInv (mkP _ _ _ _ _ _ _ _ _ _ _ _ (set_nth_th t ?x _) _ _ _ _) => set (th' := x) end.
      assert (Hth' : exists pc', th' = TFree pc' /\ free_started (TFree pc') = true).
      { unfold th'. destruct (p_detached p); [eexists; split; reflexivity|]. destruct (p_workers p); eexists; split; reflexivity. }
      clearbody th'. destruct Hth' as (pc' & -> & Hst).
      wsame p t W Ht (TFree FUnlock) ltac:(apply Wk_refl).
    + destruct ws as [|w ws].
      * norm. wsame p t W Ht (TFree (FJoin [])) ltac:(apply Wk_refl).
      * destruct (worker_done p w); [|exact W]. norm.
        match goal with |- WInv (mkP _ _ _ _ _ _ _ _ _ _ _ _ (set_nth_th t ?x _) _ _ _ _) => set (th' := x) end.
        assert (Hth' : exists pc', th' = TFree pc' /\ free_started (TFree pc') = true).
        { unfold th'. destruct ws; eexists; split; reflexivity. }
        clearbody th'. destruct Hth' as (pc' & -> & Hst).
        wsame p t W Ht (TFree (FJoin (w :: ws))) ltac:(apply Wk_refl).
    + destruct (enabled_lock p); [|exact W]. norm. destruct (Nat.eqb (p_alive p) 0); norm; wsame p t W Ht (TFree FLock2) ltac:(apply Wk_refl).
    + norm. wsame p t W Ht (TFree FWait) ltac:(apply Wk_refl).
    + destruct sp; [|exact W]. norm. wsame p t W Ht (TFree FSleep) ltac:(apply Wk_refl).
    + destruct (enabled_lock p); [|exact W]. norm. destruct (Nat.eqb (p_alive p) 0); norm; wsame p t W Ht (TFree FRelock) ltac:(apply Wk_refl).
    + norm. wsame p t W Ht (TFree FUnlock2) ltac:(apply Wk_refl).
    + norm. eapply (winv_set' p t (TFree FFree)); [exact W|exact Ht|apply Wk_refl|..].
      * reflexivity.
      * intros ? ? E; discriminate E.
      * intros E; split; [exact E|reflexivity].
      * cbn; auto.
      * intros E; left; split; [exact E|reflexivity].
      * intros _ _. reflexivity.
      * intros E. exfalso. apply E. reflexivity.
    + exact W.
Qed.

(* ---------- initial states, runs ---------- *)
Theorem init_winv lazy det mx md subs : 1 <= mx -> WInv (init lazy det mx md subs).
Proof.
  intros Hmx. set (nw := if lazy then 0 else mx).
  assert (Hth : forall t th, nth_error (p_threads (init lazy det mx md subs)) t = Some th ->
            exited th = false /\ (forall k rest, th <> TSub (SCreate k rest))).
  { intros t th H. destruct (init_thread_cases _ _ _ _ _ _ _ H) as [(_ & ->)|[(l & ->)| ->]]; split; try reflexivity; intros ? ? E; discriminate. }
  constructor; unfold init; cbn [p_max p_threads p_workers p_lazy p_shutdown p_mode p_tasks]; fold nw.
  - exact Hmx.
  - rewrite !count_app, count_repeat. cbn [is_worker].
    rewrite (count_none is_worker (map (fun l => TSub (SLock l)) subs)) by (intros x Hx; apply in_map_iff in Hx; destruct Hx as (l & <- & _); reflexivity).
    unfold count_th. cbn. rewrite rev_length, seq_length. lia.
  - rewrite rev_length, seq_length. unfold nw. destruct lazy; lia.
  - intros ->. rewrite rev_length, seq_length. reflexivity.
  - intros t th H k rest E. destruct (Hth t th H) as (_ & Hn). exfalso. exact (Hn k rest E).
  - intros _ t th H. exact (proj1 (Hth t th H)).
  - intros E. exfalso. apply E. reflexivity.
  - discriminate.
  - intros E. exfalso. apply E. reflexivity.
Qed.

Lemma run_both sched : forall p, QInv p -> WInv p -> QInv (run_sched p sched) /\ WInv (run_sched p sched).
Proof.
  induction sched as [|ch r IH]; intros p Q W; [split; assumption|]. cbn [run_sched fold_left].
  apply IH; [apply step_qinv; exact Q|apply step_winv; assumption].
Qed.

(* ---------- bounded parallelism ---------- *)
Lemma count_le f g ths : (forall th, f th = true -> g th = true) -> count_th f ths <= count_th g ths.
Proof.
  intros H. unfold count_th. induction ths as [|a l IH]; cbn; [lia|].
  destruct (f a) eqn:Ef; [rewrite (H a Ef); cbn; lia|]. destruct (g a); cbn; lia.
Qed.

Theorem bounded_parallelism lazy det mx md subs sched : 1 <= mx ->
  let p := run_sched (init lazy det mx md subs) sched in
  count_th is_task (p_threads p) <= mx /\ count_th is_worker (p_threads p) <= mx.
Proof.
  intros Hmx. cbn zeta. destruct (run_both sched _ (init_qinv lazy det mx md subs) (init_winv lazy det mx md subs Hmx)) as (Q & W).
  assert (Hmax : forall sc q, p_max (run_sched q sc) = p_max q).
  { induction sc as [|ch r IH]; intros q; [reflexivity|]. cbn [run_sched fold_left]. unfold run_sched in IH. rewrite IH.
    clear. destruct ch as [t sp]. unfold step. destruct (nth_error (p_threads q) t) as [[pc|pc|pc]|]; [| | |reflexivity].
    - destruct pc; try reflexivity; try (destruct (enabled_lock q); [|reflexivity]); unfold worker_decide, touch; fields;
        repeat match goal with |- context [match ?x with _ => _ end] => destruct x end; reflexivity.
    - destruct pc as [[|k r]| | | |]; try reflexivity; try (destruct (enabled_lock q); [|reflexivity]); unfold sub_decide, touch; fields;
        repeat match goal with |- context [match ?x with _ => _ end] => destruct x end; try reflexivity.
      all: repeat match goal with |- context [if ?x then _ else _] => destruct x end; reflexivity.
    - destruct pc as [ | | | |[|w ws]| | | | | | | ]; try reflexivity;
        repeat match goal with |- context [if ?x then _ else _] => destruct x end; try reflexivity;
        unfold freer_decide; repeat match goal with |- context [if ?x then _ else _] => destruct x end; reflexivity. }
  pose proof (w_bound _ W) as Hb. pose proof (w_count _ W) as Hc. rewrite Hmax in Hb. cbn in Hb.
  split; [|lia]. pose proof (count_le is_task is_worker (p_threads (run_sched (init lazy det mx md subs) sched))
                               ltac:(intros [[]|?|?] E; try discriminate; reflexivity)). lia.
Qed.

(* ---------- wait-all completeness ---------- *)
(* what a step can do to the queue, the discarded list and the destroyed flag *)
Lemma step_fields p ch :
  p_mode (step p ch) = p_mode p /\
  ( (p_destroyed (step p ch) = p_destroyed p /\ p_discarded (step p ch) = p_discarded p /\
     (p_tasks (step p ch) = p_tasks p \/ exists t th, nth_error (p_threads p) t = Some th /\ active th = true))
    \/ (exists t, nth_error (p_threads p) t = Some (TFree FFree) /\ p_destroyed (step p ch) = true /\ p_tasks (step p ch) = [] /\
                  p_discarded (step p ch) = p_discarded p ++ p_tasks p) ).
Proof.
  destruct ch as [t sp]. unfold step. destruct (nth_error (p_threads p) t) as [th|] eqn:Ht; [|split; [reflexivity|left; auto]].
  assert (Hact : active th = true -> exists t0 th0, nth_error (p_threads p) t0 = Some th0 /\ active th0 = true) by (intros; eauto).
  unfold touch. destruct (p_destroyed p) eqn:Edes.
  all: destruct th as [pc|pc|pc].
  all: try (destruct pc; try (split; [reflexivity|left; auto]; fail);
      try (destruct (enabled_lock p); [|split; [reflexivity|left; auto]]);
      unfold worker_decide, with_pc, with_lock, with_sleepers, upd; fields;
      repeat match goal with |- context [match ?x with _ => _ end] => destruct x end; fields;
      (split; [reflexivity|left; repeat split; auto]); fail).
  all: try (destruct pc as [[|k r]| | | |]; try (split; [reflexivity|left; auto]; fail);
      try (destruct (enabled_lock p); [|split; [reflexivity|left; auto]]);
      unfold sub_decide, with_pc, with_lock, with_sleepers, upd; fields;
      repeat match goal with |- context [match ?x with _ => _ end] => destruct x end; fields;
      repeat match goal with |- context [if ?x then _ else _] => destruct x end; fields;
      (split; [reflexivity|left; repeat split; auto]); fail).
  all: destruct pc as [ | | | |[|w ws]| | | | | | | ];
      unfold freer_decide, with_pc, with_lock, with_sleepers, upd; fields;
      repeat match goal with |- context [if ?x then _ else _] => destruct x end; fields;
      try (split; [reflexivity|left; repeat split; auto]; fail).
  all: split; [reflexivity|right]; exists t; auto.
Qed.

Record DInv (p : pool) : Prop := {
  d_tasks : p_destroyed p = true -> p_tasks p = [];
  d_disc : p_mode p = Wall -> p_discarded p = []
}.

Lemma step_dinv p ch : QInv p -> WInv p -> DInv p -> DInv (step p ch).
Proof.
  intros Q W D. destruct (step_fields p ch) as (Hm & [(Hd & Hdi & Ht)|(t & Ht & Hd & Hta & Hdi)]); constructor.
  - intros E. rewrite Hd in E. destruct Ht as [->|(t & th & Hth & Ha)]; [exact (d_tasks p D E)|].
    pose proof (active_not_destroyed p t th Q Hth Ha). congruence.
  - intros E. rewrite Hm in E. rewrite Hdi. exact (d_disc p D E).
  - intros _. exact Hta.
  - intros E. rewrite Hm in E. rewrite Hdi, (d_disc p D E). cbn [app].
    (* the queue is empty when a wait-all free reaches its final step *)
    destruct (p_tasks p) as [|k r] eqn:Et; [reflexivity|exfalso].
    pose proof (w_tasks p W ltac:(rewrite Et; discriminate)) as Hw.
    destruct (p_workers p) as [|w ws] eqn:Ew; [congruence|].
    destruct (q_wrev p Q w ltac:(rewrite Ew; left; reflexivity)) as (pc & Hpc).
    pose proof (q_past p Q (ex_intro _ t (ex_intro _ _ (conj Ht eq_refl))) w _ Hpc pc eq_refl) as Hdone. subst pc.
    assert (Hsd : p_shutdown p <> SNo) by (intros Esd; pose proof (w_noexit p W Esd w _ Hpc); discriminate).
    destruct (w_sd p W Hsd) as (_ & Hsd2). rewrite E in Hsd2. cbn in Hsd2.
    pose proof (w_drained p W Hsd2 (ex_intro _ w (ex_intro _ _ (conj Hpc eq_refl)))). congruence.
Qed.

Lemma run_three sched : forall p, QInv p -> WInv p -> DInv p ->
  QInv (run_sched p sched) /\ WInv (run_sched p sched) /\ DInv (run_sched p sched).
Proof.
  induction sched as [|ch r IH]; intros p Q W D; [auto|]. cbn [run_sched fold_left].
  apply IH; [apply step_qinv; exact Q|apply step_winv; assumption|apply step_dinv; assumption].
Qed.

(* If m_thpool_free(pool, wait_all = true) has returned, every task accepted by the pool has run -- exactly once when the tasks
   are distinct -- and nothing was discarded.  For every schedule, flavour, number of threads. *)
Theorem wait_all_complete lazy det mx subs sched : 1 <= mx ->
  let p := run_sched (init lazy det mx Wall subs) sched in
  p_destroyed p = true ->
  p_discarded p = [] /\ forall k, cnt k (map fst (p_started p)) = cnt k (concat subs).
Proof.
  intros Hmx. cbn zeta. intros Hd.
  assert (D0 : DInv (init lazy det mx Wall subs)) by (constructor; [discriminate|reflexivity]).
  destruct (run_three sched _ (init_qinv lazy det mx Wall subs) (init_winv lazy det mx Wall subs Hmx) D0) as (Q & W & D).
  set (p := run_sched (init lazy det mx Wall subs) sched) in *.
  assert (Hmode : p_mode p = Wall).
  { unfold p. clear. generalize (init lazy det mx Wall subs) (eq_refl : p_mode (init lazy det mx Wall subs) = Wall).
    induction sched as [|ch r IH]; intros q Hq; [exact Hq|]. cbn [run_sched fold_left]. apply IH. rewrite (proj1 (step_fields q ch)). exact Hq. }
  pose proof (d_disc p D Hmode) as Hdisc. pose proof (d_tasks p D Hd) as Htasks.
  split; [exact Hdisc|]. intros k.
  pose proof (run_conserves sched (init lazy det mx Wall subs) k) as Hc. fold p in Hc. rewrite everywhere_init in Hc.
  rewrite <- Hc. unfold everywhere. rewrite Htasks, Hdisc, !cnt_app, !cnt_nil.
  assert (Hcar : cnt k (flat_map carried (p_threads p)) = 0).
  { pose proof (destroyed_means_quiescent lazy det mx Wall subs sched) as Hq. cbn zeta in Hq. fold p in Hq. specialize (Hq Hd).
    assert (forall ths, (forall t th, nth_error ths t = Some th -> carried th = []) -> cnt k (flat_map carried ths) = 0) as Hz.
    { induction ths as [|a l IHl]; intros H; [reflexivity|]. cbn [flat_map]. rewrite cnt_app, (H 0 a eq_refl), cnt_nil. cbn.
      apply IHl. intros t th Ht. exact (H (S t) th Ht). }
    apply Hz. intros t th Ht. specialize (Hq t th Ht). destruct th as [pc|pc|pc]; [subst pc; reflexivity| |reflexivity].
    destruct pc as [[|? ?]| | | |]; cbn in Hq; try discriminate; reflexivity. }
  lia.
Qed.
