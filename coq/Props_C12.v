(* Props_C12.v -- property C12: queue, stack, list keep their order discipline
   under all operations and iterators.  ONLY statements closed by `exact`,
   each followed by Print Assumptions. *)
From LM Require Import Base SeqLemmas Queue QueueProofs Stack StackProofs ListM ListProofs ListIter.

(* ---- queue ---- *)
Theorem C12_queue_invariant : forall dt ops, QInv (final q_step (q_init dt) ops).
Proof. exact q_inv_reachable. Qed.
Print Assumptions C12_queue_invariant.

Theorem C12_queue_refines_fifo_list : forall dt ops,
  snd (run q_step (q_init dt) ops) = snd (run aq_step (q_abs (q_init dt)) ops).
Proof. exact q_refines_fifo. Qed.
Print Assumptions C12_queue_refines_fifo_list.

Theorem C12_queue_fifo : forall dt vs, Forall (fun x => x <> 0%N) vs ->
  skipn (length vs) (q_run dt (map QEnq vs ++ repeat QDeq (length vs))) = map (fun x => [EPtr x]) vs.
Proof. exact q_fifo. Qed.
Print Assumptions C12_queue_fifo.

Theorem C12_queue_iterator_complete : forall dt pre acts,
  let s0 := final q_step (q_init dt) pre in
  let l := q_items (qs_q s0) in
  let d := q_dtor (qs_q s0) in
  q_freed (qs_q s0) = false -> qs_itr s0 = None ->
  length acts = length l -> Forall (fun a => a <> ISet 0%N) acts ->
  let r := run q_step s0 (QItrNew :: QueueProofs.iter_script acts) in
  QInv (fst r) /\
  q_items (qs_q (fst r)) = apply_acts l acts /\
  qs_itr (fst r) = None /\
  visits (tl (snd r)) = l /\
  dtors (tl (snd r)) = (if d then acts_dtors l acts else []).
Proof. exact q_iterate_all. Qed.
Print Assumptions C12_queue_iterator_complete.

(* ---- stack ---- *)
Theorem C12_stack_invariant : forall dt ops, SInv (final s_step (s_init dt) ops).
Proof. exact s_inv_reachable. Qed.
Print Assumptions C12_stack_invariant.

Theorem C12_stack_refines_lifo_list : forall dt ops,
  snd (run s_step (s_init dt) ops) = snd (run as_step (s_abs (s_init dt)) ops).
Proof. exact s_refines_lifo. Qed.
Print Assumptions C12_stack_refines_lifo_list.

Theorem C12_stack_lifo : forall dt vs, Forall (fun x => x <> 0%N) vs ->
  skipn (length vs) (s_run dt (map SPush vs ++ repeat SPop (length vs))) = map (fun x => [EPtr x]) (rev vs).
Proof. exact s_lifo. Qed.
Print Assumptions C12_stack_lifo.

Theorem C12_stack_iterator_complete : forall dt pre acts,
  let s0 := final s_step (s_init dt) pre in
  let l := s_items (ss_s s0) in
  let d := s_dtor (ss_s s0) in
  s_freed (ss_s s0) = false -> ss_itr s0 = None ->
  length acts = length l -> Forall (fun a => a <> ISet 0%N) acts ->
  let r := run s_step s0 (SItrNew :: StackProofs.iter_script acts) in
  SInv (fst r) /\
  s_items (ss_s (fst r)) = apply_acts l acts /\
  ss_itr (fst r) = None /\
  visits (tl (snd r)) = l /\
  dtors (tl (snd r)) = (if d then acts_dtors l acts else []).
Proof. exact s_iterate_all. Qed.
Print Assumptions C12_stack_iterator_complete.

(* ---- list (for every user comparator) ---- *)
Theorem C12_list_invariant : forall ceq dt ops, LInv (final (l_step ceq) (l_init dt) ops).
Proof. exact l_inv_reachable. Qed.
Print Assumptions C12_list_invariant.

Theorem C12_list_refines_plain_list : forall ceq dt ops,
  snd (run (l_step ceq) (l_init dt) ops) = snd (run (al_step ceq) (l_abs (l_init dt)) ops).
Proof. exact l_refines_list. Qed.
Print Assumptions C12_list_refines_plain_list.

(* iterating a list to the end with arbitrary per-element actions -- keep / remove / replace / INSERT a new element before the
   current one through the iterator: every original element is visited exactly once, in list order (inserted elements are not
   visited); what remains is exactly the kept / replaced / inserted elements in order; the destructor ran exactly for the
   removed ones; the list keeps behaving (invariant).  For every user comparator. *)
Theorem C12_list_iterator_complete_with_insertion : forall ceq dt (pre : list lop) (acts : list lact),
  let s0 := final (l_step ceq) (l_init dt) pre in
  let l := l_items (ls_l s0) in
  let d := l_dtor (ls_l s0) in
  l_freed (ls_l s0) = false -> ls_itr s0 = None -> length acts = length l -> Forall lact_ok acts ->
  let r := run (l_step ceq) s0 (LItrNew :: l_iter_script acts) in
  LInv (fst r) /\ l_items (ls_l (fst r)) = apply_lacts l acts /\ ls_itr (fst r) = None /\
  visits (tl (snd r)) = l /\ dtors (tl (snd r)) = (if d then lacts_dtors l acts else []).
Proof. exact l_iterate_all. Qed.
Print Assumptions C12_list_iterator_complete_with_insertion.

(* ---- the hypotheses are satisfiable: a concrete non-trivial run ---- *)
Example C12_nonvacuous :
  q_run true [QEnq 5; QEnq 6; QEnq 7; QItrNew; QItrNext; QItrNext; QItrRm; QItrNext; QEnq 8; QDeq; QDeq; QDeq; QLen]%N
  = [[ERet 0]; [ERet 0]; [ERet 0]; [EPtr 1]; [ERet 0]; [ERet 0]; [EDtor 7; ERet 0]; [ERet 0]; [ERet 0];
     [EPtr 5]; [EPtr 6]; [EPtr 8]; [ERet 0]]%N.
Proof. vm_compute. reflexivity. Qed.
