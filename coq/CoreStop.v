(* CoreStop.v -- what stopping a module does to ALL its sources (C03 / C09 / C20, whole function, every world):
   after `drop_sources` (the source part of stop, poison pill, refused start and deregistration) the module's registry is
   empty and none of the sources it held is polled any more; polling is never switched ON by the way. *)
From LM Require Import Base CoreTypes CoreModel CoreExec CoreInv.
From Coq Require Import Lia.

(* "armedness only decreases": every source polled afterwards was polled before *)
Definition mono (w w' : world) : Prop :=
  forall j s', get_src w' j = Some s' -> s_armed s' = true -> exists s, get_src w j = Some s /\ s_armed s = true.
Lemma mono_refl w : mono w w. Proof. intros j s' H Ha. eauto. Qed.
Lemma mono_trans w1 w2 w3 : mono w1 w2 -> mono w2 w3 -> mono w1 w3.
Proof. intros H1 H2 j s3 H Ha. destruct (H2 j s3 H Ha) as (s2 & H' & Ha'). exact (H1 j s2 H' Ha'). Qed.
Lemma mono_srcs w w' : w_srcs w' = w_srcs w -> mono w w'.
Proof. intros E j s' H Ha. unfold get_src in *. rewrite E in H. eauto. Qed.
Lemma mono_disarm w i p sh : mono w (upd_src w i (src_with false p sh)).
Proof.
  intros j s' H Ha. unfold get_src, upd_src, set_srcs in *; cbn [w_srcs] in *. destruct (Nat.eq_dec i j) as [->|Hne].
  - destruct (nth_error (w_srcs w) j) as [s|] eqn:E; [rewrite (nth_upd_same _ _ _ _ E) in H; injection H as <-; cbn in Ha; discriminate|].
    rewrite (upd_nth_none _ _ _ E) in H. congruence.
  - rewrite nth_upd_other in H by exact Hne. eauto.
Qed.
Lemma mono_dtor w ob : mono w (dtor_effect w ob).
Proof.
  unfold dtor_effect. destruct (o_kind ob); try (apply mono_srcs; reflexivity).
  destruct (nth_error (w_srcs w) (N.to_nat (o_tag ob))) as [s|]; [|apply mono_refl].
  match goal with |- mono w (if f_autofree _ then emit ?x _ else ?x) => assert (H2 : mono w x); [|destruct (f_autofree (s_fl s)); [eapply mono_trans; [exact H2|apply mono_srcs; reflexivity]|exact H2]] end.
  match goal with |- mono w (if f_autoclose _ then _ else ?x) => assert (H1 : mono w x) end.
  { destruct (s_armed s); [|apply mono_refl]. destruct (s_kind s); try (eapply mono_trans; [apply mono_disarm|apply mono_srcs; reflexivity]); apply mono_disarm. }
  destruct (f_autoclose (s_fl s)); [|exact H1]. destruct (s_kind s); try exact H1; try (eapply mono_trans; [exact H1|apply mono_srcs; reflexivity]).
  destruct (f_dup (s_fl s)); (eapply mono_trans; [exact H1|apply mono_srcs; reflexivity]).
Qed.
Lemma mono_hunref_loop : forall fuel w work, mono w (hunref_loop fuel w work).
Proof.
  induction fuel as [|f IH]; intros w work; cbn [hunref_loop]; [apply mono_srcs; reflexivity|].
  destruct work as [|o rest]; [apply mono_refl|]. destruct (nth_error (w_heap w) o) as [ob|]; [|eapply mono_trans; [|apply IH]; apply mono_srcs; reflexivity].
  destruct (o_refs ob) as [|[|n]]; (eapply mono_trans; [|apply IH]); try (apply mono_srcs; reflexivity).
  eapply mono_trans; [|apply mono_dtor]. apply mono_srcs; reflexivity.
Qed.
Lemma mono_hunref w o : mono w (hunref w o). Proof. apply mono_hunref_loop. Qed.
Lemma mono_hunref_opt w o : mono w (hunref_opt w o). Proof. destruct o; [apply mono_hunref|apply mono_refl]. Qed.
Lemma mono_drain q : forall w, mono w (drain_pipe w q).
Proof. induction q as [|g q IH]; intros w; cbn [drain_pipe]; [apply mono_refl|]. eapply mono_trans; [apply mono_hunref|apply IH]. Qed.
Lemma mono_poll_rm w i : mono w (poll_rm w i).
Proof.
  unfold poll_rm. destruct (get_src w i) as [sr|]; [|apply mono_refl]. destruct (s_armed sr); [|apply mono_refl].
  eapply mono_trans; [|apply mono_disarm]. destruct (_ && _), (opens_fd (s_kind sr)); apply mono_srcs; reflexivity.
Qed.
Lemma poll_rm_disarms w i s : get_src (poll_rm w i) i = Some s -> s_armed s = false.
Proof.
  unfold poll_rm. destruct (get_src w i) as [sr|] eqn:E; [|intros H; congruence]. destruct (s_armed sr) eqn:Ea; [|intros H; congruence].
  intros H. unfold get_src, upd_src, set_srcs in H; cbn [w_srcs] in H.
  assert (E' : nth_error (w_srcs (if opens_fd (s_kind sr) then set_fds (if skind_eqb (s_kind sr) KTask && Nat.eqb (s_pending sr) 0 then emit w (TFault 7) else w) (w_fds (if skind_eqb (s_kind sr) KTask && Nat.eqb (s_pending sr) 0 then emit w (TFault 7) else w) - 1) else (if skind_eqb (s_kind sr) KTask && Nat.eqb (s_pending sr) 0 then emit w (TFault 7) else w))) i = Some sr).
  { destruct (_ && _), (opens_fd (s_kind sr)); exact E. }
  rewrite (nth_upd_same _ _ _ _ E') in H. injection H as <-. reflexivity.
Qed.

(* one step of drop_sources *)
Definition drop_step (m : modid) (w : world) (i : nat) : world :=
  let w1 := match get_src w i with
            | Some s => if skind_eqb (s_kind s) KPs then
                          match get_mod w m with
                          | Some mr' => match m_pipe mr' with
                                        | Some q => drain_pipe (upd_mod w m (mod_with_pipe (Some []))) q
                                        | None => w end
                          | None => w end
                        else w
            | None => w end in
  let w2 := poll_rm w1 i in
  let w3 := remove_src_entry w2 m i in
  hunref_opt w3 (src_obj w3 (Some i)).

Lemma drop_sources_fold w m mr : get_mod w m = Some mr -> drop_sources w m = fold_left (drop_step m) (m_srcs mr) w.
Proof. intros H. unfold drop_sources. rewrite H. reflexivity. Qed.

Definition srcs_of (w : world) (m : modid) : option (list nat) := option_map m_srcs (get_mod w m).

Lemma mods_drain q : forall w, w_mods (drain_pipe w q) = w_mods w.
Proof. induction q as [|g q IH]; intros w; cbn [drain_pipe]; [reflexivity|]. rewrite IH. apply mods_hunref. Qed.
Lemma mods_poll_rm' w s : w_mods (poll_rm w s) = w_mods w. Proof. apply mods_poll_rm. Qed.

Lemma drop_step_spec m w i :
  mono w (drop_step m w i) /\
  (forall s, get_src (drop_step m w i) i = Some s -> s_armed s = false) /\
  srcs_of (drop_step m w i) m = option_map (filter (fun j => negb (Nat.eqb j i))) (srcs_of w m).
Proof.
  unfold drop_step.
  set (w1 := match get_src w i with Some s => if skind_eqb (s_kind s) KPs then match get_mod w m with Some mr' => match m_pipe mr' with Some q => drain_pipe (upd_mod w m (mod_with_pipe (Some []))) q | None => w end | None => w end else w | None => w end).
  assert (M1 : mono w w1).
  { unfold w1. destruct (get_src w i) as [s|]; [|apply mono_refl]. destruct (skind_eqb _ _); [|apply mono_refl].
    destruct (get_mod w m) as [mr'|]; [|apply mono_refl]. destruct (m_pipe mr'); [|apply mono_refl].
    eapply mono_trans; [|apply mono_drain]. apply mono_srcs; reflexivity. }
  assert (S1 : srcs_of w1 m = srcs_of w m).
  { unfold w1, srcs_of. destruct (get_src w i) as [s|]; [|reflexivity]. destruct (skind_eqb _ _); [|reflexivity].
    destruct (get_mod w m) as [mr'|] eqn:Hm; [|rewrite ?Hm; reflexivity]. destruct (m_pipe mr'); [|rewrite ?Hm; reflexivity].
    unfold get_mod. rewrite mods_drain. unfold upd_mod, set_mods; cbn [w_mods]. unfold get_mod in Hm. rewrite (nth_upd_same _ _ _ _ Hm). reflexivity. }
  set (w2 := poll_rm w1 i). set (w3 := remove_src_entry w2 m i).
  assert (M3 : w_srcs w3 = w_srcs w2) by (unfold w3, remove_src_entry; destruct (get_mod w2 m); reflexivity).
  split; [|split].
  - eapply mono_trans; [exact M1|]. eapply mono_trans; [apply mono_poll_rm|]. eapply mono_trans; [apply mono_srcs, M3|apply mono_hunref_opt].
  - intros s Hs. destruct (s_armed s) eqn:Ea; [|reflexivity]. exfalso.
    destruct (mono_hunref_opt w3 (src_obj w3 (Some i)) i s Hs Ea) as (s3 & H3 & A3).
    unfold get_src in H3. rewrite M3 in H3. pose proof (poll_rm_disarms w1 i s3 H3). congruence.
  - unfold srcs_of in *. rewrite <- S1.
    assert (G4 : get_mod (hunref_opt w3 (src_obj w3 (Some i))) m = get_mod w3 m) by (unfold get_mod; rewrite mods_hunref_opt; reflexivity).
    rewrite G4. unfold w3, remove_src_entry.
    assert (G2 : get_mod w2 m = get_mod w1 m) by (unfold get_mod, w2; rewrite mods_poll_rm; reflexivity).
    rewrite G2. destruct (get_mod w1 m) as [mr1|] eqn:H1.
    + unfold get_mod in G2 |- *. unfold upd_mod, set_mods; cbn [w_mods].
      rewrite (nth_upd_same _ _ _ _ G2). reflexivity.
    + rewrite G2. reflexivity.
Qed.

Lemma filter_none (x : list nat) : filter (fun j => negb (existsb (Nat.eqb j) [])) x = x.
Proof. induction x as [|a x IHx]; [reflexivity|]. cbn. f_equal. exact IHx. Qed.
Lemma filter_filter_exists (x l : list nat) i :
  filter (fun j => negb (existsb (Nat.eqb j) l)) (filter (fun j => negb (Nat.eqb j i)) x) = filter (fun j => negb (existsb (Nat.eqb j) (i :: l))) x.
Proof.
  induction x as [|a x IHx]; [reflexivity|]. cbn [filter existsb]. destruct (Nat.eqb a i) eqn:E; cbn [negb orb]; [exact IHx|].
  cbn [filter]. destruct (existsb (Nat.eqb a) l); cbn [negb]; [exact IHx|f_equal; exact IHx].
Qed.

Lemma drop_fold_spec m : forall l w,
  let w' := fold_left (drop_step m) l w in
  mono w w' /\
  (forall i s, In i l -> get_src w' i = Some s -> s_armed s = false) /\
  srcs_of w' m = option_map (filter (fun j => negb (existsb (Nat.eqb j) l))) (srcs_of w m).
Proof.
  induction l as [|i l IH]; intros w; cbn [fold_left].
  - split; [apply mono_refl|]. split; [intros i s []|]. destruct (srcs_of w m) as [x|]; [|reflexivity]. cbn [option_map]. rewrite filter_none. reflexivity.
  - destruct (drop_step_spec m w i) as (M1 & D1 & S1). destruct (IH (drop_step m w i)) as (M2 & D2 & S2). cbn zeta in *.
    split; [eapply mono_trans; eauto|]. split.
    + intros j s [<-|Hin] Hs; [|exact (D2 j s Hin Hs)].
      destruct (s_armed s) eqn:Ea; [|reflexivity]. exfalso. destruct (M2 i s Hs Ea) as (s1 & H1 & A1). pose proof (D1 s1 H1). congruence.
    + rewrite S2, S1. destruct (srcs_of w m) as [x|]; [|reflexivity]. cbn [option_map]. f_equal. apply filter_filter_exists.
Qed.

Theorem drop_sources_clears w m mr :
  get_mod w m = Some mr ->
  let w' := drop_sources w m in
  mono w w' /\                                                              (* nothing gets polled that was not *)
  (forall i s, In i (m_srcs mr) -> get_src w' i = Some s -> s_armed s = false) /\   (* none of its sources is polled any more *)
  (exists mr', get_mod w' m = Some mr' /\ m_srcs mr' = []).                  (* its registry is empty *)
Proof.
  intros Hm. cbn zeta. rewrite (drop_sources_fold w m mr Hm).
  destruct (drop_fold_spec m (m_srcs mr) w) as (M & D & S). cbn zeta in *. split; [exact M|]. split; [exact D|].
  unfold srcs_of in S. rewrite Hm in S. cbn [option_map] in S.
  destruct (get_mod (fold_left (drop_step m) (m_srcs mr) w) m) as [mr'|]; [|discriminate S]. exists mr'. split; [reflexivity|].
  cbn in S. injection S as ->.
  assert (Hf : forall l, (forall y, In y l -> existsb (Nat.eqb y) (m_srcs mr) = true) -> filter (fun j => negb (existsb (Nat.eqb j) (m_srcs mr))) l = []).
  { induction l as [|b l IHl]; intros Hl; [reflexivity|]. cbn [filter]. rewrite (Hl b (or_introl eq_refl)). cbn [negb]. apply IHl. intros y Hy. apply Hl. right. exact Hy. }
  apply Hf. intros y Hy. apply existsb_exists. exists y. split; [exact Hy|apply Nat.eqb_refl].
Qed.
Print Assumptions drop_sources_clears.
