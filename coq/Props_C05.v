(* Props_C05.v -- property C05: the map is a dictionary for all key sets and operation orders.
   ONLY statements closed by `exact` + Print Assumptions.  Everything holds for an ARBITRARY hash function
   (Section variable `hash` of MapM.v / MapProofs.v, generalised here), every table size >= 4 (the code starts at
   cMAP_SIZE_DEFAULT and only doubles), every flag combination.
   Has s k v = "some slot of table s holds key k with value v" -- the finite map the table represents. *)
From LM Require Import Base SeqLemmas MapM MapProofs MapIter MapClear.

(* 1. the representation invariant holds in every reachable state, whatever the operations (puts with growth, removals with
      back-shift, clear, free, callback iteration with removals, iterator set/remove):
      keys distinct, every key within the probe window of its home slot with no empty slot on its path,
      length field = number of live entries, at least one free slot *)
Theorem C05_invariant : forall hash size upd dup dtor ops, 4 <= size ->
  MInv hash (ms_m (final (m_step hash) (m_init size upd dup dtor) ops)).
Proof. exact m_inv_reachable. Qed.
Print Assumptions C05_invariant.

Theorem C05_default_size_ok : 4 <= N.to_nat Consts.cMAP_SIZE_DEFAULT.
Proof. vm_compute. repeat constructor. Qed.
Print Assumptions C05_default_size_ok.

(* 2. get / contains answer for exactly the live entries *)
Theorem C05_get : forall hash st k, m_freed (ms_m st) = false -> MInv hash (ms_m st) ->
  fst (m_step hash st (MGet k)) = st /\
  exists r, snd (m_step hash st (MGet k)) = [EPtr r] /\ lookup_is (m_slots (ms_m st)) k r.
Proof. exact get_correct. Qed.
Print Assumptions C05_get.

Theorem C05_contains : forall hash st k, m_freed (ms_m st) = false -> MInv hash (ms_m st) ->
  fst (m_step hash st (MContains k)) = st /\
  ((exists v, Has (m_slots (ms_m st)) k v) /\ snd (m_step hash st (MContains k)) = [ERet 1] \/
   (forall v, ~ Has (m_slots (ms_m st)) k v) /\ snd (m_step hash st (MContains k)) = [ERet 0]).
Proof. exact contains_correct. Qed.
Print Assumptions C05_contains.

(* 3. put: stores a new key (nothing else changes), or replaces the value of a present key when updates are allowed,
      or fails without effect on the entries (the table may have been rehashed: same entries) *)
Theorem C05_put : forall hash st k v, m_freed (ms_m st) = false -> MInv hash (ms_m st) -> v <> 0%N ->
  let m := ms_m st in let m' := ms_m (fst (m_step hash st (MPut k v))) in
  MInv hash m' /\
  ( ((forall w, ~ Has (m_slots m) k w) /\ (forall k' v', Has (m_slots m') k' v' <-> ((k' = k /\ v' = v) \/ Has (m_slots m) k' v')) /\
      m_len m' = S (m_len m) /\ last (snd (m_step hash st (MPut k v))) (ERet 1) = ERet 0)
    \/ (m_upd m = true /\ (exists old, Has (m_slots m) k old) /\
        (forall k' v', Has (m_slots m') k' v' <-> ((k' = k /\ v' = v) \/ (k' <> k /\ Has (m_slots m) k' v'))) /\
        m_len m' = m_len m /\ last (snd (m_step hash st (MPut k v))) (ERet 1) = ERet 0)
    \/ (Same (m_slots m) (m_slots m') /\ m_len m' = m_len m /\
        exists z, (z < 0)%Z /\ last (snd (m_step hash st (MPut k v))) (ERet 1) = ERet z)).
Proof. exact put_step_correct. Qed.
Print Assumptions C05_put.

(* 4. remove deletes exactly the named entry; an absent key fails without effect *)
Theorem C05_remove : forall hash st k, m_freed (ms_m st) = false -> MInv hash (ms_m st) ->
  let m := ms_m st in let m' := ms_m (fst (m_step hash st (MRemove k))) in
  ((exists v, Has (m_slots m) k v) /\ (forall k' v', Has (m_slots m') k' v' <-> (k' <> k /\ Has (m_slots m) k' v')) /\
    m_len m' + 1 = m_len m /\ last (snd (m_step hash st (MRemove k))) (ERet 1) = ERet 0)
  \/ ((forall v, ~ Has (m_slots m) k v) /\ m' = m /\ exists z, (z < 0)%Z /\ snd (m_step hash st (MRemove k)) = [ERet z]).
Proof. exact remove_step_correct. Qed.
Print Assumptions C05_remove.

(* 5. len = number of live entries; the live keys are pairwise distinct *)
Theorem C05_len : forall hash st, m_freed (ms_m st) = false -> MInv hash (ms_m st) ->
  snd (m_step hash st MLen) = [ERet (Z.of_nat (length (keys (m_slots (ms_m st)))))] /\ NoDup (keys (m_slots (ms_m st))) /\
  (forall k, In k (keys (m_slots (ms_m st))) <-> exists v, Has (m_slots (ms_m st)) k v).
Proof. exact len_correct. Qed.
Print Assumptions C05_len.

(* 6. rehash keeps exactly the entries; back-shift removal of one slot removes exactly its key (the two lemmas the rest rests on) *)
Theorem C05_rehash : forall hash s r, TInv hash s -> rehash hash s = Some r ->
  TInv hash r /\ length r = 2 * length s /\ Same s r /\ occ_count r = occ_count s.
Proof. exact rehash_correct. Qed.
Print Assumptions C05_rehash.

Theorem C05_backshift_removal : forall hash s i0 k v, TInv hash s -> i0 < length s -> at_ s i0 = Some (k, v) -> occ_count s < length s ->
  let r := clear_slot hash s i0 in
  TInv hash r /\ length r = length s /\ (forall k' v', Has r k' v' <-> (k' <> k /\ Has s k' v')) /\ occ_count r + 1 = occ_count s.
Proof. exact clear_slot_correct. Qed.
Print Assumptions C05_backshift_removal.

(* 7. iteration by callback WITHOUT mutation visits every live entry exactly once *)
Theorem C05_iterate_plain : forall hash st rc, m_freed (ms_m st) = false -> MInv hash (ms_m st) -> m_len (ms_m st) <> 0 ->
  let ks := keys (m_slots (ms_m st)) in
  m_step hash st (MIterate 0 rc false) = (mkMS (ms_m st) None, List.map EVisit ks ++ [ERet 0]) /\ NoDup ks /\
  (forall k, In k ks <-> exists v, Has (m_slots (ms_m st)) k v).
Proof. exact iterate_visits_each_once. Qed.
Print Assumptions C05_iterate_plain.

(* 7b. the iterator OBJECT (itr_new; then get_key / next), used without mutation, enumerates the same keys in the same order and ends *)
Theorem C05_iterator_object_plain : forall hash st, m_freed (ms_m st) = false -> MInv hash (ms_m st) -> m_len (ms_m st) <> 0 ->
  let ks := keys (m_slots (ms_m st)) in
  let r := run (m_step hash) st (MItrNew :: walk (length ks)) in
  key_ptrs (tl (snd r)) = ks /\ fst r = mkMS (ms_m st) None /\ NoDup ks /\
  (forall k, In k ks <-> exists v, Has (m_slots (ms_m st)) k v).
Proof. exact iterator_enumerates_each_once. Qed.
Print Assumptions C05_iterator_object_plain.

(* 7c. clear leaves an empty map (no entry, length 0), whatever clusters and wrap-arounds the table holds *)
Theorem C05_clear_empties : forall hash st, m_freed (ms_m st) = false -> MInv hash (ms_m st) ->
  let st' := fst (m_step hash st MClear) in
  MInv hash (ms_m st') /\ (forall k v, ~ Has (m_slots (ms_m st')) k v) /\ m_len (ms_m st') = 0 /\ ms_itr st' = None.
Proof. exact clear_empties. Qed.
Print Assumptions C05_clear_empties.

(* 8. the destructor log of clear and free: one release group per live entry (key copy if the map duplicates keys, then the value
      destructor if it has one), each live entry exactly once, no entry twice, nothing that was not in the map, then the return code *)
Theorem C05_clear_releases_each_entry_once : forall hash st, m_freed (ms_m st) = false -> MInv hash (ms_m st) -> m_len (ms_m st) <> 0 ->
  exists seq, NoDup (List.map fst seq) /\ (forall k v, In (k, v) seq <-> Has (m_slots (ms_m st)) k v) /\
              snd (m_step hash st MClear) = flat_map (fun kv => clear_evs (ms_m st) (fst kv) (snd kv)) seq ++ [ERet 0] /\
              snd (m_step hash st MFree) = flat_map (fun kv => clear_evs (ms_m st) (fst kv) (snd kv)) seq ++ [ERet 0].
Proof. exact clear_releases_each_entry_once. Qed.
Print Assumptions C05_clear_releases_each_entry_once.

(* 8. the clause "iteration ... with removal of the current entry visits every live entry exactly once" is FALSE of the
      faithful model (and of the code: known finding D12, replay corpus/C05/d12_iter_remove_wrap.txt): witness by computation *)
Theorem C05_iterate_with_removal_refuted :
  exists tbl ops, ~ NoDup (keys_seen (skipn 4 (m_run tbl false false false ops))).
Proof. exact iterate_with_removal_refuted. Qed.
Print Assumptions C05_iterate_with_removal_refuted.

(* non-vacuity: a reachable non-trivial state (3 colliding keys, one removed) satisfies the hypotheses used above *)
Example C05_nonvacuous :
  let st := final (m_step (assoc_hash d12_hash)) (m_init 256 true false true) [MPut 55325 102; MPut 15850 104; MPut 42048 105; MRemove 55325]%N in
  m_freed (ms_m st) = false /\ m_len (ms_m st) = 2 /\ keys (m_slots (ms_m st)) <> [].
Proof. vm_compute. repeat split; discriminate. Qed.
