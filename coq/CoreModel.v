(* CoreModel.v -- statement-order transliteration of the actor core
   (Lib/core: ctx.c mod.c ps.c src.c evts.c + poll/epoll.c) over CoreTypes.
   Callbacks are scripted and re-entrant: the API is defined over a parameter
   `run_cb` (how a user callback behaves), the knot is tied on fuel at the end. *)
From LM Require Import Base CoreTypes.

Definition cSIZE_MAX : N := 18446744073709551615%N.

Record world := mkW {
  w_tls : option ctxrec;           (* the thread's context (pthread_getspecific) *)
  w_mods : list modrec;
  w_srcs : list srcrec;
  w_heap : list obj;
  w_fds : nat;                     (* descriptors opened by the library and not yet closed *)
  w_ufd : list (N * nat);          (* user descriptors: bytes pending *)
  w_urefs : list nat;              (* per module: references held by the user *)
  w_uevts : list evtrec;           (* events the user holds a reference on *)
  w_trace : list tev;              (* newest first *)
  w_errno : Z;
  w_next : nat                     (* ghost id supply *)
}.

(* ---------- generic helpers ---------- *)
Fixpoint upd_nth {A} (i : nat) (f : A -> A) (l : list A) {struct l} : list A :=
  match l, i with
  | [], _ => []
  | x :: t, O => f x :: t
  | x :: t, S j => x :: upd_nth j f t
  end.

Definition emit (w : world) (t : tev) : world :=
  mkW (w_tls w) (w_mods w) (w_srcs w) (w_heap w) (w_fds w) (w_ufd w) (w_urefs w) (w_uevts w) (t :: w_trace w) (w_errno w) (w_next w).
Definition set_tls w c := mkW c (w_mods w) (w_srcs w) (w_heap w) (w_fds w) (w_ufd w) (w_urefs w) (w_uevts w) (w_trace w) (w_errno w) (w_next w).
Definition set_mods w ms := mkW (w_tls w) ms (w_srcs w) (w_heap w) (w_fds w) (w_ufd w) (w_urefs w) (w_uevts w) (w_trace w) (w_errno w) (w_next w).
Definition set_srcs w ss := mkW (w_tls w) (w_mods w) ss (w_heap w) (w_fds w) (w_ufd w) (w_urefs w) (w_uevts w) (w_trace w) (w_errno w) (w_next w).
Definition set_heap w h := mkW (w_tls w) (w_mods w) (w_srcs w) h (w_fds w) (w_ufd w) (w_urefs w) (w_uevts w) (w_trace w) (w_errno w) (w_next w).
Definition set_fds w n := mkW (w_tls w) (w_mods w) (w_srcs w) (w_heap w) n (w_ufd w) (w_urefs w) (w_uevts w) (w_trace w) (w_errno w) (w_next w).
Definition set_ufd w u := mkW (w_tls w) (w_mods w) (w_srcs w) (w_heap w) (w_fds w) u (w_urefs w) (w_uevts w) (w_trace w) (w_errno w) (w_next w).
Definition set_urefs w u := mkW (w_tls w) (w_mods w) (w_srcs w) (w_heap w) (w_fds w) (w_ufd w) u (w_uevts w) (w_trace w) (w_errno w) (w_next w).
Definition set_uevts w u := mkW (w_tls w) (w_mods w) (w_srcs w) (w_heap w) (w_fds w) (w_ufd w) (w_urefs w) u (w_trace w) (w_errno w) (w_next w).
Definition set_errno w e := mkW (w_tls w) (w_mods w) (w_srcs w) (w_heap w) (w_fds w) (w_ufd w) (w_urefs w) (w_uevts w) (w_trace w) e (w_next w).
Definition fresh (w : world) : world * nat :=
  (mkW (w_tls w) (w_mods w) (w_srcs w) (w_heap w) (w_fds w) (w_ufd w) (w_urefs w) (w_uevts w) (w_trace w) (w_errno w) (S (w_next w)), w_next w).

Definition upd_mod (w : world) (m : modid) (f : modrec -> modrec) : world := set_mods w (upd_nth m f (w_mods w)).
Definition upd_src (w : world) (s : nat) (f : srcrec -> srcrec) : world := set_srcs w (upd_nth s f (w_srcs w)).
Definition upd_ctx (w : world) (f : ctxrec -> ctxrec) : world :=
  match w_tls w with Some c => set_tls w (Some (f c)) | None => w end.
Definition get_mod (w : world) (m : modid) : option modrec := nth_error (w_mods w) m.
Definition get_src (w : world) (s : nat) : option srcrec := nth_error (w_srcs w) s.

(* record updaters *)
Definition mod_with_state (s : mstate) (m : modrec) : modrec :=
  mkMod (m_obj m) (m_name m) s (m_replace m) (m_persist m) (m_denyctx m) (m_denypub m) (m_denysub m) (m_hooks m)
        (m_recvs m) (m_srcs m) (m_subs m) (m_pipe m) (m_batch_len m) (m_batch_tmr m) (m_batch m) (m_stash m)
        (m_tb_rate m) (m_tb_burst m) (m_tb_tokens m) (m_tb_tmr m) (m_sent m) (m_recvd m)
        (m_eval_n m) (m_start_n m) (m_stop_n m) (m_evt_n m).
Definition mod_with_recvs (r : list nat) (m : modrec) : modrec :=
  mkMod (m_obj m) (m_name m) (m_state m) (m_replace m) (m_persist m) (m_denyctx m) (m_denypub m) (m_denysub m) (m_hooks m)
        r (m_srcs m) (m_subs m) (m_pipe m) (m_batch_len m) (m_batch_tmr m) (m_batch m) (m_stash m)
        (m_tb_rate m) (m_tb_burst m) (m_tb_tokens m) (m_tb_tmr m) (m_sent m) (m_recvd m)
        (m_eval_n m) (m_start_n m) (m_stop_n m) (m_evt_n m).
Definition mod_with_srcs (s : list nat) (m : modrec) : modrec :=
  mkMod (m_obj m) (m_name m) (m_state m) (m_replace m) (m_persist m) (m_denyctx m) (m_denypub m) (m_denysub m) (m_hooks m)
        (m_recvs m) s (m_subs m) (m_pipe m) (m_batch_len m) (m_batch_tmr m) (m_batch m) (m_stash m)
        (m_tb_rate m) (m_tb_burst m) (m_tb_tokens m) (m_tb_tmr m) (m_sent m) (m_recvd m)
        (m_eval_n m) (m_start_n m) (m_stop_n m) (m_evt_n m).
Definition mod_with_subs (s : option (list nat)) (m : modrec) : modrec :=
  mkMod (m_obj m) (m_name m) (m_state m) (m_replace m) (m_persist m) (m_denyctx m) (m_denypub m) (m_denysub m) (m_hooks m)
        (m_recvs m) (m_srcs m) s (m_pipe m) (m_batch_len m) (m_batch_tmr m) (m_batch m) (m_stash m)
        (m_tb_rate m) (m_tb_burst m) (m_tb_tokens m) (m_tb_tmr m) (m_sent m) (m_recvd m)
        (m_eval_n m) (m_start_n m) (m_stop_n m) (m_evt_n m).
Definition mod_with_pipe (p : option (list msgrec)) (m : modrec) : modrec :=
  mkMod (m_obj m) (m_name m) (m_state m) (m_replace m) (m_persist m) (m_denyctx m) (m_denypub m) (m_denysub m) (m_hooks m)
        (m_recvs m) (m_srcs m) (m_subs m) p (m_batch_len m) (m_batch_tmr m) (m_batch m) (m_stash m)
        (m_tb_rate m) (m_tb_burst m) (m_tb_tokens m) (m_tb_tmr m) (m_sent m) (m_recvd m)
        (m_eval_n m) (m_start_n m) (m_stop_n m) (m_evt_n m).
Definition mod_with_batch (len tmr : N) (b : list evtrec) (m : modrec) : modrec :=
  mkMod (m_obj m) (m_name m) (m_state m) (m_replace m) (m_persist m) (m_denyctx m) (m_denypub m) (m_denysub m) (m_hooks m)
        (m_recvs m) (m_srcs m) (m_subs m) (m_pipe m) len tmr b (m_stash m)
        (m_tb_rate m) (m_tb_burst m) (m_tb_tokens m) (m_tb_tmr m) (m_sent m) (m_recvd m)
        (m_eval_n m) (m_start_n m) (m_stop_n m) (m_evt_n m).
Definition mod_with_stash (s : list evtrec) (m : modrec) : modrec :=
  mkMod (m_obj m) (m_name m) (m_state m) (m_replace m) (m_persist m) (m_denyctx m) (m_denypub m) (m_denysub m) (m_hooks m)
        (m_recvs m) (m_srcs m) (m_subs m) (m_pipe m) (m_batch_len m) (m_batch_tmr m) (m_batch m) s
        (m_tb_rate m) (m_tb_burst m) (m_tb_tokens m) (m_tb_tmr m) (m_sent m) (m_recvd m)
        (m_eval_n m) (m_start_n m) (m_stop_n m) (m_evt_n m).
Definition mod_with_tb (rate : N) (burst tokens : option N) (tmr : N) (m : modrec) : modrec :=
  mkMod (m_obj m) (m_name m) (m_state m) (m_replace m) (m_persist m) (m_denyctx m) (m_denypub m) (m_denysub m) (m_hooks m)
        (m_recvs m) (m_srcs m) (m_subs m) (m_pipe m) (m_batch_len m) (m_batch_tmr m) (m_batch m) (m_stash m)
        rate burst tokens tmr (m_sent m) (m_recvd m)
        (m_eval_n m) (m_start_n m) (m_stop_n m) (m_evt_n m).
Definition mod_with_counts (sent recvd : nat) (m : modrec) : modrec :=
  mkMod (m_obj m) (m_name m) (m_state m) (m_replace m) (m_persist m) (m_denyctx m) (m_denypub m) (m_denysub m) (m_hooks m)
        (m_recvs m) (m_srcs m) (m_subs m) (m_pipe m) (m_batch_len m) (m_batch_tmr m) (m_batch m) (m_stash m)
        (m_tb_rate m) (m_tb_burst m) (m_tb_tokens m) (m_tb_tmr m) sent recvd
        (m_eval_n m) (m_start_n m) (m_stop_n m) (m_evt_n m).
Definition mod_with_cbn (e s p v : nat) (m : modrec) : modrec :=
  mkMod (m_obj m) (m_name m) (m_state m) (m_replace m) (m_persist m) (m_denyctx m) (m_denypub m) (m_denysub m) (m_hooks m)
        (m_recvs m) (m_srcs m) (m_subs m) (m_pipe m) (m_batch_len m) (m_batch_tmr m) (m_batch m) (m_stash m)
        (m_tb_rate m) (m_tb_burst m) (m_tb_tokens m) (m_tb_tmr m) (m_sent m) (m_recvd m) e s p v.

Definition ctx_with_state (s : cstate) (c : ctxrec) : ctxrec :=
  mkCtx (c_obj c) s (c_quit c) (c_quit_code c) (c_finalized c) (c_persist c) (c_modules c) (c_curr c) (c_running c) (c_recv c) (c_tick_ns c) (c_tick c) (c_maxev c).
Definition ctx_with_quit (q : bool) (code : N) (c : ctxrec) : ctxrec :=
  mkCtx (c_obj c) (c_state c) q code (c_finalized c) (c_persist c) (c_modules c) (c_curr c) (c_running c) (c_recv c) (c_tick_ns c) (c_tick c) (c_maxev c).
Definition ctx_with_final (f : bool) (c : ctxrec) : ctxrec :=
  mkCtx (c_obj c) (c_state c) (c_quit c) (c_quit_code c) f (c_persist c) (c_modules c) (c_curr c) (c_running c) (c_recv c) (c_tick_ns c) (c_tick c) (c_maxev c).
Definition ctx_with_modules (ms : list (nat * modid)) (c : ctxrec) : ctxrec :=
  mkCtx (c_obj c) (c_state c) (c_quit c) (c_quit_code c) (c_finalized c) (c_persist c) ms (c_curr c) (c_running c) (c_recv c) (c_tick_ns c) (c_tick c) (c_maxev c).
Definition ctx_with_curr (m : option modid) (c : ctxrec) : ctxrec :=
  mkCtx (c_obj c) (c_state c) (c_quit c) (c_quit_code c) (c_finalized c) (c_persist c) (c_modules c) m (c_running c) (c_recv c) (c_tick_ns c) (c_tick c) (c_maxev c).
Definition ctx_with_running (n : nat) (c : ctxrec) : ctxrec :=
  mkCtx (c_obj c) (c_state c) (c_quit c) (c_quit_code c) (c_finalized c) (c_persist c) (c_modules c) (c_curr c) n (c_recv c) (c_tick_ns c) (c_tick c) (c_maxev c).
Definition ctx_with_recv (n : nat) (c : ctxrec) : ctxrec :=
  mkCtx (c_obj c) (c_state c) (c_quit c) (c_quit_code c) (c_finalized c) (c_persist c) (c_modules c) (c_curr c) (c_running c) n (c_tick_ns c) (c_tick c) (c_maxev c).
Definition ctx_with_tick (ns : N) (t : option nat) (c : ctxrec) : ctxrec :=
  mkCtx (c_obj c) (c_state c) (c_quit c) (c_quit_code c) (c_finalized c) (c_persist c) (c_modules c) (c_curr c) (c_running c) (c_recv c) ns t (c_maxev c).
Definition ctx_with_maxev (n : nat) (c : ctxrec) : ctxrec :=
  mkCtx (c_obj c) (c_state c) (c_quit c) (c_quit_code c) (c_finalized c) (c_persist c) (c_modules c) (c_curr c) (c_running c) (c_recv c) (c_tick_ns c) (c_tick c) n.

Definition src_with (armed : bool) (pending : nat) (shot : bool) (s : srcrec) : srcrec :=
  mkSrc (s_obj s) (s_kind s) (s_key s) (s_fl s) (s_up s) (s_mod s) armed pending shot.
Definition src_with_up (up : N) (s : srcrec) : srcrec :=
  mkSrc (s_obj s) (s_kind s) (s_key s) (s_fl s) up (s_mod s) (s_armed s) (s_pending s) (s_shot s).

(* ---------- the ref-counted heap ---------- *)
Definition halloc (w : world) (k : okind) (links : list oid) (tag : N) : world * oid :=
  (set_heap w (w_heap w ++ [mkObj k 1 links tag]), length (w_heap w)).
Definition href (w : world) (o : oid) : world :=
  match nth_error (w_heap w) o with
  | Some ob => if Nat.eqb (o_refs ob) 0 then emit w (TFault 1)      (* reference to a freed object *)
               else set_heap w (upd_nth o (fun ob => mkObj (o_kind ob) (S (o_refs ob)) (o_links ob) (o_tag ob)) (w_heap w))
  | None => emit w (TFault 2)
  end.
Definition href_opt (w : world) (o : option oid) : world := match o with Some x => href w x | None => w end.

(* destructor side effects other than dropping the links *)
Definition dtor_effect (w : world) (ob : obj) : world :=
  match o_kind ob with
  | OData => emit w (TFreeData (o_tag ob))                       (* autofree payload released *)
  | OCtx => set_fds w (w_fds w - 1)                              (* poll_destroy closes the poll handle *)
  | OSrc =>
      (* src_priv_dtor / subscribtions_dtor *)
      match nth_error (w_srcs w) (N.to_nat (o_tag ob)) with
      | Some s =>
          let w1 := if s_armed s then
                      (* still polled: stop polling; internal descriptors (type > FD) are closed by the poll plugin *)
                      let w0 := upd_src w (N.to_nat (o_tag ob)) (src_with false (s_pending s) (s_shot s)) in
                      match s_kind s with KPs | KFd | KSub => w0 | _ => set_fds w0 (w_fds w0 - 1) end
                    else w in
          let w2 := if f_autoclose (s_fl s) then
                      match s_kind s with
                      | KPs => set_fds w1 (w_fds w1 - 1)         (* read end of the module pipe *)
                      | KFd => if f_dup (s_fl s) then set_fds w1 (w_fds w1 - 1) else emit w1 (TClose (s_key s))
                      | _ => w1
                      end
                    else w1 in
          if f_autofree (s_fl s) then emit w2 (TFreeData (s_up s)) else w2
      | None => w
      end
  | _ => w
  end.

Fixpoint hunref_loop (fuel : nat) (w : world) (work : list oid) : world :=
  match fuel with
  | O => emit w (TFault 3)
  | S f =>
      match work with
      | [] => w
      | o :: rest =>
          match nth_error (w_heap w) o with
          | None => hunref_loop f (emit w (TFault 2)) rest
          | Some ob =>
              match o_refs ob with
              | O => hunref_loop f (emit w (TFault 4)) rest          (* unref of a freed object *)
              | S O =>
                  let w1 := set_heap w (upd_nth o (fun ob => mkObj (o_kind ob) 0 (o_links ob) (o_tag ob)) (w_heap w)) in
                  hunref_loop f (dtor_effect w1 ob) (o_links ob ++ rest)
              | S n =>
                  hunref_loop f (set_heap w (upd_nth o (fun ob => mkObj (o_kind ob) n (o_links ob) (o_tag ob)) (w_heap w))) rest
              end
          end
      end
  end.
Definition hunref (w : world) (o : oid) : world := hunref_loop (2 * length (w_heap w) + 16) w [o].
Definition hunref_opt (w : world) (o : option oid) : world := match o with Some x => hunref w x | None => w end.
Definition hlive (w : world) (o : oid) : bool :=
  match nth_error (w_heap w) o with Some ob => negb (Nat.eqb (o_refs ob) 0) | None => false end.
Definition count_live (w : world) (k : okind) : nat :=
  length (filter (fun ob => okind_eqb (o_kind ob) k && negb (Nat.eqb (o_refs ob) 0)) (w_heap w)).
Definition add_link (w : world) (o : oid) (l : oid) : world :=
  set_heap w (upd_nth o (fun ob => mkObj (o_kind ob) (o_refs ob) (l :: o_links ob) (o_tag ob)) (w_heap w)).

Fixpoint remove_first (x : oid) (l : list oid) : list oid :=
  match l with [] => [] | y :: r => if Nat.eqb x y then r else y :: remove_first x r end.
Definition del_link (w : world) (o : oid) (l : oid) : world :=
  set_heap w (upd_nth o (fun ob => mkObj (o_kind ob) (o_refs ob) (remove_first l (o_links ob)) (o_tag ob)) (w_heap w)).

(* ---------- errno-style return codes ---------- *)
Definition rEINVAL := (- cEINVAL)%Z. Definition rEPERM := (- cEPERM)%Z. Definition rEACCES := (- cEACCES)%Z.
Definition rEEXIST := (- cEEXIST)%Z. Definition rENOENT := (- cENOENT)%Z. Definition rEAGAIN := (- cEAGAIN)%Z.
Definition rEPIPE := (- cEPIPE)%Z.

(* ---------- guards (DESIGN 14) ---------- *)
(* m_ctx(): the thread's context unless the module whose callback is running has deny-ctx *)
Definition the_ctx (w : world) : option ctxrec :=
  match w_tls w with
  | None => None
  | Some c =>
      match c_curr c with
      | Some m => match get_mod w m with
                  | Some mr => if m_denyctx mr then None else Some c
                  | None => Some c
                  end
      | None => Some c
      end
  end.

(* the user's handle on module m: usable iff the user holds a reference *)
Definition uref_count (w : world) (m : modid) : nat := nth m (w_urefs w) 0.

(* mod->ctx: the context object the module holds a reference on (first link of the module object) *)
Definition ctx_obj_of (w : world) (mr : modrec) : option oid :=
  match nth_error (w_heap w) (m_obj mr) with Some ob => hd_error (o_links ob) | None => None end.

(* M_MOD_ASSERT: not NULL, not a zombie, and mod->ctx == m_ctx() -- the calling thread owns the module's context *)
Definition mod_assert (w : world) (m : modid) : option Z :=
  match get_mod w m with
  | None => Some rEINVAL
  | Some mr =>
      if mstate_eqb (m_state mr) MZombie then Some rEACCES else
      match the_ctx w with
      | None => Some rEPERM
      | Some c => match ctx_obj_of w mr with
                  | Some o => if Nat.eqb o (c_obj c) then None else Some rEPERM
                  | None => Some rEPERM end
      end
  end.

Definition state_in (s : mstate) (l : list mstate) : bool := existsb (mstate_eqb s) l.

Definition mod_assert_state (w : world) (m : modid) (l : list mstate) : option Z :=
  match mod_assert w m with
  | Some e => Some e
  | None => match get_mod w m with
            | Some mr => if state_in (m_state mr) l then None else Some rEACCES
            | None => Some rEINVAL
            end
  end.

(* M_MOD_CONSUME_TOKEN *)
Definition consume_token (w : world) (m : modid) : option world :=
  match get_mod w m with
  | None => None
  | Some mr =>
      match m_tb_tokens mr with
      | None => Some w                                        (* UINT64_MAX: unlimited *)
      | Some 0%N => None
      | Some t => Some (upd_mod w m (mod_with_tb (m_tb_rate mr) (m_tb_burst mr) (Some (t - 1)%N) (m_tb_tmr mr)))
      end
  end.

(* ---------- table helpers ---------- *)
Fixpoint tbl_insert {A} (slot : nat) (x : A) (l : list (nat * A)) : list (nat * A) :=
  match l with
  | [] => [(slot, x)]
  | (s, y) :: r => if Nat.ltb slot s then (slot, x) :: l else (s, y) :: tbl_insert slot x r
  end.
Definition tbl_remove {A} (slot : nat) (l : list (nat * A)) : list (nat * A) :=
  filter (fun p => negb (Nat.eqb (fst p) slot)) l.
Definition tbl_find {A} (slot : nat) (l : list (nat * A)) : option A :=
  match find (fun p => Nat.eqb (fst p) slot) l with Some p => Some (snd p) | None => None end.

Definition assoc_n {A} (k : N) (l : list (N * A)) (d : A) : A :=
  match find (fun p => N.eqb (fst p) k) l with Some p => snd p | None => d end.

(* ---------- event description for handlers ---------- *)
Definition mod_id_z (o : option modid) : Z := match o with Some m => Z.of_nat m | None => (-1)%Z end.
Definition describe (e : evtrec) : evdesc :=
  match e_pay e with
  | EPs g => mkED 0 0 (match g_topic g with Some t => t | None => 0%N end) (g_data g) (mod_id_z (g_sender g)) (g_system g) (e_up e) (e_id e)
  | EFd fd => mkED 1 fd 0 0 (-1) false (e_up e) (e_id e)
  | ETmr ns => mkED 2 ns 0 0 (-1) false (e_up e) (e_id e)
  | ESgn s => mkED 3 s 0 0 (-1) false (e_up e) (e_id e)
  | EPath p => mkED 4 p 0 0 (-1) false (e_up e) (e_id e)
  | EPid p => mkED 5 p 0 0 (-1) false (e_up e) (e_id e)
  | ETask t => mkED 6 t 0 0 (-1) false (e_up e) (e_id e)
  | EThresh t => mkED 7 t 0 0 (-1) false (e_up e) (e_id e)
  end.

Section Api.
  Variable sc : script.
  (* how the user's callback behaves: runs a scripted procedure in world w with
     the events it was handed, returns the boolean the callback returns *)
  Variable run_cb : world -> modid -> cbkind -> nat -> list evtrec -> world * bool.

  Definition spec_of (m : modid) : option modspec := nth_error (sc_mods sc) m.
  Definition tslot (t : N) : nat := assoc_n t (sc_tslot sc) (N.to_nat t).
  Definition rematch (pat topic : N) : bool :=
    match find (fun p => N.eqb (fst (fst p)) pat && N.eqb (snd (fst p)) topic) (sc_rematch sc) with
    | Some p => snd p | None => N.eqb pat topic end.

  (* ---------- poll plugin ---------- *)
  Definition opens_fd (k : skind) : bool := match k with KPs | KFd | KSub => false | _ => true end.

  (* poll_set_new_evt ADD: create the internal descriptor for non-fd kinds, register in the poll set *)
  Definition poll_add (w : world) (s : nat) : world :=
    match get_src w s with
    | None => w
    | Some sr =>
        let w1 := if opens_fd (s_kind sr) then set_fds w (S (w_fds w)) else w in
        upd_src w1 s (src_with true (s_pending sr) false)
    end.
  (* poll_set_new_evt RM: no-op if not registered; closes internal descriptors of type > FD *)
  Definition poll_rm (w : world) (s : nat) : world :=
    match get_src w s with
    | None => w
    | Some sr =>
        if s_armed sr then
          (* a task source is disarmed while its thread has not finished: the thread still owns a pointer to the source and its
             descriptor (known finding D10): the model leaves its domain *)
          let w := if skind_eqb (s_kind sr) KTask && Nat.eqb (s_pending sr) 0 then emit w (TFault 7) else w in
          let w1 := if opens_fd (s_kind sr) then set_fds w (w_fds w - 1) else w in
          (* expirations / notifications die with the internal descriptor; a pending signal stays pending in the process,
             a dead process stays dead *)
          upd_src w1 s (src_with false (match s_kind sr with KSgn | KPid => s_pending sr | _ => 0 end) false)
        else w
    end.

  (* ---------- messages ---------- *)
  Definition ps_pipe_cap : nat := match sc_pipecap sc with O => N.to_nat cPIPE_CAP_MSGS | n => n end.

  (* tell_if: the recipient gets a copy if RUNNING|PAUSED (and, for publish, subscribed) *)
  Definition tell_copy (w : world) (r : modid) (send : nat) (system : bool) (sender : option modid)
             (topic : option N) (data : N) (sub : option nat) (pill : bool) (dataref : option oid) : world :=
    match get_mod w r with
    | None => w
    | Some rr =>
        if state_in (m_state rr) [MRunning; MPaused] then
          (* alloc_ps_msg: refs on sender, subscription, autofree holder *)
          let sender_obj := match sender with Some sm => option_map m_obj (get_mod w sm) | None => None end in
          let sub_obj := match sub with Some si => option_map s_obj (get_src w si) | None => None end in
          let links := (match dataref with Some d => [d] | None => [] end) ++
                       (match sender_obj with Some o => [o] | None => [] end) ++
                       (match sub_obj with Some o => [o] | None => [] end) in
          let w1 := href_opt (href_opt (href_opt w sender_obj) sub_obj) dataref in
          let '(w2, o) := halloc w1 OMsg links 0 in
          let '(w3, gid) := fresh w2 in
          let g := mkMsg o gid send system sender topic data sub pill in
          match m_pipe rr with
          | Some q =>
              if Nat.ltb (length q) ps_pipe_cap
              then upd_mod w3 r (mod_with_pipe (Some (q ++ [g])))
              else hunref w3 o                             (* pipe full: the copy is dropped *)
          | None => hunref w3 o                            (* write on fd -1 fails *)
          end
        else w
    end.

  (* fetch_sub: exact topic first, then the first subscription (slot order) whose regex matches *)
  Definition fetch_sub (w : world) (mr : modrec) (topic : N) : option nat :=
    match m_subs mr with
    | None => None
    | Some subs =>
        let key_of i := match get_src w i with Some s => s_key s | None => 0%N end in
        match find (fun i => N.eqb (key_of i) topic) subs with
        | Some i => Some i
        | None => find (fun i => rematch (key_of i) topic) subs
        end
    end.

  Definition table_mods (w : world) : list modid :=
    match w_tls w with Some c => map snd (c_modules c) | None => [] end.

  (* tell_pubsub_msg *)
  Definition deliver (w : world) (recipient : option modid) (system : bool) (sender : option modid)
             (topic : option N) (data : N) (pill : bool) (dataref : option oid) : world :=
    let '(w0, send) := fresh w in
    match recipient with
    | Some r => tell_copy w0 r send system sender topic data None pill dataref
    | None =>
        match topic with
        | None =>      (* broadcast: every RUNNING|PAUSED module of the table *)
            fold_left (fun w r => tell_copy w r send system sender None data None pill dataref) (table_mods w0) w0
        | Some t =>    (* publish: RUNNING|PAUSED modules with a matching subscription *)
            fold_left (fun w r =>
                         match get_mod w r with
                         | Some rr => if state_in (m_state rr) [MRunning; MPaused] then
                                        match fetch_sub w rr t with
                                        | Some si => tell_copy w r send system sender (Some t) data (Some si) pill dataref
                                        | None => w
                                        end
                                      else w
                         | None => w
                         end) (table_mods w0) w0
        end
    end.

  (* system topics: ids fixed by the drivers *)
  Definition tCTX_STARTED := 1001%N. Definition tCTX_STOPPED := 1002%N. Definition tCTX_TICK := 1003%N.
  Definition tMOD_STARTED := 1004%N. Definition tMOD_STOPPED := 1005%N. Definition tPILL := 1006%N.
  Definition is_system_topic (t : N) : bool := N.leb 1000 t && N.ltb t 1100.

  Definition tell_system (w : world) (recipient : option modid) (sender : option modid) (topic : N) (pill : bool) : world :=
    let w1 := match sender with
              | Some s => match get_mod w s with
                          | Some sr => upd_mod w s (mod_with_counts (S (m_sent sr)) (m_recvd sr))
                          | None => w end
              | None => w end in
    deliver w1 recipient true sender (Some topic) 0 pill None.

  (* ---------- events ---------- *)
  Definition src_obj (w : world) (s : option nat) : option oid :=
    match s with Some i => option_map s_obj (get_src w i) | None => None end.

  (* new_evt + the type specific processing: one ref on the source, the payload block *)
  Definition make_evt (w : world) (kind : skind) (src : option nat) (pay : epayload) (up : N) : world * evtrec :=
    let so := src_obj w src in
    let w1 := href_opt w so in
    let '(w2, payobj) := match pay with
                         | EPs g => (w1, g_obj g)              (* the message itself is the payload (its pipe reference moves to the event) *)
                         | _ => halloc w1 OPay [] 0
                         end in
    let '(w3, o) := halloc w2 OEvt ((match so with Some x => [x] | None => [] end) ++ [payobj]) 0 in
    let '(w4, eid) := fresh w3 in
    (w4, mkEvt o eid kind src pay up).

  Fixpoint unref_evts (w : world) (l : list evtrec) : world :=
    match l with [] => w | e :: r => unref_evts (hunref w (e_obj e)) r end.

  Definition lock_mod (w : world) (m : modid) : world := href_opt w (option_map m_obj (get_mod w m)).
  Definition unlock_mod (w : world) (m : modid) : world := hunref_opt w (option_map m_obj (get_mod w m)).

  (* call_pubsub_cb *)
  Definition call_pubsub_cb (w : world) (m : modid) (evts : list evtrec) : world :=
    match evts with
    | [] => w
    | _ =>
        match get_mod w m with
        | None => unref_evts w evts
        | Some mr =>
            let w1 := lock_mod w m in
            let w2 := upd_ctx w1 (ctx_with_curr (Some m)) in
            let h := match m_recvs mr with x :: _ => x | [] => 0 end in
            let w3 := upd_mod w2 m (mod_with_cbn (m_eval_n mr) (m_start_n mr) (m_stop_n mr) (S (m_evt_n mr))) in
            let w4 := emit w3 (TCb m CbEvt (m_evt_n mr) h (m_state mr) (map describe evts)) in
            let '(w5, _) := run_cb w4 m CbEvt h evts in
            let w6 := emit w5 TCbEnd in
            let w7 := match get_mod w6 m with
                      | Some mr' => upd_mod w6 m (mod_with_counts (m_sent mr') (m_recvd mr' + length evts))
                      | None => w6 end in
            let w8 := upd_ctx w7 (ctx_with_curr None) in
            let w9 := unlock_mod w8 m in
            unref_evts w9 evts
        end
    end.

  (* push_evt *)
  Definition push_evt (w : world) (m : modid) (e : evtrec) : world :=
    match get_mod w m with
    | None => hunref w (e_obj e)
    | Some mr =>
        let srcr := match e_src e with Some i => get_src w i | None => None end in
        let internal := match srcr with Some s => f_internal (s_fl s) | None => INone end in
        match internal with
        | IBatch | ITb | ITick =>
            let w1 := hunref w (e_obj e) in
            let w2 := match internal with
                      | ITb => match get_mod w1 m with
                               | Some mr1 =>
                                   match m_tb_tokens mr1, m_tb_burst mr1 with
                                   | Some t, Some b => if N.ltb t b then upd_mod w1 m (mod_with_tb (m_tb_rate mr1) (m_tb_burst mr1) (Some (t + 1)%N) (m_tb_tmr mr1)) else w1
                                   | _, _ => w1
                                   end
                               | None => w1 end
                      | _ => w1 end in
            match internal with
            | IBatch =>
                match get_mod w2 m with
                | Some mr2 => match m_batch mr2 with
                              | [] => w2
                              | b => call_pubsub_cb (upd_mod w2 m (mod_with_batch (m_batch_len mr2) (m_batch_tmr mr2) [])) m b
                              end
                | None => w2 end
            | _ =>
                (* not forced: flush only if the accumulated count reached the batch size *)
                match get_mod w2 m with
                | Some mr2 => match m_batch mr2 with
                              | [] => w2
                              | b => if N.leb (m_batch_len mr2) (N.of_nat (length b))
                                     then call_pubsub_cb (upd_mod w2 m (mod_with_batch (m_batch_len mr2) (m_batch_tmr mr2) [])) m b
                                     else w2
                              end
                | None => w2 end
            end
        | INone =>
            let e1 := match srcr with Some s => mkEvt (e_obj e) (e_id e) (e_kind e) (e_src e) (e_pay e) (s_up s) | None => e end in
            let b := m_batch mr ++ [e1] in
            let w1 := upd_mod w m (mod_with_batch (m_batch_len mr) (m_batch_tmr mr) b) in
            let p := match srcr with Some s => Some (f_prio (s_fl s)) | None => None end in
            match p with
            | Some PLow => w1
            | _ =>
                let force := match p with Some PHigh => true | _ => false end in
                if force || N.leb (m_batch_len mr) (N.of_nat (length b))
                then call_pubsub_cb (upd_mod w1 m (mod_with_batch (m_batch_len mr) (m_batch_tmr mr) [])) m b
                else w1
            end
        end
    end.

  (* ---------- sources of a module ---------- *)
  Definition srcs_of_kind (w : world) (mr : modrec) (k : skind) : list nat :=
    filter (fun i => match get_src w i with Some s => skind_eqb (s_kind s) k | None => false end) (m_srcs mr).
  Definition find_src (w : world) (mr : modrec) (k : skind) (key : N) : option nat :=
    find (fun i => match get_src w i with Some s => skind_eqb (s_kind s) k && N.eqb (s_key s) key | None => false end) (m_srcs mr).

  (* the per-kind trees are walked kind by kind, each in ascending key order *)
  Fixpoint insert_sorted (w : world) (i : nat) (l : list nat) : list nat :=
    let k i := match get_src w i with Some s => (skind_num (s_kind s), s_key s) | None => (0, 0%N) end in
    match l with
    | [] => [i]
    | j :: r => if Nat.ltb (fst (k i)) (fst (k j)) || (Nat.eqb (fst (k i)) (fst (k j)) && N.ltb (snd (k i)) (snd (k j)))
                then i :: l else j :: insert_sorted w i r
    end.

  Definition remove_src_entry (w : world) (m : modid) (i : nat) : world :=
    match get_mod w m with
    | Some mr => upd_mod w m (mod_with_srcs (filter (fun j => negb (Nat.eqb j i)) (m_srcs mr)))
    | None => w end.

  (* create_src + m_bst_insert; token and flag checks are done by the callers *)
  Definition new_src (w : world) (m : option modid) (k : skind) (key : N) (fl : sflags) (up : N) : world * nat :=
    let idx := length (w_srcs w) in
    let '(w1, o) := halloc w OSrc [] (N.of_nat idx) in
    let w2 := if (skind_eqb k KFd || skind_eqb k KPs) && f_dup fl then set_fds w1 (S (w_fds w1)) else w1 in
    (set_srcs w2 (w_srcs w2 ++ [mkSrc o k key fl up m false 0 false]), idx).

  (* register_mod_src after the parameter checks: returns the code *)
  Definition register_mod_src (w : world) (m : modid) (k : skind) (key : N) (p : nat) (oneshot autoclose : bool)
             (internal : internal_of) (up : N) : world * Z :=
    match mod_assert w m with
    | Some e => (w, e)
    | None =>
        if Nat.leb 4 p then (w, rEINVAL) else                       (* more than one priority bit *)
        match consume_token w m with
        | None => (w, rEAGAIN)
        | Some w1 =>
            match get_mod w1 m with
            | None => (w1, rEINVAL)
            | Some mr =>
                let pr := match k, p with
                          | KFd, _ => PHigh
                          | _, 1 => PLow | _, 3 => PHigh | _, _ => PNorm end in
                let one := oneshot || skind_eqb k KTask || skind_eqb k KThresh in
                let fl := mkSF pr false one false autoclose internal in
                match find_src w1 mr k key with
                | Some _ => (w1, rEEXIST)                            (* the freshly created source is released again *)
                | None =>
                    let '(w2, i) := new_src w1 (Some m) k key fl up in
                    let w3 := upd_mod w2 m (mod_with_srcs (insert_sorted w2 i (m_srcs mr))) in
                    let w4 := if mstate_eqb (m_state mr) MRunning then poll_add w3 i else w3 in
                    (w4, 0%Z)
                end
            end
        end
    end.

  (* m_mod_src_register_fd with M_SRC_DUP: the library polls, reports and finally closes a DUPLICATE of the user's descriptor. The source is
     keyed by the duplicate -- a number the user never chose -- so it never collides with a registered key and cannot be deregistered by the
     user's descriptor (observation D36). Model of the fresh number: 2^32 * (ordinal of the duplicate) + the user's descriptor id. *)
  Definition dup_key (w : world) (key : N) : N :=
    (4294967296 * N.of_nat (S (length (filter (fun s => f_dup (s_fl s)) (w_srcs w)))) + key)%N.
  Definition fd_of_key (k : N) : N := (k mod 4294967296)%N.
  Definition register_dup_fd (w : world) (m : modid) (key : N) (p : nat) (oneshot : bool) (up : N) : world * Z :=
    match mod_assert w m with
    | Some e => (w, e)
    | None =>
        if Nat.leb 4 p then (w, rEINVAL) else
        match consume_token w m with
        | None => (w, rEAGAIN)
        | Some w1 =>
            match get_mod w1 m with
            | None => (w1, rEINVAL)
            | Some mr =>
                let fl := mkSF PHigh false oneshot true true INone in       (* M_SRC_DUP implies M_SRC_FD_AUTOCLOSE *)
                let '(w2, i) := new_src w1 (Some m) KFd (dup_key w1 key) fl up in
                let w3 := upd_mod w2 m (mod_with_srcs (insert_sorted w2 i (m_srcs mr))) in
                let w4 := if mstate_eqb (m_state mr) MRunning then poll_add w3 i else w3 in
                (w4, 0%Z)
            end
        end
    end.

  Definition deregister_mod_src (w : world) (m : modid) (k : skind) (key : N) : world * Z :=
    match mod_assert w m with
    | Some e => (w, e)
    | None =>
        match consume_token w m with
        | None => (w, rEAGAIN)
        | Some w1 =>
            match get_mod w1 m with
            | None => (w1, rEINVAL)
            | Some mr =>
                match find_src w1 mr k key with
                | None => (w1, match srcs_of_kind w1 mr k with [] => rEINVAL | _ => rENOENT end)   (* m_bst_remove on an empty tree *)
                | Some i =>
                    let w2 := poll_rm w1 i in
                    let w3 := remove_src_entry w2 m i in
                    (hunref_opt w3 (src_obj w3 (Some i)), 0%Z)
                end
            end
        end
    end.

  (* ---------- module state machine ---------- *)
  Fixpoint drain_pipe (w : world) (q : list msgrec) : world :=
    match q with [] => w | g :: r => drain_pipe (hunref w (g_obj g)) r end.

  (* optional_hook *)
  Definition optional_hook (w : world) (m : modid) (k : cbkind) : world * Z :=
    match get_mod w m with
    | None => (w, 0%Z)
    | Some mr =>
        let has := match k with CbEval => h_eval (m_hooks mr) | CbStart => h_start (m_hooks mr)
                           | CbStop => h_stop (m_hooks mr) | CbEvt => true end in
        let w1 := lock_mod w m in
        let w2 := upd_ctx w1 (ctx_with_curr (Some m)) in
        let '(w3, b) :=
          if has then
            let n := match k with CbEval => m_eval_n mr | CbStart => m_start_n mr | _ => m_stop_n mr end in
            let wc := upd_mod w2 m (match k with
                                    | CbEval => mod_with_cbn (S (m_eval_n mr)) (m_start_n mr) (m_stop_n mr) (m_evt_n mr)
                                    | CbStart => mod_with_cbn (m_eval_n mr) (S (m_start_n mr)) (m_stop_n mr) (m_evt_n mr)
                                    | _ => mod_with_cbn (m_eval_n mr) (m_start_n mr) (S (m_stop_n mr)) (m_evt_n mr) end) in
            let '(wr, b) := run_cb (emit wc (TCb m k n 0 (m_state mr) [])) m k 0 [] in
            (emit wr TCbEnd, match k with CbStop => true | _ => b end)
          else (w2, true) in
        let w4 := upd_ctx w3 (ctx_with_curr None) in
        let ret := match get_mod w4 m with
                   | Some mr' => if mstate_eqb (m_state mr') MZombie then rENOENT else if b then 0%Z else (-1)%Z
                   | None => 0%Z end in
        (unlock_mod w4 m, ret)
    end.

  (* reset_module *)
  Definition reset_module (w : world) (m : modid) : world :=
    match get_mod w m with
    | None => w
    | Some mr =>
        let w1 := match m_pipe mr with
                  | Some _ => set_fds (upd_mod w m (mod_with_pipe None)) (w_fds w - 1)    (* close the write end *)
                  | None => w end in
        (* m_map_clear(subscriptions) *)
        let w2 := match m_subs mr with
                  | Some subs => fold_left (fun w i => hunref_opt w (src_obj w (Some i))) subs (upd_mod w1 m (mod_with_subs (Some [])))
                  | None => w1 end in
        let w3 := upd_mod w2 m (mod_with_recvs []) in
        let w4 := unref_evts (upd_mod w3 m (mod_with_stash [])) (m_stash mr) in
        let w5 := unref_evts (upd_mod w4 m (mod_with_batch 0 0 [])) (m_batch mr) in
        upd_mod w5 m (mod_with_tb 0 None None 0)
    end.

  (* manage_srcs(RM, stop = true): drain the pipe, stop polling, drop every source *)
  Definition drop_sources (w : world) (m : modid) : world :=
    match get_mod w m with
    | None => w
    | Some mr =>
        fold_left (fun w i =>
                     let w1 := match get_src w i with
                               | Some s => if skind_eqb (s_kind s) KPs then
                                             match get_mod w m with
                                             | Some mr' => match m_pipe mr' with
                                                           | Some q => drain_pipe (upd_mod w m (mod_with_pipe (Some []))) q
                                                           | None => w end
                                             | None => w end
                                           else w
                               | None => w end in
                     let w2 := poll_rm w1 i in
                     let w3 := remove_src_entry w2 m i in
                     hunref_opt w3 (src_obj w3 (Some i)))
                  (m_srcs mr) w
    end.

  (* stop_as(mod, stopping, final_state) *)
  Definition stop_mod_as (w : world) (m : modid) (stopping : bool) (final : mstate) : world * Z :=
    match get_mod w m with
    | None => (w, 0%Z)
    | Some mr =>
        let w1 := if stopping then drop_sources w m
                  else fold_left poll_rm (m_srcs mr) w in
        let w2 := if mstate_eqb (m_state mr) MRunning then upd_ctx w1 (fun c => ctx_with_running (c_running c - 1) c) else w1 in
        let w3 := upd_mod w2 m (mod_with_state final) in
        let '(w4, ret) := if stopping then optional_hook (reset_module w3 m) m CbStop else (w3, 0%Z) in
        if (ret =? rENOENT)%Z && negb (mstate_eqb final MZombie) then (w4, ret)      (* deregistered inside its on_stop *)
        else (tell_system w4 None (Some m) tMOD_STOPPED false, 0%Z)
    end.
  Definition stop_mod (w : world) (m : modid) (stopping : bool) : world * Z :=
    stop_mod_as w m stopping (if stopping then MStopped else MPaused).

  (* start(mod, starting) *)
  Definition start_mod (w : world) (m : modid) (starting : bool) : world * Z :=
    match get_mod w m with
    | None => (w, 0%Z)
    | Some mr =>
        (* init_pubsub_fd: pipe + the internal PS source (consumes a token like any registration) *)
        let '(w1, ret0) :=
          if starting then
            let w0 := set_fds (upd_mod w m (mod_with_pipe (Some []))) (w_fds w + 2) in
            let '(w0', r) := register_mod_src w0 m KPs 0 3 false true INone 0 in
            if (r =? 0)%Z then (w0', 0%Z)
            else (set_fds (upd_mod w0' m (mod_with_pipe None)) (w_fds w0' - 2), r)
          else (w, 0%Z) in
        if negb (ret0 =? 0)%Z then (w1, ret0) else
        match get_mod w1 m with
        | None => (w1, 0%Z)
        | Some mr1 =>
            let w2 := fold_left poll_add (m_srcs mr1) w1 in
            let w3 := upd_mod w2 m (mod_with_state MRunning) in
            let w4 := upd_ctx w3 (fun c => ctx_with_running (S (c_running c)) c) in
            let '(w5, ret) := if starting then optional_hook w4 m CbStart else (w4, 0%Z) in
            if (ret =? 0)%Z then (tell_system w5 None (Some m) tMOD_STARTED false, 0%Z)
            else if (ret =? -1)%Z then (fst (stop_mod w5 m true), 0%Z)
            else (w5, ret)
        end
    end.

  (* evaluate_module (thresholds not modelled) *)
  Definition evaluate_module (w : world) (m : modid) : world :=
    match get_mod w m with
    | Some mr => if mstate_eqb (m_state mr) MIdle then
                   let '(w1, r) := optional_hook w m CbEval in
                   if (r =? 0)%Z && match get_mod w1 m with Some mr1 => mstate_eqb (m_state mr1) MIdle | None => false end
                   then fst (start_mod w1 m true) else w1
                 else w
    | None => w end.

  (* m_map_iterate over the modules table with a callback that may change the table.
     Returns the world and whether the pass was aborted (-EACCES). *)
  Fixpoint iterate_mods (fuel : nat) (w : world) (after : option nat) (f : world -> modid -> world) : world * bool :=
    match fuel with
    | O => (emit w (TFault 3), false)
    | S fu =>
        match w_tls w with
        | None => (w, false)
        | Some c =>
            let rest := match after with
                        | None => c_modules c
                        | Some s => filter (fun p => Nat.ltb s (fst p)) (c_modules c) end in
            match rest with
            | [] => (w, false)
            | (slot, m) :: _ =>
                let n := length (c_modules c) in
                let w1 := f w m in
                match w_tls w1 with
                | None => (w1, false)
                | Some c1 =>
                    match tbl_find slot (c_modules c1) with
                    | Some m' =>
                        if Nat.eqb m' m then
                          if Nat.eqb (length (c_modules c1)) n then iterate_mods fu w1 (Some slot) f
                          else (w1, true)                      (* another entry was put/removed *)
                        else iterate_mods fu w1 (match after with Some s => Some s | None => None end) f
                                                             (* the entry changed: run this slot again *)
                    | None => iterate_mods fu w1 (Some slot) f   (* the entry was removed: go on *)
                    end
                end
            end
        end
    end.
  Definition iter_fuel (w : world) : nat := 4 * length (w_mods w) + 16.

  (* ---------- context ---------- *)
  Definition ctx_deregister (w : world) (mod_dereg : world -> modid -> world) : world * Z :=
    match the_ctx w with
    | None => (w, rEPIPE)
    | Some c =>
        match c_state c with
        | CIdle =>
            let w1 := upd_ctx w (fun c => ctx_with_final true (ctx_with_state CZombie c)) in
            let fix again (n : nat) (w : world) : world :=
                match n with
                | O => w
                | S k => let '(w', ab) := iterate_mods (iter_fuel w) w None mod_dereg in
                         if ab then again k w' else w'
                end in
            let w2 := again (S (length (w_mods w))) w1 in
            match w_tls w2 with
            | Some c2 => (hunref (set_tls w2 None) (c_obj c2), 0%Z)
            | None => (w2, 0%Z)
            end
        | _ => (w, rEINVAL)
        end
    end.

  (* mod_deregister *)
  Fixpoint mod_deregister (fuel : nat) (w : world) (m : modid) (from_user : bool) : world * Z :=
    match fuel with
    | O => (emit w (TFault 3), 0%Z)
    | S fu =>
    match (if from_user then mod_assert w m else
             match get_mod w m with
             | Some mr => if mstate_eqb (m_state mr) MZombie then Some rEACCES
                          else match the_ctx w with None => Some rEPERM | Some _ => None end
             | None => Some rEINVAL end) with
    | Some e => (w, e)
    | None =>
        match get_mod w m, w_tls w with
        | Some mr, Some c =>
            if m_persist mr && match c_state c with CLooping => true | _ => false end then (w, rEPERM) else
            let w1 := lock_mod w m in
            let slot := match spec_of m with Some s => ms_slot s | None => 0 end in
            match tbl_find slot (c_modules c) with
            | Some m' =>
                if negb (Nat.eqb m' m) then (unlock_mod w1 m, rENOENT) else
                (* m_map_remove: the table's reference is dropped *)
                let w2 := upd_ctx w1 (fun c => ctx_with_modules (tbl_remove slot (c_modules c)) c) in
                let w3 := hunref w2 (m_obj mr) in
                let '(w4, _) := stop_mod_as w3 m true MZombie in
                let w5 := w4 in
                let w6 := if from_user
                          then hunref (set_urefs w5 (upd_nth m (fun n => n - 1) (w_urefs w5))) (m_obj mr)
                          else w5 in
                let '(w7, ret) :=
                  match w_tls w6 with
                  | Some c6 =>
                      if from_user && match c_state c6 with CIdle => true | _ => false end
                         && Nat.eqb (length (c_modules c6)) 0 && negb (c_persist c6)
                      then ctx_deregister w6 (fun w m => fst (mod_deregister fu w m false))
                      else (w6, 0%Z)
                  | None => (w6, 0%Z) end in
                (unlock_mod w7 m, ret)
            | None => (unlock_mod w1 m, rENOENT)
            end
        | _, _ => (w, rEPERM)
        end
    end
    end.
  Definition dereg_fuel (w : world) : nat := length (w_mods w) + 4.

  (* m_mod_register *)
  Definition mod_register (w : world) (m : modid) : world * Z :=
    match spec_of m with
    | None => (w, rEINVAL)
    | Some sp =>
        match the_ctx w with
        | None => (w, rEPIPE)
        | Some c =>
            if c_finalized c then (w, rEPERM) else
            let '(w1, r1) :=
              match tbl_find (ms_slot sp) (c_modules c) with
              | Some old =>
                  match get_mod w old with
                  | Some omr => if m_replace omr then mod_deregister (dereg_fuel w) w old false else (w, rEEXIST)
                  | None => (w, 0%Z) end
              | None => (w, 0%Z) end in
            if negb (r1 =? 0)%Z then (w1, r1) else
            (* the replaced module's on_stop may have torn down or finalized the context *)
            match (match tbl_find (ms_slot sp) (c_modules c) with Some _ => the_ctx w1 | None => w_tls w1 end) with
            | None => (w1, rEPERM)
            | Some c1 =>
                if c_finalized c1 then (w1, rEPERM) else
                (* the module object: one reference for the table, one for the user's handle; it holds a reference on the context *)
                let w2 := href w1 (c_obj c1) in
                let '(w3, o) := halloc w2 OMod [c_obj c1] (N.of_nat m) in
                let w4 := href w3 o in
                let mr := mkMod o (ms_name sp) MIdle (ms_replace sp) (ms_persist sp) (ms_denyctx sp) (ms_denypub sp) (ms_denysub sp)
                                (ms_hooks sp) [] [] None None 0 0 [] [] 0 None None 0 0 0 0 0 0 0 in
                (* module ids are script indices; w_mods is pre-filled with inert placeholders (object 0) *)
                match get_mod w4 m with
                | None => (emit w4 (TFault 5), rEINVAL)
                | Some ph =>
                if negb (Nat.eqb (m_obj ph) 0) then (emit w4 (TFault 5), rEINVAL) else
                let w5 := set_mods w4 (upd_nth m (fun _ => mr) (w_mods w4)) in
                let w6 := set_urefs w5 (upd_nth m (fun _ => 1) (w_urefs w5)) in
                (upd_ctx w6 (fun c => ctx_with_modules (tbl_insert (ms_slot sp) m (c_modules c)) c), 0%Z)
                end
            end
        end
    end.

  (* ---------- loop ---------- *)
  Definition eval_pass (w : world) : world := fst (iterate_mods (iter_fuel w) w None evaluate_module).

  Definition loop_start (w : world) : world * Z :=
    let w1 := upd_ctx w (fun c => ctx_with_quit false 0 (ctx_with_state CLooping (ctx_with_maxev (N.to_nat cM_CTX_DEFAULT_EVENTS) c))) in
    let w2 := eval_pass w1 in
    let w3 := tell_system w2 None None tCTX_STARTED false in
    let w4 := match w_tls w3 with
              | Some c => match c_tick c with Some t => poll_add w3 t | None => w3 end
              | None => w3 end in
    (w4, 0%Z).

  (* flush_pubsub_msgs at loop stop (the module-stop variant is drop_sources) *)
  Definition flush_mod (w : world) (m : modid) : world :=
    match get_mod w m with
    | None => w
    | Some mr =>
        let running := mstate_eqb (m_state mr) MRunning in
        let '(w1, start) := if running then (upd_mod w m (mod_with_batch (m_batch_len mr) (m_batch_tmr mr) []), m_batch mr)
                            else (w, []) in
        match m_pipe mr with
        | None => call_pubsub_cb w1 m start
        | Some q =>
            let w2 := upd_mod w1 m (mod_with_pipe (Some [])) in
            let '(w3, evs, pilled) :=
              fold_left (fun acc g =>
                           let '(w, evs, pilled) := acc in
                           if running && negb pilled then
                             if g_pill g then (hunref w (g_obj g), evs, true)
                             else let up := match g_sub g with Some i => match get_src w i with Some s => s_up s | None => 0%N end | None => 0%N end in
                                  let '(w', e) := make_evt w (match g_sub g with Some _ => KSub | None => KPs end) (g_sub g) (EPs g) up in
                                  (w', evs ++ [e], pilled)
                           else (hunref w (g_obj g), evs, pilled))
                        q (w2, start, false) in
            let w4 := lock_mod w3 m in
            let w5 := call_pubsub_cb w4 m evs in
            let w6 := if pilled then match get_mod w5 m with
                                     | Some mr5 => if mstate_eqb (m_state mr5) MRunning then fst (stop_mod w5 m true) else w5
                                     | None => w5 end
                      else w5 in
            unlock_mod w6 m
        end
    end.

  Definition loop_stop (w : world) (ctx_dereg : world -> world * Z) : world * Z :=
    let w1 := tell_system w None None tCTX_STOPPED false in
    let fix again (n : nat) (w : world) : world :=
        match n with
        | O => w
        | S k => let '(w', ab) := iterate_mods (iter_fuel w) w None flush_mod in
                 if ab then again k w' else w'
        end in
    let w2 := again (S (length (w_mods w1))) w1 in
    let w3 := upd_ctx w2 (ctx_with_state CIdle) in
    let w4 := match w_tls w3 with
              | Some c => match c_tick c with Some t => poll_rm w3 t | None => w3 end
              | None => w3 end in
    (* m_thpool_free(&c->thpool, false) waits for the task bodies that are running: every unfinished task completes here
       (its completion event stays pending for the next loop) *)
    let w4 := set_srcs w4 (map (fun s => if skind_eqb (s_kind s) KTask && s_armed s && Nat.eqb (s_pending s) 0
                                         then src_with true 1 (s_shot s) s else s) (w_srcs w4)) in
    let w5 := upd_ctx w4 (fun c => ctx_with_recv 0 (ctx_with_maxev 0 c)) in
    match w_tls w5 with
    | Some c =>
        let code := Z.of_N (c_quit_code c) in
        if Nat.eqb (length (c_modules c)) 0 && negb (c_persist c)
        then (fst (ctx_dereg w5), code) else (w5, code)
    | None => (w5, 0%Z)
    end.

  (* the set the poll plugin reports: armed sources with pending input, canonical order
     (context sources first, then by module, kind, key); at most max_events *)
  Definition src_ready (w : world) (s : srcrec) : bool :=
    s_armed s && negb (s_shot s) && hlive w (s_obj s) &&
    match s_kind s with
    | KPs => match s_mod s with
             | Some m => match get_mod w m with
                         | Some mr => match m_pipe mr with Some (_ :: _) => true | _ => false end
                         | None => false end
             | None => false end
    | KFd => negb (Nat.eqb (assoc_n (fd_of_key (s_key s)) (w_ufd w) 0) 0)
    | _ => negb (Nat.eqb (s_pending s) 0)
    end.

  Definition ready_key (w : world) (i : nat) : nat * nat * N :=
    match get_src w i with
    | Some s => (match s_mod s with Some m => S m | None => 0 end, skind_num (s_kind s), s_key s)
    | None => (0, 0, 0%N)
    end.
  Definition key_lt (a b : nat * nat * N) : bool :=
    let '(a1, a2, a3) := a in let '(b1, b2, b3) := b in
    Nat.ltb a1 b1 || (Nat.eqb a1 b1 && (Nat.ltb a2 b2 || (Nat.eqb a2 b2 && N.ltb a3 b3))).
  Fixpoint ins_ready (w : world) (i : nat) (l : list nat) : list nat :=
    match l with
    | [] => [i]
    | j :: r => if key_lt (ready_key w i) (ready_key w j) then i :: l else j :: ins_ready w i r
    end.
  Definition ready_set (w : world) : list nat :=
    let idxs := filter (fun i => match get_src w i with Some s => src_ready w s | None => false end) (seq 0 (length (w_srcs w))) in
    let sorted := fold_left (fun acc i => ins_ready w i acc) idxs [] in
    firstn (match w_tls w with Some c => c_maxev c | None => 0 end) sorted.

  (* one event of a poll batch *)
  Definition process_one (w : world) (i : nat) : world * nat :=     (* returns recved increment *)
    match get_src w i with
    | None => (w, 0)
    | Some s =>
        if negb (s_armed s) then (w, 0) else           (* stopped polling earlier in this batch: skipped *)
        match s_mod s with
        | None =>
            (* context source: the tick *)
            let w1 := upd_src w i (src_with (s_armed s) 0 (s_shot s)) in
            (tell_system w1 None None tCTX_TICK false, 1)
        | Some m =>
            match get_mod w m with
            | None => (w, 0)
            | Some mr =>
                let w0 := set_errno w 0 in
                (* consume the source, build the event *)
                let oneshot := f_oneshot (s_fl s) in
                (* a pid descriptor stays readable once the process is dead: the readiness is not consumed; a finished task stays
                   finished (its thread is gone: the one-shot source can be destroyed right after the event, see poll_rm) *)
                let w1 := upd_src w0 i (src_with (s_armed s) (match s_kind s with KPid | KTask => s_pending s | _ => 0 end) (oneshot || s_shot s)) in
                match s_kind s with
                | KPs =>
                    match m_pipe mr with
                    | Some (g :: q) =>
                        let w2 := upd_mod w1 m (mod_with_pipe (Some q)) in
                        let '(w3, e) := make_evt w2 (match g_sub g with Some _ => KSub | None => KPs end) (g_sub g) (EPs g) 0 in
                        (* one-shot subscription: removed from the map after its first message *)
                        let w4 := match g_sub g with
                                  | Some si =>
                                      match get_src w3 si with
                                      | Some ss =>
                                          if f_oneshot (s_fl ss) then
                                            match get_mod w3 m with
                                            | Some mr3 => match m_subs mr3 with
                                                          | Some subs => if existsb (Nat.eqb si) subs
                                                                         then hunref (upd_mod w3 m (mod_with_subs (Some (filter (fun j => negb (Nat.eqb j si)) subs)))) (s_obj ss)
                                                                         else w3
                                                          | None => w3 end
                                            | None => w3 end
                                          else w3
                                      | None => w3 end
                                  | None => w3 end in
                        if g_pill g then
                          (* poison pill: deliver what is batched, then stop *)
                          let w5 := lock_mod w4 m in
                          let w6 := match get_mod w5 m with
                                    | Some mr5 => call_pubsub_cb (upd_mod w5 m (mod_with_batch (m_batch_len mr5) (m_batch_tmr mr5) [])) m (m_batch mr5)
                                    | None => w5 end in
                          let w7 := match get_mod w6 m with
                                    | Some mr6 => if mstate_eqb (m_state mr6) MRunning then fst (stop_mod w6 m true) else w6
                                    | None => w6 end in
                          let w8 := unlock_mod w7 m in
                          (hunref w8 (e_obj e), 1)
                        else (push_evt w4 m e, 1)
                    | _ => (w1, 0)
                    end
                | k =>
                    (* the source was paused and resumed earlier in this batch: its internal descriptor is a new one and has nothing
                       to read (the reported readiness is stale); the consume call fails with EAGAIN and the event is skipped *)
                    if negb (skind_eqb k KFd) && Nat.eqb (s_pending s) 0 then (w0, 0) else
                    let pay := match k with
                               | KFd => EFd (s_key s) | KTmr => ETmr (s_key s) | KSgn => ESgn (s_key s)
                               | KPath => EPath (s_key s) | KPid => EPid (s_key s) | KTask => ETask (s_key s)
                               | _ => EThresh (s_key s) end in
                    let '(w2, e) := make_evt w1 k (Some i) pay 0 in
                    (* user descriptors are level triggered: the scripted handler reads one byte per event *)
                    let w3 := match k with
                              | KFd => set_ufd w2 (map (fun p => if N.eqb (fst p) (fd_of_key (s_key s)) then (fst p, snd p - 1) else p) (w_ufd w2))
                              | _ => w2 end in
                    let w4 := if oneshot then
                                let w' := poll_rm w3 i in
                                let w'' := remove_src_entry w' m i in
                                hunref w'' (s_obj s)
                              else w3 in
                    (push_evt w4 m e, 1)
                end
            end
        end
    end.

  Definition recv_events (w : world) : world * Z :=
    let w00 := set_errno w 0 in
    let batch := ready_set w00 in
    (* every source of the batch, and its module, stays referenced until the batch is done *)
    let objs_of w i := match get_src w i with
                       | Some s => s_obj s :: match s_mod s with
                                              | Some m => match get_mod w m with Some mr => [m_obj mr] | None => [] end
                                              | None => [] end
                       | None => [] end in
    let held := flat_map (objs_of w00) batch in
    let w0 := fold_left href held w00 in
    let '(w1', n) := fold_left (fun acc i => let '(w, n) := acc in let '(w', k) := process_one w i in (w', n + k)) batch (w0, 0) in
    let w1 := fold_left hunref held w1' in
    if Nat.ltb 0 n then
      let w2 := eval_pass w1 in
      (upd_ctx w2 (fun c => ctx_with_recv (c_recv c + n) c), Z.of_nat n)
    else (w1, 0%Z).

End Api.
