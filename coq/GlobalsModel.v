(* GlobalsModel.v -- C14, first clause: contexts on different threads share no unsynchronised library state.
   Globals.v (GENERATED from /repo on every run by tools/globals_scan.py) lists every library symbol in a writable section
   together with the functions that assign it or take its address.  This file holds
     - the POLICY: for each known symbol, which accessors exist and by which mechanism each of them is ordered
       with respect to everything the context threads do;
     - a small happens-before model of accesses made by several context threads;
     - the theorem: given the inventory, no two accesses of different threads to one global race.
   A new static (file or function scope), or a new writer of an existing one, makes [inventory_ok] fail to compute to true:
   the proof obligation breaks, and the check then looks for a concrete race with the ThreadSanitizer harness. *)
From Coq Require Import String List Bool.
From LM Require Import Globals.
Import ListNotations.
Local Open Scope string_scope.

Inductive phase :=
| PStartup      (* runs in an ELF constructor, before main and before any thread exists *)
| POnce         (* runs inside pthread_once: ordered before every later access of any thread that passed pthread_once *)
| POnceCtl      (* the pthread_once_t control word, only ever handed to pthread_once *)
| PConfig       (* m_set_memhook: documented as "before any other library call" (a process-wide configuration step) *)
| PLoop.        (* may run on a context thread while other contexts run *)

Definition phase_eqb (a b : phase) : bool :=
  match a, b with
  | PStartup, PStartup | POnce, POnce | POnceCtl, POnceCtl | PConfig, PConfig | PLoop, PLoop => true
  | _, _ => false
  end.

(* global -> its permitted accessors (function, kind, ordering mechanism).  Tables that are never written have none. *)
Definition policy : list (string * list (string * string * phase)) :=
  [ ("key",              [("make_key", "a", POnce)]);
    ("key_once",         [("m_ctx", "a", POnceCtl); ("m_ctx_register", "a", POnceCtl)]);
    ("libmodule_logger", [("libmodule_log_init", "w", PStartup)]);
    ("memhook",          [("m_set_memhook", "w", PConfig)]);
    ("errors", []); ("lvl_names", []); ("src_cmp_map", []); ("src_names", []); ("src_procs_map", []) ].

Fixpoint lookup {A} (k : string) (l : list (string * A)) : option A :=
  match l with
  | [] => None
  | (k', v) :: r => if String.eqb k k' then Some v else lookup k r
  end.

(* how an accessor found in the sources is ordered: unknown symbol or unknown accessor = not ordered at all *)
Definition phase_of (g fn kind : string) : phase :=
  match lookup g policy with
  | None => PLoop
  | Some acc =>
      match find (fun a => String.eqb (fst (fst a)) fn && String.eqb (snd (fst a)) kind) acc with
      | Some a => snd a
      | None => PLoop
      end
  end.

Definition entry_ok (e : string * string * list (string * string)) : bool :=
  let '(g, _, acc) := e in
  match lookup g policy with
  | None => false
  | Some _ => forallb (fun a => negb (phase_eqb (phase_of g (fst a) (snd a)) PLoop)) acc
  end.

Definition inventory_ok : bool := forallb entry_ok globals.

(* ---------- accesses of several threads ---------- *)
Record access := mkAcc { a_thread : nat; a_global : string; a_write : bool; a_phase : phase }.

(* a WRITE (or a pointer through which a write may happen) can only come from an accessor present in the inventory;
   reads may happen anywhere, in any phase *)
Definition from_inventory (a : access) : Prop :=
  a_write a = true ->
  exists file acc fn kind, In (a_global a, file, acc) globals /\ In (fn, kind) acc /\ phase_of (a_global a) fn kind = a_phase a.

(* accesses in one of the synchronised phases are ordered with every other access (by the mechanism named at [phase]) *)
Definition ordered (a b : access) : Prop := a_phase a <> PLoop \/ a_phase b <> PLoop.

Definition race (a b : access) : Prop :=
  a_thread a <> a_thread b /\ a_global a = a_global b /\ (a_write a = true \/ a_write b = true) /\ ~ ordered a b.

Lemma write_not_loop a : inventory_ok = true -> from_inventory a -> a_write a = true -> a_phase a <> PLoop.
Proof.
  intros Hok Hinv Hw. destruct (Hinv Hw) as (file & acc & fn & kind & Hin & Hacc & Hph).
  unfold inventory_ok in Hok. rewrite forallb_forall in Hok. specialize (Hok _ Hin). unfold entry_ok in Hok.
  destruct (lookup (a_global a) policy) as [pl|] eqn:Hl; [|discriminate].
  rewrite forallb_forall in Hok. specialize (Hok _ Hacc). cbn [fst snd] in Hok. rewrite Hph in Hok.
  intro Heq. rewrite Heq in Hok. discriminate.
Qed.

Theorem no_race_given_inventory a b : inventory_ok = true -> from_inventory a -> from_inventory b -> ~ race a b.
Proof.
  intros Hok Ha Hb (Hth & Hg & Hw & Hno). apply Hno. unfold ordered.
  destruct Hw as [Hw|Hw]; [left; exact (write_not_loop a Hok Ha Hw) | right; exact (write_not_loop b Hok Hb Hw)].
Qed.

(* the obligation that depends on the generated inventory *)
Theorem inventory_checked : inventory_ok = true.
Proof. vm_compute. reflexivity. Qed.

Theorem contexts_share_no_unsynchronised_state a b : from_inventory a -> from_inventory b -> ~ race a b.
Proof. exact (no_race_given_inventory a b inventory_checked). Qed.

(* non-vacuity: a loop-phase write to a global the inventory does not cover WOULD be a race, and such accesses are excluded
   only by [from_inventory] *)
Example race_is_possible_in_principle :
  race (mkAcc 1 "last_time_called" true PLoop) (mkAcc 2 "last_time_called" false PLoop).
Proof. unfold race, ordered; cbn. repeat split; try (left; reflexivity); try discriminate. intros [H|H]; apply H; reflexivity. Qed.

Example inventory_nonempty : length globals <> 0.
Proof. vm_compute. discriminate. Qed.
