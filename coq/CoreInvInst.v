(* CoreInvInst.v -- global invariants of the actor-core model obtained from CoreInv.inv_reachable / inv_from:
   each holds in every world reachable by any script under any behaviour of the scripted callbacks. *)
From LM Require Import Base CoreTypes CoreModel CoreExec CoreInv.
From Coq Require Import Lia.

(* ---------- C18: the bucket is well formed and never holds more than its burst ---------- *)
Definition bucket_ok (_ : nat) (mr : modrec) : Prop :=
  match m_tb_tokens mr, m_tb_burst mr with
  | Some t, Some b => (t <= b)%N
  | None, None => True
  | _, _ => False
  end.

Lemma bucket_respects : respects bucket_ok.
Proof.
  constructor; unfold bucket_ok; try (intros; assumption); try (intros; cbn; exact I).
  - intros i mr t H Et Hnz. cbn [m_tb_tokens m_tb_burst mod_with_tb]. rewrite Et in H. destruct (m_tb_burst mr); [lia|exact H].
  - intros i mr t b H Et Eb Hlt. cbn [m_tb_tokens m_tb_burst mod_with_tb]. rewrite Eb. lia.
  - intros i rate burst tmr mr _. cbn. lia.
Qed.

Theorem tokens_never_exceed_burst fuel sc m mr : get_mod (core_world fuel sc) m = Some mr -> bucket_ok m mr.
Proof. apply inv_reachable; [exact bucket_respects|]. intros i. exact I. Qed.

(* ---------- C16 / C17: outside RUNNING and PAUSED the handler stack and the stash are empty ---------- *)
Definition stopped_clean (_ : nat) (mr : modrec) : Prop :=
  m_state mr <> MRunning -> m_state mr <> MPaused -> m_recvs mr = [] /\ m_stash mr = [].

Lemma clean_respects : respects stopped_clean.
Proof.
  constructor; unfold stopped_clean; try (intros until mr; intros H; exact H); try (intros; cbn; split; reflexivity).
  - intros i mr t H _ _. exact H.
  - intros i mr t b H _ _ _. exact H.
  - intros i mr _ _ Hr _. exfalso; apply Hr; reflexivity.
  - intros i mr _ _ _ Hp. exfalso; apply Hp; reflexivity.
  - intros i l mr _ Hs Hr _. cbn in Hr. contradiction.
  - intros i l mr _ Hs Hr _. cbn in Hr. contradiction.
Qed.

Theorem stack_and_stash_empty_unless_active fuel sc m mr :
  get_mod (core_world fuel sc) m = Some mr -> m_state mr <> MRunning -> m_state mr <> MPaused -> m_recvs mr = [] /\ m_stash mr = [].
Proof. apply (inv_reachable stopped_clean clean_respects). intros i. unfold stopped_clean. cbn. intros; split; reflexivity. Qed.

(* ---------- C01 / C15: from any world on, a registered module keeps its identity and flags, never returns to IDLE,
   and ZOMBIE is final ---------- *)
Definition reachb (s s' : mstate) : bool :=
  match s, s' with
  | _, MZombie => true
  | MZombie, _ => false
  | MIdle, _ => true
  | _, MIdle => false
  | _, _ => true
  end.

Definition same_identity (a b : modrec) : Prop :=
  m_obj a = m_obj b /\ m_name a = m_name b /\ m_replace a = m_replace b /\ m_persist a = m_persist b /\
  m_denyctx a = m_denyctx b /\ m_denypub a = m_denypub b /\ m_denysub a = m_denysub b /\ m_hooks a = m_hooks b.

Definition since (w0 : world) (i : nat) (mr : modrec) : Prop :=
  forall mr0, get_mod w0 i = Some mr0 -> m_obj mr0 <> 0 -> same_identity mr mr0 /\ reachb (m_state mr0) (m_state mr) = true.

Lemma same_identity_reset mr mr0 : same_identity mr mr0 -> same_identity (reset_rec mr) mr0.
Proof. unfold same_identity, reset_rec. destruct (m_subs mr), (m_pipe mr); cbn; auto. Qed.
Lemma state_reset mr : m_state (reset_rec mr) = m_state mr.
Proof. unfold reset_rec. destruct (m_subs mr), (m_pipe mr); reflexivity. Qed.

Lemma since_respects w0 : respects (since w0).
Proof.
  constructor; unfold since; try (intros; eauto; fail).
  - intros i mr H Hnz mr0 Hm0 Ho. destruct (H mr0 Hm0 Ho) as [Hi Hr]. split; [apply same_identity_reset; exact Hi|].
    rewrite state_reset. cbn. destruct (m_state mr0), (m_state mr); cbn in *; congruence.
  - intros i mr H mr0 Hm0 Ho. destruct (H mr0 Hm0 Ho) as [Hi Hr]. split; [apply same_identity_reset; exact Hi|].
    rewrite state_reset. cbn. destruct (m_state mr0); reflexivity.
  - intros i mr H Hin mr0 Hm0 Ho. destruct (H mr0 Hm0 Ho) as [Hi Hr]. split; [exact Hi|].
    cbn. destruct (m_state mr0), (m_state mr); cbn in *; congruence.
  - intros i mr H Hrun mr0 Hm0 Ho. destruct (H mr0 Hm0 Ho) as [Hi Hr]. split; [exact Hi|].
    cbn. rewrite Hrun in Hr. destruct (m_state mr0); cbn in *; congruence.
  - intros i o sp ph H Hz mr0 Hm0 Ho. destruct (H mr0 Hm0 Ho) as [[Hobj _] _]. congruence.
Qed.

Lemma since_init w0 : MP (since w0) w0.
Proof.
  intros i mr Hi mr0 Hm0 _. unfold get_mod in Hm0. rewrite Hi in Hm0. injection Hm0 as <-.
  split; [repeat split|]. destruct (m_state mr); reflexivity.
Qed.

Theorem lifecycle_monotone w0 fuel sc n cur l m mr0 mr :
  get_mod w0 m = Some mr0 -> m_obj mr0 <> 0 ->
  get_mod (run_calls sc (run_cb_f fuel sc) n cur w0 l) m = Some mr ->
  same_identity mr mr0 /\ reachb (m_state mr0) (m_state mr) = true.
Proof.
  intros Hm0 Ho Hm. pose proof (inv_from (since w0) (since_respects w0) w0 (since_init w0) fuel sc n cur l) as H.
  exact (MP_get _ _ _ _ H Hm mr0 Hm0 Ho).
Qed.

Corollary zombie_is_final w0 fuel sc n cur l m mr0 mr :
  get_mod w0 m = Some mr0 -> m_obj mr0 <> 0 -> m_state mr0 = MZombie ->
  get_mod (run_calls sc (run_cb_f fuel sc) n cur w0 l) m = Some mr -> m_state mr = MZombie.
Proof.
  intros Hm0 Ho Hz Hm. destruct (lifecycle_monotone _ _ _ _ _ _ _ _ _ Hm0 Ho Hm) as [_ Hr]. rewrite Hz in Hr.
  destruct (m_state mr); cbn in Hr; congruence.
Qed.

Corollary idle_never_reentered w0 fuel sc n cur l m mr0 mr :
  get_mod w0 m = Some mr0 -> m_obj mr0 <> 0 -> m_state mr0 <> MIdle ->
  get_mod (run_calls sc (run_cb_f fuel sc) n cur w0 l) m = Some mr -> m_state mr <> MIdle.
Proof.
  intros Hm0 Ho Hz Hm. destruct (lifecycle_monotone _ _ _ _ _ _ _ _ _ Hm0 Ho Hm) as [_ Hr]. intros Hi. rewrite Hi in Hr.
  destruct (m_state mr0); cbn in Hr; congruence.
Qed.

Print Assumptions tokens_never_exceed_burst.
Print Assumptions stack_and_stash_empty_unless_active.
Print Assumptions lifecycle_monotone.

(* ---------- the theorems are not vacuous: a concrete run reaches the states they speak about ---------- *)
Definition ex_script : script :=
  mkScript [mkMS 8 3 false false false false false (mkHooks false false false); mkMS 9 5 false false false false false (mkHooks false false false)]
           [[]; [CCtxReg true; CReg 0; CReg 1; CStart 0; CTokenBucket 0 10 5; CBecome 0 7; CBecome 0 8; CPause 0; CStart 1; CBecome 1 4; CStop 1; CDereg 1]]
           [] [] [] 0.

(* module 0 is PAUSED with a bucket of burst 5 that has paid for the timer registration, two becomes and the pause; its handler stack is [8; 7];
   module 1 was started, pushed a handler, was stopped (stack emptied) and deregistered: ZOMBIE *)
Example ex_world :
  option_map (fun mr => (m_state mr, m_tb_tokens mr, m_tb_burst mr, m_recvs mr)) (get_mod (core_world 4 ex_script) 0)
    = Some (MPaused, Some 1%N, Some 5%N, [8; 7]) /\
  option_map (fun mr => (m_state mr, m_recvs mr, Nat.eqb (m_obj mr) 0)) (get_mod (core_world 4 ex_script) 1) = Some (MZombie, [], false).
Proof. vm_compute. split; reflexivity. Qed.
