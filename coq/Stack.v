(* Stack.v -- executable model of Lib/structs/stack.c: a singly linked chain
   from the most recent element, plus the REDUNDANT length that pop/peek/clear
   consult instead of the chain. *)
From LM Require Import Base.

Record stack := mkS {
  s_items : list N;          (* the chain, most recent first *)
  s_len   : nat;             (* s->len *)
  s_dtor  : bool;
  s_freed : bool
}.

Record sitr := mkSI { si_pos : nat; si_removed : bool }.
Record sstate := mkSS { ss_s : stack; ss_itr : option sitr }.

Inductive sop :=
| SPush (v : N) | SPop | SPeek | SRemove | SClear | SLen | SFree
| SIterate (k : nat) (rc : Z)
| SItrNew | SItrNext | SItrGet | SItrSet (v : N) | SItrRm.

Definition s_init (dtor : bool) : sstate := mkSS (mkS [] 0 dtor false) None.
Definition s_upd (s : stack) items len := mkS items len (s_dtor s) (s_freed s).

Definition s_pop (s : stack) : stack * N :=
  if Nat.eqb (s_len s) 0 then (s, 0%N) else
  match s_items s with
  | [] => (s, 0%N)
  | x :: r => (s_upd s r (s_len s - 1), x)
  end.

Fixpoint s_clear_loop (fuel : nat) (s : stack) (acc : list ev) : stack * list ev :=
  match fuel with
  | O => (s, acc)
  | S f =>
      if Nat.eqb (s_len s) 0 then (s, acc) else
      let '(s1, x) := s_pop s in
      s_clear_loop f s1 (acc ++ (if N.eqb x 0 then [] else dtor_evs (s_dtor s) [x]))
  end.

Fixpoint s_iterate (items : list N) (n k : nat) (rc : Z) : list ev :=
  match items with
  | [] => [ERet 0]
  | x :: r =>
      if Nat.eqb (S n) k then
        EVisit x :: (if (rc <? 0)%Z then [ERet rc] else if (0 <? rc)%Z then [ERet 0]
                     else s_iterate r (S n) k rc)
      else EVisit x :: s_iterate r (S n) k rc
  end.

Definition s_step (st : sstate) (o : sop) : sstate * list ev :=
  let s := ss_s st in
  if s_freed s then
    match o with
    | SPop | SPeek | SItrGet | SItrNew => (st, [EPtr 0])
    | _ => (st, [ERet (- cEINVAL)])
    end
  else
  match o with
  | SPush v => if N.eqb v 0 then (mkSS s None, [ERet (- cEINVAL)])
               else (mkSS (s_upd s (v :: s_items s) (S (s_len s))) None, [ERet 0])
  | SPop => let '(s1, x) := s_pop s in (mkSS s1 None, [EPtr x])
  | SPeek => (st, [EPtr (if Nat.eqb (s_len s) 0 then 0%N else hd 0%N (s_items s))])
  | SRemove =>
      let '(s1, x) := s_pop s in
      if N.eqb x 0 then (mkSS s1 None, [ERet (- cEINVAL)])
      else (mkSS s1 None, dtor_evs (s_dtor s) [x] ++ [ERet 0])
  | SClear => let '(s1, e) := s_clear_loop (s_len s) s [] in (mkSS s1 None, e ++ [ERet 0])
  | SLen => (st, [ERet (Z.of_nat (s_len s))])
  | SFree =>
      let '(s1, e) := s_clear_loop (s_len s) s [] in
      (mkSS (mkS (s_items s1) (s_len s1) (s_dtor s1) true) None, e ++ [ERet 0])
  | SIterate k rc =>
      if Nat.eqb (s_len s) 0 then (st, [ERet (- cEINVAL)])
      else (st, s_iterate (s_items s) 0 k rc)
  | SItrNew =>
      if Nat.eqb (s_len s) 0 then (mkSS s None, [EPtr 0])
      else (mkSS s (Some (mkSI 0 false)), [EPtr 1])
  | SItrNext =>
      match ss_itr st with
      | None => (st, [ERet (- cEINVAL)])
      | Some i =>
          let pos := if si_removed i then si_pos i else S (si_pos i) in
          if Nat.ltb pos (length (s_items s))
          then (mkSS s (Some (mkSI pos false)), [ERet 0])
          else (mkSS s None, [ERet 0])
      end
  | SItrGet =>
      match ss_itr st with
      | None => (st, [EPtr 0])
      | Some i => if si_removed i then (st, [EPtr 0])
                  else (st, [EPtr (nth (si_pos i) (s_items s) 0%N)])
      end
  | SItrSet v =>
      match ss_itr st with
      | None => (st, [ERet (- cEINVAL)])
      | Some i => if si_removed i || N.eqb v 0 then (st, [ERet (- cEINVAL)])
                  else (mkSS (s_upd s (set_nth (si_pos i) v (s_items s)) (s_len s)) (Some i), [ERet 0])
      end
  | SItrRm =>
      match ss_itr st with
      | None => (st, [ERet (- cEINVAL)])
      | Some i =>
          if si_removed i then (st, [ERet (- cEINVAL)]) else
          let p := si_pos i in
          match nth_error (s_items s) p with
          | None => (st, [ERet (- cENOENT)])
          | Some x =>
              (mkSS (s_upd s (remove_nth p (s_items s)) (s_len s - 1)) (Some (mkSI p true)),
               dtor_evs (s_dtor s) [x] ++ [ERet 0])
          end
      end
  end.

Definition s_run (dtor : bool) (ops : list sop) : list (list ev) :=
  snd (run s_step (s_init dtor) ops).
