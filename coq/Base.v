(* Base.v -- shared vocabulary of the container / allocator models.
   Values, keys and user pointers are opaque ids (N); 0 plays the role of NULL
   (the drivers never hand 0 to the library as an element). *)
From Coq Require Export List NArith ZArith Bool Lia Arith.
Export ListNotations.
From LM Require Export Consts.

(* One observable of a container operation. *)
Inductive ev :=
| ERet (z : Z)        (* integer return value *)
| EPtr (v : N)        (* returned pointer (0 = NULL) *)
| EDtor (v : N)       (* element destructor ran on v *)
| EVisit (v : N)      (* iteration callback saw v *)
| EFree (v : N)       (* allocator free of an object id (key copies, blocks) *)
| EAlloc (v : N).     (* allocator allocation of an object id *)

Definition ev_eqb (a b : ev) : bool :=
  match a, b with
  | ERet x, ERet y => Z.eqb x y
  | EPtr x, EPtr y | EDtor x, EDtor y | EVisit x, EVisit y
  | EFree x, EFree y | EAlloc x, EAlloc y => N.eqb x y
  | _, _ => false
  end.

Definition dtor_evs (on : bool) (vs : list N) : list ev :=
  if on then map EDtor vs else [].

(* remove the element at index i *)
Fixpoint remove_nth {A} (i : nat) (l : list A) {struct l} : list A :=
  match l, i with
  | [], _ => []
  | _ :: t, O => t
  | h :: t, S j => h :: remove_nth j t
  end.

(* replace the element at index i *)
Fixpoint set_nth {A} (i : nat) (x : A) (l : list A) {struct l} : list A :=
  match l, i with
  | [], _ => []
  | _ :: t, O => x :: t
  | h :: t, S j => h :: set_nth j x t
  end.

(* insert x so that it becomes the element at index i *)
Fixpoint insert_nth {A} (i : nat) (x : A) (l : list A) : list A :=
  match i, l with
  | O, _ => x :: l
  | S j, [] => [x]
  | S j, h :: t => h :: insert_nth j x t
  end.

Definition last_index {A} (l : list A) : option nat :=
  match l with [] => None | _ => Some (length l - 1) end.

(* run a list of operations, concatenating the per-operation observables;
   every operation's observables are kept as one group so that the drivers can
   print one line per operation *)
Section Run.
  Context {S O : Type} (step : S -> O -> S * list ev).
  Fixpoint run (s : S) (ops : list O) : S * list (list ev) :=
    match ops with
    | [] => (s, [])
    | o :: r => let '(s1, e) := step s o in
                let '(s2, es) := run s1 r in (s2, e :: es)
    end.
  Definition final (s : S) (ops : list O) : S := fst (run s ops).
  Lemma final_cons s o r : final s (o :: r) = final (fst (step s o)) r.
  Proof. unfold final; cbn [run]. destruct (step s o) as [s1 e]; cbn [fst].
         destruct (run s1 r); reflexivity. Qed.
  Lemma run_app s o1 o2 :
    run s (o1 ++ o2) =
    let '(s1, e1) := run s o1 in let '(s2, e2) := run s1 o2 in (s2, e1 ++ e2).
  Proof. revert s; induction o1 as [|o r IH]; intros s; cbn [app run].
         - destruct (run s o2); reflexivity.
         - destruct (step s o) as [s1 e]. rewrite IH. destruct (run s1 r) as [s2 es].
           destruct (run s2 o2); reflexivity. Qed.
  Lemma final_inv (P : S -> Prop) :
    (forall s o, P s -> P (fst (step s o))) ->
    forall ops s, P s -> P (final s ops).
  Proof. intros H ops; induction ops as [|o r IH]; intros s Hs; [exact Hs|].
         rewrite final_cons. apply IH, H, Hs. Qed.
End Run.
