(* Extract.v -- extraction of the executable models (ExtrOcamlBasic only; no
   Extract Constant / Extract Inductive of our own: nat, N, Z, positive stay
   the extracted inductive datatypes). *)
From LM Require Import Base Queue Stack ListM Bst MapM MemM Thpool CoreTypes CoreModel CoreExec.
Require Extraction.
Require Import ExtrOcamlBasic.
Extraction "model.ml" q_run s_run l_run b_run m_run k_run core_run thpool_run.
