(* Queue.v -- executable model of Lib/structs/queue.c.
   The C object is a singly linked chain head -> ... -> tail, a REDUNDANT tail
   pointer and a REDUNDANT length.  The model keeps both redundancies
   explicitly (q_tail = index of the node the tail pointer designates, q_len)
   and every operation consults exactly the field the C code consults
   (dequeue/peek/clear guard on q_len, enqueue links through q_tail), so that
   "the redundant fields never mislead" is a theorem and not an assumption. *)
From LM Require Import Base.

Record queue := mkQ {
  q_items : list N;          (* the chain, oldest (head) first *)
  q_tail  : option nat;      (* index of the node q->tail points to *)
  q_len   : nat;             (* q->len *)
  q_dtor  : bool;            (* a destructor was given to m_queue_new *)
  q_freed : bool             (* m_queue_free ran: the handle is NULL *)
}.

(* iterator: qi_pos is the index of the link cell `elem` points to
   (0 = &q->head, k = &node_(k-1)->prev), so *elem is node qi_pos *)
Record qitr := mkQI { qi_pos : nat; qi_removed : bool }.

Record qstate := mkQS { qs_q : queue; qs_itr : option qitr }.

Inductive qop :=
| QEnq (v : N) | QDeq | QPeek | QRemove | QClear | QLen | QFree
| QIterate (k : nat) (rc : Z)     (* callback returns rc at its k-th call, 0 before *)
| QItrNew | QItrNext | QItrGet | QItrSet (v : N) | QItrRm.

Definition q_init (dtor : bool) : qstate :=
  mkQS (mkQ [] None 0 dtor false) None.

Definition q_upd (q : queue) items tail len := mkQ items tail len (q_dtor q) (q_freed q).

(* m_queue_enqueue *)
Definition q_enqueue (q : queue) (v : N) : queue :=
  match q_tail q with
  | Some t =>   (* tail->prev = elem: whatever followed node t is unlinked *)
      q_upd q (firstn (S t) (q_items q) ++ [v]) (Some (S t)) (S (q_len q))
  | None =>     (* tail NULL: elem becomes tail; it becomes head only if head is NULL *)
      match q_items q with
      | [] => q_upd q [v] (Some 0) (S (q_len q))
      | _  => q_upd q (q_items q) None (S (q_len q))      (* element unreachable *)
      end
  end.

(* m_queue_dequeue: guarded by len, not by head *)
Definition q_dequeue (q : queue) : queue * N :=
  if Nat.eqb (q_len q) 0 then (q, 0%N) else
  match q_items q with
  | [] => (q, 0%N)            (* C would dereference NULL; unreachable under the invariant *)
  | x :: r =>
      let tail' := match q_tail q with
                   | Some 0 => None            (* tail == head *)
                   | Some (S t) => Some t
                   | None => None
                   end in
      (q_upd q r tail' (q_len q - 1), x)
  end.

Fixpoint q_clear_loop (fuel : nat) (q : queue) (acc : list ev) : queue * list ev :=
  match fuel with
  | O => (q, acc)
  | S f =>
      if Nat.eqb (q_len q) 0 then (q, acc) else
      let '(q1, x) := q_dequeue q in
      (* m_queue_remove: dtor only when data != NULL *)
      q_clear_loop f q1 (acc ++ (if N.eqb x 0 then [] else dtor_evs (q_dtor q) [x]))
  end.

(* m_queue_iterate with the scripted callback *)
Fixpoint q_iterate (items : list N) (n k : nat) (rc : Z) : list ev :=
  match items with
  | [] => [ERet 0]
  | x :: r =>
      if Nat.eqb (S n) k then
        EVisit x :: (if (rc <? 0)%Z then [ERet rc] else if (0 <? rc)%Z then [ERet 0]
                     else q_iterate r (S n) k rc)
      else EVisit x :: q_iterate r (S n) k rc
  end.

Definition q_step (s : qstate) (o : qop) : qstate * list ev :=
  let q := qs_q s in
  if q_freed q then
    (* every entry point tolerates a NULL handle *)
    match o with
    | QDeq | QPeek | QItrGet => (s, [EPtr 0])
    | QItrNew => (s, [EPtr 0])
    | QFree => (s, [ERet 0])            (* m_queue_free ignores the result of clear(NULL) *)
    | _ => (s, [ERet (- cEINVAL)])
    end
  else
  match o with
  | QEnq v => if N.eqb v 0 then (mkQS q None, [ERet (- cEINVAL)])
              else (mkQS (q_enqueue q v) None, [ERet 0])
  | QDeq => let '(q1, x) := q_dequeue q in (mkQS q1 None, [EPtr x])
  | QPeek => (s, [EPtr (if Nat.eqb (q_len q) 0 then 0%N else hd 0%N (q_items q))])
  | QRemove =>
      let '(q1, x) := q_dequeue q in
      if N.eqb x 0 then (mkQS q1 None, [ERet (- cEINVAL)])
      else (mkQS q1 None, dtor_evs (q_dtor q) [x] ++ [ERet 0])
  | QClear =>
      if Nat.eqb (q_len q) 0 then (mkQS q None, [ERet (- cEINVAL)])
      else let '(q1, e) := q_clear_loop (q_len q) q [] in (mkQS q1 None, e ++ [ERet 0])
  | QLen => (s, [ERet (Z.of_nat (q_len q))])
  | QFree =>
      let '(q1, e) := q_clear_loop (q_len q) q [] in
      (mkQS (mkQ (q_items q1) (q_tail q1) (q_len q1) (q_dtor q1) true) None, e ++ [ERet 0])
  | QIterate k rc =>
      if Nat.eqb (q_len q) 0 then (s, [ERet (- cEINVAL)])
      else (s, q_iterate (q_items q) 0 k rc)
  | QItrNew =>
      if Nat.eqb (q_len q) 0 then (mkQS q None, [EPtr 0])
      else (mkQS q (Some (mkQI 0 false)), [EPtr 1])
  | QItrNext =>
      match qs_itr s with
      | None => (s, [ERet (- cEINVAL)])
      | Some i =>
          let pos := if qi_removed i then qi_pos i else S (qi_pos i) in
          if Nat.ltb pos (length (q_items q))
          then (mkQS q (Some (mkQI pos false)), [ERet 0])
          else (mkQS q None, [ERet 0])          (* *elem == NULL: iterator freed *)
      end
  | QItrGet =>
      match qs_itr s with
      | None => (s, [EPtr 0])
      | Some i => if qi_removed i then (s, [EPtr 0])
                  else (s, [EPtr (nth (qi_pos i) (q_items q) 0%N)])
      end
  | QItrSet v =>
      match qs_itr s with
      | None => (s, [ERet (- cEINVAL)])
      | Some i => if qi_removed i || N.eqb v 0 then (s, [ERet (- cEINVAL)])
                  else (mkQS (q_upd q (set_nth (qi_pos i) v (q_items q)) (q_tail q) (q_len q))
                             (Some i), [ERet 0])
      end
  | QItrRm =>
      match qs_itr s with
      | None => (s, [ERet (- cEINVAL)])
      | Some i =>
          if qi_removed i then (s, [ERet (- cEINVAL)]) else
          let p := qi_pos i in
          match nth_error (q_items q) p with
          | None => (s, [ERet (- cENOENT)])
          | Some x =>
              (* tail handling of m_queue_itr_remove: the removed node was the
                 tail -> the tail becomes the node owning the link cell (or NULL) *)
              let tail' := match q_tail q with
                           | Some t => if Nat.eqb t p
                                       then (match p with O => None | S p' => Some p' end)
                                       else if Nat.ltb p t then Some (t - 1) else Some t
                           | None => None
                           end in
              (mkQS (q_upd q (remove_nth p (q_items q)) tail' (q_len q - 1))
                    (Some (mkQI p true)),
               dtor_evs (q_dtor q) [x] ++ [ERet 0])
          end
      end
  end.

Definition q_run (dtor : bool) (ops : list qop) : list (list ev) :=
  snd (run q_step (q_init dtor) ops).
