(* StackProofs.v -- invariant of the queue model, refinement to a plain FIFO
   list, exact destructor accounting, and complete-iteration theorem. *)
From LM Require Import Base SeqLemmas Stack.

(* ---------- the abstract specification: a list, most recent first ---------- *)

Record astk := mkAS { a_items : list N; a_itr : option sitr; a_dtor : bool; a_freed : bool }.

Definition as_step (a : astk) (o : sop) : astk * list ev :=
  let l := a_items a in
  let upd l' i := mkAS l' i (a_dtor a) (a_freed a) in
  if a_freed a then
    match o with
    | SPop | SPeek | SItrGet | SItrNew => (a, [EPtr 0])
    | _ => (a, [ERet (- cEINVAL)])
    end
  else
  match o with
  | SPush v => if N.eqb v 0 then (upd l None, [ERet (- cEINVAL)]) else (upd (v :: l) None, [ERet 0])
  | SPop => match l with [] => (upd l None, [EPtr 0]) | x :: r => (upd r None, [EPtr x]) end
  | SPeek => (a, [EPtr (hd 0%N l)])
  | SRemove => match l with
               | [] => (upd l None, [ERet (- cEINVAL)])
               | x :: r => (upd r None, dtor_evs (a_dtor a) [x] ++ [ERet 0])
               end
  | SClear => (upd [] None, dtor_evs (a_dtor a) l ++ [ERet 0])
  | SLen => (a, [ERet (Z.of_nat (length l))])
  | SFree => (mkAS [] None (a_dtor a) true, dtor_evs (a_dtor a) l ++ [ERet 0])
  | SIterate k rc => match l with
                     | [] => (a, [ERet (- cEINVAL)])
                     | _ => (a, s_iterate l 0 k rc)
                     end
  | SItrNew => match l with
               | [] => (upd l None, [EPtr 0])
               | _ => (upd l (Some (mkSI 0 false)), [EPtr 1])
               end
  | SItrNext =>
      match a_itr a with
      | None => (a, [ERet (- cEINVAL)])
      | Some i =>
          let pos := if si_removed i then si_pos i else S (si_pos i) in
          if Nat.ltb pos (length l) then (upd l (Some (mkSI pos false)), [ERet 0])
          else (upd l None, [ERet 0])
      end
  | SItrGet =>
      match a_itr a with
      | None => (a, [EPtr 0])
      | Some i => if si_removed i then (a, [EPtr 0]) else (a, [EPtr (nth (si_pos i) l 0%N)])
      end
  | SItrSet v =>
      match a_itr a with
      | None => (a, [ERet (- cEINVAL)])
      | Some i => if si_removed i || N.eqb v 0 then (a, [ERet (- cEINVAL)])
                  else (upd (set_nth (si_pos i) v l) (Some i), [ERet 0])
      end
  | SItrRm =>
      match a_itr a with
      | None => (a, [ERet (- cEINVAL)])
      | Some i =>
          if si_removed i then (a, [ERet (- cEINVAL)]) else
          match nth_error l (si_pos i) with
          | None => (a, [ERet (- cENOENT)])
          | Some x => (upd (remove_nth (si_pos i) l) (Some (mkSI (si_pos i) true)),
                       dtor_evs (a_dtor a) [x] ++ [ERet 0])
          end
      end
  end.

Definition s_abs (s : sstate) : astk :=
  mkAS (s_items (ss_s s)) (ss_itr s) (s_dtor (ss_s s)) (s_freed (ss_s s)).

(* ---------- the representation invariant ---------- *)

Definition itr_ok (l : list N) (i : option sitr) : Prop :=
  match i with
  | None => True
  | Some i => if si_removed i then si_pos i <= length l else si_pos i < length l
  end.

Record SInv (s : sstate) : Prop := {
  sv_len  : s_len (ss_s s) = length (s_items (ss_s s));
  sv_nz   : Forall (fun x => x <> 0%N) (s_items (ss_s s));
  sv_itr  : itr_ok (s_items (ss_s s)) (ss_itr s);
  sv_free : s_freed (ss_s s) = true -> s_items (ss_s s) = []
}.

(* ---------- clear loop ---------- *)

Lemma s_clear_loop_spec : forall l dt fr acc,
  Forall (fun x => x <> 0%N) l ->
  s_clear_loop (length l) (mkS l (length l) dt fr) acc =
  (mkS [] 0 dt fr, acc ++ dtor_evs dt l).
Proof.
  induction l as [|x r IH]; intros dt fr acc Hnz; cbn [length s_clear_loop].
  - cbn. destruct dt; cbn; rewrite app_nil_r; reflexivity.
  - cbn [s_len Nat.eqb]. unfold s_pop. cbn [s_len s_items Nat.eqb s_upd s_dtor s_freed].
    inversion Hnz as [|? ? Hx Hr]; subst.
    destruct (N.eqb_spec x 0); [contradiction|].
    replace (S (length r) - 1) with (length r) by lia.
    unfold s_upd; cbn [s_dtor s_freed]. rewrite IH by auto.
    f_equal. rewrite <- app_assoc. f_equal. destruct dt; reflexivity.
Qed.

(* ---------- one step: invariant and refinement ---------- *)

Ltac ssimp := unfold s_upd; cbn [fst snd ss_s ss_itr s_items s_len s_dtor s_freed].


Lemma s_step_correct s o :
  SInv s ->
  SInv (fst (s_step s o)) /\
  s_abs (fst (s_step s o)) = fst (as_step (s_abs s) o) /\
  snd (s_step s o) = snd (as_step (s_abs s) o).
Proof.
  intros [Hlen Hnz Hitr Hfree].
  destruct s as [q itr]; destruct q as [l len dt fr]; cbn in *.
  subst len.
  unfold s_step, as_step, s_abs; cbn [ss_s ss_itr s_freed s_items s_dtor s_len a_freed a_items a_itr a_dtor].
  destruct fr.
  { specialize (Hfree eq_refl); subst l.
    destruct o; cbn; (split; [constructor; cbn; auto|split; reflexivity]). }
  destruct o.
  - (* Push *)
    destruct (N.eqb_spec v 0).
    + cbn. split; [constructor; cbn; auto|split; reflexivity].
    + ssimp. split; [constructor; ssimp|split; reflexivity]; cbn; auto. discriminate.
  - (* Pop *)
    unfold s_pop; cbn [s_len s_items s_upd s_dtor s_freed].
    destruct l as [|x r]; cbn [length Nat.eqb fst snd].
    + split; [constructor; cbn; auto|split; reflexivity].
    + ssimp.
      split; [constructor; ssimp|split; reflexivity].
      * lia.
      * inversion Hnz; auto.
      * exact I.
      * discriminate.
  - (* Peek *)
    cbn [fst snd]. split; [constructor; cbn; auto|split; [reflexivity|]].
    destruct l; cbn; reflexivity.
  - (* Remove *)
    unfold s_pop; cbn [s_len s_items s_upd s_dtor s_freed].
    destruct l as [|x r]; cbn [length Nat.eqb].
    + cbn. split; [constructor; cbn; auto|split; reflexivity].
    + inversion Hnz as [|? ? Hx Hr]; subst. destruct (N.eqb_spec x 0); [contradiction|].
      ssimp.
      split; [constructor; ssimp|split; reflexivity].
      * lia.
      * auto.
      * exact I.
      * discriminate.
  - (* Clear *)
    rewrite s_clear_loop_spec by auto.
    cbn [fst snd]. split; [constructor; cbn; auto; discriminate|split; reflexivity].
  - (* Len *)
    cbn. split; [constructor; cbn; auto; discriminate|split; reflexivity].
  - (* Free *)
    rewrite s_clear_loop_spec by auto.
    cbn [fst snd s_items s_len s_dtor]. split; [constructor; cbn; auto|split; reflexivity].
  - (* Iterate *)
    destruct l as [|x r]; cbn [length Nat.eqb fst snd];
      (split; [constructor; cbn; auto; discriminate|split; reflexivity]).
  - (* ItrNew *)
    destruct l as [|x r]; cbn [length Nat.eqb fst snd];
      (split; [constructor; cbn; auto; try discriminate; lia|split; reflexivity]).
  - (* ItrNext *)
    destruct itr as [i|]; cbn [fst snd].
    + destruct (Nat.ltb_spec (if si_removed i then si_pos i else S (si_pos i)) (length l));
        cbn [fst snd]; (split; [constructor; cbn; auto; discriminate|split; reflexivity]).
    + split; [constructor; cbn; auto; discriminate|split; reflexivity].
  - (* ItrGet *)
    destruct itr as [i|]; [destruct (si_removed i) eqn:?|]; cbn [fst snd];
      (split; [constructor; cbn; auto; try discriminate; rewrite ?Heqb; auto|split; reflexivity]).
  - (* ItrSet *)
    destruct itr as [i|]; cbn [fst snd].
    + destruct (si_removed i) eqn:Er; cbn [orb].
      * cbn. split; [constructor; cbn; auto; try discriminate; rewrite Er; auto|split; reflexivity].
      * destruct (N.eqb_spec v 0); cbn [fst snd].
        -- split; [constructor; cbn; auto; try discriminate; rewrite Er; auto|split; reflexivity].
        -- cbn in Hitr. rewrite Er in Hitr.
           split; [constructor; ssimp|split; reflexivity].
           ++ rewrite length_set_nth; reflexivity.
           ++ apply Forall_set_nth; auto.
           ++ cbn. rewrite Er, length_set_nth. exact Hitr.
           ++ discriminate.
    + split; [constructor; cbn; auto; discriminate|split; reflexivity].
  - (* ItrRm *)
    destruct itr as [i|]; cbn [fst snd].
    + destruct (si_removed i) eqn:Er.
      * cbn. split; [constructor; cbn; auto; try discriminate; rewrite Er; auto|split; reflexivity].
      * cbn in Hitr. rewrite Er in Hitr.
        destruct (nth_error l (si_pos i)) as [x|] eqn:En.
        2:{ apply nth_error_None in En. lia. }
        ssimp.
        split; [constructor; ssimp|split; reflexivity].
        -- rewrite length_remove_nth by lia. reflexivity.
        -- apply Forall_remove_nth; auto.
        -- cbn. rewrite length_remove_nth by lia. lia.
        -- discriminate.
    + split; [constructor; cbn; auto; discriminate|split; reflexivity].
Qed.

Lemma s_init_inv dt : SInv (s_init dt).
Proof. constructor; cbn; auto. Qed.

(* every reachable state satisfies the invariant *)
Theorem s_inv_reachable dt ops : SInv (final s_step (s_init dt) ops).
Proof. apply final_inv; [|apply s_init_inv]. intros s o H. apply (s_step_correct s o H). Qed.

(* the model produces, for every operation list, exactly the observables of
   the abstract FIFO list *)
Theorem s_refines_lifo dt ops :
  snd (run s_step (s_init dt) ops) = snd (run as_step (s_abs (s_init dt)) ops).
Proof.
  generalize (s_init_inv dt). generalize (s_init dt) as s.
  induction ops as [|o r IH]; intros s Hs; cbn [run]; [reflexivity|].
  destruct (s_step_correct s o Hs) as (Hi & Ha & He).
  destruct (s_step s o) as [s1 e1]; destruct (as_step (s_abs s) o) as [a1 e1'].
  cbn [fst snd] in *. subst.
  specialize (IH s1 Hi). destruct (run s_step s1 r), (run as_step (s_abs s1) r).
  cbn [snd] in *. subst. reflexivity.
Qed.

(* ---------- LIFO discipline, stated on the specification ---------- *)

Lemma as_push_all a vs :
  a_freed a = false -> Forall (fun x => x <> 0%N) vs ->
  a_items (fst (run as_step a (map SPush vs))) = rev vs ++ a_items a /\
  a_freed (fst (run as_step a (map SPush vs))) = false.
Proof.
  revert a; induction vs as [|v r IH]; intros a Hf Hnz; cbn [map run].
  - cbn. auto.
  - inversion Hnz as [|? ? Hv Hr]; subst.
    assert (Es : as_step a (SPush v) = (mkAS (v :: a_items a) None (a_dtor a) false, [ERet 0])).
    { unfold as_step. rewrite Hf. destruct (N.eqb_spec v 0); [contradiction|reflexivity]. }
    rewrite Es.
    specialize (IH (mkAS (v :: a_items a) None (a_dtor a) false) eq_refl Hr).
    destruct (run as_step _ (map SPush r)) as [a2 es] eqn:E.
    cbn [fst a_items a_dtor a_freed rev] in *.
    rewrite <- app_assoc. exact IH.
Qed.

Lemma as_pop_all a :
  a_freed a = false ->
  snd (run as_step a (repeat SPop (length (a_items a)))) = map (fun x => [EPtr x]) (a_items a).
Proof.
  destruct a as [l i d f]; cbn [a_freed a_items]; intros ->.
  revert i; induction l as [|x r IH]; intros i; cbn [length repeat run map]; [reflexivity|].
  unfold as_step at 1; cbn [a_freed a_items a_dtor].
  specialize (IH None). destruct (run as_step _ _) as [a2 es]; cbn [snd] in *.
  f_equal. exact IH.
Qed.

(* push v1..vn on an empty stack, then pop n times: vn..v1 come back *)
Theorem s_lifo dt vs :
  Forall (fun x => x <> 0%N) vs ->
  skipn (length vs) (s_run dt (map SPush vs ++ repeat SPop (length vs))) =
  map (fun x => [EPtr x]) (rev vs).
Proof.
  intros Hnz. unfold s_run. rewrite s_refines_lifo.
  set (a0 := s_abs (s_init dt)).
  rewrite (run_app as_step).
  assert (Hl : length (snd (run as_step a0 (map SPush vs))) = length vs).
  { generalize a0. induction vs as [|v r IH]; intros a; cbn [map run]; [reflexivity|].
    inversion Hnz; subst. destruct (as_step a (SPush v)) as [a1 e1].
    specialize (IH H2 a1). destruct (run as_step a1 (map SPush r)); cbn [snd length] in *. lia. }
  destruct (as_push_all a0 vs eq_refl Hnz) as (Hi & Hf).
  destruct (run as_step a0 (map SPush vs)) as [a1 e1] eqn:E1. cbn [fst snd] in *.
  pose proof (as_pop_all a1 Hf) as Hp. rewrite Hi in Hp.
  cbn [a0 s_abs s_init ss_s s_items] in Hp. rewrite app_nil_r, rev_length in Hp.
  destruct (run as_step a1 (repeat SPop (length vs))) as [a2 e2]. cbn [snd] in *.
  rewrite <- Hl. rewrite skipn_app, skipn_all, Nat.sub_diag. cbn [app skipn]. exact Hp.
Qed.

(* ---------- complete iteration with arbitrary per-element actions ---------- *)

Definition iact_ops (a : iact) : list sop :=
  match a with IKeep => [] | IRemove => [SItrRm] | ISet v => [SItrSet v] end.

Definition iter_script (acts : list iact) : list sop :=
  flat_map (fun a => SItrGet :: iact_ops a ++ [SItrNext]) acts.

(* spec-level state during an iteration: iterator at position |done| *)
Definition SIt dt (done todo : list N) (removed : bool) : astk :=
  mkAS (done ++ todo) (Some (mkSI (length done) removed)) dt false.
Definition SEnd dt (l : list N) : astk := mkAS l None dt false.
Definition SNext dt (done todo : list N) : astk :=
  match todo with [] => SEnd dt done | _ => SIt dt done todo false end.

Lemma as_get dt done x r : as_step (SIt dt done (x :: r) false) SItrGet = (SIt dt done (x :: r) false, [EPtr x]).
Proof. unfold as_step, SIt; cbn [a_freed a_itr si_removed si_pos a_items].
       rewrite app_nth2, Nat.sub_diag by lia. reflexivity. Qed.

Lemma as_next_keep dt done x r :
  as_step (SIt dt done (x :: r) false) SItrNext = (SNext dt (done ++ [x]) r, [ERet 0]).
Proof. unfold as_step, SIt; cbn [a_freed a_itr si_removed si_pos a_items a_dtor].
       rewrite app_length; cbn [length].
       destruct r as [|y r']; cbn [length]; ltb_case; try lia.
       - reflexivity.
       - unfold SNext, SIt. rewrite app_length; cbn [length]. rewrite <- app_assoc; cbn [app].
         replace (length done + 1) with (S (length done)) by lia. reflexivity. Qed.

Lemma as_next_removed dt done r :
  as_step (SIt dt done r true) SItrNext = (SNext dt done r, [ERet 0]).
Proof. unfold as_step, SIt; cbn [a_freed a_itr si_removed si_pos a_items a_dtor].
       rewrite app_length.
       destruct r as [|y r']; cbn [length]; ltb_case; try lia.
       - unfold SNext, SEnd. rewrite app_nil_r. reflexivity.
       - reflexivity. Qed.

Lemma as_rm dt done x r :
  as_step (SIt dt done (x :: r) false) SItrRm = (SIt dt done r true, dtor_evs dt [x] ++ [ERet 0]).
Proof. unfold as_step, SIt; cbn [a_freed a_itr si_removed si_pos a_items a_dtor].
       rewrite nth_error_app2, Nat.sub_diag by lia. cbn [nth_error].
       rewrite remove_nth_app. reflexivity. Qed.

Lemma as_set dt done x r v : v <> 0%N ->
  as_step (SIt dt done (x :: r) false) (SItrSet v) = (SIt dt done (v :: r) false, [ERet 0]).
Proof. intros Hv. unfold as_step, SIt; cbn [a_freed a_itr si_removed si_pos a_items a_dtor orb].
       destruct (N.eqb_spec v 0); [contradiction|]. rewrite set_nth_app. reflexivity. Qed.

(* one element of the iteration *)
Lemma as_iter_elem dt done x r act : act <> ISet 0%N ->
  run as_step (SIt dt done (x :: r) false) (SItrGet :: iact_ops act ++ [SItrNext]) =
  (SNext dt (done ++ apply_acts [x] [act]) r,
   [EPtr x] :: match act with
               | IKeep => [] | IRemove => [dtor_evs dt [x] ++ [ERet 0]] | ISet _ => [[ERet 0]]
               end ++ [[ERet 0]]).
Proof.
  intros Hact. cbn [run]. rewrite as_get.
  destruct act as [| |v]; cbn [iact_ops app run apply_acts].
  - rewrite as_next_keep. reflexivity.
  - rewrite as_rm, as_next_removed. rewrite app_nil_r. reflexivity.
  - rewrite as_set by congruence. rewrite as_next_keep. reflexivity.
Qed.

Lemma as_iter_loop dt : forall todo done acts,
  length acts = length todo -> Forall (fun a => a <> ISet 0%N) acts ->
  let r := run as_step (SNext dt done todo) (iter_script acts) in
  fst r = SEnd dt (done ++ apply_acts todo acts) /\
  visits (snd r) = todo /\
  dtors (snd r) = (if dt then acts_dtors todo acts else []).
Proof.
  induction todo as [|x r IH]; intros done acts Hlen Hnz.
  - destruct acts; [|cbn in Hlen; lia]. cbn. rewrite app_nil_r. destruct dt; auto.
  - destruct acts as [|act acts]; [cbn in Hlen; lia|].
    cbn [length] in Hlen. inversion Hnz as [|? ? Hact Hnz']; subst.
    cbn zeta. unfold iter_script. cbn [flat_map]. fold (iter_script acts).
    change (SNext dt done (x :: r)) with (SIt dt done (x :: r) false).
    rewrite (run_app as_step _ (SItrGet :: iact_ops act ++ [SItrNext]) (iter_script acts)).
    rewrite as_iter_elem by assumption.
    specialize (IH (done ++ apply_acts [x] [act]) acts ltac:(lia) Hnz'). cbn zeta in IH.
    destruct (run as_step _ (iter_script acts)) as [af es]. cbn [fst snd] in *.
    destruct IH as (I1 & I2 & I3).
    split; [|split].
    + rewrite I1. f_equal. rewrite <- app_assoc. f_equal. destruct act; reflexivity.
    + destruct act; cbn [app visits]; destruct dt; cbn [dtor_evs map app visits]; rewrite I2; reflexivity.
    + destruct act; cbn [app dtors flat_map acts_dtors]; destruct dt;
        cbn [dtor_evs map app dtors flat_map acts_dtors]; rewrite ?I3; reflexivity.
Qed.

(* refinement from any state satisfying the invariant *)
Lemma s_refines_from : forall ops s, SInv s ->
  SInv (fst (run s_step s ops)) /\
  s_abs (fst (run s_step s ops)) = fst (run as_step (s_abs s) ops) /\
  snd (run s_step s ops) = snd (run as_step (s_abs s) ops).
Proof.
  induction ops as [|o r IH]; intros s Hs; cbn [run]; [auto|].
  destruct (s_step_correct s o Hs) as (Hi & Ha & He).
  destruct (s_step s o) as [s1 e1]; destruct (as_step (s_abs s) o) as [a1 e1'].
  cbn [fst snd] in *. subst.
  specialize (IH s1 Hi). destruct (run s_step s1 r), (run as_step (s_abs s1) r).
  cbn [fst snd] in *. destruct IH as (? & ? & ?); subst. auto.
Qed.

(* Iterating a non-empty queue to the end with arbitrary per-element actions
   (keep / remove / replace): every element is visited exactly once, in queue
   order; what remains is exactly the kept/replaced elements in order; the
   destructor ran exactly for the removed ones; and the queue keeps working
   (the final state satisfies the invariant, so every later operation behaves
   as the FIFO list does). *)
Theorem s_iterate_all dt (pre : list sop) (acts : list iact) :
  let s0 := final s_step (s_init dt) pre in
  let l := s_items (ss_s s0) in
  let d := s_dtor (ss_s s0) in
  s_freed (ss_s s0) = false -> ss_itr s0 = None ->
  length acts = length l -> Forall (fun a => a <> ISet 0%N) acts ->
  let r := run s_step s0 (SItrNew :: iter_script acts) in
  SInv (fst r) /\
  s_items (ss_s (fst r)) = apply_acts l acts /\
  ss_itr (fst r) = None /\
  visits (tl (snd r)) = l /\
  dtors (tl (snd r)) = (if d then acts_dtors l acts else []).
Proof.
  cbn zeta. intros Hfr Hit Hlen Hnz.
  pose proof (s_inv_reachable dt pre) as Hinv.
  set (s0 := final s_step (s_init dt) pre) in *.
  destruct (s_refines_from (SItrNew :: iter_script acts) s0 Hinv) as (Hi & Ha & He).
  set (R := run s_step s0 (SItrNew :: iter_script acts)) in *.
  split; [exact Hi|].
  assert (Eabs : s_abs s0 = SEnd (s_dtor (ss_s s0)) (s_items (ss_s s0))).
  { unfold s_abs, SEnd. rewrite Hfr, Hit. reflexivity. }
  rewrite Eabs in Ha, He. clear Eabs.
  set (l := s_items (ss_s s0)) in *. set (d := s_dtor (ss_s s0)) in *.
  cbn [run] in Ha, He.
  assert (Enew : as_step (SEnd d l) SItrNew = (SNext d [] l, [EPtr (match l with [] => 0 | _ => 1 end)%N])).
  { unfold as_step, SEnd, SNext, SIt; cbn [a_freed a_items a_dtor]. destruct l; reflexivity. }
  rewrite Enew in Ha, He.
  pose proof (as_iter_loop d l [] acts Hlen Hnz) as Hloop. cbn zeta in Hloop.
  destruct (run as_step (SNext d [] l) (iter_script acts)) as [af es]. cbn [fst snd app] in *.
  destruct Hloop as (L1 & L2 & L3).
  rewrite He. cbn [tl]. subst af.
  assert (Hq : s_items (ss_s (fst R)) = apply_acts l acts /\ ss_itr (fst R) = None).
  { unfold s_abs, SEnd in L1. inversion L1. auto. }
  destruct Hq. auto.
Qed.
