(* Props_C11.v -- placeholder, theorems are added below as they are proved *)
From LM Require Import Base.
