(* Props_C11.v -- property C11: ordered set (BST): set semantics, sorted
   iteration, right destructor target.  ONLY statements closed by `exact`.
   Every theorem is for an arbitrary comparator `cmp` that is consistent with a
   total order on keys (contract: cmp_lt / cmp_eq); C11_default_comparator_ok
   shows that the library's own comparator meets that contract for ALL pointer
   values (no truncation), C11_driver_comparators_ok the same for the drivers'. *)
From LM Require Import Base Bst BstProofs.
From Coq Require Import Sorting.Sorted Permutation.

Section Contract.
  Variable cmp : N -> N -> Z.
  Variable key : N -> Z.
  Hypothesis cmp_lt : forall a b, (cmp a b < 0)%Z <-> (key a < key b)%Z.
  Hypothesis cmp_eq : forall a b, cmp a b = 0%Z <-> key a = key b.

  Theorem C11_invariant : forall dt ops, BInv key (final (b_step cmp) (b_init dt) ops).
  Proof. exact (b_inv_reachable cmp key cmp_lt cmp_eq). Qed.

  Theorem C11_set_semantics : forall s v,
    BInv key s -> b_freed (bs_b s) = false -> v <> 0%N ->
    let l := elems s in
    (has_key key l v -> snd (b_step cmp s (BInsert v)) = [ERet (- cEEXIST)] /\ elems (fst (b_step cmp s (BInsert v))) = l) /\
    (~ has_key key l v -> snd (b_step cmp s (BInsert v)) = [ERet 0] /\ elems (fst (b_step cmp s (BInsert v))) = l_insert key v l) /\
    (forall x, In x l -> key x = key v -> snd (b_step cmp s (BFind v)) = [EPtr x]) /\
    (~ has_key key l v -> snd (b_step cmp s (BFind v)) = [EPtr 0]) /\
    (forall x, In x l -> key x = key v ->
       snd (b_step cmp s (BRemove v)) = dtor_evs (b_dtor (bs_b s)) [x] ++ [ERet 0] /\
       elems (fst (b_step cmp s (BRemove v))) = filter (fun y => negb (N.eqb y x)) l) /\
    (~ has_key key l v -> l <> [] -> snd (b_step cmp s (BRemove v)) = [ERet (- cENOENT)] /\ elems (fst (b_step cmp s (BRemove v))) = l) /\
    snd (b_step cmp s BLen) = [ERet (Z.of_nat (length l))].
  Proof. exact (b_set_semantics cmp key cmp_lt cmp_eq). Qed.

  Theorem C11_traversals : forall s, BInv key s -> b_freed (bs_b s) = false ->
    snd (b_step cmp s (BTraverse 2 0 0)) = map EVisit (elems s) ++ [ERet 0] /\
    StronglySorted (klt key) (elems s) /\ NoDup (elems s) /\
    (exists t, elems s = inorder t /\
       snd (b_step cmp s (BTraverse 0 0 0)) = map EVisit (preorder t) ++ [ERet 0] /\
       snd (b_step cmp s (BTraverse 1 0 0)) = map EVisit (postorder t) ++ [ERet 0] /\
       Permutation (preorder t) (inorder t) /\ Permutation (postorder t) (inorder t)).
  Proof. exact (b_traversals cmp key). Qed.

  Theorem C11_iterator_complete_with_removal : forall dt pre acts,
    let s0 := final (b_step cmp) (b_init dt) pre in
    b_freed (bs_b s0) = false -> elems s0 <> [] -> length acts = length (elems s0) ->
    let r := run (b_step cmp) s0 (BItrNew :: bi_script acts) in
    BInv key (fst r) /\
    elems (fst r) = kept_of (elems s0) acts /\
    bs_itr (fst r) = None /\
    bvisits (tl (snd r)) = elems s0 /\
    StronglySorted (klt key) (elems s0) /\
    bdtors (tl (snd r)) = (if b_dtor (bs_b s0) then removed_of (elems s0) acts else []).
  Proof. exact (b_iterate_all cmp key cmp_lt cmp_eq). Qed.
End Contract.

Print Assumptions C11_invariant.
Print Assumptions C11_set_semantics.
Print Assumptions C11_traversals.
Print Assumptions C11_iterator_complete_with_removal.

Theorem C11_default_comparator_ok : forall a b,
  ((ptrcmp_model a b < 0)%Z <-> (Z.of_N a < Z.of_N b)%Z) /\ (ptrcmp_model a b = 0%Z <-> Z.of_N a = Z.of_N b).
Proof. exact ptrcmp_ok. Qed.
Print Assumptions C11_default_comparator_ok.

Theorem C11_driver_comparators_ok : forall k, exists key, forall a b,
  ((cmp_of k a b < 0)%Z <-> (key a < key b)%Z) /\ (cmp_of k a b = 0%Z <-> key a = key b).
Proof. exact cmp_of_ok. Qed.
Print Assumptions C11_driver_comparators_ok.

Example C11_nonvacuous :
  b_run 0 true [BInsert 50; BInsert 30; BInsert 70; BInsert 60; BInsert 80; BRemove 50; BTraverse 2 0 0;
                BItrNew; BItrGet; BItrRm; BItrNext; BItrGet]%N
  = [[ERet 0]; [ERet 0]; [ERet 0]; [ERet 0]; [ERet 0]; [EDtor 50; ERet 0];
     [EVisit 30; EVisit 60; EVisit 70; EVisit 80; ERet 0]; [EPtr 1]; [EPtr 30]; [EDtor 30; ERet 0]; [ERet 0]; [EPtr 60]]%N.
Proof. vm_compute. reflexivity. Qed.
