(* Props_C19.v -- placeholder, theorems are added below as they are proved *)
From LM Require Import Base CoreTypes CoreModel CoreExec.
