(* ThpoolQuiesce.v -- C06, clause "after free returns no pool thread touches the pool again", for EVERY schedule.
   Safety invariant over the small-step model of Thpool.v: lock ownership, alive counter = workers that have not yet
   announced their exit, submitters are finished once free started, joined workers are finished, and when the freeing
   thread passes its wait (join of every worker / alive == 0 observed under the lock) every worker is finished.
   Hence the ghost counter p_touch_after_free stays 0. *)
From LM Require Import Base Thpool ThpoolProofs.
From Coq Require Import Lia Arith.

(* ---------- thread lists ---------- *)
Definition all_th (P : tid -> thread -> Prop) (ths : list thread) : Prop :=
  forall t th, nth_error ths t = Some th -> P t th.

Lemma set_nth_th_length t th ths : length (set_nth_th t th ths) = length ths.
Proof. revert t; induction ths as [|y r IH]; intros [|t]; cbn; auto. Qed.
Lemma nth_error_set_cases ths t s th' th : nth_error (set_nth_th s th' ths) t = Some th ->
  (t = s /\ th = th' /\ s < length ths) \/ (t <> s /\ nth_error ths t = Some th).
Proof.
  intros H. destruct (Nat.eq_dec t s) as [->|ne].
  - destruct (nth_error ths s) as [x|] eqn:E.
    + rewrite (nth_error_set_same ths s x th' E) in H. inversion H. left. repeat split; auto. apply nth_error_Some. congruence.
    + right. exfalso. assert (nth_error (set_nth_th s th' ths) s = None).
      { apply nth_error_None. rewrite set_nth_th_length. apply nth_error_None. exact E. } congruence.
  - right. split; [exact ne|]. rewrite nth_error_set_other in H by auto. exact H.
Qed.
Lemma all_set (P : tid -> thread -> Prop) ths t th' : all_th P ths -> P t th' -> all_th P (set_nth_th t th' ths).
Proof. intros H Ht s th Hs. destruct (nth_error_set_cases _ _ _ _ _ Hs) as [(-> & -> & _)|(_ & Hn)]; auto. Qed.
Lemma all_app (P : tid -> thread -> Prop) ths th' : all_th P ths -> P (length ths) th' -> all_th P (ths ++ [th']).
Proof.
  intros H Ht s th Hs. destruct (Nat.lt_ge_cases s (length ths)) as [Hl|Hg].
  - rewrite nth_error_app1 in Hs by exact Hl. auto.
  - rewrite nth_error_app2 in Hs by exact Hg. destruct (s - length ths) as [|d] eqn:E; cbn in Hs.
    + inversion Hs; subst. replace s with (length ths) by lia. exact Ht.
    + destruct d; discriminate.
Qed.
Lemma all_weaken (P Q : tid -> thread -> Prop) ths : (forall t th, P t th -> Q t th) -> all_th P ths -> all_th Q ths.
Proof. intros H HP t th Ht. auto. Qed.

Lemma all_wake (P : tid -> thread -> Prop) ths s : (forall t th, P t th -> P t (woken th)) -> all_th P ths -> all_th P (wake ths s).
Proof.
  intros Hw H. unfold wake. destruct (nth_error ths s) as [x|] eqn:E; [|exact H]. apply all_set; [exact H|]. apply Hw. apply H. exact E.
Qed.
Lemma all_wake_all (P : tid -> thread -> Prop) l : forall ths, (forall t th, P t th -> P t (woken th)) -> all_th P ths -> all_th P (fold_left wake l ths).
Proof. induction l as [|s r IH]; intros ths Hw H; cbn [fold_left]; [exact H|]. apply IH; [exact Hw|]. apply all_wake; assumption. Qed.

Definition count_th (f : thread -> bool) (ths : list thread) : nat := length (filter f ths).
Lemma count_set f ths : forall t th th', nth_error ths t = Some th ->
  count_th f (set_nth_th t th' ths) + (if f th then 1 else 0) = count_th f ths + (if f th' then 1 else 0).
Proof.
  unfold count_th. induction ths as [|y r IH]; intros [|t] th th' H; cbn in H; try discriminate.
  - inversion H; subst. cbn. destruct (f th), (f th'); cbn; lia.
  - cbn [set_nth_th filter]. specialize (IH t th th' H). destruct (f y); cbn [length]; lia.
Qed.
Lemma count_app f a b : count_th f (a ++ b) = count_th f a + count_th f b.
Proof. unfold count_th. rewrite filter_app, app_length. reflexivity. Qed.
Lemma count_wake f ths s : (forall th, f (woken th) = f th) -> count_th f (wake ths s) = count_th f ths.
Proof.
  intros Hw. unfold wake. destruct (nth_error ths s) as [x|] eqn:E; [|reflexivity].
  pose proof (count_set f ths s x (woken x) E) as H. rewrite Hw in H. lia.
Qed.
Lemma count_wake_all f l : forall ths, (forall th, f (woken th) = f th) -> count_th f (fold_left wake l ths) = count_th f ths.
Proof. induction l as [|s r IH]; intros ths Hw; cbn [fold_left]; [reflexivity|]. rewrite IH by exact Hw. apply count_wake. exact Hw. Qed.
Lemma count_zero_all f ths : count_th f ths = 0 -> all_th (fun _ th => f th = false) ths.
Proof.
  unfold count_th. induction ths as [|y r IH]; intros H [|t] th Ht; cbn in Ht; try discriminate.
  - inversion Ht; subst. cbn in H. destruct (f th); [discriminate|reflexivity].
  - cbn in H. destruct (f y); [discriminate|]. eapply IH; eauto.
Qed.

(* ---------- classification of program counters ---------- *)
Definition holds (th : thread) : bool :=
  match th with
  | TWorker WWait | TWorker (WUnlockRun _) | TWorker WBcast | TWorker WUnlockExit => true
  | TSub (SCreate _ _) | TSub (SSignal _) | TSub (SUnlock _) => true
  | TFree FBcast | TFree FUnlock | TFree FWait | TFree FUnlock2 => true
  | _ => false
  end.
Definition alive_w (th : thread) : bool :=
  match th with TWorker WBcast | TWorker WUnlockExit | TWorker WDone => false | TWorker _ => true | _ => false end.
Definition is_worker (th : thread) : bool := match th with TWorker _ => true | _ => false end.
Definition wfin (th : thread) : Prop := forall pc, th = TWorker pc -> pc = WDone.
Definition free_started (th : thread) : bool := match th with TFree FStart => false | TFree _ => true | _ => false end.
Definition past_wait (th : thread) : bool := match th with TFree FUnlock2 | TFree FFree | TFree FDone => true | _ => false end.

Lemma holds_woken th : holds (woken th) = holds th. Proof. destruct th as [[]|[]|[]]; reflexivity. Qed.
Lemma alive_woken th : alive_w (woken th) = alive_w th. Proof. destruct th as [[]|[]|[]]; reflexivity. Qed.
Lemma worker_woken th : is_worker (woken th) = is_worker th. Proof. destruct th as [[]|[]|[]]; reflexivity. Qed.
Lemma subdone_woken th : sub_done (woken th) = sub_done th. Proof. destruct th as [[]|[]|[]]; reflexivity. Qed.
Lemma started_woken th : free_started (woken th) = free_started th. Proof. destruct th as [[]|[]|[]]; reflexivity. Qed.
Lemma pastwait_woken th : past_wait (woken th) = past_wait th. Proof. destruct th as [[]|[]|[]]; reflexivity. Qed.
Lemma wfin_woken th : wfin th -> wfin (woken th).
Proof. intros H pc E. destruct th as [[]|[]|[]]; cbn in E; try discriminate; try (specialize (H _ eq_refl); discriminate); inversion E; auto. Qed.
Lemma wfin_woken_inv th : wfin (woken th) -> wfin th.
Proof. intros H pc E. subst th. destruct pc; cbn in H; try (specialize (H _ eq_refl); discriminate); reflexivity. Qed.

(* ---------- the invariant ---------- *)
Record QInv (p : pool) : Prop := {
  q_lock : all_th (fun t th => holds th = true -> p_lock p = Some t) (p_threads p);
  q_alive : p_alive p = count_th alive_w (p_threads p);
  q_subs : (exists t th, nth_error (p_threads p) t = Some th /\ free_started th = true) ->
           all_th (fun _ th => sub_done th = true) (p_threads p);
  q_workers : all_th (fun t th => is_worker th = true -> In t (p_workers p)) (p_threads p);
  q_wrev : forall w, In w (p_workers p) -> exists pc, nth_error (p_threads p) w = Some (TWorker pc);
  q_join : all_th (fun _ th => forall ws, th = TFree (FJoin ws) ->
                     forall w, In w (p_workers p) -> ~ In w ws -> worker_done p w = true) (p_threads p);
  q_past : (exists t th, nth_error (p_threads p) t = Some th /\ past_wait th = true) -> all_th (fun _ th => wfin th) (p_threads p);
  q_destroyed : p_destroyed p = true -> exists t, nth_error (p_threads p) t = Some (TFree FDone);
  q_touch : p_touch_after_free p = 0
}.

Lemma touch_id p : p_destroyed p = false -> touch p = p.
Proof. intros H. unfold touch. rewrite H. reflexivity. Qed.

(* a thread that still has something to do proves that the pool was not destroyed *)
Definition active (th : thread) : bool :=
  match th with
  | TWorker WDone => false | TWorker _ => true
  | TSub SFin | TSub (SLock []) => false | TSub _ => true
  | TFree _ => false
  end.
Lemma active_not_destroyed p t th : QInv p -> nth_error (p_threads p) t = Some th -> active th = true -> p_destroyed p = false.
Proof.
  intros Q Ht Ha. destruct (p_destroyed p) eqn:D; [|reflexivity]. exfalso.
  destruct (q_destroyed p Q D) as (f & Hf).
  destruct th as [pc|pc|pc]; cbn in Ha; try discriminate.
  - assert (Hp : wfin (TWorker pc)) by (apply (q_past p Q (ex_intro _ f (ex_intro _ _ (conj Hf eq_refl))) t _ Ht)).
    rewrite (Hp pc eq_refl) in Ha. discriminate.
  - pose proof (q_subs p Q (ex_intro _ f (ex_intro _ _ (conj Hf eq_refl))) t _ Ht) as Hs. cbn in Hs.
    destruct pc as [[|k r]| | | |]; cbn in Ha, Hs; discriminate.
Qed.

(* ---------- threads possibly woken ---------- *)
Definition Wk (ths ths1 : list thread) : Prop :=
  length ths1 = length ths /\
  forall s x, nth_error ths s = Some x -> nth_error ths1 s = Some x \/ nth_error ths1 s = Some (woken x).
Lemma Wk_refl ths : Wk ths ths. Proof. split; auto. Qed.
Lemma Wk_trans a b c : Wk a b -> Wk b c -> Wk a c.
Proof.
  intros (L1 & H1) (L2 & H2). split; [congruence|]. intros s x Hx. destruct (H1 s x Hx) as [E|E]; destruct (H2 s _ E) as [E2|E2]; auto.
  right. rewrite E2. f_equal. destruct x as [[]|[]|[]]; reflexivity.
Qed.
Lemma Wk_wake ths s : Wk ths (wake ths s).
Proof.
  unfold wake. destruct (nth_error ths s) as [y|] eqn:E; [|apply Wk_refl]. split; [apply set_nth_th_length|].
  intros r x Hx. destruct (Nat.eq_dec r s) as [->|ne].
  - right. rewrite (nth_error_set_same ths s y _ E). congruence.
  - left. rewrite nth_error_set_other by auto. exact Hx.
Qed.
Lemma Wk_wake_all l : forall ths, Wk ths (fold_left wake l ths).
Proof. induction l as [|s r IH]; intros ths; cbn [fold_left]; [apply Wk_refl|]. eapply Wk_trans; [apply Wk_wake|apply IH]. Qed.
Lemma Wk_inv ths ths1 s y : Wk ths ths1 -> nth_error ths1 s = Some y -> exists x, nth_error ths s = Some x /\ (y = x \/ y = woken x).
Proof.
  intros (L & H) Hy. destruct (nth_error ths s) as [x|] eqn:E.
  - exists x. split; [reflexivity|]. destruct (H s x E) as [E1|E1]; rewrite E1 in Hy; inversion Hy; auto.
  - exfalso. apply nth_error_None in E. assert (nth_error ths1 s = None) by (apply nth_error_None; lia). congruence.
Qed.
Lemma Wk_count f ths ths1 : (forall th, f (woken th) = f th) -> Wk ths ths1 -> count_th f ths1 = count_th f ths.
Proof.
  intros Hf. revert ths1. unfold count_th. induction ths as [|x r IH]; intros ths1 (L & H).
  - destruct ths1; [reflexivity|discriminate].
  - destruct ths1 as [|y r1]; [discriminate|]. cbn [filter].
    assert (Hr : Wk r r1) by (split; [cbn in L; lia|intros s z Hz; exact (H (S s) z Hz)]).
    specialize (IH r1 Hr). destruct (H 0 x eq_refl) as [E|E]; cbn in E; inversion E; subst; rewrite ?Hf; destruct (f x); cbn [length]; lia.
Qed.

(* ---------- master lemma: one thread changes its pending operation (other threads possibly woken) ---------- *)
Lemma worker_done_mono p ths' : (forall w, nth_error (p_threads p) w = Some (TWorker WDone) -> nth_error ths' w = Some (TWorker WDone)) ->
  forall q w, p_threads q = ths' -> worker_done p w = true -> worker_done q w = true.
Proof.
  intros H q w Hq Hd. unfold worker_done in *. rewrite Hq. destruct (nth_error (p_threads p) w) as [[[]|?|?]|] eqn:E; try discriminate.
  rewrite (H w E). reflexivity.
Qed.

Lemma qinv_set p t th th' ths1 lock' sl' tasks' sd' alive' run' destroyed' acc' st' disc' :
  QInv p -> nth_error (p_threads p) t = Some th -> Wk (p_threads p) ths1 ->
  (* lock *)
  (holds th' = true -> lock' = Some t) ->
  (forall s x, s <> t -> nth_error (p_threads p) s = Some x -> holds x = true -> lock' = Some s) ->
  (* alive *)
  alive' + (if alive_w th then 1 else 0) = p_alive p + (if alive_w th' then 1 else 0) ->
  (* submitters *)
  (sub_done th = true -> sub_done th' = true) ->
  (free_started th' = true -> free_started th = true \/ all_th (fun _ x => sub_done x = true) (p_threads p)) ->
  (* workers *)
  is_worker th' = is_worker th ->
  (th = TWorker WDone -> th' = TWorker WDone) ->
  (* join *)
  (forall ws, th' = TFree (FJoin ws) -> forall w, In w (p_workers p) -> ~ In w ws -> w <> t -> worker_done p w = true) ->
  (* past the wait *)
  (past_wait th' = true -> past_wait th = true \/ (wfin th' /\ forall s x, s <> t -> nth_error (p_threads p) s = Some x -> wfin x)) ->
  (* destroyed *)
  (destroyed' = true -> p_destroyed p = true \/ th' = TFree FDone) ->
  (th = TFree FDone -> th' = TFree FDone) ->
  QInv (upd p lock' sl' tasks' sd' (p_workers p) alive' run' destroyed' (set_nth_th t th' ths1) acc' st' disc' (p_touch_after_free p)).
Proof.
  intros Q Ht HW C1 C2 C3 C4 C5 C6 C6b C7 C8 C9 C10. pose proof HW as (HWl & HWn).
  assert (Hother : forall s y, s <> t -> nth_error (set_nth_th t th' ths1) s = Some y ->
                     exists x, nth_error (p_threads p) s = Some x /\ (y = x \/ y = woken x)).
  { intros s y Hne Hy. rewrite nth_error_set_other in Hy by auto. exact (Wk_inv _ _ _ _ HW Hy). }
  assert (Hcases : forall s y, nth_error (set_nth_th t th' ths1) s = Some y ->
                     (s = t /\ y = th') \/ (s <> t /\ exists x, nth_error (p_threads p) s = Some x /\ (y = x \/ y = woken x))).
  { intros s y Hy. destruct (nth_error_set_cases _ _ _ _ _ Hy) as [(-> & -> & _)|(Hne & _)]; [left; auto|right; split; auto]. }
  assert (Htin : t < length ths1) by (rewrite HWl; apply nth_error_Some; congruence).
  assert (Hnew : nth_error (set_nth_th t th' ths1) t = Some th').
  { destruct (nth_error ths1 t) as [z|] eqn:Ez; [exact (nth_error_set_same ths1 t z th' Ez)|apply nth_error_None in Ez; lia]. }
  constructor; unfold upd; cbn [p_lock p_threads p_alive p_workers p_destroyed p_touch_after_free].
  - intros s y Hy Hh. destruct (Hcases s y Hy) as [(-> & ->)|(Hne & x & Hx & Hyx)]; [auto|].
    apply (C2 s x Hne Hx). destruct Hyx as [->| ->]; [exact Hh|rewrite holds_woken in Hh; exact Hh].
  - assert (Hz : exists z, nth_error ths1 t = Some z /\ alive_w z = alive_w th).
    { destruct (HWn t th Ht) as [E|E]; eexists; split; eauto. apply alive_woken. }
    destruct Hz as (z & Ez & Haz). pose proof (count_set alive_w ths1 t z th' Ez) as Hc. rewrite Haz in Hc.
    pose proof (Wk_count alive_w _ _ alive_woken HW) as Hk. pose proof (q_alive p Q) as Ha. lia.
  - intros (s & y & Hy & Hst).
    assert (Hall : all_th (fun _ x => sub_done x = true) (p_threads p)).
    { destruct (Hcases s y Hy) as [(-> & ->)|(Hne & x & Hx & Hyx)].
      - destruct (C5 Hst) as [Hs|Ha]; [|exact Ha]. apply (q_subs p Q). exists t, th. auto.
      - apply (q_subs p Q). exists s, x. split; [exact Hx|]. destruct Hyx as [->| ->]; [exact Hst|rewrite started_woken in Hst; exact Hst]. }
    intros r z Hz. destruct (Hcases r z Hz) as [(-> & ->)|(Hne & x & Hx & Hzx)].
    + apply C4. exact (Hall t th Ht).
    + destruct Hzx as [->| ->]; [|rewrite subdone_woken]; exact (Hall r x Hx).
  - intros s y Hy Hw. destruct (Hcases s y Hy) as [(-> & ->)|(Hne & x & Hx & Hyx)].
    + apply (q_workers p Q t th Ht). congruence.
    + apply (q_workers p Q s x Hx). destruct Hyx as [->| ->]; [exact Hw|rewrite worker_woken in Hw; exact Hw].
  - intros w Hin. destruct (q_wrev p Q w Hin) as (pc & Hpc). destruct (Nat.eq_dec w t) as [->|ne].
    + rewrite Hnew. rewrite Ht in Hpc. inversion Hpc; subst th. destruct th' as [pc'|?|?]; try discriminate. eauto.
    + rewrite nth_error_set_other by auto. destruct (HWn w _ Hpc) as [E|E]; rewrite E; [eauto|]. destruct pc; cbn; eauto.
  - assert (Hmono : forall w, worker_done p w = true -> w <> t \/ th = TWorker WDone ->
                      worker_done (mkP lock' sl' tasks' sd' (p_workers p) alive' run' (p_lazy p) (p_detached p) (p_max p) (p_mode p) destroyed'
                                       (set_nth_th t th' ths1) acc' st' disc' (p_touch_after_free p)) w = true).
    { intros w Hd Hor. unfold worker_done in *. cbn [p_threads].
      destruct (nth_error (p_threads p) w) as [[[]|?|?]|] eqn:E; try discriminate.
      destruct (Nat.eq_dec w t) as [->|ne].
      - destruct Hor as [?|Hth]; [congruence|]. rewrite Hnew, (C6b Hth). reflexivity.
      - rewrite nth_error_set_other by auto. destruct (HWn w _ E) as [E1|E1]; rewrite E1; reflexivity. }
    intros s y Hy ws -> w Hin Hnin. destruct (Hcases s _ Hy) as [(-> & Hth')|(Hne & x & Hx & Hyx)].
    + destruct (Nat.eq_dec w t) as [->|Hwt].
      * (* the freeing thread itself is never one of the workers it joins *)
        exfalso. destruct (q_wrev p Q t Hin) as (pc & Hpc). rewrite Ht in Hpc. inversion Hpc; subst th. subst th'. discriminate C6.
      * apply Hmono; [|left; exact Hwt]. eapply C7; eauto.
    + assert (Hxe : x = TFree (FJoin ws)) by (destruct Hyx as [->|E]; [reflexivity|destruct x as [[]|[]|[]]; cbn in E; try discriminate; inversion E; reflexivity]).
      pose proof (q_join p Q s x Hx ws Hxe w Hin Hnin) as Hd. apply Hmono; [exact Hd|].
      destruct (Nat.eq_dec w t) as [->|]; [right|left; auto].
      unfold worker_done in Hd. rewrite Ht in Hd. destruct th as [[]|?|?]; try discriminate. reflexivity.
  - intros (s & y & Hy & Hp).
    assert (Hcase : (past_wait th = true \/ exists r x, r <> t /\ nth_error (p_threads p) r = Some x /\ past_wait x = true) \/
                    (wfin th' /\ forall r x, r <> t -> nth_error (p_threads p) r = Some x -> wfin x)).
    { destruct (Hcases s y Hy) as [(-> & ->)|(Hne & x & Hx & Hyx)].
      - destruct (C8 Hp) as [?|?]; auto.
      - left; right. exists s, x. repeat split; auto. destruct Hyx as [->| ->]; [exact Hp|rewrite pastwait_woken in Hp; exact Hp]. }
    intros r z Hz. destruct Hcase as [Hold|(Hf' & Hfo)].
    + assert (Hall : all_th (fun _ x => wfin x) (p_threads p)).
      { apply (q_past p Q). destruct Hold as [Hpt|(r0 & x0 & _ & Hx0 & Hp0)]; [exists t, th|exists r0, x0]; auto. }
      destruct (Hcases r z Hz) as [(-> & ->)|(Hne & x & Hx & Hzx)].
      * pose proof (Hall t th Ht) as Hf. intros pc E. destruct th as [pc0|?|?].
        -- rewrite (C6b (f_equal TWorker (Hf pc0 eq_refl))) in E. inversion E. reflexivity.
        -- rewrite E in C6. discriminate.
        -- rewrite E in C6. discriminate.
      * destruct Hzx as [->| ->]; [|apply wfin_woken]; exact (Hall r x Hx).
    + destruct (Hcases r z Hz) as [(-> & ->)|(Hne & x & Hx & Hzx)]; [exact Hf'|].
      destruct Hzx as [->| ->]; [|apply wfin_woken]; exact (Hfo r x Hne Hx).
  - intros Hd. destruct (C9 Hd) as [Hold| ->]; [|exists t; exact Hnew].
    destruct (q_destroyed p Q Hold) as (f & Hf). destruct (Nat.eq_dec f t) as [->|ne].
    + exists t. rewrite Hnew. f_equal. apply C10. congruence.
    + exists f. rewrite nth_error_set_other by auto. destruct (HWn f _ Hf) as [E|E]; exact E.
  - exact (q_touch p Q).
Qed.

Lemma started_contra p t th : QInv p -> nth_error (p_threads p) t = Some th -> sub_done th = false ->
  forall s x, nth_error (p_threads p) s = Some x -> free_started x = true -> False.
Proof. intros Q Ht Hnd s x Hx Hs. pose proof (q_subs p Q (ex_intro _ s (ex_intro _ x (conj Hx Hs))) t th Ht) as H. cbn in H. congruence. Qed.

Lemma qinv_create p t k rest sl' tasks' sd' run' acc' st' disc' :
  QInv p -> nth_error (p_threads p) t = Some (TSub (SCreate k rest)) ->
  QInv (upd p (p_lock p) sl' tasks' sd' (length (p_threads p) :: p_workers p) (S (p_alive p)) run' (p_destroyed p)
            (set_nth_th t (TSub (SSignal rest)) (p_threads p) ++ [TWorker WLock]) acc' st' disc' (p_touch_after_free p)).
Proof.
  intros Q Ht. set (ths := p_threads p) in *. set (ths2 := set_nth_th t (TSub (SSignal rest)) ths).
  assert (Hl2 : length ths2 = length ths) by apply set_nth_th_length.
  assert (Hnostart : forall s x, nth_error ths s = Some x -> free_started x = true -> False).
  { intros s x Hx Hs. eapply (started_contra p t _ Q Ht); eauto. }
  assert (Hcases : forall s y, nth_error (ths2 ++ [TWorker WLock]) s = Some y ->
            (s = t /\ y = TSub (SSignal rest)) \/ (s <> t /\ nth_error ths s = Some y) \/ (s = length ths /\ y = TWorker WLock)).
  { intros s y Hy. destruct (Nat.lt_ge_cases s (length ths2)) as [Hlt|Hge].
    - rewrite nth_error_app1 in Hy by exact Hlt. destruct (nth_error_set_cases _ _ _ _ _ Hy) as [(-> & -> & _)|(Hne & Hn)]; auto.
    - rewrite nth_error_app2 in Hy by exact Hge. destruct (s - length ths2) as [|d] eqn:E; cbn in Hy; [|destruct d; discriminate].
      inversion Hy. right; right. split; [lia|reflexivity]. }
  assert (Htl : t < length ths) by (apply nth_error_Some; unfold ths in *; congruence).
  constructor; unfold upd; cbn [p_lock p_threads p_alive p_workers p_destroyed p_touch_after_free]; fold ths; fold ths2.
  - intros s y Hy Hh. destruct (Hcases s y Hy) as [(-> & ->)|[(Hne & Hn)|(-> & ->)]]; [|eapply (q_lock p Q); eauto|discriminate].
    exact (q_lock p Q t _ Ht eq_refl).
  - rewrite count_app. pose proof (count_set alive_w ths t _ (TSub (SSignal rest)) Ht) as Hc. cbn in Hc. fold ths2 in Hc.
    pose proof (q_alive p Q) as Ha. fold ths in Ha. unfold count_th at 2. cbn. lia.
  - intros (s & y & Hy & Hs). exfalso. destruct (Hcases s y Hy) as [(-> & ->)|[(Hne & Hn)|(-> & ->)]]; try discriminate. eapply Hnostart; eauto.
  - intros s y Hy Hw. destruct (Hcases s y Hy) as [(-> & ->)|[(Hne & Hn)|(-> & ->)]]; [discriminate| |left; reflexivity].
    right. eapply (q_workers p Q); eauto.
  - intros w [<-|Hin].
    + exists WLock. rewrite nth_error_app2 by lia. rewrite Hl2, Nat.sub_diag. reflexivity.
    + destruct (q_wrev p Q w Hin) as (pc & Hpc). exists pc. fold ths in Hpc.
      assert (w <> t) by (intros ->; congruence). assert (w < length ths) by (apply nth_error_Some; congruence).
      rewrite nth_error_app1 by lia. unfold ths2. rewrite nth_error_set_other by auto. exact Hpc.
  - intros s y Hy ws -> w Hin Hnin. exfalso. destruct (Hcases s _ Hy) as [(-> & E)|[(Hne & Hn)|(-> & E)]]; try discriminate. eapply Hnostart; eauto.
  - intros (s & y & Hy & Hp). exfalso. destruct (Hcases s y Hy) as [(-> & ->)|[(Hne & Hn)|(-> & ->)]]; try discriminate.
    eapply Hnostart; eauto. destruct y as [[]|[]|[]]; cbn in Hp |- *; try discriminate; reflexivity.
  - intros Hd. exfalso. destruct (q_destroyed p Q Hd) as (f & Hf). eapply Hnostart; eauto.
  - exact (q_touch p Q).
Qed.

Lemma qinv_set' p t th th' ths1 lock' sl' tasks' sd' alive' run' destroyed' acc' st' disc' :
  QInv p -> nth_error (p_threads p) t = Some th -> Wk (p_threads p) ths1 ->
  (holds th' = true -> lock' = Some t) ->
  (forall s x, s <> t -> nth_error (p_threads p) s = Some x -> holds x = true -> lock' = Some s) ->
  alive' + (if alive_w th then 1 else 0) = p_alive p + (if alive_w th' then 1 else 0) ->
  (sub_done th = true -> sub_done th' = true) ->
  (free_started th' = true -> free_started th = true \/ all_th (fun _ x => sub_done x = true) (p_threads p)) ->
  is_worker th' = is_worker th ->
  (th = TWorker WDone -> th' = TWorker WDone) ->
  (forall ws, th' = TFree (FJoin ws) -> forall w, In w (p_workers p) -> ~ In w ws -> w <> t -> worker_done p w = true) ->
  (past_wait th' = true -> past_wait th = true \/ (wfin th' /\ forall s x, s <> t -> nth_error (p_threads p) s = Some x -> wfin x)) ->
  (destroyed' = true -> p_destroyed p = true \/ th' = TFree FDone) ->
  (th = TFree FDone -> th' = TFree FDone) ->
  QInv (mkP lock' sl' tasks' sd' (p_workers p) alive' run' (p_lazy p) (p_detached p) (p_max p) (p_mode p) destroyed'
            (set_nth_th t th' ths1) acc' st' disc' (p_touch_after_free p)).
Proof. exact (qinv_set p t th th' ths1 lock' sl' tasks' sd' alive' run' destroyed' acc' st' disc'). Qed.

Lemma lock_keep p t : QInv p -> forall s x, s <> t -> nth_error (p_threads p) s = Some x -> holds x = true -> p_lock p = Some s.
Proof. intros Q s x _ Hx Hh. exact (q_lock p Q s x Hx Hh). Qed.
Lemma lock_acq p t : QInv p -> p_lock p = None -> forall s x, s <> t -> nth_error (p_threads p) s = Some x -> holds x = true -> Some t = Some s.
Proof. intros Q Hn s x _ Hx Hh. pose proof (q_lock p Q s x Hx Hh). congruence. Qed.
Lemma lock_rel p t th : QInv p -> nth_error (p_threads p) t = Some th -> holds th = true ->
  forall s x, s <> t -> nth_error (p_threads p) s = Some x -> holds x = true -> None = Some s.
Proof. intros Q Ht Hh s x Hne Hx Hhx. pose proof (q_lock p Q s x Hx Hhx). pose proof (q_lock p Q t th Ht Hh). congruence. Qed.
Lemma enabled_none p : enabled_lock p = true -> p_lock p = None.
Proof. unfold enabled_lock. destruct (p_lock p); [discriminate|reflexivity]. Qed.
Lemma alive_pos p t th : QInv p -> nth_error (p_threads p) t = Some th -> alive_w th = true -> 1 <= p_alive p.
Proof.
  intros Q Ht Ha. pose proof (count_set alive_w (p_threads p) t th (TFree FDone) Ht) as H. rewrite Ha in H. cbn in H.
  rewrite (q_alive p Q). lia.
Qed.

Ltac fields := cbn [p_lock p_sleepers p_tasks p_shutdown p_workers p_alive p_running p_lazy p_detached p_max p_mode p_destroyed
                     p_threads p_accepted p_started p_discarded p_touch_after_free].
Ltac norm := unfold worker_decide, sub_decide, freer_decide, with_pc, with_lock, with_sleepers, upd; fields.
(* the side conditions of qinv_set' that are settled by computation on the two program counters *)
Ltac easy_conds := cbn; try (intros; congruence); try (intros; discriminate); try (intros; lia); auto.

Theorem step_qinv p ch : QInv p -> QInv (step p ch).
Proof.
  intros Q. destruct ch as [t sp]. unfold step.
  destruct (nth_error (p_threads p) t) as [th|] eqn:Ht; [|exact Q].
  destruct th as [pc|pc|pc].
  - (* ------------------------------------------------ worker *)
    assert (Hnd : pc <> WDone -> touch p = p).
    { intros Hpc. apply touch_id. apply (active_not_destroyed p t _ Q Ht). destruct pc; try reflexivity. congruence. }
    assert (Hacq : forall pc0, (pc0 = WLock \/ pc0 = WRelock) -> nth_error (p_threads p) t = Some (TWorker pc0) -> p_lock p = None ->
              QInv (worker_decide (with_lock p (Some t)) t)).
    { intros pc0 Hpc0 Ht0 Hnone. pose proof (alive_pos p t _ Q Ht0 ltac:(destruct Hpc0 as [->| ->]; reflexivity)) as Hap.
      assert (Haw : alive_w (TWorker pc0) = true) by (destruct Hpc0 as [->| ->]; reflexivity).
      norm. destruct (p_tasks p) as [|k rest] eqn:Etasks; destruct (p_shutdown p) eqn:Esd; cbn [fst snd];
        (eapply (qinv_set' p t (TWorker pc0)); [exact Q|exact Ht0|apply Wk_refl|..]); try rewrite Haw;
        try (exact (lock_acq p t Q Hnone)); easy_conds; try (intros E; inversion E; subst; destruct Hpc0; discriminate). }
    destruct pc.
    + (* WLock *) destruct (enabled_lock p) eqn:El; [|exact Q]. rewrite Hnd by discriminate. apply (Hacq WLock); auto. apply enabled_none; exact El.
    + (* WWait *) rewrite Hnd by discriminate. norm.
      eapply (qinv_set' p t (TWorker WWait)); [exact Q|exact Ht|apply Wk_refl|..]; try (exact (lock_rel p t _ Q Ht eq_refl)); easy_conds.
    + (* WSleep *) destruct sp; [|exact Q]. norm.
      eapply (qinv_set' p t (TWorker WSleep)); [exact Q|exact Ht|apply Wk_refl|..]; try (exact (lock_keep p t Q)); easy_conds.
    + (* WRelock *) destruct (enabled_lock p) eqn:El; [|exact Q]. rewrite Hnd by discriminate. apply (Hacq WRelock); auto. apply enabled_none; exact El.
    + (* WUnlockRun *) rewrite Hnd by discriminate. norm.
      eapply (qinv_set' p t (TWorker (WUnlockRun k))); [exact Q|exact Ht|apply Wk_refl|..]; try (exact (lock_rel p t _ Q Ht eq_refl)); easy_conds.
    + (* WTask *) rewrite Hnd by discriminate. norm.
      eapply (qinv_set' p t (TWorker (WTask k))); [exact Q|exact Ht|apply Wk_refl|..]; try (exact (lock_keep p t Q)); easy_conds.
    + (* WBcast *) rewrite Hnd by discriminate. norm.
      eapply (qinv_set' p t (TWorker WBcast)); [exact Q|exact Ht|apply Wk_wake_all|..]; try (exact (lock_keep p t Q)); easy_conds.
      intros _. exact (q_lock p Q t _ Ht eq_refl).
    + (* WUnlockExit *) rewrite Hnd by discriminate. norm.
      eapply (qinv_set' p t (TWorker WUnlockExit)); [exact Q|exact Ht|apply Wk_refl|..]; try (exact (lock_rel p t _ Q Ht eq_refl)); easy_conds.
    + (* WDone *) exact Q.
  - (* ------------------------------------------------ submitter *)
    destruct pc as [[|k rest]|k rest|rest|rest|].
    + (* SLock [] *) norm.
      eapply (qinv_set' p t (TSub (SLock []))); [exact Q|exact Ht|apply Wk_refl|..]; try (exact (lock_keep p t Q)); easy_conds.
    + (* SLock (k :: rest) *) destruct (enabled_lock p) eqn:El; [|exact Q].
      rewrite (touch_id p) by (apply (active_not_destroyed p t _ Q Ht); reflexivity).
      pose proof (enabled_none p El) as Hnone. norm.
      destruct (p_lazy p && negb (p_running p <? length (p_workers p)) && (length (p_workers p) <? p_max p));
        (eapply (qinv_set' p t (TSub (SLock (k :: rest)))); [exact Q|exact Ht|apply Wk_refl|..]); try (exact (lock_acq p t Q Hnone)); easy_conds.
    + (* SCreate *) norm. exact (qinv_create p t k rest _ _ _ _ _ _ _ Q Ht).
    + (* SSignal *) destruct (p_sleepers p) as [|s others]; norm.
      * eapply (qinv_set' p t (TSub (SSignal rest))); [exact Q|exact Ht|apply Wk_refl|..]; try (exact (lock_keep p t Q)); easy_conds.
        intros _. exact (q_lock p Q t _ Ht eq_refl).
      * eapply (qinv_set' p t (TSub (SSignal rest))); [exact Q|exact Ht|apply Wk_wake|..]; try (exact (lock_keep p t Q)); easy_conds.
        intros _. exact (q_lock p Q t _ Ht eq_refl).
    + (* SUnlock *) norm.
      eapply (qinv_set' p t (TSub (SUnlock rest))); [exact Q|exact Ht|apply Wk_refl|..]; try (exact (lock_rel p t _ Q Ht eq_refl)); easy_conds.
    + (* SFin *) exact Q.
  - (* ------------------------------------------------ freeing thread *)
    assert (Hwfin_free : forall pc0, wfin (TFree pc0)) by (intros pc0 pc1 E; discriminate).
    assert (Hdone_fin : forall s x, nth_error (p_threads p) s = Some x -> (is_worker x = true -> worker_done p s = true) -> wfin x).
    { intros s x Hx Hd pc1 ->. specialize (Hd eq_refl). unfold worker_done in Hd. rewrite Hx in Hd. destruct pc1; try discriminate. reflexivity. }
    destruct pc as [ | | | |ws| | | | | | | ].
    + (* FStart *) destruct (all_subs_done p) eqn:Hs; [|exact Q]. norm.
      eapply (qinv_set' p t (TFree FStart)); [exact Q|exact Ht|apply Wk_refl|..]; try (exact (lock_keep p t Q)); easy_conds.
      intros _. right. intros s x Hx. unfold all_subs_done in Hs. rewrite forallb_forall in Hs. apply Hs. eapply nth_error_In; eauto.
    + (* FLock *) destruct (enabled_lock p) eqn:El; [|exact Q]. pose proof (enabled_none p El) as Hnone. norm.
      eapply (qinv_set' p t (TFree FLock)); [exact Q|exact Ht|apply Wk_refl|..]; try (exact (lock_acq p t Q Hnone)); easy_conds.
    + (* FBcast *) norm.
      eapply (qinv_set' p t (TFree FBcast)); [exact Q|exact Ht|apply Wk_wake_all|..]; try (exact (lock_keep p t Q)); easy_conds.
      intros _. exact (q_lock p Q t _ Ht eq_refl).
    + (* FUnlock *) norm.
      match goal with |- QInv (mkP _ _ _ _ _ _ _ _ _ _ _ _ (set_nth_th t ?x _) _ _ _ _) => set (th' := x) end.
      assert (Hth' : th' = TFree FLock2 \/ (th' = TFree FFree /\ p_workers p = []) \/ (th' = TFree (FJoin (p_workers p)) /\ p_workers p <> [])).
      { unfold th'. destruct (p_detached p); [left; reflexivity|]. destruct (p_workers p); [right; left; auto|right; right; split; [reflexivity|discriminate]]. }
      clearbody th'.
      eapply (qinv_set' p t (TFree FUnlock) th'); [exact Q|exact Ht|apply Wk_refl|..]; try (exact (lock_rel p t _ Q Ht eq_refl));
        destruct Hth' as [->|[(-> & Ew)|(-> & Ew)]]; easy_conds.
      { intros _. right. split; [apply Hwfin_free|]. intros s x _ Hx pc1 ->. pose proof (q_workers p Q s _ Hx eq_refl) as Hin. rewrite Ew in Hin. destruct Hin. }
    + (* FJoin *) destruct ws as [|w ws].
      * norm. eapply (qinv_set' p t (TFree (FJoin []))); [exact Q|exact Ht|apply Wk_refl|..]; try (exact (lock_keep p t Q)); easy_conds.
        intros _. right. split; [apply Hwfin_free|]. intros s x _ Hx. apply (Hdone_fin s x Hx). intros Hw.
        apply (q_join p Q t _ Ht [] eq_refl s); [exact (q_workers p Q s x Hx Hw)|auto].
      * destruct (worker_done p w) eqn:Hwd; [|exact Q]. norm. destruct ws as [|w2 ws2].
        -- eapply (qinv_set' p t (TFree (FJoin [w]))); [exact Q|exact Ht|apply Wk_refl|..]; try (exact (lock_keep p t Q)); easy_conds.
           intros _. right. split; [apply Hwfin_free|]. intros s x _ Hx. apply (Hdone_fin s x Hx). intros Hw.
           destruct (Nat.eq_dec s w) as [->|ne]; [exact Hwd|].
           apply (q_join p Q t _ Ht [w] eq_refl s); [exact (q_workers p Q s x Hx Hw)|intros [?|[]]; congruence].
        -- eapply (qinv_set' p t (TFree (FJoin (w :: w2 :: ws2)))); [exact Q|exact Ht|apply Wk_refl|..]; try (exact (lock_keep p t Q)); easy_conds.
           intros ws0 E w0 Hin Hnin _. inversion E; subst ws0. destruct (Nat.eq_dec w0 w) as [->|ne]; [exact Hwd|].
           apply (q_join p Q t _ Ht (w :: w2 :: ws2) eq_refl w0 Hin). intros [?|?]; [congruence|contradiction].
    + (* FLock2 *) destruct (enabled_lock p) eqn:El; [|exact Q]. pose proof (enabled_none p El) as Hnone. norm.
      destruct (Nat.eqb_spec (p_alive p) 0) as [H0|H0]; norm;
        (eapply (qinv_set' p t (TFree FLock2)); [exact Q|exact Ht|apply Wk_refl|..]); try (exact (lock_acq p t Q Hnone)); easy_conds.
      intros _. right. split; [apply Hwfin_free|]. intros s x _ Hx pc1 ->.
      pose proof (count_zero_all alive_w (p_threads p) ltac:(rewrite <- (q_alive p Q); exact H0) s _ Hx) as Ha.
      destruct pc1; cbn in Ha; try discriminate; try reflexivity; pose proof (q_lock p Q s _ Hx eq_refl); congruence.
    + (* FWait *) norm.
      eapply (qinv_set' p t (TFree FWait)); [exact Q|exact Ht|apply Wk_refl|..]; try (exact (lock_rel p t _ Q Ht eq_refl)); easy_conds.
    + (* FSleep *) destruct sp; [|exact Q]. norm.
      eapply (qinv_set' p t (TFree FSleep)); [exact Q|exact Ht|apply Wk_refl|..]; try (exact (lock_keep p t Q)); easy_conds.
    + (* FRelock *) destruct (enabled_lock p) eqn:El; [|exact Q]. pose proof (enabled_none p El) as Hnone. norm.
      destruct (Nat.eqb_spec (p_alive p) 0) as [H0|H0]; norm;
        (eapply (qinv_set' p t (TFree FRelock)); [exact Q|exact Ht|apply Wk_refl|..]); try (exact (lock_acq p t Q Hnone)); easy_conds.
      intros _. right. split; [apply Hwfin_free|]. intros s x _ Hx pc1 ->.
      pose proof (count_zero_all alive_w (p_threads p) ltac:(rewrite <- (q_alive p Q); exact H0) s _ Hx) as Ha.
      destruct pc1; cbn in Ha; try discriminate; try reflexivity; pose proof (q_lock p Q s _ Hx eq_refl); congruence.
    + (* FUnlock2 *) norm.
      eapply (qinv_set' p t (TFree FUnlock2)); [exact Q|exact Ht|apply Wk_refl|..]; try (exact (lock_rel p t _ Q Ht eq_refl)); easy_conds.
    + (* FFree *) norm.
      eapply (qinv_set' p t (TFree FFree)); [exact Q|exact Ht|apply Wk_refl|..]; try (exact (lock_keep p t Q)); easy_conds.
    + (* FDone *) exact Q.
Qed.

(* ---------- initial states ---------- *)
Lemma init_thread_cases lazy det mx md subs t th :
  nth_error (p_threads (init lazy det mx md subs)) t = Some th ->
  (t < (if lazy then 0 else mx) /\ th = TWorker WLock) \/ (exists l, th = TSub (SLock l)) \/ th = TFree FStart.
Proof.
  unfold init; cbn [p_threads]. set (nw := if lazy then 0 else mx). intros H.
  destruct (Nat.lt_ge_cases t nw) as [Hlt|Hge].
  - left. split; [exact Hlt|]. rewrite nth_error_app1 in H by (rewrite repeat_length; exact Hlt).
    apply nth_error_In, repeat_spec in H. exact H.
  - right. rewrite nth_error_app2 in H by (rewrite repeat_length; exact Hge). rewrite repeat_length in H.
    destruct (Nat.lt_ge_cases (t - nw) (length subs)) as [Hl2|Hg2].
    + left. rewrite nth_error_app1 in H by (rewrite map_length; exact Hl2). apply nth_error_In, in_map_iff in H. destruct H as (l & <- & _). eauto.
    + right. rewrite nth_error_app2 in H by (rewrite map_length; exact Hg2). rewrite map_length in H.
      destruct (t - nw - length subs) as [|d]; cbn in H; [inversion H; reflexivity|destruct d; discriminate].
Qed.

Lemma count_repeat f x n : count_th f (repeat x n) = if f x then n else 0.
Proof. unfold count_th. induction n as [|n IH]; cbn; [destruct (f x); reflexivity|]. destruct (f x); cbn; lia. Qed.
Lemma count_none f l : (forall x, In x l -> f x = false) -> count_th f l = 0.
Proof. unfold count_th. induction l as [|a l IH]; intros H; [reflexivity|]. cbn. rewrite (H a (or_introl eq_refl)). apply IH. intros x Hx. apply H. right. exact Hx. Qed.

Theorem init_qinv lazy det mx md subs : QInv (init lazy det mx md subs).
Proof.
  set (nw := if lazy then 0 else mx).
  assert (Hnone : forall t th, nth_error (p_threads (init lazy det mx md subs)) t = Some th ->
            holds th = false /\ free_started th = false /\ past_wait th = false /\ (forall ws, th <> TFree (FJoin ws))).
  { intros t th H. destruct (init_thread_cases _ _ _ _ _ _ _ H) as [(_ & ->)|[(l & ->)| ->]]; repeat split; try reflexivity; intros ws E; discriminate. }
  constructor.
  - intros t th H Hh. destruct (Hnone t th H) as (E & _). congruence.
  - unfold init; cbn [p_alive p_threads]. fold nw. rewrite !count_app, count_repeat. cbn [alive_w].
    rewrite (count_none alive_w (map (fun l => TSub (SLock l)) subs)) by (intros x Hx; apply in_map_iff in Hx; destruct Hx as (l & <- & _); reflexivity).
    unfold count_th. cbn. lia.
  - intros (t & th & H & Hs). destruct (Hnone t th H) as (_ & E & _). congruence.
  - intros t th H Hw. destruct (init_thread_cases _ _ _ _ _ _ _ H) as [(Hlt & ->)|[(l & ->)| ->]]; try discriminate.
    unfold init; cbn [p_workers]. fold nw in Hlt |- *. apply -> in_rev. apply in_seq. lia.
  - intros w Hin. unfold init in Hin |- *; cbn [p_workers p_threads] in *. fold nw in Hin |- *. apply in_rev, in_seq in Hin.
    exists WLock. rewrite nth_error_app1 by (rewrite repeat_length; lia). apply nth_error_repeat. lia.
  - intros t th H ws E. destruct (Hnone t th H) as (_ & _ & _ & Hj). exfalso. exact (Hj ws E).
  - intros (t & th & H & Hp). destruct (Hnone t th H) as (_ & _ & E & _). congruence.
  - discriminate.
  - reflexivity.
Qed.

Lemma run_qinv sched : forall p, QInv p -> QInv (run_sched p sched).
Proof. induction sched as [|ch r IH]; intros p Q; [exact Q|]. cbn [run_sched fold_left]. apply IH. apply step_qinv. exact Q. Qed.

(* ---------- the clause, for every schedule ---------- *)
Theorem no_touch_after_free lazy det mx md subs sched :
  p_touch_after_free (run_sched (init lazy det mx md subs) sched) = 0.
Proof. apply q_touch, run_qinv, init_qinv. Qed.

(* once the pool is destroyed every worker has returned and every submitter call is over; nothing can run any more *)
Theorem destroyed_means_quiescent lazy det mx md subs sched :
  let p := run_sched (init lazy det mx md subs) sched in
  p_destroyed p = true ->
  forall t th, nth_error (p_threads p) t = Some th ->
    match th with TWorker pc => pc = WDone | TSub _ => sub_done th = true | TFree _ => True end.
Proof.
  cbn zeta. intros Hd t th Ht. pose proof (run_qinv sched _ (init_qinv lazy det mx md subs)) as Q.
  destruct (q_destroyed _ Q Hd) as (f & Hf).
  destruct th as [pc|pc|pc]; [|exact (q_subs _ Q (ex_intro _ f (ex_intro _ _ (conj Hf eq_refl))) t _ Ht)|exact I].
  exact (q_past _ Q (ex_intro _ f (ex_intro _ _ (conj Hf eq_refl))) t _ Ht pc eq_refl).
Qed.

(* mutual exclusion: at most one thread is inside a critical section of the pool lock *)
Theorem lock_mutual_exclusion lazy det mx md subs sched :
  let p := run_sched (init lazy det mx md subs) sched in
  forall t1 t2 th1 th2, nth_error (p_threads p) t1 = Some th1 -> nth_error (p_threads p) t2 = Some th2 ->
    holds th1 = true -> holds th2 = true -> t1 = t2.
Proof.
  cbn zeta. intros t1 t2 th1 th2 H1 H2 Hh1 Hh2. pose proof (run_qinv sched _ (init_qinv lazy det mx md subs)) as Q.
  pose proof (q_lock _ Q t1 th1 H1 Hh1). pose proof (q_lock _ Q t2 th2 H2 Hh2). congruence.
Qed.
