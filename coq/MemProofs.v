(* MemProofs.v -- layout theorems (for every size) and the reference-counting
   discipline of MemM.v (for every operation sequence, nested destructors). *)
From LM Require Import Base MemM.

(* ---------- layout ---------- *)

Lemma mem_data_aligned : (mem_data_off mod cMAX_ALIGN = 0)%N.
Proof. vm_compute. reflexivity. Qed.

Lemma mem_shift_byte : (1 <= mem_shift /\ mem_shift <= 255)%N.
Proof. vm_compute. split; discriminate. Qed.

(* the allocation holds header, padding and exactly `size` user bytes *)
Lemma mem_fits size : (mem_total size = mem_data_off + size)%N.
Proof. unfold mem_total, mem_data_off. lia. Qed.

(* get_header finds the block start from the data pointer and the stored byte *)
Lemma mem_header_roundtrip : mem_hdr_of_data mem_data_off mem_shift = 0%N.
Proof. vm_compute. reflexivity. Qed.

(* if the allocator returns a block aligned for any type, so is the user pointer, whatever the size *)
Lemma mem_user_ptr_aligned base :
  (base mod cMAX_ALIGN = 0 -> (base + mem_data_off) mod cMAX_ALIGN = 0)%N.
Proof.
  intros H. rewrite N.add_mod by (vm_compute; discriminate).
  rewrite H, mem_data_aligned. vm_compute. reflexivity.
Qed.

(* ---------- the heap as a finite map ---------- *)

Definition with_refs (b : block) n := mkBlk (k_id b) n (k_size b) (k_dtor b) (k_kids b).

Lemma find_id h id b : h_find h id = Some b -> k_id b = id.
Proof. induction h as [|x r IH]; cbn; [discriminate|].
       destruct (N.eqb_spec (k_id x) id); intros H; [inversion H; subst; auto|auto]. Qed.
Lemma find_set_same h id n : h_find (h_set_refs h id n) id = option_map (fun b => with_refs b n) (h_find h id).
Proof. induction h as [|x r IH]; cbn; [reflexivity|].
       destruct (N.eqb_spec (k_id x) id) as [e|ne]; cbn.
       - rewrite e, N.eqb_refl. subst. reflexivity.
       - destruct (N.eqb_spec (k_id x) id); [contradiction|]. exact IH. Qed.
Lemma find_set_other h id n id' : id' <> id -> h_find (h_set_refs h id n) id' = h_find h id'.
Proof. intros Hne. induction h as [|x r IH]; cbn; [reflexivity|].
       destruct (N.eqb_spec (k_id x) id) as [e|ne]; cbn.
       - destruct (N.eqb_spec (k_id x) id'); [congruence|]. reflexivity.
       - destruct (N.eqb_spec (k_id x) id'); [reflexivity|exact IH]. Qed.
Lemma find_del_same h id : h_find (h_del h id) id = None.
Proof. induction h as [|x r IH]; cbn; [reflexivity|].
       destruct (N.eqb_spec (k_id x) id) as [e|ne]; cbn; [exact IH|].
       destruct (N.eqb_spec (k_id x) id); [contradiction|exact IH]. Qed.
Lemma find_del_other h id id' : id' <> id -> h_find (h_del h id) id' = h_find h id'.
Proof. intros Hne. induction h as [|x r IH]; cbn; [reflexivity|].
       destruct (N.eqb_spec (k_id x) id) as [e|ne]; cbn.
       - destruct (N.eqb_spec (k_id x) id'); [congruence|]. exact IH.
       - destruct (N.eqb_spec (k_id x) id'); [reflexivity|exact IH]. Qed.

(* ---------- invariants ---------- *)

(* every block in the heap is referenced *)
Definition KInv (h : heap) : Prop := forall id b, h_find h id = Some b -> (1 <= k_refs b)%N.

Definition pending (work : list (N + N)) : list N :=
  flat_map (fun w => match w with inr id => [id] | inl _ => [] end) work.
Lemma pending_app a b : pending (a ++ b) = pending a ++ pending b.
Proof. unfold pending. apply flat_map_app. Qed.
Lemma pending_inl l : pending (map inl l) = [].
Proof. induction l; cbn; auto. Qed.

(* during an unref: the blocks whose count is 0 are exactly those whose
   destructor is running, i.e. that have a pending "free" marker; each has
   exactly one marker *)
Definition LoopInv (h : heap) (work : list (N + N)) : Prop :=
  NoDup (pending work) /\
  (forall id b, h_find h id = Some b -> (k_refs b = 0%N <-> In id (pending work))) /\
  (forall id, In id (pending work) -> h_find h id <> None).

(* events of one unref: every free is of a block with a pending marker or made
   pending during the loop; stated through the final heap below *)

Lemma unref_loop_inv : forall fuel h work acc,
  LoopInv h work ->
  LoopInv (fst (fst (unref_loop fuel h work acc))) (snd (unref_loop fuel h work acc)).
Proof.
  induction fuel as [|f IH]; intros h work acc Hinv; cbn [unref_loop].
  - exact Hinv.
  - destruct work as [|[id|id] w].
    + exact Hinv.
    + destruct (h_find h id) as [b|] eqn:Ef.
      * destruct (N.eqb_spec (k_refs b) 1) as [e1|n1].
        -- apply IH. destruct Hinv as (Hnd & Hz & Hp).
           pose proof (find_id _ _ _ Ef) as Hid.
           change (pending (inl id :: w)) with (pending w) in *.
           assert (Hnotp : ~ In id (pending w)).
           { intros Hin. apply (Hz id b Ef) in Hin. lia. }
           split; [|split].
           ++ rewrite pending_app, pending_inl. cbn. constructor; auto.
           ++ intros id' b' Hf'. rewrite pending_app, pending_inl. cbn.
              destruct (N.eq_dec id' id) as [->|ne].
              ** rewrite find_set_same, Ef in Hf'. cbn in Hf'. inversion Hf'; subst. cbn. tauto.
              ** rewrite find_set_other in Hf' by auto. rewrite (Hz id' b' Hf'). split; [auto|intros [E|E]; [congruence|auto]].
           ++ intros id'. rewrite pending_app, pending_inl. cbn. intros [E|E].
              ** subst. rewrite find_set_same, Ef. cbn. discriminate.
              ** destruct (N.eq_dec id' id) as [->|ne]; [contradiction|]. rewrite find_set_other by auto. auto.
        -- apply IH. destruct Hinv as (Hnd & Hz & Hp).
           change (pending (inl id :: w)) with (pending w) in *.
           split; [auto|split].
           ++ intros id' b' Hf'.
              destruct (N.eq_dec id' id) as [->|ne].
              ** rewrite find_set_same, Ef in Hf'. cbn in Hf'. inversion Hf'; subst. cbn.
                 pose proof (Hz id b Ef) as Hb. split; [intros H0|intros Hin].
                 --- (* refs b - 1 = 0 with refs b <> 1: refs b = 0, so id pending *) apply Hb. lia.
                 --- apply Hb in Hin. lia.
              ** rewrite find_set_other in Hf' by auto. auto.
           ++ intros id' Hin. destruct (N.eq_dec id' id) as [->|ne].
              ** rewrite find_set_same, Ef. cbn. discriminate.
              ** rewrite find_set_other by auto. auto.
      * apply IH. exact Hinv.
    + apply IH. destruct Hinv as (Hnd & Hz & Hp).
      change (pending (inr id :: w)) with (id :: pending w) in *.
      inversion Hnd as [|? ? Hni Hnd']; subst.
      split; [auto|split].
      * intros id' b' Hf'. destruct (N.eq_dec id' id) as [->|ne].
        -- rewrite find_del_same in Hf'. discriminate.
        -- rewrite find_del_other in Hf' by auto. rewrite (Hz id' b' Hf'). cbn [In]. split; [intros [E|E]; [congruence|auto]|auto].
      * intros id' Hin. destruct (N.eq_dec id' id) as [->|ne]; [contradiction|].
        rewrite find_del_other by auto. apply Hp. right; auto.
Qed.

(* ---------- events of one unref ---------- *)

Definition frees (evs : list ev) : list N :=
  flat_map (fun e => match e with EFree id => [id] | _ => [] end) evs.
Definition dtored (evs : list ev) : list N :=
  flat_map (fun e => match e with EDtor id => [id] | _ => [] end) evs.
Lemma NoDup_app_intro_single {A} (l : list A) x : ~ In x l -> NoDup l -> NoDup (l ++ [x]).
Proof. induction l as [|h t IH]; cbn; intros Hni Hnd; [repeat constructor; auto|].
       inversion Hnd; subst. constructor; [|apply IH; auto].
       rewrite in_app_iff. cbn. intros [E|[E|[]]]; [auto|subst; auto]. Qed.
Lemma frees_app a b : frees (a ++ b) = frees a ++ frees b.
Proof. apply flat_map_app. Qed.
Lemma dtored_app a b : dtored (a ++ b) = dtored a ++ dtored b.
Proof. apply flat_map_app. Qed.

(* h0 = heap when the unref started.  During the loop:
   - a freed block is gone from the heap and is freed once;
   - a destructor ran at most once per block, only for blocks that have one, and
     exactly for the blocks that are pending or already freed;
   - static data of a block (destructor flag) never changes *)
Record EvInv (h0 h : heap) (work : list (N + N)) (acc : list ev) : Prop := {
  ev_nodup_free : NoDup (frees acc);
  ev_free_gone  : forall id, In id (frees acc) -> h_find h id = None;
  ev_nodup_dtor : NoDup (dtored acc);
  ev_dtor_iff   : forall id, In id (dtored acc) <->
                    (exists b0, h_find h0 id = Some b0 /\ k_dtor b0 = true) /\
                    (In id (pending work) \/ In id (frees acc));
  ev_static     : forall id b, h_find h id = Some b ->
                    exists b0, h_find h0 id = Some b0 /\ k_dtor b0 = k_dtor b /\ k_kids b0 = k_kids b;
  ev_free_was   : forall id, In id (frees acc) -> h_find h0 id <> None;
  (* order: when a block is freed its destructor (if any) has already run *)
  ev_order      : forall l1 l2 id b0, acc = l1 ++ EFree id :: l2 ->
                    h_find h0 id = Some b0 -> k_dtor b0 = true -> In id (dtored l1)
}.

Lemma unref_loop_evinv h0 : forall fuel h work acc,
  LoopInv h work -> EvInv h0 h work acc ->
  EvInv h0 (fst (fst (unref_loop fuel h work acc))) (snd (unref_loop fuel h work acc))
        (snd (fst (unref_loop fuel h work acc))).
Proof.
  induction fuel as [|f IH]; intros h work acc Hinv Hev; cbn [unref_loop]; [exact Hev|].
  destruct work as [|[id|id] w]; [exact Hev| |].
  - destruct (h_find h id) as [b|] eqn:Ef.
    + destruct (N.eqb_spec (k_refs b) 1) as [e1|n1].
      * (* last reference: destructor runs *)
        assert (Hinv' : LoopInv (h_set_refs h id 0) (map inl (k_kids b) ++ inr id :: w)).
        { pose proof (unref_loop_inv 1 h (inl id :: w) acc Hinv) as H1.
          cbn [unref_loop] in H1. rewrite Ef in H1. destruct (N.eqb_spec (k_refs b) 1); [|contradiction].
          exact H1. }
        apply IH; [exact Hinv'|].
        destruct Hinv as (Hnd & Hz & Hp). change (pending (inl id :: w)) with (pending w) in *.
        assert (Hnotp : ~ In id (pending w)) by (intros Hin; apply (Hz id b Ef) in Hin; lia).
        assert (Hnotf : ~ In id (frees acc)) by (intros Hin; apply (ev_free_gone _ _ _ _ Hev) in Hin; congruence).
        destruct (ev_static _ _ _ _ Hev id b Ef) as (b0 & Hb0 & Hd0 & Hk0).
        assert (Hpend : pending (map inl (k_kids b) ++ inr id :: w) = id :: pending w)
          by (rewrite pending_app, pending_inl; reflexivity).
        assert (Hnotd : ~ In id (dtored acc)).
        { intros Hin. apply (ev_dtor_iff _ _ _ _ Hev) in Hin. destruct Hin as (_ & [Hin|Hin]); auto. }
        constructor.
        -- rewrite frees_app. destruct (k_dtor b); cbn; rewrite app_nil_r; apply (ev_nodup_free _ _ _ _ Hev).
        -- intros id' Hin. rewrite frees_app in Hin.
           assert (Hin' : In id' (frees acc)) by (destruct (k_dtor b); cbn in Hin; rewrite app_nil_r in Hin; auto).
           destruct (N.eq_dec id' id) as [->|ne]; [contradiction|].
           rewrite find_set_other by auto. apply (ev_free_gone _ _ _ _ Hev); auto.
        -- rewrite dtored_app. destruct (k_dtor b); cbn; [|rewrite app_nil_r; apply (ev_nodup_dtor _ _ _ _ Hev)].
           apply NoDup_app_intro_single; auto. apply (ev_nodup_dtor _ _ _ _ Hev).
        -- intros id'. rewrite Hpend, dtored_app, frees_app.
           assert (Ef' : frees (if k_dtor b then [EDtor id] else []) = []) by (destruct (k_dtor b); reflexivity).
           rewrite Ef', app_nil_r. rewrite in_app_iff. rewrite (ev_dtor_iff _ _ _ _ Hev id').
           destruct (k_dtor b) eqn:Ed; cbn [dtored flat_map In app].
           ++ split.
              ** intros [(Hb & Hor)|[E|[]]].
                 --- split; [auto|]. destruct Hor; [left; right; auto|right; auto].
                 --- subst id'. split; [exists b0; split; [auto|congruence]|left; left; auto].
              ** intros (Hb & [[E|Hin]|Hin]); [right; left; auto|left; auto|left; auto].
           ++ split.
              ** intros [(Hb & Hor)|[]]. split; [auto|]. destruct Hor; [left; right; auto|right; auto].
              ** intros (Hb & [[E|Hin]|Hin]); [|left; auto|left; auto].
                 subst id'. destruct Hb as (b0' & Hb0' & Hd0'). rewrite Hb0 in Hb0'. inversion Hb0'; subst. congruence.
        -- intros id' b' Hf'. destruct (N.eq_dec id' id) as [->|ne].
           ++ rewrite find_set_same, Ef in Hf'. cbn in Hf'. inversion Hf'; subst. cbn. exists b0. auto.
           ++ rewrite find_set_other in Hf' by auto. apply (ev_static _ _ _ _ Hev); auto.
        -- intros id' Hin. rewrite frees_app in Hin.
           assert (Hin' : In id' (frees acc)) by (destruct (k_dtor b); cbn in Hin; rewrite app_nil_r in Hin; auto).
           apply (ev_free_was _ _ _ _ Hev); auto.
        -- intros l1 l2 id' b0' Hacc Hb0' Hd0'.
           (* the appended events contain no EFree: the split point lies in acc *)
           assert (Hsplit : exists l2', acc = l1 ++ EFree id' :: l2').
           { destruct (k_dtor b).
             - destruct l2 as [|x l2] using rev_ind.
               + apply (f_equal (@rev ev)) in Hacc. rewrite !rev_app_distr in Hacc. cbn in Hacc. inversion Hacc.
               + clear IHl2. rewrite app_comm_cons, app_assoc in Hacc. apply app_inj_tail in Hacc.
                 destruct Hacc as [Hacc _]. eauto.
             - rewrite app_nil_r in Hacc. eauto. }
           destruct Hsplit as (l2' & Hacc'). apply (ev_order _ _ _ _ Hev l1 l2' id' b0'); auto.
      * (* not the last reference *)
        assert (Hinv' : LoopInv (h_set_refs h id (k_refs b - 1)) w).
        { pose proof (unref_loop_inv 1 h (inl id :: w) acc Hinv) as H1.
          cbn [unref_loop] in H1. rewrite Ef in H1. destruct (N.eqb_spec (k_refs b) 1); [contradiction|].
          exact H1. }
        apply IH; [exact Hinv'|].
        change (pending (inl id :: w)) with (pending w) in *.
        constructor; try apply Hev.
        -- intros id' Hin. destruct (N.eq_dec id' id) as [->|ne].
           ++ apply (ev_free_gone _ _ _ _ Hev) in Hin. congruence.
           ++ rewrite find_set_other by auto. apply (ev_free_gone _ _ _ _ Hev); auto.
        -- intros id' b' Hf'. destruct (N.eq_dec id' id) as [->|ne].
           ++ rewrite find_set_same, Ef in Hf'. cbn in Hf'. inversion Hf'; subst. cbn.
              apply (ev_static _ _ _ _ Hev id b Ef).
           ++ rewrite find_set_other in Hf' by auto. apply (ev_static _ _ _ _ Hev); auto.
    + apply IH; [exact Hinv|]. constructor; try apply Hev.
  - (* free marker *)
    assert (Hinv' : LoopInv (h_del h id) w).
    { pose proof (unref_loop_inv 1 h (inr id :: w) acc Hinv) as H1. exact H1. }
    apply IH; [exact Hinv'|].
    destruct Hinv as (Hnd & Hz & Hp). change (pending (inr id :: w)) with (id :: pending w) in *.
    inversion Hnd as [|? ? Hni Hnd']; subst.
    assert (Hfound : h_find h id <> None) by (apply Hp; left; auto).
    assert (Hnotf : ~ In id (frees acc)) by (intros Hin; apply (ev_free_gone _ _ _ _ Hev) in Hin; congruence).
    constructor.
    + rewrite frees_app. cbn. apply NoDup_app_intro_single; auto. apply (ev_nodup_free _ _ _ _ Hev).
    + intros id' Hin. rewrite frees_app in Hin. cbn in Hin. apply in_app_iff in Hin.
      destruct (N.eq_dec id' id) as [->|ne]; [apply find_del_same|].
      rewrite find_del_other by auto. destruct Hin as [Hin|[E|[]]]; [|congruence].
      apply (ev_free_gone _ _ _ _ Hev); auto.
    + rewrite dtored_app. cbn. rewrite app_nil_r. apply (ev_nodup_dtor _ _ _ _ Hev).
    + intros id'. rewrite dtored_app, frees_app. cbn [dtored frees flat_map app]. rewrite app_nil_r.
      rewrite (ev_dtor_iff _ _ _ _ Hev id'). cbn [In]. rewrite in_app_iff. cbn [In].
      split; intros (Hb & Hor); (split; [auto|]).
      * destruct Hor as [[E|Hin]|Hin]; [right; right; left; auto|left; auto|right; left; auto].
      * destruct Hor as [Hin|[Hin|[E|[]]]]; [left; right; auto|right; auto|left; left; auto].
    + intros id' b' Hf'. destruct (N.eq_dec id' id) as [->|ne].
      * rewrite find_del_same in Hf'. discriminate.
      * rewrite find_del_other in Hf' by auto. apply (ev_static _ _ _ _ Hev); auto.
    + intros id' Hin. rewrite frees_app in Hin. cbn in Hin. apply in_app_iff in Hin.
      destruct Hin as [Hin|[E|[]]]; [apply (ev_free_was _ _ _ _ Hev); auto|].
      subst id'. destruct (h_find h id) as [b|] eqn:Ef; [|contradiction].
      destruct (ev_static _ _ _ _ Hev id b Ef) as (b0 & Hb0 & _). congruence.
    + intros l1 l2 id' b0' Hacc Hb0' Hd0'.
      destruct l2 as [|x l2] using rev_ind.
      * apply app_inj_tail in Hacc. destruct Hacc as [Hacc E]. inversion E; subst id' l1.
        apply (ev_dtor_iff _ _ _ _ Hev id). split; [eauto|left; left; auto].
      * clear IHl2. rewrite app_comm_cons, app_assoc in Hacc. apply app_inj_tail in Hacc.
        destruct Hacc as [Hacc _]. apply (ev_order _ _ _ _ Hev l1 l2 id' b0'); auto.
Qed.


(* ---------- the unref loop runs to completion with the fuel k_step gives it ---------- *)

Definition bw (b : block) : nat := if N.eqb (k_refs b) 0 then 0 else length (k_kids b) + 2.
Fixpoint msum (h : heap) : nat := match h with [] => 0 | b :: r => bw b + msum r end.

Lemma msum_del h id : msum (h_del h id) <= msum h.
Proof. induction h as [|x r IH]; cbn [h_del msum]; [lia|]. destruct (N.eqb (k_id x) id); cbn [msum]; lia. Qed.
Lemma msum_set h id b n : h_find h id = Some b ->
  msum (h_set_refs h id n) + bw b = msum h + bw (with_refs b n).
Proof. induction h as [|x r IH]; cbn [h_find h_set_refs msum]; [discriminate|].
       destruct (N.eqb_spec (k_id x) id); intros H.
       - inversion H; subst. cbn [msum]. unfold with_refs. lia.
       - specialize (IH H). cbn [msum]. lia. Qed.

Lemma unref_loop_completes : forall fuel h work acc,
  length work + msum h < fuel -> snd (unref_loop fuel h work acc) = [].
Proof.
  induction fuel as [|f IH]; intros h work acc Hf; [lia|]. cbn [unref_loop].
  destruct work as [|[id|id] w]; [reflexivity| |].
  - destruct (h_find h id) as [b|] eqn:Ef.
    + pose proof (msum_set h id b) as Hm.
      destruct (N.eqb_spec (k_refs b) 1) as [e1|n1].
      * apply IH. specialize (Hm 0%N Ef). unfold bw, with_refs in Hm. cbn [k_refs k_kids] in Hm.
        rewrite e1 in Hm. cbn [N.eqb Pos.eqb] in Hm. rewrite app_length, map_length. cbn [length] in *. lia.
      * apply IH. specialize (Hm (k_refs b - 1)%N Ef). unfold bw, with_refs in Hm. cbn [k_refs k_kids] in Hm.
        cbn [length] in Hf.
        destruct (N.eqb_spec (k_refs b) 0) as [e0|n0].
        -- replace (k_refs b - 1)%N with 0%N in * by lia. cbn [N.eqb] in Hm. lia.
        -- destruct (N.eqb_spec (k_refs b - 1) 0); [lia|]. lia.
    + apply IH. cbn [length] in Hf. lia.
  - apply IH. pose proof (msum_del h id). cbn [length] in Hf. lia.
Qed.

Lemma msum_le_fuel h : 1 + msum h < unref_fuel h.
Proof.
  unfold unref_fuel. assert (msum h <= 2 * length h + 2 * fold_right (fun b n => length (k_kids b) + n) 0 h).
  { induction h as [|x r IH]; cbn [msum fold_right length]; [lia|]. unfold bw.
    destruct (N.eqb (k_refs x) 0); lia. }
  lia.
Qed.

(* a pending block is eventually freed (or still pending when fuel runs out) *)
Lemma unref_loop_progress : forall fuel h work acc id,
  In id (pending work) \/ In id (frees acc) ->
  In id (pending (snd (unref_loop fuel h work acc))) \/ In id (frees (snd (fst (unref_loop fuel h work acc)))).
Proof.
  induction fuel as [|f IH]; intros h work acc id H; cbn [unref_loop]; [exact H|].
  destruct work as [|[i|i] w]; [exact H| |].
  - change (pending (inl i :: w)) with (pending w) in H.
    destruct (h_find h i) as [b|]; [|apply IH; exact H].
    destruct (N.eqb (k_refs b) 1); apply IH.
    + rewrite pending_app, pending_inl, frees_app. cbn [app pending flat_map].
      destruct H as [H|H]; [left; right; exact H|right; apply in_or_app; left; exact H].
    + exact H.
  - change (pending (inr i :: w)) with (i :: pending w) in H. apply IH.
    rewrite frees_app. cbn [frees flat_map app In]. rewrite in_app_iff. cbn [In].
    destruct H as [[E|H]|H]; [right; right; left; exact E|left; exact H|right; left; exact H].
Qed.

(* ---------- top level ---------- *)

Definition HInv (h : heap) : Prop := forall id b, h_find h id = Some b -> (1 <= k_refs b)%N.

Lemma HInv_LoopInv h : HInv h <-> LoopInv h [].
Proof.
  unfold HInv, LoopInv; cbn [pending flat_map]. split.
  - intros H. split; [constructor|split]; [|intros ? []].
    intros id b Hf. specialize (H id b Hf). split; [lia|intros []].
  - intros (_ & Hz & _) id b Hf. destruct (N.eq_dec (k_refs b) 0) as [e|ne]; [|lia].
    apply (Hz id b Hf) in e. destruct e.
Qed.

Lemma EvInv_start h id : EvInv h h [inl id] [].
Proof.
  constructor; cbn [frees dtored flat_map pending].
  - constructor.
  - intros ? [].
  - constructor.
  - intros i. split; [intros []|intros (_ & [[]|[]])].
  - intros i b Hf. exists b. auto.
  - intros ? [].
  - intros l1 l2 i b0 Hacc. destruct l1; discriminate.
Qed.

(* the result of dropping one reference *)
Theorem k_unref_correct h id b :
  HInv h -> h_find h id = Some b ->
  let '(h', evs, rest) := unref_loop (unref_fuel h) h [inl id] [] in
  rest = [] /\
  HInv h' /\
  k_step h (KUnref id) = (h', evs ++ [EPtr 0]) /\
  (* not the last reference: nothing happens but the count *)
  ((1 < k_refs b)%N -> evs = [] /\ h' = h_set_refs h id (k_refs b - 1)) /\
  (* the last reference: the block is destroyed *)
  (k_refs b = 1%N -> In id (frees evs)) /\
  (* every block is destroyed at most once, only blocks of the heap are destroyed, they are gone afterwards *)
  NoDup (frees evs) /\ NoDup (dtored evs) /\
  (forall i, In i (frees evs) -> h_find h i <> None /\ h_find h' i = None) /\
  (* the destructor runs exactly for the destroyed blocks that have one ... *)
  (forall i, In i (dtored evs) <-> (exists b0, h_find h i = Some b0 /\ k_dtor b0 = true) /\ In i (frees evs)) /\
  (* ... and before the memory goes back to the allocator *)
  (forall l1 l2 i b0, evs = l1 ++ EFree i :: l2 -> h_find h i = Some b0 -> k_dtor b0 = true -> In i (dtored l1)).
Proof.
  intros Hh Hf.
  pose proof (unref_loop_completes (unref_fuel h) h [inl id] []) as Hc.
  pose proof (unref_loop_inv (unref_fuel h) h [inl id] []) as Hl.
  pose proof (unref_loop_evinv h (unref_fuel h) h [inl id] []) as He.
  pose proof (unref_loop_progress (unref_fuel h) h) as Hp.
  assert (Hstart : LoopInv h [inl id]) by (apply HInv_LoopInv; exact Hh).
  specialize (Hl Hstart). specialize (He Hstart (EvInv_start h id)).
  specialize (Hc ltac:(cbn [length]; pose proof (msum_le_fuel h); lia)).
  clear Hp.
  assert (Hks : k_step h (KUnref id) =
                (fst (fst (unref_loop (unref_fuel h) h [inl id] [])),
                 snd (fst (unref_loop (unref_fuel h) h [inl id] [])) ++ [EPtr 0])).
  { unfold k_step. rewrite Hf. destruct (unref_loop (unref_fuel h) h [inl id] []) as [[? ?] ?]. reflexivity. }
  pose proof (msum_le_fuel h) as Hfu.
  destruct (unref_fuel h) as [|f] eqn:Efu; [lia|].
  assert (Hnl : (1 < k_refs b)%N ->
                unref_loop (S f) h [inl id] [] = (h_set_refs h id (k_refs b - 1), [], [])).
  { intros Hgt. cbn [unref_loop]. rewrite Hf.
    destruct (N.eqb_spec (k_refs b) 1); [lia|]. destruct f; reflexivity. }
  assert (Hlast : k_refs b = 1%N ->
                In id (frees (snd (fst (unref_loop (S f) h [inl id] []))))).
  { intros H1. cbn [unref_loop]. rewrite Hf.
    destruct (N.eqb_spec (k_refs b) 1); [|contradiction].
    match goal with |- In id (frees (snd (fst (unref_loop ?ff ?hh ?ww ?aa)))) =>
      pose proof (Hp' := unref_loop_progress ff hh ww aa id);
      pose proof (Hc' := unref_loop_completes ff hh ww aa) end.
    destruct Hp' as [Hp'|Hp']; [left; rewrite pending_app, pending_inl; left; reflexivity| |exact Hp'].
    rewrite Hc' in Hp'; [destruct Hp'|].
    pose proof (msum_set h id b 0%N Hf) as Hm. unfold bw, with_refs in Hm. cbn [k_refs k_kids] in Hm.
    rewrite H1 in Hm. cbn [N.eqb Pos.eqb] in Hm.
    rewrite app_length, map_length. cbn [length]. lia. }
  destruct (unref_loop (S f) h [inl id] []) as [[h' evs] rest]. cbn [fst snd] in *.
  subst rest.
  split; [reflexivity|]. split; [apply HInv_LoopInv; exact Hl|]. split; [exact Hks|].
  split; [intros Hgt; specialize (Hnl Hgt); inversion Hnl; auto|].
  split; [exact Hlast|].
  split; [apply He|]. split; [apply He|].
  split; [intros i Hi; split; [apply (ev_free_was _ _ _ _ He i Hi)|apply (ev_free_gone _ _ _ _ He i Hi)]|].
  split.
  - intros i. rewrite (ev_dtor_iff _ _ _ _ He i). cbn [pending flat_map In]. tauto.
  - apply He.
Qed.

Lemma k_step_inv h o : HInv h -> HInv (fst (k_step h o)).
Proof.
  intros Hh. destruct o as [id size dt kids|id|id|id|id|w]; unfold k_step.
  - destruct (h_find h id) eqn:Ef; [exact Hh|]. cbn [fst]. intros i b. cbn [h_find k_id].
    destruct (N.eqb_spec id i); [intros H; inversion H; subst; cbn; lia|apply Hh].
  - destruct (h_find h id) as [b|] eqn:Ef; [|exact Hh]. cbn [fst]. intros i b'.
    destruct (N.eq_dec i id) as [->|ne].
    + rewrite find_set_same, Ef. cbn. intros H; inversion H; subst. cbn. lia.
    + rewrite find_set_other by auto. apply Hh.
  - destruct (h_find h id) as [b|] eqn:Ef; [|exact Hh].
    pose proof (k_unref_correct h id b Hh Ef) as H.
    destruct (unref_loop (unref_fuel h) h [inl id] []) as [[h' evs] rest]. cbn [fst]. apply H.
  - destruct (h_find h id) as [b|] eqn:Ef; [|exact Hh].
    pose proof (k_unref_correct h id b Hh Ef) as H.
    destruct (unref_loop (unref_fuel h) h [inl id] []) as [[h' evs] rest]. cbn [fst]. apply H.
  - destruct (h_find h id); exact Hh.
  - destruct w as [|[|[|w]]]; exact Hh.
Qed.

(* a block stays in the heap (valid) for as long as it holds a reference: every
   reachable heap only contains blocks with at least one reference *)
Theorem k_inv_reachable ops : HInv (final k_step [] ops).
Proof. apply final_inv; [intros s o; apply k_step_inv|]. intros id b H; discriminate. Qed.

(* a new block has exactly one reference, the requested size, and the layout proved above *)
Theorem k_new_correct h id size dt kids :
  h_find h id = None ->
  k_step h (KNew id size dt kids) =
  (mkBlk id 1 size dt (if dt then kids else []) :: h,
   [EAlloc id; ERet (Z.of_N mem_data_off); ERet (Z.of_N (mem_total size)); ERet (Z.of_N size)]).
Proof. intros Hn. unfold k_step. rewrite Hn. reflexivity. Qed.

(* taking a reference or asking the size never destroys anything; the size reported is the block's *)
Theorem k_ref_size_correct h id b :
  h_find h id = Some b ->
  k_step h (KRef id) = (h_set_refs h id (k_refs b + 1), [EPtr id]) /\
  k_step h (KSize id) = (h, [ERet (Z.of_N (k_size b))]) /\
  (forall i, h_find (h_set_refs h id (k_refs b + 1)) i <> None <-> h_find h i <> None).
Proof.
  intros Hf. unfold k_step. rewrite Hf. split; [reflexivity|]. split; [reflexivity|].
  intros i. destruct (N.eq_dec i id) as [->|ne].
  - rewrite find_set_same, Hf. cbn. split; intros _; discriminate.
  - rewrite find_set_other by auto. tauto.
Qed.

(* NULL arguments are tolerated *)
Theorem k_null_ok h w : fst (k_step h (KNull w)) = h.
Proof. destruct w as [|[|[|w]]]; reflexivity. Qed.
