(* CorePass.v -- C01 / C07: one pass over the module table (`iterate_mods`, the model of m_map_iterate over c->modules) visits
   EVERY module of the table exactly once, in table order, whatever the visited modules' callbacks answer -- as long as the
   visit itself does not change the table (then the pass is taken up again: `again` in loop_stop / ctx_deregister).
   With CoreLoop.evaluate_idle_without_hook_starts this is the evaluation clause of C01: a refusing evaluation callback of
   one module cannot keep the modules behind it from being evaluated. *)
From LM Require Import Base CoreTypes CoreModel CoreExec.
From Coq Require Import Lia Sorted.

Section Pass.
  Variable f : world -> modid -> world.
  Variable tbl : list (nat * modid).
  Definition has_table (w : world) : Prop := exists c, w_tls w = Some c /\ c_modules c = tbl.
  Hypothesis Hkeep : forall w m, has_table w -> has_table (f w m).
  Hypothesis Hsorted : StronglySorted (fun a b : nat * modid => fst a < fst b) tbl.      (* slots are distinct, the table is kept in slot order *)

  Lemma filter_none {A} (p : A -> bool) l : Forall (fun x => p x = false) l -> filter p l = [].
  Proof. induction 1 as [|x l Hx _ IH]; cbn; [reflexivity|]. rewrite Hx. exact IH. Qed.
  Lemma filter_all {A} (p : A -> bool) l : Forall (fun x => p x = true) l -> filter p l = l.
  Proof. induction 1 as [|x l Hx _ IH]; cbn; [reflexivity|]. rewrite Hx, IH. reflexivity. Qed.
  Lemma find_skip {A} (p : A -> bool) l1 l2 : Forall (fun x => p x = false) l1 -> find p (l1 ++ l2) = find p l2.
  Proof. induction 1 as [|x l Hx _ IH]; cbn; [reflexivity|]. rewrite Hx. exact IH. Qed.
  Lemma sorted_suffix prefix suffix : StronglySorted (fun a b : nat * modid => fst a < fst b) (prefix ++ suffix) ->
    StronglySorted (fun a b : nat * modid => fst a < fst b) suffix.
  Proof. induction prefix as [|a p IH]; cbn; [auto|]. intros H. inversion H; subst. auto. Qed.

  Definition placed (after : option nat) (prefix suffix : list (nat * modid)) : Prop :=
    match after with
    | None => prefix = []
    | Some s => Forall (fun p => fst p <= s) prefix /\ Forall (fun p => s < fst p) suffix
    end.

  Lemma pass_from : forall suffix prefix after fuel w,
    tbl = prefix ++ suffix -> placed after prefix suffix -> length suffix < fuel -> has_table w ->
    iterate_mods fuel w after f = (fold_left f (map snd suffix) w, false) /\ has_table (fold_left f (map snd suffix) w).
  Proof.
    induction suffix as [|[slot m] suffix' IH]; intros prefix after fuel w Ht Hp Hf Hw;
      (destruct fuel as [|fu]; [exfalso; exact (Nat.nlt_0_r _ Hf)|]); cbn [iterate_mods]; destruct Hw as (c & Hc & Hm); rewrite Hc.
    - (* nothing left *)
      assert (Hrest : match after with None => c_modules c | Some s => filter (fun p => Nat.ltb s (fst p)) (c_modules c) end = []).
      { rewrite Hm, Ht, app_nil_r. destruct after as [s|]; [|exact Hp]. destruct Hp as [Hp _]. apply filter_none.
        eapply Forall_impl; [|exact Hp]. intros p H. apply Nat.ltb_ge. exact H. }
      rewrite Hrest. cbn [map fold_left]. split; [reflexivity|]. exists c. auto.
    - assert (Hrest : match after with None => c_modules c | Some s => filter (fun p => Nat.ltb s (fst p)) (c_modules c) end = (slot, m) :: suffix').
      { rewrite Hm, Ht. destruct after as [s|]; [|cbn in Hp; rewrite Hp; reflexivity]. destruct Hp as [Hp Hs]. rewrite filter_app.
        rewrite (filter_none _ prefix), (filter_all _ ((slot, m) :: suffix')); [reflexivity| |].
        - eapply Forall_impl; [|exact Hs]. intros p H. apply Nat.ltb_lt. exact H.
        - eapply Forall_impl; [|exact Hp]. intros p H. apply Nat.ltb_ge. exact H. }
      rewrite Hrest. pose proof (Hkeep w m (ex_intro _ c (conj Hc Hm))) as (c1 & Hc1 & Hm1). rewrite Hc1.
      (* the entry of this slot is still the module just visited, the table has the size it had *)
      assert (Hsuf : StronglySorted (fun a b : nat * modid => fst a < fst b) ((slot, m) :: suffix')) by (apply (sorted_suffix prefix); rewrite <- Ht; exact Hsorted).
      inversion Hsuf as [|a l Hss Hall]; subst a l.
      assert (Hpre : Forall (fun p : nat * modid => Nat.eqb (fst p) slot = false) prefix).
      { destruct after as [s|]; [|cbn in Hp; rewrite Hp; constructor]. destruct Hp as [Hp Hs]. inversion Hs as [|a l Hlt _]; subst a l. cbn in Hlt.
        eapply Forall_impl; [|exact Hp]. intros p H. apply Nat.eqb_neq. cbn in *. lia. }
      assert (Hfind : tbl_find slot (c_modules c1) = Some m).
      { unfold tbl_find. rewrite Hm1, Ht, (find_skip _ prefix _ Hpre). cbn [find fst]. rewrite Nat.eqb_refl. reflexivity. }
      rewrite Hfind, Nat.eqb_refl, Hm1, Hm, Nat.eqb_refl.
      assert (Hnext : placed (Some slot) (prefix ++ [(slot, m)]) suffix').
      { split; [|eapply Forall_impl; [|exact Hall]; intros p H; exact H].
        apply Forall_app. split; [|constructor; [cbn; lia|constructor]].
        destruct after as [s|]; [|cbn in Hp; rewrite Hp; constructor]. destruct Hp as [Hp Hs]. inversion Hs as [|a l Hlt _]; subst a l. cbn in Hlt.
        eapply Forall_impl; [|exact Hp]. intros p H. cbn in *. lia. }
      destruct (IH (prefix ++ [(slot, m)]) (Some slot) fu (f w m)) as [E Hh]; [rewrite <- app_assoc; exact Ht|exact Hnext|cbn in Hf; lia|exists c1; auto|].
      cbn [map snd fold_left]. split; [exact E|exact Hh].
  Qed.

  (* a whole pass: every module of the table, once, in slot order; the pass is not reported as interrupted *)
  Theorem pass_visits_every_module_once w : has_table w -> length tbl < iter_fuel w ->
    iterate_mods (iter_fuel w) w None f = (fold_left f (map snd tbl) w, false).
  Proof. intros Hw Hf. apply (pass_from tbl [] None (iter_fuel w) w); [reflexivity|reflexivity|exact Hf|exact Hw]. Qed.
End Pass.

(* the evaluation pass (loop start, after every batch): every module of the table is evaluated exactly once, in table order,
   whatever any evaluation callback answers, provided no callback registers or deregisters a module meanwhile *)
Theorem eval_pass_evaluates_every_module sc run_cb tbl w :
  has_table tbl w -> StronglySorted (fun a b : nat * modid => fst a < fst b) tbl -> length tbl < iter_fuel w ->
  (forall w m, has_table tbl w -> has_table tbl (evaluate_module sc run_cb w m)) ->
  eval_pass sc run_cb w = fold_left (evaluate_module sc run_cb) (map snd tbl) w.
Proof.
  intros Hw Hs Hf Hk. unfold eval_pass. rewrite (pass_visits_every_module_once (evaluate_module sc run_cb) tbl Hk Hs w Hw Hf). reflexivity.
Qed.
Print Assumptions pass_visits_every_module_once.
Print Assumptions eval_pass_evaluates_every_module.
