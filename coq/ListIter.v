(* ListIter.v -- C12, list: complete iteration with arbitrary per-element actions INCLUDING insertion through the iterator.
   Every original element is visited exactly once, in list order (inserted elements are not visited); what remains is exactly
   the kept / replaced / inserted elements in order; the destructor ran exactly for the removed ones; the final state satisfies
   the list invariant.  For every user comparator. *)
From LM Require Import Base SeqLemmas ListM ListProofs.
From Coq Require Import Lia.

Inductive lact := LaKeep | LaRemove | LaSet (v : N) | LaInsert (v : N).

Definition lact_ops (a : lact) : list lop :=
  match a with LaKeep => [] | LaRemove => [LItrRm] | LaSet v => [LItrSet v] | LaInsert v => [LItrInsert v] end.
Definition l_iter_script (acts : list lact) : list lop := flat_map (fun a => LItrGet :: lact_ops a ++ [LItrNext]) acts.

Fixpoint apply_lacts (l : list N) (acts : list lact) : list N :=
  match l, acts with
  | x :: r, LaKeep :: a => x :: apply_lacts r a
  | x :: r, LaRemove :: a => apply_lacts r a
  | x :: r, LaSet v :: a => v :: apply_lacts r a
  | x :: r, LaInsert v :: a => v :: x :: apply_lacts r a
  | _, _ => l
  end.
Fixpoint lacts_dtors (l : list N) (acts : list lact) : list N :=
  match l, acts with
  | x :: r, LaRemove :: a => x :: lacts_dtors r a
  | x :: r, _ :: a => lacts_dtors r a
  | _, _ => []
  end.
Definition lact_ok (a : lact) : Prop := a <> LaSet 0%N /\ a <> LaInsert 0%N.

Section WithCmp.
  Variable ceq : option (N -> N -> bool).
  Notation al_step := (al_step ceq).
  Notation l_step := (l_step ceq).

  Definition LIt (dt : bool) (done todo : list N) (diff : Z) : al := mkAL (done ++ todo) (Some (mkLI (length done) diff)) dt false.
  Definition LEnd (dt : bool) (l : list N) : al := mkAL l None dt false.
  Definition LNext (dt : bool) (done todo : list N) : al :=
    match todo with [] => LEnd dt done | _ => LIt dt done todo 0 end.

  Lemma al_get dt done x r d : al_step (LIt dt done (x :: r) d) LItrGet = (LIt dt done (x :: r) d, [EPtr x]).
  Proof. unfold al_step, LIt; cbn [a_freed a_itr a_items li_pos]. rewrite app_nth2, Nat.sub_diag by lia. reflexivity. Qed.


  Ltac ltb_true a b := let E := fresh "E" in assert (E : Nat.ltb a b = true) by (apply Nat.ltb_lt; cbn [length]; lia); rewrite E; clear E.
  Ltac ltb_false a b := let E := fresh "E" in assert (E : Nat.ltb a b = false) by (apply Nat.ltb_ge; cbn [length]; lia); rewrite E; clear E.

  Lemma al_next_keep dt done x r : al_step (LIt dt done (x :: r) 0) LItrNext = (LNext dt (done ++ [x]) r, [ERet 0]).
  Proof.
    unfold al_step, LIt; cbn [a_freed a_itr a_items li_pos li_diff a_dtor]. rewrite app_length.
    ltb_true (length done) (length done + length (x :: r)). replace (Z.to_nat (0 + 1)) with 1 by reflexivity.
    destruct r as [|y r'].
    - rewrite Nat.min_l by (cbn [length]; lia). ltb_false (length done + length [x]) (length done + length [x]).
      unfold LNext, LEnd. reflexivity.
    - rewrite Nat.min_r by (cbn [length]; lia). ltb_true (length done + 1) (length done + length (x :: y :: r')).
      unfold LNext, LIt. rewrite app_length; cbn [length]. rewrite <- app_assoc; cbn [app]. reflexivity.
  Qed.

  Lemma al_rm dt done x r : al_step (LIt dt done (x :: r) 0) LItrRm = (LIt dt done r (-1), dtor_evs dt [x] ++ [ERet 0]).
  Proof.
    unfold al_step, LIt; cbn [a_freed a_itr a_items li_pos li_diff a_dtor].
    rewrite nth_error_app2, Nat.sub_diag by lia. cbn [nth_error]. rewrite remove_nth_app. reflexivity.
  Qed.
  Lemma al_next_removed dt done r : al_step (LIt dt done r (-1)) LItrNext = (LNext dt done r, [ERet 0]).
  Proof.
    unfold al_step, LIt; cbn [a_freed a_itr a_items li_pos li_diff a_dtor]. rewrite app_length.
    destruct r as [|y r'].
    - ltb_false (length done) (length done + length (@nil N)). ltb_false (length done) (length done + length (@nil N)).
      unfold LNext, LEnd. rewrite app_nil_r. reflexivity.
    - ltb_true (length done) (length done + length (y :: r')). replace (Z.to_nat (-1 + 1)) with 0 by reflexivity.
      rewrite Nat.min_r by (cbn [length]; lia). rewrite Nat.add_0_r. ltb_true (length done) (length done + length (y :: r')). reflexivity.
  Qed.
  Lemma al_set dt done x r v : v <> 0%N -> al_step (LIt dt done (x :: r) 0) (LItrSet v) = (LIt dt done (v :: r) 0, [ERet 0]).
  Proof.
    intros Hv. unfold al_step, LIt; cbn [a_freed a_itr a_items li_pos li_diff a_dtor].
    destruct (N.eqb_spec v 0); [contradiction|]. rewrite app_length. ltb_true (length done) (length done + length (x :: r)). cbn [orb negb].
    rewrite set_nth_app. reflexivity.
  Qed.
  Lemma insert_nth_app {A} (done : list A) v r : insert_nth (length done) v (done ++ r) = done ++ v :: r.
  Proof. induction done as [|a d IH]; cbn; [destruct r; reflexivity|]. f_equal. exact IH. Qed.
  Lemma al_insert dt done x r v : v <> 0%N ->
    al_step (LIt dt done (x :: r) 0) (LItrInsert v) = (LIt dt done (v :: x :: r) 1, [ERet 0]).
  Proof.
    intros Hv. unfold al_step, LIt; cbn [a_freed a_itr a_items li_pos li_diff a_dtor].
    destruct (N.eqb_spec v 0); [contradiction|]. rewrite insert_nth_app. reflexivity.
  Qed.
  Lemma al_next_inserted dt done v x r : al_step (LIt dt done (v :: x :: r) 1) LItrNext = (LNext dt (done ++ [v; x]) r, [ERet 0]).
  Proof.
    unfold al_step, LIt; cbn [a_freed a_itr a_items li_pos li_diff a_dtor]. rewrite app_length.
    ltb_true (length done) (length done + length (v :: x :: r)). replace (Z.to_nat (1 + 1)) with 2 by reflexivity.
    destruct r as [|y r'].
    - rewrite Nat.min_l by (cbn [length]; lia). ltb_false (length done + length [v; x]) (length done + length [v; x]).
      unfold LNext, LEnd. reflexivity.
    - rewrite Nat.min_r by (cbn [length]; lia). ltb_true (length done + 2) (length done + length (v :: x :: y :: r')).
      unfold LNext, LIt. rewrite app_length; cbn [length]. rewrite <- app_assoc; cbn [app]. reflexivity.
  Qed.

  Lemma al_iter_elem dt done x r act : lact_ok act ->
    run al_step (LIt dt done (x :: r) 0) (LItrGet :: lact_ops act ++ [LItrNext]) =
    (LNext dt (done ++ apply_lacts [x] [act]) r,
     [EPtr x] :: match act with
                 | LaKeep => [] | LaRemove => [dtor_evs dt [x] ++ [ERet 0]] | LaSet _ | LaInsert _ => [[ERet 0]]
                 end ++ [[ERet 0]]).
  Proof.
    intros (Hs & Hi). cbn [run]. rewrite al_get.
    destruct act as [| |v|v]; cbn [lact_ops app run apply_lacts].
    - rewrite al_next_keep. reflexivity.
    - rewrite al_rm, al_next_removed. rewrite app_nil_r. reflexivity.
    - rewrite al_set by congruence. rewrite al_next_keep. reflexivity.
    - rewrite al_insert by congruence. rewrite al_next_inserted. reflexivity.
  Qed.

  Lemma al_iter_loop dt : forall todo done acts, length acts = length todo -> Forall lact_ok acts ->
    let r := run al_step (LNext dt done todo) (l_iter_script acts) in
    fst r = LEnd dt (done ++ apply_lacts todo acts) /\ visits (snd r) = todo /\
    dtors (snd r) = (if dt then lacts_dtors todo acts else []).
  Proof.
    induction todo as [|x r IH]; intros done acts Hlen Hok.
    - destruct acts; [|cbn in Hlen; lia]. cbn. rewrite app_nil_r. destruct dt; auto.
    - destruct acts as [|act acts]; [cbn in Hlen; lia|]. cbn [length] in Hlen. inversion Hok as [|? ? Hact Hok']; subst.
      cbn zeta. unfold l_iter_script. cbn [flat_map]. fold (l_iter_script acts).
      change (LNext dt done (x :: r)) with (LIt dt done (x :: r) 0).
      rewrite (run_app al_step _ (LItrGet :: lact_ops act ++ [LItrNext]) (l_iter_script acts)).
      rewrite al_iter_elem by assumption.
      specialize (IH (done ++ apply_lacts [x] [act]) acts ltac:(lia) Hok'). cbn zeta in IH.
      destruct (run al_step _ (l_iter_script acts)) as [af es]. cbn [fst snd] in *. destruct IH as (I1 & I2 & I3).
      split; [|split].
      + rewrite I1. f_equal. rewrite <- app_assoc. f_equal. destruct act; reflexivity.
      + destruct act; cbn [app visits]; destruct dt; cbn [dtor_evs map app visits]; rewrite I2; reflexivity.
      + destruct act; cbn [app dtors flat_map lacts_dtors]; destruct dt; cbn [dtor_evs map app dtors flat_map lacts_dtors]; rewrite ?I3; reflexivity.
  Qed.

  Theorem l_iterate_all dt (pre : list lop) (acts : list lact) :
    let s0 := final l_step (l_init dt) pre in
    let l := l_items (ls_l s0) in
    let d := l_dtor (ls_l s0) in
    l_freed (ls_l s0) = false -> ls_itr s0 = None -> length acts = length l -> Forall lact_ok acts ->
    let r := run l_step s0 (LItrNew :: l_iter_script acts) in
    LInv (fst r) /\ l_items (ls_l (fst r)) = apply_lacts l acts /\ ls_itr (fst r) = None /\
    visits (tl (snd r)) = l /\ dtors (tl (snd r)) = (if d then lacts_dtors l acts else []).
  Proof.
    cbn zeta. intros Hfr Hit Hlen Hok.
    pose proof (l_inv_reachable ceq dt pre) as Hinv. set (s0 := final l_step (l_init dt) pre) in *.
    destruct (l_refines_from ceq (LItrNew :: l_iter_script acts) s0 Hinv) as (Hi & Ha & He).
    set (R := run l_step s0 (LItrNew :: l_iter_script acts)) in *. split; [exact Hi|].
    assert (Eabs : l_abs s0 = LEnd (l_dtor (ls_l s0)) (l_items (ls_l s0))).
    { unfold l_abs, LEnd. rewrite Hfr, Hit. reflexivity. }
    rewrite Eabs in Ha, He. clear Eabs. set (l := l_items (ls_l s0)) in *. set (d := l_dtor (ls_l s0)) in *.
    cbn [run] in Ha, He.
    assert (Enew : al_step (LEnd d l) LItrNew = (LNext d [] l, [EPtr (match l with [] => 0 | _ => 1 end)%N])).
    { unfold al_step, LEnd, LNext, LIt; cbn [a_freed a_items a_dtor]. destruct l; reflexivity. }
    rewrite Enew in Ha, He.
    pose proof (al_iter_loop d l [] acts Hlen Hok) as Hloop. cbn zeta in Hloop.
    destruct (run al_step (LNext d [] l) (l_iter_script acts)) as [af es]. cbn [fst snd app] in *.
    destruct Hloop as (L1 & L2 & L3). rewrite He. cbn [tl]. subst af.
    assert (Hq : l_items (ls_l (fst R)) = apply_lacts l acts /\ ls_itr (fst R) = None).
    { unfold l_abs, LEnd in L1. inversion L1. auto. }
    destruct Hq. auto.
  Qed.
End WithCmp.
