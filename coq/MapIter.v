(* MapIter.v -- C05: the iterator object (m_map_itr_new / next / get_key), used WITHOUT mutation, enumerates every live
   entry exactly once (slot order) and then ends.  For every hash function. *)
From LM Require Import Base SeqLemmas MapM MapProofs.
From Coq Require Import Lia Arith.

Lemma skipn_cons_nth {A} (l : list A) i d : i < length l -> skipn i l = nth i l d :: skipn (S i) l.
Proof. revert i; induction l as [|a l IH]; intros i Hi; [cbn in Hi; lia|]. destruct i; [reflexivity|]. cbn in Hi. cbn [skipn nth]. apply IH. lia. Qed.

(* next_occ finds the first occupied slot at or after i *)
Lemma next_occ_spec : forall fuel s i, length s - i < fuel ->
  match next_occ s i fuel with
  | Some j => i <= j < length s /\ exists k v, nth j s None = Some (k, v) /\ keys (skipn i s) = k :: keys (skipn (S j) s)
  | None => keys (skipn i s) = []
  end.
Proof.
  induction fuel as [|f IH]; intros s i Hf; [lia|]. cbn [next_occ].
  destruct (Nat.leb_spec (length s) i) as [Hge|Hlt]; [rewrite skipn_all2 by lia; reflexivity|].
  rewrite (skipn_cons_nth s i None Hlt). destruct (nth i s None) as [[k v]|] eqn:E.
  - split; [lia|]. exists k, v. split; [exact E|reflexivity].
  - specialize (IH s (S i) ltac:(lia)). destruct (next_occ s (S i) f) as [j|].
    + destruct IH as (Hj & k & v & Hn & Hk). split; [lia|]. exists k, v. split; [exact Hn|]. cbn [keys]. exact Hk.
    + cbn [keys]. exact IH.
Qed.

Section WithHash.
  Variable hash : N -> N.

  (* the read-only walk: n times (get_key; next) *)
  Fixpoint walk (n : nat) : list mop := match n with O => [] | S k => MItrKey :: MItrNext :: walk k end.
  Fixpoint key_ptrs (out : list (list ev)) : list N :=
    match out with
    | [EPtr k] :: _next :: r => k :: key_ptrs r
    | _ => []
    end.

  Lemma step_key m j k v : m_freed m = false -> nth j (m_slots m) None = Some (k, v) ->
    m_step hash (mkMS m (Some (mkMI j false))) MItrKey = (mkMS m (Some (mkMI j false)), [EPtr k]).
  Proof. intros Hfr Hn. unfold m_step. cbn [ms_m ms_itr]. rewrite Hfr. cbn [mi_removed mi_curr]. rewrite Hn. reflexivity. Qed.
  Lemma step_next m j : m_freed m = false ->
    m_step hash (mkMS m (Some (mkMI j false))) MItrNext =
    match next_occ (m_slots m) (S j) (S (length (m_slots m))) with
    | Some j2 => (mkMS m (Some (mkMI j2 false)), [ERet 0])
    | None => (mkMS m None, [ERet 0])
    end.
  Proof. intros Hfr. unfold m_step. cbn [ms_m ms_itr]. rewrite Hfr. cbn [mi_removed mi_curr]. reflexivity. Qed.

  Lemma run_cons2 {St O} (step : St -> O -> St * list ev) s o1 o2 r :
    run step s (o1 :: o2 :: r) =
    let '(s1, e1) := step s o1 in let '(s2, e2) := step s1 o2 in let '(s3, es) := run step s2 r in (s3, e1 :: e2 :: es).
  Proof. cbn [run]. destruct (step s o1) as [s1 e1]. destruct (step s1 o2) as [s2 e2]. destruct (run step s2 r). reflexivity. Qed.

  Lemma walk_from : forall ks m j k v, m_freed m = false ->
    j < length (m_slots m) -> nth j (m_slots m) None = Some (k, v) -> keys (skipn (S j) (m_slots m)) = ks ->
    let r := run (m_step hash) (mkMS m (Some (mkMI j false))) (walk (S (length ks))) in
    key_ptrs (snd r) = k :: ks /\ fst r = mkMS m None.
  Proof.
    induction ks as [|k2 ks IH]; intros m j k v Hfr Hj Hn Hk; cbn zeta.
    - cbn [length walk run]. rewrite (step_key m j k v Hfr Hn), (step_next m j Hfr).
      pose proof (next_occ_spec (S (length (m_slots m))) (m_slots m) (S j) ltac:(lia)) as Hs. rewrite Hk in Hs.
      destruct (next_occ (m_slots m) (S j) (S (length (m_slots m)))) as [j2|]; [destruct Hs as (_ & ? & ? & _ & E); discriminate|].
      cbn. split; reflexivity.
    - cbn [length]. change (walk (S (S (length ks)))) with (MItrKey :: MItrNext :: walk (S (length ks))).
      rewrite run_cons2, (step_key m j k v Hfr Hn), (step_next m j Hfr).
      pose proof (next_occ_spec (S (length (m_slots m))) (m_slots m) (S j) ltac:(lia)) as Hs. rewrite Hk in Hs.
      destruct (next_occ (m_slots m) (S j) (S (length (m_slots m)))) as [j2|]; [|discriminate].
      destruct Hs as (Hj2 & k' & v' & Hn2 & E). injection E as Ek Eks. subst k'.
      specialize (IH m j2 k2 v' Hfr ltac:(lia) Hn2 (eq_sym Eks)). cbn zeta in IH.
      remember (run (m_step hash) (mkMS m (Some (mkMI j2 false))) (walk (S (length ks)))) as R eqn:ER. destruct R as [sf out].
      cbn [fst snd] in IH. destruct IH as (I1 & I2). cbn [fst snd key_ptrs]. rewrite I1. split; [reflexivity|exact I2].
  Qed.

  Lemma step_new st : m_freed (ms_m st) = false -> m_len (ms_m st) <> 0 ->
    m_step hash st MItrNew =
    match next_occ (m_slots (ms_m st)) 0 (S (length (m_slots (ms_m st)))) with
    | Some j => (mkMS (ms_m st) (Some (mkMI j false)), [EPtr 1])
    | None => (mkMS (ms_m st) None, [EPtr 0])
    end.
  Proof. intros Hfr H0. unfold m_step. rewrite Hfr. destruct (Nat.eqb_spec (m_len (ms_m st)) 0); [contradiction|reflexivity]. Qed.

  Lemma run_cons1 {St O} (step : St -> O -> St * list ev) s o r :
    run step s (o :: r) = let '(s1, e) := step s o in let '(s2, es) := run step s1 r in (s2, e :: es).
  Proof. reflexivity. Qed.

  Theorem iterator_enumerates_each_once st : m_freed (ms_m st) = false -> MInv hash (ms_m st) -> m_len (ms_m st) <> 0 ->
    let ks := keys (m_slots (ms_m st)) in
    let r := run (m_step hash) st (MItrNew :: walk (length ks)) in
    key_ptrs (tl (snd r)) = ks /\ fst r = mkMS (ms_m st) None /\ NoDup ks /\
    (forall k, In k ks <-> exists v, Has (m_slots (ms_m st)) k v).
  Proof.
    intros Hfr HM H0. cbn zeta. destruct (len_correct hash st Hfr HM) as (_ & Hnd & Hin).
    assert (Hk : forall s, length (keys s) = occ_count s).
    { induction s as [|a s IH]; [reflexivity|]. rewrite occ_count_cons. destruct a as [[? ?]|]; cbn [keys length is_some]; lia. }
    assert (Hmain : key_ptrs (tl (snd (run (m_step hash) st (MItrNew :: walk (length (keys (m_slots (ms_m st)))))))) = keys (m_slots (ms_m st)) /\
                    fst (run (m_step hash) st (MItrNew :: walk (length (keys (m_slots (ms_m st)))))) = mkMS (ms_m st) None).
    { rewrite run_cons1, (step_new st Hfr H0).
      pose proof (next_occ_spec (S (length (m_slots (ms_m st)))) (m_slots (ms_m st)) 0 ltac:(lia)) as Hs.
      change (skipn 0 (m_slots (ms_m st))) with (m_slots (ms_m st)) in Hs.
      destruct (next_occ (m_slots (ms_m st)) 0 (S (length (m_slots (ms_m st))))) as [j|].
      - destruct Hs as (Hj & k & v & Hn & E).
        pose proof (walk_from (keys (skipn (S j) (m_slots (ms_m st)))) (ms_m st) j k v Hfr ltac:(lia) Hn eq_refl) as Hw. cbn zeta in Hw.
        rewrite E. cbn [length].
        remember (run (m_step hash) (mkMS (ms_m st) (Some (mkMI j false))) (walk (S (length (keys (skipn (S j) (m_slots (ms_m st)))))))) as R eqn:ER.
        destruct R as [sf out]. cbn [fst snd tl] in *. exact Hw.
      - exfalso. destruct HM as (_ & Hl & _). apply H0. rewrite Hl, <- Hk, Hs. reflexivity. }
    destruct Hmain as (M1 & M2). split; [exact M1|]. split; [exact M2|]. split; assumption.
  Qed.
End WithHash.
