(* GuardsModel.v -- the guard tables of the C source (Guards.v, regenerated on every run) against the model.
   `api_of` names the C function a scripted call stands for (the same mapping the C driver implements).
   The tables the one-step theorems are stated with (lifecycle_call, ctx_call, pub_call, sub_call) are PROVED to be what the
   source's guard macros say, and "out of tokens => refused, no effect" is proved for exactly the calls whose C function
   (or the helper it delegates to) contains M_MOD_CONSUME_TOKEN. *)
From Coq Require Import List ZArith String Lia.
From LM Require Import Base Consts CoreTypes CoreModel CoreExec CoreLocal CoreLocal2 CoreLocal5 GuardTypes Guards.
Import ListNotations.
Local Open Scope string_scope.

Definition src_fn (reg : bool) (k : skind) : option string :=
  match k with
  | KFd => Some (if reg then "m_mod_src_register_fd" else "m_mod_src_deregister_fd")
  | KTmr => Some (if reg then "m_mod_src_register_tmr" else "m_mod_src_deregister_tmr")
  | KSgn => Some (if reg then "m_mod_src_register_sgn" else "m_mod_src_deregister_sgn")
  | KPath => Some (if reg then "m_mod_src_register_path" else "m_mod_src_deregister_path")
  | KPid => Some (if reg then "m_mod_src_register_pid" else "m_mod_src_deregister_pid")
  | KTask => Some (if reg then "m_mod_src_register_task" else "m_mod_src_deregister_task")
  | KThresh => Some (if reg then "m_mod_src_register_thresh" else "m_mod_src_deregister_thresh")
  | _ => None
  end.

Definition api_of (c : call) : option string :=
  match c with
  | CCtxReg _ => Some "m_ctx_register" | CCtxDereg => Some "m_ctx_deregister" | CCtxFinalize => Some "m_ctx_finalize"
  | CCtxLoop => Some "m_ctx_loop" | CCtxDispatch => Some "m_ctx_dispatch" | CCtxQuit _ => Some "m_ctx_quit"
  | CCtxLen => Some "m_ctx_len" | CCtxStats => Some "m_ctx_stats" | CCtxSetTick _ => Some "m_ctx_set_tick"
  | CReg _ => Some "m_mod_register" | CDereg _ => Some "m_mod_deregister"
  | CStart _ => Some "m_mod_start" | CPause _ => Some "m_mod_pause" | CResume _ => Some "m_mod_resume" | CStop _ => Some "m_mod_stop"
  | CState _ => Some "m_mod_state"
  | CBecome _ _ => Some "m_mod_become" | CUnbecome _ => Some "m_mod_unbecome"
  | CStash _ _ => Some "m_mod_stash" | CUnstash _ _ => Some "m_mod_unstash"
  | CBatchSize _ _ => Some "m_mod_set_batch_size" | CBatchTimeout _ _ => Some "m_mod_set_batch_timeout"
  | CTokenBucket _ _ _ => Some "m_mod_set_tokenbucket"
  | CSub _ _ _ _ _ => Some "m_mod_ps_subscribe" | CUnsub _ _ => Some "m_mod_ps_unsubscribe"
  | CTell _ _ _ _ => Some "m_mod_ps_tell" | CPublish _ _ _ _ | CBroadcast _ _ _ => Some "m_mod_ps_publish"
  | CPill _ _ => Some "m_mod_ps_poisonpill"
  | CSrcReg _ k _ _ _ _ _ => src_fn true k | CSrcDereg _ k _ => src_fn false k
  | CSrcLen _ _ => Some "m_mod_src_len"
  | _ => None                 (* references, event references, environment actions, harness constructs *)
  end.

(* the guards of a call as the source has them, delegations expanded *)
Definition expand (g : guard) : list guard :=
  match g with
  | GREG => match lookup "register_mod_src" api_guards with Some l => l | None => [g] end
  | GDEREG => match lookup "deregister_mod_src" api_guards with Some l => l | None => [g] end
  | GMODDEREG => match lookup "mod_deregister" api_guards with Some l => l | None => [g] end
  | _ => [g]
  end.
Definition src_guards (c : call) : list guard :=
  match api_of c with
  | Some n => match lookup n api_guards with Some l => flat_map expand l | None => [] end
  | None => []
  end.

Definition state_guard (c : call) : option (list mstate) :=
  match find (fun g => match g with GST _ => true | _ => false end) (src_guards c) with
  | Some (GST l) => Some l
  | _ => None
  end.
Definition has (p : guard -> bool) (c : call) : bool := existsb p (src_guards c).
Definition tok_guarded := has (fun g => match g with GTOK => true | _ => false end).
Definition ctx_guarded := has (fun g => match g with GCA => true | _ => false end).
Definition perm_guarded (f : denyflag) := has (fun g => match g, f with GPERM DPub, DPub | GPERM DSub, DSub | GPERM DCtx, DCtx => true | _, _ => false end).
Definition mod_guarded := has (fun g => match g with GMA | GST _ | GPERM _ => true | _ => false end).

(* every scripted call that stands for an API function finds its row in the regenerated table *)
Theorem every_api_has_a_row c n : api_of c = Some n -> lookup n api_guards <> None.
Proof. destruct c; try (match goal with k : skind |- _ => destruct k end); cbn [api_of src_fn]; intros E; try discriminate E; injection E as <-; vm_compute; discriminate. Qed.

(* ---------- the tables of the one-step theorems are the source's ---------- *)
Theorem lifecycle_table_from_source c :
  option_map snd (lifecycle_call c) = state_guard c /\ (forall m l, lifecycle_call c = Some (m, l) -> call_handle c = Some m).
Proof. destruct c; try (match goal with k : skind |- _ => destruct k end); split; try reflexivity; cbn; intros m0 l0 E; try discriminate E; injection E as <- _; reflexivity. Qed.

Theorem ctx_table_from_source c : api_of c <> None -> ctx_guarded c = (ctx_call c || match c with CCtxLoop => true | _ => false end)%bool.
Proof. destruct c; try (match goal with k : skind |- _ => destruct k end); cbn [api_of src_fn]; intros H; try (exfalso; apply H; reflexivity); reflexivity. Qed.

Theorem pub_table_from_source c : api_of c <> None -> (if pub_call c then true else false) = perm_guarded DPub c.
Proof. destruct c; try (match goal with k : skind |- _ => destruct k end); cbn [api_of src_fn]; intros H; try (exfalso; apply H; reflexivity); reflexivity. Qed.

Theorem sub_table_from_source c : api_of c <> None -> (if sub_call c then true else false) = perm_guarded DSub c.
Proof. destruct c; try (match goal with k : skind |- _ => destruct k end); cbn [api_of src_fn]; intros H; try (exfalso; apply H; reflexivity); reflexivity. Qed.

(* the priority bits are validated (M_SRC_ASSERT_PRIO_FLAGS) by exactly the calls that take them: subscriptions and source registrations *)
Definition prio_guarded := has (fun g => match g with GPRIO => true | _ => false end).
Theorem prio_table_from_source c : api_of c <> None ->
  prio_guarded c = match c with CSub _ _ _ _ _ | CSrcReg _ _ _ _ _ _ _ => true | _ => false end.
Proof. destruct c; try (match goal with k : skind |- _ => destruct k end); cbn [api_of src_fn]; intros H; try (exfalso; apply H; reflexivity); reflexivity. Qed.

(* ---------- C18: out of tokens => the call is refused and has no effect, for every call the SOURCE marks ---------- *)
Section Tok.
  Variable sc : script.
  Variable run_cb : world -> modid -> cbkind -> nat -> list evtrec -> world * bool.
  Notation exec := (CoreExec.exec sc run_cb).

  Lemma consume_none w m mr t : get_mod w m = Some mr -> m_tb_tokens mr = Some 0%N -> consume_token (emit w t) m = None.
  Proof. intros Hm Ht. pose proof (consume_token_spec (emit w t) m mr Hm) as H. rewrite Ht in H. exact H. Qed.

  Ltac refuse Hn :=
    repeat first
      [ apply refused_intro; first [assumption | eapply mod_assert_neg; eassumption | eapply mod_assert_state_neg; eassumption
                                    | eapply mod_assert_perm_neg; eassumption | exact Hn]
      | match goal with
        | |- refused _ (match ?x with _ => _ end) => destruct x eqn:?
        | |- refused _ (if ?x then _ else _) => destruct x eqn:?
        end ].

  Lemma tell_step_out w t m r data af mr : get_mod w m = Some mr -> m_tb_tokens mr = Some 0%N ->
    exists e, neg e /\ tell_step sc (emit w t) m r data af = (emit w t, e).
  Proof.
    intros Hm Ht. destruct neg_codes as (NE1 & NE2 & NE3 & NE4 & NE5 & NE6 & NE7). unfold tell_step.
    destruct (mod_assert_perm (emit w t) m m_denypub) eqn:Ep; [eexists; split; [eapply mod_assert_perm_neg; eassumption|reflexivity]|].
    destruct (Nat.eqb _ 0); [eauto|]. destruct (negb _); [eauto|]. rewrite (consume_none w m mr t Hm Ht). eauto.
  Qed.
  Lemma register_out w t m k key p one ac int up mr : get_mod w m = Some mr -> m_tb_tokens mr = Some 0%N ->
    exists e, neg e /\ register_mod_src (emit w t) m k key p one ac int up = (emit w t, e).
  Proof.
    intros Hm Ht. destruct neg_codes as (NE1 & NE2 & NE3 & NE4 & NE5 & NE6 & NE7). unfold register_mod_src.
    destruct (mod_assert (emit w t) m) eqn:Ea; [eexists; split; [eapply mod_assert_neg; eassumption|reflexivity]|].
    destruct (Nat.leb 4 p); [eauto|]. rewrite (consume_none w m mr t Hm Ht). eauto.
  Qed.
  Lemma register_dup_out w t m key p one up mr : get_mod w m = Some mr -> m_tb_tokens mr = Some 0%N ->
    exists e, neg e /\ register_dup_fd (emit w t) m key p one up = (emit w t, e).
  Proof.
    intros Hm Ht. destruct neg_codes as (NE1 & NE2 & NE3 & NE4 & NE5 & NE6 & NE7). unfold register_dup_fd.
    destruct (mod_assert (emit w t) m) eqn:Ea; [eexists; split; [eapply mod_assert_neg; eassumption|reflexivity]|].
    destruct (Nat.leb 4 _); [eauto|]. rewrite (consume_none w m mr t Hm Ht). eauto.
  Qed.
  Lemma deregister_out w t m k key mr : get_mod w m = Some mr -> m_tb_tokens mr = Some 0%N ->
    exists e, neg e /\ deregister_mod_src (emit w t) m k key = (emit w t, e).
  Proof.
    intros Hm Ht. destruct neg_codes as (NE1 & NE2 & NE3 & NE4 & NE5 & NE6 & NE7). unfold deregister_mod_src.
    destruct (mod_assert (emit w t) m) eqn:Ea; [eexists; split; [eapply mod_assert_neg; eassumption|reflexivity]|].
    rewrite (consume_none w m mr t Hm Ht). eauto.
  Qed.

  Theorem out_of_tokens_refused cur w c m mr :
    tok_guarded c = true -> call_handle c = Some m -> get_mod w m = Some mr -> m_tb_tokens mr = Some 0%N ->
    refused w (exec cur w c).
  Proof.
    intros Hg Hh Hm Ht. destruct neg_codes as (NE1 & NE2 & NE3 & NE4 & NE5 & NE6 & NE7).
    assert (Hn : neg rEAGAIN) by assumption.
    destruct c; try (match goal with k : skind |- _ => destruct k end); try (vm_compute in Hg; discriminate Hg); cbn in Hh; try discriminate Hh; injection Hh as ->;
      unfold CoreExec.exec, exec_own; cbn [call_handle]; rewrite emit_uref;
      (destruct (Nat.eqb (uref_count w m) 0); [apply refused_intro; assumption|]);
      unfold exec_call; rewrite ?(consume_none w m mr _ Hm Ht);
      first
      [ refuse Hn; fail
      | unfold retp; match goal with |- context [tell_step sc (emit w ?t) m ?r ?d ?af] =>
                destruct (tell_step_out w t m r d af mr Hm Ht) as (e & Hne & ->) end; cbn [fst snd]; apply refused_intro; exact Hne
      | refuse Hn; unfold retp;
        first [ match goal with |- context [register_mod_src (emit w ?t) m ?k ?key ?p ?o ?a ?i ?u] =>
                  destruct (register_out w t m k key p o a i u mr Hm Ht) as (e & Hne & ->) end
              | match goal with |- context [register_dup_fd (emit w ?t) m ?key ?p ?o ?u] =>
                  destruct (register_dup_out w t m key p o u mr Hm Ht) as (e & Hne & ->) end
              | match goal with |- context [deregister_mod_src (emit w ?t) m ?k ?key] =>
                  destruct (deregister_out w t m k key mr Hm Ht) as (e & Hne & ->) end ];
        cbn [fst snd]; apply refused_intro; exact Hne ].
  Qed.
End Tok.

(* ---------- the one-step refusal theorems, restated with premises read off the source's guard macros ---------- *)
Section PerSource.
  Variable sc : script.
  Variable run_cb : world -> modid -> cbkind -> nat -> list evtrec -> world * bool.
  Notation exec := (CoreExec.exec sc run_cb).

  (* C01: M_MOD_ASSERT_STATE(l) in the C function => the call is refused, without effect, in every state outside l *)
  Theorem wrong_state_refused_per_source cur w c m l mr :
    state_guard c = Some l -> call_handle c = Some m -> get_mod w m = Some mr -> state_in (m_state mr) l = false ->
    refused w (exec cur w c).
  Proof.
    intros Hg Hh Hm Hs. destruct (lifecycle_table_from_source c) as [E Hh']. rewrite Hg in E.
    destruct (lifecycle_call c) as [[m' l']|] eqn:El; [|discriminate E]. cbn in E. injection E as ->.
    pose proof (Hh' m' l eq_refl) as Hm'. rewrite Hh in Hm'. injection Hm' as <-.
    eapply guarded_call_refused; eauto.
  Qed.

  (* C07: M_CTX_ASSERT in the C function => without a context the call fails with EPIPE and has no effect *)
  Theorem no_ctx_refused_per_source cur w c : ctx_guarded c = true -> c <> CCtxLoop -> the_ctx w = None ->
    (forall m, c = CReg m -> spec_of sc m <> None) ->
    exists t a, exec cur w c = ret (emit w (TMark t a)) rEPIPE.
  Proof.
    intros Hg Hl Hc Hreg. apply no_ctx_refused; [exact Hc| |exact Hreg].
    assert (Ha : api_of c <> None) by (intros E; unfold ctx_guarded, has, src_guards in Hg; rewrite E in Hg; discriminate Hg).
    rewrite (ctx_table_from_source c Ha) in Hg. destruct c; try contradiction; cbn in Hg |- *; try discriminate Hg; try reflexivity;
      rewrite Bool.orb_false_r in Hg; exact Hg.
  Qed.

  (* C15: M_MOD_ASSERT_PERM(DENY_PUB / DENY_SUB) in the C function => a module carrying the flag is refused *)
  Theorem deny_pub_refused_per_source cur w c m mr : perm_guarded DPub c = true -> call_handle c = Some m ->
    get_mod w m = Some mr -> m_denypub mr = true -> refused w (exec cur w c).
  Proof.
    intros Hg Hh Hm Hd.
    assert (Ha : api_of c <> None) by (intros E; unfold perm_guarded, has, src_guards in Hg; rewrite E in Hg; discriminate Hg).
    rewrite <- (pub_table_from_source c Ha) in Hg. destruct (pub_call c) as [m'|] eqn:Ep; [|discriminate Hg].
    assert (m' = m) by (destruct c; cbn in Ep, Hh; try discriminate Ep; congruence). subst m'.
    eapply deny_pub_refused; eauto.
  Qed.
  Theorem deny_sub_refused_per_source cur w c m mr : perm_guarded DSub c = true -> call_handle c = Some m ->
    get_mod w m = Some mr -> m_denysub mr = true -> refused w (exec cur w c).
  Proof.
    intros Hg Hh Hm Hd.
    assert (Ha : api_of c <> None) by (intros E; unfold perm_guarded, has, src_guards in Hg; rewrite E in Hg; discriminate Hg).
    rewrite <- (sub_table_from_source c Ha) in Hg. destruct (sub_call c) as [m'|] eqn:Ep; [|discriminate Hg].
    assert (m' = m) by (destruct c; cbn in Ep, Hh; try discriminate Ep; congruence). subst m'.
    eapply deny_sub_refused; eauto.
  Qed.
End PerSource.

(* in every API function the token is taken after every parameter / handle / state / permission / priority check:
   a call refused for one of those reasons costs nothing.  Only M_RET_ASSERT checks (stash of a high-priority event) follow it. *)
Fixpoint tok_last (gs : list guard) : bool :=
  match gs with
  | [] => true
  | GTOK :: r => forallb (fun g => match g with GRET _ => true | _ => false end) r
  | _ :: r => tok_last r
  end.
Theorem token_is_consumed_last : forallb (fun row => tok_last (flat_map expand (snd row))) api_guards = true.
Proof. vm_compute. reflexivity. Qed.

(* the parameter conditions the model's checks were transliterated from, as the source writes them today: a changed
   condition (`rate < BILLION`, `len >= 0`, a dropped same-context test ...) changes this table *)
Definition params_of (n : string) : list string :=
  match lookup n api_guards with
  | Some l => flat_map (fun g => match g with GP c => [c] | _ => [] end) (flat_map expand l)
  | None => []
  end.
Theorem parameter_checks_as_modelled :
  params_of "m_mod_set_tokenbucket" = ["rate <= BILLION"] /\
  params_of "m_mod_unstash" = ["len > 0"] /\
  params_of "m_mod_stash" = ["evt"] /\
  params_of "m_mod_ps_tell" = ["recipient"; "mod->ctx == recipient->ctx"] /\
  params_of "m_mod_ps_poisonpill" = ["recipient"; "mod->ctx == recipient->ctx"; "m_mod_is(recipient, M_MOD_RUNNING)"] /\
  params_of "m_mod_src_register_fd" = ["fd >= 0"; "prio_flags == 0 || prio_flags == M_SRC_PRIO_HIGH"] /\
  params_of "m_mod_src_register_tmr" = ["its && its->ns > 0"] /\
  params_of "m_mod_src_register_sgn" = ["sgs && sgs->signo > 0"] /\
  params_of "m_mod_src_register_pid" = ["pid && pid->pid > 0"] /\
  params_of "m_mod_src_register_task" = ["tid && tid->fn"] /\
  params_of "m_ctx_deregister" = ["c->state == M_CTX_IDLE"] /\
  params_of "m_ctx_dispatch" = ["c->state != M_CTX_ZOMBIE"] /\
  params_of "m_ctx_stats" = ["c->state == M_CTX_LOOPING"; "stats"] /\
  params_of "m_mod_deregister" = ["mod"].
Proof. vm_compute. repeat split. Qed.

(* the calls the source marks: every state change, become / unbecome, stash / unstash, batch size, subscribe / unsubscribe,
   tell / publish / broadcast / poison pill, and every source registration and deregistration *)
Example token_guarded_calls :
  map tok_guarded [CStart 0; CPause 0; CResume 0; CStop 0; CBecome 0 1; CUnbecome 0; CStash 0 0; CUnstash 0 1; CBatchSize 0 1;
                   CSub 0 1 0 false 0; CUnsub 0 1; CTell 0 1 1 false; CPublish 0 1 1 false; CBroadcast 0 1 false; CPill 0 1;
                   CSrcReg 0 KTmr 1 0 false false 0; CSrcDereg 0 KTmr 1; CSrcReg 0 KFd 1 0 false false 0]
    = repeat true 18 /\
  map tok_guarded [CTokenBucket 0 1 1; CBatchTimeout 0 1; CState 0; CSrcLen 0 0; CDereg 0; CReg 0; CSrcDereg 0 KTask 1] = repeat false 7.
Proof. vm_compute. split; reflexivity. Qed.

Print Assumptions out_of_tokens_refused.
Print Assumptions wrong_state_refused_per_source.
Print Assumptions no_ctx_refused_per_source.
Print Assumptions deny_pub_refused_per_source.
