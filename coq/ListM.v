(* ListM.v -- executable model of Lib/structs/list.c: a singly linked chain
   plus the REDUNDANT length that bounds every search loop, an optional user
   comparator, and the iterator's `diff` bookkeeping. *)
From LM Require Import Base.

Record mlist := mkL {
  l_items : list N;
  l_len   : nat;             (* l->len *)
  l_dtor  : bool;
  l_freed : bool
}.

(* li_pos: index of the link cell `elem` points to; li_diff: inserts minus
   removes done through the iterator since the last next() *)
Record litr := mkLI { li_pos : nat; li_diff : Z }.
Record lstate := mkLS { ls_l : mlist; ls_itr : option litr }.

Inductive lop :=
| LInsert (v : N) | LRemove (v : N) | LFind (v : N) | LClear | LLen | LFree
| LIterate (k : nat) (rc : Z)
| LItrNew | LItrNext | LItrGet | LItrSet (v : N) | LItrRm | LItrInsert (v : N).

Definition l_init (dtor : bool) : lstate := mkLS (mkL [] 0 dtor false) None.
Definition l_upd (l : mlist) items len := mkL items len (l_dtor l) (l_freed l).

(* index of the first element satisfying p, or the length *)
Fixpoint find_idx (p : N -> bool) (l : list N) : nat :=
  match l with
  | [] => 0
  | x :: r => if p x then 0 else S (find_idx p r)
  end.

Fixpoint l_iterate (items : list N) (n k : nat) (rc : Z) : list ev :=
  match items with
  | [] => [ERet 0]
  | x :: r =>
      if Nat.eqb (S n) k then
        EVisit x :: (if (rc <? 0)%Z then [ERet rc] else if (0 <? rc)%Z then [ERet 0]
                     else l_iterate r (S n) k rc)
      else EVisit x :: l_iterate r (S n) k rc
  end.

Section WithCmp.
  (* the user comparator, seen as "comp(data, elem) == 0"; None = no comparator.
     Nothing is assumed about it. *)
  Variable ceq : option (N -> N -> bool).

  Definition cmp_hit (v e : N) : bool :=
    match ceq with Some c => c v e | None => false end.
  Definition l_match (v e : N) : bool := cmp_hit v e || N.eqb e v.

  Definition l_step (st : lstate) (o : lop) : lstate * list ev :=
    let l := ls_l st in
    if l_freed l then
      match o with
      | LFind _ | LItrGet | LItrNew => (st, [EPtr 0])
      | _ => (st, [ERet (- cEINVAL)])
      end
    else
    match o with
    | LInsert v =>
        if N.eqb v 0 then (mkLS l None, [ERet (- cEINVAL)]) else
        let idx := match ceq with
                   | None => 0
                   | Some c => find_idx (c v) (firstn (l_len l) (l_items l))
                   end in
        (mkLS (l_upd l (insert_nth idx v (l_items l)) (S (l_len l))) None, [ERet 0])
    | LRemove v =>
        if Nat.eqb (l_len l) 0 || N.eqb v 0 then (mkLS l None, [ERet (- cEINVAL)]) else
        let idx := find_idx (l_match v) (firstn (l_len l) (l_items l)) in
        match nth_error (l_items l) idx with
        | None => (mkLS l None, [ERet (- cENOENT)])
        | Some x => (mkLS (l_upd l (remove_nth idx (l_items l)) (l_len l - 1)) None,
                     dtor_evs (l_dtor l) [x] ++ [ERet 0])
        end
    | LFind v =>
        if N.eqb v 0 then (st, [EPtr 0]) else
        let idx := find_idx (l_match v) (firstn (l_len l) (l_items l)) in
        (st, [EPtr (if Nat.ltb idx (l_len l) then nth idx (l_items l) 0%N else 0%N)])
    | LClear => (mkLS (l_upd l [] (l_len l - length (l_items l))) None,
                 dtor_evs (l_dtor l) (l_items l) ++ [ERet 0])
    | LLen => (st, [ERet (Z.of_nat (l_len l))])
    | LFree => (mkLS (mkL [] (l_len l - length (l_items l)) (l_dtor l) true) None,
                dtor_evs (l_dtor l) (l_items l) ++ [ERet 0])
    | LIterate k rc =>
        if Nat.eqb (l_len l) 0 then (st, [ERet (- cEINVAL)])
        else (st, l_iterate (l_items l) 0 k rc)
    | LItrNew =>
        if Nat.eqb (l_len l) 0 then (mkLS l None, [EPtr 0])
        else (mkLS l (Some (mkLI 0 0%Z)), [EPtr 1])
    | LItrNext =>
        match ls_itr st with
        | None => (st, [ERet (- cEINVAL)])
        | Some i =>
            let n := length (l_items l) in
            let pos := if Nat.ltb (li_pos i) n
                       then Nat.min n (li_pos i + Z.to_nat (li_diff i + 1))
                       else li_pos i in
            let diff := if Nat.ltb (li_pos i) n then 0%Z else li_diff i in
            if Nat.ltb pos n then (mkLS l (Some (mkLI pos diff)), [ERet 0])
            else (mkLS l None, [ERet 0])
        end
    | LItrGet =>
        match ls_itr st with
        | None => (st, [EPtr 0])
        | Some i => (st, [EPtr (nth (li_pos i) (l_items l) 0%N)])
        end
    | LItrSet v =>
        match ls_itr st with
        | None => (st, [ERet (- cEINVAL)])
        | Some i => if N.eqb v 0 || negb (Nat.ltb (li_pos i) (length (l_items l)))
                    then (st, [ERet (- cEINVAL)])
                    else (mkLS (l_upd l (set_nth (li_pos i) v (l_items l)) (l_len l)) (Some i), [ERet 0])
        end
    | LItrInsert v =>
        match ls_itr st with
        | None => (st, [ERet (- cEINVAL)])
        | Some i => if N.eqb v 0 then (st, [ERet (- cEINVAL)]) else
                    (mkLS (l_upd l (insert_nth (li_pos i) v (l_items l)) (S (l_len l)))
                          (Some (mkLI (li_pos i) (li_diff i + 1))), [ERet 0])
        end
    | LItrRm =>
        match ls_itr st with
        | None => (st, [ERet (- cEINVAL)])
        | Some i =>
            match nth_error (l_items l) (li_pos i) with
            | None => (st, [ERet (- cEINVAL)])
            | Some x =>
                (mkLS (l_upd l (remove_nth (li_pos i) (l_items l)) (l_len l - 1))
                      (Some (mkLI (li_pos i) (li_diff i - 1))),
                 dtor_evs (l_dtor l) [x] ++ [ERet 0])
            end
        end
    end.
End WithCmp.

(* comparator family used by the drivers: k = 0 no comparator; 0 < k < 100 "equal modulo k" (reflexive);
   k >= 100 a key-style, NON-reflexive comparator "key + 1 equals the element modulo k - 100", under which a stored
   pointer does not compare equal to itself, so that the "or the pointer" half of the match is exercised alone *)
Definition ceq_of (k : N) : option (N -> N -> bool) :=
  if N.eqb k 0 then None
  else if N.ltb k 100 then Some (fun a b => N.eqb (a mod k) (b mod k))
  else Some (fun a b => N.eqb ((a + 1) mod (k - 100)) (b mod (k - 100))).

Definition l_run (k : N) (dtor : bool) (ops : list lop) : list (list ev) :=
  snd (run (l_step (ceq_of k)) (l_init dtor) ops).
