(* CoreLocal3.v -- one-step theorems: source registry (C09), pipes and copies
   (C02/C08), notifications (C19), the ref-counted heap and descriptors (C04/C20). *)
From LM Require Import Base CoreTypes CoreModel CoreExec CoreLocal.

Section Local3.
  Variable sc : script.
  Variable run_cb : world -> modid -> cbkind -> nat -> list evtrec -> world * bool.

  (* ================= C09: the per-module registry is a keyed set ================= *)

  Theorem register_present_eexist w m k key p one ac itn up w1 mr i :
    mod_assert w m = None -> p < 4 -> consume_token w m = Some w1 -> get_mod w1 m = Some mr -> find_src w1 mr k key = Some i ->
    register_mod_src w m k key p one ac itn up = (w1, rEEXIST).
  Proof. intros Ha Hp Ht Hm Hf. unfold register_mod_src. rewrite Ha.
         destruct (Nat.leb_spec 4 p); [lia|]. rewrite Ht, Hm, Hf. reflexivity. Qed.

  Theorem register_absent_adds w m k key p one ac itn up w1 mr :
    mod_assert w m = None -> p < 4 -> consume_token w m = Some w1 -> get_mod w1 m = Some mr -> find_src w1 mr k key = None ->
    exists fl w2 i,
      new_src w1 (Some m) k key fl up = (w2, i) /\ i = length (w_srcs w1) /\
      f_internal fl = itn /\ f_autoclose fl = ac /\
      register_mod_src w m k key p one ac itn up =
      ((if mstate_eqb (m_state mr) MRunning then poll_add (upd_mod w2 m (mod_with_srcs (insert_sorted w2 i (m_srcs mr)))) i
        else upd_mod w2 m (mod_with_srcs (insert_sorted w2 i (m_srcs mr)))), 0%Z).
  Proof.
    intros Ha Hp Ht Hm Hf. unfold register_mod_src. rewrite Ha.
    destruct (Nat.leb_spec 4 p); [lia|]. rewrite Ht, Hm, Hf.
    match goal with |- context [new_src w1 (Some m) k key ?fl up] => exists fl end.
    destruct (new_src w1 (Some m) k key _ up) as [w2 i] eqn:En.
    exists w2, i. split; [reflexivity|]. split; [unfold new_src in En; destruct (halloc _ _ _ _); inversion En; reflexivity|].
    split; [reflexivity|]. split; [reflexivity|]. destruct (mstate_eqb (m_state mr) MRunning); reflexivity.
  Qed.

  Theorem register_bad_prio_refused w m k key p one ac itn up :
    mod_assert w m = None -> 4 <= p -> register_mod_src w m k key p one ac itn up = (w, rEINVAL).
  Proof. intros Ha Hp. unfold register_mod_src. rewrite Ha. destruct (Nat.leb_spec 4 p); [reflexivity|lia]. Qed.

  Theorem deregister_present_removes w m k key w1 mr i :
    mod_assert w m = None -> consume_token w m = Some w1 -> get_mod w1 m = Some mr -> find_src w1 mr k key = Some i ->
    deregister_mod_src w m k key =
    (let w3 := remove_src_entry (poll_rm w1 i) m i in hunref_opt w3 (src_obj w3 (Some i)), 0%Z).
  Proof. intros Ha Ht Hm Hf. unfold deregister_mod_src. rewrite Ha, Ht, Hm, Hf. reflexivity. Qed.

  Theorem deregister_absent_noop w m k key w1 mr :
    mod_assert w m = None -> consume_token w m = Some w1 -> get_mod w1 m = Some mr -> find_src w1 mr k key = None ->
    exists e, (e < 0)%Z /\ deregister_mod_src w m k key = (w1, e).
  Proof. intros Ha Ht Hm Hf. unfold deregister_mod_src. rewrite Ha, Ht, Hm, Hf.
         destruct (srcs_of_kind w1 mr k); eexists; (split; [|reflexivity]); vm_compute; reflexivity. Qed.

  (* removing the entry removes exactly that source from the module's list *)
  Lemma nth_error_upd_nth {A} (l : list A) i f x : nth_error l i = Some x -> nth_error (upd_nth i f l) i = Some (f x).
  Proof. revert i; induction l as [|y l IH]; intros [|i] H; cbn in *; try discriminate; [inversion H; reflexivity|auto]. Qed.
  Lemma nth_error_upd_nth_other {A} (l : list A) i j f : i <> j -> nth_error (upd_nth i f l) j = nth_error l j.
  Proof. revert i j; induction l as [|y l IH]; intros [|i] [|j] H; cbn; try reflexivity; try congruence. apply IH; congruence. Qed.

  Theorem remove_src_entry_exact w m mr i : get_mod w m = Some mr ->
    exists mr', get_mod (remove_src_entry w m i) m = Some mr' /\
                m_srcs mr' = filter (fun j => negb (Nat.eqb j i)) (m_srcs mr) /\ m_state mr' = m_state mr /\
                (forall m', m' <> m -> get_mod (remove_src_entry w m i) m' = get_mod w m').
  Proof.
    intros Hm. unfold remove_src_entry. rewrite Hm. unfold get_mod, upd_mod in *. cbn [w_mods set_mods].
    rewrite (nth_error_upd_nth _ _ _ _ Hm). eexists. split; [reflexivity|]. cbn. repeat split.
    intros m' Hne. apply nth_error_upd_nth_other. congruence.
  Qed.

  (* task sources cannot be deregistered *)
  Theorem task_dereg_eperm cur w m key : exists t a, exec sc run_cb cur w (CSrcDereg m KTask key) = ret (emit w (TMark t a)) rEPERM.
  Proof. unfold exec, exec_own, exec_call. cbn [call_handle]. eauto. Qed.

  (* ================= C02 / C08: copies and pipes ================= *)

  (* a module that is neither RUNNING nor PAUSED gets nothing *)
  Theorem tell_copy_ineligible w r send sys sender topic data sub pill dref rr :
    get_mod w r = Some rr -> state_in (m_state rr) [MRunning; MPaused] = false ->
    tell_copy sc w r send sys sender topic data sub pill dref = w.
  Proof. intros H Hs. unfold tell_copy. rewrite H, Hs. reflexivity. Qed.

  (* an eligible module with room gets exactly one copy, appended at the TAIL of its pipe, carrying what the sender supplied *)
  Theorem tell_copy_appends w r send sys sender topic data sub pill dref rr q :
    get_mod w r = Some rr -> state_in (m_state rr) [MRunning; MPaused] = true -> m_pipe rr = Some q -> length q < (ps_pipe_cap sc) ->
    exists w3 g, tell_copy sc w r send sys sender topic data sub pill dref = upd_mod w3 r (mod_with_pipe (Some (q ++ [g]))) /\
                 g_send g = send /\ g_system g = sys /\ g_sender g = sender /\ g_topic g = topic /\ g_data g = data /\
                 g_sub g = sub /\ g_pill g = pill.
  Proof.
    intros H Hs Hp Hl. unfold tell_copy. rewrite H, Hs.
    destruct (halloc _ OMsg _ 0) as [w2 o]. destruct (fresh w2) as [w3 gid]. rewrite Hp.
    destruct (Nat.ltb_spec (length q) (ps_pipe_cap sc)); [|lia].
    eexists. eexists. split; [reflexivity|]. cbn. repeat split.
  Qed.

  (* ... and with a full pipe the copy is dropped (released), the pipe is unchanged *)
  Theorem tell_copy_full_drops w r send sys sender topic data sub pill dref rr q :
    get_mod w r = Some rr -> state_in (m_state rr) [MRunning; MPaused] = true -> m_pipe rr = Some q -> (ps_pipe_cap sc) <= length q ->
    exists w3 o, tell_copy sc w r send sys sender topic data sub pill dref = hunref w3 o.
  Proof.
    intros H Hs Hp Hl. unfold tell_copy. rewrite H, Hs.
    destruct (halloc _ OMsg _ 0) as [w2 o]. destruct (fresh w2) as [w3 gid]. rewrite Hp.
    destruct (Nat.ltb_spec (length q) (ps_pipe_cap sc)); [lia|]. eauto.
  Qed.

  (* the pipe holds at least 8192 messages *)
  Theorem pipe_capacity : (8192 <= cPIPE_CAP_MSGS)%N /\ (sc_pipecap sc = 0 -> (ps_pipe_cap sc) = N.to_nat cPIPE_CAP_MSGS).
  Proof. split; [vm_compute; discriminate|intros H; unfold ps_pipe_cap; rewrite H; reflexivity]. Qed.

  (* a direct tell reaches the addressed module only *)
  Theorem deliver_direct w r sys sender topic data pill dref :
    deliver sc w (Some r) sys sender topic data pill dref =
    tell_copy sc (fst (fresh w)) r (snd (fresh w)) sys sender topic data None pill dref.
  Proof. unfold deliver. destruct (fresh w). reflexivity. Qed.

  (* a topic-less broadcast walks the whole table: one tell_copy per module of the table, in table order *)
  Theorem deliver_broadcast w sys sender data pill dref :
    deliver sc w None sys sender None data pill dref =
    fold_left (fun w r => tell_copy sc w r (snd (fresh w)) sys sender None data None pill dref) [] (fst (fresh w)) \/
    deliver sc w None sys sender None data pill dref =
    fold_left (fun w' r => tell_copy sc w' r (snd (fresh w)) sys sender None data None pill dref) (table_mods (fst (fresh w))) (fst (fresh w)).
  Proof. right. unfold deliver. destruct (fresh w). reflexivity. Qed.

  (* ================= C04 / C20: the ref-counted heap ================= *)

  (* a reference on a live object only increments its count *)
  Theorem href_live w o ob : nth_error (w_heap w) o = Some ob -> o_refs ob <> 0 ->
    href w o = set_heap w (upd_nth o (fun ob => mkObj (o_kind ob) (S (o_refs ob)) (o_links ob) (o_tag ob)) (w_heap w)).
  Proof. intros H Hr. unfold href. rewrite H. destruct (Nat.eqb_spec (o_refs ob) 0); [contradiction|reflexivity]. Qed.

  (* using a freed object is flagged: the model never silently reads freed memory *)
  Theorem href_dead_faults w o ob : nth_error (w_heap w) o = Some ob -> o_refs ob = 0 -> href w o = emit w (TFault 1).
  Proof. intros H Hr. unfold href. rewrite H, Hr. reflexivity. Qed.

  (* dropping a reference that is not the last one only decrements *)
  Theorem hunref_not_last w o ob n : nth_error (w_heap w) o = Some ob -> o_refs ob = S (S n) ->
    hunref w o = set_heap w (upd_nth o (fun ob => mkObj (o_kind ob) (S n) (o_links ob) (o_tag ob)) (w_heap w)).
  Proof. intros H Hr. unfold hunref. replace (2 * length (w_heap w) + 16) with (S (2 * length (w_heap w) + 15)) by lia. cbn [hunref_loop]. rewrite H, Hr.
         replace (2 * length (w_heap w) + 15) with (S (2 * length (w_heap w) + 14)) by lia. reflexivity. Qed.

  (* dropping the last one: the destructor effect runs once, on the still present object, then its links are dropped *)
  Theorem hunref_last w o ob : nth_error (w_heap w) o = Some ob -> o_refs ob = 1 ->
    hunref w o =
    hunref_loop (2 * length (w_heap w) + 15)
                (dtor_effect (set_heap w (upd_nth o (fun ob => mkObj (o_kind ob) 0 (o_links ob) (o_tag ob)) (w_heap w))) ob)
                (o_links ob ++ []).
  Proof. intros H Hr. unfold hunref. replace (2 * length (w_heap w) + 16) with (S (2 * length (w_heap w) + 15)) by lia. cbn [hunref_loop]. rewrite H, Hr. reflexivity. Qed.

  (* a double release is flagged *)
  Theorem hunref_dead_faults w o ob : nth_error (w_heap w) o = Some ob -> o_refs ob = 0 ->
    hunref w o = emit w (TFault 4).
  Proof. intros H Hr. unfold hunref. replace (2 * length (w_heap w) + 16) with (S (2 * length (w_heap w) + 15)) by lia. cbn [hunref_loop]. rewrite H, Hr.
         replace (2 * length (w_heap w) + 15) with (S (2 * length (w_heap w) + 14)) by lia. reflexivity. Qed.

  (* descriptors: what the destructor of each kind of object closes *)
  Theorem dtor_ctx_closes_poll_handle w ob : o_kind ob = OCtx -> dtor_effect w ob = set_fds w (w_fds w - 1).
  Proof. intros H. unfold dtor_effect. rewrite H. reflexivity. Qed.

  (* a user descriptor is closed by the library exactly when it was registered with auto-close (and never a foreign one) *)
  Theorem dtor_src_user_fd w ob s :
    o_kind ob = OSrc -> nth_error (w_srcs w) (N.to_nat (o_tag ob)) = Some s -> s_kind s = KFd -> s_armed s = false ->
    f_dup (s_fl s) = false -> f_autofree (s_fl s) = false ->
    dtor_effect w ob = if f_autoclose (s_fl s) then emit w (TClose (s_key s)) else w.
  Proof. intros Hk Hs Hf Ha Hd Hfr. unfold dtor_effect. rewrite Hk, Hs, Ha, Hf, Hd, Hfr. destruct (f_autoclose (s_fl s)); reflexivity. Qed.

  (* internal descriptors (timer, signal, ...) are closed when polling stops, whatever leads there *)
  Theorem poll_rm_closes_internal w i s : get_src w i = Some s -> s_armed s = true -> opens_fd (s_kind s) = true ->
    w_fds (poll_rm w i) = w_fds w - 1 /\ (exists s', get_src (poll_rm w i) i = Some s' /\ s_armed s' = false).
  Proof.
    intros H Ha Ho. unfold poll_rm. rewrite H, Ha, Ho.
    destruct (skind_eqb (s_kind s) KTask && Nat.eqb (s_pending s) 0); (split; [reflexivity|]);
      unfold get_src, upd_src, emit in *; cbn [w_srcs set_srcs set_fds];
      rewrite (nth_error_upd_nth _ _ _ _ H); eexists; (split; [reflexivity|]); reflexivity.
  Qed.
  Theorem poll_rm_idempotent w i s : get_src w i = Some s -> s_armed s = false -> poll_rm w i = w.
  Proof. intros H Ha. unfold poll_rm. rewrite H, Ha. reflexivity. Qed.
  Theorem poll_add_opens_internal w i s : get_src w i = Some s -> opens_fd (s_kind s) = true ->
    w_fds (poll_add w i) = S (w_fds w).
  Proof. intros H Ho. unfold poll_add. rewrite H, Ho. reflexivity. Qed.
End Local3.
