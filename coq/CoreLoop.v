(* CoreLoop.v -- C03: why the blocking loop returns; C08: the message pipe is consumed from its head. *)
From LM Require Import Base CoreTypes CoreModel CoreExec CoreLocal4 CoreInv.
From Coq Require Import Lia.

Section Loop.
  Variable sc : script.
  Variable run_cb : world -> modid -> cbkind -> nat -> list evtrec -> world * bool.

  (* the loop hands control back only when a quit was requested, when no module is RUNNING any more, or when the context is gone;
     the two other exits are artefacts of the model (it ran out of fuel / the real loop would block for ever: FAULT 3 / 9) *)
  Definition stop_reason (w : world) : Prop :=
    match w_tls w with
    | Some c => c_quit c = true \/ c_running c = 0
    | None => True
    end.

  Theorem loop_returns_for_a_reason : forall fuel w env,
    let w' := loop_iter sc run_cb fuel (exec_env) w env in
    stop_reason w' \/ exists w1, w' = emit w1 (TFault 3) \/ w' = emit w1 (TFault 9).
  Proof.
    induction fuel as [|f IH]; intros w env; cbn [loop_iter]; [right; eauto|].
    destruct (w_tls w) as [c|] eqn:Et; [|left; unfold stop_reason; rewrite Et; exact I].
    destruct (c_quit c || Nat.eqb (c_running c) 0) eqn:Eq.
    - left. unfold stop_reason. rewrite Et. apply Bool.orb_true_iff in Eq. destruct Eq as [Hq|Hr]; [left; exact Hq|right; apply Nat.eqb_eq, Hr].
    - destruct (ready_set w); [destruct env as [|a rest]; [right; eauto|apply IH]|apply IH].
  Qed.

  (* reception takes the OLDEST message of the module's pipe: the head leaves the pipe and becomes the event *)
  Theorem process_one_takes_pipe_head w i s m mr g q :
    get_src w i = Some s -> s_armed s = true -> s_mod s = Some m -> s_kind s = KPs ->
    get_mod w m = Some mr -> m_pipe mr = Some (g :: q) -> g_pill g = false -> g_sub g = None ->
    exists w2 e, process_one sc run_cb w i = (push_evt run_cb w2 m e, 1) /\ e_pay e = EPs g /\
                 (exists mr2, get_mod w2 m = Some mr2 /\ m_pipe mr2 = Some q /\ m_batch mr2 = m_batch mr).
  Proof.
    intros Hs Ha Hm Hk Hg Hp Hpill Hsub. unfold process_one. rewrite Hs, Ha, Hm, Hg. cbn [negb]. lazy zeta. rewrite Hk, Hp, Hsub, Hpill.
    match goal with |- context [make_evt ?a ?b ?c ?d ?e] => destruct (make_evt a b c d e) as [w3 e3] eqn:Em end.
    exists w3, e3. split; [reflexivity|].
    unfold make_evt, halloc, fresh in Em. cbv beta iota zeta in Em. injection Em as <- <-. cbn [e_pay]. split; [reflexivity|].
    unfold get_mod, href_opt, src_obj, upd_mod, upd_src, set_mods, set_srcs, set_errno, set_heap; cbn [w_mods fst].
    unfold get_mod in Hg. rewrite (nth_upd_same _ _ _ _ Hg). eexists. split; [reflexivity|]. split; reflexivity.
  Qed.

  (* ---------- C01: the evaluation step ---------- *)
  (* a module without evaluation callback: the hook step answers 0 and leaves every module record as it is *)
  Lemma optional_hook_absent w m mr : get_mod w m = Some mr -> h_eval (m_hooks mr) = false ->
    snd (optional_hook run_cb w m CbEval) = (if mstate_eqb (m_state mr) MZombie then rENOENT else 0%Z) /\
    w_mods (fst (optional_hook run_cb w m CbEval)) = w_mods w.
  Proof.
    intros Hm Hh. unfold optional_hook. rewrite Hm, Hh. cbn [fst snd].
    assert (E : forall x, get_mod (upd_ctx (upd_ctx (lock_mod w m) (ctx_with_curr (Some m))) (ctx_with_curr None)) x = get_mod w x).
    { intros x. unfold get_mod, upd_ctx, lock_mod. destruct (w_tls (href_opt w (option_map m_obj (get_mod w m)))) eqn:Et; cbn [w_tls set_tls w_mods];
        rewrite ?Et; cbn [w_tls set_tls w_mods]; rewrite mods_href_opt; reflexivity. }
    rewrite E, Hm. split; [reflexivity|].
    unfold unlock_mod. rewrite mods_hunref_opt. unfold upd_ctx, lock_mod.
    destruct (w_tls (href_opt w (option_map m_obj (get_mod w m)))) eqn:Et; cbn [w_tls set_tls w_mods]; rewrite ?Et; cbn [w_tls set_tls w_mods]; rewrite mods_href_opt; reflexivity.
  Qed.

  (* an IDLE module whose evaluation callback is absent is started by the evaluation step, whatever the other modules do *)
  Theorem evaluate_idle_without_hook_starts w m mr :
    get_mod w m = Some mr -> m_state mr = MIdle -> h_eval (m_hooks mr) = false ->
    evaluate_module sc run_cb w m = fst (start_mod sc run_cb (fst (optional_hook run_cb w m CbEval)) m true).
  Proof.
    intros Hm Hs Hh. destruct (optional_hook_absent w m mr Hm Hh) as [Hr Hmods].
    unfold evaluate_module. rewrite Hm, Hs. cbn [mstate_eqb].
    destruct (optional_hook run_cb w m CbEval) as [w1 r] eqn:Eo. cbn [fst snd] in *. rewrite Hs in Hr. cbn [mstate_eqb] in Hr. subst r.
    cbn [Z.eqb andb]. unfold get_mod in *. rewrite Hmods, Hm, Hs. reflexivity.
  Qed.

  (* ... and one whose callback answers true and leaves it IDLE is started too; a refusal (or a state change made by the
     callback itself) is the only way not to be *)
  Theorem evaluate_idle_cases w m mr :
    get_mod w m = Some mr -> m_state mr = MIdle ->
    let w1 := fst (optional_hook run_cb w m CbEval) in
    let r := snd (optional_hook run_cb w m CbEval) in
    evaluate_module sc run_cb w m =
      if (r =? 0)%Z && match get_mod w1 m with Some mr1 => mstate_eqb (m_state mr1) MIdle | None => false end
      then fst (start_mod sc run_cb w1 m true) else w1.
  Proof.
    intros Hm Hs. cbn zeta. unfold evaluate_module. rewrite Hm, Hs. cbn [mstate_eqb].
    destruct (optional_hook run_cb w m CbEval) as [w1 r]. reflexivity.
  Qed.

  (* ---------- C07: deregistering an idle context releases it: the thread has no context afterwards ---------- *)
  Lemma tls_dtor w ob : w_tls (dtor_effect w ob) = w_tls w.
  Proof.
    unfold dtor_effect. destruct (o_kind ob); try reflexivity.
    destruct (nth_error (w_srcs w) (N.to_nat (o_tag ob))) as [s|]; [|reflexivity].
    destruct (s_armed s), (f_autoclose (s_fl s)), (s_kind s), (f_dup (s_fl s)), (f_autofree (s_fl s)); reflexivity.
  Qed.
  Lemma tls_hunref_loop : forall fuel w work, w_tls (hunref_loop fuel w work) = w_tls w.
  Proof.
    induction fuel as [|f IH]; intros w work; cbn [hunref_loop]; [reflexivity|].
    destruct work as [|o rest]; [reflexivity|]. destruct (nth_error (w_heap w) o) as [ob|]; [|rewrite IH; reflexivity].
    destruct (o_refs ob) as [|[|n]]; rewrite IH; try reflexivity. rewrite tls_dtor. reflexivity.
  Qed.
  Lemma release_tail (w2 : world) :
    w_tls (fst (match w_tls w2 with Some c2 => (hunref (set_tls w2 None) (c_obj c2), 0%Z) | None => (w2, 0%Z) end)) = None /\
    snd (match w_tls w2 with Some c2 => (hunref (set_tls w2 None) (c_obj c2), 0%Z) | None => (w2, 0%Z) end) = 0%Z.
  Proof.
    destruct (w_tls w2) as [c2|] eqn:Et; cbn [fst snd]; [|split; [exact Et|reflexivity]].
    split; [|reflexivity]. unfold hunref. rewrite tls_hunref_loop. reflexivity.
  Qed.
  Theorem ctx_deregister_releases w c f : the_ctx w = Some c -> c_state c = CIdle ->
    w_tls (fst (ctx_deregister w f)) = None /\ snd (ctx_deregister w f) = 0%Z.
  Proof. intros Hc Hs. unfold ctx_deregister. rewrite Hc, Hs. lazy zeta. apply release_tail. Qed.

  (* ---------- C01: the running counter moves with the state, by exactly one ---------- *)
  Lemma tls_hunref w o : w_tls (hunref w o) = w_tls w. Proof. apply tls_hunref_loop. Qed.
  Lemma tls_href_opt w o : w_tls (href_opt w o) = w_tls w.
  Proof. destruct o; [|reflexivity]. unfold href_opt, href. destruct (nth_error (w_heap w) o); [destruct (Nat.eqb _ 0)|]; reflexivity. Qed.
  Lemma tls_tell_copy w r send sys sender topic data sub pill dref : w_tls (tell_copy sc w r send sys sender topic data sub pill dref) = w_tls w.
  Proof.
    unfold tell_copy. destruct (get_mod w r) as [rr|]; [|reflexivity]. destruct (state_in _ _); [|reflexivity].
    match goal with |- context [halloc ?a ?b ?c ?d] => destruct (halloc a b c d) as [w2 o] eqn:E2 end.
    assert (T2 : w_tls w2 = w_tls w) by (unfold halloc in E2; injection E2 as <- _; cbn [w_tls set_heap]; rewrite !tls_href_opt; reflexivity).
    destruct (fresh w2) as [w3 gid] eqn:E3. assert (T3 : w_tls w3 = w_tls w) by (unfold fresh in E3; injection E3 as <- _; cbn; exact T2).
    destruct (m_pipe rr); [destruct (Nat.ltb _ _)|]; rewrite ?tls_hunref; exact T3.
  Qed.
  Lemma tls_fold {A} (f : world -> A -> world) l : (forall w a, w_tls (f w a) = w_tls w) -> forall w, w_tls (fold_left f l w) = w_tls w.
  Proof. intros Hf. induction l as [|a l IH]; intros w; cbn [fold_left]; [reflexivity|]. rewrite IH, Hf. reflexivity. Qed.
  Lemma tls_deliver w rcp sys sender topic data pill dref : w_tls (deliver sc w rcp sys sender topic data pill dref) = w_tls w.
  Proof.
    unfold deliver. destruct (fresh w) as [w0 send] eqn:Ef. assert (T0 : w_tls w0 = w_tls w) by (unfold fresh in Ef; injection Ef as <- _; reflexivity).
    destruct rcp as [r|]; [rewrite tls_tell_copy; exact T0|]. destruct topic as [t|].
    - rewrite tls_fold; [exact T0|]. intros w1 r. destruct (get_mod w1 r) as [rr|]; [|reflexivity]. destruct (state_in _ _); [|reflexivity].
      destruct (fetch_sub sc w1 rr t); [apply tls_tell_copy|reflexivity].
    - rewrite tls_fold; [exact T0|]. intros w1 r. apply tls_tell_copy.
  Qed.
  Lemma tls_tell_system w rcp sender topic pill : w_tls (tell_system sc w rcp sender topic pill) = w_tls w.
  Proof. unfold tell_system. rewrite tls_deliver. destruct sender as [s|]; [destruct (get_mod w s)|]; reflexivity. Qed.
  Lemma tls_poll_rm w i : w_tls (poll_rm w i) = w_tls w.
  Proof. unfold poll_rm. destruct (get_src w i) as [sr|]; [|reflexivity]. destruct (s_armed sr); [|reflexivity]. destruct (_ && _), (opens_fd (s_kind sr)); reflexivity. Qed.
  Lemma tls_poll_add w i : w_tls (poll_add w i) = w_tls w.
  Proof. unfold poll_add. destruct (get_src w i) as [sr|]; [|reflexivity]. destruct (opens_fd (s_kind sr)); reflexivity. Qed.

  (* pausing a RUNNING module takes exactly one off the counter; pausing anything else (refused earlier by the state guard) none *)
  Theorem pause_moves_running_count w m mr c :
    get_mod w m = Some mr -> w_tls w = Some c ->
    w_tls (fst (stop_mod sc run_cb w m false)) =
      Some (if mstate_eqb (m_state mr) MRunning then ctx_with_running (c_running c - 1) c else c).
  Proof.
    intros Hm Hc. rewrite (pause_notifies_once sc run_cb w m mr Hm). cbn [fst].
    rewrite tls_tell_system. unfold upd_mod, set_mods; cbn [w_tls].
    assert (Tf : w_tls (fold_left poll_rm (m_srcs mr) w) = Some c) by (rewrite tls_fold; [exact Hc|apply tls_poll_rm]).
    destruct (mstate_eqb (m_state mr) MRunning); [|exact Tf]. unfold upd_ctx. rewrite Tf. reflexivity.
  Qed.

  (* resuming puts exactly one back *)
  Theorem resume_moves_running_count w m mr c :
    get_mod w m = Some mr -> w_tls w = Some c ->
    w_tls (fst (start_mod sc run_cb w m false)) = Some (ctx_with_running (S (c_running c)) c).
  Proof.
    intros Hm Hc. unfold start_mod. rewrite Hm. cbv beta iota zeta. change (negb (0 =? 0)%Z) with false. cbv iota.
    change (0 =? 0)%Z with true. cbv iota. cbn [fst]. rewrite tls_tell_system. unfold upd_ctx.
    assert (Tf : w_tls (upd_mod (fold_left poll_add (m_srcs mr) w) m (mod_with_state MRunning)) = Some c).
    { unfold upd_mod, set_mods; cbn [w_tls]. rewrite tls_fold; [exact Hc|apply tls_poll_add]. }
    rewrite Tf. reflexivity.
  Qed.

  (* ---------- C08: a poison pill first hands over what was batched before it, then stops its recipient ---------- *)
  Theorem pill_delivers_batch_before_stopping w i s m mr g q :
    get_src w i = Some s -> s_armed s = true -> s_mod s = Some m -> s_kind s = KPs ->
    get_mod w m = Some mr -> m_pipe mr = Some (g :: q) -> g_pill g = true -> g_sub g = None ->
    exists w4 e,
      (exists mr4, get_mod w4 m = Some mr4 /\ m_pipe mr4 = Some q /\ m_batch mr4 = m_batch mr) /\        (* the pill has left the pipe, the batch is untouched *)
      let w5 := lock_mod w4 m in
      let w6 := match get_mod w5 m with
                | Some mr5 => call_pubsub_cb run_cb (upd_mod w5 m (mod_with_batch (m_batch_len mr5) (m_batch_tmr mr5) [])) m (m_batch mr5)
                | None => w5 end in                                                                         (* 1. everything batched so far is handed over *)
      let w7 := match get_mod w6 m with
                | Some mr6 => if mstate_eqb (m_state mr6) MRunning then fst (stop_mod sc run_cb w6 m true) else w6
                | None => w6 end in                                                                         (* 2. only then the module is stopped *)
      process_one sc run_cb w i = (hunref (unlock_mod w7 m) (e_obj e), 1).
  Proof.
    intros Hs Ha Hm Hk Hg Hp Hpill Hsub. unfold process_one. rewrite Hs, Ha, Hm, Hg. cbn [negb]. lazy zeta. rewrite Hk, Hp, Hsub, Hpill.
    match goal with |- context [make_evt ?a ?b ?c ?d ?e] => destruct (make_evt a b c d e) as [w3 e3] eqn:Em end.
    exists w3, e3. split; [|reflexivity].
    unfold make_evt, halloc, fresh in Em. cbv beta iota zeta in Em. injection Em as <- <-.
    unfold get_mod, href_opt, src_obj, upd_mod, upd_src, set_mods, set_srcs, set_errno, set_heap; cbn [w_mods fst].
    unfold get_mod in Hg. rewrite (nth_upd_same _ _ _ _ Hg). eexists. split; [reflexivity|]. split; reflexivity.
  Qed.

  (* ---------- C19: the loop announces its start and its stop exactly once each ---------- *)
  Theorem loop_start_notifies_once w :
    exists w2, fst (loop_start sc run_cb w) =
      (let w3 := tell_system sc w2 None None tCTX_STARTED false in
       match w_tls w3 with Some c => match c_tick c with Some t => poll_add w3 t | None => w3 end | None => w3 end).
  Proof. unfold loop_start. cbn [fst]. eexists. reflexivity. Qed.
End Loop.
Print Assumptions loop_returns_for_a_reason.
Print Assumptions process_one_takes_pipe_head.
Print Assumptions evaluate_idle_without_hook_starts.
Print Assumptions evaluate_idle_cases.
Print Assumptions ctx_deregister_releases.
Print Assumptions pause_moves_running_count.
Print Assumptions resume_moves_running_count.
Print Assumptions pill_delivers_batch_before_stopping.
Print Assumptions loop_start_notifies_once.
