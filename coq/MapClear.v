(* MapClear.v -- C05: m_map_clear (and the clearing part of m_map_free) leaves an EMPTY map: no entry, length 0, invariant kept.
   Key fact: the back-shift only ever writes into the hole it repairs or into a slot it has just emptied, so a slot that was
   empty (other than the removed one) stays empty; hence "every slot below the scan index is empty" is an invariant of the
   clearing loop, and every round removes one entry. *)
From LM Require Import Base SeqLemmas MapM MapProofs MapIter.
From Coq Require Import Lia Arith.

Section WithHash.
  Variable hash : N -> N.

  Lemma backshift_keeps_empty : forall fuel s hole i p, hole < length s -> i < length s -> p <> hole ->
    at_ s p = None -> at_ (backshift hash s hole i fuel) p = None.
  Proof.
    induction fuel as [|f IH]; intros s hole i p Hh Hi Hp Hn; cbn [backshift]; [exact Hn|].
    fold (at_ s i). destruct (at_ s i) as [[k v]|] eqn:Hat; [|exact Hn].
    assert (Hnx : nxt (length s) i < length s) by (rewrite nxt_is_pos by lia; apply pos_lt; lia).
    destruct (Nat.leb _ _).
    - assert (Hpi : p <> i) by (intros ->; congruence).
      assert (Hl : length (set_nth i None (set_nth hole (Some (k, v)) s)) = length s) by (rewrite !length_set_nth; reflexivity).
      apply IH.
      + rewrite !length_set_nth. exact Hi.
      + rewrite !length_set_nth. exact Hnx.
      + exact Hpi.
      + unfold at_. rewrite nth_set_nth_ne by (rewrite ?length_set_nth; auto). rewrite nth_set_nth_ne by auto. exact Hn.
    - apply IH; auto.
  Qed.

  Lemma clear_slot_keeps_empty s j p : j < length s -> p <> j -> at_ s p = None -> at_ (clear_slot hash s j) p = None.
  Proof.
    intros Hj Hp Hn. unfold clear_slot.
    assert (Hnx : nxt (length s) j < length s) by (rewrite nxt_is_pos by lia; apply pos_lt; lia).
    apply backshift_keeps_empty.
    - rewrite length_set_nth. exact Hj.
    - rewrite length_set_nth. exact Hnx.
    - exact Hp.
    - unfold at_. rewrite nth_set_nth_ne by auto. exact Hn.
  Qed.

  Definition empty_below (s : list slot) (i : nat) : Prop := forall p, p < i -> at_ s p = None.

  Lemma keys_nil_all_none s i : empty_below s i -> keys (skipn i s) = [] -> occ_count s = 0.
  Proof.
    revert i. induction s as [|a s IH]; intros i He Hk; [reflexivity|]. rewrite occ_count_cons. destruct i as [|i].
    - cbn [skipn] in Hk. destruct a as [[k v]|]; [discriminate|]. cbn [is_some]. cbn [keys] in Hk.
      rewrite (IH 0); [reflexivity|intros p Hp; lia|exact Hk].
    - pose proof (He 0 ltac:(lia)) as H0. cbn in H0. subst a. cbn [is_some]. cbn [skipn] in Hk.
      rewrite (IH i); [reflexivity| |exact Hk]. intros p Hp. exact (He (S p) ltac:(lia)).
  Qed.

  Lemma next_occ_first : forall fuel s i j, next_occ s i fuel = Some j -> forall q, i <= q < j -> nth q s None = None.
  Proof.
    induction fuel as [|f IHf]; intros s i j H q Hq; [discriminate|]. cbn [next_occ] in H.
    destruct (Nat.leb (length s) i); [discriminate|]. destruct (nth i s None) eqn:E0.
    - inversion H; subst. lia.
    - destruct (Nat.eq_dec q i) as [->|ne]; [exact E0|]. apply (IHf s (S i) j H). lia.
  Qed.

  Lemma clear_all_empties : forall fuel m i acc, MInv hash m -> empty_below (m_slots m) i -> occ_count (m_slots m) < fuel ->
    let m' := fst (clear_all hash m i fuel acc) in
    MInv hash m' /\ occ_count (m_slots m') = 0 /\ m_len m' = 0.
  Proof.
    induction fuel as [|f IH]; intros m i acc HM He Hf; [lia|]. cbn [clear_all].
    pose proof (next_occ_spec (S (length (m_slots m))) (m_slots m) i ltac:(lia)) as Hs.
    destruct (next_occ (m_slots m) i (S (length (m_slots m)))) as [j|] eqn:En.
    - destruct Hs as (Hj & k & v & Hn & E). rewrite Hn.
      destruct (remove_at_correct hash m j k v HM Hn) as (HM' & _ & Hlen'). cbn zeta in *.
      apply IH; [exact HM'| |].
      + (* slots below j stay empty: those below i were, those in [i, j) are skipped by next_occ *)
        intros p Hp. cbn [m_slots m_set]. apply clear_slot_keeps_empty; [lia|lia|].
        destruct (Nat.lt_ge_cases p i) as [Hlt|Hge]; [exact (He p Hlt)|].
        exact (next_occ_first _ _ _ _ En p ltac:(lia)).
      + cbn [m_slots m_set]. destruct HM as (_ & Hl & _). destruct HM' as (_ & Hl' & _). cbn [m_slots m_len m_set] in Hl'. lia.
    - cbn [fst]. split; [exact HM|]. pose proof (keys_nil_all_none (m_slots m) i He Hs) as H0. split; [exact H0|].
      destruct HM as (_ & Hl & _). lia.
  Qed.

  (* m_map_clear on a live map: afterwards no entry, length 0, invariant kept, iterator dropped *)
  Theorem clear_empties st : m_freed (ms_m st) = false -> MInv hash (ms_m st) ->
    let st' := fst (m_step hash st MClear) in
    MInv hash (ms_m st') /\ (forall k v, ~ Has (m_slots (ms_m st')) k v) /\ m_len (ms_m st') = 0 /\ ms_itr st' = None.
  Proof.
    intros Hfr HM. cbn zeta. unfold m_step. rewrite Hfr.
    destruct (Nat.eqb_spec (m_len (ms_m st)) 0) as [H0|H0]; cbn [fst ms_m ms_itr].
    - split; [exact HM|]. split; [|split; [exact H0|reflexivity]]. intros k v. apply occ_zero_no_has. destruct HM as (_ & Hl & _). lia.
    - pose proof (clear_all_empties (m_len (ms_m st) + length (m_slots (ms_m st))) (ms_m st) 0 [] HM ltac:(intros p Hp; lia)) as Hc.
      destruct HM as (Hinv & Hl & Hload). pose proof Hinv as (Hn & _ & _). specialize (Hc ltac:(lia)). cbn zeta in Hc.
      destruct (clear_all hash (ms_m st) 0 (m_len (ms_m st) + length (m_slots (ms_m st))) []) as [m1 e]. cbn [fst ms_m ms_itr] in *.
      destruct Hc as (C1 & C2 & C3). split; [exact C1|]. split; [|split; [exact C3|reflexivity]]. intros k v. apply occ_zero_no_has. exact C2.
  Qed.

  (* ---------- the destructor log of clear / free: every live entry is released exactly once, nothing else is ---------- *)
  (* the entries in the order clear_all releases them *)
  Fixpoint clear_seq (m : map) (i fuel : nat) : list (N * N) :=
    match fuel with
    | O => []
    | S f =>
        match next_occ (m_slots m) i (S (length (m_slots m))) with
        | None => []
        | Some j =>
            match nth j (m_slots m) None with
            | Some (k, v) => (k, v) :: clear_seq (m_set m (clear_slot hash (m_slots m) j) (m_len m - 1)) j f
            | None => []
            end
        end
    end.

  (* what is logged is exactly that sequence: per entry the key copy (if the map duplicates keys), then the value destructor (if it has one) *)
  Lemma clear_all_log : forall fuel m i acc,
    snd (clear_all hash m i fuel acc) = acc ++ flat_map (fun kv => clear_evs m (fst kv) (snd kv)) (clear_seq m i fuel).
  Proof.
    induction fuel as [|f IH]; intros m i acc; cbn [clear_all clear_seq]; [cbn; rewrite app_nil_r; reflexivity|].
    destruct (next_occ (m_slots m) i (S (length (m_slots m)))) as [j|]; [|cbn; rewrite app_nil_r; reflexivity].
    destruct (nth j (m_slots m) None) as [[k v]|]; [|cbn; rewrite app_nil_r; reflexivity].
    rewrite IH. cbn [flat_map fst snd]. rewrite <- app_assoc. reflexivity.
  Qed.
  Lemma clear_evs_set m s l k v : clear_evs (m_set m s l) k v = clear_evs m k v.
  Proof. reflexivity. Qed.

  Lemma clear_seq_exact : forall fuel m i, MInv hash m -> empty_below (m_slots m) i -> occ_count (m_slots m) < fuel ->
    NoDup (List.map fst (clear_seq m i fuel)) /\ forall k v, In (k, v) (clear_seq m i fuel) <-> Has (m_slots m) k v.
  Proof.
    induction fuel as [|f IH]; intros m i HM He Hf; [lia|]. cbn [clear_seq].
    pose proof (next_occ_spec (S (length (m_slots m))) (m_slots m) i ltac:(lia)) as Hs.
    destruct (next_occ (m_slots m) i (S (length (m_slots m)))) as [j|] eqn:En.
    - destruct Hs as (Hj & k & v & Hn & E). rewrite Hn.
      destruct (remove_at_correct hash m j k v HM Hn) as (HM' & Hhas' & Hlen'). cbn zeta in *.
      set (m' := m_set m (clear_slot hash (m_slots m) j) (m_len m - 1)) in *.
      assert (He' : empty_below (m_slots m') j).
      { intros p Hp. unfold m'. cbn [m_slots m_set]. apply clear_slot_keeps_empty; [lia|lia|].
        destruct (Nat.lt_ge_cases p i) as [Hlt|Hge]; [exact (He p Hlt)|]. exact (next_occ_first _ _ _ _ En p ltac:(lia)). }
      assert (Hf' : occ_count (m_slots m') < f).
      { destruct HM as (_ & Hl & _). destruct HM' as (_ & Hl' & _). unfold m' in *. cbn [m_slots m_len m_set] in *. lia. }
      destruct (IH m' j HM' He' Hf') as (Hnd & Hin). split.
      + cbn [List.map fst]. constructor; [|exact Hnd]. intros Hk. apply in_map_iff in Hk. destruct Hk as ([k2 v2] & Ek & Hkv). cbn in Ek. subst k2.
        apply Hin, Hhas' in Hkv. destruct Hkv as [Hne _]. apply Hne. reflexivity.
      + intros k0 v0. cbn [In]. rewrite Hin, Hhas'. split.
        * intros [E0|[_ H0]]; [injection E0 as <- <-; exists j; split; [lia|exact Hn]|exact H0].
        * intros H0. destruct (N.eq_dec k0 k) as [->|Hne]; [|right; split; assumption].
          left. f_equal. destruct HM as ((_ & Hd & _) & _). symmetry. eapply has_fun; [exact Hd|exact H0|]. exists j. split; [lia|exact Hn].
    - split; [constructor|]. intros k v. split; [intros []|]. intros Hh. exfalso. eapply occ_zero_no_has; [|exact Hh]. exact (keys_nil_all_none (m_slots m) i He Hs).
  Qed.

  (* m_map_clear on a live, non-empty map: the log is one release group per live entry -- each entry once, no entry twice, nothing that
     was not there -- followed by the return code; m_map_free logs the same *)
  Theorem clear_releases_each_entry_once st : m_freed (ms_m st) = false -> MInv hash (ms_m st) -> m_len (ms_m st) <> 0 ->
    exists seq, NoDup (List.map fst seq) /\ (forall k v, In (k, v) seq <-> Has (m_slots (ms_m st)) k v) /\
                snd (m_step hash st MClear) = flat_map (fun kv => clear_evs (ms_m st) (fst kv) (snd kv)) seq ++ [ERet 0] /\
                snd (m_step hash st MFree) = flat_map (fun kv => clear_evs (ms_m st) (fst kv) (snd kv)) seq ++ [ERet 0].
  Proof.
    intros Hfr HM H0. exists (clear_seq (ms_m st) 0 (m_len (ms_m st) + length (m_slots (ms_m st)))).
    destruct (clear_seq_exact (m_len (ms_m st) + length (m_slots (ms_m st))) (ms_m st) 0 HM ltac:(intros p Hp; lia)) as (Hnd & Hin).
    { destruct HM as (Hinv & Hl & Hload). pose proof Hinv as (Hn & _ & _). lia. }
    split; [exact Hnd|]. split; [exact Hin|].
    pose proof (clear_all_log (m_len (ms_m st) + length (m_slots (ms_m st))) (ms_m st) 0 []) as Hlog. cbn [app] in Hlog.
    unfold m_step. rewrite Hfr. destruct (Nat.eqb_spec (m_len (ms_m st)) 0) as [Hz|_]; [contradiction|].
    destruct (clear_all hash (ms_m st) 0 (m_len (ms_m st) + length (m_slots (ms_m st))) []) as [m1 e]. cbn [snd] in *. subst e.
    split; reflexivity.
  Qed.
End WithHash.
