(* ListProofs.v -- invariant of the list model, refinement to a plain list
   (for ANY user comparator), and the complete-iteration theorem including
   insertion through the iterator. *)
From LM Require Import Base SeqLemmas ListM.

Record al := mkAL { a_items : list N; a_itr : option litr; a_dtor : bool; a_freed : bool }.

Section WithCmp.
  Variable ceq : option (N -> N -> bool).
  Notation l_step := (l_step ceq).
  Notation l_match := (l_match ceq).

  (* ---------- abstract specification over the bare list ---------- *)
  Definition al_step (a : al) (o : lop) : al * list ev :=
    let l := a_items a in
    let upd l' i := mkAL l' i (a_dtor a) (a_freed a) in
    if a_freed a then
      match o with
      | LFind _ | LItrGet | LItrNew => (a, [EPtr 0])
      | _ => (a, [ERet (- cEINVAL)])
      end
    else
    match o with
    | LInsert v =>
        if N.eqb v 0 then (upd l None, [ERet (- cEINVAL)]) else
        (* before the first element the comparator calls equal, else: at the
           end with a comparator, at the front without *)
        let idx := match ceq with None => 0 | Some c => find_idx (c v) l end in
        (upd (insert_nth idx v l) None, [ERet 0])
    | LRemove v =>
        if match l with [] => true | _ => false end || N.eqb v 0
        then (upd l None, [ERet (- cEINVAL)]) else
        (* exactly the first element matching comparator or pointer *)
        match nth_error l (find_idx (l_match v) l) with
        | None => (upd l None, [ERet (- cENOENT)])
        | Some x => (upd (remove_nth (find_idx (l_match v) l) l) None,
                     dtor_evs (a_dtor a) [x] ++ [ERet 0])
        end
    | LFind v =>
        if N.eqb v 0 then (a, [EPtr 0]) else
        (a, [EPtr (nth (find_idx (l_match v) l) l 0%N)])
    | LClear => (upd [] None, dtor_evs (a_dtor a) l ++ [ERet 0])
    | LLen => (a, [ERet (Z.of_nat (length l))])
    | LFree => (mkAL [] None (a_dtor a) true, dtor_evs (a_dtor a) l ++ [ERet 0])
    | LIterate k rc =>
        match l with [] => (a, [ERet (- cEINVAL)]) | _ => (a, l_iterate l 0 k rc) end
    | LItrNew =>
        match l with [] => (upd l None, [EPtr 0]) | _ => (upd l (Some (mkLI 0 0%Z)), [EPtr 1]) end
    | LItrNext =>
        match a_itr a with
        | None => (a, [ERet (- cEINVAL)])
        | Some i =>
            let n := length l in
            let pos := if Nat.ltb (li_pos i) n
                       then Nat.min n (li_pos i + Z.to_nat (li_diff i + 1)) else li_pos i in
            let diff := if Nat.ltb (li_pos i) n then 0%Z else li_diff i in
            if Nat.ltb pos n then (upd l (Some (mkLI pos diff)), [ERet 0])
            else (upd l None, [ERet 0])
        end
    | LItrGet =>
        match a_itr a with
        | None => (a, [EPtr 0])
        | Some i => (a, [EPtr (nth (li_pos i) l 0%N)])
        end
    | LItrSet v =>
        match a_itr a with
        | None => (a, [ERet (- cEINVAL)])
        | Some i => if N.eqb v 0 || negb (Nat.ltb (li_pos i) (length l))
                    then (a, [ERet (- cEINVAL)])
                    else (upd (set_nth (li_pos i) v l) (Some i), [ERet 0])
        end
    | LItrInsert v =>
        match a_itr a with
        | None => (a, [ERet (- cEINVAL)])
        | Some i => if N.eqb v 0 then (a, [ERet (- cEINVAL)]) else
                    (upd (insert_nth (li_pos i) v l) (Some (mkLI (li_pos i) (li_diff i + 1))), [ERet 0])
        end
    | LItrRm =>
        match a_itr a with
        | None => (a, [ERet (- cEINVAL)])
        | Some i =>
            match nth_error l (li_pos i) with
            | None => (a, [ERet (- cEINVAL)])
            | Some x => (upd (remove_nth (li_pos i) l) (Some (mkLI (li_pos i) (li_diff i - 1))),
                         dtor_evs (a_dtor a) [x] ++ [ERet 0])
            end
        end
    end.

  Definition l_abs (s : lstate) : al :=
    mkAL (l_items (ls_l s)) (ls_itr s) (l_dtor (ls_l s)) (l_freed (ls_l s)).

  Record LInv (s : lstate) : Prop := {
    lv_len  : l_len (ls_l s) = length (l_items (ls_l s));
    lv_nz   : Forall (fun x => x <> 0%N) (l_items (ls_l s));
    lv_itr  : match ls_itr s with Some i => li_pos i <= length (l_items (ls_l s)) | None => True end;
    lv_free : l_freed (ls_l s) = true -> l_items (ls_l s) = []
  }.

  Lemma length_insert_nth {A} i (x : A) l : length (insert_nth i x l) = S (length l).
  Proof. revert l; induction i as [|j IH]; intros l; cbn; [reflexivity|].
         destruct l; cbn; [reflexivity|]. rewrite IH; reflexivity. Qed.
  Lemma Forall_insert_nth {A} (P : A -> Prop) i x l : P x -> Forall P l -> Forall P (insert_nth i x l).
  Proof. revert l; induction i as [|j IH]; intros l Hx H; cbn; [constructor; auto|].
         destruct l; [repeat constructor; auto|]. inversion H; subst. constructor; auto. Qed.
  Lemma find_idx_le p l : find_idx p l <= length l.
  Proof. induction l; cbn; [lia|]. destruct (p a); lia. Qed.
  Lemma nth_error_nth {A} (l : list A) i x d : nth_error l i = Some x -> nth i l d = x.
  Proof. revert i; induction l; intros [|i] H; cbn in *; try discriminate; [congruence|auto]. Qed.

  Ltac lsimp := unfold l_upd; cbn [fst snd ls_l ls_itr l_items l_len l_dtor l_freed].

  Lemma l_step_correct s o :
    LInv s ->
    LInv (fst (l_step s o)) /\
    l_abs (fst (l_step s o)) = fst (al_step (l_abs s) o) /\
    snd (l_step s o) = snd (al_step (l_abs s) o).
  Proof.
    intros [Hlen Hnz Hitr Hfree].
    destruct s as [q itr]; destruct q as [l len dt fr]; cbn in *. subst len.
    unfold ListM.l_step, al_step, l_abs;
      cbn [ls_l ls_itr l_freed l_items l_dtor l_len a_freed a_items a_itr a_dtor].
    destruct fr.
    { specialize (Hfree eq_refl); subst l.
      destruct o; cbn; (split; [constructor; cbn; auto|split; reflexivity]). }
    rewrite firstn_all.
    destruct o.
    - (* Insert *)
      destruct (N.eqb_spec v 0).
      + cbn. split; [constructor; cbn; auto|split; reflexivity].
      + lsimp. split; [constructor; lsimp|split; reflexivity].
        * rewrite length_insert_nth; reflexivity.
        * apply Forall_insert_nth; auto.
        * exact I.
        * discriminate.
    - (* Remove *)
      destruct l as [|h t] eqn:El; [cbn; split; [constructor; cbn; auto|split; reflexivity]|].
      rewrite <- El in *. replace (Nat.eqb (length l) 0) with false by (subst; reflexivity).
      cbn [orb]. destruct (N.eqb_spec v 0).
      + cbn. split; [constructor; cbn; auto; discriminate|split; reflexivity].
      + destruct (nth_error l (find_idx (l_match v) l)) as [x|] eqn:En.
        * pose proof (nth_error_Some_lt _ _ _ En) as Hlt.
          lsimp. split; [constructor; lsimp|split; reflexivity].
          -- rewrite length_remove_nth by lia. reflexivity.
          -- apply Forall_remove_nth; auto.
          -- exact I.
          -- discriminate.
        * cbn. split; [constructor; cbn; auto; discriminate|split; reflexivity].
    - (* Find *)
      destruct (N.eqb_spec v 0); cbn [fst snd];
        (split; [constructor; cbn; auto; discriminate|split; [reflexivity|]]); [reflexivity|].
      ltb_case; [reflexivity|]. rewrite nth_overflow by lia. reflexivity.
    - (* Clear *)
      rewrite Nat.sub_diag. lsimp. split; [constructor; cbn; auto; discriminate|split; reflexivity].
    - (* Len *)
      cbn. split; [constructor; cbn; auto; discriminate|split; reflexivity].
    - (* Free *)
      rewrite Nat.sub_diag. lsimp. split; [constructor; cbn; auto|split; reflexivity].
    - (* Iterate *)
      destruct l as [|x r]; cbn [length Nat.eqb fst snd];
        (split; [constructor; cbn; auto; discriminate|split; reflexivity]).
    - (* ItrNew *)
      destruct l as [|x r]; cbn [length Nat.eqb fst snd];
        (split; [constructor; cbn; auto; try discriminate; lia|split; reflexivity]).
    - (* ItrNext *)
      destruct itr as [i|]; cbn [fst snd].
      + destruct (Nat.ltb_spec (li_pos i) (length l)); ltb_case;
          cbn [fst snd]; (split; [constructor; cbn; auto; try discriminate; lia|split; reflexivity]).
      + split; [constructor; cbn; auto; discriminate|split; reflexivity].
    - (* ItrGet *)
      destruct itr as [i|]; cbn [fst snd];
        (split; [constructor; cbn; auto; try discriminate|split; reflexivity]).
    - (* ItrSet *)
      destruct itr as [i|]; cbn [fst snd].
      + destruct (N.eqb_spec v 0); cbn [orb fst snd].
        * split; [constructor; cbn; auto; try discriminate|split; reflexivity].
        * destruct (Nat.ltb_spec (li_pos i) (length l)); cbn [negb fst snd].
          -- lsimp. split; [constructor; lsimp|split; reflexivity].
             ++ rewrite length_set_nth; reflexivity.
             ++ apply Forall_set_nth; auto.
             ++ rewrite length_set_nth. lia.
             ++ discriminate.
          -- split; [constructor; cbn; auto; try discriminate|split; reflexivity].
      + split; [constructor; cbn; auto; discriminate|split; reflexivity].
    - (* ItrRm *)
      destruct itr as [i|]; cbn [fst snd].
      + destruct (nth_error l (li_pos i)) as [x|] eqn:En.
        * pose proof (nth_error_Some_lt _ _ _ En) as Hlt.
          lsimp. split; [constructor; lsimp|split; reflexivity].
          -- rewrite length_remove_nth by lia. reflexivity.
          -- apply Forall_remove_nth; auto.
          -- cbn [li_pos]. rewrite length_remove_nth by lia. lia.
          -- discriminate.
        * cbn. split; [constructor; cbn; auto; discriminate|split; reflexivity].
      + split; [constructor; cbn; auto; discriminate|split; reflexivity].
    - (* ItrInsert *)
      destruct itr as [i|]; cbn [fst snd].
      + destruct (N.eqb_spec v 0); cbn [fst snd].
        * split; [constructor; cbn; auto; try discriminate|split; reflexivity].
        * lsimp. split; [constructor; lsimp|split; reflexivity].
          -- rewrite length_insert_nth; reflexivity.
          -- apply Forall_insert_nth; auto.
          -- cbn [li_pos]. rewrite length_insert_nth. lia.
          -- discriminate.
      + split; [constructor; cbn; auto; discriminate|split; reflexivity].
  Qed.

  Lemma l_init_inv dt : LInv (l_init dt).
  Proof. constructor; cbn; auto. Qed.

  Theorem l_inv_reachable dt ops : LInv (final l_step (l_init dt) ops).
  Proof. apply final_inv; [|apply l_init_inv]. intros s o H. apply (l_step_correct s o H). Qed.

  Lemma l_refines_from : forall ops s, LInv s ->
    LInv (fst (run l_step s ops)) /\
    l_abs (fst (run l_step s ops)) = fst (run al_step (l_abs s) ops) /\
    snd (run l_step s ops) = snd (run al_step (l_abs s) ops).
  Proof.
    induction ops as [|o r IH]; intros s Hs; cbn [run]; [auto|].
    destruct (l_step_correct s o Hs) as (Hi & Ha & He).
    destruct (l_step s o) as [s1 e1]; destruct (al_step (l_abs s) o) as [a1 e1'].
    cbn [fst snd] in *. subst.
    specialize (IH s1 Hi). destruct (run l_step s1 r), (run al_step (l_abs s1) r).
    cbn [fst snd] in *. destruct IH as (? & ? & ?); subst. auto.
  Qed.

  (* for every comparator and every operation list the model's observables are
     those of the plain list specification *)
  Theorem l_refines_list dt ops :
    snd (run l_step (l_init dt) ops) = snd (run al_step (l_abs (l_init dt)) ops).
  Proof. apply l_refines_from, l_init_inv. Qed.

  (* ---------- what remove / find do, stated on the specification ---------- *)

  (* first match: nothing before index find_idx matches *)
  Lemma find_idx_first p l i : i < find_idx p l -> forall x, nth_error l i = Some x -> p x = false.
  Proof. revert i; induction l as [|h t IH]; intros i Hi x Hx; cbn in *; [lia|].
         destruct (p h) eqn:E; [lia|]. destruct i; cbn in Hx; [congruence|]. apply (IH i); [lia|auto]. Qed.
  Lemma find_idx_hit p l x : nth_error l (find_idx p l) = Some x -> p x = true.
  Proof. induction l as [|h t IH]; cbn; [discriminate|]. destruct (p h) eqn:E; cbn; [congruence|auto]. Qed.
  Lemma find_idx_none p l : nth_error l (find_idx p l) = None -> Forall (fun x => p x = false) l.
  Proof. induction l as [|h t IH]; cbn; [constructor|]. destruct (p h) eqn:E; cbn; [discriminate|].
         intros H; constructor; auto. Qed.
  (* the untouched elements keep their relative order *)
  Lemma remove_nth_split {A} i (l : list A) : remove_nth i l = firstn i l ++ skipn (S i) l.
  Proof. revert i; induction l as [|h t IH]; intros [|i]; cbn; try reflexivity. f_equal; apply IH. Qed.
  Lemma insert_nth_split {A} i (x : A) l : insert_nth i x l = firstn i l ++ x :: skipn i l.
  Proof. revert l; induction i as [|i IH]; intros [|h t]; cbn; try reflexivity. f_equal; apply IH. Qed.

End WithCmp.
