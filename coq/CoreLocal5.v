(* CoreLocal5.v -- C14: a module can only be operated from the thread owning its context. *)
From LM Require Import Base CoreTypes CoreModel CoreExec CoreLocal.

Section Local5.
  Variable sc : script.
  Variable run_cb : world -> modid -> cbkind -> nat -> list evtrec -> world * bool.

  (* the calling thread holds ANOTHER context than the module's: permission error *)
  Theorem mod_assert_other_ctx w m mr c o : get_mod w m = Some mr -> m_state mr <> MZombie -> the_ctx w = Some c ->
    ctx_obj_of w mr = Some o -> o <> c_obj c -> mod_assert w m = Some rEPERM.
  Proof. intros Hm Hz Hc Ho Hne. unfold mod_assert. rewrite Hm, Hc, Ho. destruct (m_state mr); try congruence;
         cbn [mstate_eqb]; destruct (Nat.eqb_spec o (c_obj c)); congruence. Qed.

  (* ... or none at all *)
  Theorem mod_assert_no_ctx w m mr : get_mod w m = Some mr -> m_state mr <> MZombie -> the_ctx w = None -> mod_assert w m = Some rEPERM.
  Proof. exact (mod_assert_noctx w m mr). Qed.

  (* whenever M_MOD_ASSERT fails, every module operation and pub/sub call on that handle fails with a
     negative code and has NO effect (the world is unchanged but for the trace) *)
  Definition single_call (c : call) : Prop := match c with CTellMany _ _ _ _ | CForeign _ _ => False | _ => True end.

  Theorem failed_assert_refuses_everything cur w c m e :
    call_handle c = Some m -> single_call c -> mod_assert w m = Some e ->
    refused w (exec_own sc run_cb cur w c).
  Proof.
    intros Hh Hs Ha. pose proof (mod_assert_neg w m e Ha) as Hn.
    assert (Hst : forall l, mod_assert_state w m l = Some e) by (intros l; unfold mod_assert_state; rewrite Ha; reflexivity).
    assert (Hpm : forall d, mod_assert_perm w m d = Some e) by (intros d; unfold mod_assert_perm; rewrite Ha; reflexivity).
    assert (Hpm' : forall t d, mod_assert_perm (emit w t) m d = Some e)
      by (intros t d; unfold mod_assert_perm; rewrite emit_mod_assert, Ha; reflexivity).
    destruct neg_codes as (NE1 & NE2 & NE3 & NE4 & NE5 & NE6 & NE7).
    unfold exec_own. rewrite Hh. rewrite emit_uref.
    destruct (Nat.eqb (uref_count w m) 0); [apply refused_intro; auto|].
    destruct c; cbn in Hh, Hs; try discriminate; try contradiction;
      try (injection Hh as ->); unfold exec_call.
    all: try (rewrite emit_mod_assert_state, Hst; apply refused_intro; exact Hn).
    all: try (rewrite Hpm'; apply refused_intro; exact Hn).
    all: try (rewrite emit_mod_assert, Ha; apply refused_intro; exact Hn).
    - unfold retp, mod_deregister, dereg_fuel. rewrite Nat.add_comm. cbn [Nat.add]. rewrite emit_mod_assert, Ha. cbn [fst snd]. apply refused_intro; exact Hn.
    - unfold retp, tell_step. rewrite Hpm'. cbn [fst snd]. apply refused_intro; exact Hn.
    - match goal with |- context [if ?b then _ else _] => destruct b end; [apply refused_intro; auto|].
      match goal with |- context [if ?b then _ else _] => destruct b end;
        unfold retp, register_dup_fd, register_mod_src; rewrite emit_mod_assert, Ha; cbn [fst snd]; apply refused_intro; exact Hn.
    - match goal with |- context [if ?b then _ else _] => destruct b end; [apply refused_intro; auto|].
      destruct k; try (apply refused_intro; auto; fail); try discriminate; injection Hh as ->;
        unfold retp, deregister_mod_src; rewrite emit_mod_assert, Ha; cbn [fst snd]; apply refused_intro; exact Hn.
  Qed.

  (* a call made by a foreign thread runs with that thread's context, never with the owner's:
     the owner's thread-specific context is restored untouched afterwards *)
  Theorem foreign_restores_owner_context cur w own c : w_tls (exec sc run_cb cur w (CForeign own c)) = w_tls w.
  Proof. unfold exec. reflexivity. Qed.

  (* a message cannot be addressed to a module of another context *)
  Theorem tell_other_ctx_refused w m r data af :
    mod_assert_perm w m m_denypub = None -> uref_count w r <> 0 ->
    (match ctx_of_mod w m, ctx_of_mod w r with Some a, Some b => Nat.eqb a b | _, _ => false end) = false ->
    tell_step sc w m r data af = (w, rEINVAL).
  Proof. intros Hp Hu Hc. unfold tell_step. rewrite Hp. destruct (Nat.eqb_spec (uref_count w r) 0); [contradiction|]. rewrite Hc. reflexivity. Qed.
End Local5.
