(* CoreLocal2.v -- more one-step theorems: context guards (C07), names / deny /
   reserved topics (C15), token bucket (C18), batching decision (C13),
   stash (C16), registry steps (C09), pipes (C02/C08). *)
From LM Require Import Base CoreTypes CoreModel CoreExec CoreLocal.

Section Local2.
  Variable sc : script.
  Variable run_cb : world -> modid -> cbkind -> nat -> list evtrec -> world * bool.
  Notation exec := (exec sc run_cb).
  Notation refused := (refused).

  Ltac codes := destruct neg_codes as (? & ? & ? & ? & ? & ? & ?).
  Ltac emit_frame := repeat match goal with
    | |- context [the_ctx (emit ?w ?t)] => change (the_ctx (emit w t)) with (the_ctx w)
    | |- context [w_tls (emit ?w ?t)] => change (w_tls (emit w t)) with (w_tls w)
    | |- context [get_mod (emit ?w ?t) ?m] => change (get_mod (emit w t) m) with (get_mod w m)
    | |- context [uref_count (emit ?w ?t) ?m] => change (uref_count (emit w t) m) with (uref_count w m)
    | |- context [mod_assert (emit ?w ?t) ?m] => change (mod_assert (emit w t) m) with (mod_assert w m)
    end.

  (* ================= C07: context guards ================= *)

  (* one context per thread: a second registration fails with EEXIST and changes nothing *)
  Theorem ctxreg_second_refused cur w c p : w_tls w = Some c ->
    exists t a, exec cur w (CCtxReg p) = ret (emit w (TMark t a)) rEEXIST.
  Proof. intros H. unfold CoreExec.exec, exec_own, exec_call. cbn [call_handle]. emit_frame. rewrite H. eauto. Qed.

  Definition ctx_call (c : call) : bool :=
    match c with
    | CCtxDereg | CCtxFinalize | CCtxDispatch | CCtxQuit _ | CCtxLen | CCtxStats | CCtxSetTick _ | CReg _ => true
    | _ => false
    end.

  (* without a context (none registered, or hidden by deny-ctx) every context call and every registration fails with EPIPE, no effect *)
  Theorem no_ctx_refused cur w c : the_ctx w = None -> ctx_call c = true ->
    exists t a, exec cur w c = ret (emit w (TMark t a)) rEPIPE.
  Proof.
    intros H Hc. destruct c; cbn in Hc; try discriminate; unfold CoreExec.exec, exec_own, exec_call; cbn [call_handle]; emit_frame;
      try (rewrite H; eauto).
    - (* ctxdereg *) unfold retp, do_ctx_dereg, ctx_deregister. emit_frame. rewrite H. cbn [fst snd]. eauto.
    - (* reg *) unfold retp, mod_register. destruct (spec_of sc m) eqn:Es.
      + emit_frame. rewrite H. cbn [fst snd]. eauto.
      + (* unknown module index: EINVAL in the model, not reachable from well-formed scripts *)
  Abort.

  Theorem no_ctx_refused cur w c : the_ctx w = None -> ctx_call c = true ->
    (forall m, c = CReg m -> spec_of sc m <> None) ->
    exists t a, exec cur w c = ret (emit w (TMark t a)) rEPIPE.
  Proof.
    intros H Hc Hreg. destruct c; cbn in Hc; try discriminate; unfold CoreExec.exec, exec_own, exec_call; cbn [call_handle]; emit_frame;
      try (rewrite H; eauto).
    - unfold retp, do_ctx_dereg, ctx_deregister. emit_frame. rewrite H. cbn [fst snd]. eauto.
    - unfold retp, mod_register. destruct (spec_of sc m) eqn:Es; [|exfalso; eapply Hreg; eauto].
      emit_frame. rewrite H. cbn [fst snd]. eauto.
  Qed.

  (* ... and every module operation fails with a permission error, no effect *)
  Theorem no_ctx_mod_assert w m mr : the_ctx w = None -> get_mod w m = Some mr -> m_state mr <> MZombie ->
    mod_assert w m = Some rEPERM /\ (forall l, mod_assert_state w m l = Some rEPERM) /\ (forall d, mod_assert_perm w m d = Some rEPERM).
  Proof. intros H Hm Hz. pose proof (mod_assert_noctx w m mr Hm Hz H) as E. split; [exact E|]. split; intros.
         - unfold mod_assert_state. rewrite E. reflexivity.
         - unfold mod_assert_perm. rewrite E. reflexivity. Qed.

  (* a looping context refuses to be deregistered; so does one that is being torn down *)
  Theorem ctxdereg_looping_refused cur w c : the_ctx w = Some c -> c_state c <> CIdle ->
    exists t a, exec cur w CCtxDereg = ret (emit w (TMark t a)) rEINVAL.
  Proof. intros H Hs. unfold CoreExec.exec, exec_own, exec_call, retp, do_ctx_dereg, ctx_deregister. cbn [call_handle]. emit_frame. rewrite H.
         destruct (c_state c); [congruence| |]; cbn [fst snd]; eauto. Qed.

  (* after finalize no module can be registered *)
  Theorem finalized_refuses_register cur w c m sp : the_ctx w = Some c -> c_finalized c = true -> spec_of sc m = Some sp ->
    exists t a, exec cur w (CReg m) = ret (emit w (TMark t a)) rEPERM.
  Proof. intros H Hf Hs. unfold CoreExec.exec, exec_own, exec_call, retp, mod_register. cbn [call_handle]. rewrite Hs. emit_frame. rewrite H, Hf. cbn [fst snd]. eauto. Qed.

  Theorem finalize_sets cur w c : the_ctx w = Some c ->
    exists t a, exec cur w CCtxFinalize = ret (upd_ctx (emit w (TMark t a)) (ctx_with_final true)) 0.
  Proof. intros H. unfold CoreExec.exec, exec_own, exec_call. cbn [call_handle]. emit_frame. rewrite H. eauto. Qed.

  (* ================= C15: names, deny flags, reserved topics ================= *)

  (* a live name without allow-replace: EEXIST, nothing changes *)
  Theorem same_name_refused cur w c m sp old omr : the_ctx w = Some c -> c_finalized c = false -> spec_of sc m = Some sp ->
    tbl_find (ms_slot sp) (c_modules c) = Some old -> get_mod w old = Some omr -> m_replace omr = false ->
    exists t a, exec cur w (CReg m) = ret (emit w (TMark t a)) rEEXIST.
  Proof. intros H Hf Hs Ht Ho Hr. unfold CoreExec.exec, exec_own, exec_call, retp, mod_register. cbn [call_handle]. rewrite Hs. emit_frame.
         rewrite H, Hf, Ht. emit_frame. rewrite Ho, Hr. replace (negb (rEEXIST =? 0)%Z) with true by reflexivity. cbn [fst snd]. eauto. Qed.

  (* deny flags: the denied class of calls fails with EPERM and changes nothing *)
  Definition pub_call (c : call) : option modid :=
    match c with CTell m _ _ _ | CPublish m _ _ _ | CBroadcast m _ _ | CPill m _ => Some m | _ => None end.
  Definition sub_call (c : call) : option modid :=
    match c with CSub m _ _ _ _ | CUnsub m _ => Some m | _ => None end.

  Theorem deny_pub_refused cur w c m mr : pub_call c = Some m -> get_mod w m = Some mr -> m_denypub mr = true ->
    refused w (exec cur w c).
  Proof.
    codes. intros Hc Hm Hd.
    assert (Hp : exists e, mod_assert_perm w m m_denypub = Some e /\ neg e).
    { unfold mod_assert_perm. destruct (mod_assert w m) eqn:E; [eexists; split; [reflexivity|eapply mod_assert_neg; eauto]|].
      rewrite Hm, Hd. eauto. }
    destruct Hp as (e & He & Hn).
    unfold CoreExec.exec, exec_own. destruct c; cbn in Hc; try discriminate; inversion Hc; subst; cbn [call_handle]; rewrite emit_uref;
      (destruct (Nat.eqb (uref_count w m) 0); [apply refused_intro; auto|]); unfold exec_call; unfold retp, tell_step;
      match goal with |- context [mod_assert_perm ?ww m m_denypub] => change (mod_assert_perm ww m m_denypub) with (mod_assert_perm w m m_denypub) end;
      rewrite He; cbn [fst snd]; apply refused_intro; auto.
  Qed.

  Theorem deny_sub_refused cur w c m mr : sub_call c = Some m -> get_mod w m = Some mr -> m_denysub mr = true ->
    refused w (exec cur w c).
  Proof.
    codes. intros Hc Hm Hd.
    assert (Hp : exists e, mod_assert_perm w m m_denysub = Some e /\ neg e).
    { unfold mod_assert_perm. destruct (mod_assert w m) eqn:E; [eexists; split; [reflexivity|eapply mod_assert_neg; eauto]|].
      rewrite Hm, Hd. eauto. }
    destruct Hp as (e & He & Hn).
    unfold CoreExec.exec, exec_own. destruct c; cbn in Hc; try discriminate; inversion Hc; subst; cbn [call_handle]; rewrite emit_uref;
      (destruct (Nat.eqb (uref_count w m) 0); [apply refused_intro; auto|]); unfold exec_call;
      match goal with |- context [mod_assert_perm ?ww m m_denysub] => change (mod_assert_perm ww m m_denysub) with (mod_assert_perm w m m_denysub) end;
      rewrite He; apply refused_intro; auto.
  Qed.

  (* deny-ctx: while a callback of such a module runs, the thread has no usable context *)
  Theorem deny_ctx_hides_context w c m mr : w_tls w = Some c -> c_curr c = Some m -> get_mod w m = Some mr -> m_denyctx mr = true ->
    the_ctx w = None.
  Proof. intros H Hc Hm Hd. unfold the_ctx. rewrite H, Hc, Hm, Hd. reflexivity. Qed.

  (* publishing on the reserved prefix is always refused *)
  Theorem reserved_topic_refused cur w m topic data af : is_system_topic topic = true ->
    refused w (exec cur w (CPublish m topic data af)).
  Proof.
    codes. intros Ht. unfold CoreExec.exec, exec_own. cbn [call_handle]. rewrite emit_uref.
    destruct (Nat.eqb (uref_count w m) 0); [apply refused_intro; auto|]. unfold exec_call.
    destruct (mod_assert_perm _ m m_denypub) eqn:E.
    - apply refused_intro. eapply mod_assert_perm_neg; eauto.
    - rewrite Ht. apply refused_intro; auto.
  Qed.

  (* a persistent module cannot be deregistered by a direct call while its context loops *)
  Theorem persist_dereg_refused cur w c m mr : uref_count w m <> 0 -> w_tls w = Some c -> c_state c = CLooping ->
    get_mod w m = Some mr -> m_persist mr = true -> refused w (exec cur w (CDereg m)).
  Proof.
    intros Hu Htl Hl Hm Hp. codes. unfold CoreExec.exec, exec_own. cbn [call_handle]. rewrite emit_uref.
    destruct (Nat.eqb_spec (uref_count w m) 0); [contradiction|]. unfold exec_call, retp, mod_deregister, dereg_fuel.
    rewrite Nat.add_comm. cbn [Nat.add]. emit_frame.
    destruct (mod_assert w m) eqn:E; [cbn [fst snd]; apply refused_intro; eapply mod_assert_neg; eauto|].
    rewrite Hm, Htl, Hp, Hl. cbn [andb fst snd]. apply refused_intro; auto.
  Qed.

  (* ================= C18: token bucket ================= *)

  Theorem consume_token_spec w m mr : get_mod w m = Some mr ->
    match m_tb_tokens mr with
    | None => consume_token w m = Some w                                   (* no bucket: unlimited *)
    | Some 0%N => consume_token w m = None                                 (* empty: the call fails with EAGAIN *)
    | Some t => consume_token w m = Some (upd_mod w m (mod_with_tb (m_tb_rate mr) (m_tb_burst mr) (Some (t - 1)%N) (m_tb_tmr mr)))
    end.
  Proof. intros H. unfold consume_token. rewrite H. destruct (m_tb_tokens mr) as [[|p]|]; reflexivity. Qed.

  (* an abstract bucket: the two functions the model applies to (tokens, burst) *)
  Inductive tbop := TConsume | TRefill.
  Definition tb_step (burst : N) (tokens : N) (o : tbop) : N * bool :=      (* new tokens, success *)
    match o with
    | TConsume => if N.eqb tokens 0 then (tokens, false) else ((tokens - 1)%N, true)
    | TRefill => (if N.ltb tokens burst then (tokens + 1)%N else tokens, true)
    end.
  Fixpoint tb_run (burst tokens : N) (ops : list tbop) : N * nat * nat :=     (* final tokens, successes, refills *)
    match ops with
    | [] => (tokens, 0, 0)
    | o :: r => let '(t1, ok) := tb_step burst tokens o in
                let '(tf, s, f) := tb_run burst t1 r in
                (tf, (match o with TConsume => if ok then S s else s | TRefill => s end),
                     (match o with TRefill => S f | TConsume => f end))
    end.

  (* in ANY interval, whatever the order of calls and refills: successes <= tokens at its start + refills in it <= burst + refills *)
  Theorem tb_bound burst : forall ops tokens, (tokens <= burst)%N ->
    let '(tf, s, f) := tb_run burst tokens ops in
    (tf <= burst)%N /\ (N.of_nat s + tf <= tokens + N.of_nat f)%N.
  Proof.
    induction ops as [|o r IH]; intros tokens Hle; cbn [tb_run]; [lia|].
    destruct o; cbn [tb_step].
    - destruct (N.eqb_spec tokens 0).
      + specialize (IH tokens Hle). destruct (tb_run burst tokens r) as [[tf s] f]. lia.
      + specialize (IH (tokens - 1)%N ltac:(lia)). destruct (tb_run burst (tokens - 1) r) as [[tf s] f]. lia.
    - destruct (N.ltb_spec tokens burst).
      + specialize (IH (tokens + 1)%N ltac:(lia)). destruct (tb_run burst (tokens + 1) r) as [[tf s] f]. lia.
      + specialize (IH tokens Hle). destruct (tb_run burst tokens r) as [[tf s] f]. lia.
  Qed.

  (* the model's consume_token IS tb_step TConsume on the module's bucket *)
  Theorem consume_token_is_tb_step w m mr t b : get_mod w m = Some mr -> m_tb_tokens mr = Some t -> m_tb_burst mr = Some b ->
    match consume_token w m with
    | None => tb_step b t TConsume = (t, false)
    | Some w1 => exists mr1, get_mod w1 m = Some mr1 /\ m_tb_tokens mr1 = Some (fst (tb_step b t TConsume)) /\ snd (tb_step b t TConsume) = true
    end.
  Proof.
    intros Hm Ht Hb. unfold consume_token. rewrite Hm, Ht. cbn [tb_step].
    destruct t as [|p]; [reflexivity|]. cbn [N.eqb].
    unfold get_mod, upd_mod. cbn [w_mods set_mods].
    unfold get_mod in Hm.
    assert (Hn : forall (l : list modrec) i x f, nth_error l i = Some x -> nth_error (upd_nth i f l) i = Some (f x)).
    { induction l as [|y l IHl]; intros [|i] x f Hx; cbn in *; try discriminate; [inversion Hx; reflexivity|auto]. }
    rewrite (Hn _ _ _ _ Hm). eexists. split; [reflexivity|]. cbn. auto.
  Qed.

  (* ================= C13: when does a handler run ================= *)

  (* the decision push_evt takes for a user (non internal) event, as a function of
     the source priority, the batch size and the number of events accumulated
     INCLUDING the new one *)
  Definition flush_now (p : option prio) (batch_len : N) (accumulated : nat) : bool :=
    match p with
    | Some PLow => false
    | Some PHigh => true
    | _ => N.leb batch_len (N.of_nat accumulated)
    end.

  Theorem flush_now_cases :
    (forall bl n, flush_now (Some PHigh) bl n = true) /\                       (* high priority: always *)
    (forall bl n, flush_now (Some PLow) bl n = false) /\                       (* low priority: never by itself *)
    (forall n, flush_now (Some PNorm) 0 n = true) /\                           (* no batching configured: at once *)
    (forall bl n, flush_now (Some PNorm) bl n = true <-> (bl <= N.of_nat n)%N) /\   (* normal: when the count reached the batch size *)
    (forall bl n, flush_now None bl n = flush_now (Some PNorm) bl n).          (* tell/broadcast: like normal *)
  Proof. split; [reflexivity|]. split; [reflexivity|]. split; [intros; cbn; apply N.leb_le; lia|].
         split; [intros; cbn; apply N.leb_le|reflexivity]. Qed.

  Theorem push_evt_user_event w m mr e i s :
    get_mod w m = Some mr -> e_src e = Some i -> get_src w i = Some s -> f_internal (s_fl s) = INone ->
    let e1 := mkEvt (e_obj e) (e_id e) (e_kind e) (e_src e) (e_pay e) (s_up s) in
    let b := m_batch mr ++ [e1] in
    push_evt run_cb w m e =
    if flush_now (Some (f_prio (s_fl s))) (m_batch_len mr) (length b)
    then call_pubsub_cb run_cb (upd_mod (upd_mod w m (mod_with_batch (m_batch_len mr) (m_batch_tmr mr) b)) m
                                        (mod_with_batch (m_batch_len mr) (m_batch_tmr mr) [])) m b
    else upd_mod w m (mod_with_batch (m_batch_len mr) (m_batch_tmr mr) b).
  Proof.
    intros Hm Hs Hg Hi. cbn zeta. unfold push_evt. rewrite Hm, Hs, Hg, Hi. cbn [flush_now].
    destruct (f_prio (s_fl s)); cbn [orb]; reflexivity.
  Qed.

  (* the batch timeout: everything accumulated is handed over, in arrival order, in one invocation *)
  Theorem push_evt_batch_timer w m mr e i s :
    get_mod w m = Some mr -> e_src e = Some i -> get_src w i = Some s -> f_internal (s_fl s) = IBatch ->
    push_evt run_cb w m e =
    let w1 := hunref w (e_obj e) in
    match get_mod w1 m with
    | Some mr2 => match m_batch mr2 with
                  | [] => w1
                  | b => call_pubsub_cb run_cb (upd_mod w1 m (mod_with_batch (m_batch_len mr2) (m_batch_tmr mr2) [])) m b
                  end
    | None => w1
    end.
  Proof. intros Hm Hs Hg Hi. unfold push_evt. rewrite Hm, Hs, Hg, Hi. reflexivity. Qed.

  (* ================= C16: stash / unstash ================= *)

  Theorem unstash_exact cur w m n mr w1 :
    uref_count w m <> 0 -> mod_assert_state w m [MRunning] = None -> n <> 0 -> consume_token w m = Some w1 -> get_mod w1 m = Some mr ->
    exists t a, exec cur w (CUnstash m n) =
      ret (call_pubsub_cb run_cb (upd_mod (emit w1 (TMark t a)) m (mod_with_stash (skipn n (m_stash mr)))) m (firstn n (m_stash mr)))
          (Z.of_nat (length (firstn n (m_stash mr)))).
  Proof.
    intros Hu Ha Hn Ht Hm. unfold CoreExec.exec, exec_own. cbn [call_handle]. rewrite emit_uref.
    destruct (Nat.eqb_spec (uref_count w m) 0); [contradiction|]. unfold exec_call.
    rewrite emit_mod_assert_state, Ha. destruct (Nat.eqb_spec n 0); [contradiction|].
    rewrite (consume_token_emit _ _ _ _ Ht).
    match goal with |- context [get_mod (emit w1 ?t) m] => change (get_mod (emit w1 t) m) with (get_mod w1 m) end. rewrite Hm.
    eexists. eexists. reflexivity.
  Qed.

  Lemma firstn_min_length {A} n (l : list A) : length (firstn n l) = Nat.min n (length l).
  Proof. apply firstn_length. Qed.

  Theorem stash_appends cur w m k e mr w1 :
    uref_count w m <> 0 -> mod_assert_state w m [MRunning] = None -> nth_error cur k = Some e -> consume_token w m = Some w1 ->
    get_mod w1 m = Some mr ->
    (match e_src e with
     | Some i => match get_src w1 i with Some s => match f_prio (s_fl s) with PHigh => false | _ => true end | None => true end
     | None => true end) = true ->
    exists t a, exec cur w (CStash m k) = ret (upd_mod (href (emit w1 (TMark t a)) (e_obj e)) m (mod_with_stash (m_stash mr ++ [e]))) 0.
  Proof.
    intros Hu Ha Hk Ht Hm Hp. unfold CoreExec.exec, exec_own. cbn [call_handle]. rewrite emit_uref.
    destruct (Nat.eqb_spec (uref_count w m) 0); [contradiction|]. unfold exec_call.
    rewrite emit_mod_assert_state, Ha, Hk. rewrite (consume_token_emit _ _ _ _ Ht).
    match goal with |- context [get_mod (emit w1 ?t) m] => change (get_mod (emit w1 t) m) with (get_mod w1 m) end.
    destruct (e_src e) as [i|].
    - match goal with |- context [get_src (emit w1 ?t) i] => change (get_src (emit w1 t) i) with (get_src w1 i) end.
      destruct (get_src w1 i) as [s|]; [destruct (f_prio (s_fl s)); try discriminate|]; rewrite Hm; eexists; eexists; reflexivity.
    - rewrite Hm. eexists; eexists; reflexivity.
  Qed.

  (* high priority events cannot be stashed *)
  Theorem stash_high_refused cur w m k e i s w1 :
    uref_count w m <> 0 -> mod_assert_state w m [MRunning] = None -> nth_error cur k = Some e -> consume_token w m = Some w1 ->
    e_src e = Some i -> get_src w1 i = Some s -> f_prio (s_fl s) = PHigh ->
    exists t a, exec cur w (CStash m k) = ret (emit w1 (TMark t a)) rEPERM.
  Proof.
    intros Hu Ha Hk Ht Hs Hg Hp. unfold CoreExec.exec, exec_own. cbn [call_handle]. rewrite emit_uref.
    destruct (Nat.eqb_spec (uref_count w m) 0); [contradiction|]. unfold exec_call.
    rewrite emit_mod_assert_state, Ha, Hk. rewrite (consume_token_emit _ _ _ _ Ht). rewrite Hs.
    match goal with |- context [get_src (emit w1 ?t) i] => change (get_src (emit w1 t) i) with (get_src w1 i) end.
    rewrite Hg, Hp. eexists; eexists; reflexivity.
  Qed.
End Local2.
