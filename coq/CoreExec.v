(* CoreExec.v -- the public API as scripted calls, the blocking loop, and the
   fuel knot that makes scripted callbacks re-entrant. *)
From LM Require Import Base CoreTypes CoreModel.

Section Exec.
  Variable sc : script.
  Variable run_cb : world -> modid -> cbkind -> nat -> list evtrec -> world * bool.

  Notation start_mod := (start_mod sc run_cb).
  Notation stop_mod := (stop_mod sc run_cb).
  Notation mod_deregister := (mod_deregister sc run_cb).
  Notation call_pubsub_cb := (call_pubsub_cb run_cb).
  Notation loop_start := (loop_start sc run_cb).
  Notation loop_stop := (loop_stop sc run_cb).
  Notation recv_events := (recv_events sc run_cb).
  Notation deliver := (deliver sc).
  Notation tell_system := (tell_system sc).

  Definition ret (w : world) (z : Z) : world := emit w (TRet z).
  Definition retp (p : world * Z) : world := ret (fst p) (snd p).

  (* M_MEM_LOCK around the state setters *)
  Definition locked (m : modid) (f : world -> world * Z) (w : world) : world * Z :=
    let w1 := lock_mod w m in
    let '(w2, r) := f w1 in
    (unlock_mod w2 m, r).

  Definition do_ctx_dereg (w : world) : world * Z :=
    ctx_deregister w (fun w m => fst (mod_deregister (dereg_fuel w) w m false)).

  (* M_MOD_ASSERT_PERM *)
  Definition mod_assert_perm (w : world) (m : modid) (deny : modrec -> bool) : option Z :=
    match mod_assert w m with
    | Some e => Some e
    | None => match get_mod w m with
              | Some mr => if deny mr then Some rEPERM else None
              | None => Some rEINVAL end
    end.

  Definition ctx_of_mod (w : world) (m : modid) : option oid :=
    match get_mod w m with
    | Some mr => match nth_error (w_heap w) (m_obj mr) with
                 | Some ob => hd_error (o_links ob)
                 | None => None end
    | None => None end.

  (* the pub/sub send path shared by tell / publish / broadcast *)
  Definition send_msg (w : world) (m : modid) (recipient : option modid) (topic : option N) (data : N) (af : bool) : world * Z :=
    if N.eqb data 0 then (w, rEINVAL) else
    match get_mod w m with
    | None => (w, rEINVAL)
    | Some mr =>
        let w1 := upd_mod w m (mod_with_counts (S (m_sent mr)) (m_recvd mr)) in
        if af then
          let '(w2, d) := halloc w1 OData [] data in
          let w3 := deliver w2 recipient false (Some m) topic data false (Some d) in
          (hunref w3 d, 0%Z)
        else (deliver w1 recipient false (Some m) topic data false None, 0%Z)
    end.

  (* m_mod_ps_tell *)
  Definition tell_step (w : world) (m r : modid) (data : N) (af : bool) : world * Z :=
    match mod_assert_perm w m m_denypub with
    | Some e => (w, e)
    | None =>
        if Nat.eqb (uref_count w r) 0 then (w, rEINVAL) else
        if negb (match ctx_of_mod w m, ctx_of_mod w r with Some a, Some b => Nat.eqb a b | _, _ => false end) then (w, rEINVAL) else
        match consume_token w m with
        | None => (w, rEAGAIN)
        | Some w1 => send_msg w1 m (Some r) None data af
        end
    end.

  Definition count_user_srcs (w : world) (mr : modrec) (k : nat) : nat :=
    let user i := match get_src w i with
                  | Some s => match f_internal (s_fl s) with INone => true | _ => false end
                  | None => false end in
    let of_kind i := match get_src w i with
                     | Some s => Nat.eqb (skind_num (s_kind s)) k || Nat.eqb k 8
                     | None => false end in
    (if Nat.eqb k 0 || Nat.eqb k 8
     then match m_subs mr with Some subs => length (filter user subs) | None => 0 end else 0) +
    length (filter (fun i => user i && of_kind i &&
                             match get_src w i with Some s => negb (skind_eqb (s_kind s) KPs) | None => false end) (m_srcs mr)).

  (* the blocking loop: at a poll point with nothing ready, the environment performs
     its next scripted action; with no action left the real loop would block for ever *)
  Fixpoint loop_iter (fuel : nat) (exec_env : world -> call -> world) (w : world) (env : list call) : world :=
    match fuel with
    | O => emit w (TFault 3)
    | S f =>
        match w_tls w with
        | None => w
        | Some c =>
            if c_quit c || Nat.eqb (c_running c) 0 then w else
            match ready_set w with
            | [] => match env with
                    | [] => emit w (TFault 9)                (* BLOCKED *)
                    | a :: rest => loop_iter f exec_env (exec_env w a) rest
                    end
            | _ => loop_iter f exec_env (fst (recv_events w)) env
            end
        end
    end.

  Definition exec_env (w : world) (c : call) : world :=
    match c with
    | CFdWrite fd =>
        if existsb (fun p => N.eqb (fst p) fd) (w_ufd w)
        then set_ufd w (map (fun p => if N.eqb (fst p) fd then (fst p, S (snd p)) else p) (w_ufd w))
        else set_ufd w (w_ufd w ++ [(fd, 1)])
    | CFire m KPath key =>
        (* a file is modified: EVERY armed watch of that path sees it, whichever module registered it *)
        set_srcs w (map (fun s => if skind_eqb (s_kind s) KPath && N.eqb (s_key s) key && s_armed s
                                  then src_with true (S (s_pending s)) (s_shot s) s else s) (w_srcs w))
    | CFire m k key =>
        match get_mod w m with
        | Some mr => match find_src w mr k key with
                     | Some i => match get_src w i with
                                 | Some s => if s_armed s then upd_src w i (src_with true (S (s_pending s)) (s_shot s)) else w
                                 | None => w end
                     | None => w end
        | None => w end
    | CFireTick =>
        match w_tls w with
        | Some c => match c_tick c with
                    | Some t => match get_src w t with
                                | Some s => if s_armed s then upd_src w t (src_with true (S (s_pending s)) (s_shot s)) else w
                                | None => w end
                    | None => w end
        | None => w end
    | CSetErrno e => set_errno w e
    | _ => w
    end.

  (* the module handle a call is made on: a user without a reference passes NULL *)
  Definition call_handle (c : call) : option modid :=
    match c with
    | CDereg m | CStart m | CPause m | CResume m | CStop m | CBecome m _ | CUnbecome m
    | CTellMany m _ _ _ | CStash m _ | CUnstash m _ | CBatchSize m _ | CBatchTimeout m _ | CTokenBucket m _ _
    | CSub m _ _ _ _ | CUnsub m _ | CTell m _ _ _ | CPublish m _ _ _ | CBroadcast m _ _ | CPill m _
    | CSrcReg m _ _ _ _ _ _ | CSrcLen m _ => Some m
    | CSrcDereg m k _ => match k with KTask => None | _ => Some m end     (* tasks: -EPERM before anything else *)
    | _ => None
    end.

  Definition exec_call (cur : list evtrec) (w : world) (c : call) : world :=
    match c with
    (* ---------------- context ---------------- *)
    | CCtxReg persist =>
        match w_tls w with
        | Some _ => ret w rEEXIST
        | None =>
            let '(w1, o) := halloc w OCtx [] 0 in
            let w2 := set_fds w1 (S (w_fds w1)) in
            ret (set_tls w2 (Some (mkCtx o CIdle false 0 false persist [] None 0 0 0 None 0))) 0
        end
    | CCtxDereg => retp (do_ctx_dereg w)
    | CCtxFinalize =>
        match the_ctx w with
        | None => ret w rEPIPE
        | Some _ => ret (upd_ctx w (ctx_with_final true)) 0
        end
    | CCtxLoop =>
        match the_ctx w with
        | None => ret w rEPIPE
        | Some c =>
            match c_state c with
            | CIdle =>
                let '(w1, _) := loop_start w in
                (* the environment actions of a blocking loop come right after it in the procedure: see run_calls *)
                w1
            | _ => ret w rEINVAL
            end
        end
    | CCtxDispatch =>
        match the_ctx w with
        | None => ret w rEPIPE
        | Some c =>
            match c_state c with
            | CZombie => ret w rEINVAL
            | CIdle => retp (loop_start w)
            | CLooping =>
                if c_quit c || Nat.eqb (c_running c) 0 then retp (loop_stop w do_ctx_dereg)
                else retp (recv_events w)
            end
        end
    | CCtxQuit code =>
        match the_ctx w with
        | None => ret w rEPIPE
        | Some c => match c_state c with
                    | CLooping => ret (upd_ctx w (ctx_with_quit true code)) 0
                    | _ => ret w rEINVAL end
        end
    | CCtxLen =>
        match the_ctx w with
        | None => ret w rEPIPE
        | Some c => ret w (Z.of_nat (length (c_modules c)))
        end
    | CCtxStats =>
        match the_ctx w with
        | None => ret w rEPIPE
        | Some c => match c_state c with
                    | CLooping => emit (emit (ret w 0) (TVal (Z.of_nat (c_running c))))
                                       (TVal (Z.of_nat (length (filter (fun p => match get_mod w (snd p) with
                                                                                | Some mr => mstate_eqb (m_state mr) MRunning
                                                                                | None => false end) (c_modules c)))))
                    | _ => ret w rEINVAL end
        end
    | CCtxSetTick ns =>
        match the_ctx w with
        | None => ret w rEPIPE
        | Some c =>
            let w1 := match c_tick c with
                      | Some t => let w' := poll_rm w t in
                                  let w'' := match src_obj w' (Some t) with Some so => del_link w' (c_obj c) so | None => w' end in
                                  upd_ctx (hunref_opt w'' (src_obj w'' (Some t))) (ctx_with_tick (c_tick_ns c) None)
                      | None => w end in
            if N.eqb ns 0 then ret w1 0 else
            let '(w2, i) := new_src w1 None KTmr ns (mkSF PHigh false false false false ITick) 0 in
            let w3 := match c_state c with CLooping => poll_add w2 i | _ => w2 end in
            (* ctx_dtor releases the tick source *)
            let w4 := match src_obj w3 (Some i) with Some so => add_link w3 (c_obj c) so | None => w3 end in
            ret (upd_ctx w4 (ctx_with_tick ns (Some i))) 0
        end
    (* ---------------- module lifecycle ---------------- *)
    | CReg m => retp (mod_register sc run_cb w m)
    | CDereg m => retp (mod_deregister (dereg_fuel w) w m true)
    | CStart m =>
        match mod_assert_state w m [MIdle; MStopped] with
        | Some e => ret w e
        | None => match consume_token w m with
                  | None => ret w rEAGAIN
                  | Some w1 => retp (locked m (fun w => start_mod w m true) w1) end
        end
    | CPause m =>
        match mod_assert_state w m [MRunning] with
        | Some e => ret w e
        | None => match consume_token w m with
                  | None => ret w rEAGAIN
                  | Some w1 => retp (locked m (fun w => stop_mod w m false) w1) end
        end
    | CResume m =>
        match mod_assert_state w m [MPaused] with
        | Some e => ret w e
        | None => match consume_token w m with
                  | None => ret w rEAGAIN
                  | Some w1 => retp (locked m (fun w => start_mod w m false) w1) end
        end
    | CStop m =>
        match mod_assert_state w m [MRunning; MPaused] with
        | Some e => ret w e
        | None => match consume_token w m with
                  | None => ret w rEAGAIN
                  | Some w1 => retp (locked m (fun w => stop_mod w m true) w1) end
        end
    | CState m =>
        if Nat.eqb (uref_count w m) 0 then ret w rEINVAL else
        match get_mod w m with
        | Some mr => emit w (TState m (m_state mr))
        | None => ret w rEINVAL end
    | CRef m =>
        if Nat.eqb (uref_count w m) 0 then ret w rEINVAL else
        match get_mod w m with
        | Some mr => ret (set_urefs (href w (m_obj mr)) (upd_nth m S (w_urefs w))) 0
        | None => ret w rEINVAL end
    | CUnref m =>
        if Nat.eqb (uref_count w m) 0 then ret w rEINVAL else
        match get_mod w m with
        | Some mr => ret (hunref (set_urefs w (upd_nth m (fun n => n - 1) (w_urefs w))) (m_obj mr)) 0
        | None => ret w rEINVAL end
    (* ---------------- handlers, stash ---------------- *)
    | CBecome m h =>
        match mod_assert_state w m [MRunning] with
        | Some e => ret w e
        | None => match consume_token w m with
                  | None => ret w rEAGAIN
                  | Some w1 => match get_mod w1 m with
                               | Some mr => ret (upd_mod w1 m (mod_with_recvs (h :: m_recvs mr))) 0
                               | None => ret w1 rEINVAL end
                  end
        end
    | CUnbecome m =>
        match mod_assert_state w m [MRunning] with
        | Some e => ret w e
        | None => match consume_token w m with
                  | None => ret w rEAGAIN
                  | Some w1 => match get_mod w1 m with
                               | Some mr => match m_recvs mr with
                                            | _ :: r => ret (upd_mod w1 m (mod_with_recvs r)) 0
                                            | [] => ret w1 rEINVAL end
                               | None => ret w1 rEINVAL end
                  end
        end
    | CStash m k =>
        match mod_assert_state w m [MRunning] with
        | Some e => ret w e
        | None =>
            match nth_error cur k with
            | None => ret w rEINVAL
            | Some e =>
                match consume_token w m with
                | None => ret w rEAGAIN
                | Some w1 =>
                    let high := match e_src e with
                                | Some i => match get_src w1 i with
                                            | Some s => match f_prio (s_fl s) with PHigh => true | _ => false end
                                            | None => false end
                                | None => false end in
                    if high then ret w1 rEPERM else
                    match get_mod w1 m with
                    | Some mr => ret (upd_mod (href w1 (e_obj e)) m (mod_with_stash (m_stash mr ++ [e]))) 0
                    | None => ret w1 rEINVAL end
                end
            end
        end
    | CUnstash m n =>
        match mod_assert_state w m [MRunning] with
        | Some e => ret w e
        | None =>
            if Nat.eqb n 0 then ret w rEINVAL else
            match consume_token w m with
            | None => ret w rEAGAIN
            | Some w1 =>
                match get_mod w1 m with
                | Some mr =>
                    let take := firstn n (m_stash mr) in
                    let w2 := upd_mod w1 m (mod_with_stash (skipn n (m_stash mr))) in
                    (* the stash's reference moves to the delivery queue *)
                    ret (call_pubsub_cb w2 m take) (Z.of_nat (length take))
                | None => ret w1 rEINVAL end
            end
        end
    | CEvtRef k =>
        match nth_error cur k with
        | Some e => ret (set_uevts (href w (e_obj e)) (w_uevts w ++ [e])) 0
        | None => ret w rEINVAL end
    | CEvtUnref j =>
        match nth_error (w_uevts w) j with
        | Some e => ret (hunref (set_uevts w (remove_nth j (w_uevts w))) (e_obj e)) 0
        | None => ret w rEINVAL end
    (* ---------------- batching, token bucket ---------------- *)
    | CBatchSize m n =>
        match mod_assert w m with
        | Some e => ret w e
        | None => match consume_token w m with
                  | None => ret w rEAGAIN
                  | Some w1 => match get_mod w1 m with
                               | Some mr => ret (upd_mod w1 m (mod_with_batch n (m_batch_tmr mr) (m_batch mr))) 0
                               | None => ret w1 rEINVAL end
                  end
        end
    | CBatchTimeout m ns =>
        match mod_assert w m with
        | Some e => ret w e
        | None =>
            match get_mod w m with
            | None => ret w rEINVAL
            | Some mr =>
                let w1 := if N.eqb (m_batch_tmr mr) 0 then w else fst (deregister_mod_src w m KTmr (m_batch_tmr mr)) in
                match get_mod w1 m with
                | None => ret w1 rEINVAL
                | Some mr1 =>
                    if N.eqb ns 0 then
                      ret (upd_mod w1 m (mod_with_batch (if N.eqb (m_batch_len mr1) cSIZE_MAX then 0%N else m_batch_len mr1) 0 (m_batch mr1))) 0
                    else
                      let w2 := upd_mod w1 m (mod_with_batch (if N.eqb (m_batch_len mr1) 0 then cSIZE_MAX else m_batch_len mr1) ns (m_batch mr1)) in
                      retp (register_mod_src w2 m KTmr ns 3 false false IBatch 0)
                end
            end
        end
    | CTokenBucket m rate burst =>
        match mod_assert w m with
        | Some e => ret w e
        | None =>
            if N.ltb cBILLION rate then ret w rEINVAL else
            match get_mod w m with
            | None => ret w rEINVAL
            | Some mr =>
                let w1 := if N.eqb (m_tb_tmr mr) 0 then w else fst (deregister_mod_src w m KTmr (m_tb_tmr mr)) in
                if N.eqb rate 0 then ret (upd_mod w1 m (mod_with_tb 0 None None 0)) 0 else
                let w2 := upd_mod w1 m (mod_with_tb rate (Some burst) (Some burst) (cBILLION / rate)) in
                retp (register_mod_src w2 m KTmr (cBILLION / rate) 3 false false ITb 0)
            end
        end
    (* ---------------- pub/sub ---------------- *)
    | CSub m topic p oneshot up =>
        match mod_assert_perm w m m_denysub with
        | Some e => ret w e
        | None =>
            if Nat.leb 4 p then ret w rEINVAL else
            match consume_token w m with
            | None => ret w rEAGAIN
            | Some w1 =>
                match get_mod w1 m with
                | None => ret w1 rEINVAL
                | Some mr =>
                    let pr := match p with 1 => PLow | 3 => PHigh | _ => PNorm end in
                    let fl := mkSF pr false oneshot false false INone in
                    let subs := match m_subs mr with Some s => s | None => [] end in
                    let key_of i := match get_src w1 i with Some s => s_key s | None => 0%N end in
                    let old := find (fun i => N.eqb (key_of i) topic) subs in
                    let same := match old with
                                | Some i => match get_src w1 i with
                                            | Some s => (match f_prio (s_fl s), pr with
                                                         | PLow, PLow | PNorm, PNorm | PHigh, PHigh => true | _, _ => false end)
                                                        && Bool.eqb (f_oneshot (s_fl s)) oneshot
                                            | None => false end
                                | None => false end in
                    match old, same with
                    | Some i, true => ret (upd_src w1 i (src_with_up up)) 0
                    | _, _ =>
                        let '(w2, i) := new_src w1 (Some m) KSub topic fl up in
                        (* m_map_put with ALLOW_UPDATE: an old entry with this topic is destroyed *)
                        let subs1 := filter (fun j => negb (N.eqb (key_of j) topic)) subs in
                        let ins := map snd (tbl_insert (tslot sc topic) i (map (fun j => (tslot sc (key_of j), j)) subs1)) in
                        let w3 := upd_mod w2 m (mod_with_subs (Some ins)) in
                        ret (match old with Some j => hunref_opt w3 (src_obj w3 (Some j)) | None => w3 end) 0
                    end
                end
            end
        end
    | CUnsub m topic =>
        match mod_assert_perm w m m_denysub with
        | Some e => ret w e
        | None =>
            match consume_token w m with
            | None => ret w rEAGAIN
            | Some w1 =>
                match get_mod w1 m with
                | None => ret w1 rEINVAL
                | Some mr =>
                    match m_subs mr with
                    | None | Some [] => ret w1 rEINVAL
                    | Some subs =>
                        let key_of i := match get_src w1 i with Some s => s_key s | None => 0%N end in
                        match find (fun i => N.eqb (key_of i) topic) subs with
                        | None => ret w1 rENOENT
                        | Some i =>
                            let rest := filter (fun j => negb (Nat.eqb j i)) subs in
                            let w2 := upd_mod w1 m (mod_with_subs (match rest with [] => None | _ => Some rest end)) in
                            ret (hunref_opt w2 (src_obj w2 (Some i))) 0
                        end
                    end
                end
            end
        end
    | CTell m r data af => retp (tell_step w m r data af)
    | CTellMany m r data n =>
        retp ((fix go (k : nat) (acc : world * Z) : world * Z :=
                 match k with O => acc | S k' => go k' (tell_step (fst acc) m r data false) end) n (w, 0%Z))
    | CPublish m topic data af =>
        match mod_assert_perm w m m_denypub with
        | Some e => ret w e
        | None =>
            if is_system_topic topic then ret w rEPERM else
            match consume_token w m with
            | None => ret w rEAGAIN
            | Some w1 => retp (send_msg w1 m None (Some topic) data af)
            end
        end
    | CBroadcast m data af =>
        match mod_assert_perm w m m_denypub with
        | Some e => ret w e
        | None =>
            match consume_token w m with
            | None => ret w rEAGAIN
            | Some w1 => retp (send_msg w1 m None None data af)
            end
        end
    | CPill m r =>
        match mod_assert_perm w m m_denypub with
        | Some e => ret w e
        | None =>
            if Nat.eqb (uref_count w r) 0 then ret w rEINVAL else
            if negb (match ctx_of_mod w m, ctx_of_mod w r with Some a, Some b => Nat.eqb a b | _, _ => false end) then ret w rEINVAL else
            match get_mod w r with
            | Some rr =>
                if negb (mstate_eqb (m_state rr) MRunning) then ret w rEINVAL else
                match consume_token w m with
                | None => ret w rEAGAIN
                | Some w1 => ret (tell_system w1 (Some r) (Some m) tPILL true) 0
                end
            | None => ret w rEINVAL end
        end
    (* ---------------- sources ---------------- *)
    | CSrcReg m k key p0 oneshot autoclose up =>
        (* the priority field of a script also carries the M_SRC_DUP request (8 + priority); it matters for descriptors only *)
        let dup := Nat.leb 8 p0 in
        let p := if dup then p0 - 8 else p0 in
        let bad := match k with
                   | KFd => negb (Nat.eqb p 0 || Nat.eqb p 3)
                   | KPs | KSub => true
                   | _ => N.eqb key 0 end in
        if bad then ret w rEINVAL else
        if dup && skind_eqb k KFd then retp (register_dup_fd w m key p oneshot up)
        else retp (register_mod_src w m k key p oneshot autoclose INone up)
    | CSrcDereg m k key =>
        let bad := match k with KFd => false | KPs | KSub => true | KTask => false | _ => N.eqb key 0 end in
        if bad then ret w rEINVAL else
        match k with
        | KTask => ret w rEPERM
        | _ => retp (deregister_mod_src w m k key)
        end
    | CSrcLen m k =>
        match mod_assert w m with
        | Some e => ret w e
        | None => match get_mod w m with
                  | Some mr => ret w (Z.of_nat (count_user_srcs w mr k))
                  | None => ret w rEINVAL end
        end
    (* ---------------- environment ---------------- *)
    | CFdWrite _ | CFire _ _ _ | CFireTick | CSetErrno _ => ret (exec_env w c) 0
    | CForeign _ _ => w            (* handled by exec *)
    | CLive =>
        emit w (TLive (count_live w OMod) (count_live w OSrc) (count_live w OMsg) (count_live w OEvt)
                      (count_live w OData) (count_live w OCtx) (w_fds w))
    end.

  Definition call_tag (c : call) : nat :=
    match c with
    | CCtxReg _ => 1 | CCtxDereg => 2 | CCtxFinalize => 3 | CCtxLoop => 4 | CCtxDispatch => 5 | CCtxQuit _ => 6
    | CCtxLen => 7 | CCtxStats => 8 | CCtxSetTick _ => 9 | CReg _ => 10 | CDereg _ => 11 | CStart _ => 12
    | CPause _ => 13 | CResume _ => 14 | CStop _ => 15 | CState _ => 16 | CRef _ => 17 | CUnref _ => 18
    | CBecome _ _ => 19 | CUnbecome _ => 20 | CStash _ _ => 21 | CUnstash _ _ => 22 | CEvtRef _ => 23 | CEvtUnref _ => 24
    | CBatchSize _ _ => 25 | CBatchTimeout _ _ => 26 | CTokenBucket _ _ _ => 27 | CSub _ _ _ _ _ => 28 | CUnsub _ _ => 29
    | CTell _ _ _ _ => 30 | CPublish _ _ _ _ => 31 | CBroadcast _ _ _ => 32 | CPill _ _ => 33
    | CSrcReg _ _ _ _ _ _ _ => 34 | CSrcDereg _ _ _ => 35 | CSrcLen _ _ => 36
    | CFdWrite _ => 37 | CFire _ _ _ => 38 | CFireTick => 39 | CSetErrno _ => 40 | CLive => 41 | CTellMany _ _ _ _ => 42
    | CForeign _ _ => 43
    end.

  Definition call_arg (c : call) : N :=
    match c with
    | CTell _ _ d _ | CPublish _ _ d _ | CBroadcast _ d _ | CTellMany _ _ d _ => d
    | CStash m k => N.of_nat (100 * (m + 1) + (k + 1))
    | _ => 0%N
    end.

  (* every scripted call announces itself in the trace (TMark), then runs *)
  Definition exec_own (cur : list evtrec) (w0 : world) (c : call) : world :=
    let w := emit w0 (TMark (call_tag c) (call_arg c)) in
    match call_handle c with
    | Some m => if Nat.eqb (uref_count w m) 0 then ret w rEINVAL else exec_call cur w c
    | None => exec_call cur w c
    end.

  (* a call made by another thread: that thread's m_ctx() is its own context (a fresh one) or NULL *)
  Definition exec (cur : list evtrec) (w0 : world) (c : call) : world :=
    match c with
    | CForeign own c' =>
        let saved := w_tls w0 in
        let w1 := set_tls (emit w0 (TMark 43 0)) None in
        let w2 := if own then
                    let '(wa, o) := halloc w1 OCtx [] 0 in
                    set_tls (set_fds wa (S (w_fds wa))) (Some (mkCtx o CIdle false 0 false true [] None 0 0 0 None 0))
                  else w1 in
        let w3 := match c' with CForeign _ _ => w2 | _ => exec_own cur w2 c' end in
        let w4 := if own then match w_tls w3 with Some c2 => hunref (set_tls w3 None) (c_obj c2) | None => w3 end else w3 in
        set_tls w4 saved
    | _ => exec_own cur w0 c
    end.

  (* a procedure: calls in sequence; a blocking loop consumes the environment
     actions that follow it in the procedure (up to the next non-environment call) *)
  Definition is_env (c : call) : bool :=
    match c with CFdWrite _ | CFire _ _ _ | CFireTick => true | _ => false end.
  Fixpoint split_env (l : list call) : list call * list call :=
    match l with
    | c :: r => if is_env c then let '(a, b) := split_env r in (c :: a, b) else ([], l)
    | [] => ([], [])
    end.

  Fixpoint run_calls (fuel : nat) (cur : list evtrec) (w : world) (l : list call) : world :=
    match fuel with
    | O => emit w (TFault 3)
    | S f =>
        match l with
        | [] => w
        | CCtxLoop :: r =>
            let w := emit w (TMark 4 0) in
            match the_ctx w with
            | Some c =>
                match c_state c with
                | CIdle =>
                    let '(env, rest) := split_env r in
                    let w1 := fst (loop_start w) in
                    let w2 := loop_iter (2 * length env + 64) exec_env w1 env in
                    if existsb (fun t => match t with TFault _ => true | _ => false end) (firstn 1 (w_trace w2))
                    then w2                                   (* blocked / out of fuel: the run ends here *)
                    else run_calls f cur (retp (loop_stop w2 do_ctx_dereg)) rest
                | _ => run_calls f cur (ret w rEINVAL) r
                end
            | None => run_calls f cur (ret w rEPIPE) r
            end
        | c :: r => run_calls f cur (exec cur w c) r
        end
    end.
End Exec.

(* ---------- tying the knot: scripted callbacks ---------- *)
Definition cb_kind_eqb (a b : cbkind) : bool :=
  match a, b with CbEval, CbEval | CbStart, CbStart | CbStop, CbStop | CbEvt, CbEvt => true | _, _ => false end.

Definition lookup_cb (sc : script) (m : modid) (k : cbkind) (h n : nat) : cbspec :=
  match find (fun e => let '(m', k', h', _) := e in Nat.eqb m' m && cb_kind_eqb k' k && Nat.eqb h' h) (sc_cbs sc) with
  | Some (_, _, _, l) => nth n l (mkCB 0 true)
  | None => mkCB 0 true                      (* procedure 0 is the empty procedure by convention *)
  end.

Fixpoint run_cb_f (fuel : nat) (sc : script) (w : world) (m : modid) (k : cbkind) (h : nat) (evts : list evtrec) : world * bool :=
  match fuel with
  | O => (emit w (TFault 3), true)
  | S f =>
      let n := match get_mod w m with
               | Some mr => match k with CbEval => m_eval_n mr | CbStart => m_start_n mr | CbStop => m_stop_n mr | CbEvt => m_evt_n mr end - 1
               | None => 0 end in
      let sp := lookup_cb sc m k h n in
      let body := nth (cb_proc sp) (sc_procs sc) [] in
      (run_calls sc (run_cb_f f sc) (length body + 1) evts w body, cb_ret sp)
  end.

Definition placeholder : modrec :=
  mkMod 0 0 MZombie false false false false false (mkHooks false false false) [] [] None None 0 0 [] [] 0 None None 0 0 0 0 0 0 0.
(* heap object 0 is a dummy, already freed object: the placeholders' object *)
Definition w_init (sc : script) : world :=
  mkW None (map (fun _ => placeholder) (sc_mods sc)) [] [mkObj OPay 0 [] 0] 0 [] (map (fun _ => 0) (sc_mods sc)) [] [] 0 0.

(* the top-level program is procedure 1 *)
Definition core_run (fuel : nat) (sc : script) : list tev :=
  let body := nth 1 (sc_procs sc) [] in
  rev (w_trace (run_calls sc (run_cb_f fuel sc) (length body + 1) [] (w_init sc) body)).
