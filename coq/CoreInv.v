(* CoreInv.v -- GLOBAL invariants of the actor-core model, generically.
   For any predicate P on (module id, module record) that every record update of the library respects (the hypotheses of
   Section Inv name each kind of update once, with the facts known at that site), P holds of every module in every world
   reachable by any script, whatever the scripted callbacks do: every API function preserves it, callbacks are handled by
   assuming it of `run_cb` and tying the knot on the interpreter's fuel (`inv_reachable`).
   Instances are in CoreInvInst.v. *)
From LM Require Import Base CoreTypes CoreModel CoreExec.
From Coq Require Import Lia.

(* ---------- model-level facts: who touches the module table ---------- *)
Lemma nth_upd_same {A} (l : list A) i f x : nth_error l i = Some x -> nth_error (upd_nth i f l) i = Some (f x).
Proof. revert i; induction l as [|a l IH]; intros [|i] H; cbn in *; try discriminate; [inversion H; reflexivity|auto]. Qed.
Lemma nth_upd_other {A} (l : list A) i j f : i <> j -> nth_error (upd_nth i f l) j = nth_error l j.
Proof. revert i j; induction l as [|a l IH]; intros [|i] [|j] H; cbn; try reflexivity; [congruence|apply IH; congruence]. Qed.
Lemma upd_nth_twice {A} (l : list A) i f g : upd_nth i f (upd_nth i g l) = upd_nth i (fun x => f (g x)) l.
Proof. revert i; induction l as [|a l IH]; intros i; [destruct i; reflexivity|]. destruct i; cbn; [reflexivity|rewrite IH; reflexivity]. Qed.
Lemma upd_nth_ext_at {A} (l : list A) i f a : nth_error l i = Some a -> upd_nth i f l = upd_nth i (fun _ => f a) l.
Proof. revert i; induction l as [|x l IH]; intros [|i] H; cbn in *; try discriminate; [inversion H; reflexivity|rewrite (IH i H); reflexivity]. Qed.
Lemma upd_nth_none {A} (l : list A) i f : nth_error l i = None -> upd_nth i f l = l.
Proof. revert i; induction l as [|x l IH]; intros i H; [destruct i; reflexivity|]. destruct i; cbn in *; [discriminate|rewrite (IH i H); reflexivity]. Qed.

Lemma mods_halloc w k l t : w_mods (fst (halloc w k l t)) = w_mods w. Proof. reflexivity. Qed.
Lemma mods_href w o : w_mods (href w o) = w_mods w.
Proof. unfold href. destruct (nth_error (w_heap w) o); [destruct (Nat.eqb _ 0)|]; reflexivity. Qed.
Lemma mods_dtor_effect w ob : w_mods (dtor_effect w ob) = w_mods w.
Proof.
  unfold dtor_effect. destruct (o_kind ob); try reflexivity.
  destruct (nth_error (w_srcs w) (N.to_nat (o_tag ob))) as [s|]; [|reflexivity].
  destruct (s_armed s), (f_autoclose (s_fl s)), (s_kind s), (f_dup (s_fl s)), (f_autofree (s_fl s)); reflexivity.
Qed.
Lemma mods_hunref_loop : forall fuel w work, w_mods (hunref_loop fuel w work) = w_mods w.
Proof.
  induction fuel as [|f IH]; intros w work; cbn [hunref_loop]; [reflexivity|].
  destruct work as [|o rest]; [reflexivity|]. destruct (nth_error (w_heap w) o) as [ob|]; [|rewrite IH; reflexivity].
  destruct (o_refs ob) as [|[|n]]; rewrite IH; try reflexivity. rewrite mods_dtor_effect. reflexivity.
Qed.
Lemma mods_hunref w o : w_mods (hunref w o) = w_mods w. Proof. apply mods_hunref_loop. Qed.
Lemma mods_href_opt w o : w_mods (href_opt w o) = w_mods w. Proof. destruct o; [apply mods_href|reflexivity]. Qed.
Lemma mods_hunref_opt w o : w_mods (hunref_opt w o) = w_mods w. Proof. destruct o; [apply mods_hunref|reflexivity]. Qed.
Lemma mods_unref_evts l : forall w, w_mods (unref_evts w l) = w_mods w.
Proof. induction l as [|e l IH]; intros w; cbn [unref_evts]; [reflexivity|]. rewrite IH. apply mods_hunref. Qed.
Lemma mods_fold_unsub l : forall w, w_mods (fold_left (fun w i => hunref_opt w (src_obj w (Some i))) l w) = w_mods w.
Proof. induction l as [|i l IH]; intros w; cbn [fold_left]; [reflexivity|]. rewrite IH. apply mods_hunref_opt. Qed.

(* what reset_module does to the record of its module *)
Definition reset_rec (mr : modrec) : modrec :=
  mod_with_tb 0 None None 0 (mod_with_batch 0 0 [] (mod_with_stash [] (mod_with_recvs []
    ((match m_subs mr with Some _ => mod_with_subs (Some []) | None => fun x => x end)
       ((match m_pipe mr with Some _ => mod_with_pipe None | None => fun x => x end) mr))))).

Lemma mods_reset w m mr : get_mod w m = Some mr -> w_mods (reset_module w m) = upd_nth m (fun _ => reset_rec mr) (w_mods w).
Proof.
  intros Hm. unfold reset_module. rewrite Hm. unfold upd_mod, set_mods at 1. cbn [w_mods].
  rewrite mods_unref_evts. cbn [w_mods set_mods]. rewrite mods_unref_evts. cbn [w_mods set_mods].
  rewrite !upd_nth_twice. unfold get_mod in Hm. unfold reset_rec.
  destruct (m_subs mr) as [subs|], (m_pipe mr) as [q|]; cbn [w_mods set_mods set_fds]; rewrite ?mods_fold_unsub; cbn [w_mods set_mods set_fds upd_mod];
    rewrite ?upd_nth_twice; rewrite (upd_nth_ext_at _ _ _ _ Hm); reflexivity.
Qed.

Lemma get_upd_mod_same w m f mr : get_mod w m = Some mr -> get_mod (upd_mod w m f) m = Some (f mr).
Proof. unfold get_mod, upd_mod, set_mods; cbn [w_mods]. apply nth_upd_same. Qed.

Lemma assert_state_running w m mr : mod_assert_state w m [MRunning] = None -> get_mod w m = Some mr -> m_state mr = MRunning.
Proof.
  unfold mod_assert_state. destruct (mod_assert w m); [discriminate|]. intros H Hm. rewrite Hm in H.
  unfold state_in in H. cbn [existsb] in H. destruct (m_state mr); cbn in H; try discriminate. reflexivity.
Qed.
Lemma consume_state w m w1 mr1 : consume_token w m = Some w1 -> get_mod w1 m = Some mr1 -> exists mr, get_mod w m = Some mr /\ m_state mr1 = m_state mr.
Proof.
  unfold consume_token. destruct (get_mod w m) as [mr|] eqn:Hm; [|discriminate]. intros Hc H1.
  destruct (m_tb_tokens mr) as [[|p]|]; try discriminate; injection Hc as <-.
  - rewrite (get_upd_mod_same _ _ _ _ Hm) in H1. injection H1 as <-. exists mr. split; reflexivity.
  - rewrite Hm in H1. injection H1 as <-. exists mr. split; reflexivity.
Qed.

Definition sameSt (w w' : world) : Prop := forall m, option_map m_state (get_mod w' m) = option_map m_state (get_mod w m).
Lemma sameSt_refl w : sameSt w w. Proof. intros m; reflexivity. Qed.
Lemma sameSt_trans w1 w2 w3 : sameSt w1 w2 -> sameSt w2 w3 -> sameSt w1 w3.
Proof. intros H1 H2 m. rewrite H2, H1. reflexivity. Qed.
Lemma sameSt_mods w w' : w_mods w' = w_mods w -> sameSt w w'.
Proof. intros E m. unfold get_mod. rewrite E. reflexivity. Qed.
Lemma sameSt_upd_mod w m f : (forall mr, m_state (f mr) = m_state mr) -> sameSt w (upd_mod w m f).
Proof.
  intros Hf i. unfold get_mod, upd_mod, set_mods; cbn [w_mods]. destruct (Nat.eq_dec m i) as [->|Hne].
  - destruct (nth_error (w_mods w) i) as [mr|] eqn:E; [rewrite (nth_upd_same _ _ _ _ E); cbn; rewrite Hf; reflexivity|rewrite (upd_nth_none _ _ _ E), E; reflexivity].
  - rewrite nth_upd_other by exact Hne. reflexivity.
Qed.
Lemma mods_poll_add w s : w_mods (poll_add w s) = w_mods w.
Proof. unfold poll_add. destruct (get_src w s) as [sr|]; [|reflexivity]. destruct (opens_fd (s_kind sr)); reflexivity. Qed.
Lemma mods_poll_rm w s : w_mods (poll_rm w s) = w_mods w.
Proof.
  unfold poll_rm. destruct (get_src w s) as [sr|]; [|reflexivity]. destruct (s_armed sr); [|reflexivity].
  destruct (_ && _), (opens_fd (s_kind sr)); reflexivity.
Qed.
Lemma sameSt_fold {A} (f : world -> A -> world) l : (forall w a, sameSt w (f w a)) -> forall w, sameSt w (fold_left f l w).
Proof. intros Hf. induction l as [|a l IH]; intros w; cbn [fold_left]; [apply sameSt_refl|]. eapply sameSt_trans; [apply Hf|apply IH]. Qed.
Lemma sameSt_consume w m w1 : consume_token w m = Some w1 -> sameSt w w1.
Proof.
  unfold consume_token. destruct (get_mod w m) as [mr|]; [|discriminate]. destruct (m_tb_tokens mr) as [[|p]|]; try discriminate; intros E; injection E as <-.
  - apply sameSt_upd_mod. reflexivity.
  - apply sameSt_refl.
Qed.
Lemma sameSt_register w m k key p one ac int up : sameSt w (fst (register_mod_src w m k key p one ac int up)).
Proof.
  unfold register_mod_src. destruct (mod_assert w m); [apply sameSt_refl|]. destruct (Nat.leb 4 p); [apply sameSt_refl|].
  destruct (consume_token w m) as [w1|] eqn:Ec; [|apply sameSt_refl]. pose proof (sameSt_consume _ _ _ Ec) as H1.
  destruct (get_mod w1 m) as [mr|]; [|exact H1]. cbn zeta. destruct (find_src w1 mr k key); [exact H1|].
  match goal with |- context [new_src ?a ?b ?c ?d ?e ?f] => assert (H2 : w_mods (fst (new_src a b c d e f)) = w_mods a); [|destruct (new_src a b c d e f) as [w2 i]; cbn [fst] in * ] end.
  { unfold new_src. cbn. destruct (_ && _); reflexivity. }
  eapply sameSt_trans; [exact H1|]. eapply sameSt_trans; [apply sameSt_mods, H2|].
  destruct (mstate_eqb _ _).
  - eapply sameSt_trans; [|apply sameSt_mods, mods_poll_add]. apply sameSt_upd_mod; reflexivity.
  - apply sameSt_upd_mod; reflexivity.
Qed.
Lemma mods_drain_pipe q : forall w, w_mods (drain_pipe w q) = w_mods w.
Proof. induction q as [|g q IH]; intros w; cbn [drain_pipe]; [reflexivity|]. rewrite IH. apply mods_hunref. Qed.
Lemma sameSt_remove_src_entry w m i : sameSt w (remove_src_entry w m i).
Proof. unfold remove_src_entry. destruct (get_mod w m); [apply sameSt_upd_mod; reflexivity|apply sameSt_refl]. Qed.
Lemma sameSt_drop_sources w m : sameSt w (drop_sources w m).
Proof.
  unfold drop_sources. destruct (get_mod w m) as [mr|]; [|apply sameSt_refl]. apply sameSt_fold. intros w0 i.
  match goal with |- sameSt w0 (hunref_opt (remove_src_entry (poll_rm ?x i) m i) _) => assert (H1 : sameSt w0 x) end.
  { destruct (get_src w0 i) as [s|]; [|apply sameSt_refl]. destruct (skind_eqb _ _); [|apply sameSt_refl].
    destruct (get_mod w0 m) as [mr'|]; [|apply sameSt_refl]. destruct (m_pipe mr'); [|apply sameSt_refl].
    eapply sameSt_trans; [|apply sameSt_mods, mods_drain_pipe]. apply sameSt_upd_mod; reflexivity. }
  eapply sameSt_trans; [exact H1|]. eapply sameSt_trans; [|apply sameSt_mods, mods_hunref_opt].
  eapply sameSt_trans; [|apply sameSt_remove_src_entry]. apply sameSt_mods, mods_poll_rm.
Qed.

Lemma sameSt_at w w' m mr mr' : sameSt w w' -> get_mod w m = Some mr -> get_mod w' m = Some mr' -> m_state mr' = m_state mr.
Proof. intros S H H'. specialize (S m). rewrite H, H' in S. cbn in S. congruence. Qed.
Lemma mstate_eqb_eq a b : mstate_eqb a b = true -> a = b.
Proof. destruct a, b; cbn; congruence. Qed.
Lemma assert_state_in w m l mr : mod_assert_state w m l = None -> get_mod w m = Some mr -> state_in (m_state mr) l = true.
Proof.
  unfold mod_assert_state. destruct (mod_assert w m); [discriminate|]. intros H Hm. rewrite Hm in H.
  destruct (state_in (m_state mr) l); [reflexivity|discriminate].
Qed.
Lemma state_in_not_zombie s l : state_in s l = true -> ~ In MZombie l -> s <> MZombie.
Proof.
  unfold state_in. intros H Hn ->. apply existsb_exists in H. destruct H as (x & Hx & E). apply mstate_eqb_eq in E. subst x. contradiction.
Qed.

Section Inv.
  Variable P : nat -> modrec -> Prop.
  (* updates that an invariant on the lifecycle / handler / stash / bucket fields does not see *)
  Hypothesis HP_srcs : forall i l mr, P i mr -> P i (mod_with_srcs l mr).
  Hypothesis HP_pipe : forall i q mr, P i mr -> P i (mod_with_pipe q mr).
  Hypothesis HP_subs : forall i s mr, P i mr -> P i (mod_with_subs s mr).
  Hypothesis HP_batch : forall i a b c mr, P i mr -> P i (mod_with_batch a b c mr).
  Hypothesis HP_counts : forall i a b mr, P i mr -> P i (mod_with_counts a b mr).
  Hypothesis HP_cbn : forall i a b c d mr, P i mr -> P i (mod_with_cbn a b c d mr).
  (* the token bucket: consume, refill, configure, switch off *)
  Hypothesis HP_tok : forall i mr t, P i mr -> m_tb_tokens mr = Some t -> t <> 0%N ->
    P i (mod_with_tb (m_tb_rate mr) (m_tb_burst mr) (Some (t - 1)%N) (m_tb_tmr mr) mr).
  Hypothesis HP_refill : forall i mr t b, P i mr -> m_tb_tokens mr = Some t -> m_tb_burst mr = Some b -> (t < b)%N ->
    P i (mod_with_tb (m_tb_rate mr) (m_tb_burst mr) (Some (t + 1)%N) (m_tb_tmr mr) mr).
  Hypothesis HP_tbset : forall i rate burst tmr mr, P i mr -> P i (mod_with_tb rate (Some burst) (Some burst) tmr mr).
  Hypothesis HP_tboff : forall i mr, P i mr -> P i (mod_with_tb 0 None None 0 mr).
  (* the lifecycle: stop / deregister (state change followed by the reset), start / resume, pause, registration *)
  Hypothesis HP_stop : forall i mr, P i mr -> m_state mr <> MZombie -> P i (reset_rec (mod_with_state MStopped mr)).
  Hypothesis HP_zombie : forall i mr, P i mr -> P i (reset_rec (mod_with_state MZombie mr)).
  Hypothesis HP_run : forall i mr, P i mr -> state_in (m_state mr) [MIdle; MStopped; MPaused] = true -> P i (mod_with_state MRunning mr).
  Hypothesis HP_pause : forall i mr, P i mr -> m_state mr = MRunning -> P i (mod_with_state MPaused mr).
  Hypothesis HP_new : forall i o sp ph, P i ph -> m_obj ph = 0 -> P i (mkMod o (ms_name sp) MIdle (ms_replace sp) (ms_persist sp) (ms_denyctx sp) (ms_denypub sp) (ms_denysub sp)
                                (ms_hooks sp) [] [] None None 0 0 [] [] 0 None None 0 0 0 0 0 0 0).
  (* become / unbecome and stash / unstash happen only in a RUNNING module *)
  Hypothesis HP_recvs : forall i l mr, P i mr -> m_state mr = MRunning -> P i (mod_with_recvs l mr).
  Hypothesis HP_stash : forall i l mr, P i mr -> m_state mr = MRunning -> P i (mod_with_stash l mr).

  Definition LP (l : list modrec) : Prop := forall i mr, nth_error l i = Some mr -> P i mr.
  Definition MP (w : world) : Prop := LP (w_mods w).

  Lemma LP_upd_nth l m g : LP l -> (forall mr, nth_error l m = Some mr -> P m mr -> P m (g mr)) -> LP (upd_nth m g l).
  Proof.
    intros H Hg i mr Hi. destruct (Nat.eq_dec m i) as [->|Hne].
    - destruct (nth_error l i) as [mr0|] eqn:E.
      + rewrite (nth_upd_same _ _ _ _ E) in Hi. injection Hi as <-. apply Hg; [reflexivity|]. apply H, E.
      + rewrite (upd_nth_none _ _ _ E) in Hi. congruence.
    - rewrite nth_upd_other in Hi by exact Hne. apply H, Hi.
  Qed.

  Lemma MP_mods w w' : w_mods w' = w_mods w -> MP w -> MP w'.
  Proof. unfold MP. intros ->. auto. Qed.
  Lemma MP_upd_mod w m g : MP w -> (forall mr, get_mod w m = Some mr -> P m mr -> P m (g mr)) -> MP (upd_mod w m g).
  Proof. intros H Hg. unfold MP, upd_mod, set_mods; cbn [w_mods]. apply LP_upd_nth; assumption. Qed.
  Lemma MP_get w m mr : MP w -> get_mod w m = Some mr -> P m mr.
  Proof. unfold MP, get_mod. intros H Hn. apply H, Hn. Qed.

  Ltac mods_same := unfold MP in *; cbn [w_mods emit set_tls set_srcs set_heap set_fds set_ufd set_urefs set_uevts set_errno]; assumption.
  Lemma MP_emit w t : MP w -> MP (emit w t). Proof. intros; mods_same. Qed.
  Lemma MP_set_tls w c : MP w -> MP (set_tls w c). Proof. intros; mods_same. Qed.
  Lemma MP_set_srcs w s : MP w -> MP (set_srcs w s). Proof. intros; mods_same. Qed.
  Lemma MP_set_heap w h : MP w -> MP (set_heap w h). Proof. intros; mods_same. Qed.
  Lemma MP_set_fds w n : MP w -> MP (set_fds w n). Proof. intros; mods_same. Qed.
  Lemma MP_set_ufd w u : MP w -> MP (set_ufd w u). Proof. intros; mods_same. Qed.
  Lemma MP_set_urefs w u : MP w -> MP (set_urefs w u). Proof. intros; mods_same. Qed.
  Lemma MP_set_uevts w u : MP w -> MP (set_uevts w u). Proof. intros; mods_same. Qed.
  Lemma MP_set_errno w e : MP w -> MP (set_errno w e). Proof. intros; mods_same. Qed.
  Lemma MP_fresh w : MP w -> MP (fst (fresh w)). Proof. intros; unfold fresh, MP in *; cbn; assumption. Qed.
  Lemma MP_upd_ctx w f : MP w -> MP (upd_ctx w f). Proof. intros. unfold upd_ctx. destruct (w_tls w); [apply MP_set_tls|]; assumption. Qed.
  Lemma MP_upd_src w s f : MP w -> MP (upd_src w s f). Proof. intros. unfold upd_src. apply MP_set_srcs; assumption. Qed.
  Lemma MP_href w o : MP w -> MP (href w o). Proof. apply MP_mods, mods_href. Qed.
  Lemma MP_hunref w o : MP w -> MP (hunref w o). Proof. apply MP_mods, mods_hunref. Qed.
  Lemma MP_href_opt w o : MP w -> MP (href_opt w o). Proof. destruct o; [apply MP_href|auto]. Qed.
  Lemma MP_hunref_opt w o : MP w -> MP (hunref_opt w o). Proof. destruct o; [apply MP_hunref|auto]. Qed.
  Lemma MP_add_link w o l : MP w -> MP (add_link w o l). Proof. intros; unfold add_link; apply MP_set_heap; assumption. Qed.
  Lemma MP_del_link w o l : MP w -> MP (del_link w o l). Proof. intros; unfold del_link; apply MP_set_heap; assumption. Qed.

  Lemma MP_consume_token w m w' : MP w -> consume_token w m = Some w' -> MP w'.
  Proof.
    intros H Hc. unfold consume_token in Hc. destruct (get_mod w m) as [mr|] eqn:Hm; [|discriminate].
    destruct (m_tb_tokens mr) as [t|] eqn:Et; [|inversion Hc; subst; exact H].
    destruct (N.eqb_spec t 0) as [->|Hnz]; [discriminate|].
    assert (Hw : w' = upd_mod w m (mod_with_tb (m_tb_rate mr) (m_tb_burst mr) (Some (t - 1)%N) (m_tb_tmr mr))) by (destruct t; [congruence|inversion Hc; reflexivity]).
    subst w'. apply MP_upd_mod; [exact H|]. intros mr0 Hm0 Hp. rewrite Hm in Hm0. injection Hm0 as <-. apply HP_tok; assumption.
  Qed.

  Ltac mp_ext := fail.
  Ltac mp_step :=
    first
    [ assumption
    | mp_ext
    | match goal with |- MP (let '(_, _) := ?x in _) => let H := fresh "Hx" in assert (H : MP (fst x)); [|destruct x eqn:?; cbn [fst] in H] end
    | match goal with |- MP (fst (let '(_, _) := ?x in _)) => let H := fresh "Hx" in assert (H : MP (fst x)); [|destruct x eqn:?; cbn [fst] in H] end
    | match goal with |- MP (match ?x with _ => _ end) => destruct x eqn:? end
    | match goal with |- MP (if ?x then _ else _) => destruct x eqn:? end
    | match goal with |- MP (fst (match ?x with _ => _ end)) => destruct x eqn:? end
    | match goal with |- MP (fst (if ?x then _ else _)) => destruct x eqn:? end
    | match goal with |- MP (fst (_, _)) => cbn [fst] end
    | match goal with |- MP (emit _ _) => apply MP_emit end
    | match goal with |- MP (set_tls _ _) => apply MP_set_tls end
    | match goal with |- MP (set_srcs _ _) => apply MP_set_srcs end
    | match goal with |- MP (set_heap _ _) => apply MP_set_heap end
    | match goal with |- MP (set_fds _ _) => apply MP_set_fds end
    | match goal with |- MP (set_ufd _ _) => apply MP_set_ufd end
    | match goal with |- MP (set_urefs _ _) => apply MP_set_urefs end
    | match goal with |- MP (set_uevts _ _) => apply MP_set_uevts end
    | match goal with |- MP (set_errno _ _) => apply MP_set_errno end
    | match goal with |- MP (upd_ctx _ _) => apply MP_upd_ctx end
    | match goal with |- MP (upd_src _ _ _) => apply MP_upd_src end
    | match goal with |- MP (href _ _) => apply MP_href end
    | match goal with |- MP (hunref _ _) => apply MP_hunref end
    | match goal with |- MP (href_opt _ _) => apply MP_href_opt end
    | match goal with |- MP (hunref_opt _ _) => apply MP_hunref_opt end
    | match goal with |- MP (add_link _ _ _) => apply MP_add_link end
    | match goal with |- MP (del_link _ _ _) => apply MP_del_link end
    | match goal with |- MP (fst (fresh _)) => apply MP_fresh end
    | match goal with |- MP (fst (halloc _ _ _ _)) => unfold halloc; cbn [fst]; apply MP_set_heap end
    | match goal with |- MP (upd_mod _ _ _) => apply MP_upd_mod; [|let mr := fresh "mr" in let Hg := fresh "Hg" in let Hp := fresh "Hp" in intros mr Hg Hp;
          try (first [apply HP_srcs | apply HP_pipe | apply HP_subs | apply HP_batch | apply HP_counts | apply HP_cbn | apply HP_tbset | apply HP_tboff]; exact Hp)] end ].
  Ltac mp := repeat mp_step.

  Variable sc : script.
  Variable run_cb : world -> modid -> cbkind -> nat -> list evtrec -> world * bool.
  Hypothesis Hcb : forall w m k h evs, MP w -> MP (fst (run_cb w m k h evs)).

  Lemma MP_poll_add w s : MP w -> MP (poll_add w s).
  Proof. intros H. unfold poll_add. mp. Qed.
  Lemma MP_poll_rm w s : MP w -> MP (poll_rm w s).
  Proof. intros H. unfold poll_rm. mp. Qed.

  Lemma MP_fold_left {A} (f : world -> A -> world) l : (forall w a, MP w -> MP (f w a)) -> forall w, MP w -> MP (fold_left f l w).
  Proof. intros Hf. induction l as [|a l IH]; intros w H; cbn [fold_left]; [exact H|]. apply IH, Hf, H. Qed.

  Lemma MP_tell_copy w r send sys sender topic data sub pill dref : MP w -> MP (tell_copy sc w r send sys sender topic data sub pill dref).
  Proof.
    intros H. unfold tell_copy. destruct (get_mod w r) as [rr|]; [|exact H]. destruct (state_in _ _); [|exact H].
    set (w1 := href_opt _ dref). assert (H1 : MP w1) by (unfold w1; mp).
    destruct (halloc w1 OMsg _ 0) as [w2 o] eqn:E2. assert (H2 : MP w2) by (apply (MP_mods w1); [inversion E2; reflexivity|exact H1]).
    destruct (fresh w2) as [w3 gid] eqn:E3. assert (H3 : MP w3) by (replace w3 with (fst (fresh w2)) by (rewrite E3; reflexivity); apply MP_fresh; exact H2).
    mp.
  Qed.

  Lemma MP_deliver w rcp sys sender topic data pill dref : MP w -> MP (deliver sc w rcp sys sender topic data pill dref).
  Proof.
    intros H. unfold deliver. destruct (fresh w) as [w0 send] eqn:E0.
    assert (H0 : MP w0) by (replace w0 with (fst (fresh w)) by (rewrite E0; reflexivity); apply MP_fresh; exact H).
    destruct rcp as [r|]; [apply MP_tell_copy; exact H0|]. destruct topic as [t|].
    - apply MP_fold_left; [|exact H0]. intros w1 r H1. destruct (get_mod w1 r) as [rr|]; [|exact H1].
      destruct (state_in _ _); [|exact H1]. destruct (fetch_sub sc w1 rr t); [apply MP_tell_copy; exact H1|exact H1].
    - apply MP_fold_left; [|exact H0]. intros w1 r H1. apply MP_tell_copy; exact H1.
  Qed.

  Lemma MP_tell_system w rcp sender topic pill : MP w -> MP (tell_system sc w rcp sender topic pill).
  Proof. intros H. unfold tell_system. apply MP_deliver. mp. Qed.

  Lemma MP_halloc w k l t w1 o : halloc w k l t = (w1, o) -> MP w -> MP w1.
  Proof. unfold halloc. intros E H. injection E as <- _. mp. Qed.

  Lemma MP_fresh_eq w w1 n : fresh w = (w1, n) -> MP w -> MP w1.
  Proof. intros E H. pose proof (MP_fresh w H) as H1. rewrite E in H1. exact H1. Qed.

  Lemma MP_make_evt w k src pay up : MP w -> MP (fst (make_evt w k src pay up)).
  Proof.
    intros H. unfold make_evt.
    repeat match goal with |- context [let '(_, _) := ?x in _] => destruct x eqn:? end.
    cbn [fst].
    eapply MP_fresh_eq; [eassumption|]. eapply MP_halloc; [eassumption|].
    assert (H1 : MP (href_opt w (src_obj w src))) by mp.
    destruct pay; try (eapply MP_halloc; [eassumption|exact H1]).
    match goal with E : (_, _) = (_, _) |- _ => injection E as <- _ end. exact H1.
  Qed.

  Lemma MP_unref_evts l : forall w, MP w -> MP (unref_evts w l).
  Proof. induction l as [|e l IH]; intros w H; cbn [unref_evts]; [exact H|]. apply IH. mp. Qed.
  Lemma MP_lock_mod w m : MP w -> MP (lock_mod w m).
  Proof. intros H. unfold lock_mod. mp. Qed.
  Lemma MP_unlock_mod w m : MP w -> MP (unlock_mod w m).
  Proof. intros H. unfold unlock_mod. mp. Qed.
  Lemma MP_run_cb_eq w m k h evs w' b : run_cb w m k h evs = (w', b) -> MP w -> MP w'.
  Proof. intros E H. pose proof (Hcb w m k h evs H) as H1. rewrite E in H1. exact H1. Qed.

  Ltac mp_ext ::=
    match goal with
    | |- MP (unref_evts _ _) => apply MP_unref_evts
    | |- MP (lock_mod _ _) => apply MP_lock_mod
    | |- MP (unlock_mod _ _) => apply MP_unlock_mod
    | |- MP (poll_add _ _) => apply MP_poll_add
    | |- MP (poll_rm _ _) => apply MP_poll_rm
    | |- MP (tell_system _ _ _ _ _ _) => apply MP_tell_system
    | |- MP (fold_left _ _ _) => apply MP_fold_left; [let w := fresh "w" in let a := fresh "a" in let H := fresh "H" in intros w a H|]
    | E : run_cb ?w _ _ _ _ = (?w1, _) |- MP ?w1 => eapply MP_run_cb_eq; [exact E|]
    | E : halloc ?w _ _ _ = (?w1, _) |- MP ?w1 => eapply MP_halloc; [exact E|]
    | E : fresh ?w = (?w1, _) |- MP ?w1 => eapply MP_fresh_eq; [exact E|]
    | |- MP (fst (run_cb _ _ _ _ _)) => apply Hcb
    end.

  Lemma MP_call_pubsub_cb w m evts : MP w -> MP (call_pubsub_cb run_cb w m evts).
  Proof. intros H. unfold call_pubsub_cb. mp. Qed.

  Lemma MP_tb_refill w m mr t b : MP w -> get_mod w m = Some mr -> m_tb_tokens mr = Some t -> m_tb_burst mr = Some b -> (t <? b)%N = true ->
    MP (upd_mod w m (mod_with_tb (m_tb_rate mr) (m_tb_burst mr) (Some (t + 1)%N) (m_tb_tmr mr))).
  Proof.
    intros H Hm Ht Hb Hlt. apply MP_upd_mod; [exact H|]. intros mr0 Hm0 Hp. rewrite Hm in Hm0. injection Hm0 as <-.
    eapply HP_refill; eauto. apply N.ltb_lt, Hlt.
  Qed.

  Lemma MP_push_evt w m e : MP w -> MP (push_evt run_cb w m e).
  Proof.
    intros H. unfold push_evt. destruct (get_mod w m) as [mr|] eqn:Hm; [|mp].
    set (internal := match match e_src e with Some i => get_src w i | None => None end with Some s => f_internal (s_fl s) | None => INone end).
    destruct internal eqn:Ei.
    - (* INone *) mp; apply MP_call_pubsub_cb; mp.
    - (* IBatch *) assert (H1 : MP (hunref w (e_obj e))) by mp. mp; apply MP_call_pubsub_cb; mp.
    - (* ITb *)
      assert (H1 : MP (hunref w (e_obj e))) by mp.
      match goal with |- MP (match get_mod ?w2 m with _ => _ end) => assert (H2 : MP w2) end.
      { destruct (get_mod (hunref w (e_obj e)) m) as [mr1|] eqn:Hm1; [|exact H1].
        destruct (m_tb_tokens mr1) as [t|] eqn:Et; [|exact H1]. destruct (m_tb_burst mr1) as [b|] eqn:Eb; [|exact H1].
        destruct (N.ltb t b) eqn:Hlt; [|exact H1]. rewrite <- Eb. eapply MP_tb_refill; eauto. }
      mp; apply MP_call_pubsub_cb; mp.
    - (* ITick *) assert (H1 : MP (hunref w (e_obj e))) by mp. mp; apply MP_call_pubsub_cb; mp.
  Qed.

  Lemma MP_remove_src_entry w m i : MP w -> MP (remove_src_entry w m i).
  Proof. intros H. unfold remove_src_entry. mp. Qed.
  Lemma MP_new_src w m k key fl up : MP w -> MP (fst (new_src w m k key fl up)).
  Proof. intros H. unfold new_src. mp. Qed.
  Lemma MP_new_src_eq w m k key fl up w1 i : new_src w m k key fl up = (w1, i) -> MP w -> MP w1.
  Proof. intros E H. pose proof (MP_new_src w m k key fl up H) as H1. rewrite E in H1. exact H1. Qed.

  Lemma MP_register_mod_src w m k key p one ac int up : MP w -> MP (fst (register_mod_src w m k key p one ac int up)).
  Proof.
    intros H. unfold register_mod_src. destruct (mod_assert w m); [exact H|]. destruct (Nat.leb 4 p); [exact H|].
    destruct (consume_token w m) as [w1|] eqn:Ec; [|exact H]. pose proof (MP_consume_token _ _ _ H Ec) as H1.
    destruct (get_mod w1 m) as [mr|]; [|exact H1]. cbn zeta. destruct (find_src w1 mr k key); [exact H1|].
    match goal with |- context [new_src ?a ?b ?c ?d ?e ?f] => destruct (new_src a b c d e f) as [w2 i] eqn:En end.
    pose proof (MP_new_src_eq _ _ _ _ _ _ _ _ En H1) as H2. cbn [fst]. mp.
  Qed.
  Lemma MP_register_dup_fd w m key p one up : MP w -> MP (fst (register_dup_fd w m key p one up)).
  Proof.
    intros H. unfold register_dup_fd. destruct (mod_assert w m); [exact H|]. destruct (Nat.leb 4 p); [exact H|].
    destruct (consume_token w m) as [w1|] eqn:Ec; [|exact H]. pose proof (MP_consume_token _ _ _ H Ec) as H1.
    destruct (get_mod w1 m) as [mr|]; [|exact H1]. cbn zeta.
    match goal with |- context [new_src ?a ?b ?c ?d ?e ?f] => destruct (new_src a b c d e f) as [w2 i] eqn:En end.
    pose proof (MP_new_src_eq _ _ _ _ _ _ _ _ En H1) as H2. cbn [fst]. mp.
  Qed.
  Lemma MP_register_eq w m k key p one ac int up w1 r : register_mod_src w m k key p one ac int up = (w1, r) -> MP w -> MP w1.
  Proof. intros E H. pose proof (MP_register_mod_src w m k key p one ac int up H) as H1. rewrite E in H1. exact H1. Qed.

  Lemma MP_deregister_mod_src w m k key : MP w -> MP (fst (deregister_mod_src w m k key)).
  Proof.
    intros H. unfold deregister_mod_src. destruct (mod_assert w m); [exact H|].
    destruct (consume_token w m) as [w1|] eqn:Ec; [|exact H]. pose proof (MP_consume_token _ _ _ H Ec) as H1.
    destruct (get_mod w1 m) as [mr|]; [|exact H1]. destruct (find_src w1 mr k key); [|exact H1]. cbn [fst].
    mp. apply MP_remove_src_entry. mp.
  Qed.

  Lemma MP_drain_pipe q : forall w, MP w -> MP (drain_pipe w q).
  Proof. induction q as [|g q IH]; intros w H; cbn [drain_pipe]; [exact H|]. apply IH. mp. Qed.

  Ltac mp_ext ::=
    match goal with
    | |- MP (unref_evts _ _) => apply MP_unref_evts
    | |- MP (lock_mod _ _) => apply MP_lock_mod
    | |- MP (unlock_mod _ _) => apply MP_unlock_mod
    | |- MP (poll_add _ _) => apply MP_poll_add
    | |- MP (poll_rm _ _) => apply MP_poll_rm
    | |- MP (tell_system _ _ _ _ _ _) => apply MP_tell_system
    | |- MP (remove_src_entry _ _ _) => apply MP_remove_src_entry
    | |- MP (drain_pipe _ _) => apply MP_drain_pipe
    | |- MP (call_pubsub_cb _ _ _ _) => apply MP_call_pubsub_cb
    | |- MP (push_evt _ _ _ _) => apply MP_push_evt
    | |- MP (fold_left _ _ _) => apply MP_fold_left; [let w := fresh "w" in let a := fresh "a" in let H := fresh "H" in intros w a H|]
    | E : run_cb ?w _ _ _ _ = (?w1, _) |- MP ?w1 => eapply MP_run_cb_eq; [exact E|]
    | E : halloc ?w _ _ _ = (?w1, _) |- MP ?w1 => eapply MP_halloc; [exact E|]
    | E : fresh ?w = (?w1, _) |- MP ?w1 => eapply MP_fresh_eq; [exact E|]
    | E : register_mod_src ?w _ _ _ _ _ _ _ _ = (?w1, _) |- MP ?w1 => eapply MP_register_eq; [exact E|]
    | |- MP (fst (run_cb _ _ _ _ _)) => apply Hcb
    | |- MP (fst (new_src _ _ _ _ _ _)) => apply MP_new_src
    | |- MP (fst (register_mod_src _ _ _ _ _ _ _ _ _)) => apply MP_register_mod_src
    | |- MP (fst (deregister_mod_src _ _ _ _)) => apply MP_deregister_mod_src
    | |- MP (fst (register_dup_fd _ _ _ _ _ _)) => apply MP_register_dup_fd
    end.

  Lemma MP_optional_hook w m k : MP w -> MP (fst (optional_hook run_cb w m k)).
  Proof. intros H. unfold optional_hook. destruct k; mp. Qed.
  Lemma MP_optional_hook_eq w m k w1 r : optional_hook run_cb w m k = (w1, r) -> MP w -> MP w1.
  Proof. intros E H. pose proof (MP_optional_hook w m k H) as H1. rewrite E in H1. exact H1. Qed.

  Lemma MP_reset_after_state w m final : MP w ->
    final = MZombie \/ (final = MStopped /\ forall mr, get_mod w m = Some mr -> m_state mr <> MZombie) ->
    MP (reset_module (upd_mod w m (mod_with_state final)) m).
  Proof.
    intros H Hf. destruct (get_mod w m) as [mr|] eqn:Hm.
    - unfold MP. rewrite (mods_reset _ _ _ (get_upd_mod_same _ _ (mod_with_state final) _ Hm)).
      unfold upd_mod, set_mods; cbn [w_mods]. rewrite upd_nth_twice. apply LP_upd_nth; [exact H|].
      intros mr0 Hm0 Hp. unfold get_mod in Hm. rewrite Hm in Hm0. injection Hm0 as <-.
      destruct Hf as [->|[-> Hnz]]; [apply HP_zombie, Hp|apply HP_stop; [exact Hp|apply Hnz; reflexivity]].
    - assert (E : upd_mod w m (mod_with_state final) = w).
      { unfold upd_mod. unfold get_mod in Hm. rewrite (upd_nth_none _ _ _ Hm). destruct w; reflexivity. }
      rewrite E. unfold reset_module. rewrite Hm. exact H.
  Qed.

  Lemma MP_drop_sources w m : MP w -> MP (drop_sources w m).
  Proof. intros H. unfold drop_sources. mp. Qed.

  Lemma fold_left_inv {S A} (Q : S -> Prop) (f : S -> A -> S) l : (forall s a, Q s -> Q (f s a)) -> forall s, Q s -> Q (fold_left f l s).
  Proof. intros Hf. induction l as [|a l IH]; intros s H; cbn [fold_left]; [exact H|]. apply IH, Hf, H. Qed.

  Ltac mp_ext ::=
    match goal with
    | |- MP (unref_evts _ _) => apply MP_unref_evts
    | |- MP (lock_mod _ _) => apply MP_lock_mod
    | |- MP (unlock_mod _ _) => apply MP_unlock_mod
    | |- MP (poll_add _ _) => apply MP_poll_add
    | |- MP (poll_rm _ _) => apply MP_poll_rm
    | |- MP (tell_system _ _ _ _ _ _) => apply MP_tell_system
    | |- MP (remove_src_entry _ _ _) => apply MP_remove_src_entry
    | |- MP (drain_pipe _ _) => apply MP_drain_pipe
    | |- MP (call_pubsub_cb _ _ _ _) => apply MP_call_pubsub_cb
    | |- MP (push_evt _ _ _ _) => apply MP_push_evt
    | |- MP (drop_sources _ _) => apply MP_drop_sources
    | |- MP (fold_left _ _ _) => apply MP_fold_left; [let w := fresh "w" in let a := fresh "a" in let H := fresh "H" in intros w a H|]
    | E : run_cb ?w _ _ _ _ = (?w1, _) |- MP ?w1 => eapply MP_run_cb_eq; [exact E|]
    | E : halloc ?w _ _ _ = (?w1, _) |- MP ?w1 => eapply MP_halloc; [exact E|]
    | E : fresh ?w = (?w1, _) |- MP ?w1 => eapply MP_fresh_eq; [exact E|]
    | E : register_mod_src ?w _ _ _ _ _ _ _ _ = (?w1, _) |- MP ?w1 => eapply MP_register_eq; [exact E|]
    | |- MP (fst (run_cb _ _ _ _ _)) => apply Hcb
    | |- MP (fst (new_src _ _ _ _ _ _)) => apply MP_new_src
    | |- MP (fst (register_mod_src _ _ _ _ _ _ _ _ _)) => apply MP_register_mod_src
    | |- MP (fst (deregister_mod_src _ _ _ _)) => apply MP_deregister_mod_src
    | |- MP (fst (register_dup_fd _ _ _ _ _ _)) => apply MP_register_dup_fd
    | |- MP (fst (optional_hook _ _ _ _)) => apply MP_optional_hook
    | |- MP (fst (make_evt _ _ _ _ _)) => apply MP_make_evt
    end.

  Definition stop_pre (w : world) (m : modid) (stopping : bool) (final : mstate) : Prop :=
    (stopping = true /\ final = MZombie) \/
    (stopping = true /\ final = MStopped /\ forall mr, get_mod w m = Some mr -> m_state mr <> MZombie) \/
    (stopping = false /\ final = MPaused /\ forall mr, get_mod w m = Some mr -> m_state mr = MRunning).

  Lemma MP_stop_mod_as w m stopping final : stop_pre w m stopping final -> MP w -> MP (fst (stop_mod_as sc run_cb w m stopping final)).
  Proof.
    intros Hsf H. unfold stop_mod_as. destruct (get_mod w m) as [mr|] eqn:Hm; [|exact H]. lazy zeta.
    match goal with |- context [upd_mod ?x m (mod_with_state final)] => assert (H2 : MP x /\ sameSt w x); [|destruct H2 as [H2 S2]; set (w2 := x) in *] end.
    { split; [destruct stopping; mp|].
      match goal with |- sameSt w (if _ then upd_ctx ?y _ else ?y) => assert (S1 : sameSt w y) end.
      { destruct stopping; [apply sameSt_drop_sources|apply sameSt_fold; intros; apply sameSt_mods, mods_poll_rm]. }
      destruct (mstate_eqb _ _); [|exact S1]. eapply sameSt_trans; [exact S1|]. apply sameSt_mods. unfold upd_ctx. destruct (w_tls _); reflexivity. }
    assert (Hst : forall mr2, get_mod w2 m = Some mr2 -> m_state mr2 = m_state mr) by (intros mr2 Hm2; eapply sameSt_at; eauto).
    destruct Hsf as [[-> ->]|[[-> [-> Hnz]]|[-> [-> Hr]]]].
    - pose proof (MP_reset_after_state w2 m MZombie H2 (or_introl eq_refl)) as H3.
      set (w3 := reset_module _ m) in *. mp.
    - assert (H3 : MP (reset_module (upd_mod w2 m (mod_with_state MStopped)) m)).
      { apply MP_reset_after_state; [exact H2|]. right. split; [reflexivity|]. intros mr2 Hm2. rewrite (Hst _ Hm2). apply Hnz, Hm. }
      set (w3 := reset_module _ m) in *. mp.
    - assert (H3 : MP (upd_mod w2 m (mod_with_state MPaused))).
      { apply MP_upd_mod; [exact H2|]. intros mr2 Hm2 Hp. apply HP_pause; [exact Hp|]. rewrite (Hst _ Hm2). apply Hr, Hm. }
      mp.
  Qed.
  Lemma MP_stop_mod w m stopping :
    (forall mr, get_mod w m = Some mr -> (stopping = true -> m_state mr <> MZombie) /\ (stopping = false -> m_state mr = MRunning)) ->
    MP w -> MP (fst (stop_mod sc run_cb w m stopping)).
  Proof.
    intros Hpre H. unfold stop_mod. apply MP_stop_mod_as; [|exact H]. unfold stop_pre.
    destruct stopping; [right; left|right; right]; repeat split; intros mr Hm; apply (Hpre mr Hm); reflexivity.
  Qed.

  Ltac mp_ext2 := fail.
  Ltac mp2 := repeat first [mp_step | mp_ext2].

  (* a hook that answers "refused" (-1) was not deregistered inside *)
  Lemma optional_hook_refused w m k w' r : optional_hook run_cb w m k = (w', r) -> r = (-1)%Z ->
    forall mr, get_mod w' m = Some mr -> m_state mr <> MZombie.
  Proof.
    unfold optional_hook. destruct (get_mod w m) as [mr0|]; [|intros E; injection E as <- <-; discriminate].
    match goal with |- context [let '(w3, b) := ?x in _] => destruct x as [w3 b] end.
    intros E; injection E as <- <-. intros Hr mr Hm. unfold unlock_mod, get_mod in Hm. rewrite mods_hunref_opt in Hm.
    unfold upd_ctx in *. fold (get_mod (match w_tls w3 with Some c => set_tls w3 (Some (ctx_with_curr None c)) | None => w3 end) m) in Hm.
    rewrite Hm in Hr. destruct (mstate_eqb (m_state mr) MZombie) eqn:Ez; [vm_compute in Hr; discriminate|].
    intros Hz. rewrite Hz in Ez. discriminate.
  Qed.

  Lemma MP_start_mod w m starting :
    (forall mr, get_mod w m = Some mr -> state_in (m_state mr) [MIdle; MStopped; MPaused] = true) ->
    MP w -> MP (fst (start_mod sc run_cb w m starting)).
  Proof.
    intros Hpre H. unfold start_mod. destruct (get_mod w m) as [mr|] eqn:Hm; [|exact H].
    match goal with |- context [let '(w1, ret0) := ?x in _] => assert (H1 : MP (fst x) /\ sameSt w (fst x)); [|destruct x as [w1 ret0]; cbn [fst] in H1; destruct H1 as [H1 S1]] end.
    { destruct starting; [|split; [exact H|apply sameSt_refl]]. lazy zeta.
      set (w0 := set_fds (upd_mod w m (mod_with_pipe (Some []))) (w_fds w + 2)).
      assert (H0 : MP w0) by (unfold w0; mp).
      assert (S0 : sameSt w w0) by (unfold w0; eapply sameSt_trans; [|apply sameSt_mods; reflexivity]; apply sameSt_upd_mod; reflexivity).
      pose proof (MP_register_mod_src w0 m KPs 0 3 false true INone 0 H0) as Hr. pose proof (sameSt_register w0 m KPs 0 3 false true INone 0) as Sr.
      destruct (register_mod_src w0 m KPs 0 3 false true INone 0) as [w0' r]. cbn [fst] in *.
      destruct (r =? 0)%Z; cbn [fst]; split; [exact Hr|eapply sameSt_trans; eauto|mp|].
      eapply sameSt_trans; [exact S0|]. eapply sameSt_trans; [exact Sr|]. eapply sameSt_trans; [|apply sameSt_mods; reflexivity]. apply sameSt_upd_mod; reflexivity. }
    destruct (negb _); [exact H1|]. destruct (get_mod w1 m) as [mr1|] eqn:Hm1; [|exact H1]. lazy zeta.
    set (w2 := fold_left poll_add (m_srcs mr1) w1).
    assert (H2 : MP w2) by (unfold w2; mp).
    assert (S2 : sameSt w w2) by (eapply sameSt_trans; [exact S1|]; unfold w2; apply sameSt_fold; intros; apply sameSt_mods, mods_poll_add).
    assert (H3 : MP (upd_mod w2 m (mod_with_state MRunning))).
    { apply MP_upd_mod; [exact H2|]. intros mr2 Hm2 Hp. apply HP_run; [exact Hp|]. rewrite (sameSt_at _ _ _ _ _ S2 Hm Hm2). apply Hpre; reflexivity. }
    set (w3 := upd_mod w2 m (mod_with_state MRunning)) in *.
    match goal with |- context [let '(w5, ret) := ?x in _] => assert (H5 : MP (fst x)) by (destruct starting; mp); destruct x as [w5 ret] eqn:E5 end.
    cbn [fst] in H5. destruct (ret =? 0)%Z eqn:E0; [cbn [fst]; mp|]. destruct (ret =? -1)%Z eqn:Er; [|exact H5]. cbn [fst].
    apply MP_stop_mod; [|exact H5]. intros mr5 Hm5. split; [intros _|discriminate].
    destruct starting; [|injection E5 as _ <-; discriminate].
    apply Z.eqb_eq in Er. eapply optional_hook_refused; eauto.
  Qed.

  (* stop of a module just seen RUNNING (poison pill) *)
  Ltac mp_ext2 ::=
    match goal with
    | Hg : get_mod ?w5 ?m = Some ?mr5, He : mstate_eqb (m_state ?mr5) MRunning = true |- MP (fst (stop_mod _ _ ?w5 ?m true)) =>
        apply MP_stop_mod;
        [let mr := fresh "mr" in let Hm := fresh "Hm" in intros mr Hm; rewrite Hg in Hm; injection Hm as <-;
         split; [intros _; apply mstate_eqb_eq in He; rewrite He; discriminate|discriminate] | ]
    end.

  Lemma MP_evaluate_module w m : MP w -> MP (evaluate_module sc run_cb w m).
  Proof.
    intros H. unfold evaluate_module. destruct (get_mod w m) as [mr|]; [|exact H]. destruct (mstate_eqb (m_state mr) MIdle); [|exact H].
    pose proof (MP_optional_hook w m CbEval H) as H1. destruct (optional_hook run_cb w m CbEval) as [w1 r]. cbn [fst] in H1.
    destruct (r =? 0)%Z; [|exact H1]. cbn [andb]. destruct (get_mod w1 m) as [mr1|] eqn:Hm1; [|exact H1].
    destruct (mstate_eqb (m_state mr1) MIdle) eqn:Ei; [|exact H1].
    apply MP_start_mod; [|exact H1]. intros mr2 Hm2. rewrite Hm1 in Hm2. injection Hm2 as <-. apply mstate_eqb_eq in Ei. rewrite Ei. reflexivity.
  Qed.

  Lemma MP_iterate_mods f : (forall w m, MP w -> MP (f w m)) -> forall fuel w after, MP w -> MP (fst (iterate_mods fuel w after f)).
  Proof.
    intros Hf. induction fuel as [|fu IH]; intros w after H; cbn [iterate_mods]; [mp|].
    destruct (w_tls w) as [c|]; [|exact H].
    match goal with |- context [match ?r with [] => _ | _ => _ end] => destruct r as [|[slot m] rest'] end; [exact H|].
    pose proof (Hf w m H) as H1. destruct (w_tls (f w m)) as [c1|]; [|exact H1].
    destruct (tbl_find slot (c_modules c1)) as [m'|]; [|apply IH, H1].
    destruct (Nat.eqb m' m); [|apply IH, H1]. destruct (Nat.eqb _ _); [apply IH, H1|exact H1].
  Qed.

  Lemma MP_again f : (forall w m, MP w -> MP (f w m)) -> forall n w, MP w ->
    MP ((fix again (n : nat) (w : world) : world :=
           match n with O => w | S k => let '(w', ab) := iterate_mods (iter_fuel w) w None f in if ab then again k w' else w' end) n w).
  Proof.
    intros Hf. induction n as [|k IH]; intros w H; [exact H|].
    pose proof (MP_iterate_mods f Hf (iter_fuel w) w None H) as H1.
    destruct (iterate_mods (iter_fuel w) w None f) as [w' ab]. cbn [fst] in H1. destruct ab; [apply IH, H1|exact H1].
  Qed.

  Lemma MP_ctx_deregister w f : (forall w m, MP w -> MP (f w m)) -> MP w -> MP (fst (ctx_deregister w f)).
  Proof.
    intros Hf H. unfold ctx_deregister. destruct (the_ctx w) as [c|]; [|exact H]. destruct (c_state c); try exact H.
    lazy zeta. set (w1 := upd_ctx w _). assert (Hw1 : MP w1) by (unfold w1; mp).
    pose proof (MP_iterate_mods f Hf (iter_fuel w1) w1 None Hw1) as Hi.
    destruct (iterate_mods (iter_fuel w1) w1 None f) as [w' ab]; cbn [fst] in Hi.
    match goal with |- context [w_tls ?x] => assert (H2 : MP x) by (destruct ab; [apply MP_again; [exact Hf|exact Hi]|exact Hi]); destruct (w_tls x) end; cbn [fst]; mp.
  Qed.

  Lemma MP_mod_deregister : forall fuel w m fu, MP w -> MP (fst (mod_deregister sc run_cb fuel w m fu)).
  Proof.
    induction fuel as [|fu IH]; intros w m from_user H; cbn [mod_deregister]; [mp|].
    match goal with |- context [match ?g with Some e => (w, e) | None => _ end] => destruct g end; [exact H|].
    destruct (get_mod w m) as [mr|]; [|exact H]. destruct (w_tls w) as [c|] eqn:Ec; [|exact H].
    destruct (_ && _); [exact H|]. cbn zeta.
    destruct (tbl_find _ (c_modules c)) as [m'|]; [|mp]. destruct (negb _); [mp|].
    match goal with |- context [stop_mod_as sc run_cb ?x m true MZombie] =>
      assert (H4 : MP (fst (stop_mod_as sc run_cb x m true MZombie))) by (apply MP_stop_mod_as; [left; auto|mp]);
      destruct (stop_mod_as sc run_cb x m true MZombie) as [w4 r4] end. cbn [fst] in H4.
    match goal with |- context [w_tls ?x] => assert (H6 : MP x) by (destruct from_user; mp); set (w6 := x) in * end.
    destruct (w_tls w6) as [c6|]; [|cbn [fst]; mp].
    destruct (_ && _ && _ && _); [|cbn [fst]; mp].
    pose proof (MP_ctx_deregister w6 (fun w m => fst (mod_deregister sc run_cb fu w m false)) (fun w0 m0 H0 => IH w0 m0 false H0) H6) as H7.
    destruct (ctx_deregister w6 _) as [w7 r7]. cbn [fst] in *. mp.
  Qed.

  Lemma MP_mod_register w m : MP w -> MP (fst (mod_register sc run_cb w m)).
  Proof.
    intros H. unfold mod_register. destruct (spec_of sc m) as [sp|]; [|exact H]. destruct (the_ctx w) as [c|]; [|exact H].
    destruct (c_finalized c); [exact H|].
    match goal with |- context [let '(w1, r1) := ?x in _] => assert (H1 : MP (fst x)); [|destruct x as [w1 r1]; cbn [fst] in H1] end.
    { destruct (tbl_find _ _) as [old|]; [|exact H]. destruct (get_mod w old) as [omr|]; [|exact H]. destruct (m_replace omr); [|exact H].
      apply MP_mod_deregister, H. }
    destruct (negb _); [exact H1|].
    match goal with |- context [match ?x with Some c1 => _ | None => (w1, rEPERM) end] => destruct x as [c1|] end; [|exact H1].
    destruct (c_finalized c1); [exact H1|]. cbn zeta.
    destruct (halloc (href w1 (c_obj c1)) OMod _ _) as [w3 o] eqn:E3. assert (H3 : MP w3) by (eapply MP_halloc; [exact E3|mp]).
    destruct (get_mod (href w3 o) m) as [ph|] eqn:Hph; [|cbn [fst]; mp]. destruct (negb (Nat.eqb (m_obj ph) 0)) eqn:Eo; cbn [fst]; [mp|].
    mp. change (MP (upd_mod (href w3 o) m (fun _ => mkMod o (ms_name sp) MIdle (ms_replace sp) (ms_persist sp) (ms_denyctx sp) (ms_denypub sp) (ms_denysub sp)
                                (ms_hooks sp) [] [] None None 0 0 [] [] 0 None None 0 0 0 0 0 0 0))).
    apply MP_upd_mod; [mp|]. intros mr Hmr Hp. rewrite Hph in Hmr. injection Hmr as <-.
    apply (HP_new _ _ _ ph Hp). apply Bool.negb_false_iff, Nat.eqb_eq in Eo. exact Eo.
  Qed.

  Lemma MP_eval_pass w : MP w -> MP (eval_pass sc run_cb w).
  Proof. intros H. unfold eval_pass. apply MP_iterate_mods; [|exact H]. intros; apply MP_evaluate_module; assumption. Qed.

  Lemma MP_loop_start w : MP w -> MP (fst (loop_start sc run_cb w)).
  Proof.
    intros H. unfold loop_start. cbn [fst].
    assert (H2 : MP (eval_pass sc run_cb (upd_ctx w (fun c => ctx_with_quit false 0 (ctx_with_state CLooping (ctx_with_maxev (N.to_nat cM_CTX_DEFAULT_EVENTS) c)))))) by (apply MP_eval_pass; mp).
    mp2.
  Qed.

  Lemma MP_flush_mod w m : MP w -> MP (flush_mod sc run_cb w m).
  Proof.
    intros H. unfold flush_mod. destruct (get_mod w m) as [mr|]; [|exact H].
    match goal with |- context [let '(w1, start) := ?x in _] => assert (H1 : MP (fst x)) by mp; destruct x as [w1 start]; cbn [fst] in H1 end.
    destruct (m_pipe mr) as [q|]; [|mp].
    match goal with |- context [fold_left ?f q ?a] =>
      assert (H3 : MP (fst (fst (fold_left f q a)))); [|destruct (fold_left f q a) as [[w3 evs] pilled]; cbn [fst] in H3] end.
    { apply (fold_left_inv (fun acc : world * list evtrec * bool => MP (fst (fst acc)))); [|cbn [fst]; mp].
      intros [[w0 evs0] p0] g H0. cbn [fst] in H0.
      destruct (_ && _); [|cbn [fst]; mp]. destruct (g_pill g); [cbn [fst]; mp|].
      match goal with |- context [make_evt ?a ?b ?c ?d ?e] => pose proof (MP_make_evt a b c d e H0) as Hm; destruct (make_evt a b c d e) end. exact Hm. }
    mp2.
  Qed.

  Lemma MP_loop_stop w cd : (forall w, MP w -> MP (fst (cd w))) -> MP w -> MP (fst (loop_stop sc run_cb w cd)).
  Proof.
    intros Hcd H. unfold loop_stop. lazy zeta.
    set (w1 := tell_system sc w None None tCTX_STOPPED false). assert (Hw1 : MP w1) by (unfold w1; mp).
    pose proof (MP_iterate_mods (flush_mod sc run_cb) MP_flush_mod (iter_fuel w1) w1 None Hw1) as Hi.
    destruct (iterate_mods (iter_fuel w1) w1 None (flush_mod sc run_cb)) as [w' ab]; cbn [fst] in Hi.
    match goal with |- context [upd_ctx ?x (ctx_with_state CIdle)] => assert (H2 : MP x) by (destruct ab; [apply MP_again; [apply MP_flush_mod|exact Hi]|exact Hi]); set (w2 := x) in * end.
    match goal with |- context [w_tls ?x] => assert (H5 : MP x) by mp; destruct (w_tls x); [|exact H5] end.
    destruct (_ && _); cbn [fst]; [apply Hcd|]; exact H5.
  Qed.

  Lemma MP_make_evt_eq w k src pay up w1 e : make_evt w k src pay up = (w1, e) -> MP w -> MP w1.
  Proof. intros E H. pose proof (MP_make_evt w k src pay up H) as H1. rewrite E in H1. exact H1. Qed.

  Lemma MP_process_one w i : MP w -> MP (fst (process_one sc run_cb w i)).
  Proof.
    intros H. unfold process_one. destruct (get_src w i) as [s|]; [|exact H]. destruct (negb (s_armed s)); [exact H|].
    destruct (s_mod s) as [m|]; [|cbn [fst]; mp]. destruct (get_mod w m) as [mr|]; [|exact H]. lazy zeta.
    destruct (s_kind s) eqn:Ek.
    all: try (destruct (_ && _); [cbn [fst]; mp|];
              match goal with |- context [make_evt ?a ?b ?c ?d ?e] =>
                let Hm := fresh "Hm" in assert (Hm : MP (fst (make_evt a b c d e))) by (apply MP_make_evt; mp); destruct (make_evt a b c d e) as [w2 e2]; cbn [fst] in Hm end;
              cbn [fst]; mp2).
    (* KPs *)
    destruct (m_pipe mr) as [[|g q]|]; try solve [cbn [fst]; mp].
    match goal with |- context [make_evt ?a ?b ?c ?d ?e] =>
      assert (Hm : MP (fst (make_evt a b c d e))) by (apply MP_make_evt; mp); destruct (make_evt a b c d e) as [w3 e3]; cbn [fst] in Hm end.
    match goal with |- context [push_evt run_cb ?x m _] => assert (H4 : MP x) by mp; set (w4 := x) in * end.
    destruct (g_pill g); cbn [fst]; [|mp]. mp2.
  Qed.

  Lemma MP_recv_events w : MP w -> MP (fst (recv_events sc run_cb w)).
  Proof.
    intros H. unfold recv_events. lazy zeta.
    set (w00 := set_errno w 0). assert (H00 : MP w00) by (unfold w00; mp).
    match goal with |- context [fold_left href ?held w00] => set (hl := held); assert (H0 : MP (fold_left href hl w00)) by mp end.
    match goal with |- context [fold_left ?f ?l (fold_left href hl w00, 0)] =>
      assert (H1 : MP (fst (fold_left f l (fold_left href hl w00, 0)))); [|destruct (fold_left f l (fold_left href hl w00, 0)) as [w1' n]; cbn [fst] in H1] end.
    { apply (fold_left_inv (fun acc : world * nat => MP (fst acc))); [|exact H0].
      intros [w0 n0] i Hw. cbn [fst] in Hw. pose proof (MP_process_one w0 i Hw) as Hp. destruct (process_one sc run_cb w0 i). exact Hp. }
    assert (H2 : MP (fold_left hunref hl w1')) by mp.
    destruct (Nat.ltb 0 n); cbn [fst]; [|exact H2]. mp. apply MP_eval_pass, H2.
  Qed.

  (* ---------- the scripted calls ---------- *)
  Lemma MP_ret w z : MP w -> MP (ret w z). Proof. intros; unfold ret; mp. Qed.
  Lemma MP_retp p : MP (fst p) -> MP (retp p). Proof. intros; unfold retp; apply MP_ret; assumption. Qed.

  Lemma MP_do_ctx_dereg w : MP w -> MP (fst (do_ctx_dereg sc run_cb w)).
  Proof. intros H. unfold do_ctx_dereg. apply MP_ctx_deregister; [|exact H]. intros w0 m0 H0. apply MP_mod_deregister, H0. Qed.

  Lemma MP_locked m f w : MP (fst (f (lock_mod w m))) -> MP (fst (locked m f w)).
  Proof. intros H1. unfold locked. destruct (f (lock_mod w m)) as [w2 r]. cbn [fst] in *. mp. Qed.

  Lemma MP_send_msg w m rcp topic data af : MP w -> MP (fst (send_msg sc w m rcp topic data af)).
  Proof.
    intros H. unfold send_msg. destruct (N.eqb data 0); [exact H|]. destruct (get_mod w m) as [mr|]; [|exact H].
    destruct af; cbn [fst]; [|apply MP_deliver; mp].
    match goal with |- context [halloc ?a ?b ?c ?d] => destruct (halloc a b c d) as [w2 d0] eqn:E2; assert (H2 : MP w2) by (eapply MP_halloc; [exact E2|mp]) end.
    cbn [fst]. mp. apply MP_deliver, H2.
  Qed.

  Lemma MP_tell_step w m r data af : MP w -> MP (fst (tell_step sc w m r data af)).
  Proof.
    intros H. unfold tell_step. destruct (mod_assert_perm w m m_denypub); [exact H|]. destruct (Nat.eqb _ 0); [exact H|].
    destruct (negb _); [exact H|]. destruct (consume_token w m) as [w1|] eqn:Ec; [|exact H].
    apply MP_send_msg. eapply MP_consume_token; eauto.
  Qed.

  Lemma MP_exec_env w c : MP w -> MP (exec_env w c).
  Proof. intros H. unfold exec_env. destruct c; try exact H; try (mp; fail). Qed.

  Ltac tok :=
    match goal with
    | |- MP (match consume_token ?w ?m with _ => _ end) =>
        let w1 := fresh "w1" in let E := fresh "Ec" in let H := fresh "H1" in
        destruct (consume_token w m) as [w1|] eqn:E; [assert (H : MP w1) by (eapply MP_consume_token; [|exact E]; assumption)|]
    end.
  Ltac mp_ext3 :=
    match goal with
    | |- MP (ret _ _) => apply MP_ret
    | |- MP (retp _) => apply MP_retp
    | |- MP (fst (mod_register _ _ _ _)) => apply MP_mod_register
    | |- MP (fst (mod_deregister _ _ _ _ _ _)) => apply MP_mod_deregister
    | |- MP (fst (loop_start _ _ _)) => apply MP_loop_start
    | |- MP (fst (loop_stop _ _ _ _)) => apply MP_loop_stop; [intros; apply MP_do_ctx_dereg; assumption|]
    | |- MP (fst (recv_events _ _ _)) => apply MP_recv_events
    | |- MP (fst (do_ctx_dereg _ _ _)) => apply MP_do_ctx_dereg
    | |- MP (fst (send_msg _ _ _ _ _ _ _)) => apply MP_send_msg
    | |- MP (fst (tell_step _ _ _ _ _ _)) => apply MP_tell_step
    | |- MP (exec_env _ _) => apply MP_exec_env
    | |- _ => tok
    end.
  Ltac mp3 := repeat first [assumption | tok | mp_step | mp_ext2 | mp_ext3].

  (* a call guarded by M_MOD_ASSERT_STATE(RUNNING): the module is RUNNING at the update, the token consumption does not change that *)
  Ltac run_site :=
    match goal with H : MP ?w |- context [mod_assert_state ?w ?m [MRunning]] =>
      let Ea := fresh "Ea" in destruct (mod_assert_state w m [MRunning]) eqn:Ea; [mp3|]
    end;
    mp3;
    repeat match goal with
    | Hg : get_mod (href ?w0 _) ?m = Some _ |- _ => unfold get_mod in Hg; rewrite mods_href in Hg; fold (get_mod w0 m) in Hg
    end;
    match goal with
    | Ea : mod_assert_state ?w ?m [MRunning] = None, Ec : consume_token ?w ?m = Some ?w1, Hg : get_mod ?w1 ?m = Some ?mr |- P ?m _ =>
        let mr0 := fresh "mr0" in let Hm0 := fresh "Hm0" in let Es := fresh "Es" in
        destruct (consume_state _ _ _ _ Ec Hg) as (mr0 & Hm0 & Es);
        pose proof (assert_state_running _ _ _ Ea Hm0) as Hrun; rewrite <- Es in Hrun;
        first [apply HP_recvs | apply HP_stash]; assumption
    end.

  (* a lifecycle call: M_MOD_ASSERT_STATE(l), token, then start / stop under the module lock; the state seen by the
     transition is the one the guard saw *)
  Ltac life_site :=
    match goal with H : MP ?w |- context [mod_assert_state ?w ?m ?l] =>
      let Ea := fresh "Ea" in destruct (mod_assert_state w m l) eqn:Ea; [mp3|]
    end;
    tok; [|mp3];
    apply MP_retp, MP_locked; cbv beta;
    first [apply MP_start_mod | apply MP_stop_mod]; [|mp3];
    match goal with
    | Ea : mod_assert_state ?w ?m ?l = None, Ec : consume_token ?w ?m = Some ?w1 |- forall mr, get_mod (lock_mod ?w1 ?m) ?m = Some mr -> _ =>
        let mr := fresh "mr" in let Hm := fresh "Hm" in let mr0 := fresh "mr0" in let Hm0 := fresh "Hm0" in let Es := fresh "Es" in let Hin := fresh "Hin" in
        intros mr Hm; unfold lock_mod, get_mod in Hm; rewrite mods_href_opt in Hm; fold (get_mod w1 m) in Hm;
        destruct (consume_state _ _ _ _ Ec Hm) as (mr0 & Hm0 & Es);
        pose proof (assert_state_in _ _ _ _ Ea Hm0) as Hin; rewrite Es;
        destruct (m_state mr0); cbn in Hin; try discriminate Hin; try reflexivity; split; intros; try reflexivity; discriminate
    end.

  Lemma MP_exec_call cur w c : MP w -> MP (exec_call sc run_cb cur w c).
  Proof.
    intros H. destruct c; cbn [exec_call]; try (mp3; fail).
    - (* CStart *) life_site.
    - (* CPause *) life_site.
    - (* CResume *) life_site.
    - (* CStop *) life_site.
    - (* CBecome *) run_site.
    - (* CUnbecome *) run_site.
    - (* CStash *) run_site.
    - (* CUnstash *) run_site.
    - (* CTellMany *)
      apply MP_retp. assert (Hg : forall k acc, MP (fst acc) -> MP (fst ((fix go (k : nat) (acc : world * Z) : world * Z :=
                 match k with O => acc | S k' => go k' (tell_step sc (fst acc) m r data false) end) k acc))).
      { induction k as [|k IH]; intros acc Ha; [exact Ha|]. apply IH. apply MP_tell_step, Ha. }
      apply Hg. exact H.
  Qed.

  Lemma MP_exec_own cur w c : MP w -> MP (exec_own sc run_cb cur w c).
  Proof. intros H. unfold exec_own. destruct (call_handle c); [destruct (Nat.eqb _ 0)|]; first [apply MP_exec_call | apply MP_ret]; mp. Qed.

  Lemma MP_exec cur w c : MP w -> MP (exec sc run_cb cur w c).
  Proof.
    intros H. unfold exec. destruct c; try (apply MP_exec_own; exact H). lazy zeta.
    apply MP_set_tls.
    match goal with |- context [exec_own sc run_cb cur ?x _] => assert (H2 : MP x) by (destruct own; mp); set (w2 := x) in * end.
    match goal with |- MP (if own then match w_tls ?x with _ => _ end else _) => assert (H3 : MP x) by (destruct c; try (apply MP_exec_own; exact H2); exact H2); set (w3 := x) in * end.
    destruct own; mp.
  Qed.

  Lemma MP_loop_iter : forall fuel w env, MP w -> MP (loop_iter sc run_cb fuel (exec_env) w env).
  Proof.
    induction fuel as [|f IH]; intros w env H; cbn [loop_iter]; [mp|].
    destruct (w_tls w) as [c|]; [|exact H]. destruct (_ || _); [exact H|].
    destruct (ready_set w); [destruct env as [|a rest]; [mp|apply IH, MP_exec_env, H]|apply IH, MP_recv_events, H].
  Qed.

  Lemma MP_run_calls : forall fuel cur w l, MP w -> MP (run_calls sc run_cb fuel cur w l).
  Proof.
    induction fuel as [|f IH]; intros cur w l H; cbn [run_calls]; [mp|].
    destruct l as [|c r]; [exact H|].
    destruct c; try (apply IH, MP_exec, H).
    lazy zeta. destruct (the_ctx (emit w (TMark 4 0))) as [c|]; [|apply IH; mp3].
    destruct (c_state c); try (apply IH; mp3).
    destruct (split_env r) as [env rest].
    match goal with |- context [loop_iter sc run_cb ?n exec_env ?x env] => assert (H2 : MP (loop_iter sc run_cb n exec_env x env)) by (apply MP_loop_iter; mp3) end.
    destruct (existsb _ _); [exact H2|]. apply IH. mp3.
  Qed.
End Inv.

(* ---------- the obligations of an invariant, bundled; tying the knot ---------- *)
Record respects (P : nat -> modrec -> Prop) : Prop := mkRespects {
  r_srcs : forall i l mr, P i mr -> P i (mod_with_srcs l mr);
  r_pipe : forall i q mr, P i mr -> P i (mod_with_pipe q mr);
  r_subs : forall i s mr, P i mr -> P i (mod_with_subs s mr);
  r_batch : forall i a b c mr, P i mr -> P i (mod_with_batch a b c mr);
  r_counts : forall i a b mr, P i mr -> P i (mod_with_counts a b mr);
  r_cbn : forall i a b c d mr, P i mr -> P i (mod_with_cbn a b c d mr);
  r_tok : forall i mr t, P i mr -> m_tb_tokens mr = Some t -> t <> 0%N ->
    P i (mod_with_tb (m_tb_rate mr) (m_tb_burst mr) (Some (t - 1)%N) (m_tb_tmr mr) mr);
  r_refill : forall i mr t b, P i mr -> m_tb_tokens mr = Some t -> m_tb_burst mr = Some b -> (t < b)%N ->
    P i (mod_with_tb (m_tb_rate mr) (m_tb_burst mr) (Some (t + 1)%N) (m_tb_tmr mr) mr);
  r_tbset : forall i rate burst tmr mr, P i mr -> P i (mod_with_tb rate (Some burst) (Some burst) tmr mr);
  r_tboff : forall i mr, P i mr -> P i (mod_with_tb 0 None None 0 mr);
  r_stop : forall i mr, P i mr -> m_state mr <> MZombie -> P i (reset_rec (mod_with_state MStopped mr));
  r_zombie : forall i mr, P i mr -> P i (reset_rec (mod_with_state MZombie mr));
  r_run : forall i mr, P i mr -> state_in (m_state mr) [MIdle; MStopped; MPaused] = true -> P i (mod_with_state MRunning mr);
  r_pause : forall i mr, P i mr -> m_state mr = MRunning -> P i (mod_with_state MPaused mr);
  r_new : forall i o sp ph, P i ph -> m_obj ph = 0 -> P i (mkMod o (ms_name sp) MIdle (ms_replace sp) (ms_persist sp) (ms_denyctx sp) (ms_denypub sp) (ms_denysub sp)
                                (ms_hooks sp) [] [] None None 0 0 [] [] 0 None None 0 0 0 0 0 0 0);
  r_recvs : forall i l mr, P i mr -> m_state mr = MRunning -> P i (mod_with_recvs l mr);
  r_stash : forall i l mr, P i mr -> m_state mr = MRunning -> P i (mod_with_stash l mr)
}.

Section Knot.
  Variable P : nat -> modrec -> Prop.
  Hypothesis R : respects P.

  Lemma MP_run_calls_R sc run_cb : (forall w m k h evs, MP P w -> MP P (fst (run_cb w m k h evs))) ->
    forall fuel cur w l, MP P w -> MP P (run_calls sc run_cb fuel cur w l).
  Proof. destruct R. intros Hcb. apply MP_run_calls; assumption. Qed.

  Lemma MP_run_cb_f : forall fuel sc w m k h evts, MP P w -> MP P (fst (run_cb_f fuel sc w m k h evts)).
  Proof.
    induction fuel as [|f IH]; intros sc w m k h evts H; cbn [run_cb_f fst]; [apply MP_emit, H|].
    apply MP_run_calls_R; [|exact H]. intros w0 m0 k0 h0 evs0 H0. apply IH, H0.
  Qed.

  Lemma MP_init sc : (forall i, P i placeholder) -> MP P (w_init sc).
  Proof.
    intros Hi0. unfold MP, LP, w_init; cbn [w_mods]. intros i mr Hi. apply nth_error_In, in_map_iff in Hi. destruct Hi as (x & <- & _). apply Hi0.
  Qed.

  (* from ANY world in which the invariant holds, through any further calls and callbacks *)
  Lemma inv_from w0 : MP P w0 -> forall fuel sc n cur l, MP P (run_calls sc (run_cb_f fuel sc) n cur w0 l).
  Proof. intros H0 fuel sc n cur l. apply MP_run_calls_R; [|exact H0]. intros w1 m0 k0 h0 evs0 H1. apply MP_run_cb_f, H1. Qed.
End Knot.

Definition core_world (fuel : nat) (sc : script) : world :=
  let body := nth 1 (sc_procs sc) [] in run_calls sc (run_cb_f fuel sc) (length body + 1) [] (w_init sc) body.

Lemma core_run_world fuel sc : core_run fuel sc = rev (w_trace (core_world fuel sc)).
Proof. reflexivity. Qed.

(* For every script, every fuel, hence every behaviour of the scripted callbacks: an invariant that respects the
   record updates holds of every module of the world the run ends in (and, scripts being arbitrary, of every
   world a run passes through at a call boundary). *)
Theorem inv_reachable P : respects P -> (forall i, P i placeholder) -> forall fuel sc m mr, get_mod (core_world fuel sc) m = Some mr -> P m mr.
Proof.
  intros R Hi fuel sc m mr Hm. assert (H : MP P (core_world fuel sc)).
  { unfold core_world. apply inv_from; [exact R|apply MP_init, Hi]. }
  exact (MP_get P _ _ _ H Hm).
Qed.
Print Assumptions inv_reachable.
