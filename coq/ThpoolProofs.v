(* ThpoolProofs.v -- for EVERY schedule (any interleaving of any number of
   submitters, workers and the freeing thread, spurious wake-ups included):
   tasks are conserved, so each accepted task runs at most once and only
   submitted tasks run. *)
From LM Require Import Base Thpool.

(* the tasks a thread still carries in its program counter *)
Definition carried (th : thread) : list nat :=
  match th with
  | TSub (SLock l) => l
  | TSub (SCreate k l) => k :: l
  | TSub (SSignal l) | TSub (SUnlock l) => l
  | TWorker (WUnlockRun k) | TWorker (WTask k) => [k]
  | _ => []
  end.

(* every task is in exactly one place: still to be submitted, queued, in the hands of a worker, run, or discarded *)
Definition everywhere (p : pool) : list nat :=
  flat_map carried (p_threads p) ++ p_tasks p ++ map fst (p_started p) ++ p_discarded p.

Definition cnt (x : nat) (l : list nat) : nat := count_occ Nat.eq_dec l x.
Lemma cnt_app x a b : cnt x (a ++ b) = cnt x a + cnt x b.
Proof. apply count_occ_app. Qed.
Lemma cnt_cons x y l : cnt x (y :: l) = (if Nat.eq_dec y x then 1 else 0) + cnt x l.
Proof. unfold cnt. cbn. destruct (Nat.eq_dec y x); reflexivity. Qed.
Lemma cnt_nil x : cnt x [] = 0. Proof. reflexivity. Qed.

Lemma cnt_carried_set x ths : forall t th th', nth_error ths t = Some th ->
  cnt x (flat_map carried (set_nth_th t th' ths)) + cnt x (carried th) = cnt x (flat_map carried ths) + cnt x (carried th').
Proof.
  induction ths as [|y r IH]; intros [|t] th th' H; cbn [nth_error set_nth_th flat_map] in *; try discriminate.
  - inversion H; subst. rewrite !cnt_app. lia.
  - rewrite !cnt_app. specialize (IH t th th' H). lia.
Qed.

Lemma cnt_flat_app x a b : cnt x (flat_map carried (a ++ b)) = cnt x (flat_map carried a) + cnt x (flat_map carried b).
Proof. rewrite flat_map_app, cnt_app. reflexivity. Qed.

(* waking sleepers does not move any task *)
Lemma carried_woken th : carried (woken th) = carried th.
Proof. destruct th as [[]|[]|[]]; reflexivity. Qed.
Lemma nth_error_set_same ths : forall t th th', nth_error ths t = Some th -> nth_error (set_nth_th t th' ths) t = Some th'.
Proof. induction ths as [|y r IH]; intros [|t] th th' H; cbn in *; try discriminate; [reflexivity|eauto]. Qed.
Lemma cnt_wake x ths s : cnt x (flat_map carried (wake ths s)) = cnt x (flat_map carried ths).
Proof. unfold wake. destruct (nth_error ths s) as [th|] eqn:E; [|reflexivity].
       pose proof (cnt_carried_set x ths s th (woken th) E) as H. rewrite carried_woken in H. lia. Qed.
Lemma cnt_wake_all x l ths : cnt x (flat_map carried (fold_left wake l ths)) = cnt x (flat_map carried ths).
Proof. revert ths; induction l as [|s r IH]; intros ths; cbn [fold_left]; [reflexivity|]. rewrite IH. apply cnt_wake. Qed.

Lemma nth_error_set_other ths : forall t s th', s <> t -> nth_error (set_nth_th s th' ths) t = nth_error ths t.
Proof. induction ths as [|y r IH]; intros [|t] [|s] th' H; cbn; try reflexivity; try congruence. apply IH; congruence. Qed.
Lemma wake_nth ths s t th : nth_error ths t = Some th -> exists th0, nth_error (wake ths s) t = Some th0 /\ carried th0 = carried th.
Proof.
  intros H. unfold wake. destruct (nth_error ths s) as [ts|] eqn:Es; [|eauto].
  destruct (Nat.eq_dec s t) as [->|ne].
  - rewrite (nth_error_set_same ths t ts _ Es). rewrite Es in H. inversion H; subst. eexists; split; [reflexivity|apply carried_woken].
  - rewrite nth_error_set_other by auto. eauto.
Qed.
Lemma wake_all_nth l : forall ths t th, nth_error ths t = Some th ->
  exists th0, nth_error (fold_left wake l ths) t = Some th0 /\ carried th0 = carried th.
Proof.
  induction l as [|s r IH]; intros ths t th H; cbn [fold_left]; [eauto|].
  destruct (wake_nth ths s t th H) as (th1 & H1 & C1). destruct (IH _ t th1 H1) as (th0 & H0 & C0). exists th0. split; [auto|congruence].
Qed.

Ltac ev := unfold everywhere, with_pc, with_lock, with_sleepers, touch, upd;
           cbn [p_threads p_tasks p_started p_discarded p_lock p_sleepers p_shutdown p_workers p_alive p_running p_destroyed
                p_accepted p_touch_after_free p_lazy p_detached p_max p_mode].

Lemma touch_everywhere p : everywhere (touch p) = everywhere p.
Proof. unfold touch. destruct (p_destroyed p); reflexivity. Qed.
Lemma touch_threads p : p_threads (touch p) = p_threads p.
Proof. unfold touch. destruct (p_destroyed p); reflexivity. Qed.
Lemma touch_tasks p : p_tasks (touch p) = p_tasks p.
Proof. unfold touch. destruct (p_destroyed p); reflexivity. Qed.

(* the general shape of a step: thread t changes its pc from th to th', the other places change by given lists *)
Lemma conserve_pc x p t th th' tasks' started' disc' (lock' : option tid) sl' sd' wk' al' rn' ds' acc' tc' extra :
  nth_error (p_threads p) t = Some th ->
  cnt x (carried th') + cnt x (flat_map carried extra) + cnt x tasks' + cnt x (map fst started') + cnt x disc' =
  cnt x (carried th) + cnt x (p_tasks p) + cnt x (map fst (p_started p)) + cnt x (p_discarded p) ->
  cnt x (everywhere (upd p lock' sl' tasks' sd' wk' al' rn' ds' (set_nth_th t th' (p_threads p) ++ extra) acc' started' disc' tc')) =
  cnt x (everywhere p).
Proof.
  intros Hn He. ev. rewrite !cnt_app, cnt_flat_app. pose proof (cnt_carried_set x (p_threads p) t th th' Hn). lia.
Qed.

Lemma with_lock_everywhere q l : everywhere (with_lock q l) = everywhere q.
Proof. reflexivity. Qed.
Lemma with_lock_threads q l : p_threads (with_lock q l) = p_threads q.
Proof. reflexivity. Qed.

Lemma with_pc_conserves x q t th th' : nth_error (p_threads q) t = Some th -> cnt x (carried th') = cnt x (carried th) ->
  cnt x (everywhere (with_pc q t th')) = cnt x (everywhere q).
Proof. intros Hq Hc. unfold with_pc.
       rewrite <- (app_nil_r (set_nth_th t th' (p_threads q))). apply (conserve_pc x q t th th'); [exact Hq|]. rewrite Hc. cbn. lia. Qed.

Lemma with_sleepers_conserves x q sl ths' : cnt x (flat_map carried ths') = cnt x (flat_map carried (p_threads q)) ->
  cnt x (everywhere (with_sleepers q sl ths')) = cnt x (everywhere q).
Proof. intros H. ev. rewrite !cnt_app. lia. Qed.

Lemma worker_decide_conserves x q t th : nth_error (p_threads q) t = Some th -> carried th = [] ->
  cnt x (everywhere (worker_decide q t)) = cnt x (everywhere q).
Proof.
  intros Hn Hc. unfold worker_decide.
  assert (Hpc : forall th', carried th' = [] -> cnt x (everywhere (with_pc q t th')) = cnt x (everywhere q))
    by (intros th' H'; apply (with_pc_conserves x q t th th' Hn); rewrite H', Hc; reflexivity).
  destruct (p_tasks q) as [|k rest] eqn:Et.
  - destruct (p_shutdown q); [apply Hpc; reflexivity| |].
    all: rewrite <- (app_nil_r (set_nth_th t (TWorker WBcast) (p_threads q))); apply (conserve_pc x q t th); [exact Hn|]; rewrite Hc, Et; cbn; lia.
  - destruct (p_shutdown q).
    + rewrite <- (app_nil_r (set_nth_th t (TWorker (WUnlockRun k)) (p_threads q))). apply (conserve_pc x q t th); [exact Hn|].
      rewrite Hc, Et. cbn [carried flat_map]. rewrite !cnt_cons, !cnt_nil. lia.
    + rewrite <- (app_nil_r (set_nth_th t (TWorker WBcast) (p_threads q))). apply (conserve_pc x q t th); [exact Hn|]. rewrite Hc, Et. cbn. lia.
    + rewrite <- (app_nil_r (set_nth_th t (TWorker (WUnlockRun k)) (p_threads q))). apply (conserve_pc x q t th); [exact Hn|].
      rewrite Hc, Et. cbn [carried flat_map]. rewrite !cnt_cons, !cnt_nil. lia.
Qed.

Lemma sub_decide_conserves x q t k rest : nth_error (p_threads q) t = Some (TSub (SLock (k :: rest))) ->
  cnt x (everywhere (sub_decide q t k rest)) = cnt x (everywhere q).
Proof.
  intros Hn. unfold sub_decide. destruct (_ && _ && _).
  - apply (with_pc_conserves x q t _ _ Hn). reflexivity.
  - rewrite <- (app_nil_r (set_nth_th t (TSub (SSignal rest)) (p_threads q))). apply (conserve_pc x q t _ _ _ _ _ _ _ _ _ _ _ _ _ _ _ Hn).
    cbn [carried flat_map]. rewrite !cnt_app, !cnt_cons, !cnt_nil. lia.
Qed.

Lemma freer_decide_conserves x q t th : nth_error (p_threads q) t = Some th -> carried th = [] ->
  cnt x (everywhere (freer_decide q t)) = cnt x (everywhere q).
Proof. intros Hn Hc. unfold freer_decide. destruct (Nat.eqb (p_alive q) 0); apply (with_pc_conserves x q t th _ Hn); rewrite Hc; reflexivity. Qed.

Theorem step_conserves p ch x : cnt x (everywhere (step p ch)) = cnt x (everywhere p).
Proof.
  destruct ch as [t sp]. unfold step. destruct (nth_error (p_threads p) t) as [th|] eqn:Hn; [|reflexivity].
  assert (Hn' : nth_error (p_threads (touch p)) t = Some th) by (rewrite touch_threads; exact Hn).
  assert (Hte : cnt x (everywhere (touch p)) = cnt x (everywhere p)) by (rewrite touch_everywhere; reflexivity).
  (* the common shapes *)
  assert (Hset : forall q th', nth_error (p_threads q) t = Some th -> carried th' = carried th ->
                 cnt x (everywhere (with_pc q t th')) = cnt x (everywhere q))
    by (intros q th' Hq Hc; apply (with_pc_conserves x q t th th' Hq); rewrite Hc; reflexivity).
  assert (Hupd : forall q lock' sl' sd' wk' al' rn' ds' acc' tc' th',
                 nth_error (p_threads q) t = Some th -> carried th' = carried th ->
                 cnt x (everywhere (upd q lock' sl' (p_tasks q) sd' wk' al' rn' ds' (set_nth_th t th' (p_threads q)) acc' (p_started q) (p_discarded q) tc')) =
                 cnt x (everywhere q)).
  { intros q lock' sl' sd' wk' al' rn' ds' acc' tc' th' Hq Hc.
    rewrite <- (app_nil_r (set_nth_th t th' (p_threads q))). apply (conserve_pc x q t th th'); [exact Hq|]. rewrite Hc. cbn. lia. }
  destruct th as [w|s|f].
  - (* worker *)
    destruct w.
    + destruct (enabled_lock p); [|reflexivity]. rewrite (worker_decide_conserves x (with_lock (touch p) (Some t)) t _ Hn' eq_refl). exact Hte.
    + rewrite (Hupd (touch p)); auto.
    + destruct sp; [|reflexivity]. apply with_sleepers_conserves.
      pose proof (cnt_carried_set x (p_threads p) t _ (TWorker WRelock) Hn). cbn [carried] in *. rewrite cnt_nil in *. lia.
    + destruct (enabled_lock p); [|reflexivity]. rewrite (worker_decide_conserves x (with_lock (touch p) (Some t)) t _ Hn' eq_refl). exact Hte.
    + rewrite (Hupd (touch p)); auto.
    + (* the task runs *)
      rewrite <- (app_nil_r (set_nth_th t (TWorker WLock) (p_threads (touch p)))).
      rewrite (conserve_pc x (touch p) t _ _ _ _ _ _ _ _ _ _ _ _ _ _ _ Hn'); [exact Hte|].
      rewrite map_app. cbn [carried flat_map map fst]. rewrite !cnt_app, !cnt_cons, !cnt_nil. lia.
    + (* broadcast *)
      destruct (wake_all_nth (p_sleepers (touch p)) (p_threads (touch p)) t _ Hn') as (th0 & H0 & C0).
      rewrite (with_pc_conserves x (with_sleepers (touch p) [] (wake_all (touch p))) t th0 (TWorker WUnlockExit) H0);
        [|rewrite C0; reflexivity].
      rewrite with_sleepers_conserves; [exact Hte|]. unfold wake_all. apply cnt_wake_all.
    + rewrite (Hset _ _); [exact Hte| exact Hn' | reflexivity].
    + reflexivity.
  - (* submitter *)
    destruct s as [l|k rest|rest|rest|].
    + destruct l as [|k rest].
      * rewrite (Hset p _ Hn); reflexivity.
      * destruct (enabled_lock p); [|reflexivity].
        rewrite (sub_decide_conserves x (with_lock (touch p) (Some t)) t k rest Hn'). exact Hte.
    + (* create: a new worker (carrying nothing) is appended, the task is enqueued *)
      apply (conserve_pc x p t _ _ _ _ _ _ _ _ _ _ _ _ _ _ [TWorker WLock] Hn).
      cbn [carried flat_map]. rewrite !cnt_app, !cnt_cons, !cnt_nil. lia.
    + (* signal *)
      destruct (p_sleepers p) as [|sl others].
      * rewrite (Hset p _ Hn); reflexivity.
      * destruct (wake_nth (p_threads p) sl t _ Hn) as (th0 & H0 & C0).
        rewrite (with_pc_conserves x (with_sleepers p others (wake (p_threads p) sl)) t th0 (TSub (SUnlock rest)) H0); [|rewrite C0; reflexivity].
        apply with_sleepers_conserves. apply cnt_wake.
    + rewrite (Hset (with_lock p None) _ Hn); reflexivity.
    + reflexivity.
  - (* freeing thread *)
    destruct f as [| | | |ws| | | | | | |].
    + destruct (all_subs_done p); [|reflexivity]. rewrite (Hset p _ Hn); reflexivity.
    + destruct (enabled_lock p); [|reflexivity]. rewrite (Hupd p); auto.
    + destruct (wake_all_nth (p_sleepers p) (p_threads p) t _ Hn) as (th0 & H0 & C0).
      rewrite (with_pc_conserves x (with_sleepers p [] (wake_all p)) t th0 (TFree FUnlock) H0); [|rewrite C0; reflexivity].
      apply with_sleepers_conserves. unfold wake_all. apply cnt_wake_all.
    + rewrite (Hset (with_lock p None) _ Hn); [reflexivity|]. destruct (p_detached p); [reflexivity|]. destruct (p_workers p); reflexivity.
    + destruct ws as [|w ws]; [rewrite (Hset p _ Hn); reflexivity|].
      destruct (worker_done p w); [|reflexivity]. rewrite (Hset p _ Hn); [reflexivity|]. destruct ws; reflexivity.
    + destruct (enabled_lock p); [|reflexivity]. rewrite (freer_decide_conserves x (with_lock p (Some t)) t _ Hn eq_refl). reflexivity.
    + rewrite (Hupd p); auto.
    + destruct sp; [|reflexivity]. apply with_sleepers_conserves.
      pose proof (cnt_carried_set x (p_threads p) t _ (TFree FRelock) Hn). cbn [carried] in *. rewrite cnt_nil in *. lia.
    + destruct (enabled_lock p); [|reflexivity]. rewrite (freer_decide_conserves x (with_lock p (Some t)) t _ Hn eq_refl). reflexivity.
    + rewrite (Hset (with_lock p None) _ Hn); reflexivity.
    + (* the final free: what is left in the queue is discarded *)
      rewrite <- (app_nil_r (set_nth_th t (TFree FDone) (p_threads p))). apply (conserve_pc x p t _ _ _ _ _ _ _ _ _ _ _ _ _ _ _ Hn).
      cbn [carried flat_map]. rewrite !cnt_app, !cnt_nil. lia.
    + reflexivity.
Qed.

(* ---------- consequences, for every schedule ---------- *)

Lemma run_conserves sched : forall p x, cnt x (everywhere (run_sched p sched)) = cnt x (everywhere p).
Proof. induction sched as [|ch r IH]; intros p x; cbn [run_sched fold_left]; [reflexivity|].
       unfold run_sched in IH. rewrite IH. apply step_conserves. Qed.

Lemma everywhere_init lazy det mx md subs : forall x, cnt x (everywhere (init lazy det mx md subs)) = cnt x (concat subs).
Proof.
  intros x. unfold everywhere, init. cbn [p_threads p_tasks p_started p_discarded map app].
  rewrite !app_nil_r. rewrite !flat_map_app. rewrite !cnt_app.
  assert (H1 : forall n, cnt x (flat_map carried (repeat (TWorker WLock) n)) = 0) by (induction n; cbn; auto).
  rewrite H1. cbn [flat_map carried app]. rewrite cnt_nil.
  assert (H2 : cnt x (flat_map carried (map (fun l => TSub (SLock l)) subs)) = cnt x (concat subs)).
  { induction subs as [|l r IH]; cbn [map flat_map concat carried]; [reflexivity|]. rewrite !cnt_app, IH. reflexivity. }
  rewrite H2. lia.
Qed.

(* Every task is executed at most once, and only submitted tasks are executed,
   whatever the interleaving of submitters, workers and the freeing thread,
   for every pool flavour and every number of threads and tasks. *)
Theorem at_most_once lazy det mx md subs sched :
  NoDup (concat subs) ->
  let p := run_sched (init lazy det mx md subs) sched in
  NoDup (map fst (p_started p)) /\ incl (map fst (p_started p)) (concat subs) /\
  (* a discarded task never ran, a task that ran is not discarded *)
  (forall k, In k (p_discarded p) -> ~ In k (map fst (p_started p))).
Proof.
  intros Hnd. cbn zeta. set (p := run_sched (init lazy det mx md subs) sched).
  assert (Hc : forall x, cnt x (everywhere p) = cnt x (concat subs)).
  { intros x. unfold p. rewrite run_conserves. apply everywhere_init. }
  assert (Hle : forall x, cnt x (concat subs) <= 1) by (intros x; apply (proj1 (NoDup_count_occ Nat.eq_dec (concat subs)) Hnd)).
  assert (Hparts : forall x, cnt x (map fst (p_started p)) + cnt x (p_discarded p) <= cnt x (concat subs)).
  { intros x. rewrite <- Hc. unfold everywhere. rewrite !cnt_app. lia. }
  split; [|split].
  - apply (proj2 (NoDup_count_occ Nat.eq_dec _)). intros x. specialize (Hparts x). specialize (Hle x). unfold cnt in *. lia.
  - intros k Hk. apply (count_occ_In Nat.eq_dec) in Hk. apply (count_occ_In Nat.eq_dec). specialize (Hparts k). unfold cnt in *. lia.
  - intros k Hd Hs. apply (count_occ_In Nat.eq_dec) in Hd. apply (count_occ_In Nat.eq_dec) in Hs.
    specialize (Hparts k). specialize (Hle k). unfold cnt in *. lia.
Qed.

