(* CoreExamples.v -- the whole-function theorems are not vacuous: concrete reachable worlds meet their hypotheses and show the effect. *)
From LM Require Import Base CoreTypes CoreModel CoreExec CoreInv CoreInvInst CoreSend CoreStop CoreLoop CorePass.
From Coq Require Import Sorted Lia.

(* three modules: 0 and 1 RUNNING, 2 registered but IDLE; 1 subscribed to topic 7; 0 holds a timer and a signal source *)
Definition ex2 : script :=
  mkScript [mkMS 8 3 false false false false false (mkHooks false false false); mkMS 9 5 false false false false false (mkHooks false false false);
            mkMS 10 9 false false false false false (mkHooks false false false)]
           [[]; [CCtxReg true; CReg 0; CReg 1; CReg 2; CStart 0; CStart 1; CSub 1 7 0 false 33; CSrcReg 0 KTmr 5 0 false false 1; CSrcReg 0 KSgn 34 0 false false 2]]
           [] [(7%N, 4)] [(7%N, 7%N, true)] 0.
Definition w2 : world := core_world 4 ex2.

Example w2_shape :
  map (fun m => option_map m_state (get_mod w2 m)) [0; 1; 2] = [Some MRunning; Some MRunning; Some MIdle] /\
  table_mods w2 = [0; 1; 2] /\ option_map m_srcs (get_mod w2 0) = Some [0; 3; 4].
Proof. vm_compute. repeat split. Qed.

(* a broadcast from module 0: modules 0 and 1 (RUNNING) get one copy each at the tail of their pipes, module 2 (IDLE) nothing *)
Example broadcast_effect :
  let w' := deliver ex2 w2 None false (Some 0) None 5 false None in
  map (fun r => option_map (@length msgrec) (pipe_of w2 r)) [0; 1; 2] = [Some 0; Some 0; None] /\
  map (fun r => option_map (@length msgrec) (pipe_of w' r)) [0; 1; 2] = [Some 1; Some 1; None] /\
  map (eligible w2) [0; 1; 2] = [true; true; false].
Proof. vm_compute. repeat split. Qed.

(* a publish on topic 7: only module 1 holds a matching subscription *)
Example publish_effect :
  let w' := deliver ex2 w2 None false (Some 0) (Some 7%N) 5 false None in
  map (fun r => matching ex2 w2 r 7) [0; 1; 2] = [None; Some 2; None] /\
  map (fun r => option_map (@length msgrec) (pipe_of w' r)) [0; 1; 2] = [Some 0; Some 1; None].
Proof. vm_compute. repeat split. Qed.

(* the table of a reachable world is in strict slot order: the hypothesis of the pass theorem *)
Example table_sorted : match w_tls w2 with Some c => StronglySorted (fun a b : nat * modid => fst a < fst b) (c_modules c) | None => False end.
Proof. vm_compute. repeat constructor. Qed.

(* stopping module 0: its three sources (pipe, timer, signal) are all polled before, none after, and the registry is empty *)
Example drop_effect :
  map (fun i => option_map s_armed (get_src w2 i)) [0; 3; 4] = [Some true; Some true; Some true] /\
  map (fun i => option_map s_armed (get_src (drop_sources w2 0) i)) [0; 3; 4] = [Some false; Some false; Some false] /\
  option_map m_srcs (get_mod (drop_sources w2 0) 0) = Some [].
Proof. vm_compute. repeat split. Qed.
