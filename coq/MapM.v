(* MapM.v -- executable model of Lib/structs/map.c: open addressing with linear
   probing bounded by table_size/2, doubling rehash with revert, back-shift
   deletion, slot-order iterator and callback iteration.  Keys are opaque ids;
   `hash` (the full hash value of a key) is a parameter: every theorem holds for
   ANY hash function, the drivers plug in the real one. *)
From LM Require Import Base.

Definition slot := option (N * N).            (* key id, value *)

Record map := mkM {
  m_slots : list slot;        (* the table; table_size = length *)
  m_len   : nat;              (* m->length *)
  m_upd   : bool;             (* M_MAP_VAL_ALLOW_UPDATE *)
  m_dup   : bool;             (* M_MAP_KEY_DUP (forces autofree) *)
  m_dtor  : bool;
  m_freed : bool
}.

Record mitr := mkMI { mi_curr : nat; mi_removed : bool }.
Record mstate := mkMS { ms_m : map; ms_itr : option mitr }.

Inductive mop :=
| MPut (k v : N) | MGet (k : N) | MContains (k : N) | MRemove (k : N) | MLen | MClear | MFree
| MIterate (kth : nat) (rc : Z) (rm : bool)   (* callback: optionally removes the current key; returns rc at its kth call *)
| MItrNew | MItrNext | MItrKey | MItrGet | MItrSet (v : N) | MItrRm.

Section WithHash.
  Variable hash : N -> N.

  Definition home (size : nat) (k : N) : nat := N.to_nat (hash k mod N.of_nat size).
  Definition nxt (size i : nat) : nat := if Nat.eqb (S i) size then 0 else S i.
  (* cyclic distance from a to b *)
  Definition cdist (size a b : nat) : nat := (b + size - a) mod size.

  (* hashmap_entry_find: Some i = slot index of the key or (find_empty) of the
     first empty slot; None = not found within the probe length *)
  Fixpoint probe (slots : list slot) (k : N) (find_empty : bool) (i fuel : nat) : option nat :=
    match fuel with
    | O => None
    | S f =>
        match nth i slots None with
        | None => if find_empty then Some i else None
        | Some (k', _) => if N.eqb k k' then Some i else probe slots k find_empty (nxt (length slots) i) f
        end
    end.
  Definition find_slot (slots : list slot) (k : N) (find_empty : bool) : option nat :=
    probe slots k find_empty (home (length slots) k) (length slots / 2).

  (* hashmap_rehash: re-insert the old entries, in slot order, into a table of twice the size *)
  Fixpoint rehash_into (news : list slot) (olds : list slot) : option (list slot) :=
    match olds with
    | [] => Some news
    | None :: r => rehash_into news r
    | Some (k, v) :: r =>
        match find_slot news k true with
        | None => None                       (* revert *)
        | Some i => rehash_into (set_nth i (Some (k, v)) news) r
        end
    end.
  Definition rehash (slots : list slot) : option (list slot) :=
    rehash_into (repeat None (2 * length slots)) slots.

  (* clear_elem's back-shift: hole = current empty slot, i = scan index *)
  Fixpoint backshift (slots : list slot) (hole i fuel : nat) : list slot :=
    match fuel with
    | O => slots
    | S f =>
        match nth i slots None with
        | None => slots
        | Some (k, v) =>
            let size := length slots in
            if Nat.leb (cdist size hole i) (cdist size (home size k) i)
            then backshift (set_nth i None (set_nth hole (Some (k, v)) slots)) i (nxt size i) f
            else backshift slots hole (nxt size i) f
        end
    end.
  Definition clear_slot (slots : list slot) (i : nat) : list slot :=
    backshift (set_nth i None slots) i (nxt (length slots) i) (length slots - 1).

  Definition m_set (m : map) slots len := mkM slots len (m_upd m) (m_dup m) (m_dtor m) (m_freed m).

  (* hashmap_put; returns the new map, the observables and whether a NEW entry was stored *)
  Definition put (m : map) (k v : N) : map * list ev * bool :=
    (* growth check *)
    let grow := Nat.leb (length (m_slots m)) (m_len m + m_len m / 3) in
    let r1 := if grow then rehash (m_slots m) else Some (m_slots m) in
    match r1 with
    | None => (m, [ERet (- cENOMEM)], false)
    | Some s1 =>
        let r2 := match find_slot s1 k true with
                  | Some i => Some (s1, i)
                  | None => match rehash s1 with
                            | None => None
                            | Some s2 => match find_slot s2 k true with
                                         | Some i => Some (s2, i)
                                         | None => None   (* table stays rehashed *)
                                         end
                            end
                  end in
        match r2 with
        | None =>
            (* second rehash failed: s1 kept; rehash succeeded but still no slot: s2 kept *)
            let kept := match find_slot s1 k true with
                        | Some _ => s1
                        | None => match rehash s1 with Some s2 => s2 | None => s1 end
                        end in
            (m_set m kept (m_len m), [ERet (- cENOMEM)], false)
        | Some (s, i) =>
            match nth i s None with
            | Some (k0, old) =>
                if m_upd m then
                  (m_set m (set_nth i (Some (k0, v)) s) (m_len m),
                   (if m_dtor m && negb (N.eqb old v) then [EDtor old] else []) ++ [ERet 0], false)
                else (m_set m s (m_len m), [ERet (- cEPERM)], false)
            | None => (m_set m (set_nth i (Some (k, v)) s) (S (m_len m)), [ERet 0], true)
            end
        end
    end.

  (* clear_elem observables: key copy freed, then value destructor *)
  Definition clear_evs (m : map) (k v : N) : list ev :=
    (if m_dup m then [EFree k] else []) ++ (if m_dtor m then [EDtor v] else []).

  (* first occupied slot at index >= i *)
  Fixpoint next_occ (slots : list slot) (i fuel : nat) : option nat :=
    match fuel with
    | O => None
    | S f => if Nat.leb (length slots) i then None
             else match nth i slots None with
                  | Some _ => Some i
                  | None => next_occ slots (S i) f
                  end
    end.

  (* m_map_clear / free: iterator-remove every entry (slot order, re-examining a slot after removal) *)
  Fixpoint clear_all (m : map) (i fuel : nat) (acc : list ev) : map * list ev :=
    match fuel with
    | O => (m, acc)
    | S f =>
        match next_occ (m_slots m) i (S (length (m_slots m))) with
        | None => (m, acc)
        | Some j =>
            match nth j (m_slots m) None with
            | Some (k, v) =>
                clear_all (m_set m (clear_slot (m_slots m) j) (m_len m - 1)) j f (acc ++ clear_evs m k v)
            | None => (m, acc)
            end
        end
    end.

  (* m_map_iterate with the scripted callback *)
  Fixpoint iterate_cb (m : map) (i : nat) (n kth : nat) (rc : Z) (rm : bool) (fuel : nat)
    : map * list ev :=
    match fuel with
    | O => (m, [ERet 0])
    | S f =>
        if Nat.leb (length (m_slots m)) i then (m, [ERet 0]) else
        match nth i (m_slots m) None with
        | None => iterate_cb m (S i) n kth rc rm f
        | Some (k, v) =>
            (* callback body: optional removal of the current key, then the return value *)
            let m1 := if rm then m_set m (clear_slot (m_slots m) i) (m_len m - 1) else m in
            let e1 := EVisit k :: (if rm then clear_evs m k v else []) in
            let ret := if Nat.eqb (S n) kth then rc else 0%Z in
            if (ret <? 0)%Z then (m1, e1 ++ [ERet ret])
            else if (0 <? ret)%Z then (m1, e1 ++ [ERet 0])
            else
              (* entry->key != key: run this slot again; the callback's removal of
                 the CURRENT key never trips the length check *)
              let '(m2, e2) := iterate_cb m1 (if rm then i else S i) (S n) kth rc rm f in
              (m2, e1 ++ e2)
        end
    end.

  Definition m_step (st : mstate) (o : mop) : mstate * list ev :=
    let m := ms_m st in
    if m_freed m then
      match o with
      | MGet _ | MItrNew | MItrGet | MItrKey => (st, [EPtr 0])
      | MContains _ => (st, [ERet 0])
      | _ => (st, [ERet (- cEINVAL)])
      end
    else
    match o with
    | MPut k v =>
        if N.eqb v 0 then (mkMS m None, [ERet (- cEINVAL)]) else
        let '(m1, e, stored) := put m k v in
        (mkMS m1 None,
         (if m_dup m then [EAlloc k] else []) ++
         (match e with [ERet z] => [] | _ => removelast e end) ++
         (if m_dup m && negb stored then [EFree k] else []) ++
         [last e (ERet 0)])
    | MGet k =>
        if Nat.eqb (m_len m) 0 then (st, [EPtr 0]) else
        (st, [EPtr (match find_slot (m_slots m) k false with
                    | Some i => match nth i (m_slots m) None with Some (_, v) => v | None => 0%N end
                    | None => 0%N end)])
    | MContains k =>
        if Nat.eqb (m_len m) 0 then (st, [ERet 0]) else
        (st, [ERet (match find_slot (m_slots m) k false with Some _ => 1%Z | None => 0%Z end)])
    | MRemove k =>
        if Nat.eqb (m_len m) 0 then (mkMS m None, [ERet (- cEINVAL)]) else
        match find_slot (m_slots m) k false with
        | None => (mkMS m None, [ERet (- cENOENT)])
        | Some i =>
            match nth i (m_slots m) None with
            | Some (k', v) =>
                (mkMS (m_set m (clear_slot (m_slots m) i) (m_len m - 1)) None, clear_evs m k' v ++ [ERet 0])
            | None => (mkMS m None, [ERet (- cENOENT)])
            end
        end
    | MLen => (st, [ERet (Z.of_nat (m_len m))])
    | MClear =>
        if Nat.eqb (m_len m) 0 then (mkMS m None, [ERet 0]) else
        let '(m1, e) := clear_all m 0 (m_len m + length (m_slots m)) [] in (mkMS m1 None, e ++ [ERet 0])
    | MFree =>
        let '(m1, e) := if Nat.eqb (m_len m) 0 then (m, [])
                        else clear_all m 0 (m_len m + length (m_slots m)) [] in
        (mkMS (mkM (m_slots m1) (m_len m1) (m_upd m) (m_dup m) (m_dtor m) true) None, e ++ [ERet 0])
    | MIterate kth rc rm =>
        if Nat.eqb (m_len m) 0 then (mkMS m None, [ERet (- cEINVAL)]) else
        let '(m1, e) := iterate_cb m 0 0 kth rc rm (m_len m + length (m_slots m) + 1) in
        (mkMS m1 None, e)
    | MItrNew =>
        if Nat.eqb (m_len m) 0 then (mkMS m None, [EPtr 0]) else
        match next_occ (m_slots m) 0 (S (length (m_slots m))) with
        | Some j => (mkMS m (Some (mkMI j false)), [EPtr 1])
        | None => (mkMS m None, [EPtr 0])
        end
    | MItrNext =>
        match ms_itr st with
        | None => (st, [ERet (- cEINVAL)])
        | Some i =>
            let from := if mi_removed i then mi_curr i else S (mi_curr i) in
            match next_occ (m_slots m) from (S (length (m_slots m))) with
            | Some j => (mkMS m (Some (mkMI j false)), [ERet 0])
            | None => (mkMS m None, [ERet 0])
            end
        end
    | MItrKey =>
        match ms_itr st with
        | None => (st, [EPtr 0])
        | Some i => if mi_removed i then (st, [EPtr 0]) else
                    (st, [EPtr (match nth (mi_curr i) (m_slots m) None with Some (k, _) => k | None => 0%N end)])
        end
    | MItrGet =>
        match ms_itr st with
        | None => (st, [EPtr 0])
        | Some i => if mi_removed i then (st, [EPtr 0]) else
                    (st, [EPtr (match nth (mi_curr i) (m_slots m) None with Some (_, v) => v | None => 0%N end)])
        end
    | MItrSet v =>
        match ms_itr st with
        | None => (st, [ERet (- cEINVAL)])
        | Some i => if mi_removed i || N.eqb v 0 then (st, [ERet (- cEINVAL)]) else
                    match nth (mi_curr i) (m_slots m) None with
                    | Some (k, _) => (mkMS (m_set m (set_nth (mi_curr i) (Some (k, v)) (m_slots m)) (m_len m)) (Some i), [ERet 0])
                    | None => (st, [ERet 0])
                    end
        end
    | MItrRm =>
        match ms_itr st with
        | None => (st, [ERet (- cEINVAL)])
        | Some i => if mi_removed i then (st, [ERet (- cEINVAL)]) else
                    match nth (mi_curr i) (m_slots m) None with
                    | Some (k, v) =>
                        (mkMS (m_set m (clear_slot (m_slots m) (mi_curr i)) (m_len m - 1))
                              (Some (mkMI (mi_curr i) true)), clear_evs m k v ++ [ERet 0])
                    | None => (st, [ERet 0])
                    end
        end
    end.
End WithHash.

Definition m_init (size : nat) (upd dup dtor : bool) : mstate :=
  mkMS (mkM (repeat None size) 0 upd dup dtor false) None.

Fixpoint assoc_hash (tbl : list (N * N)) (k : N) : N :=
  match tbl with
  | [] => 0%N
  | (k', h) :: r => if N.eqb k k' then h else assoc_hash r k
  end.

Definition m_run (tbl : list (N * N)) (upd dup dtor : bool) (ops : list mop) : list (list ev) :=
  snd (run (m_step (assoc_hash tbl)) (m_init (N.to_nat cMAP_SIZE_DEFAULT) upd dup dtor) ops).
