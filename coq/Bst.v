(* Bst.v -- executable model of Lib/structs/bst.c: an unbalanced binary search
   tree ordered by a comparator comp(data, node_data), the REDUNDANT length, and
   the in-order iterator with removal.  Parent pointers are not represented:
   the iterator is modelled by the VALUES of the nodes it designates (elements
   are unique under the comparator), see DESIGN 4.1 / 10. *)
From LM Require Import Base.

Inductive tree := Leaf | Node (l : tree) (x : N) (r : tree).

Record bst := mkB { b_tree : tree; b_len : nat; b_dtor : bool; b_freed : bool }.
Record bitr := mkBI { bi_curr : option N; bi_prev : option N; bi_removed : bool }.
Record bstate := mkBS { bs_b : bst; bs_itr : option bitr }.

Inductive bop :=
| BInsert (v : N) | BRemove (v : N) | BFind (v : N) | BLen | BClear | BFree
| BTraverse (ty : nat) (k : nat) (rc : Z)     (* 0 pre, 1 post, 2 in, other: invalid *)
| BItrNew | BItrNext | BItrGet | BItrRm.

Fixpoint inorder (t : tree) : list N :=
  match t with Leaf => [] | Node l x r => inorder l ++ x :: inorder r end.
Fixpoint preorder (t : tree) : list N :=
  match t with Leaf => [] | Node l x r => x :: preorder l ++ preorder r end.
Fixpoint postorder (t : tree) : list N :=
  match t with Leaf => [] | Node l x r => postorder l ++ postorder r ++ [x] end.
Fixpoint tsize (t : tree) : nat :=
  match t with Leaf => 0 | Node l _ r => S (tsize l + tsize r) end.

Fixpoint tmin (t : tree) : option N :=
  match t with
  | Leaf => None
  | Node Leaf x _ => Some x
  | Node l x _ => tmin l
  end.

(* the scripted traversal callback: returns rc at its k-th call, 0 before;
   ANY non-zero return stops the traversal; the call returns rc if rc < 0, else 0 *)
Fixpoint trav_cb (items : list N) (n k : nat) (rc : Z) : list ev :=
  match items with
  | [] => [ERet 0]
  | x :: r =>
      if Nat.eqb (S n) k && negb (Z.eqb rc 0)
      then [EVisit x; ERet (if (rc <? 0)%Z then rc else 0%Z)]
      else EVisit x :: trav_cb r (S n) k rc
  end.

Section WithCmp.
  Variable cmp : N -> N -> Z.      (* comp(data, node_data) *)

  (* bst_find: the element stored in the tree comparing equal to v *)
  Fixpoint t_find (t : tree) (v : N) : option N :=
    match t with
    | Leaf => None
    | Node l x r =>
        let c := cmp v x in
        if (c =? 0)%Z then Some x else if (0 <? c)%Z then t_find r v else t_find l v
    end.

  Fixpoint t_insert (t : tree) (v : N) : tree :=
    match t with
    | Leaf => Node Leaf v Leaf
    | Node l x r =>
        let c := cmp v x in
        if (c =? 0)%Z then t else if (0 <? c)%Z then Node l x (t_insert r v) else Node (t_insert l v) x r
    end.

  (* remove the leftmost node, returning its value *)
  Fixpoint t_pop_min (t : tree) : option (N * tree) :=
    match t with
    | Leaf => None
    | Node l x r =>
        match t_pop_min l with
        | None => Some (x, r)
        | Some (m, l') => Some (m, Node l' x r)
        end
    end.

  (* remove_node on the node at the root of t: the value destroyed is the
     removed element's (the successor's value moves into the node) *)
  Definition t_remove_root (l : tree) (x : N) (r : tree) : tree :=
    match l, r with
    | Leaf, _ => r
    | _, Leaf => l
    | _, _ => match t_pop_min r with
              | Some (m, r') => Node l m r'
              | None => l
              end
    end.

  Fixpoint t_remove (t : tree) (v : N) : tree :=
    match t with
    | Leaf => Leaf
    | Node l x r =>
        let c := cmp v x in
        if (c =? 0)%Z then t_remove_root l x r
        else if (0 <? c)%Z then Node l x (t_remove r v) else Node (t_remove l v) x r
    end.

  (* in-order successor of (the node holding) v *)
  Fixpoint t_succ (t : tree) (v : N) (best : option N) : option N :=
    match t with
    | Leaf => best
    | Node l x r => if (cmp v x <? 0)%Z then t_succ l v (Some x) else t_succ r v best
    end.

  Definition b_upd (b : bst) t len := mkB t len (b_dtor b) (b_freed b).

  Definition b_step (st : bstate) (o : bop) : bstate * list ev :=
    let b := bs_b st in
    if b_freed b then
      match o with
      | BFind _ | BItrGet | BItrNew => (st, [EPtr 0])
      | BFree => (st, [ERet 0])           (* m_bst_free ignores the result of clear(NULL) *)
      | _ => (st, [ERet (- cEINVAL)])
      end
    else
    match o with
    | BInsert v =>
        if N.eqb v 0 then (mkBS b None, [ERet (- cEINVAL)]) else
        match t_find (b_tree b) v with
        | Some _ => (mkBS b None, [ERet (- cEEXIST)])
        | None => (mkBS (b_upd b (t_insert (b_tree b) v) (S (b_len b))) None, [ERet 0])
        end
    | BRemove v =>
        if Nat.eqb (b_len b) 0 || N.eqb v 0 then (mkBS b None, [ERet (- cEINVAL)]) else
        match t_find (b_tree b) v with
        | None => (mkBS b None, [ERet (- cENOENT)])
        | Some x => (mkBS (b_upd b (t_remove (b_tree b) v) (b_len b - 1)) None,
                     dtor_evs (b_dtor b) [x] ++ [ERet 0])
        end
    | BFind v =>
        if N.eqb v 0 then (st, [EPtr 0]) else
        (st, [EPtr (match t_find (b_tree b) v with Some x => x | None => 0%N end)])
    | BLen => (st, [ERet (Z.of_nat (b_len b))])
    | BClear =>
        if Nat.eqb (b_len b) 0 then (mkBS b None, [ERet (- cEINVAL)]) else
        (mkBS (b_upd b Leaf (b_len b - tsize (b_tree b))) None,
         dtor_evs (b_dtor b) (inorder (b_tree b)) ++ [ERet 0])
    | BFree =>
        (mkBS (mkB Leaf (b_len b - tsize (b_tree b)) (b_dtor b) true) None,
         (if Nat.eqb (b_len b) 0 then [] else dtor_evs (b_dtor b) (inorder (b_tree b))) ++ [ERet 0])
    | BTraverse ty k rc =>
        match ty with
        | 0 => (st, trav_cb (preorder (b_tree b)) 0 k rc)
        | 1 => (st, trav_cb (postorder (b_tree b)) 0 k rc)
        | 2 => (st, trav_cb (inorder (b_tree b)) 0 k rc)
        | _ => (st, [ERet (- cEINVAL)])
        end
    | BItrNew =>
        if Nat.eqb (b_len b) 0 then (mkBS b None, [EPtr 0])
        else (mkBS b (Some (mkBI (tmin (b_tree b)) None false)), [EPtr 1])
    | BItrNext =>
        match bs_itr st with
        | None => (st, [ERet (- cEINVAL)])
        | Some i =>
            let '(curr, prev) :=
              if negb (bi_removed i) then
                (match bi_curr i with Some c => t_succ (b_tree b) c None | None => None end, bi_curr i)
              else match bi_prev i with
                   | Some p => (t_succ (b_tree b) p None, bi_prev i)
                   | None => (tmin (b_tree b), None)
                   end in
            match curr with
            | None => (mkBS b None, [ERet 0])
            | Some _ => (mkBS b (Some (mkBI curr prev false)), [ERet 0])
            end
        end
    | BItrGet =>
        match bs_itr st with
        | None => (st, [EPtr 0])
        | Some i => if bi_removed i then (st, [EPtr 0])
                    else (st, [EPtr (match bi_curr i with Some c => c | None => 0%N end)])
        end
    | BItrRm =>
        match bs_itr st with
        | None => (st, [ERet (- cEINVAL)])
        | Some i =>
            if bi_removed i then (st, [ERet (- cEINVAL)]) else
            match bi_curr i with
            | None => (st, [ERet (- cEINVAL)])
            | Some c =>
                (mkBS (b_upd b (t_remove (b_tree b) c) (b_len b - 1))
                      (Some (mkBI (bi_curr i) (bi_prev i) true)),
                 dtor_evs (b_dtor b) [c] ++ [ERet 0])
            end
        end
    end.
End WithCmp.

Definition b_init (dtor : bool) : bstate := mkBS (mkB Leaf 0 dtor false) None.

(* comparators used by the drivers: 0 = the library's default pointer
   comparator, k > 0 = user comparator on (value mod k) *)
Definition sgnZ (z : Z) : Z := if (z <? 0)%Z then (-1)%Z else if (0 <? z)%Z then 1%Z else 0%Z.
Definition ptrcmp_model (a b : N) : Z := sgnZ (Z.of_N a - Z.of_N b).
Definition cmp_of (k : N) : N -> N -> Z :=
  if N.eqb k 0 then ptrcmp_model
  else fun a b => sgnZ (Z.of_N (a mod k) - Z.of_N (b mod k)).

Definition b_run (k : N) (dtor : bool) (ops : list bop) : list (list ev) :=
  snd (run (b_step (cmp_of k)) (b_init dtor) ops).
