(* Thpool.v -- small-step model of Lib/thpool/thpool.c at the granularity of
   pthread operations (one transition = one pthread call or one task body).
   A run is a fold of `step` over an ARBITRARY schedule: a list of (thread id,
   spurious?) choices; a thread whose pending operation is not enabled stutters.
   Between two operations a thread only touches state protected by the lock it
   holds (or the atomic running counter), so the operations are the only points
   where interleaving matters. *)
From LM Require Import Base.

Definition tid := nat.

Inductive mode := Wall | Wcurr.                 (* m_thpool_free(wait_all = true / false) *)
Inductive sdown := SNo | SCurr | SAll.

(* the pending operation of each kind of thread *)
Inductive wpc :=                                (* worker: thpool_thread *)
| WLock                                         (* pthread_mutex_lock (top of the loop) *)
| WWait                                         (* holds the lock, about to pthread_cond_wait (queue empty, no shutdown) *)
| WSleep                                        (* inside pthread_cond_wait: lock released, asleep *)
| WRelock                                       (* woken (signal / broadcast / spurious): re-acquiring the lock inside cond_wait *)
| WUnlockRun (k : nat)                          (* holds the lock, dequeued task k, about to pthread_mutex_unlock *)
| WTask (k : nat)                               (* unlocked, running_tasks incremented, inside the task function *)
| WBcast                                        (* holds the lock, leaving the loop: alive--, about to pthread_cond_broadcast *)
| WUnlockExit                                   (* about to pthread_mutex_unlock and return *)
| WDone.

Inductive spc :=                                (* submitter: m_thpool_add for each task of its list *)
| SLock (rest : list nat)                       (* pthread_mutex_lock of the next add; [] = finished *)
| SCreate (k : nat) (rest : list nat)           (* holds the lock, lazy pool: about to pthread_create *)
| SSignal (rest : list nat)                     (* holds the lock, task enqueued, about to pthread_cond_signal *)
| SUnlock (rest : list nat)
| SFin.

Inductive fpc :=                                (* the freeing thread: m_thpool_free *)
| FStart                                        (* precondition: free happens-after every submitter call *)
| FLock | FBcast | FUnlock                      (* wait_pool: lock; shutdown = mode; broadcast; unlock *)
| FJoin (ws : list tid)                         (* joinable pool: pthread_join each worker, newest first *)
| FLock2 | FWait | FSleep | FRelock | FUnlock2  (* detached pool: lock; while (alive) cond_wait; unlock *)
| FFree                                         (* destroy cond/mutex, free the queue (discarding what is left), the list, the pool *)
| FDone.

Inductive thread :=
| TWorker (pc : wpc)
| TSub (pc : spc)
| TFree (pc : fpc).

Record pool := mkP {
  p_lock : option tid;
  p_sleepers : list tid;          (* threads asleep in pthread_cond_wait(notify), oldest first *)
  p_tasks : list nat;             (* the queue *)
  p_shutdown : sdown;
  p_workers : list tid;           (* pool->threads: newest first (m_list_insert without comparator) *)
  p_alive : nat;                  (* alive_threads *)
  p_running : nat;                (* running_tasks *)
  p_lazy : bool; p_detached : bool; p_max : nat;
  p_mode : mode;
  p_destroyed : bool;
  p_threads : list thread;        (* index = thread id; workers are appended when created *)
  (* ghost *)
  p_accepted : list nat;          (* tasks enqueued by m_thpool_add *)
  p_started : list (nat * tid);   (* execution log: task, worker *)
  p_discarded : list nat;         (* dropped by the final queue free *)
  p_touch_after_free : nat        (* pool accesses by any thread after free(pool) *)
}.

Fixpoint set_nth_th (i : nat) (th : thread) (l : list thread) {struct l} : list thread :=
  match l, i with
  | [], _ => []
  | _ :: r, O => th :: r
  | x :: r, S j => x :: set_nth_th j th r
  end.

Definition upd (p : pool) lock sleepers tasks sd workers alive run destroyed threads acc st disc touch : pool :=
  mkP lock sleepers tasks sd workers alive run (p_lazy p) (p_detached p) (p_max p) (p_mode p) destroyed threads acc st disc touch.

Definition with_pc (p : pool) (t : tid) (th : thread) : pool :=
  upd p (p_lock p) (p_sleepers p) (p_tasks p) (p_shutdown p) (p_workers p) (p_alive p) (p_running p) (p_destroyed p)
      (set_nth_th t th (p_threads p)) (p_accepted p) (p_started p) (p_discarded p) (p_touch_after_free p).
Definition with_lock (p : pool) (l : option tid) : pool :=
  upd p l (p_sleepers p) (p_tasks p) (p_shutdown p) (p_workers p) (p_alive p) (p_running p) (p_destroyed p)
      (p_threads p) (p_accepted p) (p_started p) (p_discarded p) (p_touch_after_free p).
Definition with_sleepers (p : pool) (s : list tid) (ths : list thread) : pool :=
  upd p (p_lock p) s (p_tasks p) (p_shutdown p) (p_workers p) (p_alive p) (p_running p) (p_destroyed p)
      ths (p_accepted p) (p_started p) (p_discarded p) (p_touch_after_free p).
(* every operation of a pool thread touches the pool *)
Definition touch (p : pool) : pool :=
  if p_destroyed p then
    upd p (p_lock p) (p_sleepers p) (p_tasks p) (p_shutdown p) (p_workers p) (p_alive p) (p_running p) (p_destroyed p)
        (p_threads p) (p_accepted p) (p_started p) (p_discarded p) (S (p_touch_after_free p))
  else p.

Definition sub_done (th : thread) : bool := match th with TSub SFin | TSub (SLock []) => true | TSub _ => false | _ => true end.
Definition all_subs_done (p : pool) : bool := forallb sub_done (p_threads p).
Definition worker_done (p : pool) (w : tid) : bool :=
  match nth_error (p_threads p) w with Some (TWorker WDone) => true | _ => false end.

(* a sleeper that is woken re-acquires the lock before returning from cond_wait *)
Definition woken (th : thread) : thread :=
  match th with TWorker WSleep => TWorker WRelock | TFree FSleep => TFree FRelock | x => x end.
Definition wake (ths : list thread) (s : tid) : list thread :=
  match nth_error ths s with Some th => set_nth_th s (woken th) ths | None => ths end.
Definition wake_all (p : pool) : list thread := fold_left wake (p_sleepers p) (p_threads p).

(* what a worker does once it holds the lock (top of the loop, or back from cond_wait) *)
Definition worker_decide (p : pool) (t : tid) : pool :=
  match p_tasks p, p_shutdown p with
  | [], SNo => with_pc p t (TWorker WWait)
  | tasks, sd =>
      let quit := match sd with SNo => false | SCurr => true | SAll => match tasks with [] => true | _ => false end end in
      if quit then
        (* break: alive_threads--, then broadcast *)
        upd p (p_lock p) (p_sleepers p) (p_tasks p) (p_shutdown p) (p_workers p) (p_alive p - 1) (p_running p) (p_destroyed p)
            (set_nth_th t (TWorker WBcast) (p_threads p)) (p_accepted p) (p_started p) (p_discarded p) (p_touch_after_free p)
      else match tasks with
           | [] => with_pc p t (TWorker WWait)
           | k :: rest =>
               upd p (p_lock p) (p_sleepers p) rest (p_shutdown p) (p_workers p) (p_alive p) (p_running p) (p_destroyed p)
                   (set_nth_th t (TWorker (WUnlockRun k)) (p_threads p)) (p_accepted p) (p_started p) (p_discarded p) (p_touch_after_free p)
           end
  end.

(* what the freeing thread of a detached pool does once it holds the lock *)
Definition freer_decide (p : pool) (t : tid) : pool :=
  if Nat.eqb (p_alive p) 0 then with_pc p t (TFree FUnlock2) else with_pc p t (TFree FWait).

(* what a submitter does once it holds the lock *)
Definition sub_decide (p : pool) (t : tid) (k : nat) (rest : list nat) : pool :=
  if p_lazy p && negb (Nat.ltb (p_running p) (length (p_workers p))) && Nat.ltb (length (p_workers p)) (p_max p)
  then with_pc p t (TSub (SCreate k rest))
  else (* enqueue, then signal *)
    upd p (p_lock p) (p_sleepers p) (p_tasks p ++ [k]) (p_shutdown p) (p_workers p) (p_alive p) (p_running p) (p_destroyed p)
        (set_nth_th t (TSub (SSignal rest)) (p_threads p)) (p_accepted p ++ [k]) (p_started p) (p_discarded p) (p_touch_after_free p).

Definition enabled_lock (p : pool) : bool := match p_lock p with None => true | Some _ => false end.

(* one transition of thread t *)
Definition step (p : pool) (ch : tid * bool) : pool :=
  let '(t, spurious) := ch in
  match nth_error (p_threads p) t with
  | None => p
  | Some th =>
    match th with
    (* ------------------------------------------------------------ worker *)
    | TWorker WLock | TWorker WRelock =>
        if enabled_lock p then worker_decide (with_lock (touch p) (Some t)) t else p
    | TWorker WWait =>
        (* pthread_cond_wait: atomically release the lock and sleep *)
        let p := touch p in
        upd p None (p_sleepers p ++ [t]) (p_tasks p) (p_shutdown p) (p_workers p) (p_alive p) (p_running p) (p_destroyed p)
            (set_nth_th t (TWorker WSleep) (p_threads p)) (p_accepted p) (p_started p) (p_discarded p) (p_touch_after_free p)
    | TWorker WSleep =>
        if spurious then with_sleepers p (filter (fun x => negb (Nat.eqb x t)) (p_sleepers p)) (set_nth_th t (TWorker WRelock) (p_threads p))
        else p
    | TWorker (WUnlockRun k) =>
        (* unlock; running_tasks++; the thread goes on into the task function *)
        let p := touch p in
        upd p None (p_sleepers p) (p_tasks p) (p_shutdown p) (p_workers p) (p_alive p) (S (p_running p)) (p_destroyed p)
            (set_nth_th t (TWorker (WTask k)) (p_threads p)) (p_accepted p) (p_started p) (p_discarded p) (p_touch_after_free p)
    | TWorker (WTask k) =>
        (* the task runs to completion; free(task); running_tasks-- *)
        let p := touch p in
        upd p (p_lock p) (p_sleepers p) (p_tasks p) (p_shutdown p) (p_workers p) (p_alive p) (p_running p - 1) (p_destroyed p)
            (set_nth_th t (TWorker WLock) (p_threads p)) (p_accepted p) (p_started p ++ [(k, t)]) (p_discarded p) (p_touch_after_free p)
    | TWorker WBcast =>
        let p := touch p in
        with_pc (with_sleepers p [] (wake_all p)) t (TWorker WUnlockExit)
    | TWorker WUnlockExit => with_pc (with_lock (touch p) None) t (TWorker WDone)
    | TWorker WDone => p
    (* ------------------------------------------------------------ submitter *)
    | TSub (SLock []) => with_pc p t (TSub SFin)
    | TSub (SLock (k :: rest)) =>
        if enabled_lock p then sub_decide (with_lock (touch p) (Some t)) t k rest else p
    | TSub (SCreate k rest) =>
        (* pthread_create: the new worker starts at the top of its loop; then enqueue *)
        let w := length (p_threads p) in
        upd p (p_lock p) (p_sleepers p) (p_tasks p ++ [k]) (p_shutdown p) (w :: p_workers p) (S (p_alive p)) (p_running p) (p_destroyed p)
            (set_nth_th t (TSub (SSignal rest)) (p_threads p) ++ [TWorker WLock]) (p_accepted p ++ [k]) (p_started p) (p_discarded p)
            (p_touch_after_free p)
    | TSub (SSignal rest) =>
        (* pthread_cond_signal: wakes the longest waiting sleeper, if any *)
        match p_sleepers p with
        | [] => with_pc p t (TSub (SUnlock rest))
        | s :: others => with_pc (with_sleepers p others (wake (p_threads p) s)) t (TSub (SUnlock rest))
        end
    | TSub (SUnlock rest) => with_pc (with_lock p None) t (TSub (SLock rest))
    | TSub SFin => p
    (* ------------------------------------------------------------ freeing thread *)
    | TFree FStart => if all_subs_done p then with_pc p t (TFree FLock) else p
    | TFree FLock =>
        if enabled_lock p then
          (* lock; pool->shutdown = mode *)
          upd p (Some t) (p_sleepers p) (p_tasks p) (match p_mode p with Wall => SAll | Wcurr => SCurr end) (p_workers p) (p_alive p)
              (p_running p) (p_destroyed p) (set_nth_th t (TFree FBcast) (p_threads p)) (p_accepted p) (p_started p) (p_discarded p)
              (p_touch_after_free p)
        else p
    | TFree FBcast => with_pc (with_sleepers p [] (wake_all p)) t (TFree FUnlock)
    | TFree FUnlock =>
        with_pc (with_lock p None) t (TFree (if p_detached p then FLock2 else match p_workers p with [] => FFree | ws => FJoin ws end))
    | TFree (FJoin []) => with_pc p t (TFree FFree)
    | TFree (FJoin (w :: ws)) =>
        if worker_done p w then with_pc p t (TFree (match ws with [] => FFree | _ => FJoin ws end)) else p       (* blocked in pthread_join *)
    | TFree FLock2 | TFree FRelock => if enabled_lock p then freer_decide (with_lock p (Some t)) t else p
    | TFree FWait =>
        upd p None (p_sleepers p ++ [t]) (p_tasks p) (p_shutdown p) (p_workers p) (p_alive p) (p_running p) (p_destroyed p)
            (set_nth_th t (TFree FSleep) (p_threads p)) (p_accepted p) (p_started p) (p_discarded p) (p_touch_after_free p)
    | TFree FSleep =>
        if spurious then with_sleepers p (filter (fun x => negb (Nat.eqb x t)) (p_sleepers p)) (set_nth_th t (TFree FRelock) (p_threads p))
        else p
    | TFree FUnlock2 => with_pc (with_lock p None) t (TFree FFree)
    | TFree FFree =>
        upd p (p_lock p) (p_sleepers p) [] (p_shutdown p) (p_workers p) (p_alive p) (p_running p) true
            (set_nth_th t (TFree FDone) (p_threads p)) (p_accepted p) (p_started p) (p_discarded p ++ p_tasks p) (p_touch_after_free p)
    | TFree FDone => p
    end
  end.

Definition run_sched (p : pool) (sched : list (tid * bool)) : pool := fold_left step sched p.

(* initial state: the eager workers (none for lazy pools), then the submitters, then the freeing thread *)
Definition init (lazy detached : bool) (maxth : nat) (md : mode) (subs : list (list nat)) : pool :=
  let nw := if lazy then 0 else maxth in
  mkP None [] [] SNo (rev (seq 0 nw)) nw 0 lazy detached maxth md false
      (repeat (TWorker WLock) nw ++ map (fun l => TSub (SLock l)) subs ++ [TFree FStart])
      [] [] [] 0.

(* observable summary of a run, for the correspondence check *)
Definition thread_code (th : thread) : nat :=
  match th with
  | TWorker WLock => 1 | TWorker WWait => 2 | TWorker WSleep => 3 | TWorker WRelock => 4 | TWorker (WUnlockRun _) => 5
  | TWorker (WTask _) => 6 | TWorker WBcast => 7 | TWorker WUnlockExit => 8 | TWorker WDone => 9
  | TSub (SLock []) => 19 | TSub (SLock _) => 10 | TSub (SCreate _ _) => 11 | TSub (SSignal _) => 12 | TSub (SUnlock _) => 13 | TSub SFin => 19
  | TFree FStart => 20 | TFree FLock => 21 | TFree FBcast => 22 | TFree FUnlock => 23 | TFree (FJoin _) => 24 | TFree FLock2 => 25
  | TFree FWait => 26 | TFree FSleep => 27 | TFree FRelock => 28 | TFree FUnlock2 => 29 | TFree FFree => 30 | TFree FDone => 31
  end.

(* trace of a run: after every choice, the code of the pending operation of the chosen thread *)
Fixpoint trace_sched (p : pool) (sched : list (tid * bool)) : list nat * pool :=
  match sched with
  | [] => ([], p)
  | ch :: r => let p1 := step p ch in
               let '(tr, pf) := trace_sched p1 r in
               ((match nth_error (p_threads p1) (fst ch) with Some th => thread_code th | None => 0 end) :: tr, pf)
  end.

Definition thread_finished (th : thread) : bool :=
  match th with TWorker WDone | TSub SFin | TSub (SLock []) | TFree FDone => true | _ => false end.
Definition summary (p : pool) : list (nat * tid) * nat * nat * bool :=
  (p_started p, length (p_threads p), length (filter (fun th => negb (thread_finished th)) (p_threads p)), p_destroyed p).
Definition thpool_run (lazy detached : bool) (maxth : nat) (wall : bool) (subs : list (list nat)) (sched : list (tid * bool))
  : list nat * (list (nat * tid) * nat * nat * bool) :=
  let '(tr, pf) := trace_sched (init lazy detached maxth (if wall then Wall else Wcurr) subs) sched in (tr, summary pf).
