(* Props_C06.v -- property C06 (thread pool).  ONLY statements closed by `exact`.
   Proved for EVERY schedule (list of thread choices, spurious wake-ups included), every pool flavour,
   every number of submitters / workers / tasks.  NOT proved here (decided per run by the deterministic
   scheduler harness and its monitors only): wait-all / wait-current completeness, quiescence after free,
   deadlock freedom -- see DESIGN.md. *)
From LM Require Import Base Thpool ThpoolProofs.

(* tasks are conserved by every transition: a task is always in exactly one place *)
Theorem C06_tasks_conserved : forall p ch x, cnt x (everywhere (step p ch)) = cnt x (everywhere p).
Proof. exact step_conserves. Qed.
Print Assumptions C06_tasks_conserved.

Theorem C06_at_most_once_right_argument : forall lazy det mx md subs sched,
  NoDup (concat subs) ->
  let p := run_sched (init lazy det mx md subs) sched in
  NoDup (map fst (p_started p)) /\ incl (map fst (p_started p)) (concat subs) /\
  (forall k, In k (p_discarded p) -> ~ In k (map fst (p_started p))).
Proof. exact at_most_once. Qed.
Print Assumptions C06_at_most_once_right_argument.

(* non-vacuity: a lazy detached pool, two submitters, one schedule that runs everything and frees the pool *)
Example C06_nonvacuous :
  let p := run_sched (init true true 2 Wall [[1; 2]; [3]])
                     (map (fun t => (t, false)) (concat (repeat [0; 1; 2; 3; 4] 30))) in
  map fst (p_started p) = [1; 3; 2] /\ p_destroyed p = true /\ p_touch_after_free p = 0.
Proof. vm_compute. auto. Qed.
