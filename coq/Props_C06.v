(* Props_C06.v -- property C06 (thread pool).  ONLY statements closed by `exact`.
   Proved for EVERY schedule (list of thread choices, spurious wake-ups included), every pool flavour,
   every number of submitters / workers / tasks.  NOT proved here: termination under a FAIR schedule (the no-deadlock theorem
   below says some thread can always move; that free eventually returns additionally needs fairness and a measure), the
   wait-current flavour (which tasks may be discarded) -- see DESIGN.md. *)
From LM Require Import Base Thpool ThpoolProofs ThpoolQuiesce ThpoolWait ThpoolLive.

(* tasks are conserved by every transition: a task is always in exactly one place *)
Theorem C06_tasks_conserved : forall p ch x, cnt x (everywhere (step p ch)) = cnt x (everywhere p).
Proof. exact step_conserves. Qed.
Print Assumptions C06_tasks_conserved.

Theorem C06_at_most_once_right_argument : forall lazy det mx md subs sched,
  NoDup (concat subs) ->
  let p := run_sched (init lazy det mx md subs) sched in
  NoDup (map fst (p_started p)) /\ incl (map fst (p_started p)) (concat subs) /\
  (forall k, In k (p_discarded p) -> ~ In k (map fst (p_started p))).
Proof. exact at_most_once. Qed.
Print Assumptions C06_at_most_once_right_argument.

(* quiescence: after the pool is freed no pool thread touches it again -- the ghost counter of accesses to a destroyed pool
   stays 0 under EVERY schedule (safety invariant QInv: lock ownership, alive counter, joined workers, ...) *)
Theorem C06_no_touch_after_free : forall lazy det mx md subs sched,
  p_touch_after_free (run_sched (init lazy det mx md subs) sched) = 0.
Proof. exact no_touch_after_free. Qed.
Print Assumptions C06_no_touch_after_free.

Theorem C06_destroyed_means_quiescent : forall lazy det mx md subs sched,
  let p := run_sched (init lazy det mx md subs) sched in
  p_destroyed p = true ->
  forall t th, nth_error (p_threads p) t = Some th ->
    match th with TWorker pc => pc = WDone | TSub _ => sub_done th = true | TFree _ => True end.
Proof. exact destroyed_means_quiescent. Qed.
Print Assumptions C06_destroyed_means_quiescent.

(* the pool lock really is a lock in the model: two threads are never both inside a critical section *)
Theorem C06_lock_mutual_exclusion : forall lazy det mx md subs sched,
  let p := run_sched (init lazy det mx md subs) sched in
  forall t1 t2 th1 th2, nth_error (p_threads p) t1 = Some th1 -> nth_error (p_threads p) t2 = Some th2 ->
    holds th1 = true -> holds th2 = true -> t1 = t2.
Proof. exact lock_mutual_exclusion. Qed.
Print Assumptions C06_lock_mutual_exclusion.

(* bounded parallelism: never more worker threads, hence never more tasks running at once, than max_threads *)
Theorem C06_bounded_parallelism : forall lazy det mx md subs sched, 1 <= mx ->
  let p := run_sched (init lazy det mx md subs) sched in
  count_th is_task (p_threads p) <= mx /\ count_th is_worker (p_threads p) <= mx.
Proof. exact bounded_parallelism. Qed.
Print Assumptions C06_bounded_parallelism.

(* wait-all completeness (as a safety statement): IF m_thpool_free(pool, wait_all = true) has returned, every accepted task has
   run -- the multiset of executed tasks equals the multiset of submitted ones -- and nothing was discarded *)
Theorem C06_wait_all_complete : forall lazy det mx subs sched, 1 <= mx ->
  let p := run_sched (init lazy det mx Wall subs) sched in
  p_destroyed p = true ->
  p_discarded p = [] /\ forall k, cnt k (map fst (p_started p)) = cnt k (concat subs).
Proof. exact wait_all_complete. Qed.
Print Assumptions C06_wait_all_complete.

Theorem C06_second_invariant_inductive : forall p ch, QInv p -> WInv p -> WInv (step p ch).
Proof. exact step_winv. Qed.
Print Assumptions C06_second_invariant_inductive.

(* NO DEADLOCK: in every reachable state in which some thread has not finished, some thread can take a step that changes the
   state -- the owner of the lock, a thread asking for the free lock, a running task, or the freeing thread whose wait condition
   holds (no lost wake-up: sleepers are in the condition's list, nobody sleeps after the shutdown broadcast, the last worker
   wakes a freeing thread that waits for alive == 0) *)
Theorem C06_no_deadlock : forall lazy det mx md subs sched, 1 <= mx ->
  let p := run_sched (init lazy det mx md subs) sched in
  (exists t th, nth_error (p_threads p) t = Some th /\ thread_finished th = false) ->
  exists t, step p (t, false) <> p.
Proof. exact no_deadlock. Qed.
Print Assumptions C06_no_deadlock.

Theorem C06_third_invariant_inductive : forall p ch, QInv p -> WInv p -> LInv p -> LInv (step p ch).
Proof. exact step_linv. Qed.
Print Assumptions C06_third_invariant_inductive.

(* the invariant is inductive for ANY pool state satisfying it, not only for runs from init *)
Theorem C06_invariant_inductive : forall p ch, QInv p -> QInv (step p ch).
Proof. exact step_qinv. Qed.
Print Assumptions C06_invariant_inductive.

(* non-vacuity: a lazy detached pool, two submitters, one schedule that runs everything and frees the pool *)
Example C06_nonvacuous :
  let p := run_sched (init true true 2 Wall [[1; 2]; [3]])
                     (map (fun t => (t, false)) (concat (repeat [0; 1; 2; 3; 4] 30))) in
  map fst (p_started p) = [1; 3; 2] /\ p_destroyed p = true /\ p_touch_after_free p = 0.
Proof. vm_compute. auto. Qed.
