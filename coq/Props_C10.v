(* Props_C10.v -- property C10: ref-counted blocks are alive while referenced and
   destroyed exactly once.  ONLY statements closed by `exact`. *)
From LM Require Import Base MemM MemProofs.

(* layout: for EVERY requested size the user pointer is aligned for any type
   (given an allocator that returns max-aligned blocks), the byte before it holds
   the shift get_header needs, and the allocation holds exactly `size` user bytes *)
Theorem C10_aligned_for_every_size : forall base : N,
  (base mod cMAX_ALIGN = 0 -> (base + mem_data_off) mod cMAX_ALIGN = 0)%N.
Proof. exact mem_user_ptr_aligned. Qed.
Print Assumptions C10_aligned_for_every_size.

Theorem C10_shift_fits_a_byte : (1 <= mem_shift /\ mem_shift <= 255)%N.
Proof. exact mem_shift_byte. Qed.
Print Assumptions C10_shift_fits_a_byte.

Theorem C10_block_holds_requested_size : forall size, (mem_total size = mem_data_off + size)%N.
Proof. exact mem_fits. Qed.
Print Assumptions C10_block_holds_requested_size.

Theorem C10_header_roundtrip : mem_hdr_of_data mem_data_off mem_shift = 0%N.
Proof. exact mem_header_roundtrip. Qed.
Print Assumptions C10_header_roundtrip.

(* counting *)
Theorem C10_new_one_ref_exact_size : forall h id size dt kids,
  h_find h id = None ->
  k_step h (KNew id size dt kids) =
  (mkBlk id 1 size dt (if dt then kids else []) :: h,
   [EAlloc id; ERet (Z.of_N mem_data_off); ERet (Z.of_N (mem_total size)); ERet (Z.of_N size)]).
Proof. exact k_new_correct. Qed.
Print Assumptions C10_new_one_ref_exact_size.

Theorem C10_ref_and_size_keep_everything : forall h id b,
  h_find h id = Some b ->
  k_step h (KRef id) = (h_set_refs h id (k_refs b + 1), [EPtr id]) /\
  k_step h (KSize id) = (h, [ERet (Z.of_N (k_size b))]) /\
  (forall i, h_find (h_set_refs h id (k_refs b + 1)) i <> None <-> h_find h i <> None).
Proof. exact k_ref_size_correct. Qed.
Print Assumptions C10_ref_and_size_keep_everything.

Theorem C10_alive_while_referenced : forall ops, HInv (final k_step [] ops).
Proof. exact k_inv_reachable. Qed.
Print Assumptions C10_alive_while_referenced.

Theorem C10_unref_destroys_exactly_once_at_zero : forall h id b,
  HInv h -> h_find h id = Some b ->
  let '(h', evs, rest) := unref_loop (unref_fuel h) h [inl id] [] in
  rest = [] /\
  HInv h' /\
  k_step h (KUnref id) = (h', evs ++ [EPtr 0]) /\
  ((1 < k_refs b)%N -> evs = [] /\ h' = h_set_refs h id (k_refs b - 1)) /\
  (k_refs b = 1%N -> In id (frees evs)) /\
  NoDup (frees evs) /\ NoDup (dtored evs) /\
  (forall i, In i (frees evs) -> h_find h i <> None /\ h_find h' i = None) /\
  (forall i, In i (dtored evs) <-> (exists b0, h_find h i = Some b0 /\ k_dtor b0 = true) /\ In i (frees evs)) /\
  (forall l1 l2 i b0, evs = l1 ++ EFree i :: l2 -> h_find h i = Some b0 -> k_dtor b0 = true -> In i (dtored l1)).
Proof. exact k_unref_correct. Qed.
Print Assumptions C10_unref_destroys_exactly_once_at_zero.

Theorem C10_null_tolerated : forall h w, fst (k_step h (KNull w)) = h.
Proof. exact k_null_ok. Qed.
Print Assumptions C10_null_tolerated.

(* non-vacuity: nested destructors, a shared kid survives its first owner *)
Example C10_nonvacuous :
  k_run [KNew 1 10 true []; KRef 1; KNew 2 7 true [1]; KRef 1; KRef 2; KNew 3 0 true [1; 2]; KUnref 1; KUnref 2; KUnref 3; KSize 1]%N
  = [[EAlloc 1; ERet 32; ERet 42; ERet 10]; [EPtr 1]; [EAlloc 2; ERet 32; ERet 39; ERet 7]; [EPtr 1]; [EPtr 2];
     [EAlloc 3; ERet 32; ERet 32; ERet 0]; [EPtr 0]; [EPtr 0];
     [EDtor 3; EDtor 2; EDtor 1; EFree 1; EFree 2; EFree 3; EPtr 0]; [ERet (-1)]]%N%Z.
Proof. vm_compute. reflexivity. Qed.
