(* CoreLocal6.v -- one-step theorems about the parts of the core model added last: task sources with their thread,
   path watches, stale readiness inside a poll batch. *)
From LM Require Import Base CoreTypes CoreModel CoreExec CoreLocal CoreInv.

Section Local6.
  Variable sc : script.
  Variable run_cb : world -> modid -> cbkind -> nat -> list evtrec -> world * bool.

  (* C03 / C13: readiness reported for a source that was paused and resumed earlier in the same batch is stale: the event is
     skipped, nothing is delivered, nothing is consumed (in particular a one-shot source stays registered) *)
  Theorem stale_readiness_skipped w i s m mr :
    get_src w i = Some s -> s_armed s = true -> s_mod s = Some m -> get_mod w m = Some mr ->
    s_kind s <> KPs -> s_kind s <> KFd -> s_pending s = 0 ->
    process_one sc run_cb w i = (set_errno w 0, 0).
  Proof.
    intros Hs Ha Hm Hmr Hk1 Hk2 Hp. unfold process_one. rewrite Hs, Ha, Hm, Hmr. cbn [negb].
    destruct (s_kind s) eqn:Ek; try congruence; rewrite Hp; reflexivity.
  Qed.

  (* C04 (known finding D10): disarming a task source whose body has not finished leaves the domain of the model *)
  Theorem unfinished_task_disarm_faults w i s :
    get_src w i = Some s -> s_armed s = true -> s_kind s = KTask -> s_pending s = 0 ->
    exists w', poll_rm w i = w' /\ In (TFault 7) (w_trace w').
  Proof.
    intros Hs Ha Hk Hp. unfold poll_rm. rewrite Hs, Ha, Hk, Hp. cbn [skind_eqb andb Nat.eqb opens_fd].
    eexists. split; [reflexivity|]. unfold upd_src, set_srcs, set_fds, emit. cbn [w_trace]. left. reflexivity.
  Qed.
  (* ... while a finished task (its completion is pending) or any other kind is disarmed without a fault *)
  Theorem finished_task_disarm_ok w i s :
    get_src w i = Some s -> s_armed s = true -> (s_kind s <> KTask \/ s_pending s <> 0) ->
    w_trace (poll_rm w i) = w_trace w.
  Proof.
    intros Hs Ha Hor. unfold poll_rm. rewrite Hs, Ha.
    assert (E : skind_eqb (s_kind s) KTask && Nat.eqb (s_pending s) 0 = false).
    { destruct Hor as [Hk|Hp]; [destruct (s_kind s); try reflexivity; congruence|].
      destruct (Nat.eqb_spec (s_pending s) 0); [contradiction|]. apply Bool.andb_false_r. }
    rewrite E. destruct (opens_fd (s_kind s)); reflexivity.
  Qed.

  (* C03: a modification of a watched file reaches EVERY armed watch of that path, whichever module registered it,
     and nothing else *)
  Theorem path_fire_reaches_every_watch w m key i s :
    get_src w i = Some s ->
    get_src (exec_env w (CFire m KPath key)) i =
      Some (if skind_eqb (s_kind s) KPath && N.eqb (s_key s) key && s_armed s then src_with true (S (s_pending s)) (s_shot s) s else s).
  Proof.
    intros Hs. unfold exec_env, get_src, set_srcs in *. cbn [w_srcs]. rewrite nth_error_map, Hs. reflexivity.
  Qed.
  Theorem path_fire_only_sources w m key :
    w_mods (exec_env w (CFire m KPath key)) = w_mods w /\ w_tls (exec_env w (CFire m KPath key)) = w_tls w /\
    w_trace (exec_env w (CFire m KPath key)) = w_trace w /\ w_heap (exec_env w (CFire m KPath key)) = w_heap w.
  Proof. unfold exec_env, set_srcs. cbn. auto. Qed.

  (* C17, two steps composed: after an accepted become(h) the NEXT handler invocation of that module runs h; after an
     accepted unbecome it runs the handler below the removed one, or the registration-time handler (id 0) when none is left.
     The world in which the delivery happens is exactly the one the call returned (ret (emit ...)). *)
  Lemma get_mod_ret_emit_upd w m f mr t z :
    get_mod w m = Some mr -> get_mod (ret (emit (upd_mod w m f) t) z) m = Some (f mr).
  Proof. intros H. unfold ret. change (get_mod (upd_mod w m f) m = Some (f mr)). apply CoreInv.get_upd_mod_same. exact H. Qed.

  Theorem become_then_next_invocation_uses_it cur w m h mr w1 e evts :
    uref_count w m <> 0 -> mod_assert_state w m [MRunning] = None -> consume_token w m = Some w1 -> get_mod w1 m = Some mr ->
    exists (finish : world -> world) (pre : world),
      call_pubsub_cb run_cb (exec sc run_cb cur w (CBecome m h)) m (e :: evts) =
      finish (fst (run_cb pre m CbEvt h (e :: evts))).
  Proof.
    intros Hu Ha Ht Hm. destruct (become_pushes sc run_cb cur w m h mr w1 Hu Ha Ht Hm) as (t & a & E). rewrite E.
    destruct (handler_is_top run_cb _ m _ e evts (get_mod_ret_emit_upd w1 m (mod_with_recvs (h :: m_recvs mr)) mr (TMark t a) 0 Hm)) as (fin & Hf).
    exists fin. eexists. rewrite Hf. reflexivity.
  Qed.

  Theorem unbecome_then_next_invocation_uses_previous cur w m mr w1 top rest e evts :
    uref_count w m <> 0 -> mod_assert_state w m [MRunning] = None -> consume_token w m = Some w1 -> get_mod w1 m = Some mr ->
    m_recvs mr = top :: rest ->
    exists (finish : world -> world) (pre : world),
      call_pubsub_cb run_cb (exec sc run_cb cur w (CUnbecome m)) m (e :: evts) =
      finish (fst (run_cb pre m CbEvt (hd 0 rest) (e :: evts))).
  Proof.
    intros Hu Ha Ht Hm Hr. destruct (unbecome_pops sc run_cb cur w m mr w1 Hu Ha Ht Hm) as (t & a & E). rewrite E, Hr.
    destruct (handler_is_top run_cb _ m _ e evts (get_mod_ret_emit_upd w1 m (mod_with_recvs rest) mr (TMark t a) 0 Hm)) as (fin & Hf).
    exists fin. eexists. rewrite Hf. reflexivity.
  Qed.
End Local6.
