#!/usr/bin/env python3
# globals_scan.py -- T1 translator for C14: the inventory of process-wide WRITABLE state of the library, regenerated from /repo
#   1. every library source is compiled (no sanitizer) and `nm` lists the symbols living in writable sections
#      (.data/.bss/common; file-scope and function-scope statics alike -- gcc names the latter name.N)
#   2. for each such symbol, the sources are scanned for the places where it is written or its address is taken,
#      with the enclosing function
#   3. the result is written as coq/Globals.v (a list literal); coq/GlobalsModel.v holds the policy and the theorem
import os, re, sys, subprocess
sys.path.insert(0, os.path.dirname(os.path.abspath(__file__)))
from common import LIB, CACHE, COQ, INCS, sh, inc_flags

SKIP = ('core/poll/kqueue.c', 'core/poll/uring.c', 'core/fs/fs.c')     # other platforms / optional FUSE backend (headers absent here)

def lib_sources():
    res = []
    for root, dirs, files in sorted(os.walk(LIB)):
        dirs.sort()
        for f in sorted(files):
            rel = os.path.relpath(os.path.join(root, f), LIB)
            if rel.endswith('.c') and rel not in SKIP: res.append(rel)
    return res

def writable_symbols():
    """-> [(name, source file, size)] from nm over freshly compiled objects; None, msg on compile failure"""
    d = os.path.join(CACHE, 'globals'); os.makedirs(d, exist_ok=True)
    out = []
    for rel in lib_sources():
        o = os.path.join(d, rel.replace('/', '_')[:-2] + '.o')
        ctx = rel.split('/')[0].upper()
        r = sh(['gcc', '-std=gnu11', '-O1', '-c', '-w', '-D_GNU_SOURCE', '-DLIBMODULE_LOG_CTX=' + ctx] +
               inc_flags() + [os.path.join(LIB, rel), '-o', o])
        if r.returncode != 0: return None, 'cannot compile %s:\n%s' % (rel, r.stdout[-1500:])
        r = sh(['nm', '-S', o])
        for l in r.stdout.splitlines():
            t = l.split()
            if len(t) == 4 and t[2] in 'bBdDcCsSgG':
                out.append((re.sub(r'\.\d+$', '', t[3]), rel, int(t[1], 16), t[2].islower()))
        os.unlink(o)
    return sorted(set(out)), ''

def strip_code(text):
    """comments and string/char literals blanked (newlines kept)"""
    def repl(m):
        s = m.group(0)
        return re.sub(r'[^\n]', ' ', s)
    return re.sub(r'/\*.*?\*/|//[^\n]*|"(?:\\.|[^"\\\n])*"|\'(?:\\.|[^\'\\\n])*\'', repl, text, flags=re.S)

ASSIGN = re.compile(r'\s*(?:(?:\[[^\]]*\]|\.\w+|->\w+)\s*)*(=(?!=)|\+=|-=|\*=|/=|\|=|&=|\^=|<<=|>>=|\+\+|--)')

def access_sites(names, scope):
    """-> {name: set((function, kind))}: kind w = assigned / incremented, a = address taken (may be written through the pointer)"""
    res = {n: set() for n in names}
    files = []
    for root, dirs, fs in sorted(os.walk(LIB)):
        for f in sorted(fs):
            rel = os.path.relpath(os.path.join(root, f), LIB)
            if (rel.endswith('.c') and rel not in SKIP) or rel.endswith('.h'): files.append(rel)
    for rel in files:
        code = strip_code(open(os.path.join(LIB, rel), errors='replace').read())
        depth = 0; func = None; cand = None; shadow = set()
        for line in code.split('\n'):
            if depth == 0:
                if re.match(r'^[A-Za-z_]', line) and not line.lstrip().startswith('#'):
                    ids = [x for x in re.findall(r'\b(\w+)\s*\(', line) if x not in ('__attribute__', 'constructor', 'destructor', 'section', 'aligned')]
                    if ids: cand = ids[0]; shadow = set(re.findall(r'\b(\w+)\s*[,)]', line))
                # macro bodies (#define X(...) \ ...) are attributed to the macro name
                m2 = re.match(r'^\s*#\s*define\s+(\w+)', line)
                if m2: cand = 'macro ' + m2.group(1)
            here = func if depth > 0 else (cand if (cand or '').startswith('macro ') else None)
            if depth > 0:      # local declarations shadow a global of the same name
                for m in re.finditer(r'\b(?:const\s+)?\w+\s+\**\s*(\w+)\s*(?:=|;|,|\[)', line):
                    if not re.match(r'\s*(return|goto|else)\b', line[m.start():]) and not re.search(r'\bstatic\b', line[:m.end()]): shadow.add(m.group(1))
            for n in names:
                if scope[n] is not None and scope[n] != rel: continue        # file-local symbol: only its own file can name it
                if depth > 0 and n in shadow and not re.search(r'\bstatic\b.*\b' + re.escape(n) + r'\b', line): continue
                for m in re.finditer(r'(?<![\w.>])' + re.escape(n) + r'\b', line):
                    pre = line[:m.start()].rstrip(); post = line[m.end():]
                    decl = depth == 0 or re.search(r'\bstatic\b', pre) is not None      # the definition with its initialiser
                    if decl and not (here or '').startswith('macro '): continue
                    if pre.endswith('&') and not pre.endswith('&&'): res[n].add((here or '?', 'a'))
                    elif pre.endswith('++') or pre.endswith('--'): res[n].add((here or '?', 'w'))
                    elif ASSIGN.match(post): res[n].add((here or '?', 'w'))
            for ch in line:
                if ch == '{':
                    if depth == 0: func = cand
                    depth += 1
                elif ch == '}':
                    depth = max(0, depth - 1)
            if depth == 0 and not line.rstrip().endswith('\\') and (cand or '').startswith('macro '): cand = None
    return res

def generate():
    syms, msg = writable_symbols()
    if syms is None: return False, msg, None
    names = sorted({s[0] for s in syms})
    scope = {}
    for n, rel, size, local in syms: scope[n] = rel if local else None
    sites = access_sites(names, scope)
    L = []
    for n, rel, size, local in syms:
        acc = '; '.join('("%s", "%s")' % a for a in sorted(sites[n]))
        L.append('  ("%s", "%s", [%s])' % (n, rel, acc))
    text = ('(* Globals.v -- GENERATED by tools/globals_scan.py from /repo on every run: every symbol of the library that lives in a\n'
            '   writable section (nm over the compiled sources), with the functions that assign it ("w") or take its address ("a"). *)\n'
            'From Coq Require Import String List.\nImport ListNotations.\nLocal Open Scope string_scope.\n\n'
            'Definition globals : list (string * string * list (string * string)) :=\n[\n' + ';\n'.join(L) + '\n].\n')
    p = os.path.join(COQ, 'Globals.v')
    old = open(p).read() if os.path.exists(p) else None
    if old != text: open(p, 'w').write(text)
    return True, '', syms

if __name__ == '__main__':
    ok, msg, syms = generate()
    print(msg if not ok else open(os.path.join(COQ, 'Globals.v')).read())
