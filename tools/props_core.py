# props_core.py -- the properties decided on the actor-core engine
import os, re
from common import *
from checkbase import Check, first_diff, get
import subprocess
import gen_core as GC

CORE_SRCS = ('core/ctx.c', 'core/evts.c', 'core/main.c', 'core/mod.c', 'core/ps.c', 'core/src.c', 'core/fs/fs_noop.c',
             'core/poll/epoll.c', 'core/poll/cmn_linux.c', 'structs/queue.c', 'structs/stack.c', 'structs/list.c',
             'structs/bst.c', 'structs/map.c', 'mem/mem.c', 'thpool/thpool.c', 'utils/mem.c', 'utils/log.c', 'utils/utils.c')
TRUSTED = ['Coq 8.16.1 kernel (coqc, vm_compute; no native_compute)',
           'axioms: none (every Print Assumptions = Closed under the global context)',
           'extraction: ExtrOcamlBasic only, no Extract Constant/Inductive; hand-written OCaml glue extract/glue.ml + main_core.ml',
           'harness/drv_core.c incl. its link-time wraps (epoll_wait order and scripted environment, timerfd_settime, close, m_mem_new, pipe, pthread_join, m_thpool_add: every started task gets its own pool thread), tools/*.py, gcc, ASan/UBSan',
           'tools/consts_probe.c (regenerated coq/Consts.v); tools/guards_scan.py (regenerated coq/Guards.v: syntactic scan of the guard macros of every public core function; GuardsModel.api_of maps scripted calls to C functions); table slots and regexec results read from the real code per run']
ASSUME = ['the hand-written Gallina model (coq/CoreModel.v, CoreExec.v) corresponds to the C code only as far as the differential runs of this check exercise it',
          'epoll plugin only; timers/signals fire when the script says so (timerfd contract assumed); single context on one thread in this engine',
          'scripts in known-finding regions (model trace contains FAULT) are run only as named corpus cases']

STRUCT = ('mod ', 'tslot ', 'rem ', 'cb ', 'proc ', 'endproc', 'pipecap ')

class CoreCheck(Check):
    driver = 'drv_core'
    driver_srcs = CORE_SRCS
    driver_flags = ('-DLIBMODULE_LOG_CTX=CORE', '-Wl,--wrap=epoll_wait,--wrap=timerfd_settime,--wrap=close,--wrap=m_mem_new,--wrap=pipe,--wrap=pthread_join,--wrap=m_thpool_add,--wrap=dup')
    driver_libs = ('-lpthread', '-ldl')
    model = 'core'
    trusted = TRUSTED
    assumptions = ASSUME
    focus = None
    n_quick, n_thorough = 1500, 30000
    loop_share = 0.2

    def removable(self, line):
        return not line.startswith(STRUCT)
    def prepare(self, ctx):
        r = sh([ctx['cexe'], '--params'], env=ENV)
        if r.returncode != 0: return False, r.stdout[-2000:]
        ctx['params'] = GC.Params(r.stdout)
        return True, ''
    def gen_one(self, rng, ctx, i):
        mode = 'loop' if rng.random() < self.loop_share else 'dispatch'
        return GC.gen_case(rng, ctx['params'], self.focus, mode)
    def cases(self, tier, seed, ctx):
        n = self.n_quick if tier == 'quick' else self.n_thorough
        raw = []
        for i in range(n):
            h, lines = self.gen_one(case_rng(seed, self.pid, i), ctx, i)
            raw.append(('g%d' % i, h, lines))
        raw += self.extra_cases(tier, seed, ctx)
        # ask the model first: scripts it cannot follow (fuel, blocked loop, known-finding region) are not run
        m = run_sharded(ctx['mexe'], raw, os.path.join(OUT, self.pid), 'pre_m')
        missing = [c for c in raw if m.get(c[0]) is None]          # a shard lost on an overloaded machine: ask again, and never keep a script the model was not asked about
        if missing:
            m.update(run_sharded(ctx['mexe'], missing, os.path.join(OUT, self.pid), 'pre_m2', nshards=2))
        keep, dropped = [], {}
        for c in raw:
            tr = m.get(c[0])
            if tr is None: dropped['no model trace'] = dropped.get('no model trace', 0) + 1; continue
            f = [l for l in tr if l.startswith('FAULT')]
            if f: dropped[f[0]] = dropped.get(f[0], 0) + 1
            else: keep.append(c)
        ctx.setdefault('cov_extra', {})['generated'] = len(raw)
        ctx['cov_extra']['discarded_by_model'] = dropped
        return keep
    scenario = None          # a dedicated generator from gen_core, used for half of the cases
    def extra_cases(self, tier, seed, ctx):
        if not self.scenario: return []
        n = (self.n_quick if tier == 'quick' else self.n_thorough) // 2
        res = []
        for i in range(n):
            h, lines = self.scenario(case_rng(seed, self.pid + 'scn', i), ctx['params'])
            res.append(('s%d' % i, h, lines))
        return res
    def nontrivial(self, case, ctr):
        return ctr is not None and sum(1 for l in ctr if l.startswith('cb ')) >= 2
    def project(self, header, lines):
        return [re.sub(r'^r-\d+$', 'r-', l) for l in lines]
    def judge(self, case, ctr, mtr):
        k = super().judge(case, ctr, mtr)
        # a generated script the model cannot follow (fuel, blocked loop, known-finding region) is not judged by comparison; the implementation's
        # own verdicts (monitors, crashes, leaks) still count.  Named corpus cases are always compared.
        if k[0] != 'ok' and mtr is not None and not case[0].startswith('corpus') and any(l.startswith('FAULT') for l in mtr) \
           and not (ctr is not None and any(l.startswith(('CRASH', 'LEAK')) for l in ctr)) and not (ctr is not None and self.monitors(case, ctr)):
            return ('ok', '', None)
        return k


# ---------------------------------------------------------------- trace structure
def categorize(lines):
    """-> list of (category, line): r-lines get the name of the call they answer"""
    res = []; stack = []; foreign = False
    for l in lines:
        if l == '> foreign':
            foreign = True; continue
        if l.startswith('> '):
            stack.append(('F:' if foreign else '') + l[2:]); foreign = False; continue
        if re.match(r'^r-?\d+$', l):
            name = stack.pop() if stack else '?'
            if name.startswith('F:'): res.append(('fret:' + name[2:], l))
            else: res.append(('ret:' + name, l))
            continue
        if l.startswith('cb '):
            t = l.split(); res.append(('cb:' + t[2], l)); stack.append('{'); continue
        if l == '}':
            while stack and stack[-1] != '{': stack.pop()
            if stack: stack.pop()
            res.append(('end', l)); continue
        res.append((l.split()[0].rstrip('=') if l else '', l))
    return res

def evdescs(cbline):
    """'cb m evt n h st=S d1 d2 ...' -> list of 7-tuples"""
    return [tuple(x.split(':')) for x in cbline.split()[6:]]

class Proj:
    """property-level projection: which categories are kept, and how much of each line"""
    def __init__(self, rets=(), exact=(), cb=None, keep=(), allrets=False):
        self.rets, self.exact, self.cb, self.keep, self.allrets = set(rets), set(exact), cb, set(keep), allrets
    def __call__(self, lines):
        out = []
        for cat, l in categorize(lines):
            if cat.startswith('ret:'):
                name = cat[4:]
                if name in self.exact: out.append(name + ' ' + l)
                elif name in self.rets or self.allrets: out.append(name + ' ' + re.sub(r'^r-\d+$', 'r-', l))
            elif cat.startswith('fret:'):
                out.append('foreign ' + cat[5:] + ' ' + l)       # calls made by a foreign thread: always the exact code
            elif cat.startswith('cb:'):
                if self.cb: 
                    x = self.cb(cat[3:], l)
                    if x is not None: out.append(x)
            elif cat == 'end':
                if self.cb: out.append('}')
            elif cat in self.keep or cat in ('CRASH', 'FAULT', 'LEAK'):
                out.append(l)
        return out

def cb_plain(kind, l):        # callback identity and module state, no event details
    t = l.split(); return ' '.join(t[:3] + t[5:6])
def cb_handler(kind, l):      # + which handler
    t = l.split(); return ' '.join(t[:3] + t[4:6]) if kind == 'evt' else None
def cb_full(kind, l):
    t = l.split(); return ' '.join(t[:3] + t[4:]) if kind == 'evt' else None
def cb_ps(kind, l):           # only the pub/sub events of handler invocations
    if kind != 'evt': return None
    t = l.split(); ev = [x for x in t[6:] if x.startswith('0:')]
    return ' '.join(t[:2] + ev) if ev else None
def cb_sys(kind, l):
    if kind != 'evt': return None
    t = l.split(); ev = [x for x in t[6:] if x.startswith('0:') and x.split(':')[5] == '1']
    return ' '.join(t[:2] + ev) if ev else None
def cb_stop(kind, l):
    return cb_plain(kind, l) if kind == 'stop' else None

LIFE = ('start', 'stop', 'pause', 'resume', 'dereg', 'reg', 'pill')

class CoreProp(CoreCheck):
    proj = None
    def project(self, header, lines):
        return self.proj(lines) if self.proj else super().project(header, lines)

# ---------------------------------------------------------------- monitors (independent of the model)
def mon_evt_only_running(case, ctr):
    for l in ctr:
        if l.startswith('cb ') and l.split()[2] == 'evt' and l.split()[5] != 'st=2':
            return [('an event handler ran for a module that is not RUNNING: ' + l[:60], None)]
    return []

def mon_running_count(case, ctr):
    for i, l in enumerate(ctr):
        if l.startswith('val ') and i + 1 < len(ctr) and ctr[i + 1].startswith('val ') and (i == 0 or not ctr[i - 1].startswith('val ')):
            if l != ctr[i + 1]:
                return [('context reports %s running modules, %s modules are RUNNING' % (l[4:], ctr[i + 1][4:]), None)]
    return []

def sends_of(case):
    """data id -> (kind, autofree) for every send in the script text"""
    res = {}
    for l in case[2]:
        t = l.split()
        if t and t[0] in ('tell',): res[int(t[3])] = ('tell', t[4] == '1')
        elif t and t[0] == 'publish': res[int(t[3])] = ('publish', t[4] == '1')
        elif t and t[0] == 'broadcast': res[int(t[2])] = ('broadcast', t[3] == '1')
    return res

def mon_messages(case, ctr):
    """at most once per recipient (stash replays excepted), send order per recipient, autofree exactly once and only for autofree sends"""
    res = []; sends = sends_of(case)
    seen = {}; last = {}; stashed = {}; frames = []; freed = {}; sendidx = {}; nsend = 0
    multi = {int(l.split()[3]) for l in case[2] if l.startswith('tellmany ')}
    pending = None; parg = 0
    for l in ctr:
        if l.startswith('> '):
            t = l.split(); pending = t[1]; parg = int(t[2]) if len(t) > 2 else 0; continue
        if l.startswith('cb '):
            t = l.split(); m = int(t[1])
            evs = evdescs(l) if t[2] == 'evt' else []
            frames.append((m, evs))
            if t[2] == 'evt':
                for e in evs:
                    if e[0] == '0' and e[5] == '0' and e[3] != '0':
                        d = int(e[3]); key = (m, d)
                        if pending == 'unstash':
                            if stashed.get(key, 0) <= 0: res.append(('module %d got payload %d again without having stashed it' % key, None))
                            else: stashed[key] -= 1
                        else:
                            if key in seen and d not in multi: res.append(('module %d received payload %d twice' % key, None))
                            seen[key] = True
                            if d in sendidx:
                                if last.get(m, -1) > sendidx[d]: res.append(('module %d received payload %d after a later one: send order not kept' % (m, d), None))
                                last[m] = max(last.get(m, -1), sendidx[d])
                            else: res.append(('module %d received payload %d that was never accepted for sending' % (m, d), None))
                        if d in freed: res.append(('payload %d handed to module %d after it was freed' % (d, m), None))
            pending = None; continue
        if l == '}':
            if frames: frames.pop()
            pending = None; continue
        if l.startswith('freedata '):
            d = int(l.split()[1])
            if d in freed: res.append(('payload %d freed twice' % d, None))
            freed[d] = True
            if d in sends and not sends[d][1]: res.append(('payload %d sent without autofree was freed by the library' % d, None))
            continue
        m2 = re.match(r'^r(-?\d+)$', l)
        if m2:
            if pending in ('tell', 'publish', 'broadcast', 'tellmany') and m2.group(1) == '0' and parg and parg not in sendidx:
                sendidx[parg] = nsend; nsend += 1
            if pending == 'stash' and m2.group(1) == '0' and frames and parg:
                sm, k = parg // 100 - 1, parg % 100 - 1
                evs = frames[-1][1]
                if 0 <= k < len(evs) and evs[k][0] == '0' and evs[k][3] != '0':
                    key = (sm, int(evs[k][3])); stashed[key] = stashed.get(key, 0) + 1
            pending = None
    return res[:1]

def mon_stash_counts(case, ctr):
    """unstash returns exactly the number of events of its nested invocation"""
    res = []; stack = []
    i = 0
    while i < len(ctr):
        l = ctr[i]
        if l == '> unstash':
            # next line is either r<z> (refused / nothing) or a cb line (nested invocation) ... then } then r
            j = i + 1
            if j < len(ctr) and ctr[j].startswith('cb '):
                n = len(ctr[j].split()) - 6
                depth = 0; k = j
                while k < len(ctr):
                    if ctr[k].startswith('cb '): depth += 1
                    elif ctr[k] == '}':
                        depth -= 1
                        if depth == 0: break
                    k += 1
                if k + 1 < len(ctr):
                    m2 = re.match(r'^r(-?\d+)$', ctr[k + 1])
                    if m2 and int(m2.group(1)) != n:
                        res.append(('unstash returned %s but handed over %d events' % (m2.group(1), n), None))
        i += 1
    return res[:1]

def mon_userdata(case, ctr):
    """descriptor events carry the userdata given at registration, by the module that registered them"""
    reg = {}
    for l in case[2]:
        t = l.split()
        if t and t[0] == 'srcreg' and t[2] == 'fd': reg.setdefault((int(t[1]), int(t[3])), set()).add(t[7])
    for l in ctr:
        if l.startswith('cb ') and l.split()[2] == 'evt':
            m = int(l.split()[1])
            for e in evdescs(l):
                if e[0] == '1':
                    ups = reg.get((m, int(e[1]) % 4294967296))      # a duplicated descriptor (M_SRC_DUP) is reported as 2^32 * ordinal + the user's descriptor
                    if ups is None: return [('module %d got an event of descriptor %s it never registered' % (m, e[1]), None)]
                    if e[6] not in ups: return [('descriptor event of module %d carries userdata %s, registered with %s' % (m, e[6], sorted(ups)), None)]
    return []

class C01(CoreProp):
    pid = 'C01'; props_file = 'Props_C01'; focus = {'life', 'reent'}
    proj = Proj(exact=(), rets=LIFE, cb=cb_plain, keep=('state', 'val'))
    rule = ('corpus + random programs over 2..5 modules: lifecycle/messaging/source calls from the top level and re-entrantly from scripted '
            'eval/start/stop/event callbacks (per-invocation bodies and return values), dispatch and blocking-loop driving; '
            'non-trivial = distinct script whose run invokes >= 2 callbacks')
    def monitors(self, case, ctr):
        return mon_evt_only_running(case, ctr) + mon_running_count(case, ctr)

class C02(CoreProp):
    scenario = staticmethod(GC.gen_subs_or_flush_case)
    pid = 'C02'; props_file = 'Props_C02'; focus = {'ps'}
    proj = Proj(rets=('tell', 'publish', 'broadcast', 'pill'), cb=cb_ps, keep=('freedata',))
    rule = ('corpus + random programs biased to subscribe/tell/publish/broadcast (literal and regular-expression topics, auto-free '
            'payloads, pause/stop/deregister between send and delivery) + subscription scenarios (one-shot / replaced / updated / removed subscriptions with a message in flight) + loop-stop flush scenarios (handlers run by the flush register / deregister other modules, pause or stop later recipients) + pipe-overflow bursts; non-trivial = distinct script delivering >= 2 messages')
    def monitors(self, case, ctr): return mon_messages(case, ctr)
    def nontrivial(self, case, ctr):
        return ctr is not None and sum(1 for l in ctr if l.startswith('cb ') and ' 0:' in l) >= 2
    def extra_cases(self, tier, seed, ctx):
        # bursts beyond the pipe capacity (8192 messages): the overflowing copies must be dropped cleanly, nobody else is affected
        return super().extra_cases(tier, seed, ctx) + [('burst%d' % i, ) + GC.gen_burst_case(case_rng(seed, self.pid + 'burst', i), ctx['params']) for i in range(6 if tier == 'quick' else 60)]

class C03(CoreProp):
    scenario = staticmethod(GC.gen_sources_or_subs_case)
    pid = 'C03'; props_file = 'Props_C03'; focus = {'src', 'pill', 'errno', 'ps'}; loop_share = 0.4
    proj = Proj(rets=('srclen',), exact=('loop', 'dispatch', 'quit'), cb=cb_full, keep=('close',))
    rule = ('corpus + random programs with descriptor/timer/signal sources (one-shot and persistent), environment actions between dispatches '
            'and inside blocking loops, quit/stop/pause around pending events, errno left by every kind of callback (handlers and start/stop/eval hooks, e.g. the on_stop of a pilled module in the middle of a batch), one-shot subscriptions replaced while a message is in flight; non-trivial = distinct script delivering >= 1 non-pubsub event')
    def monitors(self, case, ctr): return mon_userdata(case, ctr) + mon_evt_only_running(case, ctr)
    def nontrivial(self, case, ctr):
        return ctr is not None and any(l.startswith('cb ') and re.search(r' [1-7]:', l) for l in ctr)

class C04(CoreProp):
    scenario = staticmethod(GC.gen_mixed_case)
    pid = 'C04'; props_file = 'Props_C04'; focus = {'reent', 'life', 'ps', 'stash'}
    proj = None
    rule = ('corpus + random programs mixing every API family with re-entrant callbacks, retained module and event references released in '
            'any order, teardown in both orders; judged by ASan/UBSan, the allocator census after teardown and the model; '
            'non-trivial = distinct script with >= 2 callbacks and a deregistration')
    def project(self, header, lines): return [l for l in lines if l.startswith(('live', 'CRASH', 'freedata'))]

class C07(CoreProp):
    pid = 'C07'; props_file = 'Props_C07'; focus = {'ctx', 'life', 'deny'}
    proj = Proj(rets=('finalize', 'loop', 'dispatch', 'quit', 'stats', 'settick', 'dereg', 'start'), exact=('ctxreg', 'ctxdereg', 'ctxlen', 'reg'),
                cb=cb_stop, keep=('state', 'live'))
    rule = ('corpus + random programs biased to context register/deregister/finalize/loop/dispatch interleaved with module registration and '
            'deregistration, also from callbacks (incl. callbacks of deny-ctx modules, for which the context is hidden); persistent and non-persistent contexts; non-trivial = distinct script with >= 2 context calls succeeding')

class C08(CoreProp):
    scenario = staticmethod(GC.gen_pill_case)
    pid = 'C08'; props_file = 'Props_C08'; focus = {'ps', 'pill', 'batch'}
    proj = Proj(rets=('pill',), cb=cb_ps, keep=('state',))
    rule = ('corpus + random programs with several senders, batching settings, pause/resume, poison pills, loop stop/restart + pill scenarios (pill and quit from one callback, recipient subscribed to system topics, messages before and after the pill); payload ids '
            'increase with send order so that per-recipient order is checkable; non-trivial = distinct script delivering >= 3 messages')
    def monitors(self, case, ctr): return mon_messages(case, ctr)
    def nontrivial(self, case, ctr):
        return ctr is not None and sum(len([x for x in l.split()[6:] if x.startswith('0:')]) for l in ctr if l.startswith('cb ')) >= 3

class C09(CoreProp):
    scenario = staticmethod(GC.gen_registry_or_subs_case)
    pid = 'C09'; props_file = 'Props_C09'; focus = {'src'}
    proj = Proj(exact=('srcreg', 'srcdereg', 'srclen', 'sub', 'unsub'))
    rule = ('corpus + random register/deregister/length sequences per source kind (descriptor, timer, signal, path, threshold, task refusal, '
            'subscriptions incl. one-shot ones replaced while a message is in flight) on idle/running/paused/stopped modules, keys incl. 0 and repeated keys, bad priority flags; '
            'non-trivial = distinct script with >= 3 registry calls')
    def nontrivial(self, case, ctr):
        return sum(1 for l in case[2] if l.split()[0] in ('srcreg', 'srcdereg', 'sub', 'unsub')) >= 3

class C13(CoreProp):
    scenario = staticmethod(GC.gen_batch_case)
    pid = 'C13'; props_file = 'Props_C13'; focus = {'batch', 'ps'}
    proj = Proj(exact=('batchsize', 'batchtimeout'), cb=cb_full)
    rule = ('corpus + random programs with batch sizes 0..5, batch timeouts (fired by the script), low/normal/high priority subscriptions and '
            'descriptor sources, pause/resume/stop and setting changes between arrivals; non-trivial = distinct script with a batching setter and >= 2 deliveries')

MOD_OPS = {'start', 'stop', 'pause', 'resume', 'dereg', 'sub', 'unsub', 'tell', 'publish', 'broadcast', 'pill', 'become', 'unbecome', 'unstash',
           'stash', 'batchsize', 'batchtimeout', 'tb', 'srcreg', 'srcdereg', 'srclen'}
def mon_foreign(case, ctr):
    """every module operation / pub-sub call made by a foreign thread fails"""
    res = []
    for cat, l in categorize(ctr):
        if cat.startswith('fret:') and cat[5:].split()[0] in MOD_OPS and not l.startswith('r-'):
            res.append(('a foreign thread called %s on a module of another context and got %s' % (cat[5:], l), None))
    return res

class C14(CoreProp):
    scenario = staticmethod(GC.gen_foreign_case)
    pid = 'C14'; props_file = 'Props_C14'; focus = {'foreign', 'ps', 'life'}
    proj = Proj(allrets=True, keep=('state', 'val'), cb=cb_full)
    rule = ('corpus + random programs in which module operations and pub/sub calls are ALSO made by another thread (holding its own context or '
            'none) while the owner is inside the module\'s own callback, inside another callback or outside callbacks, followed by probes of the '
            'module (subscriptions, sources, state, handler stack, deliveries); non-trivial = distinct script with >= 1 foreign module call')
    def monitors(self, case, ctr): return mon_foreign(case, ctr)
    def nontrivial(self, case, ctr):
        return ctr is not None and any(c.startswith('fret:') and c[5:].split()[0] in MOD_OPS for c, _ in categorize(ctr))
    # ---- first clause: independent contexts.  T1: the inventory of writable library state is regenerated (coq/Globals.v) ...
    def regen(self):
        import globals_scan
        ok, msg, syms = globals_scan.generate()
        if ok: self._globals = [s[0] for s in syms]
        return ok, ('inventory of writable globals cannot be regenerated: ' + msg) if not ok else ''
    # ... and several contexts really run concurrently under ThreadSanitizer, each compared with the same program run alone
    def mt_configs(self, tier, seed, proof_ok):
        nseeds = (3 if tier == 'quick' else 60) * (1 if proof_ok else 8)
        return [(n, seed * 1000 + k, r) for k in range(nseeds) for (n, r) in ((2, 40), (4, 40), (8, 25), (16, 12))]
    def run_mt(self, exe, n, sd, rounds, solo=None):
        env = dict(os.environ, TSAN_OPTIONS='halt_on_error=0 exitcode=66 second_deadlock_stack=1')
        cmd = [exe, str(n), str(sd), str(rounds)] + ([str(solo)] if solo is not None else [])
        try:
            r = subprocess.run(cmd, stdout=subprocess.PIPE, stderr=subprocess.PIPE, text=True, env=env, timeout=120)
            return r.returncode, r.stdout, r.stderr
        except subprocess.TimeoutExpired as e:
            return 'timeout', (e.stdout or b'').decode(errors='replace') if isinstance(e.stdout, bytes) else (e.stdout or ''), ''
    @staticmethod
    def mt_blocks(out):
        """-> {thread: {group: [lines]}}: the order of the lines of one module is part of the observation, the interleaving of modules is not"""
        res = {}; cur = None
        for l in out.splitlines():
            t = l.split()
            if len(t) == 3 and t[0] == 'T' and t[2] == 'begin': cur = res.setdefault(int(t[1]), {})
            elif len(t) == 3 and t[0] == 'T' and t[2] == 'end': cur = None
            elif cur is not None and t: cur.setdefault(t[0], []).append(l)
        return res
    def mt_judge(self, exe, cfg):
        n, sd, rounds = cfg
        rc, out, err = self.run_mt(exe, n, sd, rounds)
        if rc == 'timeout': return ('%d concurrent contexts did not terminate within 120 s' % n, out[-2000:])
        if 'ThreadSanitizer' in err:
            rep = err[err.find('WARNING: ThreadSanitizer'):][:6000]
            first = [l for l in rep.splitlines() if l.startswith('SUMMARY')][:1]
            return ('unsynchronised access to shared library state while %d contexts run concurrently: %s' % (n, first[0] if first else 'ThreadSanitizer report'), rep)
        if rc != 0: return ('driver exit code %s with %d concurrent contexts' % (rc, n), (out + err)[-3000:])
        conc = self.mt_blocks(out)
        for k in range(n):
            rc2, out2, err2 = self.run_mt(exe, n, sd, rounds, solo=k)
            alone = self.mt_blocks(out2).get(k)
            if rc2 != 0 or alone is None: return ('program of context %d does not run alone (exit %s)' % (k, rc2), (out2 + err2)[-3000:])
            if conc.get(k) != alone:
                g = [x for x in sorted(set(alone) | set(conc.get(k) or {})) if (conc.get(k) or {}).get(x) != alone.get(x)][0]
                a, b = (conc.get(k) or {}).get(g, []), alone.get(g, [])
                i = first_diff(a, b)
                return ('what context %d observes depends on the other contexts: %s line %d is "%s" with %d contexts running and "%s" alone' %
                        (k, g, i, get(a, i), n, get(b, i)), 'concurrent:\n' + '\n'.join(a[:60]) + '\nalone:\n' + '\n'.join(b[:60]))
        return None
    def side_checks(self, tier, seed, ctx, proof_ok):
        from concurrent.futures import ThreadPoolExecutor
        exe, msg = build_driver('drv_mt', CORE_SRCS, ('-DLIBMODULE_LOG_CTX=CORE',), ('-lpthread', '-ldl'), cflags=TSAN_CFLAGS)
        if not exe: return [('mt_build_failure.txt', 'the multi-context harness does not build against the tree', msg)]
        cfgs = self.mt_configs(tier, seed, proof_ok)
        with ThreadPoolExecutor(max_workers=4) as ex:
            results = list(ex.map(lambda c: self.mt_judge(exe, c), cfgs))
        cov = ctx.setdefault('cov_extra', {})
        cov['multi_context_runs'] = dict(configs=len(cfgs), contexts_run_concurrently=sum(c[0] for c in cfgs), solo_reruns=sum(c[0] for c in cfgs),
                                         threads_per_run=sorted({c[0] for c in cfgs}), sanitizer='ThreadSanitizer (gcc -fsanitize=thread) on /repo sources',
                                         writable_globals_inventory=getattr(self, '_globals', []))
        for cfg, r in zip(cfgs, results):
            if r:
                return [('violation_mt_%d_%d.txt' % (cfg[0], cfg[1]), r[0],
                         'replay: python3 tools/run.py replay C14 <this file>\nmt %d %d %d\n%s' % (cfg[0], cfg[1], cfg[2], r[1]))]
        return []
    def replay(self, path):
        mt = [l.split() for l in open(path) if l.startswith('# mt ') or l.startswith('mt ')]
        if not mt: return super().replay(path)
        t = mt[0][-3:]
        exe, msg = build_driver('drv_mt', CORE_SRCS, ('-DLIBMODULE_LOG_CTX=CORE',), ('-lpthread', '-ldl'), cflags=TSAN_CFLAGS)
        if not exe: print(msg); return 1
        r = self.mt_judge(exe, (int(t[0]), int(t[1]), int(t[2])))
        print('mt %s: %s' % (' '.join(t), 'ok' if not r else r[0]))
        if r: print(r[1])
        return 1 if r else 0

class C15(CoreProp):
    pid = 'C15'; props_file = 'Props_C15'; focus = {'names', 'deny', 'ctx'}
    proj = Proj(exact=('reg',), rets=('dereg', 'publish', 'tell', 'broadcast', 'pill', 'sub', 'unsub', 'ctxlen', 'quit', 'finalize', 'dispatch', 'ctxdereg', 'stats'),
                keep=('state',))
    rule = ('corpus + random programs over modules sharing a name (with/without allow-replace), deny-ctx/deny-pub/deny-sub/persist flags, '
            'restricted calls attempted from every callback kind, reserved topics; non-trivial = distinct script with a flagged module or a shared name')
    def nontrivial(self, case, ctr):
        mods = [l.split() for l in case[2] if l.startswith('mod ')]
        return any(t[4:9] != ['0'] * 5 for t in mods) or len({t[2] for t in mods}) < len(mods)

class C16(CoreProp):
    scenario = staticmethod(GC.gen_stash_case)
    pid = 'C16'; props_file = 'Props_C16'; focus = {'stash', 'ps', 'become'}
    proj = Proj(exact=('stash', 'unstash'), cb=cb_ps)
    rule = ('corpus + random programs where handlers stash events and unstash n (n from 0 to beyond the number stashed), with become/unbecome '
            'and stop/start; non-trivial = distinct script with a successful stash')
    def monitors(self, case, ctr): return mon_stash_counts(case, ctr) + mon_messages(case, ctr)
    def nontrivial(self, case, ctr):
        return ctr is not None and any(ctr[i].startswith('> stash') and i + 1 < len(ctr) and ctr[i + 1] == 'r0' for i in range(len(ctr)))

class C17(CoreProp):
    scenario = staticmethod(GC.gen_become_case)
    pid = 'C17'; props_file = 'Props_C17'; focus = {'become', 'ps', 'life'}
    proj = Proj(exact=('become', 'unbecome'), cb=cb_handler)
    rule = ('corpus + random programs with become/unbecome from outside and inside handlers, deliveries, stash replays, stop/start cycles; '
            'non-trivial = distinct script with a successful become and a later delivery')
    def nontrivial(self, case, ctr):
        return ctr is not None and any(l.startswith('cb ') and l.split()[2] == 'evt' and l.split()[4] != '0' for l in ctr)

class C18(CoreProp):
    scenario = staticmethod(GC.gen_tb_case)
    pid = 'C18'; props_file = 'Props_C18'; focus = {'tb', 'life', 'ps'}
    proj = Proj(allrets=True)
    rule = ('corpus + random programs setting token buckets (rate, burst incl. 0), bursts of token-consuming calls, refill timer firings, '
            're-configuration and stop; non-trivial = distinct script in which a call returned EAGAIN')
    def project(self, header, lines):
        return [re.sub(r'r-(?!11$)\d+$', 'r-', x) for x in Proj(allrets=True)(lines)]
    def nontrivial(self, case, ctr): return ctr is not None and 'r-11' in ctr

class C19(CoreProp):
    pid = 'C19'; props_file = 'Props_C19'; focus = {'life', 'ps'}
    proj = Proj(rets=('sub', 'unsub'), cb=cb_sys)
    scenario = staticmethod(GC.gen_sysnote_case)
    rule = ('corpus + random programs with subscriptions to the system topics, loop starts/stops (blocking and dispatch) and module transitions + watcher scenarios (running or paused watchers, every transition of the other modules incl. the last running one); '
            'non-trivial = distinct script delivering >= 1 system notification')
    def nontrivial(self, case, ctr):
        return ctr is not None and any(l.startswith('cb ') and re.search(r':1:\d+( |$)', l) for l in ctr)
    def gen_one(self, rng, ctx, i):
        h, lines = super().gen_one(rng, ctx, i)
        # make sure somebody listens to system topics
        out = []
        for l in lines:
            out.append(l)
            if l == 'proc 1':
                pass
            if l.startswith('reg ') and rng.random() < 0.7:
                m = l.split()[1]; out.append('sub %s %d 0 0 5' % (m, rng.choice([1001, 1002, 1004, 1005])))
        return h, out

class C20(CoreProp):
    scenario = staticmethod(GC.gen_sources_case)
    pid = 'C20'; props_file = 'Props_C20'; focus = {'src', 'life'}
    rule = ('corpus + random programs registering descriptor (auto-close or not), timer, signal, path, threshold sources, one-shot or not, with '
            'stop / pill / refusing start / deregistration inside callbacks and retained events; judged by the close() log of user descriptors '
            'and the count of descriptors still open; non-trivial = distinct script opening >= 1 internal descriptor')
    def project(self, header, lines):
        out = []
        for l in lines:
            if l.startswith('close ') or l.startswith('CRASH'): out.append(l)
            elif l.startswith('live '): out.append(l.split()[-1])
        return out
    def nontrivial(self, case, ctr): return ctr is not None and any(l.startswith('live ') and not l.endswith('fd=0') for l in ctr)

REGISTRY = {c.pid: c() for c in (C01, C02, C03, C04, C07, C08, C09, C13, C14, C15, C16, C17, C18, C19, C20)}
