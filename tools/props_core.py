# props_core.py -- the properties decided on the actor-core engine
import os, re
from common import *
from checkbase import Check
import gen_core as GC

CORE_SRCS = ('core/ctx.c', 'core/evts.c', 'core/main.c', 'core/mod.c', 'core/ps.c', 'core/src.c', 'core/fs/fs_noop.c',
             'core/poll/epoll.c', 'core/poll/cmn_linux.c', 'structs/queue.c', 'structs/stack.c', 'structs/list.c',
             'structs/bst.c', 'structs/map.c', 'mem/mem.c', 'thpool/thpool.c', 'utils/mem.c', 'utils/log.c', 'utils/utils.c')
TRUSTED = ['Coq 8.16.1 kernel (coqc, vm_compute; no native_compute)',
           'axioms: none (every Print Assumptions = Closed under the global context)',
           'extraction: ExtrOcamlBasic only, no Extract Constant/Inductive; hand-written OCaml glue extract/glue.ml + main_core.ml',
           'harness/drv_core.c incl. its link-time wraps (epoll_wait order and scripted environment, timerfd_settime, close, m_mem_new), tools/*.py, gcc, ASan/UBSan',
           'tools/consts_probe.c (regenerated coq/Consts.v); table slots and regexec results read from the real code per run']
ASSUME = ['the hand-written Gallina model (coq/CoreModel.v, CoreExec.v) corresponds to the C code only as far as the differential runs of this check exercise it',
          'epoll plugin only; timers/signals fire when the script says so (timerfd contract assumed); single context on one thread in this engine',
          'scripts in known-finding regions (model trace contains FAULT) are run only as named corpus cases']

STRUCT = ('mod ', 'tslot ', 'rem ', 'cb ', 'proc ', 'endproc')

class CoreCheck(Check):
    driver = 'drv_core'
    driver_srcs = CORE_SRCS
    driver_flags = ('-DLIBMODULE_LOG_CTX=CORE', '-Wl,--wrap=epoll_wait,--wrap=timerfd_settime,--wrap=close,--wrap=m_mem_new')
    driver_libs = ('-lpthread', '-ldl')
    model = 'core'
    trusted = TRUSTED
    assumptions = ASSUME
    focus = None
    n_quick, n_thorough = 1500, 30000
    loop_share = 0.2

    def removable(self, line):
        return not line.startswith(STRUCT)
    def prepare(self, ctx):
        r = sh([ctx['cexe'], '--params'], env=ENV)
        if r.returncode != 0: return False, r.stdout[-2000:]
        ctx['params'] = GC.Params(r.stdout)
        return True, ''
    def gen_one(self, rng, ctx, i):
        mode = 'loop' if rng.random() < self.loop_share else 'dispatch'
        return GC.gen_case(rng, ctx['params'], self.focus, mode)
    def cases(self, tier, seed, ctx):
        n = self.n_quick if tier == 'quick' else self.n_thorough
        raw = []
        for i in range(n):
            h, lines = self.gen_one(case_rng(seed, self.pid, i), ctx, i)
            raw.append(('g%d' % i, h, lines))
        raw += self.extra_cases(tier, seed, ctx)
        # ask the model first: scripts it cannot follow (fuel, blocked loop, known-finding region) are not run
        m = run_sharded(ctx['mexe'], raw, os.path.join(OUT, self.pid), 'pre_m')
        keep, dropped = [], {}
        for c in raw:
            tr = m.get(c[0]) or []
            f = [l for l in tr if l.startswith('FAULT')]
            if f: dropped[f[0]] = dropped.get(f[0], 0) + 1
            else: keep.append(c)
        ctx.setdefault('cov_extra', {})['generated'] = len(raw)
        ctx['cov_extra']['discarded_by_model'] = dropped
        return keep
    def extra_cases(self, tier, seed, ctx):
        return []
    def nontrivial(self, case, ctr):
        return ctr is not None and sum(1 for l in ctr if l.startswith('cb ')) >= 2
    def project(self, header, lines):
        return [re.sub(r'^r-\d+$', 'r-', l) for l in lines]

class C01(CoreCheck):
    pid = 'C01'; props_file = 'Props_C01'; focus = {'life', 'reent'}
    rule = ('corpus + random programs over 2..5 modules: lifecycle/messaging/source calls from the top level and re-entrantly from scripted '
            'eval/start/stop/event callbacks (per-invocation bodies and return values), dispatch and blocking-loop driving; '
            'non-trivial = distinct script whose run invokes >= 2 callbacks')

REGISTRY = {c.pid: c() for c in (C01,)}
