#!/bin/bash
# all_quick.sh [seed] -- every registered quick check in sequence (each one uses all cores); prints one line per property
cd /verif
for p in $(python3 tools/run.py list); do
  VERIF_SEED=${1:-1} timeout 1800 python3 tools/run.py check $p --tier quick 2>&1 | grep -E "^(C[0-9]+ ok|VIOLATION|KNOWN-FINDING)" | cut -c1-200
done
