#!/bin/bash
# coqchk_all.sh -- re-check every compiled property file (and everything it depends on) with Coq's independent checker and print
# the axioms / unsafe features it finds.  Slow (minutes); not part of the per-change checks.
cd /verif/coq || exit 2
mods=$(ls Props_C*.v | sed 's/\.v$//; s/^/LM./' | tr '\n' ' ')
timeout 3600 coqchk -o -silent -Q . LM $mods 2>&1 | tail -20
