#!/bin/bash
# usage: dbg.sh File.v LINE  -- show the goal just before LINE (debug aid only)
f=$1; n=$2
mkdir -p /tmp/dbg
sed "${n}s/^/Show. /" /verif/coq/$f > /verif/coq/Dbg_tmp.v
cd /verif/coq && timeout 120 coqc -Q . LM Dbg_tmp.v 2>&1 | head -${3:-60}
rm -f /verif/coq/Dbg_tmp.*  /verif/coq/.Dbg_tmp.aux
