#!/bin/bash
# seed_try.sh <seeded name> <property> : apply the seeded change to /repo, run the property's quick check, undo
name=$1; prop=$2
cd /repo && git status --short | grep -v "^??" | grep -q . && { echo "repo not clean"; exit 2; }
git -C /repo apply /verif/seeded/$name/patch.diff || { echo "$name: patch does not apply to /repo"; exit 2; }
cd /verif && timeout 900 python3 tools/run.py check $prop > /tmp/try_$name.log 2>&1; rc=$?
git -C /repo checkout -- .
# files regenerated from the (changed) tree go back to what the restored tree gives
(cd /verif && python3 -c "import sys; sys.path.insert(0,'tools'); import common, globals_scan; common.regen_consts(); common.regen_guards(); globals_scan.generate()" >/dev/null 2>&1)
v=$(grep -c "^VIOLATION" /tmp/try_$name.log)
echo "$name vs $prop: exit=$rc violations=$v $(grep '^VIOLATION' /tmp/try_$name.log | head -1 | cut -c1-120)"
