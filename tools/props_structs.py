# props_structs.py -- C05 (map), C10 (mem), C11 (bst), C12 (queue/stack/list)
import os, re
from common import *
from checkbase import Check
import gen_structs as G

STRUCT_SRCS = ('structs/queue.c', 'structs/stack.c', 'structs/list.c', 'structs/bst.c',
               'mem/mem.c', 'utils/mem.c', 'utils/log.c')
TRUSTED = ['Coq 8.16.1 kernel (coqc, vm_compute; no native_compute)',
           'axioms: none (every Print Assumptions = Closed under the global context)',
           'extraction: ExtrOcamlBasic only, no Extract Constant/Inductive; hand-written OCaml glue extract/glue.ml + main_structs.ml',
           'harness/drv_structs.c, tools/*.py, gcc, ASan/UBSan',
           'tools/consts_probe.c (regenerated coq/Consts.v)']
ASSUME = ['the hand-written Gallina model corresponds to the C code only as far as the differential runs of this check exercise it',
          'documented preconditions: elements are non-NULL pointers owned by the caller; an iterator is not used across a mutation made outside it']

class StructCheck(Check):
    driver = 'drv_structs'
    driver_srcs = STRUCT_SRCS
    driver_flags = ('-DLIBMODULE_LOG_CTX=STRUCTS',)
    model = 'structs'
    trusted = TRUSTED
    assumptions = ASSUME

class C12(StructCheck):
    pid = 'C12'; props_file = 'Props_C12'
    rule = ('corpus + random op lists per container (queue, stack, list; values 1..12, iterator walks with '
            'remove/set/insert at every position incl. the last element, followed by further operations) + ALL op '
            'sequences up to length L over an 8-letter alphabet per container (quick L=4, thorough L=6); '
            'non-trivial = distinct script that uses an iterator mutation or >= 3 mutating operations')
    def cases(self, tier, seed, ctx):
        n = 1200 if tier == 'quick' else 40000
        L = 4 if tier == 'quick' else 6
        res = []
        for i in range(n):
            rng = case_rng(seed, self.pid, i)
            g = (G.gen_queue, G.gen_stack, G.gen_list)[i % 3]
            h, ops = g(rng); res.append(('g%d' % i, h, ops))
        j = 0
        for kind in ('queue', 'stack', 'list'):
            for h, ops in G.exhaustive_seq(kind, L):
                res.append(('e%d' % j, h, ops)); j += 1
        ctx.setdefault('cov_extra', {})['exhaustive_prefix_length'] = L
        return res
    def nontrivial(self, case, ctr):
        ops = case[2]
        return any(o.startswith(('itrrm', 'itrset', 'itrins')) for o in ops) or \
               sum(1 for o in ops if o.split()[0] in ('enq', 'deq', 'push', 'pop', 'ins', 'rm', 'remove', 'clear')) >= 3

class C11(StructCheck):
    pid = 'C11'; props_file = 'Props_C11'
    rule = ('corpus + random op lists (default pointer comparator incl. pointers 2^31..2^40 apart, user comparator '
            'modulo k; insert/remove/find/traverse x3/iterator with removal/clear/free) + every insertion order of K keys '
            'x every single removal x full iterator-removal sweep (quick K=5, thorough K=7); non-trivial = distinct script '
            'with a removal of an element having two children or an iterator removal')
    def cases(self, tier, seed, ctx):
        n = 1500 if tier == 'quick' else 50000
        K = 5 if tier == 'quick' else 7
        res = []
        for i in range(n):
            h, ops = G.gen_bst(case_rng(seed, self.pid, i)); res.append(('g%d' % i, h, ops))
        for j, (h, ops) in enumerate(G.exhaustive_bst(K)):
            res.append(('e%d' % j, h, ops))
        ctx.setdefault('cov_extra', {})['exhaustive_permutations_of'] = K
        return res
    def nontrivial(self, case, ctr):
        ops = case[2]
        return sum(1 for o in ops if o.startswith('ins')) >= 3 and any(o.startswith(('rm ', 'itrrm')) for o in ops)

class C10(StructCheck):
    pid = 'C10'; props_file = 'Props_C10'
    rule = ('corpus + EVERY size 0..S (S=4096 quick, 20000 thorough; pointer alignment, offset, requested bytes, reported size, block fully '
            'writable under ASan) + random ref/unref/unrefp/size histories over populations of blocks with nested '
            'destructors; non-trivial = distinct script in which some block is freed through a nested destructor or holds >= 2 references')
    def cases(self, tier, seed, ctx):
        n = 1500 if tier == 'quick' else 50000
        S = 4096 if tier == 'quick' else 20000
        res = []
        for j, (h, ops) in enumerate(G.exhaustive_mem_sizes(0, S + 1)):
            res.append(('s%d' % j, h, ops))
        for i in range(n):
            h, ops = G.gen_mem(case_rng(seed, self.pid, i)); res.append(('g%d' % i, h, ops))
        ctx.setdefault('cov_extra', {})['all_sizes_up_to'] = S
        return res
    def nontrivial(self, case, ctr):
        ops = case[2]
        return any(o.startswith('ref') for o in ops) or any(len(o.split()) > 4 for o in ops if o.startswith('new'))

class C05(StructCheck):
    level = 'proof'
    pid = 'C05'; props_file = 'Props_C05'
    rule = ('corpus + random op lists over key pools chosen with the REAL hash function (random keys, keys sharing one '
            'home slot, keys homed at the last slots of the table, consecutive homes), all flag combinations, iterator and '
            'callback iteration with removal/set; growth runs past the 0.75 load factor; long clusters (> size/2) with removals; '
            'non-trivial = distinct script with a removal or an update of a present key')
    def prepare(self, ctx):
        r = sh([ctx['cexe'], '--hashes', '60000'], env=ENV)
        if r.returncode != 0: return False, r.stdout[-2000:]
        hashes = {}
        for l in r.stdout.splitlines():
            a = l.split()
            if len(a) == 2 and int(a[0]) > 0: hashes[int(a[0])] = int(a[1])    # id 0 would print like NULL
        ctx['hashes'] = hashes
        ctx['pools'] = G.MapPools(hashes, 256)
        return True, ''
    def _with_hashes(self, ctx, ops, keys):
        hs = ctx['hashes']
        used = set(keys)
        for o in ops:
            t = o.split()
            if t[0] in ('put', 'get', 'has', 'rm'): used.add(int(t[1]))
        # OCaml ints are 63 bit: pass the hash modulo 2^32 (the model only uses hash mod table size <= 2^20)
        return ['hash %d %d' % (k, hs[k] % (1 << 32)) for k in sorted(used)] + ops
    def corpus(self, ctx):
        res = []
        for (cid, h, ops) in super().corpus(ctx):
            ops = [o for o in ops if not o.startswith('hash ')]
            res.append((cid, h, self._with_hashes(ctx, ops, [])))
        return res
    def cases(self, tier, seed, ctx):
        n = 1500 if tier == 'quick' else 40000
        nb = 12 if tier == 'quick' else 200
        res = []
        P = ctx['pools']
        for i in range(n):
            h, ops, keys = G.gen_map(case_rng(seed, self.pid, i), P)
            res.append(('g%d' % i, h, self._with_hashes(ctx, ops, keys)))
        for i in range(nb):
            rng = case_rng(seed, self.pid + 'big', i)
            h, ops, keys = G.gen_map_big(rng, P, rng.choice([150, 190, 200, 260, 400, 800]))
            res.append(('b%d' % i, h, self._with_hashes(ctx, ops, keys)))
            h, ops, keys = G.gen_map_cluster(rng, P, rng.choice([100, 128, 130, 150]), rng.randint(2, 6))
            res.append(('c%d' % i, h, self._with_hashes(ctx, ops, keys)))
            ks = P.consecutive(rng, rng.choice([129, 140, 180]))
            ops = ['put %d %d' % (k, 500 + j) for j, k in enumerate(ks)] + ['rm %d' % ks[0]] + ['has %d' % k for k in ks] + ['len', 'free']
            res.append(('d%d' % i, 'map 1 0 1', self._with_hashes(ctx, ops, ks)))
        return res
    def nontrivial(self, case, ctr):
        ops = case[2]
        return any(o.startswith(('rm ', 'itrrm')) for o in ops) and sum(1 for o in ops if o.startswith('put')) >= 2
    def monitors(self, case, ctr):
        """iteration property, judged on the implementation trace itself (the model
        mirrors the code's slot-order iterator, see known finding D12): an iterator walk
        that runs to exhaustion visits every entry that was live at itrnew and not
        removed meanwhile exactly once"""
        cid, header, ops = case
        body = [o for o in ops if not o.startswith('hash ')]
        if ctr is None or len(ctr) < len(body): return []
        live = {}; res = []
        i = 0
        while i < len(body):
            t = body[i].split(); out = ctr[i].split()
            if t[0] == 'put' and out and out[-1] == 'r0': live[int(t[1])] = True
            elif t[0] == 'rm' and out and out[-1] == 'r0': live.pop(int(t[1]), None)
            elif t[0] in ('clear', 'free') : live = {}
            elif t[0] == 'iterate':
                seen = [int(x[1:]) for x in out if x.startswith('v')]
                rm = t[3] == '1'
                complete = out[-1] == 'r0' and int(t[1]) == 0
                if rm:
                    for k in seen: live.pop(k, None)
                if complete:
                    dup = len(seen) != len(set(seen))
                    if dup and rm: res.append(('callback iteration with removal visited an entry twice', 'map-iter-remove-double-visit'))
                    elif dup: res.append(('callback iteration visited an entry twice', None))
            elif t[0] == 'itrnew' and out == ['p1']:
                # a walk is judged only if every position was read with itrkey right after
                # itrnew / itrnext, and the walk ran until the iterator was exhausted
                start = set(live); vis = []; removed_any = False
                fresh = True; removed_state = False; checkable = True; exhausted = False
                j = i + 1
                while j < len(body):
                    tj = body[j].split(); oj = ctr[j].split()
                    if tj[0] == 'itrkey':
                        if oj[0] == 'p0':
                            if not removed_state: exhausted = True; j += 1; break
                        elif fresh: vis.append(int(oj[0][1:])); fresh = False
                    elif tj[0] == 'itrrm':
                        if fresh: checkable = False
                        if oj and oj[-1] == 'r0' and vis:
                            live.pop(vis[-1], None); removed_any = True; removed_state = True
                    elif tj[0] == 'itrnext':
                        if fresh: checkable = False
                        fresh = True; removed_state = False
                    elif tj[0] in ('itrget', 'itrset', 'len', 'get', 'has'):
                        pass
                    else:
                        break
                    j += 1
                if exhausted and checkable:
                    if len(vis) != len(set(vis)):
                        res.append(('iterator walk visited an entry twice' + (' (with removal)' if removed_any else ''),
                                    'map-iter-remove-double-visit' if removed_any else None))
                    missed = start - set(vis)
                    if missed: res.append(('iterator walk missed live entries %s' % sorted(missed)[:5], None))
                    extra = set(vis) - start
                    if extra: res.append(('iterator walk yielded keys that were not live %s' % sorted(extra)[:5], None))
                i = j - 1
            i += 1
        return res

REGISTRY = {c.pid: c() for c in (C05, C10, C11, C12)}
