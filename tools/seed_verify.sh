#!/bin/bash
# seed_verify.sh <id> <srcdir> : confirm a seeded change in its scratch worktree (suite passes with it,
# demo fails with it and passes without), then store it under /verif/seeded/<name>/
id=$1; dir=$2; name=${3:-$id}
cd $dir || exit 2
[ -f _mutation/patch.diff ] || { echo "$id: no patch"; exit 2; }
git checkout -q -- Lib
# baseline: demo passes without the change
(./_mutation/run_demo.sh >/tmp/seed_$id.base.log 2>&1); base=$?
git apply _mutation/patch.diff || { echo "$id: patch does not apply"; exit 2; }
(cmake -G Ninja -B _build -DBUILD_TESTS=ON -DCMAKE_BUILD_TYPE=RelWithDebInfo >/dev/null 2>&1; cmake --build _build >/tmp/seed_$id.build.log 2>&1) || { echo "$id: does not build"; exit 2; }
ctest --test-dir _build -j4 --timeout 900 >/tmp/seed_$id.ctest.log 2>&1; suite=$?
(./_mutation/run_demo.sh >/tmp/seed_$id.mut.log 2>&1); mut=$?
echo "$id: demo_without=$base suite_with=$suite demo_with=$mut"
if [ $base -eq 0 ] && [ $suite -eq 0 ] && [ $mut -ne 0 ]; then
  mkdir -p /verif/seeded/$name
  cp _mutation/patch.diff /verif/seeded/$name/patch.diff
  for f in _mutation/demo*.c _mutation/*.sh _mutation/meta.txt; do [ -f $f ] && cp $f /verif/seeded/$name/; done
  echo CONFIRMED
fi
