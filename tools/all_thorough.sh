#!/bin/bash
# all_thorough.sh [seed] -- every registered thorough check in sequence; one summary line per property
cd /verif
for p in $(python3 tools/run.py list); do
  s=$(date +%s)
  VERIF_SEED=${1:-1} timeout 7200 python3 tools/run.py check $p --tier thorough 2>&1 | grep -E "^(C[0-9]+ ok|VIOLATION|KNOWN-FINDING)" | cut -c1-220
  echo "  ($p took $(( $(date +%s) - s )) s)"
done
