# gen_structs.py -- script generators for the container / allocator engines.
# Every random choice derives from the per-case RNG (seed, property, case index).
# Generators are aimed at the case splits of the proofs: iterator removal of the
# first / middle / LAST element followed by further operations, two-children
# deletion, clusters wrapping the end of the table, growth, nested destructors.
import itertools

# ---------------------------------------------------------------- queue / stack
def _itr_walk(rng, kind, n_hint):
    """an iteration: itrnew then per element get + optional action + next"""
    ops = ['itrnew']
    steps = rng.randint(1, n_hint + 2)
    for _ in range(steps):
        ops.append('itrget')
        r = rng.random()
        if r < 0.35: ops.append('itrrm')
        elif r < 0.5: ops.append('itrset %d' % rng.randint(1, 9))
        elif r < 0.6 and kind == 'list': ops.append('itrins %d' % rng.randint(1, 9))
        if rng.random() < 0.1: ops.append('itrrm')       # double removal: must be refused
        if rng.random() < 0.1: ops.append('itrget')
        ops.append('itrnext')
    return ops

def gen_queue(rng):
    dtor = rng.randint(0, 1)
    ops, n = [], 0
    for _ in range(rng.randint(3, 30)):
        r = rng.random()
        if r < 0.35: ops.append('enq %d' % rng.randint(1, 9)); n += 1
        elif r < 0.5: ops.append('deq'); n = max(0, n - 1)
        elif r < 0.55: ops.append('remove'); n = max(0, n - 1)
        elif r < 0.6: ops.append('peek')
        elif r < 0.65: ops.append('len')
        elif r < 0.68: ops.append('clear'); n = 0
        elif r < 0.72: ops.append('iterate %d %d' % (rng.randint(0, 4), rng.choice([0, 1, -5])))
        elif r < 0.74: ops.append('enq 0')
        else:
            ops += _itr_walk(rng, 'queue', n)
            # the D27 shape: after the walk keep using the queue
            ops += ['enq %d' % rng.randint(1, 9), 'len'] + ['deq'] * rng.randint(1, 3)
    if rng.random() < 0.5: ops += ['deq'] * 4
    ops += ['len', 'free']
    if rng.random() < 0.2: ops += ['enq 3', 'deq', 'len', 'itrnew', 'free']
    return 'queue %d' % dtor, ops

def gen_stack(rng):
    dtor = rng.randint(0, 1)
    ops, n = [], 0
    for _ in range(rng.randint(3, 30)):
        r = rng.random()
        if r < 0.35: ops.append('push %d' % rng.randint(1, 9)); n += 1
        elif r < 0.5: ops.append('pop'); n = max(0, n - 1)
        elif r < 0.55: ops.append('remove'); n = max(0, n - 1)
        elif r < 0.6: ops.append('peek')
        elif r < 0.65: ops.append('len')
        elif r < 0.68: ops.append('clear'); n = 0
        elif r < 0.72: ops.append('iterate %d %d' % (rng.randint(0, 4), rng.choice([0, 1, -5])))
        elif r < 0.74: ops.append('push 0')
        else:
            ops += _itr_walk(rng, 'stack', n)
            ops += ['push %d' % rng.randint(1, 9), 'len'] + ['pop'] * rng.randint(1, 3)
    ops += ['len', 'free']
    if rng.random() < 0.2: ops += ['push 3', 'pop', 'len', 'itrnew', 'free']
    return 'stack %d' % dtor, ops

def gen_list(rng):
    dtor = rng.randint(0, 1)
    k = rng.choice([0, 0, 2, 3, 5, 102, 103, 105])
    ops, n = [], 0
    for _ in range(rng.randint(3, 30)):
        r = rng.random()
        if r < 0.35: ops.append('ins %d' % rng.randint(1, 12)); n += 1
        elif r < 0.5: ops.append('rm %d' % rng.randint(1, 12))
        elif r < 0.6: ops.append('find %d' % rng.randint(0, 12))
        elif r < 0.65: ops.append('len')
        elif r < 0.68: ops.append('clear'); n = 0
        elif r < 0.72: ops.append('iterate %d %d' % (rng.randint(0, 4), rng.choice([0, 1, -5])))
        elif r < 0.74: ops.append(rng.choice(['ins 0', 'rm 0']))
        else:
            ops += _itr_walk(rng, 'list', n)
            ops += ['ins %d' % rng.randint(1, 12), 'len', 'iterate 0 0']
    ops += ['len', 'iterate 0 0', 'free']
    if rng.random() < 0.2: ops += ['ins 3', 'find 3', 'len', 'itrnew', 'free']
    return 'list %d %d' % (k, dtor), ops

SEQ_ALPHA = {
    'queue': ['enq 1', 'enq 2', 'deq', 'itrnew', 'itrnext', 'itrrm', 'itrget', 'remove'],
    'stack': ['push 1', 'push 2', 'pop', 'itrnew', 'itrnext', 'itrrm', 'itrget', 'remove'],
    'list':  ['ins 1', 'ins 2', 'rm 1', 'itrnew', 'itrnext', 'itrrm', 'itrget', 'itrins 3'],
}
def exhaustive_seq(kind, maxlen):
    """all operation sequences up to maxlen over a small alphabet, each followed by a drain"""
    drain = {'queue': ['len', 'enq 7', 'deq', 'deq', 'deq', 'deq', 'len', 'free'],
             'stack': ['len', 'push 7', 'pop', 'pop', 'pop', 'pop', 'len', 'free'],
             'list': ['len', 'ins 7', 'iterate 0 0', 'free']}[kind]
    header = {'queue': 'queue 1', 'stack': 'stack 1', 'list': 'list 0 1'}[kind]
    for n in range(1, maxlen + 1):
        for seq in itertools.product(SEQ_ALPHA[kind], repeat=n):
            yield header, list(seq) + drain

# ---------------------------------------------------------------- bst
def gen_bst(rng):
    dtor = rng.randint(0, 1)
    k = rng.choice([0, 0, 0, 7, 16])
    if k == 0 and rng.random() < 0.3:
        # pointers far apart: 2^31, 2^32, 2^33 ... distances (default comparator)
        pool = [1 + (i << rng.choice([31, 32, 33, 40])) for i in range(6)] + [5, 6]
        if rng.random() < 0.5:      # both halves of the address range: distances of 2^63 and more
            pool += [0x1000, 0x6000000000000000, 0x8000000000000010, 0xC000000000000000, 0xFFFFFFFFFFFFFFF0, 0x7FFFFFFFFFFFFFFF]
    else:
        pool = list(range(1, 24))
    ops = []
    keys = rng.sample(pool, min(len(pool), rng.randint(1, 9)))
    for x in keys: ops.append('ins %d' % x)
    for _ in range(rng.randint(2, 25)):
        r = rng.random()
        if r < 0.25: ops.append('ins %d' % rng.choice(pool))
        elif r < 0.5: ops.append('rm %d' % rng.choice(pool))
        elif r < 0.6: ops.append('find %d' % rng.choice(pool + [0]))
        elif r < 0.65: ops.append('len')
        elif r < 0.75: ops.append('trav %d %d %d' % (rng.choice([0, 1, 2, 2, 3]), rng.randint(0, 4), rng.choice([0, 0, 1, -5])))
        elif r < 0.78: ops.append('clear')
        elif r < 0.8: ops.append(rng.choice(['ins 0', 'rm 0']))
        else:
            ops.append('itrnew')
            for _ in range(rng.randint(1, 10)):
                ops.append('itrget')
                if rng.random() < 0.4: ops.append('itrrm')
                if rng.random() < 0.1: ops.append('itrrm')
                ops.append('itrnext')
            ops += ['trav 2 0 0', 'len']
    ops += ['trav 2 0 0', 'trav 0 0 0', 'trav 1 0 0', 'len', 'free']
    return 'bst %d %d' % (k, dtor), ops

def exhaustive_bst(nkeys):
    """every insertion order of nkeys keys, then every single removal, with traversals"""
    keys = [10 * (i + 1) for i in range(nkeys)]
    for perm in itertools.permutations(keys):
        for victim in keys:
            ops = ['ins %d' % x for x in perm] + ['rm %d' % victim, 'trav 2 0 0', 'trav 0 0 0', 'trav 1 0 0', 'len']
            ops += ['itrnew'] + ['itrget', 'itrrm', 'itrnext'] * nkeys + ['len', 'free']
            yield 'bst 0 1', ops

# ---------------------------------------------------------------- mem
def gen_mem(rng):
    ops, live, refs = [], {}, {}
    nid = 1
    for _ in range(rng.randint(3, 30)):
        r = rng.random()
        if r < 0.35 or not live:
            size = rng.choice([0, 1, 7, 8, 9, 15, 16, 17, 24, 31, 32, 33, 100, rng.randint(0, 4096)])
            dtor = rng.randint(0, 1)
            kids = []
            if dtor and live and rng.random() < 0.6:
                for kid in rng.sample(sorted(live), min(len(live), rng.randint(1, 3))):
                    ops.append('ref %d' % kid); live[kid] += 1      # the new block owns one reference on kid
                    kids.append(kid)
            ops.append('new %d %d %d %s' % (nid, size, dtor, ' '.join(map(str, kids))))
            live[nid] = 1; refs[nid] = kids; nid += 1
        elif r < 0.55:
            ops.append('ref %d' % rng.choice(sorted(live))); live[int(ops[-1].split()[1])] += 1
        elif r < 0.85:
            x = rng.choice(sorted(live)); ops.append(rng.choice(['unref', 'unrefp']) + ' %d' % x)
            def drop(b):
                live[b] -= 1
                if live[b] == 0:
                    del live[b]
                    for kid in refs.get(b, []):
                        if kid in live: drop(kid)
            drop(x)
        elif r < 0.95:
            ops.append('size %d' % rng.choice(sorted(live)))
        else:
            ops.append('null %d' % rng.randint(0, 3))
    return 'mem', ops

def exhaustive_mem_sizes(lo, hi):
    for base in range(lo, hi, 64):
        ops = []
        for i, size in enumerate(range(base, min(base + 64, hi))):
            ops += ['new %d %d 1' % (i + 1, size), 'size %d' % (i + 1), 'unref %d' % (i + 1)]
        yield 'mem', ops

# ---------------------------------------------------------------- map
class MapPools:
    """key pools chosen with the REAL hash function (values printed by the C driver):
    random keys, keys sharing one home slot, keys homed at the last slot(s) of the
    default table, keys on consecutive home slots"""
    def __init__(self, hashes, size):
        self.h = hashes; self.size = size
        by_home = {}
        for k, h in hashes.items(): by_home.setdefault(h % size, []).append(k)
        self.by_home = by_home
    def same_home(self, rng, n):
        homes = [h for h, ks in self.by_home.items() if len(ks) >= n]
        h = rng.choice(homes); return self.by_home[h][:n]
    def tail(self, rng, n, width=3):
        ks = []
        for h in range(self.size - width, self.size): ks += self.by_home.get(h, [])
        rng.shuffle(ks); return ks[:n]
    def consecutive(self, rng, n):
        start = rng.randrange(self.size); ks = []
        for i in range(n):
            c = self.by_home.get((start + i) % self.size, [])
            if c: ks.append(c[0])
        return ks
    def random(self, rng, n):
        return rng.sample(sorted(self.h), n)

def gen_map(rng, pools):
    upd, dup, dtor = rng.randint(0, 1), rng.randint(0, 1), rng.randint(0, 1)
    style = rng.random()
    if style < 0.25: keys = pools.random(rng, rng.randint(2, 12))
    elif style < 0.5: keys = pools.same_home(rng, rng.randint(2, 6)) + pools.random(rng, 2)
    elif style < 0.8: keys = pools.tail(rng, rng.randint(2, 8)) + pools.random(rng, 2)
    else: keys = pools.consecutive(rng, rng.randint(3, 10))
    keys = list(dict.fromkeys(keys))
    ops, val = [], 100
    for _ in range(rng.randint(4, 40)):
        r = rng.random(); k = rng.choice(keys)
        if r < 0.35: val += 1; ops.append('put %d %d' % (k, val))
        elif r < 0.38: ops.append('put %d %d' % (k, 100 + rng.randint(1, 3)))
        elif r < 0.5: ops.append('get %d' % k)
        elif r < 0.55: ops.append('has %d' % k)
        elif r < 0.7: ops.append('rm %d' % k)
        elif r < 0.75: ops.append('len')
        elif r < 0.77: ops.append('clear')
        elif r < 0.85: ops.append('iterate %d %d %d' % (rng.randint(0, 4), rng.choice([0, 0, 1, -5]), rng.randint(0, 1)))
        elif r < 0.87: ops.append('put %d 0' % k)
        else:
            ops.append('itrnew')
            for _ in range(rng.randint(1, 8)):
                ops += ['itrkey', 'itrget']
                q = rng.random()
                if q < 0.4: ops.append('itrrm')
                elif q < 0.5: val += 1; ops.append('itrset %d' % val)
                if rng.random() < 0.1: ops.append('itrrm')
                ops.append('itrnext')
            ops.append('len')
    for k in keys: ops.append('get %d' % k)
    ops += ['len', 'iterate 0 0 0', 'free']
    return 'map %d %d %d' % (upd, dup, dtor), ops, keys

def gen_map_big(rng, pools, nkeys):
    """growth across rehash (192+ entries) and long clusters"""
    upd, dup, dtor = 1, rng.randint(0, 1), 1
    keys = pools.random(rng, nkeys)
    ops = ['put %d %d' % (k, 1000 + i) for i, k in enumerate(keys)]
    ops.append('len')
    victims = rng.sample(keys, nkeys // 3)
    ops += ['rm %d' % k for k in victims]
    ops += ['get %d' % k for k in keys]
    ops += ['len', 'iterate 0 0 0', 'clear', 'len', 'free']
    return 'map %d %d %d' % (upd, dup, dtor), ops, keys

def gen_map_cluster(rng, pools, n_same, n_tail):
    """adversarial: a long cluster (same home) below the growth threshold + keys at the table end (D37/D38 shapes)"""
    keys = pools.same_home(rng, n_same) + pools.tail(rng, n_tail, width=2)
    keys = list(dict.fromkeys(keys))
    ops = ['put %d %d' % (k, 1000 + i) for i, k in enumerate(keys)]
    for k in rng.sample(keys, min(len(keys), 6)):
        ops.append('rm %d' % k)
        ops += ['has %d' % x for x in keys[:40]]
    ops += ['get %d' % k for k in keys] + ['len', 'free']
    return 'map 1 0 1', ops, keys
