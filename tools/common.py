# common.py -- build, run and compare machinery shared by all checks
import os, sys, subprocess, hashlib, json, time, random, re, shutil, tempfile

VERIF = os.path.dirname(os.path.dirname(os.path.abspath(__file__)))
REPO = os.environ.get('VERIF_REPO', '/repo')
LIB = os.path.join(REPO, 'Lib')
COQ = os.path.join(VERIF, 'coq')
CACHE = os.path.join(VERIF, '.cache')
OUT = os.path.join(VERIF, 'out')
GUARD = 'LIBMODULE_VERIF'
NPROC = int(os.environ.get('VERIF_NPROC', min(16, os.cpu_count() or 4)))

INCS = ['core', 'core/public', 'core/fs', 'core/poll', 'utils', 'structs', 'structs/public',
        'mem', 'mem/public', 'thpool', 'thpool/public']
CFLAGS = ['-std=gnu11', '-D_GNU_SOURCE', '-D' + GUARD, '-g', '-O1', '-fno-omit-frame-pointer',
          '-fsanitize=address,undefined', '-fno-sanitize-recover=all', '-w']

def sh(cmd, **kw):
    return subprocess.run(cmd, stdout=subprocess.PIPE, stderr=subprocess.STDOUT, text=True, **kw)

def tree_hash(paths):
    h = hashlib.sha256()
    for p in paths:
        if os.path.isdir(p):
            for root, dirs, files in sorted(os.walk(p)):
                dirs.sort()
                for f in sorted(files):
                    fp = os.path.join(root, f)
                    h.update(fp.encode()); h.update(open(fp, 'rb').read())
        elif os.path.exists(p):
            h.update(p.encode()); h.update(open(p, 'rb').read())
    return h.hexdigest()[:16]

def gen_headers():
    """cmake's configure step writes cmn.h / ctx.h next to their .h.in (git-ignored). When the tree lacks them (fresh restore,
    scratch copy) the same substitution (@VAR@ -> empty: no FUSE backend here) is done into a cache directory that is searched LAST."""
    gen = os.path.join(CACHE, 'gen')
    for root, dirs, files in os.walk(LIB):
        for f in files:
            if not f.endswith('.h.in'): continue
            src = os.path.join(root, f); real = src[:-3]
            dst = os.path.join(gen, os.path.relpath(real, LIB))
            if os.path.exists(real):
                if os.path.exists(dst): os.unlink(dst)
                continue
            text = re.sub(r'@\w+@', '', open(src).read())
            os.makedirs(os.path.dirname(dst), exist_ok=True)
            if not os.path.exists(dst) or open(dst).read() != text: open(dst, 'w').write(text)
    return gen

def inc_flags():
    gen = gen_headers()
    return ['-I' + os.path.join(LIB, i) for i in INCS] + ['-I' + os.path.join(gen, i) for i in ('core', 'core/public')]

# ---------------------------------------------------------------- T1: constants
def regen_consts():
    """compile tools/consts_probe.c against /repo and rewrite coq/Consts.v if it changed"""
    os.makedirs(CACHE, exist_ok=True)
    exe = os.path.join(CACHE, 'consts_probe')
    src = os.path.join(VERIF, 'tools', 'consts_probe.c')
    r = sh(['gcc', '-std=gnu11', '-D_GNU_SOURCE', '-DLIBMODULE_LOG_CTX=CORE', '-w',
            '-DREPO_MAP_C="%s"' % os.path.join(LIB, 'structs/map.c'),
            '-DREPO_MEM_C="%s"' % os.path.join(LIB, 'mem/mem.c')] + inc_flags() +
           [src, os.path.join(LIB, 'utils/mem.c'), os.path.join(LIB, 'utils/log.c'), '-o', exe])
    if r.returncode != 0:
        return False, 'consts probe does not compile against the tree:\n' + r.stdout[-2000:]
    r = sh([exe])
    if r.returncode != 0:
        return False, 'consts probe failed'
    dst = os.path.join(COQ, 'Consts.v')
    old = open(dst).read() if os.path.exists(dst) else ''
    if old != r.stdout:
        open(dst, 'w').write(r.stdout)
    return True, ''

def regen_guards():
    """T2: rewrite coq/Guards.v (guard macros of every public core function, read from the tree) if it changed"""
    import guards_scan
    ok, msg, _ = guards_scan.generate(os.path.join(COQ, 'Guards.v'), REPO)
    return ok, msg

# ---------------------------------------------------------------- Coq
def coq_makefile():
    if not os.path.exists(os.path.join(COQ, 'Makefile')) or \
       os.path.getmtime(os.path.join(COQ, 'Makefile')) < os.path.getmtime(os.path.join(COQ, '_CoqProject')):
        sh(['coq_makefile', '-f', '_CoqProject', '-o', 'Makefile'], cwd=COQ)

def coq_build(targets, timeout=3000):
    """full .vo build of the given targets (and what they depend on)"""
    coq_makefile()
    r = sh(['timeout', str(timeout), 'make', '-k', '-j%d' % NPROC] + targets, cwd=COQ)
    return r.returncode == 0, r.stdout

def coq_props(props_file, timeout=900):
    """(re)compile coq/<props_file>.v and parse what Print Assumptions printed.
    returns (ok, n_theorems, n_closed, axioms, log)"""
    ok, log = coq_build([props_file + '.vo'], timeout)
    # always re-run coqc on the small properties file to get a fresh transcript
    r = sh(['timeout', str(timeout), 'coqc', '-Q', '.', 'LM', props_file + '.v'], cwd=COQ)
    log += r.stdout
    ok = ok and r.returncode == 0
    src = open(os.path.join(COQ, props_file + '.v')).read()
    nthm = len(re.findall(r'^\s*Theorem\s', src, re.M))
    nprint = len(re.findall(r'^\s*Print Assumptions', src, re.M))
    closed = r.stdout.count('Closed under the global context')
    axioms = re.findall(r'^Axioms:\n((?:.+\n)+)', r.stdout, re.M)
    return ok and closed == nprint and nprint >= nthm and not axioms, nthm, closed, axioms, log

FORBIDDEN = re.compile(r'\b(Admitted|admit|Axiom|Axioms|Parameter|Parameters|Conjecture|Hypothesis|Unset Guard|bypass_check|Admit Obligations|native_compute|type-in-type)\b')
def coq_hygiene():
    """no Admitted/admit/Axiom/... anywhere in the development (Hypothesis/Variable only inside Sections)"""
    bad = []
    for f in sorted(os.listdir(COQ)):
        if not f.endswith('.v'): continue
        depth = 0
        for n, l in enumerate(open(os.path.join(COQ, f)), 1):
            code = re.sub(r'\(\*.*?\*\)', '', l)
            if re.match(r'\s*Section\s', code): depth += 1
            if re.match(r'\s*End\s', code) and depth > 0: depth -= 1
            m = FORBIDDEN.search(code)
            if m:
                if m.group(1) == 'Hypothesis' and depth > 0: continue
                bad.append('%s:%d: %s' % (f, n, l.strip()))
            if depth == 0 and re.match(r'\s*(Variable|Variables|Context)\s', code):
                bad.append('%s:%d: %s' % (f, n, l.strip()))
    return bad

# ---------------------------------------------------------------- OCaml model driver
def build_model(name):
    """build extract/build/model_<name> from coq/model*.ml (extracted) + glue + main_<name>.ml"""
    bdir = os.path.join(VERIF, 'extract', 'build')
    os.makedirs(bdir, exist_ok=True)
    srcs = [os.path.join(COQ, 'model.ml'), os.path.join(COQ, 'model.mli'),
            os.path.join(VERIF, 'extract', 'glue.ml'), os.path.join(VERIF, 'extract', 'main_%s.ml' % name)]
    for s in srcs:
        if not os.path.exists(s):
            return None, 'missing ' + s
    key = tree_hash(srcs)
    exe = os.path.join(bdir, 'model_%s_%s' % (name, key))
    if not os.path.exists(exe):
        tmp = tempfile.mkdtemp(dir=bdir)
        for s in srcs: shutil.copy(s, tmp)
        r = sh(['ocamlfind', 'ocamlopt', '-w', '-a', 'model.mli', 'model.ml', 'glue.ml', 'main_%s.ml' % name, '-o', exe], cwd=tmp)
        shutil.rmtree(tmp, ignore_errors=True)
        if r.returncode != 0:
            return None, r.stdout[-3000:]
    return exe, ''

# ---------------------------------------------------------------- C drivers
TSAN_CFLAGS = ['-std=gnu11', '-D_GNU_SOURCE', '-D' + GUARD, '-g', '-O1', '-fno-omit-frame-pointer', '-fsanitize=thread', '-w']

def build_driver(name, srcs, extra_flags=(), libs=(), cflags=None):
    """compile harness/<name>.c with the given /repo sources (ASan+UBSan); cache keyed by content"""
    os.makedirs(CACHE, exist_ok=True)
    drv = os.path.join(VERIF, 'harness', name + '.c')
    harness_dir = os.path.join(VERIF, 'harness')
    cflags = CFLAGS if cflags is None else cflags
    key = tree_hash([LIB, harness_dir]) + hashlib.sha256(' '.join(list(cflags) + list(extra_flags) + list(srcs)).encode()).hexdigest()[:6]
    exe = os.path.join(CACHE, '%s_%s' % (name, key))
    if not os.path.exists(exe):
        for f in os.listdir(CACHE):       # drop stale builds of this driver
            if f.startswith(name + '_'): os.unlink(os.path.join(CACHE, f))
        cmd = ['gcc'] + list(cflags) + list(extra_flags) + inc_flags() + ['-I' + harness_dir, drv] + \
              [os.path.join(LIB, s) for s in srcs] + ['-o', exe] + list(libs)
        r = sh(cmd)
        if r.returncode != 0:
            return None, r.stdout[-4000:]
    return exe, ''

ENV = dict(os.environ, ASAN_OPTIONS='detect_leaks=0:abort_on_error=1:handle_abort=1', UBSAN_OPTIONS='print_stacktrace=1')

def parse_out(text):
    """driver output -> {case id: [lines]}"""
    res, cur, cid = {}, None, None
    for l in text.splitlines():
        if l.startswith('case '):
            cid = l.split()[1]; cur = []
        elif l == 'end' and cur is not None:
            res[cid] = cur; cur = None
        elif cur is not None:
            cur.append(l)
    return res

def run_sharded(exe, cases, workdir, tag, nshards=None, timeout=600, args=()):
    """cases: list of (id, header, [op lines]); runs exe on shards in parallel; returns {id: [lines]}"""
    nshards = nshards or NPROC
    os.makedirs(workdir, exist_ok=True)
    shards = [cases[i::nshards] for i in range(nshards)]
    procs = []
    for i, sh_cases in enumerate(shards):
        if not sh_cases: continue
        path = os.path.join(workdir, '%s_%d.txt' % (tag, i))
        with open(path, 'w') as f:
            for cid, header, ops in sh_cases:
                f.write('case %s %s\n' % (cid, header)); f.write('\n'.join(ops)); f.write('\nend\n')
        errp = os.path.join(workdir, '%s_%d.err' % (tag, i))
        procs.append((subprocess.Popen([exe] + list(args) + [path], stdout=subprocess.PIPE, stderr=open(errp, 'w'), text=True, env=ENV), path))
    res = {}
    for p, path in procs:
        try:
            out, _ = p.communicate(timeout=timeout)
        except subprocess.TimeoutExpired:
            p.kill(); out, _ = p.communicate()
        res.update(parse_out(out))
    return res

# ---------------------------------------------------------------- misc
def case_rng(seed, prop, idx):
    h = hashlib.sha256(('%d/%s/%d' % (seed, prop, idx)).encode()).digest()
    return random.Random(int.from_bytes(h[:8], 'big'))

def write_evidence(pid, ev):
    os.makedirs(os.path.join(VERIF, 'evidence'), exist_ok=True)
    cov = ev.get('coverage', {})
    if cov.get('discharged', 1) < 1:
        # not one theorem of the property file checks (the file no longer compiles): the schema's proof keys need >= 1 discharged,
        # so the counts are reported under another name and the exploration-style counts describe the run
        cov['proof_obligations_failed'] = dict(obligations=cov.pop('obligations', 0), discharged=cov.pop('discharged', 0))
    with open(os.path.join(VERIF, 'evidence', pid + '.json'), 'w') as f:
        json.dump(ev, f, indent=1, sort_keys=True)

def load_known():
    """known_findings.txt -> list of dict(kind, property, id, signature, text)"""
    res = []
    p = os.path.join(VERIF, 'known_findings.txt')
    if not os.path.exists(p): return res
    for l in open(p):
        l = l.strip()
        if not l or l.startswith('#'): continue
        kind, _, rest = l.partition(':')
        d = dict(kind=kind.strip(), text=rest.strip())
        for m in re.finditer(r'(\w+)=(\S+)', rest):
            d.setdefault(m.group(1), m.group(2))
        res.append(d)
    return res
