# checkbase.py -- the generic shape of one property check (DESIGN 5)
import os, sys, time, json, re
from common import *

class Check:
    pid = None                # 'C12'
    level = 'proof'           # level written into the evidence (must match MANIFEST)
    props_file = None         # 'Props_C12'
    driver = None             # harness/<driver>.c
    driver_srcs = ()          # /repo sources compiled with it
    driver_flags = ()
    driver_libs = ()
    model = None              # extract/main_<model>.ml
    rule = ''                 # how cases are generated / what is non-trivial
    trusted = ()
    assumptions = ()

    # ---- to be provided by subclasses
    def cases(self, tier, seed, ctx):
        """-> list of (id, header, ops)"""
        raise NotImplementedError
    def corpus(self, ctx):
        return load_corpus(self.pid)
    def project(self, header, lines):
        """erase what the property does not constrain (exact negative codes)"""
        return [re.sub(r'\br-\d+', 'r-', l) for l in lines]
    def monitors(self, case, ctrace):
        """extra property checks on the implementation trace: -> list of (message, signature or None)"""
        return []
    def nontrivial(self, case, ctrace):
        return len(case[2]) >= 3
    def prepare(self, ctx):
        return True, ''
    def regen(self):
        """further model inputs regenerated from the tree before the theorems are re-checked (T1)"""
        return True, ''
    def side_checks(self, tier, seed, ctx, proof_ok):
        """further engines of this property: -> list of (replay file name, message, detail) for violations found; may add to ctx['cov_extra']"""
        return []

    # ---- machinery
    def build(self, ctx):
        exe, msg = build_driver(self.driver, self.driver_srcs, self.driver_flags, self.driver_libs)
        if not exe: return False, 'C driver does not build against the tree:\n' + msg
        ctx['cexe'] = exe
        mexe, msg = build_model(self.model)
        if not mexe: return False, 'model driver does not build:\n' + msg
        ctx['mexe'] = mexe
        return True, ''

    def run_both(self, cases, ctx, tag):
        wd = os.path.join(OUT, self.pid)
        c = run_sharded(ctx['cexe'], cases, wd, tag + '_c', args=ctx.get('cargs', ()))
        m = run_sharded(ctx['mexe'], cases, wd, tag + '_m')
        return c, m

    def judge(self, case, ctr, mtr):
        """-> (kind, msg, signature): kind in ok | prop | corr"""
        cid, header, ops = case
        ops = [o for o in ops if not o.startswith(('hash ', 'param '))]
        if ctr is None: return ('corr', 'implementation produced no trace', None)
        if mtr is None: return ('corr', 'model produced no trace', None)
        mons = self.monitors(case, ctr)
        if mons:
            return ('prop', mons[0][0], mons[0][1])
        if any(l.startswith('CRASH') or l.startswith('LEAK') or 'MISALIGNED' in l or 'BADFREE' in l for l in ctr):
            bad = [l for l in ctr if l.startswith('CRASH') or l.startswith('LEAK') or 'MISALIGNED' in l or 'BADFREE' in l][0]
            # "CRASH signal 6 <sanitizer error kind> <function>": the signature a known finding is matched by
            t = bad.split()
            sig = 'crash:' + ':'.join(t[3:5]) if bad.startswith('CRASH') and len(t) >= 5 else None
            return ('prop', 'implementation: ' + bad, sig)
        if ctr == mtr: return ('ok', '', None)
        if self.project(header, ctr) != self.project(header, mtr):
            pc, pm = self.project(header, ctr), self.project(header, mtr)
            i = first_diff(pc, pm)
            return ('prop', 'property-relevant observable #%d differs: impl "%s" vs model "%s"' % (i, get(pc, i), get(pm, i)), None)
        i = first_diff(ctr, mtr)
        return ('corr', 'trace differs at op %d (%s): impl "%s" vs model "%s"' %
                (i, ops[i] if i < len(ops) else '?', get(ctr, i), get(mtr, i)), None)

    def removable(self, line):
        return not line.startswith(('hash ', 'param ', 'mod '))

    def shrink(self, case, ctx, kind, sig=None):
        """delta-debug the removable lines while the verdict kind AND its signature stay the same (a shrink must not drift from a
        disagreement into, say, the crash of a known finding)"""
        cid, header, ops = case
        keep = list(range(len(ops)))
        rem = [i for i in keep if self.removable(ops[i])]
        n = 2; rounds = 0
        while len(rem) >= 2 and rounds < 40:
            rounds += 1
            chunk = max(1, len(rem) // n)
            cands = []
            for i in range(0, len(rem), chunk):
                drop = set(rem[i:i + chunk])
                cands.append([j for j in keep if j not in drop])
            cases = [('s%d' % j, header, [ops[q] for q in c]) for j, c in enumerate(cands)]
            c, m = self.run_both(cases, ctx, 'shrink')
            hit = None
            for j, cand in enumerate(cands):
                k = self.judge(cases[j], c.get('s%d' % j), m.get('s%d' % j))
                if k[0] == kind and k[2] == sig:
                    hit = cand; break
            if hit is not None:
                keep = hit; rem = [i for i in keep if self.removable(ops[i])]; n = max(n - 1, 2)
            else:
                if chunk == 1: break
                n = min(len(rem), n * 2)
        return (cid, header, [ops[i] for i in keep])

    def write_replay(self, name, case, ctr, mtr, verdict, extra=''):
        d = os.path.join(OUT, self.pid); os.makedirs(d, exist_ok=True)
        p = os.path.join(d, name)
        with open(p, 'w') as f:
            f.write('# property %s: %s\n' % (self.pid, verdict))
            if extra: f.write('# ' + extra.replace('\n', '\n# ') + '\n')
            if case:
                f.write('# replay: python3 tools/run.py replay %s %s\n' % (self.pid, p))
                f.write('case %s %s\n' % (case[0], case[1])); f.write('\n'.join(case[2])); f.write('\nend\n')
                f.write('# implementation trace:\n' + ''.join('#   %s\n' % l for l in (ctr or [])))
                f.write('# model trace:\n' + ''.join('#   %s\n' % l for l in (mtr or [])))
        return p

    def replay(self, path):
        ctx = {}
        ok, msg = self.build(ctx)
        if not ok: print(msg); return 1
        self.prepare(ctx)
        cases = read_cases(path)
        c, m = self.run_both(cases, ctx, 'replay')
        rc = 0
        for case in cases:
            k = self.judge(case, c.get(case[0]), m.get(case[0]))
            print('case %s: %s %s' % (case[0], k[0], k[1]))
            print('  impl : ' + ' | '.join(c.get(case[0]) or ['<none>']))
            print('  model: ' + ' | '.join(m.get(case[0]) or ['<none>']))
            if k[0] != 'ok': rc = 1
        return rc

    def check(self, tier, seed):
        t0 = time.time()
        ctx = {}
        shutil.rmtree(os.path.join(OUT, self.pid), ignore_errors=True)
        violations = []          # (replay path, suffix)
        known_hits = {}
        ev = dict(property_id=self.pid, tier=tier, seed=seed, level=self.level, violations=0,
                  assumptions=list(self.assumptions), coverage={})
        cov = ev['coverage']
        cov['trusted_base'] = list(self.trusted)
        cov['checker_cmd'] = 'coqc -Q coq LM coq/%s.v (full .vo build of its dependencies via coq_makefile; Print Assumptions parsed)' % self.props_file

        # 1. T1 constants, 2. theorems
        proof_ok = True; proof_msg = ''
        ok, msg = regen_consts()
        if not ok: proof_ok = False; proof_msg = msg
        if proof_ok:
            ok, msg = regen_guards()
            if not ok: proof_ok = False; proof_msg = msg
        if proof_ok:
            ok, msg = self.regen()
            if not ok: proof_ok = False; proof_msg = msg
        nthm = closed = 0
        if proof_ok:
            ok, nthm, closed, axioms, log = coq_props(self.props_file)
            bad = coq_hygiene()
            if not ok or bad:
                proof_ok = False
                errs = [l for l in log.splitlines() if 'Error' in l or 'rror:' in l]
                proof_msg = 'theorems of %s.v no longer check (%d of %d closed under the global context)%s\n%s' % (
                    self.props_file, closed, nthm, '; forbidden constructs: ' + '; '.join(bad) if bad else '',
                    '\n'.join(log.splitlines()[-25:]))
        cov['obligations'] = max(nthm, 1); cov['discharged'] = closed if proof_ok else min(closed, max(nthm - 1, 0))

        # 3. drivers
        ok, msg = self.build(ctx)
        if not ok:
            p = self.write_replay('build_failure.txt', None, None, None, 'the check cannot be built against the tree', msg)
            print(msg[-3000:])
            print('VIOLATION property=%s replay=%s no-failing-input-found' % (self.pid, p))
            ev['violations'] = 1; ev['wall_s'] = round(time.time() - t0, 1)
            cov.update(evaluations=0, distinct_nontrivial=0, rule=self.rule, samples=[])
            write_evidence(self.pid, ev); return 1
        ok, msg = self.prepare(ctx)

        # 4. scripts
        cases = self.corpus(ctx) + self.cases(tier, seed, ctx)
        if not proof_ok:
            # a proof broke: search harder (10x budget, further seeds)
            for extra in range(1, 4):
                more = self.cases(tier, seed + 1000 * extra, ctx)
                cases += [('x%d_%s' % (extra, c[0]), c[1], c[2]) for c in more]
        c, m = self.run_both(cases, ctx, 'main')
        # a case killed by the harness watchdog (SIGALRM) or lost with its shard on an overloaded machine is run again, alone, before it is judged
        again = [cs for cs in cases if c.get(cs[0]) is None or any(l.startswith('CRASH signal 14') for l in c.get(cs[0]))]
        if again and len(again) <= 500:
            c2 = run_sharded(ctx['cexe'], again, os.path.join(OUT, self.pid), 'retry_c', nshards=2, args=ctx.get('cargs', ()))
            for cs in again:
                if c2.get(cs[0]) is not None: c[cs[0]] = c2[cs[0]]
            ctx.setdefault('cov_extra', {})['rerun_after_watchdog'] = len(again)

        # a case whose traces disagree is run once more on an otherwise idle machine before it is judged: a real disagreement is
        # deterministic and shows again; one caused by a timing bound of the harness on the overloaded machine does not
        suspects = [cs for cs in cases if self.judge(cs, c.get(cs[0]), m.get(cs[0]))[0] != 'ok']
        if suspects and len(suspects) <= 400:
            c3 = run_sharded(ctx['cexe'], suspects, os.path.join(OUT, self.pid), 'recheck_c', nshards=2, args=ctx.get('cargs', ()))
            cleared = 0
            for cs in suspects:
                if c3.get(cs[0]) is not None and self.judge(cs, c3.get(cs[0]), m.get(cs[0]))[0] == 'ok':
                    c[cs[0]] = c3[cs[0]]; cleared += 1
            ctx.setdefault('cov_extra', {})['rechecked_alone'] = len(suspects); ctx['cov_extra']['cleared_by_recheck'] = cleared

        # 5. classify
        known = [k for k in load_known() if k.get('property') == self.pid and k['kind'] == 'known']
        distinct = set(); nontriv = 0; corr_bad = []; prop_bad = []
        hist = {}
        for case in cases:
            ctr, mtr = c.get(case[0]), m.get(case[0])
            key = (case[1], tuple(case[2]))
            if key not in distinct:
                distinct.add(key)
                if self.nontrivial(case, ctr): nontriv += 1
            for o in case[2]:
                w = o.split()[0]; hist[w] = hist.get(w, 0) + 1
            k = self.judge(case, ctr, mtr)
            if k[0] == 'prop':
                kf = [x for x in known if x.get('signature') and x.get('signature') == k[2]]
                if kf:
                    known_hits.setdefault(kf[0]['id'], (kf[0], case, k[1]))
                else:
                    prop_bad.append((case, k))
            elif k[0] == 'corr':
                corr_bad.append((case, k))
        # every known finding's own replay is run explicitly (its corpus file is part of self.corpus)
        for kf in known:
            if kf['id'] in known_hits:
                print('KNOWN-FINDING: %s' % kf['text'])

        side = self.side_checks(tier, seed, ctx, proof_ok)
        for name, msg, detail in side:
            p = self.write_replay(name, None, None, None, 'VIOLATED: ' + msg,
                                  detail + ('' if proof_ok else '\nproofs BROKEN: ' + proof_msg))
            violations.append((p, ''))
        if side: pass
        elif prop_bad:
            case, k = prop_bad[0]
            small = self.shrink(case, ctx, 'prop', k[2])
            cc, mm = self.run_both([small], ctx, 'final')
            k2 = self.judge(small, cc.get(small[0]), mm.get(small[0]))
            p = self.write_replay('violation_%s.txt' % case[0], small, cc.get(small[0]), mm.get(small[0]),
                                  'VIOLATED on this input: ' + (k2[1] or k[1]),
                                  '%d failing cases in this run; proofs %s' % (len(prop_bad), 'check' if proof_ok else 'BROKEN: ' + proof_msg))
            violations.append((p, ''))
        elif corr_bad:
            case, k = corr_bad[0]
            small = self.shrink(case, ctx, 'corr')
            cc, mm = self.run_both([small], ctx, 'final')
            p = self.write_replay('correspondence_%s.txt' % case[0], small, cc.get(small[0]), mm.get(small[0]),
                                  'correspondence model<->implementation broken (%s); no input found on which the property itself fails' % k[1],
                                  '%d differing cases; the theorems of %s.v speak about a model that no longer matches the code' % (len(corr_bad), self.props_file))
            violations.append((p, ' no-failing-input-found'))
        elif not proof_ok:
            p = self.write_replay('proof_broken.txt', None, None, None,
                                  'theorem(s) of coq/%s.v no longer check against the regenerated model inputs' % self.props_file, proof_msg)
            print(proof_msg[-3000:])
            violations.append((p, ' no-failing-input-found'))

        # 6. evidence
        cov.update(evaluations=len(cases), programs=len(cases), distinct_nontrivial=nontriv, rule=self.rule,
                   traces_validated_against_impl=sum(1 for cs in cases if c.get(cs[0]) is not None and c.get(cs[0]) == m.get(cs[0])),
                   disagreements_checked=len(corr_bad) + len(prop_bad),
                   known_findings_reproduced=sorted(known_hits),
                   op_histogram=hist,
                   samples=[dict(case=cs[1], ops=cs[2][:40], impl_trace=(c.get(cs[0]) or [])[:40]) for cs in cases[:2] + cases[-1:]],
                   exhaustive=False)
        cov.update(ctx.get('cov_extra', {}))
        ev['violations'] = len(violations)
        ev['wall_s'] = round(time.time() - t0, 1)
        write_evidence(self.pid, ev)
        for p, suffix in violations:
            print('VIOLATION property=%s replay=%s%s' % (self.pid, p, suffix))
        if not violations:
            print('%s ok: %d theorems closed, %d scripts (%d distinct non-trivial) agree with the implementation, %.0fs' %
                  (self.pid, closed, len(cases), nontriv, time.time() - t0))
        return 1 if violations else 0

def first_diff(a, b):
    for i in range(max(len(a), len(b))):
        if i >= len(a) or i >= len(b) or a[i] != b[i]: return i
    return -1
def get(l, i): return l[i] if l is not None and 0 <= i < len(l) else '<missing>'

def read_cases(path):
    cases, cur = [], None
    for l in open(path):
        l = l.rstrip('\n')
        if l.startswith('#') or not l.strip(): continue
        if l.startswith('case '):
            t = l.split(None, 2); cur = (t[1], t[2] if len(t) > 2 else '', [])
        elif l.strip() == 'end' and cur:
            cases.append(cur); cur = None
        elif cur is not None:
            cur[2].append(l)
    return cases

def load_corpus(pid):
    d = os.path.join(VERIF, 'corpus', pid)
    res = []
    if os.path.isdir(d):
        for f in sorted(os.listdir(d)):
            if f.endswith('.txt'):
                for (cid, header, ops) in read_cases(os.path.join(d, f)):
                    res.append(('corpus_%s_%s' % (f[:-4], cid), header, ops))
    return res
