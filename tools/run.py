#!/usr/bin/env python3
# run.py -- `run.py check Cxx` decides one property (see DESIGN.md 2, 5).
#   1. regenerate coq/Consts.v from /repo (T1)          2. build Props_Cxx.vo, parse Print Assumptions
#   3. build the C driver from /repo's working tree      4. corpus + generated scripts through C and model
#   5. classify (known findings, violation, no-failing-input-found)   6. evidence/Cxx.json
import os, sys, time, json, argparse
sys.path.insert(0, os.path.dirname(os.path.abspath(__file__)))
from common import *
import props_structs

REGISTRY = {}
REGISTRY.update(props_structs.REGISTRY)
try:
    import props_core
    REGISTRY.update(props_core.REGISTRY)
except ImportError:
    pass
try:
    import props_conc
    REGISTRY.update(props_conc.REGISTRY)
except ImportError:
    pass

def main():
    ap = argparse.ArgumentParser()
    ap.add_argument('cmd', choices=['check', 'replay', 'setup', 'list'])
    ap.add_argument('prop', nargs='?')
    ap.add_argument('path', nargs='?')
    ap.add_argument('--tier', default=os.environ.get('VERIF_TIER', 'quick'))
    a = ap.parse_args()
    seed = int(os.environ.get('VERIF_SEED', '1'))
    if a.cmd == 'list':
        print(' '.join(sorted(REGISTRY))); return 0
    if a.cmd == 'setup':
        return setup()
    if a.prop not in REGISTRY:
        print('unknown property', a.prop); return 2
    chk = REGISTRY[a.prop]
    if a.cmd == 'replay':
        return chk.replay(a.path)
    tier = 'thorough' if a.tier.startswith('t') else 'quick'
    return chk.check(tier, seed)

def setup():
    t0 = time.time()
    ok, msg = regen_consts()
    if not ok: print(msg); return 1
    import globals_scan
    ok, msg, _ = globals_scan.generate()          # coq/Globals.v is an input of GlobalsModel.v (C14)
    if not ok: print(msg); return 1
    ok, msg = regen_guards()                      # coq/Guards.v is an input of GuardsModel.v (T2)
    if not ok: print(msg); return 1
    coq_makefile()
    ok, log = coq_build([], timeout=3400)
    if not ok:
        print(log[-6000:]); print('SETUP: coq build failed'); return 1
    bad = coq_hygiene()
    if bad:
        print('\n'.join(bad)); print('SETUP: forbidden constructs in the development'); return 1
    for name in ('structs', 'core', 'thpool'):
        if os.path.exists(os.path.join(VERIF, 'extract', 'main_%s.ml' % name)):
            exe, msg = build_model(name)
            if not exe: print(msg); print('SETUP: model driver build failed'); return 1
    print('SETUP ok in %.0fs' % (time.time() - t0))
    return 0

if __name__ == '__main__':
    sys.exit(main())
