import subprocess, re, sys, os
COQ = os.environ.get('VERIF_COQ', '/verif/coq')
PROPS = {
 'C01': [('CoreLocal','guarded_call_refused'),('CoreLocal','dereg_zombie_refused'),('CoreLocal','mod_assert_zombie'),('CoreLocal2','no_ctx_mod_assert'),('GuardsModel','lifecycle_table_from_source'),('GuardsModel','wrong_state_refused_per_source'),('CoreInvInst','lifecycle_monotone'),('CoreInvInst','zombie_is_final'),('CoreInvInst','idle_never_reentered'),('CoreLoop','evaluate_idle_without_hook_starts'),('CoreLoop','evaluate_idle_cases'),('CoreLoop','pause_moves_running_count'),('CoreLoop','resume_moves_running_count'),('CorePass','pass_visits_every_module_once'),('CorePass','eval_pass_evaluates_every_module')],
 'C07': [('CoreLocal2','ctxreg_second_refused'),('CoreLocal2','no_ctx_refused'),('CoreLocal2','no_ctx_mod_assert'),('CoreLocal2','ctxdereg_looping_refused'),('CoreLocal2','finalized_refuses_register'),('CoreLocal2','finalize_sets'),('GuardsModel','ctx_table_from_source'),('GuardsModel','no_ctx_refused_per_source'),('CoreLoop','ctx_deregister_releases'),('CorePass','pass_visits_every_module_once'),('GuardsModel','parameter_checks_as_modelled')],
 'C15': [('CoreLocal2','same_name_refused'),('CoreLocal2','deny_pub_refused'),('CoreLocal2','deny_sub_refused'),('CoreLocal2','deny_ctx_hides_context'),('CoreLocal2','reserved_topic_refused'),('CoreLocal2','persist_dereg_refused'),('GuardsModel','pub_table_from_source'),('GuardsModel','sub_table_from_source'),('GuardsModel','deny_pub_refused_per_source'),('GuardsModel','deny_sub_refused_per_source'),('CoreInvInst','lifecycle_monotone')],
 'C16': [('CoreLocal2','unstash_exact'),('CoreLocal2','stash_appends'),('CoreLocal2','stash_high_refused'),('CoreLocal','guarded_call_refused'),('CoreInvInst','stack_and_stash_empty_unless_active')],
 'C17': [('CoreLocal','become_pushes'),('CoreLocal','unbecome_pops'),('CoreLocal','handler_is_top'),('CoreLocal','no_empty_invocation'),('CoreLocal','guarded_call_refused'),('CoreLocal6','become_then_next_invocation_uses_it'),('CoreLocal6','unbecome_then_next_invocation_uses_previous'),('CoreInvInst','stack_and_stash_empty_unless_active')],
 'C18': [('CoreLocal2','consume_token_spec'),('CoreLocal2','tb_bound'),('CoreLocal2','consume_token_is_tb_step'),('CoreInvInst','tokens_never_exceed_burst'),('GuardsModel','out_of_tokens_refused'),('GuardsModel','token_guarded_calls'),('GuardsModel','token_is_consumed_last'),('GuardsModel','every_api_has_a_row'),('GuardsModel','parameter_checks_as_modelled')],
 'C13': [('CoreLocal2','flush_now_cases'),('CoreLocal2','push_evt_user_event'),('CoreLocal2','push_evt_batch_timer')],
 'C09': [('CoreLocal3','register_present_eexist'),('CoreLocal3','register_absent_adds'),('CoreLocal3','register_bad_prio_refused'),('CoreLocal3','deregister_present_removes'),('CoreLocal3','deregister_absent_noop'),('CoreLocal3','remove_src_entry_exact'),('CoreLocal3','task_dereg_eperm'),('GuardsModel','prio_table_from_source'),('CoreInvS','source_identity_is_fixed'),('CoreStop','drop_sources_clears'),('GuardsModel','parameter_checks_as_modelled')],
 'C02': [('CoreLocal3','tell_copy_ineligible'),('CoreLocal3','tell_copy_appends'),('CoreLocal3','tell_copy_full_drops'),('CoreLocal3','pipe_capacity'),('CoreLocal3','deliver_direct'),('CoreSend','broadcast_reaches_exactly_the_eligible'),('CoreSend','publish_reaches_exactly_the_subscribed'),('CoreSend','tell_reaches_only_the_addressee')],
 'C08': [('CoreLocal3','tell_copy_appends'),('CoreLocal2','push_evt_user_event'),('CoreSend','broadcast_reaches_exactly_the_eligible'),('CoreSend','publish_reaches_exactly_the_subscribed'),('CoreLoop','process_one_takes_pipe_head'),('CoreLoop','pill_delivers_batch_before_stopping')],
 'C04': [('CoreLocal3','href_live'),('CoreLocal3','href_dead_faults'),('CoreLocal3','hunref_not_last'),('CoreLocal3','hunref_last'),('CoreLocal3','hunref_dead_faults'),('CoreLocal6','unfinished_task_disarm_faults'),('CoreLocal6','finished_task_disarm_ok'),('CoreInvH','freed_stays_freed')],
 'C03': [('CoreLocal4','recv_events_ignores_errno'),('CoreLocal4','set_errno_only'),('CoreLocal4','dispatch_cases'),('CoreLocal4','quit_sets_code'),('CoreLocal4','loop_stop_returns_quit_code'),('CoreLocal4','ready_set_sound'),('CoreLocal4','ready_set_bounded'),('CoreLocal2','push_evt_user_event'),('CoreLocal6','stale_readiness_skipped'),('CoreLocal6','path_fire_reaches_every_watch'),('CoreLocal6','path_fire_only_sources'),('CoreInvS','source_identity_is_fixed'),('CoreLoop','loop_returns_for_a_reason')],
 'C19': [('CoreLocal4','tell_system_shape'),('CoreLocal4','pause_notifies_once'),('CoreLocal4','resume_notifies_once'),('CoreLocal3','tell_copy_ineligible'),('CoreLocal3','tell_copy_appends'),('CoreSend','system_notification_reaches_exactly_the_subscribed'),('CoreLoop','loop_start_notifies_once')],
 'C14': [('CoreLocal5','mod_assert_other_ctx'),('CoreLocal5','mod_assert_no_ctx'),('CoreLocal5','failed_assert_refuses_everything'),('CoreLocal5','foreign_restores_owner_context'),('CoreLocal5','tell_other_ctx_refused'),('GlobalsModel','inventory_checked'),('GlobalsModel','no_race_given_inventory'),('GlobalsModel','contexts_share_no_unsynchronised_state')],
 'C20': [('CoreLocal3','dtor_ctx_closes_poll_handle'),('CoreLocal3','dtor_src_user_fd'),('CoreLocal3','poll_rm_closes_internal'),('CoreLocal3','poll_rm_idempotent'),('CoreLocal3','poll_add_opens_internal'),('CoreStop','drop_sources_clears')],
}
only = sys.argv[1:] 
for pid, lst in PROPS.items():
    if only and pid not in only: continue
    extra = ' Globals GlobalsModel' if any(f == 'GlobalsModel' for f, _ in lst) else ''
    if any(f in ('CoreInv', 'CoreInvInst') for f, _ in lst): extra += ' CoreInv CoreInvInst'
    if any(f == 'GuardsModel' for f, _ in lst): extra += ' GuardTypes Guards GuardsModel'
    for mod in ('CoreSend', 'CoreStop', 'CoreLoop', 'CorePass', 'CoreInvS', 'CoreInvH'):
        if any(f == mod for f, _ in lst): extra += ' ' + mod
    q = "From LM Require Import Base CoreTypes CoreModel CoreExec CoreLocal CoreLocal2 CoreLocal3 CoreLocal4 CoreLocal5 CoreLocal6" + extra + ".\nSet Printing Width 110.\nSet Printing Depth 1000.\n"
    for f, l in lst: q += 'Check @%s.%s.\n' % (f, l)
    open(COQ + '/Q_tmp.v','w').write(q)
    r = subprocess.run(['coqc','-Q','.','LM','Q_tmp.v'], cwd=COQ, stdout=subprocess.PIPE, stderr=subprocess.STDOUT, text=True)
    chunks = re.split(r'\n(?=@?\w+\.?\w*\n?\s+:)', '\n' + r.stdout)
    stmts = {}
    for c in chunks:
        m = re.match(r'\s*@?([\w\.]+)\s*\n?\s+:\s(.*)', c, re.S)
        if m: stmts[m.group(1).split('.')[-1]] = m.group(2).strip()
    bad = False
    out = "(* Props_%s.v -- property %s.  GENERATED by tools/genprops.py from the lemmas proved in CoreLocal*.v, CoreInv*.v, CoreSend.v, GuardsModel.v:\n   every statement is printed back by Coq (Check) and re-checked here; ONLY `exact` proofs + Print Assumptions.\n   One-step theorems hold for EVERY behaviour of user callbacks (run_cb is universally quantified) and every script;\n   the global ones (CoreInvInst) for every script and fuel; the *_from_source / *_per_source ones are about the guard table regenerated from the C source (Guards.v). *)\nFrom LM Require Import Base CoreTypes CoreModel CoreExec CoreLocal CoreLocal2 CoreLocal3 CoreLocal4 CoreLocal5 CoreLocal6%s.\n\n" % (pid, pid, extra)
    for f, l in lst:
        if l not in stmts: print('MISSING', pid, l, file=sys.stderr); bad = True; continue
        out += "Theorem %s_%s :\n  %s.\nProof. exact (@%s.%s). Qed.\nPrint Assumptions %s_%s.\n\n" % (pid, l, stmts[l].replace('\n', '\n  '), f, l, pid, l)
    if bad: print('NOT WRITTEN', pid, file=sys.stderr); continue
    open(COQ + '/Props_%s.v' % pid, 'w').write(out)
import os
for f in ('Q_tmp.v','Q_tmp.vo','Q_tmp.glob','Q_tmp.vok','Q_tmp.vos','.Q_tmp.aux'):
    try: os.unlink(COQ + '/' + f)
    except OSError: pass
